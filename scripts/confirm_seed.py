#!/usr/bin/env python3
"""Confirm a seeded change delivered by a sub-agent and file it under /verif/seeded/<id>-<X>/.

usage: confirm_seed.py <prop> <X> <demo-package-dir-relative-to-repo> [srcdir]

Confirms, in a scratch worktree of /repo's HEAD (removed afterwards):
  demo passes on the clean tree; patch applies; build ok; the existing suite passes exactly as before
  (only TestAsyncClient fails); demo fails with the patch.
"""
import json, os, shutil, subprocess, sys, glob

ENV = dict(os.environ, GOFLAGS="-mod=mod", GOPROXY="off", GOSUMDB="off", GOTOOLCHAIN="local")

def sh(cmd, cwd=None, check=False):
    p = subprocess.run(cmd, shell=True, cwd=cwd, env=ENV, stdout=subprocess.PIPE, stderr=subprocess.STDOUT, text=True)
    if check and p.returncode != 0:
        print(p.stdout)
        raise SystemExit(f"FAILED: {cmd}")
    return p.returncode, p.stdout

def suite(wt):
    rc, out = sh("go test -vet=off -count=1 ./... 2>&1 | grep -E '^(ok|FAIL|--- FAIL|panic)' ", cwd=wt)
    fails = sorted(l for l in out.splitlines() if l.startswith("--- FAIL") or l.startswith("panic"))
    return fails, out

def main():
    prop, X, pkgdir = sys.argv[1], sys.argv[2], sys.argv[3]
    src = sys.argv[4] if len(sys.argv) > 4 else f"/tmp/seedout/{prop}/{X}"
    patch = os.path.join(src, "patch.diff")
    demos = [f for f in glob.glob(os.path.join(src, "*_test.go"))]
    assert os.path.exists(patch) and len(demos) == 1, (patch, demos)
    demo = demos[0]
    wt = f"/tmp/confirm/{prop}{X}"
    sh(f"git -C /repo worktree remove --force {wt}")
    os.makedirs("/tmp/confirm", exist_ok=True)
    sh(f"git -C /repo worktree add --detach {wt} HEAD", check=True)
    try:
        dst = os.path.join(wt, pkgdir, "zz_seed_demo_test.go")
        shutil.copy(demo, dst)
        run = f"go test -vet=off -count=1 -run 'TestSeedDemo' ./{pkgdir}/"
        rc0, out0 = sh(run, cwd=wt)
        if rc0 != 0:
            print(out0[-3000:]); raise SystemExit("demo does not pass on the clean tree (current /repo HEAD)")
        rc, out = sh(f"git apply {patch}", cwd=wt)
        if rc != 0:
            print(out); raise SystemExit("patch does not apply to current /repo HEAD")
        sh("go build ./...", cwd=wt, check=True)
        os.rename(dst, dst + ".off")
        fails, so = suite(wt)
        os.rename(dst + ".off", dst)
        if fails != ["--- FAIL: TestAsyncClient (0.07s)"] and not (len(fails) == 1 and "TestAsyncClient" in fails[0]):
            print(so); raise SystemExit(f"existing suite changed with the patch: {fails}")
        rc1, out1 = sh(run, cwd=wt)
        if rc1 == 0:
            print(out1[-2000:]); raise SystemExit("demo still passes with the patch")
        notes = ""
        if os.path.exists(os.path.join(src, "notes.txt")):
            notes = open(os.path.join(src, "notes.txt")).read()
        out_dir = f"/verif/seeded/{prop}-{X}"
        os.makedirs(out_dir, exist_ok=True)
        shutil.copy(patch, os.path.join(out_dir, "patch.diff"))
        shutil.copy(demo, os.path.join(out_dir, "zz_seed_demo_test.go.txt"))
        head = subprocess.check_output("git -C /repo rev-parse --short HEAD", shell=True, text=True).strip()
        meta = {
            "property": prop,
            "variant": X,
            "origin": "independent sub-agent given only the property record and a scratch worktree",
            "demo_package_dir": pkgdir,
            "demo_file": "zz_seed_demo_test.go.txt (copy into demo_package_dir as zz_seed_demo_test.go)",
            "needs_to_manifest": notes.strip(),
            "confirmed_at_repo_head": head,
            "what_was_run": [
                f"git worktree add {wt} HEAD; copy demo; `{run}` -> pass on clean tree",
                "git apply patch.diff; go build ./...; go test -vet=off -count=1 ./... -> only TestAsyncClient fails (as on the clean tree)",
                f"`{run}` -> FAIL with the patch",
            ],
            "demo_failure_tail": out1[-600:],
        }
        json.dump(meta, open(os.path.join(out_dir, "meta.json"), "w"), indent=1)
        print(f"confirmed {prop}-{X}")
    finally:
        sh(f"git -C /repo worktree remove --force {wt}")

if __name__ == "__main__":
    main()
