#!/usr/bin/env python3
"""Regenerates /verif/MANIFEST.json from the table below (single source of truth for claims)."""
import json, os, sys

HERE = os.path.dirname(os.path.dirname(os.path.abspath(__file__)))

# id -> (technique, level text, level note, design_ref)
CLAIMED = {
 "C12": ("conditional constant propagation over band constructors' literal RX1/channel tables + finite-domain specialisation of accessor ASTs + SSA dominating-guard rule for signed indices, compared with a transcribed regional oracle",
         "Static decision of the table/accessor clauses of C12 for every band configuration (all RX1 cells, all channel indices, all guard-accepted (DR,offset) points of the AS923 function): closure, shape, formula/row equality, RX1-channel rule, ping-slot constants and hop expression components, signed-index guards. Exhaustive over literals, not a behavioural proof: lookup-by-frequency semantics and DevAddr/beacon arithmetic are only checked structurally.",
         "Trusts go/types, go/ssa, the table evaluator in internal/tables, and spec/regional.json (hand transcription of the Regional Parameters; revision-dependent cells not armed).",
         "DESIGN.md §3 C12"),
 "C13": ("conditional constant propagation over every band constructor's literal tables (all configurations), relational checks on all max-payload cells, comparison with a transcribed regional oracle",
         "Static, exhaustive decision of C13's table clauses: closure of every DR reference, latest/latest fallback completeness and fallback keys, M=N+8, N<=242, repeater<=non-repeater, SF-monotonicity per bandwidth and direction, DR-definition injectivity per direction, default channels/RX2/DR definitions/TX-power step = oracle. Max-payload numeric values per RP revision are not compared (relations only).",
         "Trusts go/types constant evaluation, internal/tables evaluator, spec/regional.json.",
         "DESIGN.md §3 C13"),

 "C20": ("literal-table evaluation of the leap-second / GPS-epoch / EIRP tables against a transcribed oracle, loop index-coverage rule on the two GPS conversions, SSA dominating-guard rule on the EIRP decode, SSA div-before-mul rule in package airtime",
         "Static decision of C20's table clauses (18 leap seconds, epoch, 16 EIRP codes, ordering) plus three structural necessary conditions of its conversion clauses (every table entry consulted; decode index guarded; no scaled-up truncated quotient in airtime). Round-trip/monotonicity of the conversions, the float airtime formula and sensitivity numerics are runtime-value behaviour and are not decided.",
         "Trusts go/types, go/ssa, package time, spec/time.json.",
         "DESIGN.md §3 C20"),

 "C06": ("bit-precise abstract interpretation (BDD vectors over field/wire bits, if-converted control flow, linear forms for unit scaling) of every fixed-layout MarshalBinary/UnmarshalBinary, compared bit-for-bit with an independently transcribed layout table; registry literal compared with the specification's command list",
         "Static decision, for all field values and all byte values at once, that each fixed-layout encoder's wire bits and each decoder's field values are the functions the specification table prescribes (position, width, endianness, 100 Hz unit, 6-bit two's complement, 1/256 s), that reserved bits are emitted as 0 and ignored on receipt, and that the registry matches. This is equivalence of extracted boolean functions, not sampling; it is 'other' rather than 'proof' because the extraction trusts my interpreter's operator semantics and the hand transcription, and revision-dependent cells are unarmed.",
         "Trusts internal/absint (operator semantics, models of encoding/binary/append/copy), props/wirespec_mac.go. Variable-length frames are covered by C01/C08.",
         "DESIGN.md §3 C06"),
 "C07": ("bit-precise abstract interpretation: encoder accept condition as a BDD compared with the specification range; decoder interpreted on the encoder's abstract output to prove decode(encode(v))=v for all accepted v; decoder interpreted on size±1 bytes; AST/SSA structural rules for the command-stream loop, registry and port-0 guard",
         "Static decision per MAC payload type of: every in-range value accepted, every accepted value representable (no silent truncation, unit scaling exact), lossless inverse for all accepted values, registry size = encoded length = decoder's exact-length test, plus the structural stream rules (guard before slice, advance by 1+size, unknown CID size 0, port-0 guard truth table). Command sequences are covered through self-delimitation, not enumerated; DeviceTimeAns' missing range guard is outside the domain.",
         "Trusts internal/absint, props/wirespec_mac.go ranges; registry-writer/lock discipline comes from the effects engine (rule R6).",
         "DESIGN.md §3 C07"),

 "C18": ("bit-precise abstract interpretation of every application-layer payload codec in every gate variant (inverse under the specified bit widths, Size() agreement, trailing-byte and truncation runs) and of the TS005 key derivations with AES uninterpreted",
         "Static decision, for all in-width field values at once, of acceptance, Size() = encoded length, decode(encode(v)) = v, the lower-bound length convention required by the command-stream decoder, and rejection of truncated payloads, for 37 payload types / 50 variants; and equality of the multicast key blocks with TS005. Command sequences are covered by size/stream agreement rather than enumerated; behaviour outside the specified widths is not claimed.",
         "Trusts internal/absint, props/wirespec_app.go (widths, gate variants), AES as an uninterpreted function.",
         "DESIGN.md §3 C18"),

 "C01": ("bit-precise abstract interpretation of PHYPayload/MACPayload/FHDR/JoinAccept/CFList MarshalBinary then UnmarshalBinary on fully symbolic frames, one run per structural configuration (MType x FOpts length x FPort class x payload length x CFList shape), leaf-by-leaf equality of BDD vectors",
         "Static decision, for all field values of each of ~400 structural frame configurations at once, that encoding succeeds with the expected length and decoding the encoder's abstract output reproduces every leaf of the frame (FCnt mod 2^16; FOpts/FRMPayload as bytes), plus exact inversion of the fixed-layout sub-structures and the delegation of the text form. Structural configurations are enumerated (finite); values are not. MAC-command level equality of FOpts/FRMPayload contents is C07's subject.",
         "Trusts internal/absint; ClassB/FPending share a wire bit and are constrained equal; mask CFLists ending in an all-zero mask are excluded (trimmed by design).",
         "DESIGN.md §3 C01"),
 "C08": ("bit-precise abstract interpretation in the decode-then-encode direction on fully symbolic byte strings, one run per (MType, total length 0..44, FOptsLen nibble / rejoin type class) order type, with interpreter-requested trace partitioning; decoder accept condition as a BDD, containment in the encoder's accept condition and bitwise wire identity",
         "Static decision for every byte string of each of 3195 length/shape configurations at once: wherever the frame decoder accepts (reserved MHDR bits zero) the encoder does not refuse, and the re-encoding is the same length and bit-identical to the input; refutations carry a concrete frame. Lengths above 44 add no new order type of the decoders' length comparisons.",
         "Trusts internal/absint. Join-accept and proprietary payloads are opaque bytes at this level.",
         "DESIGN.md §3 C08"),

 "C02": ("abstract interpretation of calculateUplink/DownlinkDataMIC on symbolic frames, keys and counters with AES-CMAC as an uninterpreted function; B0/B1 bytes, message, key and MIC-byte composition compared with the specification's blocks; interpreter-requested trace partitioning; SSA provenance rules for the Set*/Validate* wrappers",
         "Static decision, for all keys, counters, addresses, flags and payload bytes at once (per frame shape and MAC version), that each MIC byte is the specified byte of the specified CMAC term, whose key, 16-byte B0/B1 block (incl. 32-bit FCnt, ACK-gated ConfFCnt mod 2^16, TxDr/TxCh, direction, length) and message are the specification's; consequently nothing else can influence the MIC. CMAC/AES numerics are trusted, concrete vectors are the test suite's job.",
         "Trusts internal/absint and the uninterpreted-function model of cmac/aes (equal inputs give equal outputs, nothing else assumed).",
         "DESIGN.md §3 C02"),
 "C03": ("abstract interpretation of EncryptFRMPayload/EncryptFOpts and the PHYPayload methods with AES uninterpreted; output compared byte-for-byte with an independently constructed data XOR AES(K, A_i) stream; involution and length by BDD equality; error discipline by SSA rules",
         "Static decision for all keys, addresses, 32-bit counters, directions and payload bytes at once (payload lengths 0..40 incl. non-aligned multi-block, FOpts 0..15 and the rejected 16) that the ciphertext is the specification keystream XOR, that the block counter is i, that re-applying restores the plaintext, and that the methods feed isUplink/DevAddr/32-bit FCnt/AFCntDown as specified. AES numerics trusted.",
         "Trusts internal/absint and AES as an uninterpreted function; Decrypt* decode steps and error-swallow rules come from the flow engine.",
         "DESIGN.md §3 C03"),
 "C04": ("abstract interpretation of the join MIC functions and join-accept encrypt/decrypt with AES/CMAC uninterpreted, OptNeg partitioned; MIC message, key and per-block cipher direction compared with an independently constructed expectation",
         "Static decision for all identifiers, nonces, keys and payload fields at once that the join/rejoin MIC input is MHDR|payload, the join-accept MIC input carries the JoinReqType|JoinEUI|DevNonce prefix exactly under OptNeg, encryption is per-block AES-decrypt over payload|MIC and decryption per-block AES-encrypt with the split at len-4 and re-parse of the 12/28-byte forms (all CFList shapes via partitioning). That AES encrypt/decrypt are mutually inverse and their numerics are trusted.",
         "Trusts internal/absint, uninterpreted AES/CMAC.",
         "DESIGN.md §3 C04"),
 "C11": ("bit-precise abstract interpretation of SetAddrPrefix/NwkID/NetIDType/IsNetID/NetID.ID on fully symbolic NetID and DevAddr, compared bit by bit / as boolean functions with the addressing table; binary identifier codecs via the codec harness; text/SQL forms via flow rules",
         "Static decision over all 2^24 NetIDs x 2^32 DevAddrs at once (BDD equality) of the prefix/NwkID/NwkAddr routing per NetID type, of NwkID extraction, of the leading-ones type decision and of the membership predicate, plus byte-reversal and exact-length tests of the four identifier binary codecs.",
         "Trusts internal/absint and the transcribed addressing table (widths 6,6,9,11,12,13,15,17; ID widths 6,6,9,21).",
         "DESIGN.md §3 C11"),

 "C15": ("SSA dominating-guard rule on channel accessors; who-writes/complement rules on SSA/AST; every band table constant passed through the MAC encoders with the bit-precise abstract interpreter; GetCFList specialised on each configuration's initial channel plan by constant propagation",
         "Static decision of structural necessary conditions of C15: signed-index guards (errors not panics), immutability of standard channels and partition predicates, encodability and exact round trip through the MAC codecs of every frequency/DR the band tables hold (all 38 configurations), and exactness of the initial CFList masks. Behaviour after arbitrary AddChannel/Disable/Enable histories (lookups, CFList of custom channels) is runtime state and is not decided.",
         "Trusts internal/tables, internal/absint, go/ssa dominators. ISM2400 frequencies that only NewChannelReq can carry are listed known findings.",
         "DESIGN.md §3 C15"),

 "C10": ("summary-based alias/effect analysis on go/ssa (separate loc and reach facts per value, typed heap, VTA dispatch, stdlib effect table), SSA definite-assignment over receiver field trees, must-held-lock dataflow; in-process positive fixture",
         "Static decision of the structural clauses of C10 over all 1 091 module functions: no decoder retains its input, no encoder leaks receiver memory, no exported function appends in place to caller-visible memory or reslices beyond len, read-only operations write nothing, every decoder overwrites every receiver leaf on every successful return, band constructors return fresh memory reaching no global, and every package-level variable is either never written after init or accessed only under its mutex. This is lock/alias discipline on all paths, not a schedule exploration; stdlib race freedom is assumed.",
         "Trusts go/ssa, the VTA call graph, the stdlib effect table in internal/effects/stdlib.go; known gaps: control dependence on old values, x[:0] resets.",
         "DESIGN.md §3 C10"),
 "C09": ("SSA guard analysis (engine E3): linear facts from dominating conditions, versioned loads, loop invariants for counted loops, interprocedural decision summaries and registry field invariants; every index/slice/division/shift/make/type-assertion/nil-dereference obligation reachable from a decoder root must be discharged, every loop must make progress; effect rule that no decoder writes through its input",
         "Static decision that no byte string can make a decoder panic or loop forever: all 119 decoder roots (UnmarshalBinary/Text/JSON, Decode*ToMACCommands, Decrypt*, Scan) and every module function they reach are analysed; each potentially panicking instruction is an obligation proved from dominating facts for all inputs, and every loop is shown to advance an index towards an invariant bound. Conservative: what cannot be proved is reported, so 'held' means proved. Allocation size proportional to the input follows from the make/append obligations being bounded by len(data) facts, not from a cost model.",
         "Trusts go/ssa, the VTA call graph, internal/guards (fact language, extern table of stdlib preconditions).",
         "DESIGN.md §3 C09"),

 "C19": ("SSA guard analysis (engine E3) of fragmentation.Encode, matrixLine, prbs23, isPower2: panic obligations, loop progress, systematic-prefix rule (first rows are the data slices appended in order and never written again), row-count rule, selectable-rows rule",
         "Static decision of the structural necessary conditions of C19: invalid sizes produce errors not panics (all div/mod/make/slice obligations discharged), the encoder terminates, the first len(data)/fragmentSize rows are the uncoded fragments in order, every successful return has at least M+redundancy rows, and the parity row selector can reach every data row. It does NOT decide recoverability of the data from any M-subset of rows (linear algebra over GF(2) on runtime matrices; declined in DESIGN.md).",
         "Trusts go/ssa, internal/guards.",
         "DESIGN.md §3 C19"),
 "C16": ("flow analysis on go/ssa (engine E5: symbolic terms with reaching-store memory walk, boolean guards compared by truth table, task pipelines as ordered function lists) for key/label/flag provenance, def-use over the task lists, validation order, id mirroring and result codes; bit-precise abstract interpretation of the key-derivation blocks (AES uninterpreted); effect summaries for handler statelessness",
         "Static decision of the structural clauses of C16: which root key, flags and nonces reach each derivation, which KEK/label wraps which key, that the join MIC is validated before keys are derived and ErrInvalidMIC/ErrDevEUINotFound map to MICFailed/UnknownDevEUI, that every context field a task reads was written earlier, that answers mirror the request ids, that the 16-byte derivation blocks equal the specification for all inputs, and that the handler writes no shared state. It does not execute the HTTP handler; agreement of the produced join-accept with a device's derivation follows from these clauses plus C04, not from an end-to-end run.",
         "Trusts go/ssa, internal/flow (no aliasing between distinct SSA base objects; callees do not retain pointers to caller locals), internal/absint, internal/effects. Known finding: rejoin OptNeg source.",
         "DESIGN.md §3 C16"),

 "C17": ("flow analysis on go/ssa (engine E5) of the backend JSON/text codecs: sibling agreement of Marshal*/Unmarshal* (hex, time layout, scaling constants), rounding discipline of float to integer conversions, struct-tag rules over every payload struct via go/types, key-envelope wrap/unwrap guards by truth table",
         "Static decision of the structural necessary conditions of C17's round-trip statement: no field is silently dropped by encoding/json, every custom codec pair uses one representation and one scaling constant both ways, decoding rounds instead of truncating, NewKeyEnvelope/Unwrap use the same cipher construction under complementary guards. It does not run encoding/json; equality of decode(encode(v)) for all values follows from these clauses and the documented behaviour of encoding/json, which is trusted.",
         "Trusts go/ssa, go/types struct tags, internal/flow, the documented behaviour of encoding/json, encoding/hex, strconv, time.",
         "DESIGN.md §3 C17"),
 "C05": ("bit-precise abstract interpretation of the property's whole call history on one symbolic frame: sender (EncryptFRMPayload, EncryptFOpts, Set*DataMIC, MarshalBinary) then receiver (UnmarshalBinary, full FCnt, Validate*DataMIC, DecryptFOpts / DecodeFOptsToMACCommands, DecryptFRMPayload) with AES and AES-CMAC as uninterpreted functions; receiver-side CMAC input compared with the received bytes",
         "Static decision of C05's composition clause for every structural configuration (direction x confirmed x MAC version x location of the MAC commands x payload length) and all field values, keys and counters at once: each step succeeds, the MIC validates, the received frame equals the original leaf by leaf; plus: the receiver authenticates exactly the received bytes. The tamper clause beyond that ('fails whenever the specification's MIC differs') rests on the MIC block rules claimed under C02.",
         "Trusts internal/absint (operator semantics, intrinsic models incl. maps and function values), AES/CMAC as functions of their inputs.",
         "DESIGN.md §3 C05"),
}

NOT_APPLICABLE = {
 "C14": "plan/apply fixpoint over runtime channel sets and mutation histories; no shape-decidable necessary condition short of the algorithm itself (DESIGN.md §3 C14)",
}

PENDING_REASON = "static check for this property is not built yet in this revision of /verif (work in progress, see DESIGN.md §7); not claimed until it is"

def main():
    props = [json.loads(l)["id"] for l in open(os.path.join(HERE, "properties.jsonl"))]
    checks = []
    for pid in props:
        if pid not in CLAIMED:
            continue
        tech, text, note, ref = CLAIMED[pid]
        checks.append({
            "property_id": pid,
            "quick_cmd": f"./scripts/check {pid} quick",
            "thorough_cmd": f"./scripts/check {pid} thorough",
            "evidence_file": f"evidence/{pid}.json",
            "replay_cmd_template": "./bin/lwstatic replay {path}",
            "engine": "lwstatic",
            "level_claimed": {"category": "other", "text": text, "design_ref": ref},
            "level_note": note,
            "technique": "static analysis: " + tech,
        })
    na = []
    for pid in props:
        if pid in CLAIMED:
            continue
        na.append({"property_id": pid, "reason": NOT_APPLICABLE.get(pid, PENDING_REASON)})
    m = {
        "version": 1,
        "setup_cmd": "./scripts/setup",
        "hooks": {
            "guard": "verif",
            "enable": "none needed: the checks read /repo's source (go/packages, go/ssa) and never build or run it; no hook commits exist",
            "baseline_off_cmd": "cd /repo && GOFLAGS=-mod=mod GOPROXY=off GOSUMDB=off go test -json -vet=off -count=1 -timeout 25m ./...",
            "source_commits": [],
            "add_only": True,
        },
        "engines": [{
            "name": "lwstatic",
            "path": "cmd/lwstatic",
            "serves_properties": sorted(CLAIMED),
            "kind_free_text": "repository-specific static analyser (go/packages + go/types + go/ssa, x/tools v0.29.0): literal-table evaluation (E2), SSA dominating-guard analysis (E3), effects/aliasing (E4), call-site/flow rules (E5), bit-provenance abstract interpreter (E1); spec oracles under spec/",
        }],
        "checks": checks,
        "notes": "All checks are static: they re-load and re-type-check /repo's working tree on every run; exit 0 = all obligations discharged or listed in known_findings.txt, exit 1 + VIOLATION line = refuted obligation naming the construct, exit 2 = machinery could not decide. /repo fix: commits are listed in known_findings.txt as fixed: lines.",
        "not_applicable": na,
    }
    json.dump(m, open(os.path.join(HERE, "MANIFEST.json"), "w"), indent=1)
    print("MANIFEST.json: %d checks, %d not_applicable" % (len(checks), len(na)))

if __name__ == "__main__":
    main()
