#!/bin/sh
# usage: scripts/regress_tail.sh   (development helper: targeted regression of the checks touched last; six jobs in parallel)
cd "$(dirname "$0")/.." || exit 2
export GOFLAGS=-mod=mod GOPROXY=off GOSUMDB=off GOTOOLCHAIN=local; unset GOWORK
./scripts/check C20 quick >/dev/null 2>&1
./scripts/seedmatrix > seedmatrix.out 2>&1 &
job() { # $1 = output, $2 = checks, rest = diffs
  out=$1; checks=$2; shift 2
  for d in "$@"; do ./scripts/benigntest -d "$d" $checks; done > "$out" 2>&1
}
set -- testdata/benign/app*.diff; n=$#; h=$((n/2))
i=0; A=""; B=""; for d in "$@"; do if [ $i -lt $h ]; then A="$A $d"; else B="$B $d"; fi; i=$((i+1)); done
job app_a.out "C09 C18 C19 C10" $A &
job app_b.out "C09 C18 C19 C10" $B &
set -- testdata/benign/root*.diff testdata/benign/own-fastpath.diff testdata/benign/own-pool-reset.diff; n=$#; h=$((n/2))
i=0; A=""; B=""; for d in "$@"; do if [ $i -lt $h ]; then A="$A $d"; else B="$B $d"; fi; i=$((i+1)); done
job root_a.out "C09 C04 C05 C07 C10" $A &
job root_b.out "C09 C04 C05 C07 C10" $B &
set -- testdata/benign/band*.diff testdata/benign/own-airtime-int.diff; n=$#; h=$((n/2))
i=0; A=""; B=""; for d in "$@"; do if [ $i -lt $h ]; then A="$A $d"; else B="$B $d"; fi; i=$((i+1)); done
job band_a.out "C09 C15 C10 C12 C13" $A &
job band_b.out "C09 C15 C10 C12 C13" $B &
wait
