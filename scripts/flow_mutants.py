#!/usr/bin/env python3
"""Mutant runner for the flow rules (C16, C17 and the C02/C03/C04/C11 flow rule sets, run as X02..X11 with
LW_FLOW_DEBUG=1): applies small edits to a scratch worktree of /repo (outside /repo and /verif, removed afterwards) and
runs the static checks on it. The mutated tree is only type-checked and analysed, never executed.
Expectations: a rule id substring (the mutant must be refuted by that rule), "silent" (behaviour-preserving rewrite:
no new violation and nothing undecided). Violations already present on the unmodified tree are ignored.
usage: scripts/flow_mutants.py [id-prefix]"""
import os, re, subprocess, sys, json

VER = os.path.dirname(os.path.dirname(os.path.abspath(__file__)))
WT = os.path.join(os.environ.get('TMPDIR', '/tmp'), 'lwflowmut.%d' % os.getpid())
ENV = dict(os.environ, GOFLAGS='-mod=mod', GOPROXY='off', GOSUMDB='off', GOTOOLCHAIN='local', LW_FLOW_DEBUG='1')
ENV.pop('GOWORK', None)

def sh(cmd, **kw):
    return subprocess.run(cmd, shell=True, stdout=subprocess.PIPE, stderr=subprocess.STDOUT, text=True, env=ENV, **kw)

def run_check(prop, repo):
    e = dict(ENV, LW_REPO=repo)
    p = subprocess.run([VER + '/scripts/check', prop, 'quick'], stdout=subprocess.PIPE, stderr=subprocess.STDOUT, text=True, env=e)
    out = p.stdout
    viol = re.findall(r'^   violation rule=\S+ key=(\S+)', out, re.M)
    und = re.findall(r'^UNDECIDED rule=\S+ key=(\S+)', out, re.M)
    extra = [l for l in out.splitlines() if 'LOAD FAILED' in l or 'PANIC' in l or l.startswith('VACUOUS')]
    return p.returncode, set(viol), set(und), extra, out

M = []
def m(id, prop, file, old, new, expect, count=1):
    M.append(dict(id=id, prop=prop, file=file, old=old, new=new, expect=expect, count=count))

JR = 'backend/joinserver/join_request.go'
RJ = 'backend/joinserver/rejoin_request.go'
JS = 'backend/joinserver/joinserver.go'
BE = 'backend/backend.go'
PH = 'phypayload.go'
FH = 'fhdr.go'
NI = 'netid.go'
PL = 'payload.go'

# ---------------- C16
m('c16-01-validate-removed', 'C16', JR, '\tsetJoinContext,\n\tvalidateMIC,\n', '\tsetJoinContext,\n', 'R4.order')
m('c16-02-validate-moved', 'C16', JR, '\tvalidateMIC,\n\tsetJoinNonce,\n\tsetSessionKeys,\n', '\tsetJoinNonce,\n\tsetSessionKeys,\n\tvalidateMIC,\n', 'R4.order')
m('c16-03-ids-not-swapped', 'C16', JR, '\t\tSenderID:        joinReqPL.ReceiverID,\n\t\tReceiverID:      joinReqPL.SenderID,', '\t\tSenderID:        joinReqPL.SenderID,\n\t\tReceiverID:      joinReqPL.ReceiverID,', 'R5.mirror')
m('c16-04-micfailed-code', 'C16', JR, '\t\t\tresCode = backend.MICFailed', '\t\t\tresCode = backend.JoinReqFailed', 'R6.codes')
m('c16-05-unknowndeveui-code', 'C16', JS, 'h.returnRejoinReqError(w, rejoinReqPL.BasePayload, http.StatusBadRequest, backend.UnknownDevEUI, err.Error())', 'h.returnRejoinReqError(w, rejoinReqPL.BasePayload, http.StatusBadRequest, backend.Other, err.Error())', 'R6.codes')
m('c16-06-appskey-nwkkey-under-optneg', 'C16', JR, 'getAppSKey(ctx.joinReqPayload.DLSettings.OptNeg, ctx.deviceKeys.AppKey,', 'getAppSKey(ctx.joinReqPayload.DLSettings.OptNeg, ctx.deviceKeys.NwkKey,', 'R2.keys')
m('c16-07-snwksintkey-appkey', 'C16', JR, 'getSNwkSIntKey(ctx.joinReqPayload.DLSettings.OptNeg, ctx.deviceKeys.NwkKey,', 'getSNwkSIntKey(ctx.joinReqPayload.DLSettings.OptNeg, ctx.deviceKeys.AppKey,', 'R2.keys')
m('c16-08-mic-nwkkey-under-optneg', 'C16', JR, 'jsIntKey, err := getJSIntKey(ctx.deviceKeys.NwkKey, ctx.devEUI)', 'jsIntKey, err := ctx.deviceKeys.NwkKey, error(nil)', 'R2.mic-enc')
m('c16-08b-mic-jsenckey', 'C16', JR, 'jsIntKey, err := getJSIntKey(ctx.deviceKeys.NwkKey, ctx.devEUI)', 'jsIntKey, err := getJSEncKey(ctx.deviceKeys.NwkKey, ctx.devEUI)', 'R2.mic-enc')
m('c16-09-rejoin-enc-nwkkey', 'C16', RJ, 'jsEncKey, err := getJSEncKey(ctx.deviceKeys.NwkKey, ctx.devEUI)', 'jsEncKey, err := ctx.deviceKeys.NwkKey, error(nil)', 'R2.mic-enc')
m('c16-10-rejoin-mic-jsenckey', 'C16', RJ, 'jsIntKey, err := getJSIntKey(ctx.deviceKeys.NwkKey, ctx.devEUI)', 'jsIntKey, err := getJSEncKey(ctx.deviceKeys.NwkKey, ctx.devEUI)', 'R2.mic-enc')
m('c16-11-validate-swallow', 'C16', JR, '\tif !ok {\n\t\treturn ErrInvalidMIC\n\t}', '\tif !ok {\n\t\treturn nil\n\t}', 'R4.errvar')
m('c16-12-validate-other-error', 'C16', JR, '\tif !ok {\n\t\treturn ErrInvalidMIC\n\t}', '\tif !ok {\n\t\treturn errors.New("invalid mic")\n\t}', 'R4.errvar')
m('c16-13-loop-swallow', 'C16', JR, '\t\tif err := f(&ctx); err != nil {\n\t\t\treturn ctx.joinAnsPayload, err\n\t\t}', '\t\tif err := f(&ctx); err != nil {\n\t\t\treturn ctx.joinAnsPayload, nil\n\t\t}', 'R4.loop')
m('c16-14-joinnonce-limit', 'C16', JR, 'ctx.deviceKeys.JoinNonce > (1<<24)-1', 'ctx.deviceKeys.JoinNonce > (1<<25)-1', 'R8.joinnonce')
m('c16-15-devaddr-not-echoed', 'C16', JR, '\t\t\tDevAddr:    ctx.joinReqPayload.DevAddr,\n', '', 'R8.echo')
m('c16-16-rxdelay-const', 'C16', RJ, 'RXDelay:    uint8(ctx.rejoinReqPayload.RxDelay),', 'RXDelay:    1,', 'R8.echo')
m('c16-17-setjoinnonce-removed-rejoin', 'C16', RJ, '\tsetRejoinContext,\n\tsetJoinNonce,\n', '\tsetRejoinContext,\n', 'R3.defuse')
m('c16-18-nskek-wrong-label', 'C16', JS, 'nsKEK, err := h.config.GetKEKByLabelFunc(joinReqPL.SenderID)', 'nsKEK, err := h.config.GetKEKByLabelFunc(joinReqPL.ReceiverID)', 'R2.chain')
m('c16-19-helper-transactionid', 'C16', JS, '\t\t\t\tTransactionID:   basePL.TransactionID,\n\t\t\t\tMessageType:     backend.JoinAns,', '\t\t\t\tTransactionID:   0,\n\t\t\t\tMessageType:     backend.JoinAns,', 'R5.mirror')
m('c16-20-homens-not-swapped', 'C16', JS, '\t\t\t\tSenderID:        homeNSReq.ReceiverID,\n\t\t\t\tReceiverID:      homeNSReq.SenderID,', '\t\t\t\tSenderID:        homeNSReq.SenderID,\n\t\t\t\tReceiverID:      homeNSReq.ReceiverID,', 'R5.mirror')
m('c16-21-appskey-ns-kek', 'C16', RJ, 'backend.NewKeyEnvelope(ctx.asKEKLabel, ctx.asKEK, ctx.appSKey)', 'backend.NewKeyEnvelope(ctx.nsKEKLabel, ctx.nsKEK, ctx.appSKey)', 'R2.kek')
m('c16-22-envelope-wrong-key', 'C16', JR, 'backend.NewKeyEnvelope(ctx.nsKEKLabel, ctx.nsKEK, ctx.sNwkSIntKey)', 'backend.NewKeyEnvelope(ctx.nsKEKLabel, ctx.nsKEK, ctx.fNwkSIntKey)', 'R2.kek')
m('c16-23-literal-kek-swapped', 'C16', JR, '\t\tasKEK:          asKEK,\n\t\tnsKEKLabel:     nsKEKLabel,\n\t\tnsKEK:          nsKEK,', '\t\tasKEK:          nsKEK,\n\t\tnsKEKLabel:     nsKEKLabel,\n\t\tnsKEK:          asKEK,', 'R2.chain')
m('c16-24-encrypt-before-mic', 'C16', RJ, '\tif err := phy.SetDownlinkJoinMIC(ctx.joinType, ctx.joinEUI, ctx.devNonce, jsIntKey); err != nil {\n\t\treturn err\n\t}\n\n\tif err := phy.EncryptJoinAcceptPayload(jsEncKey); err != nil {\n\t\treturn err\n\t}', '\tif err := phy.EncryptJoinAcceptPayload(jsEncKey); err != nil {\n\t\treturn err\n\t}\n\n\tif err := phy.SetDownlinkJoinMIC(ctx.joinType, ctx.joinEUI, ctx.devNonce, jsIntKey); err != nil {\n\t\treturn err\n\t}', 'R2.mic-enc')
m('c16-25-netid-from-receiver', 'C16', JR, 'ctx.netID.UnmarshalText([]byte(ctx.joinReqPayload.SenderID))', 'ctx.netID.UnmarshalText([]byte(ctx.joinReqPayload.ReceiverID))', 'R8.echo')
m('c16-26-resultcode-not-success', 'C16', JR, '\t\t\t\tResultCode: backend.Success,', '\t\t\t\tResultCode: backend.Other,', 'R8.echo')
m('c16-27-mic-key-validate', 'C16', JR, 'ctx.phyPayload.ValidateUplinkJoinMIC(ctx.deviceKeys.NwkKey)', 'ctx.phyPayload.ValidateUplinkJoinMIC(ctx.deviceKeys.AppKey)', 'R4.errvar')
m('c16-28-nwkskey-under-optneg', 'C16', JR, '\tif ctx.joinReqPayload.DLSettings.OptNeg {\n\t\t// LoRaWAN 1.1+', '\tif !ctx.joinReqPayload.DLSettings.OptNeg {\n\t\t// LoRaWAN 1.1+', 'R2.kek')
# behaviour preserving
m('c16-p1-locals-renamed', 'C16', JR, 'phy', 'frame', 'silent', count=-1)
m('c16-p2-helper-extracted', 'C16', JR, 'func setJoinNonce(ctx *context) error {', 'func nwkKeyOf(ctx *context) lorawan.AES128Key { return ctx.deviceKeys.NwkKey }\n\nfunc setJoinNonce(ctx *context) error {', 'silent')
m('c16-p3-helper-used', 'C16', JR, ['func setJoinNonce(ctx *context) error {', 'getFNwkSIntKey(ctx.joinReqPayload.DLSettings.OptNeg, ctx.deviceKeys.NwkKey,'], ['func nwkKeyOf(ctx *context) lorawan.AES128Key { return ctx.deviceKeys.NwkKey }\n\nfunc setJoinNonce(ctx *context) error {', 'getFNwkSIntKey(ctx.joinReqPayload.DLSettings.OptNeg, nwkKeyOf(ctx),'], 'silent')
m('c16-p4-validate-reordered', 'C16', JR, '\tif !ok {\n\t\treturn ErrInvalidMIC\n\t}\n\treturn nil', '\tif ok {\n\t\treturn nil\n\t}\n\treturn ErrInvalidMIC', 'silent')
m('c16-p5-appskey-single-call', 'C16', JR, '''	if ctx.joinReqPayload.DLSettings.OptNeg {
		ctx.appSKey, err = getAppSKey(ctx.joinReqPayload.DLSettings.OptNeg, ctx.deviceKeys.AppKey, ctx.netID, ctx.joinEUI, ctx.joinNonce, ctx.devNonce)
		if err != nil {
			return errors.Wrap(err, "get AppSKey error")
		}
	} else {
		ctx.appSKey, err = getAppSKey(ctx.joinReqPayload.DLSettings.OptNeg, ctx.deviceKeys.NwkKey, ctx.netID, ctx.joinEUI, ctx.joinNonce, ctx.devNonce)
		if err != nil {
			return errors.Wrap(err, "get AppSKey error")
		}
	}
''', '''	rootKey := ctx.deviceKeys.NwkKey
	if ctx.joinReqPayload.DLSettings.OptNeg {
		rootKey = ctx.deviceKeys.AppKey
	}
	ctx.appSKey, err = getAppSKey(ctx.joinReqPayload.DLSettings.OptNeg, rootKey, ctx.netID, ctx.joinEUI, ctx.joinNonce, ctx.devNonce)
	if err != nil {
		return errors.Wrap(err, "get AppSKey error")
	}
''', 'silent')
m('c16-p6-wrapper-switch-to-if', 'C16', JR, '''		switch errors.Cause(err) {
		case ErrInvalidMIC:
			resCode = backend.MICFailed
		default:
			resCode = backend.Other
		}
''', '''		resCode = backend.Other
		if errors.Cause(err) == ErrInvalidMIC {
			resCode = backend.MICFailed
		}
''', 'silent')
m('c16-p7-joinnonce-geq', 'C16', JR, 'ctx.deviceKeys.JoinNonce > (1<<24)-1', 'ctx.deviceKeys.JoinNonce >= 1<<24', 'silent')

CX = 'backend/joinserver/context.go'
m('c16-p8-key-cached-in-context', 'C16', [CX, JR, JR, RJ],
  ['\tdevEUI           lorawan.EUI64\n', '\tctx.devEUI = ctx.joinReqPayload.DevEUI\n\tctx.joinType = lorawan.JoinRequestType\n', 'getSNwkSIntKey(ctx.joinReqPayload.DLSettings.OptNeg, ctx.deviceKeys.NwkKey,', '\tctx.devEUI = ctx.rejoinReqPayload.DevEUI\n'],
  ['\tdevEUI           lorawan.EUI64\n\trootNwkKey       lorawan.AES128Key\n', '\tctx.devEUI = ctx.joinReqPayload.DevEUI\n\tctx.joinType = lorawan.JoinRequestType\n\tctx.rootNwkKey = ctx.deviceKeys.NwkKey\n', 'getSNwkSIntKey(ctx.joinReqPayload.DLSettings.OptNeg, ctx.rootNwkKey,', '\tctx.devEUI = ctx.rejoinReqPayload.DevEUI\n\tctx.rootNwkKey = ctx.deviceKeys.NwkKey\n'],
  'silent')
m('c16-30-key-cached-join-only', 'C16', [CX, JR, JR],
  ['\tdevEUI           lorawan.EUI64\n', '\tctx.devEUI = ctx.joinReqPayload.DevEUI\n\tctx.joinType = lorawan.JoinRequestType\n', 'getSNwkSIntKey(ctx.joinReqPayload.DLSettings.OptNeg, ctx.deviceKeys.NwkKey,'],
  ['\tdevEUI           lorawan.EUI64\n\trootNwkKey       lorawan.AES128Key\n', '\tctx.devEUI = ctx.joinReqPayload.DevEUI\n\tctx.joinType = lorawan.JoinRequestType\n\tctx.rootNwkKey = ctx.deviceKeys.NwkKey\n', 'getSNwkSIntKey(ctx.joinReqPayload.DLSettings.OptNeg, ctx.rootNwkKey,'],
  'R3.defuse')
m('c16-p9-split-session-keys', 'C16', [JR, JR, RJ],
  ['\tsetSessionKeys,\n\tcreateJoinAnsPayload,\n}', '\tctx.sNwkSIntKey, err = getSNwkSIntKey(', '\tsetSessionKeys,\n\tcreateRejoinAnsPayload,\n}'],
  ['\tsetSessionKeys,\n\tsetSessionKeys2,\n\tcreateJoinAnsPayload,\n}', '\treturn nil\n}\n\nfunc setSessionKeys2(ctx *context) error {\n\tvar err error\n\n\tctx.sNwkSIntKey, err = getSNwkSIntKey(', '\tsetSessionKeys,\n\tsetSessionKeys2,\n\tcreateRejoinAnsPayload,\n}'],
  'silent')
m('c16-29-key-cached-wrong', 'C16', [CX, JR, JR],
  ['\tdevEUI           lorawan.EUI64\n', '\tctx.devEUI = ctx.joinReqPayload.DevEUI\n\tctx.joinType = lorawan.JoinRequestType\n', 'getSNwkSIntKey(ctx.joinReqPayload.DLSettings.OptNeg, ctx.deviceKeys.NwkKey,'],
  ['\tdevEUI           lorawan.EUI64\n\trootNwkKey       lorawan.AES128Key\n', '\tctx.devEUI = ctx.joinReqPayload.DevEUI\n\tctx.joinType = lorawan.JoinRequestType\n\tctx.rootNwkKey = ctx.deviceKeys.AppKey\n', 'getSNwkSIntKey(ctx.joinReqPayload.DLSettings.OptNeg, ctx.rootNwkKey,'],
  'R2.keys')

# ---------------- C17
m('c17-01-layout-mismatch', 'C17', BE, 'time.Parse(time.RFC3339, string(text))', 'time.Parse(time.RFC3339Nano, string(text))', 'R2.pairs')
m('c17-02-percentage-const', 'C17', BE, '*p = Percentage(perc * 100)', '*p = Percentage(perc * 1000)', 'R2.pairs')
m('c17-03-frequency-divisor', 'C17', BE, 'json.Marshal(float64(f) / 1000000)', 'json.Marshal(float64(f) / 1000)', 'R2.pairs')
m('c17-04-unwrap-ignores-error', 'C17', BE, '\tb, err := keywrap.Unwrap(block, k.AESKey[:])\n\tif err != nil {\n\t\treturn key, errors.Wrap(err, "unwrap key errror")\n\t}\n', '\tb, _ := keywrap.Unwrap(block, k.AESKey[:])\n', 'R4.envelope')
m('c17-05-unwrap-swallow', 'C17', BE, '\t\treturn key, errors.Wrap(err, "unwrap key errror")', '\t\treturn key, nil', 'R4.envelope')
m('c17-06-label-not-set', 'C17', BE, '\t\tKEKLabel: kekLabel,\n', '', 'R4.envelope')
m('c17-07-guard-and', 'C17', BE, 'if kekLabel == "" || len(kek) == 0 {', 'if kekLabel == "" && len(kek) == 0 {', 'R4.envelope')
m('c17-08-wrap-clear-key', 'C17', BE, '\t\tAESKey:   HEXBytes(b),', '\t\tAESKey:   HEXBytes(key[:]),', 'R4.envelope')
m('c17-09-hex-decode-std', 'C17', BE, 'b, err := hex.DecodeString(strings.TrimPrefix(string(text), "0x"))\n\tif err != nil {\n\t\treturn err\n\t}\n\t*hb = HEXBytes(b)', 'b, err := hex.DecodeString(strings.TrimPrefix(string(text), "0x"))\n\tif err != nil {\n\t\treturn nil\n\t}\n\t*hb = HEXBytes(b)', 'R2.pairs')
m('c17-10-duplicate-key', 'C17', BE, '\tMACVersion string             `json:"MACVersion"` // e.g. "1.0.2"\n\tPHYPayload HEXBytes           `json:"PHYPayload"`\n\tDevEUI     lorawan.EUI64      `json:"DevEUI"`\n\tDevAddr    lorawan.DevAddr    `json:"DevAddr"`', '\tMACVersion string             `json:"MACVersion"` // e.g. "1.0.2"\n\tPHYPayload HEXBytes           `json:"PHYPayload"`\n\tDevEUI     lorawan.EUI64      `json:"DevEUI"`\n\tDevAddr    lorawan.DevAddr    `json:"DevEUI"`', 'R3.tags')
m('c17-11-parsefloat-32', 'C17', BE, 'mhz, err := strconv.ParseFloat(string(str), 64)', 'mhz, err := strconv.ParseFloat(string(str), 32)', 'R2.pairs')
m('c17-12-float32', 'C17', BE, 'json.Marshal(float64(f) / 1000000)', 'json.Marshal(float32(f) / 1000000)', 'R2.pairs')
m('c17-p1-locals-renamed', 'C17', BE, ['mhz, err := strconv', '*f = Frequency(mhz * 1000000)'], ['megahertz, err := strconv', '*f = Frequency(megahertz * 1000000)'], 'silent')
m('c17-p2-guard-demorgan', 'C17', BE, 'if kekLabel == "" || len(kek) == 0 {', 'if !(kekLabel != "" && len(kek) > 0) {', 'silent')
m('c17-p3-guard-len-label', 'C17', BE, 'if kekLabel == "" || len(kek) == 0 {', 'if len(kek) < 1 || len(kekLabel) == 0 {', 'silent')
m('c17-p4-formatfloat-minus1', 'C17', BE, 'return json.Marshal(float64(f) / 1000000)', 'return []byte(strconv.FormatFloat(float64(f)/1000000, \'f\', -1, 64)), nil', 'silent')

# ---------------- C03
m('c03-01-frm-swallow', 'X03', PH, '\tdata, err = EncryptFRMPayload(key, p.isUplink(), macPL.FHDR.DevAddr, macPL.FHDR.FCnt, data)\n\tif err != nil {\n\t\treturn err\n\t}', '\tdata, err = EncryptFRMPayload(key, p.isUplink(), macPL.FHDR.DevAddr, macPL.FHDR.FCnt, data)\n\tif err != nil {\n\t\treturn nil\n\t}', 'R5.errswallow')
m('c03-02-store-dropped', 'X03', PH, '\tmacPL.FRMPayload = []Payload{&DataPayload{Bytes: data}}\n', '\t_ = data\n', 'R6.success-store')
m('c03-03-fcnt-masked', 'X03', PH, 'EncryptFRMPayload(key, p.isUplink(), macPL.FHDR.DevAddr, macPL.FHDR.FCnt, data)', 'EncryptFRMPayload(key, p.isUplink(), macPL.FHDR.DevAddr, uint32(uint16(macPL.FHDR.FCnt)), data)', 'R4.wiring')
m('c03-04-uplink-negated', 'X03', PH, 'EncryptFRMPayload(key, p.isUplink(), macPL.FHDR.DevAddr,', 'EncryptFRMPayload(key, !p.isUplink(), macPL.FHDR.DevAddr,', 'R4.wiring')
m('c03-05-decode-on-nonzero-port', 'X03', PH, 'if macPL.FPort != nil && *macPL.FPort == 0 {\n\t\tmacPL.FRMPayload, err = decodeDataPayloadToMACCommands', 'if macPL.FPort != nil && *macPL.FPort != 0 {\n\t\tmacPL.FRMPayload, err = decodeDataPayloadToMACCommands', 'R4.wiring')
m('c03-06-afcntdown-fport-ge1-ok', 'X03', PH, 'macPL.FPort != nil && *macPL.FPort > 0 {\n\t\taFCntDown = true', 'macPL.FPort != nil && *macPL.FPort >= 1 {\n\t\taFCntDown = true', 'silent')
m('c03-07-afcntdown-fport-gt1', 'X03', PH, 'macPL.FPort != nil && *macPL.FPort > 0 {\n\t\taFCntDown = true', 'macPL.FPort != nil && *macPL.FPort > 1 {\n\t\taFCntDown = true', 'R4.wiring')
m('c03-08-fopts-wrong-key', 'X03', PH, 'EncryptFOpts(nwkSEncKey, aFCntDown, p.isUplink(), macPL.FHDR.DevAddr, macPL.FHDR.FCnt, macB)', 'EncryptFOpts(AES128Key{}, aFCntDown, p.isUplink(), macPL.FHDR.DevAddr, macPL.FHDR.FCnt, macB)', 'R4.wiring')
m('c03-09-decryptfopts-no-encrypt-check', 'X03', PH, '\tif err := p.EncryptFOpts(nwkSEncKey); err != nil {\n\t\treturn nil\n\t}\n', '\tp.EncryptFOpts(nwkSEncKey)\n', 'R6.success-store')
m('c03-p1-afcntdown-direct', 'X03', PH, '\tvar aFCntDown bool\n\tif !p.isUplink() && macPL.FPort != nil && *macPL.FPort > 0 {\n\t\taFCntDown = true\n\t}\n', '\taFCntDown := macPL.FPort != nil && !p.isUplink() && *macPL.FPort != 0\n', 'silent')

# ---------------- C04
m('c04-01-encrypt-uses-encrypt', 'X04', PH, '\t\tblock.Decrypt(ct[offset:offset+16], pt[offset:offset+16])', '\t\tblock.Encrypt(ct[offset:offset+16], pt[offset:offset+16])', 'R3.block-callee')
m('c04-02-offset-8', 'X04', PH, '\tfor i := 0; i < len(ct)/16; i++ {\n\t\toffset := i * 16\n\t\tblock.Decrypt', '\tfor i := 0; i < len(ct)/16; i++ {\n\t\toffset := i * 8\n\t\tblock.Decrypt', 'R3.block-callee')
m('c04-03-guard-negated', 'X04', PH, '\tif joinAccPL.DLSettings.OptNeg {\n\t\tmicBytes = append(micBytes, uint8(joinReqType))', '\tif !joinAccPL.DLSettings.OptNeg {\n\t\tmicBytes = append(micBytes, uint8(joinReqType))', 'R2.prefix-guard')
m('c04-04-prefix-order', 'X04', PH, '''		b, err = joinEUI.MarshalBinary()
		if err != nil {
			return mic, err
		}
		micBytes = append(micBytes, b...)

		b, err = devNonce.MarshalBinary()
		if err != nil {
			return mic, err
		}
		micBytes = append(micBytes, b...)
	}
''', '''		b, err = devNonce.MarshalBinary()
		if err != nil {
			return mic, err
		}
		micBytes = append(micBytes, b...)

		b, err = joinEUI.MarshalBinary()
		if err != nil {
			return mic, err
		}
		micBytes = append(micBytes, b...)
	}
''', 'R2.prefix-guard')
m('c04-05-mic-split-3', 'X04', PH, '\tp.MACPayload = &DataPayload{Bytes: ct[0 : len(ct)-4]}\n\tcopy(p.MIC[:], ct[len(ct)-4:])', '\tp.MACPayload = &DataPayload{Bytes: ct[0 : len(ct)-4]}\n\tcopy(p.MIC[:], ct[len(ct)-3:])', 'R3.block-callee')
m('c04-06-no-multiple-check', 'X04', PH, '\tpt = append(pt, p.MIC[0:4]...)\n\tif len(pt)%16 != 0 {\n\t\treturn errors.New("lorawan: plaintext must be a multiple of 16 bytes")\n\t}\n', '\tpt = append(pt, p.MIC[0:4]...)\n', 'R3.block-callee')
m('c04-07-first-block-only', 'X04', PH, '\tfor i := 0; i < len(ct)/16; i++ {\n\t\toffset := i * 16\n\t\tblock.Decrypt(ct[offset:offset+16], pt[offset:offset+16])\n\t}', '\tblock.Decrypt(ct[0:16], pt[0:16])', 'R3.block-callee')
m('c04-p1-offset-step16', 'X04', PH, '\tfor i := 0; i < len(ct)/16; i++ {\n\t\toffset := i * 16\n\t\tblock.Decrypt(ct[offset:offset+16], pt[offset:offset+16])\n\t}', '\tfor o := 0; o < len(ct); o += 16 {\n\t\tblock.Decrypt(ct[o:o+16], pt[o:o+16])\n\t}', 'silent-or-undecided')

# ---------------- C11
m('c11-01-scan-unchecked', 'X11', PH, '\tb, ok := src.([]byte)\n\tif !ok {\n\t\treturn errors.New("lorawan: []byte type expected")\n\t}\n\tif len(b) != len(k) {', '\tb := src.([]byte)\n\tif len(b) != len(k) {', 'R4.codecs')
m('c11-02-scan-overflow-only', 'X11', FH, '\tif len(b) != len(a) {\n\t\treturn fmt.Errorf("lorawan []byte must have length %d", len(a))', '\tif len(b) > len(a) {\n\t\treturn fmt.Errorf("lorawan []byte must have length %d", len(a))', 'R4.codecs')
m('c11-03-copy-dropped', 'X11', NI, '\tif len(b) != len(n) {\n\t\treturn fmt.Errorf("lorawan: exactly %d bytes are expected", len(n))\n\t}\n\tcopy(n[:], b)', '\tif len(b) != len(n) {\n\t\treturn fmt.Errorf("lorawan: exactly %d bytes are expected", len(n))\n\t}', 'R4.codecs')
m('c11-04-no-trim', 'X11', PL, 'b, err := hex.DecodeString(strings.TrimPrefix(string(text), "0x"))\n\tif err != nil {\n\t\treturn err\n\t}\n\tif len(e) != len(b) {', 'b, err := hex.DecodeString(string(text))\n\tif err != nil {\n\t\treturn err\n\t}\n\tif len(e) != len(b) {', 'R4.codecs')
m('c11-05-value-pointer-receiver', 'X11', FH, 'func (a DevAddr) Value() (driver.Value, error) {', 'func (a *DevAddr) Value() (driver.Value, error) {', 'R4.codecs')
m('c11-06-isnetid-no-copy', 'X11', FH, '\ttempDevAddr := a\n\ttempDevAddr.SetAddrPrefix(netID)', '\tvar tempDevAddr DevAddr\n\ttempDevAddr.SetAddrPrefix(netID)', 'R3.isnetid')
m('c11-07-isnetid-3bytes', 'X11', FH, '\tif a == tempDevAddr {\n\t\treturn true\n\t}\n\n\treturn false', '\treturn a[0] == tempDevAddr[0] && a[1] == tempDevAddr[1] && a[2] == tempDevAddr[2]', 'R3.isnetid')
m('c11-08-string-upper', 'X11', NI, 'func (n NetID) String() string {\n\treturn hex.EncodeToString(n[:])', 'func (n NetID) String() string {\n\treturn strings.ToUpper(hex.EncodeToString(n[:]))', 'R4.codecs-or-undecided')
m('c11-p1-isnetid-direct-return', 'X11', FH, '\tif a == tempDevAddr {\n\t\treturn true\n\t}\n\n\treturn false', '\treturn a == tempDevAddr', 'silent')
m('c11-p2-len-operands-swapped', 'X11', PH, '\tif len(b) != len(k) {\n\t\treturn fmt.Errorf("lorawan: exactly %d bytes are expected", len(k))', '\tif len(k) != len(b) {\n\t\treturn fmt.Errorf("lorawan: exactly %d bytes are expected", len(k))', 'silent')

# ---------------- C02
m('c02-01-compare-3-bytes', 'X02', PH, '\tmic, err := p.calculateDownlinkDataMIC(macVersion, confFCnt, sNwkSIntKey)\n\tif err != nil {\n\t\treturn false, err\n\t}\n\treturn p.MIC == mic, nil', '\tmic, err := p.calculateDownlinkDataMIC(macVersion, confFCnt, sNwkSIntKey)\n\tif err != nil {\n\t\treturn false, err\n\t}\n\treturn bytes.Equal(p.MIC[:3], mic[:3]), nil', 'R4.wrappers')
m('c02-02-set-not-stored', 'X02', PH, '\tmic, err := p.calculateUplinkDataMIC(macVersion, confFCnt, txDR, txCh, fNwkSIntKey, sNwkSIntKey)\n\tif err != nil {\n\t\treturn err\n\t}\n\tp.MIC = mic\n\treturn nil', '\t_, err := p.calculateUplinkDataMIC(macVersion, confFCnt, txDR, txCh, fNwkSIntKey, sNwkSIntKey)\n\tif err != nil {\n\t\treturn err\n\t}\n\treturn nil', 'R4.wrappers')
m('c02-03-keys-swapped', 'X02', PH, '\tmic, err := p.calculateUplinkDataMIC(macVersion, confFCnt, txDR, txCh, fNwkSIntKey, sNwkSIntKey)\n\tif err != nil {\n\t\treturn false, err\n\t}', '\tmic, err := p.calculateUplinkDataMIC(macVersion, confFCnt, txDR, txCh, sNwkSIntKey, fNwkSIntKey)\n\tif err != nil {\n\t\treturn false, err\n\t}', 'R4.wrappers')
m('c02-04-micf-version-10', 'X02', PH, 'p.calculateUplinkDataMIC(LoRaWAN1_1, 0, 0, 0, fNwkSIntKey, fNwkSIntKey)', 'p.calculateUplinkDataMIC(LoRaWAN1_0, 0, 0, 0, fNwkSIntKey, fNwkSIntKey)', 'R4.wrappers')
m('c02-05-micf-bytes-0-1', 'X02', PH, 'bytes.Equal(p.MIC[2:], mic[2:])', 'bytes.Equal(p.MIC[:2], mic[:2])', 'R4.wrappers')
m('c02-06-validate-true-on-error', 'X02', PH, '\tmic, err := p.calculateDownlinkDataMIC(macVersion, confFCnt, sNwkSIntKey)\n\tif err != nil {\n\t\treturn false, err\n\t}\n\treturn p.MIC == mic, nil', '\tmic, err := p.calculateDownlinkDataMIC(macVersion, confFCnt, sNwkSIntKey)\n\tif err != nil {\n\t\treturn false, nil\n\t}\n\treturn p.MIC == mic, nil', 'R4.wrappers')
m('c02-p1-renamed', 'X02', PH, '\tmic, err := p.calculateDownlinkDataMIC(macVersion, confFCnt, sNwkSIntKey)\n\tif err != nil {\n\t\treturn false, err\n\t}\n\treturn p.MIC == mic, nil', '\tcomputed, e := p.calculateDownlinkDataMIC(macVersion, confFCnt, sNwkSIntKey)\n\tif e != nil {\n\t\treturn false, e\n\t}\n\treturn computed == p.MIC, nil', 'silent')

def main():
    pref = sys.argv[1] if len(sys.argv) > 1 else ''
    sh(f'git -C /repo worktree remove --force {WT}')
    r = sh(f'git -C /repo worktree add --detach -q {WT} HEAD')
    if r.returncode != 0:
        print(r.stdout); sys.exit(2)
    base = {}
    try:
        for mu in M:
            if not mu['id'].startswith(pref):
                continue
            prop = mu['prop']
            if prop not in base:
                rc, v, u, x, _ = run_check(prop, WT)
                base[prop] = (v, u)
            sh(f'git -C {WT} checkout -q -- .')
            olds = mu['old'] if isinstance(mu['old'], list) else [mu['old']]
            news = mu['new'] if isinstance(mu['new'], list) else [mu['new']]
            files = mu['file'] if isinstance(mu['file'], list) else [mu['file']] * len(olds)
            okapply = True
            for fpath, o, n in zip(files, olds, news):
                path = os.path.join(WT, fpath)
                s = open(path).read()
                if s.count(o) == 0:
                    okapply = False
                if mu['count'] == -1:
                    s = re.sub(r'\b' + re.escape(o) + r'\b', n, s)
                else:
                    s = s.replace(o, n, 1)
                open(path, 'w').write(s)
            if not okapply:
                print(f"{mu['id']:40s} SKIP (pattern not found)")
                continue
            b = sh('go build ./...', cwd=WT)
            if b.returncode != 0:
                # try goimports-less fix: unused imports etc. are a mutant-authoring problem
                print(f"{mu['id']:40s} DOES-NOT-BUILD {b.stdout.strip().splitlines()[-1][:120]}")
                continue
            rc, v, u, x, out = run_check(prop, WT)
            nv = sorted(v - base[prop][0])
            nu = sorted(u - base[prop][1])
            exp = mu['expect']
            if exp == 'silent':
                verdict = 'OK ' if not nv and not nu and not x else 'FALSE-ALARM' if nv else 'UNDECIDED'
            elif exp.endswith('-or-undecided'):
                e0 = exp[:-len('-or-undecided')]
                if e0 == 'silent':
                    verdict = 'OK ' if not nv else 'FALSE-ALARM'
                else:
                    verdict = 'OK ' if any(e0 in k for k in nv) or nu else 'MISSED'
            else:
                verdict = 'OK ' if any(exp in k for k in nv) else ('MISSED(undecided)' if nu else 'MISSED')
            print(f"{mu['id']:40s} {verdict:12s} exit={rc} new-violations={len(nv)} new-undecided={len(nu)} {x}")
            for k in nv[:4]:
                print('      V', k[:170])
            for k in nu[:3]:
                print('      U', k[:170])
    finally:
        sh(f'git -C /repo worktree remove --force {WT}')

main()
