#!/usr/bin/env python3
"""Create single-site mutants of /repo HEAD as patch files under /tmp/e4mut/patches (scratch worktree)."""
import os, subprocess, sys

WT = "/tmp/e4mut/wt"
OUT = "/tmp/e4mut/patches"
os.makedirs(OUT, exist_ok=True)

def sh(*a, **k):
    return subprocess.run(a, check=True, capture_output=True, text=True, **k)

if not os.path.isdir(WT):
    sh("git", "-C", "/repo", "worktree", "add", "--detach", "-q", WT, "HEAD")

MUTANTS = {
 # --- must fire
 "m01-copy-removed-datapayload": ("payload.go", [(
  "\tp.Bytes = make([]byte, len(data))\n\tcopy(p.Bytes, data)\n\treturn nil\n}\n\n// JoinRequestPayload",
  "\tp.Bytes = data\n\treturn nil\n}\n\n// JoinRequestPayload")]),
 "m02-subslice-stored-fragment": ("applayer/fragmentation/fragmentation.go", [(
  "\tp.Payload = make([]byte, len(data[2:]))\n\tcopy(p.Payload, data[2:])\n",
  "\tp.Payload = data[2:]\n")]),
 "m03-rlock-removed": ("mac_commands.go", [(
  "\tmacPayloadMutex.RLock()\n\tdefer macPayloadMutex.RUnlock()\n\n", "")]),
 "m04-unlock-missing-on-path": ("mac_commands.go", [(
  "\tif payloadSize == 0 {\n\t\t// no need to register the payload size\n\t\treturn nil\n\t}\n\n\tmacPayloadMutex.Lock()\n\tdefer macPayloadMutex.Unlock()\n",
  "\tmacPayloadMutex.Lock()\n\tif payloadSize == 0 {\n\t\t// no need to register the payload size\n\t\treturn nil\n\t}\n"),
  ("\t\tpayload: func() MACCommandPayload { return &ProprietaryMACCommandPayload{} },\n\t}\n\n\treturn nil",
   "\t\tpayload: func() MACCommandPayload { return &ProprietaryMACCommandPayload{} },\n\t}\n\tmacPayloadMutex.Unlock()\n\n\treturn nil")]),
 "m05-new-global-map-written": ("netid.go", [(
  "// Type returns the NetID type.\nfunc (n NetID) Type() int {\n",
  "var netIDTypeSeen = map[int]int{}\n\n// Type returns the NetID type.\nfunc (n NetID) Type() int {\n\tnetIDTypeSeen[int(n[0]>>5)]++\n")]),
 "m06-cond-assign-dlchannelans": ("mac_commands.go", [(
  "\tp.ChannelFrequencyOK = data[0]&1 > 0\n\tp.UplinkFrequencyExists = data[0]&(1<<1) > 0\n",
  "\tif data[0]&1 > 0 {\n\t\tp.ChannelFrequencyOK = true\n\t}\n\tp.UplinkFrequencyExists = data[0]&(1<<1) > 0\n")]),
 "m07-lock-removed-register": ("mac_commands.go", [(
  "\tmacPayloadMutex.Lock()\n\tdefer macPayloadMutex.Unlock()\n\n\tmacPayloadRegistry[uplink][cid]", "\tmacPayloadRegistry[uplink][cid]")]),
 "m08-cid-check-removed": ("mac_commands.go", [(
  "\tif !(cid >= 128 && cid <= 255) {\n\t\treturn fmt.Errorf(\"lorawan: invalid CID %x\", byte(cid))\n\t}\n\n", "")]),
 "m09-direction-negated": ("mac_commands.go", [(
  "\tmacPayloadRegistry[uplink][cid] = macPayloadInfo{", "\tmacPayloadRegistry[!uplink][cid] = macPayloadInfo{")]),
 "m10-cid-lower-bound-weakened": ("mac_commands.go", [(
  "\tif !(cid >= 128 && cid <= 255) {", "\tif !(cid >= 12 && cid <= 255) {")]),
 "m11-handler-field-written": ("backend/joinserver/joinserver.go", [(
  "func (h *handler) ServeHTTP(w http.ResponseWriter, r *http.Request) {\n\tvar basePL backend.BasePayload\n",
  "func (h *handler) ServeHTTP(w http.ResponseWriter, r *http.Request) {\n\tvar basePL backend.BasePayload\n\th.config.Logger = h.log\n")]),
 "m12-validate-writes-frame": ("phypayload.go", [(
  "func (p PHYPayload) isUplink() bool {\n", "func (p PHYPayload) isUplink() bool {\n\tif mp, ok := p.MACPayload.(*MACPayload); ok {\n\t\tmp.FHDR.FCnt &= 0xffff\n\t}\n")]),
 "m13-band-shared-rx1-table": ("band/band_ism2400.go", [(
  "func newISM2400Band(repeaterCompatible bool) (Band, error) {\n", "var ism2400TXPower = []int{0, -2, -4, -6, -8, -10, -12, -14}\n\nfunc newISM2400Band(repeaterCompatible bool) (Band, error) {\n"),
  ("\t\t\ttxPowerOffsets: []int{\n\t\t\t\t0,\n\t\t\t\t-2,\n\t\t\t\t-4,\n\t\t\t\t-6,\n\t\t\t\t-8,\n\t\t\t\t-10,\n\t\t\t\t-12,\n\t\t\t\t-14,\n\t\t\t},\n", "\t\t\ttxPowerOffsets: ism2400TXPower,\n")]),
 "m14-encryptfopts-cap-reslice": ("phypayload.go", [(
  "\tfor i := range data {\n\t\tdata[i] ^= s[i]\n\t}\n", "\tdata = data[:cap(data)]\n\tfor i := range data {\n\t\tdata[i] ^= s[i%16]\n\t}\n")]),
 "m15-marshal-returns-array-of-ptr-recv": ("netid.go", [(
  "// String implements fmt.Stringer.\nfunc (n NetID) String() string {", "// Bytes returns the bytes.\nfunc (n *NetID) Bytes() []byte { return n[:] }\n\n// String implements fmt.Stringer.\nfunc (n NetID) String() string {")]),
 # --- must stay silent (behaviour preserving)
 "s01-append-nil-instead-of-make-copy": ("payload.go", [(
  "\tp.Bytes = make([]byte, len(data))\n\tcopy(p.Bytes, data)\n\treturn nil\n}\n\n// JoinRequestPayload",
  "\tp.Bytes = append([]byte(nil), data...)\n\treturn nil\n}\n\n// JoinRequestPayload")]),
 "s02-fields-reordered-linkcheck-dlsettings": ("mac_commands.go", [(
  "\tp.Margin = uint8(data[0])\n\tp.GwCnt = uint8(data[1])\n", "\tp.GwCnt = uint8(data[1])\n\tp.Margin = uint8(data[0])\n"),
  ("\ts.OptNeg = (data[0] & (1 << 7)) != 0\n\ts.RX2DataRate = data[0] & ((1 << 3) | (1 << 2) | (1 << 1) | 1)\n",
   "\ts.RX2DataRate = data[0] & ((1 << 3) | (1 << 2) | (1 << 1) | 1)\n\ts.OptNeg = (data[0] & (1 << 7)) != 0\n")]),
 "s03-ifelse-instead-of-cond-assign": ("mac_commands.go", [(
  "\tp.ChannelFrequencyOK = data[0]&1 > 0\n\tp.UplinkFrequencyExists = data[0]&(1<<1) > 0\n",
  "\tif data[0]&1 > 0 {\n\t\tp.ChannelFrequencyOK = true\n\t} else {\n\t\tp.ChannelFrequencyOK = false\n\t}\n\tp.UplinkFrequencyExists = data[0]&(1<<1) > 0\n")]),
 "s04-explicit-unlock-instead-of-defer": ("mac_commands.go", [(
  "\tmacPayloadMutex.Lock()\n\tdefer macPayloadMutex.Unlock()\n\n\tmacPayloadRegistry[uplink][cid] = macPayloadInfo{\n\t\tsize:    payloadSize,\n\t\tpayload: func() MACCommandPayload { return &ProprietaryMACCommandPayload{} },\n\t}\n",
  "\tmacPayloadMutex.Lock()\n\tmacPayloadRegistry[uplink][cid] = macPayloadInfo{\n\t\tsize:    payloadSize,\n\t\tpayload: func() MACCommandPayload { return &ProprietaryMACCommandPayload{} },\n\t}\n\tmacPayloadMutex.Unlock()\n")]),
 "s05-whole-struct-store-decoder": ("mac_commands.go", [(
  "\tp.Margin = uint8(data[0])\n\tp.GwCnt = uint8(data[1])\n", "\t*p = LinkCheckAnsPayload{Margin: data[0], GwCnt: data[1]}\n")]),
 "s06-cid-check-rewritten": ("mac_commands.go", [(
  "\tif !(cid >= 128 && cid <= 255) {", "\tif cid < 0x80 {")]),
 "s07-copy-loop-instead-of-copy": ("payload.go", [(
  "\tp.Bytes = make([]byte, len(data))\n\tcopy(p.Bytes, data)\n\treturn nil\n}\n\n// JoinRequestPayload",
  "\tb := make([]byte, len(data))\n\tfor i := range data {\n\t\tb[i] = data[i]\n\t}\n\tp.Bytes = b\n\treturn nil\n}\n\n// JoinRequestPayload")]),
 "s08-encrypt-with-local-buffer-helper": ("phypayload.go", [(
  "\ts := make([]byte, 16)\n\tblock.Encrypt(s, a)\n\n\tfor i := range data {\n\t\tdata[i] ^= s[i]\n\t}\n",
  "\tvar sb [16]byte\n\ts := sb[:]\n\tblock.Encrypt(s, a)\n\n\tfor i := 0; i < len(data); i++ {\n\t\tdata[i] = data[i] ^ s[i]\n\t}\n")]),
}

only = sys.argv[1:]
for name, (path, reps) in MUTANTS.items():
    if only and name not in only:
        continue
    sh("git", "-C", WT, "checkout", "-q", ".")
    full = os.path.join(WT, path)
    src = open(full).read()
    for old, new in reps:
        if old not in src:
            print("!! %s: pattern not found in %s: %r" % (name, path, old[:50]))
            break
        src = src.replace(old, new, 1)
    else:
        open(full, "w").write(src)
        b = subprocess.run(["go", "build", "./..."], cwd=WT, capture_output=True, text=True)
        if b.returncode != 0:
            print("!! %s does not build: %s" % (name, b.stderr[:300]))
        d = sh("git", "-C", WT, "diff").stdout
        open(os.path.join(OUT, name + ".diff"), "w").write(d)
        print("ok", name)
sh("git", "-C", WT, "checkout", "-q", ".")
