#!/usr/bin/env python3-vt
import json, sys, glob, jsonschema
jsonschema.validate(json.load(open('/verif/MANIFEST.json')), json.load(open('/root/.vp/MANIFEST.schema.json')))
es = json.load(open('/root/.vp/EVIDENCE.schema.json'))
n = 0
for f in sorted(glob.glob('/verif/evidence/*.json')):
    jsonschema.validate(json.load(open(f)), es); n += 1
print('MANIFEST ok;', n, 'evidence files ok')
