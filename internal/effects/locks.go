package effects

import (
	"sort"

	"golang.org/x/tools/go/ssa"
)

// Lock discipline facts: a forward must-analysis of which mutexes are held before each
// instruction of one function.

type LockMode int

const (
	NotHeld LockMode = iota
	HeldRead
	HeldWrite
)

func (m LockMode) String() string {
	switch m {
	case HeldRead:
		return "RLock"
	case HeldWrite:
		return "Lock"
	}
	return "not held"
}

type MutexState struct {
	Held     LockMode
	Deferred bool // a deferred (R)Unlock is pending on every path to this point
}

type lockState map[string]MutexState

func (s lockState) copy() lockState {
	o := lockState{}
	for k, v := range s {
		o[k] = v
	}
	return o
}

func meetLock(a, b lockState) lockState {
	o := lockState{}
	for k, va := range a {
		vb, ok := b[k]
		if !ok {
			continue
		}
		m := va.Held
		if vb.Held < m {
			m = vb.Held
		}
		d := va.Deferred && vb.Deferred
		if m != NotHeld || d {
			o[k] = MutexState{Held: m, Deferred: d}
		}
	}
	return o
}

func eqLock(a, b lockState) bool {
	if len(a) != len(b) {
		return false
	}
	for k, v := range a {
		if b[k] != v {
			return false
		}
	}
	return true
}

// LockOp is one lock/unlock call.
type LockOp struct {
	Instr    ssa.Instruction
	Mutex    string // address path of the mutex ("G:macPayloadMutex", "h.2" …) or "?" when not nameable
	Op       string // Lock | RLock | Unlock | RUnlock
	Deferred bool
}

// LockLeak: a return that may leave a mutex held (no unlock on that path and none deferred).
type LockLeak struct {
	Return ssa.Instruction
	Mutex  string
	Mode   LockMode
}

type LockInfo struct {
	Fn     *ssa.Function
	Ops    []LockOp
	Leaks  []LockLeak
	before map[ssa.Instruction]lockState
}

// HeldBefore returns the must-held state of every mutex just before ins executes.
func (li *LockInfo) HeldBefore(ins ssa.Instruction) map[string]MutexState {
	return li.before[ins]
}

// deferredClosureUnlocks: `defer func() { mu.Unlock() }()` — the unlock calls found in the body of a
// deferred function literal, attributed to the defer statement. Only mutexes that the literal
// names directly (package-level variables) are recognised.
func deferredClosureUnlocks(ins ssa.Instruction) []LockOp {
	d, ok := ins.(*ssa.Defer)
	if !ok {
		return nil
	}
	var fn *ssa.Function
	switch v := d.Call.Value.(type) {
	case *ssa.Function:
		fn = v
	case *ssa.MakeClosure:
		fn, _ = v.Fn.(*ssa.Function)
	}
	if fn == nil || fn.Parent() == nil {
		return nil
	}
	var out []LockOp
	for _, b := range fn.Blocks {
		for _, in := range b.Instrs {
			if op, ok := lockOpOf(in); ok && !op.Deferred && (op.Op == "Unlock" || op.Op == "RUnlock") && len(op.Mutex) > 2 && op.Mutex[:2] == "G:" {
				op.Instr = ins
				op.Deferred = true
				out = append(out, op)
			}
		}
	}
	return out
}

// lockOpOf recognises calls of the sync mutex methods.
func lockOpOf(ins ssa.Instruction) (LockOp, bool) {
	ci, ok := ins.(ssa.CallInstruction)
	if !ok {
		return LockOp{}, false
	}
	c := ci.Common().StaticCallee()
	if c == nil {
		return LockOp{}, false
	}
	var op string
	switch c.String() {
	case "(*sync.RWMutex).Lock", "(*sync.Mutex).Lock":
		op = "Lock"
	case "(*sync.RWMutex).RLock":
		op = "RLock"
	case "(*sync.RWMutex).Unlock", "(*sync.Mutex).Unlock":
		op = "Unlock"
	case "(*sync.RWMutex).RUnlock":
		op = "RUnlock"
	default:
		return LockOp{}, false
	}
	mu := "?"
	if len(ci.Common().Args) > 0 {
		if p, ok := addrPath(ci.Common().Args[0]); ok {
			mu = p
		}
	}
	_, isDefer := ins.(*ssa.Defer)
	return LockOp{Instr: ins, Mutex: mu, Op: op, Deferred: isDefer}, true
}

// Locks analyses one function.
func Locks(fn *ssa.Function) *LockInfo {
	li := &LockInfo{Fn: fn, before: map[ssa.Instruction]lockState{}}
	if len(fn.Blocks) == 0 {
		return li
	}
	in := map[*ssa.BasicBlock]lockState{}
	out := map[*ssa.BasicBlock]lockState{}
	visited := map[*ssa.BasicBlock]bool{}
	transfer := func(b *ssa.BasicBlock, s lockState, record bool) lockState {
		s = s.copy()
		for _, ins := range b.Instrs {
			if record {
				li.before[ins] = s.copy()
			}
			if dops := deferredClosureUnlocks(ins); len(dops) > 0 {
				for _, op := range dops {
					cur := s[op.Mutex]
					cur.Deferred = true
					s[op.Mutex] = cur
				}
				continue
			}
			if op, ok := lockOpOf(ins); ok {
				cur := s[op.Mutex]
				switch {
				case op.Deferred && (op.Op == "Unlock" || op.Op == "RUnlock"):
					cur.Deferred = true
				case op.Deferred:
					// deferred Lock: ignore
				case op.Op == "Lock":
					cur.Held = HeldWrite
				case op.Op == "RLock":
					cur.Held = HeldRead
				default:
					cur.Held = NotHeld
				}
				if cur.Held == NotHeld && !cur.Deferred {
					delete(s, op.Mutex)
				} else {
					s[op.Mutex] = cur
				}
				continue
			}
			switch ins.(type) {
			case *ssa.RunDefers:
				for k, v := range s {
					if v.Deferred {
						delete(s, k)
					}
				}
			case *ssa.Return:
				if record {
					for _, k := range sortedKeys(s) {
						if v := s[k]; v.Held != NotHeld && !v.Deferred {
							li.Leaks = append(li.Leaks, LockLeak{Return: ins, Mutex: k, Mode: v.Held})
						}
					}
				}
			}
		}
		return s
	}
	work := []*ssa.BasicBlock{fn.Blocks[0]}
	in[fn.Blocks[0]] = lockState{}
	visited[fn.Blocks[0]] = true
	for len(work) > 0 {
		b := work[0]
		work = work[1:]
		o := transfer(b, in[b], false)
		if prev, ok := out[b]; ok && eqLock(prev, o) {
			continue
		}
		out[b] = o
		for _, s := range b.Succs {
			var ns lockState
			if !visited[s] {
				ns = o.copy()
				visited[s] = true
			} else {
				ns = meetLock(in[s], o)
				if eqLock(ns, in[s]) {
					continue
				}
			}
			in[s] = ns
			work = append(work, s)
		}
	}
	for _, b := range fn.Blocks {
		if visited[b] {
			transfer(b, in[b], true)
		}
	}
	for _, b := range fn.Blocks {
		for _, ins := range b.Instrs {
			if dops := deferredClosureUnlocks(ins); len(dops) > 0 {
				li.Ops = append(li.Ops, dops...)
			} else if op, ok := lockOpOf(ins); ok {
				li.Ops = append(li.Ops, op)
			}
		}
	}
	sort.SliceStable(li.Leaks, func(i, j int) bool { return li.Leaks[i].Mutex < li.Leaks[j].Mutex })
	return li
}
