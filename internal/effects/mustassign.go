package effects

import (
	"fmt"
	"go/token"
	"go/types"
	"os"
	"sort"
	"strings"

	"golang.org/x/tools/go/ssa"

	"lwverif/internal/guards"
)

// MUST-OVERWRITE (C10-R5): a definite-assignment analysis over the field tree of a pointer
// parameter. A leaf is *clean* at a program point when on every path to that point it has been
// assigned a value that does not depend on what the pointee held when the function was entered.
// A decoder satisfies "decoding into a used value equals decoding into a fresh one" only if every
// leaf is clean at every return that may carry a nil error.
//
// Supported idioms (everything else leaves the leaf dirty, or "undecided" when the receiver
// address is used in a way the analysis does not model):
//   - p.f = v, *p = v, p.s.f = v (whole sub-struct stores clean every leaf below)
//   - both arms of an if/else or every case of a switch assigning the leaf (plain dataflow join)
//   - callee(&p.f, …) where the callee's own summary cleans the leaves (on its nil-error returns;
//     the caller must test that error, or return it directly)
//   - arrays: copy(p.a[:], src) with len(src) ≥ N known (constant slice bounds or a dominating
//     length test), and full-range index loops `for i := 0; i < N; i++ { p.a[±i…] = v }`,
//     `for i := range p.a`, `for i, v := range data` under len(data) == N, whose store executes on
//     every iteration and that have no other exit
//   - x[:0] of an old slice counts as a value-independent reset
//
// Not modelled: control dependence on old values (`if p.old { p.f = 1 } else { p.f = 2 }`).

// Leaf is one scalar / reference / array component of the pointee.
type Leaf struct {
	Path []int // field indices from the pointee type; empty = the pointee itself
	Name string
	Type types.Type
}

// LeavesOf enumerates the leaves of type t, descending through struct values.
func LeavesOf(t types.Type) []Leaf {
	var out []Leaf
	var walk func(t types.Type, path []int, name string, depth int)
	walk = func(t types.Type, path []int, name string, depth int) {
		if s, ok := t.Underlying().(*types.Struct); ok && depth < 12 {
			for i := 0; i < s.NumFields(); i++ {
				n := s.Field(i).Name()
				if name != "" {
					n = name + "." + n
				}
				walk(s.Field(i).Type(), append(append([]int(nil), path...), i), n, depth+1)
			}
			return
		}
		if name == "" {
			name = "*"
		}
		out = append(out, Leaf{Path: append([]int(nil), path...), Name: name, Type: t})
	}
	walk(t, nil, "", 0)
	return out
}

// LeafStatus is the verdict for one leaf.
type LeafStatus struct {
	Leaf    Leaf
	Clean   bool
	Unknown bool      // the analysis cannot decide (unsupported use of the address)
	Reason  string    // why it is not clean
	Pos     token.Pos // a relevant instruction (dirty store, conditional store, return)
}

type MustAssignResult struct {
	Fn      *ssa.Function
	Param   int
	Leaves  []LeafStatus
	Returns int // number of possibly-successful returns examined
}

// MustAssigner caches per-(function, parameter) results and resolves callees.
type MustAssigner struct {
	a        *Analysis
	memo     map[maKey]*MustAssignResult
	stack    map[maKey]bool
	nnErr    map[*ssa.Function]int // 1 every return is a non-nil error, 2 not, 3 in progress
	sentinel map[*ssa.Global]bool
}

type maKey struct {
	fn *ssa.Function
	p  int
}

func NewMustAssigner(a *Analysis) *MustAssigner {
	return &MustAssigner{a: a, memo: map[maKey]*MustAssignResult{}, stack: map[maKey]bool{}}
}

type bitset []bool

func (b bitset) copy() bitset { return append(bitset(nil), b...) }
func (b bitset) and(o bitset) bitset {
	r := make(bitset, len(b))
	for i := range b {
		r[i] = b[i] && o[i]
	}
	return r
}
func (b bitset) eq(o bitset) bool {
	for i := range b {
		if b[i] != o[i] {
			return false
		}
	}
	return true
}

type maState struct {
	m       *MustAssigner
	fn      *ssa.Function
	root    *ssa.Parameter
	leaves  []Leaf
	in, out map[*ssa.BasicBlock]bitset
	edgeGen map[[2]*ssa.BasicBlock][]egen // leaves that become clean along an edge (callee succeeded)
	// Loop gens and the set of calls whose gens may be used (all their other arguments are
	// old-independent) depend on the states, and the states on them. They are computed in rounds:
	// each round solves the dataflow from scratch with the sets justified by the previous round
	// (starting from none), so the sets only grow and every member is justified without itself.
	loopGen, loopGenPrev map[[2]*ssa.BasicBlock][]int
	loopCand             map[loopLeaf]map[*ssa.BasicBlock]bool // element-store blocks per (loop, leaf) of the pass
	loopCandInstr        map[loopLeaf]*ssa.Store
	allowed, allowedPrev map[*ssa.Call]bool
	// facts gathered during the final pass
	taintedLoad  map[ssa.Value]bool
	allocTainted map[*ssa.Alloc]bool
	dirtyStore   map[int]ssa.Instruction // leaf -> a store of an old-dependent value
	maybeDirty   map[int]ssa.Instruction // leaf -> a store of a value that is old-dependent only through a call (not decided)
	cover        map[int][][2]int64      // leaf (array) -> constant sub-ranges filled so far in the current block
	direct       bool                    // taint query mode: only dependence through loads and pure operations counts
	anyStore     map[int]ssa.Instruction // leaf -> some store (clean or element store)
	partial      map[int]string          // leaf -> description of a partial / conditional element loop
	unknown      map[int]string          // leaf -> unsupported use
	callGen      map[ssa.Value][]int     // error value of a call -> leaves it cleans when nil
	calleeDirty  map[int]*ssa.Call       // leaf -> a callee that received its address and does not overwrite it
	loops        []*idxLoop
	cur          bitset // state while transferring
}

type egen struct {
	leaf int
	call *ssa.Call
}

// edgeLeaves lists the leaves that become clean along edge p -> b.
func (s *maState) edgeLeaves(p, b *ssa.BasicBlock) []int {
	var out []int
	k := [2]*ssa.BasicBlock{p, b}
	for _, g := range s.edgeGen[k] {
		if s.allowedPrev[g.call] {
			out = append(out, g.leaf)
		}
	}
	out = append(out, s.loopGenPrev[k]...)
	return out
}

// pathOf resolves an address to (field path below the root parameter, element-of-array flag).
func (s *maState) pathOf(v ssa.Value) (path []int, elem bool, ok bool) {
	switch x := v.(type) {
	case *ssa.Parameter:
		if x == s.root {
			return nil, false, true
		}
	case *ssa.FieldAddr:
		p, e, ok := s.pathOf(x.X)
		if !ok || e {
			return nil, false, false
		}
		return append(append([]int(nil), p...), x.Field), false, true
	case *ssa.IndexAddr:
		if _, isPtr := x.X.Type().Underlying().(*types.Pointer); !isPtr {
			return nil, false, false
		}
		p, e, ok := s.pathOf(x.X)
		if !ok || e {
			return nil, false, false
		}
		return p, true, true
	}
	return nil, false, false
}

// under returns the indices of the leaves whose path starts with prefix.
func (s *maState) under(prefix []int) []int {
	var out []int
	for i, l := range s.leaves {
		if len(l.Path) < len(prefix) {
			continue
		}
		match := true
		for j := range prefix {
			if l.Path[j] != prefix[j] {
				match = false
				break
			}
		}
		if match {
			out = append(out, i)
		}
	}
	return out
}

// Analyse computes the result for parameter p (a pointer) of fn.
func (m *MustAssigner) Analyse(fn *ssa.Function, p int) *MustAssignResult {
	k := maKey{fn, p}
	if r, ok := m.memo[k]; ok {
		return r
	}
	if m.stack[k] || p >= len(fn.Params) || len(fn.Blocks) == 0 {
		return nil
	}
	ptr, ok := fn.Params[p].Type().Underlying().(*types.Pointer)
	if !ok {
		return nil
	}
	m.stack[k] = true
	defer delete(m.stack, k)

	s := &maState{m: m, fn: fn, root: fn.Params[p], leaves: LeavesOf(ptr.Elem()),
		in: map[*ssa.BasicBlock]bitset{}, out: map[*ssa.BasicBlock]bitset{}, edgeGen: map[[2]*ssa.BasicBlock][]egen{},
		callGen: map[ssa.Value][]int{}, calleeDirty: map[int]*ssa.Call{}}
	n := len(s.leaves)
	res := &MustAssignResult{Fn: fn, Param: p}
	if n == 0 {
		m.memo[k] = res
		return res
	}
	s.loops = findIdxLoops(fn)
	s.prepareCalls()
	s.prepareEdges()

	top := make(bitset, n)
	for i := range top {
		top[i] = true
	}
	s.loopGenPrev = map[[2]*ssa.BasicBlock][]int{}
	s.allowedPrev = map[*ssa.Call]bool{}
	stable := false
	for round := 0; round < 16 && !stable; round++ {
		s.solve(top)
		if sameLoopGen(s.loopGen, s.loopGenPrev) && sameCalls(s.allowed, s.allowedPrev) {
			stable = true
		} else {
			s.loopGenPrev, s.allowedPrev = s.loopGen, s.allowed
		}
	}
	missing := map[int]ssa.Instruction{}
	// missingCertain: the leaf is unassigned at a return whose error result is the nil constant (a certain success);
	// a return of an error *variable* that is not known to be non-nil only may be a success
	missingCertain := map[int]bool{}
	if !stable {
		for i := range s.leaves {
			s.unknown[i] = "definite-assignment rounds did not stabilise"
		}
	}
	if dbg := os.Getenv("LW_MA_DEBUG"); dbg != "" && strings.Contains(fn.String(), dbg) {
		fmt.Printf("mustassign %s param %d: %d leaves, %d loops\n", fn, p, n, len(s.loops))
		for _, l := range s.loops {
			fmt.Printf("  loop header=%d body=%d exit=%d closed=%v iv=%s bound=%s blocks=%d\n", l.header.Index, l.body.Index, l.exit.Index, l.closed, l.iv.Name(), l.bound, len(l.blocks))
		}
		for k, v := range s.loopGen {
			fmt.Printf("  loopGen %d->%d: %v\n", k[0].Index, k[1].Index, v)
		}
		for _, b := range fn.Blocks {
			fmt.Printf("  block %d in=%v out=%v\n", b.Index, s.in[b], s.out[b])
		}
		fmt.Printf("  partial=%v\n", s.partial)
	}
	for _, b := range fn.Blocks {
		ret, ok := b.Instrs[len(b.Instrs)-1].(*ssa.Return)
		if !ok {
			continue
		}
		certain := returnsNilConst(ret)
		for _, st := range s.successStates(b, ret) {
			res.Returns++
			for i := range st {
				if !st[i] {
					if _, dup := missing[i]; !dup {
						missing[i] = ret
					}
					if certain {
						missingCertain[i] = true
					}
				}
			}
		}
	}
	for i, l := range s.leaves {
		ls := LeafStatus{Leaf: l, Clean: true}
		if ret, bad := missing[i]; bad {
			ls.Clean = false
			ls.Pos = ret.Pos()
			switch {
			case s.unknown[i] != "":
				ls.Unknown = true
				ls.Reason = s.unknown[i]
			case !missingCertain[i] && hasErrorResult(fn):
				ls.Unknown = true
				ls.Reason = "unassigned only at a return whose error value is not known to be nil or non-nil: " + describeInstr(ret)
			case s.dirtyStore[i] == nil && s.maybeDirty[i] != nil:
				ls.Unknown = true
				ls.Reason = "assigned a value obtained through a call that also receives memory holding the previous content; whether the value depends on it is not decided: " + describeInstr(s.maybeDirty[i])
			case s.dirtyStore[i] == nil && s.partial[i] == "" && s.anyStore[i] == nil && s.calleeDirty[i] != nil && !calleeHasError(s.calleeDirty[i]):
				ls.Unknown = true
				ls.Reason = "handed to " + describeInstr(s.calleeDirty[i]) + ", a helper without an error result that assigns it on some of its paths only; whether its other paths can be followed by a successful return of the decoder is not decided"
			case s.dirtyStore[i] != nil:
				ls.Reason = "assigned a value that depends on its previous content: " + describeInstr(s.dirtyStore[i])
				ls.Pos = s.dirtyStore[i].Pos()
			case s.partial[i] != "":
				ls.Reason = s.partial[i]
				if s.anyStore[i] != nil {
					ls.Pos = s.anyStore[i].Pos()
				}
			case s.anyStore[i] != nil:
				ls.Reason = "assigned only on some paths to a successful return: " + describeInstr(s.anyStore[i])
				ls.Pos = s.anyStore[i].Pos()
			case s.calleeDirty[i] != nil:
				ls.Reason = "handed to " + describeInstr(s.calleeDirty[i]) + ", which does not overwrite it on every successful return"
				ls.Pos = s.calleeDirty[i].Pos()
			default:
				ls.Reason = "never assigned on a path to a successful return"
			}
		}
		res.Leaves = append(res.Leaves, ls)
	}
	m.memo[k] = res
	return res
}

// coversAll: the intervals cover [0, n).
func coversAll(iv [][2]int64, n int64) bool {
	next := int64(0)
	for changed := true; changed && next < n; {
		changed = false
		for _, r := range iv {
			if r[0] <= next && r[1] > next {
				next = r[1]
				changed = true
			}
		}
	}
	return next >= n
}

func returnsNilConst(ret *ssa.Return) bool {
	if len(ret.Results) == 0 {
		return true
	}
	return isNilConst(ret.Results[len(ret.Results)-1])
}

func hasErrorResult(fn *ssa.Function) bool {
	res := fn.Signature.Results()
	return res.Len() > 0 && isErrorType(res.At(res.Len()-1).Type())
}

func calleeHasError(c *ssa.Call) bool {
	sig := c.Call.Signature()
	res := sig.Results()
	return res.Len() > 0 && isErrorType(res.At(res.Len()-1).Type())
}

// solve runs the must-dataflow to its greatest fixpoint with the current loopGenPrev/allowedPrev
// and leaves the facts (and the newly justified loopGen/allowed) of a final stable pass.
func (s *maState) solve(top bitset) {
	fn := s.fn
	n := len(s.leaves)
	for _, b := range fn.Blocks {
		s.in[b] = top.copy()
		s.out[b] = top.copy()
	}
	s.in[fn.Blocks[0]] = make(bitset, n)
	for iter := 0; iter < 200; iter++ {
		changed := false
		s.resetFacts()
		for _, b := range fn.Blocks {
			if b != fn.Blocks[0] {
				var acc bitset
				for _, p := range b.Preds {
					o := s.out[p].copy()
					for _, g := range s.edgeLeaves(p, b) {
						o[g] = true
					}
					if acc == nil {
						acc = o
					} else {
						acc = acc.and(o)
					}
				}
				if acc == nil {
					acc = top.copy() // unreachable
				}
				if !acc.eq(s.in[b]) {
					s.in[b] = acc
					changed = true
				}
			}
			o := s.transferBlock(b)
			if !o.eq(s.out[b]) {
				s.out[b] = o
				changed = true
			}
		}
		if !changed {
			break
		}
	}
	s.resetFacts()
	for _, b := range fn.Blocks {
		s.transferBlock(b)
	}
	s.finishPass()
}

func sameLoopGen(a, b map[[2]*ssa.BasicBlock][]int) bool {
	if len(a) != len(b) {
		return false
	}
	for k, v := range a {
		w := b[k]
		if len(v) != len(w) {
			return false
		}
		m := map[int]bool{}
		for _, x := range v {
			m[x] = true
		}
		for _, x := range w {
			if !m[x] {
				return false
			}
		}
	}
	return true
}

func sameCalls(a, b map[*ssa.Call]bool) bool {
	if len(a) != len(b) {
		return false
	}
	for k := range a {
		if !b[k] {
			return false
		}
	}
	return true
}

func (s *maState) resetFacts() {
	s.loopGen = map[[2]*ssa.BasicBlock][]int{}
	s.loopCand = map[loopLeaf]map[*ssa.BasicBlock]bool{}
	s.loopCandInstr = map[loopLeaf]*ssa.Store{}
	s.allowed = map[*ssa.Call]bool{}
	s.taintedLoad = map[ssa.Value]bool{}
	s.allocTainted = map[*ssa.Alloc]bool{}
	s.dirtyStore = map[int]ssa.Instruction{}
	s.maybeDirty = map[int]ssa.Instruction{}
	s.anyStore = map[int]ssa.Instruction{}
	s.partial = map[int]string{}
	s.unknown = map[int]string{}
	// allocTainted is flow-insensitive: pre-compute to a fixpoint inside transfer (cheap: two sweeps)
}

// ---------------------------------------------------------------------------------------------
// calls into callees that receive an address below the root

type calleeGen struct {
	leaves []int
	err    ssa.Value // error result of the call (nil: the callee has no error result → unconditional)
}

// prepareCalls computes, for every call that passes a root-derived address to module callees, the
// leaves those callees clean.
func (s *maState) prepareCalls() {
	for _, b := range s.fn.Blocks {
		for _, ins := range b.Instrs {
			c, ok := ins.(*ssa.Call)
			if !ok {
				continue
			}
			if _, isB := c.Call.Value.(*ssa.Builtin); isB {
				continue
			}
			args := argsOf(&c.Call)
			var gen []int
			for ai, a := range args {
				path, elem, ok := s.pathOf(a)
				if !ok || elem {
					continue
				}
				callees := s.m.a.CalleesOf(c)
				if len(callees) == 0 {
					continue
				}
				var common map[string]bool
				for _, callee := range callees {
					if !s.m.a.inScope[callee] {
						common = map[string]bool{}
						break
					}
					r := s.m.Analyse(callee, ai)
					set := map[string]bool{}
					if r != nil {
						for _, ls := range r.Leaves {
							if ls.Clean {
								set[fmt.Sprint(ls.Leaf.Path)] = true
							}
						}
					}
					if common == nil {
						common = set
					} else {
						for k := range common {
							if !set[k] {
								delete(common, k)
							}
						}
					}
				}
				for _, li := range s.under(path) {
					rel := s.leaves[li].Path[len(path):]
					if common[fmt.Sprint(rel)] {
						gen = append(gen, li)
					} else if s.calleeDirty[li] == nil {
						s.calleeDirty[li] = c
					}
				}
			}
			if len(gen) == 0 {
				continue
			}
			sort.Ints(gen)
			s.callGen[c] = gen
		}
	}
}

// errOfCall returns the SSA value carrying the error result of call c (nil if it has none).
func errOfCall(c *ssa.Call) (ssa.Value, bool) {
	res := c.Call.Signature().Results()
	if res.Len() == 0 {
		return nil, false
	}
	last := res.At(res.Len() - 1).Type()
	if !isErrorType(last) {
		return nil, false
	}
	if res.Len() == 1 {
		return c, true
	}
	for _, ref := range *c.Referrers() {
		if ex, ok := ref.(*ssa.Extract); ok && ex.Index == res.Len()-1 {
			return ex, true
		}
	}
	return nil, true // has an error result that nobody looks at
}

func isErrorType(t types.Type) bool {
	n, ok := t.(*types.Named)
	return ok && n.Obj().Pkg() == nil && n.Obj().Name() == "error"
}

func isNilConst(v ssa.Value) bool {
	c, ok := v.(*ssa.Const)
	return ok && c.Value == nil
}

// prepareEdges installs (1) the conditional gens of calls along the `err == nil` edge of the test
// of their error, (2) the gens of covering array loops along the loop-exit edge.
func (s *maState) prepareEdges() {
	errCalls := map[ssa.Value]*ssa.Call{}
	for v := range s.callGen {
		c := v.(*ssa.Call)
		if ev, has := errOfCall(c); has && ev != nil {
			errCalls[ev] = c
		}
	}
	for _, b := range s.fn.Blocks {
		iff, ok := b.Instrs[len(b.Instrs)-1].(*ssa.If)
		if !ok {
			continue
		}
		bo, ok := iff.Cond.(*ssa.BinOp)
		if !ok || (bo.Op != token.NEQ && bo.Op != token.EQL) {
			continue
		}
		var ev ssa.Value
		if isNilConst(bo.Y) {
			ev = bo.X
		} else if isNilConst(bo.X) {
			ev = bo.Y
		}
		c := errCalls[ev]
		if c == nil {
			continue
		}
		succ := b.Succs[1] // err != nil is false
		if bo.Op == token.EQL {
			succ = b.Succs[0]
		}
		k := [2]*ssa.BasicBlock{b, succ}
		for _, li := range s.callGen[c] {
			s.edgeGen[k] = append(s.edgeGen[k], egen{leaf: li, call: c})
		}
	}
}

// ---------------------------------------------------------------------------------------------
// transfer

func (s *maState) transferBlock(b *ssa.BasicBlock) bitset {
	s.cur = s.in[b].copy()
	s.cover = nil // sub-range coverage is collected within one block only
	for _, ins := range b.Instrs {
		switch x := ins.(type) {
		case *ssa.UnOp:
			if x.Op == token.MUL {
				s.taintedLoad[x] = s.loadTainted(x)
			}
		case *ssa.Store:
			s.store(x)
		case *ssa.Call:
			s.call(x)
		case *ssa.MakeInterface, *ssa.Phi, *ssa.MakeClosure, *ssa.ChangeType, *ssa.Convert:
			s.escapeCheck(ins)
		case *ssa.Defer, *ssa.Go:
			s.escapeCheck(ins)
		}
	}
	// covering loops: the exit edge of a loop whose header is b
	return s.cur.copy()
}

func (s *maState) loadTainted(ld *ssa.UnOp) bool {
	if path, _, ok := s.pathOf(ld.X); ok {
		for _, li := range s.under(path) {
			if !s.cur[li] {
				return true
			}
		}
		return false
	}
	if al, ok := addrRoot(ld.X).(*ssa.Alloc); ok {
		return s.allocTainted[al]
	}
	// memory reached through a loaded pointer: old-dependent if that pointer is
	return s.tainted(ld.X, map[ssa.Value]bool{})
}

// tainted: the value may depend on what the pointee held on entry.
func (s *maState) tainted(v ssa.Value, seen map[ssa.Value]bool) bool {
	if seen[v] {
		return false
	}
	seen[v] = true
	switch x := v.(type) {
	case *ssa.Const, *ssa.Parameter, *ssa.Global, *ssa.Function, *ssa.FreeVar, *ssa.Builtin:
		return false
	case *ssa.Alloc:
		return false
	case *ssa.FieldAddr:
		return s.tainted(x.X, seen)
	case *ssa.IndexAddr:
		return s.tainted(x.X, seen) || s.tainted(x.Index, seen)
	case *ssa.UnOp:
		if x.Op == token.MUL {
			if t, ok := s.taintedLoad[x]; ok {
				return t
			}
			return s.loadTainted(x)
		}
		return s.tainted(x.X, seen)
	case *ssa.Slice:
		if k, ok := guards.ConstInt(x.High); ok && k == 0 && x.High != nil {
			return false // x[:0]: an empty slice whatever x held
		}
		// slicing an address below the root is just an address
		if _, _, ok := s.pathOf(x.X); ok {
			return s.opsTainted(x, seen, 1)
		}
		return s.opsTainted(x, seen, 0)
	case *ssa.Call:
		if b, ok := x.Call.Value.(*ssa.Builtin); ok && (b.Name() == "len" || b.Name() == "cap") {
			return s.tainted(x.Call.Args[0], seen)
		}
		if _, isBuiltin := x.Call.Value.(*ssa.Builtin); s.direct && !isBuiltin {
			// what a callee makes of memory it can reach is not followed: a dependence through it is "maybe"
			for _, a := range argsOf(&x.Call) {
				if path, _, ok := s.pathOf(a); ok {
					for _, li := range s.under(path) {
						if !s.cur[li] {
							return true
						}
					}
				}
			}
			return false
		}
		for _, a := range argsOf(&x.Call) {
			if path, _, ok := s.pathOf(a); ok {
				// a callee reading through a pointer below the root sees old content where dirty
				for _, li := range s.under(path) {
					if !s.cur[li] {
						return true
					}
				}
				continue
			}
			if s.tainted(a, seen) {
				return true
			}
		}
		return false
	case ssa.Instruction:
		return s.opsTainted(x, seen, 0)
	}
	return false
}

func (s *maState) opsTainted(ins ssa.Instruction, seen map[ssa.Value]bool, skip int) bool {
	var buf [8]*ssa.Value
	for i, op := range ins.Operands(buf[:0]) {
		if i < skip || op == nil || *op == nil {
			continue
		}
		if s.tainted(*op, seen) {
			return true
		}
	}
	return false
}

func (s *maState) store(st *ssa.Store) {
	vt := s.tainted(st.Val, map[ssa.Value]bool{})
	if al, ok := addrRoot(st.Addr).(*ssa.Alloc); ok {
		if vt {
			s.allocTainted[al] = true
		}
		return
	}
	// a root-derived address stored somewhere: escape
	if _, _, ok := s.pathOf(st.Val); ok {
		s.markUnknown(st.Val, "address of the receiver is stored: "+describeInstr(st))
	}
	path, elem, ok := s.pathOf(st.Addr)
	if !ok {
		return
	}
	ls := s.under(path)
	if elem {
		for _, li := range ls {
			if s.anyStore[li] == nil {
				s.anyStore[li] = st
			}
			s.elementStore(li, st, vt)
		}
		return
	}
	directTaint := false
	if vt {
		s.direct = true
		directTaint = s.tainted(st.Val, map[ssa.Value]bool{})
		s.direct = false
	}
	for _, li := range ls {
		if vt {
			s.cur[li] = false
			if directTaint {
				if s.dirtyStore[li] == nil {
					s.dirtyStore[li] = st
				}
			} else if s.maybeDirty[li] == nil {
				s.maybeDirty[li] = st
			}
		} else {
			s.cur[li] = true
		}
		if s.anyStore[li] == nil {
			s.anyStore[li] = st
		}
	}
}

func (s *maState) markUnknown(addr ssa.Value, why string) {
	path, _, ok := s.pathOf(addr)
	if !ok {
		return
	}
	for _, li := range s.under(path) {
		if s.unknown[li] == "" {
			s.unknown[li] = why
		}
	}
}

// escapeCheck flags uses of root-derived addresses that the analysis does not model.
func (s *maState) escapeCheck(ins ssa.Instruction) {
	var buf [8]*ssa.Value
	for _, op := range ins.Operands(buf[:0]) {
		if op == nil || *op == nil {
			continue
		}
		if _, _, ok := s.pathOf(*op); ok {
			s.markUnknown(*op, "address of the receiver flows into "+strings.SplitN(ins.String(), " ", 2)[0])
		}
	}
}

func (s *maState) call(c *ssa.Call) {
	args := argsOf(&c.Call)
	if b, ok := c.Call.Value.(*ssa.Builtin); ok {
		if b.Name() == "copy" {
			s.copyInto(c, args[0], args[1])
		}
		return
	}
	// a module helper that fills its destination like copy does (summary decided by the linear-fact engine)
	if FillOracle != nil {
		if cal := c.Call.StaticCallee(); cal != nil && !c.Call.IsInvoke() && cal.Signature.Recv() == nil {
			if d, sr, ok := FillOracle(cal); ok && d < len(args) && sr < len(args) {
				s.copyInto(c, args[d], args[sr])
				return
			}
		}
	}
	// gens of module callees
	if gen, ok := s.callGen[c]; ok {
		// arguments other than the root-derived addresses must be old-independent
		clean := true
		for _, a := range args {
			if _, _, isAddr := s.pathOf(a); isAddr {
				continue
			}
			if s.tainted(a, map[ssa.Value]bool{}) {
				clean = false
			}
		}
		_, hasErr := errOfCall(c)
		for _, li := range gen {
			if s.anyStore[li] == nil {
				s.anyStore[li] = c
			}
			if clean {
				s.allowed[c] = true
			} else {
				if s.dirtyStore[li] == nil {
					s.dirtyStore[li] = c
				}
				continue
			}
			if !hasErr {
				s.cur[li] = true
			}
			// with an error result the gen travels along the err == nil edge (prepareEdges) or is
			// applied at a `return call()` (successStates)
		}
		return
	}
	// external callee given a root-derived address: consult the effect table
	callees := s.m.a.CalleesOf(c)
	inScope := false
	for _, cal := range callees {
		if s.m.a.inScope[cal] {
			inScope = true
		}
	}
	if inScope {
		return // module callee that cleans nothing
	}
	st := &fstate{a: s.m.a}
	ext := st.extFor(&c.Call, callees)
	for i, a := range args {
		if _, _, ok := s.pathOf(a); !ok {
			continue
		}
		if ext == nil {
			s.markUnknown(a, "address of the receiver passed to "+calleeName(&c.Call, callees))
			continue
		}
		for _, w := range append(append([]int(nil), ext.Writes...), ext.WritesDeep...) {
			if w == i {
				s.markUnknown(a, "receiver written by external "+calleeName(&c.Call, callees)+" (not modelled)")
			}
		}
	}
}

// copyInto: copy(p.a[:], src) cleans the array leaf when len(src) >= N is known.
func (s *maState) copyInto(c *ssa.Call, dst, src ssa.Value) {
	sl, ok := dst.(*ssa.Slice)
	if !ok {
		return
	}
	path, elem, ok := s.pathOf(sl.X)
	if !ok || elem {
		return
	}
	ls := s.under(path)
	if len(ls) != 1 {
		return
	}
	li := ls[0]
	arr, ok := s.leaves[li].Type.Underlying().(*types.Array)
	if !ok {
		return
	}
	if s.anyStore[li] == nil {
		s.anyStore[li] = c
	}
	if s.tainted(src, map[ssa.Value]bool{}) {
		if s.dirtyStore[li] == nil {
			s.dirtyStore[li] = c
		}
		return
	}
	lowOK := sl.Low == nil
	if k, ok := guards.ConstInt(sl.Low); ok && sl.Low != nil && k == 0 {
		lowOK = true
	}
	if !lowOK || sl.High != nil {
		// a constant sub-range [lo:hi) that the source certainly fills: several of them, written one after the other in
		// the same block, may add up to the whole array (`fill(lo, m[:8]); fill(hi, m[8:])`)
		lo, hi := int64(0), arr.Len()
		okR := true
		if sl.Low != nil {
			lo, okR = guards.ConstInt(sl.Low)
		}
		if sl.High != nil && okR {
			hi, okR = guards.ConstInt(sl.High)
		}
		if okR && lo >= 0 && lo < hi && hi <= arr.Len() {
			filled := src == dst
			if n, ok := minLen(src, c.Block()); !filled && ok && n >= hi-lo {
				filled = true
			}
			if !filled && LenAtLeastOracle != nil && LenAtLeastOracle(c, src, hi-lo) {
				filled = true
			}
			if filled {
				if s.cover == nil {
					s.cover = map[int][][2]int64{}
				}
				s.cover[li] = append(s.cover[li], [2]int64{lo, hi})
				if coversAll(s.cover[li], arr.Len()) {
					s.cur[li] = true
					delete(s.partial, li)
					return
				}
			}
		}
		s.partial[li] = "copy into a sub-range of the array: " + describeInstr(c)
		return
	}
	if n, ok := minLen(src, c.Block()); ok && n >= arr.Len() {
		s.cur[li] = true
		return
	}
	if LenAtLeastOracle != nil && LenAtLeastOracle(c, src, arr.Len()) {
		s.cur[li] = true
		return
	}
	s.partial[li] = fmt.Sprintf("copy may fill fewer than %d elements (no length fact for the source): %s", arr.Len(), describeInstr(c))
}

// minLen returns a lower bound of len(v) known at block b.
func minLen(v ssa.Value, b *ssa.BasicBlock) (int64, bool) {
	if sl, ok := v.(*ssa.Slice); ok {
		lo := int64(0)
		if sl.Low != nil {
			k, ok := guards.ConstInt(sl.Low)
			if !ok {
				// x[len(x)-k:] has exactly k elements whenever the slice expression does not panic
				if bo, isB := sl.Low.(*ssa.BinOp); isB && sl.High == nil && bo.Op == token.SUB && isLenOf(bo.X, sl.X) {
					if k2, ok2 := guards.ConstInt(bo.Y); ok2 && k2 >= 0 {
						return k2, true
					}
				}
				return 0, false
			}
			lo = k
		}
		if sl.High != nil {
			if hi, ok := guards.ConstInt(sl.High); ok {
				return hi - lo, true
			}
			return 0, false
		}
		if n, ok := minLen(sl.X, b); ok {
			return n - lo, true
		}
		if p, ok := sl.X.Type().Underlying().(*types.Pointer); ok {
			if arr, ok := p.Elem().Underlying().(*types.Array); ok {
				return arr.Len() - lo, true
			}
		}
		return 0, false
	}
	if ms, ok := v.(*ssa.MakeSlice); ok {
		if k, ok := guards.ConstInt(ms.Len); ok {
			return k, true
		}
	}
	best, found := int64(0), false
	for _, f := range guards.Facts(b) {
		L, R, op := f.L, f.R, f.Op
		if isLenOf(R, v) {
			L, R = R, L
			op = flipCmp(op)
		}
		if !isLenOf(L, v) {
			continue
		}
		k, ok := guards.ConstInt(R)
		if !ok {
			continue
		}
		var n int64
		switch op {
		case token.EQL, token.GEQ:
			n = k
		case token.GTR:
			n = k + 1
		default:
			continue
		}
		if !found || n > best {
			best, found = n, true
		}
	}
	return best, found
}

func flipCmp(op token.Token) token.Token {
	switch op {
	case token.LSS:
		return token.GTR
	case token.LEQ:
		return token.GEQ
	case token.GTR:
		return token.LSS
	case token.GEQ:
		return token.LEQ
	}
	return op
}

func isLenOf(l ssa.Value, v ssa.Value) bool {
	c, ok := l.(*ssa.Call)
	if !ok {
		return false
	}
	b, ok := c.Call.Value.(*ssa.Builtin)
	return ok && b.Name() == "len" && len(c.Call.Args) == 1 && c.Call.Args[0] == v
}

// exactLen: len(v) == n known at b.
// ExactLenOracle, when set, answers "len(v) == n on entry of block b" with the interprocedural linear-fact engine (E3).
var ExactLenOracle func(v ssa.Value, b *ssa.BasicBlock, n int64) bool

// FillOracle, when set, answers "this module function stores elements 0…len(args[src])-1 of args[dst], each with a
// value independent of dst's previous content, on every normal return" (a hand-written copy loop).
var FillOracle func(callee *ssa.Function) (dst, src int, ok bool)

// LenAtLeastOracle, when set, answers "len(v) >= n right before instruction at" with the linear-fact engine.
var LenAtLeastOracle func(at ssa.Instruction, v ssa.Value, n int64) bool

func exactLen(v ssa.Value, b *ssa.BasicBlock) (int64, bool) {
	for _, f := range guards.Facts(b) {
		if f.Op != token.EQL {
			continue
		}
		if isLenOf(f.L, v) {
			if k, ok := guards.ConstInt(f.R); ok {
				return k, true
			}
		}
		if isLenOf(f.R, v) {
			if k, ok := guards.ConstInt(f.L); ok {
				return k, true
			}
		}
	}
	return 0, false
}

// ---------------------------------------------------------------------------------------------
// index loops

type idxLoop struct {
	header *ssa.BasicBlock
	iv     ssa.Value // takes the values 0 … bound-1 inside the body
	bound  ssa.Value
	body   *ssa.BasicBlock
	exit   *ssa.BasicBlock
	closed bool // no exit other than the header test
	blocks map[*ssa.BasicBlock]bool
}

func findIdxLoops(fn *ssa.Function) []*idxLoop {
	var out []*idxLoop
	for _, h := range fn.Blocks {
		iff, ok := h.Instrs[len(h.Instrs)-1].(*ssa.If)
		if !ok {
			continue
		}
		cmp, ok := iff.Cond.(*ssa.BinOp)
		if !ok || cmp.Op != token.LSS {
			continue
		}
		iv := cmp.X
		var phi *ssa.Phi
		start := int64(0)
		if p, ok := iv.(*ssa.Phi); ok && p.Block() == h {
			phi = p
		} else if add, ok := iv.(*ssa.BinOp); ok && add.Op == token.ADD {
			if p, ok := add.X.(*ssa.Phi); ok && p.Block() == h {
				if k, ok := guards.ConstInt(add.Y); ok && k == 1 {
					phi = p
					start = -1
				}
			}
		}
		if phi == nil || len(phi.Edges) < 2 {
			continue
		}
		// exactly one initial edge (the constant start); every other edge is the +1 step
		nInit, nStep := 0, 0
		for _, e := range phi.Edges {
			if k, ok := guards.ConstInt(e); ok && k == start {
				nInit++
				continue
			}
			if start == -1 && e == iv {
				nStep++
				continue
			}
			if add, ok := e.(*ssa.BinOp); ok && add.Op == token.ADD && add.X == phi {
				if k, ok := guards.ConstInt(add.Y); ok && k == 1 {
					nStep++
				}
			}
		}
		if nInit != 1 || nInit+nStep != len(phi.Edges) {
			continue
		}
		l := &idxLoop{header: h, iv: iv, bound: cmp.Y, body: h.Succs[0], exit: h.Succs[1], blocks: map[*ssa.BasicBlock]bool{}}
		// natural loop: blocks dominated by the body entry from which the header is reachable
		for _, b := range fn.Blocks {
			if l.body.Dominates(b) && reaches(b, h, l.body) {
				l.blocks[b] = true
			}
		}
		l.closed = len(l.body.Preds) == 1
		for _, b := range fn.Blocks {
			if !l.body.Dominates(b) {
				continue
			}
			// a block dominated by the body that is not part of the loop is reached by leaving it
			if !l.blocks[b] {
				l.closed = false
			}
		}
		out = append(out, l)
	}
	return out
}

// reaches: to is reachable from from without leaving the region dominated by dom.
func reaches(from, to, dom *ssa.BasicBlock) bool {
	seen := map[*ssa.BasicBlock]bool{}
	var walk func(b *ssa.BasicBlock) bool
	walk = func(b *ssa.BasicBlock) bool {
		if b == to {
			return true
		}
		if seen[b] || !dom.Dominates(b) {
			return false
		}
		seen[b] = true
		for _, s := range b.Succs {
			if walk(s) {
				return true
			}
		}
		return false
	}
	for _, s := range from.Succs {
		if walk(s) {
			return true
		}
	}
	return false
}

// affine evaluates idx as a*iv + c.
func affine(idx, iv ssa.Value) (a, c int64, ok bool) {
	if idx == iv {
		return 1, 0, true
	}
	if k, isC := guards.ConstInt(idx); isC {
		return 0, k, true
	}
	switch x := idx.(type) {
	case *ssa.BinOp:
		a1, c1, ok1 := affine(x.X, iv)
		a2, c2, ok2 := affine(x.Y, iv)
		if !ok1 || !ok2 {
			return 0, 0, false
		}
		switch x.Op {
		case token.ADD:
			return a1 + a2, c1 + c2, true
		case token.SUB:
			return a1 - a2, c1 - c2, true
		}
	case *ssa.Convert:
		return affine(x.X, iv)
	case *ssa.ChangeType:
		return affine(x.X, iv)
	}
	return 0, 0, false
}

// elementStore handles p.arr[idx] = v.
func (s *maState) elementStore(li int, st *ssa.Store, valueTainted bool) {
	arr, ok := s.leaves[li].Type.Underlying().(*types.Array)
	if !ok {
		return
	}
	N := arr.Len()
	ia := st.Addr.(*ssa.IndexAddr)
	if valueTainted {
		if s.dirtyStore[li] == nil {
			s.dirtyStore[li] = st
		}
		return
	}
	b := st.Block()
	var loop *idxLoop
	for _, l := range s.loops {
		if l.blocks[b] {
			if loop == nil || len(l.blocks) < len(loop.blocks) {
				loop = l
			}
		}
	}
	if loop == nil {
		s.partial[li] = "single element assigned: " + describeInstr(st)
		return
	}
	a, c, ok := affine(ia.Index, loop.iv)
	if !ok || !((a == 1 && c == 0) || (a == -1 && c == N-1)) {
		s.partial[li] = "element index is not a permutation of 0…N-1 over the loop: " + describeInstr(st)
		return
	}
	// the loop must run exactly over 0…N-1 (at least N iterations suffice)
	full := false
	if k, isC := guards.ConstInt(loop.bound); isC {
		full = k >= N && a == 1 || k == N
	} else if lc, isCall := loop.bound.(*ssa.Call); isCall {
		if bi, isB := lc.Call.Value.(*ssa.Builtin); isB && bi.Name() == "len" {
			if k, ok := exactLen(lc.Call.Args[0], loop.header); ok && k == N {
				full = true
			} else if ExactLenOracle != nil && ExactLenOracle(lc.Call.Args[0], loop.header, N) {
				full = true // established by the linear-fact engine (e.g. through a validation helper's success path)
			} else if p, isPtr := lc.Call.Args[0].Type().Underlying().(*types.Pointer); isPtr {
				if at, isArr := p.Elem().Underlying().(*types.Array); isArr && at.Len() == N {
					full = true
				}
			}
		}
	}
	if !full {
		s.partial[li] = "loop bound is not known to cover all " + fmt.Sprint(N) + " elements: " + describeInstr(st)
		return
	}
	if !loop.closed {
		s.partial[li] = "loop has another exit (break/return) before all elements are assigned: " + describeInstr(st)
		return
	}
	// Executed on every iteration: every path through the loop body from its entry back to the
	// header passes a block that stores element iv of this leaf (one unconditional store, or one
	// store in each arm of an if/else). Candidates are collected here and judged in finishPass.
	ck := loopLeaf{loop, li}
	if s.loopCand[ck] == nil {
		s.loopCand[ck] = map[*ssa.BasicBlock]bool{}
		s.loopCandInstr[ck] = st
	}
	s.loopCand[ck][b] = true
}

type loopLeaf struct {
	loop *idxLoop
	leaf int
}

// finishPass turns the element-store candidates of the pass into loop-exit gens.
func (s *maState) finishPass() {
	for ck, blocks := range s.loopCand {
		loop, li := ck.loop, ck.leaf
		// can the header be reached from the body entry without passing a storing block?
		seen := map[*ssa.BasicBlock]bool{}
		var escape func(b *ssa.BasicBlock) bool
		escape = func(b *ssa.BasicBlock) bool {
			if b == loop.header {
				return true
			}
			if seen[b] || blocks[b] || !loop.blocks[b] {
				return false
			}
			seen[b] = true
			for _, nx := range b.Succs {
				if escape(nx) {
					return true
				}
			}
			return false
		}
		if escape(loop.body) {
			if s.partial[li] == "" {
				s.partial[li] = "element assigned only under a condition inside the loop: " + describeInstr(s.loopCandInstr[ck])
			}
			continue
		}
		k := [2]*ssa.BasicBlock{loop.header, loop.exit}
		dup := false
		for _, g := range s.loopGen[k] {
			if g == li {
				dup = true
			}
		}
		if !dup {
			s.loopGen[k] = append(s.loopGen[k], li)
		}
	}
}

// ---------------------------------------------------------------------------------------------
// returns

// successStates returns the states under which the return may carry a nil error.
func (s *maState) successStates(b *ssa.BasicBlock, ret *ssa.Return) []bitset {
	res := s.fn.Signature.Results()
	state := s.out[b]
	if res.Len() == 0 || !isErrorType(res.At(res.Len()-1).Type()) {
		return []bitset{state}
	}
	ev := ret.Results[len(ret.Results)-1]
	if phi, ok := ev.(*ssa.Phi); ok && phi.Block() == b {
		var out []bitset
		for i, e := range phi.Edges {
			p := b.Preds[i]
			st := s.out[p].copy()
			for _, g := range s.edgeLeaves(p, b) {
				st[g] = true
			}
			// instructions of b itself (between phi and return) are rare; apply the block delta
			for j := range st {
				if state[j] && !s.in[b][j] {
					st[j] = true
				}
			}
			if x := s.classify(e, p, st); x != nil {
				out = append(out, x)
			}
		}
		return out
	}
	// `if err == nil { … assign … }; return err`: the edges that reach the return with err known to be non-nil cannot be
	// successes; the state of a possible success is the meet over the other edges
	if len(b.Preds) > 1 && len(b.Instrs) == 1 {
		var st bitset
		excluded := 0
		for _, p := range b.Preds {
			if edgeNonNil(p, b, ev) {
				excluded++
				continue
			}
			ps := s.out[p].copy()
			for _, g := range s.edgeLeaves(p, b) {
				ps[g] = true
			}
			if st == nil {
				st = ps
			} else {
				st = st.and(ps)
			}
		}
		if excluded > 0 && st != nil {
			if x := s.classify(ev, b, st); x != nil {
				return []bitset{x}
			}
			return nil
		}
	}
	if x := s.classify(ev, b, state.copy()); x != nil {
		return []bitset{x}
	}
	return nil
}

// edgeNonNil: control reaches b from p only when ev != nil (p ends in a test of ev against nil and b is its non-nil
// side).
func edgeNonNil(p, b *ssa.BasicBlock, ev ssa.Value) bool {
	iff, ok := p.Instrs[len(p.Instrs)-1].(*ssa.If)
	if !ok || len(p.Succs) != 2 || p.Succs[0] == p.Succs[1] {
		return false
	}
	cond := iff.Cond
	neg := false
	for {
		u, isNot := cond.(*ssa.UnOp)
		if !isNot || u.Op != token.NOT {
			break
		}
		cond, neg = u.X, !neg
	}
	c, ok := cond.(*ssa.BinOp)
	if !ok || (c.Op != token.EQL && c.Op != token.NEQ) {
		return false
	}
	if !((c.X == ev && isNilConst(c.Y)) || (c.Y == ev && isNilConst(c.X))) {
		return false
	}
	// truth of "ev != nil" on the edge to Succs[0]
	nonNilOnTrue := (c.Op == token.NEQ) != neg
	if p.Succs[0] == b {
		return nonNilOnTrue
	}
	return !nonNilOnTrue
}

// classify decides whether error value ev can be nil at the end of block b; it returns the state
// to check (possibly strengthened by the gens of the call that produced ev) or nil.
func (s *maState) classify(ev ssa.Value, b *ssa.BasicBlock, st bitset) bitset {
	if isNilConst(ev) {
		return st
	}
	switch x := ev.(type) {
	case *ssa.MakeInterface:
		return nil // a concrete error value
	case *ssa.Call:
		if c := x.Call.StaticCallee(); c != nil {
			switch c.String() {
			case "errors.New", "fmt.Errorf", "github.com/pkg/errors.New", "github.com/pkg/errors.Errorf":
				return nil
			case "github.com/pkg/errors.Wrap", "github.com/pkg/errors.Wrapf":
				// Wrap(nil) is nil: follow the wrapped value
				if len(x.Call.Args) > 0 {
					return s.classify(x.Call.Args[0], b, st)
				}
			}
			// a module helper that builds the error (`errDataLength(n)`): every return of it is a non-nil error
			if s.m.alwaysNonNilError(c, 0) {
				return nil
			}
		}
	case *ssa.UnOp:
		// a sentinel: a package-level error variable that only the initialiser writes, with a non-nil value
		if g, ok := x.X.(*ssa.Global); ok && x.Op == token.MUL && s.m.sentinelNonNil(g) {
			return nil
		}
	}
	// known non-nil by a dominating test
	for _, f := range guards.Facts(b) {
		if f.Op == token.NEQ && ((f.L == ev && isNilConst(f.R)) || (f.R == ev && isNilConst(f.L))) {
			return nil
		}
	}
	// the error of a call that cleans leaves when it succeeds
	for cv, gen := range s.callGen {
		c := cv.(*ssa.Call)
		if e, has := errOfCall(c); has && e == ev {
			if s.allowedPrev[c] {
				for _, g := range gen {
					st[g] = true
				}
			}
		}
	}
	return st
}

// nonNilErrorValue: the value is an error that cannot be nil: a concrete value converted to the interface, the result
// of an error constructor, of a module helper all of whose returns are such values, or a sentinel variable.
func (m *MustAssigner) nonNilErrorValue(v ssa.Value, depth int) bool {
	if depth > 4 {
		return false
	}
	switch x := v.(type) {
	case *ssa.MakeInterface:
		return true
	case *ssa.Call:
		c := x.Call.StaticCallee()
		if c == nil {
			return false
		}
		switch c.String() {
		case "errors.New", "fmt.Errorf", "github.com/pkg/errors.New", "github.com/pkg/errors.Errorf":
			return true
		case "github.com/pkg/errors.Wrap", "github.com/pkg/errors.Wrapf", "github.com/pkg/errors.WithStack", "github.com/pkg/errors.WithMessage":
			return len(x.Call.Args) > 0 && m.nonNilErrorValue(x.Call.Args[0], depth+1)
		}
		return m.alwaysNonNilError(c, depth+1)
	case *ssa.UnOp:
		if g, ok := x.X.(*ssa.Global); ok && x.Op == token.MUL {
			return m.sentinelNonNil(g)
		}
	case *ssa.Phi:
		for _, e := range x.Edges {
			if !m.nonNilErrorValue(e, depth+1) {
				return false
			}
		}
		return len(x.Edges) > 0
	}
	return false
}

// alwaysNonNilError: f has a body, its last result is an error, and every return yields a non-nil one.
func (m *MustAssigner) alwaysNonNilError(f *ssa.Function, depth int) bool {
	if f == nil || f.Blocks == nil || !hasErrorResult(f) || depth > 4 {
		return false
	}
	if m.nnErr == nil {
		m.nnErr = map[*ssa.Function]int{}
	}
	switch m.nnErr[f] {
	case 1:
		return true
	case 2, 3:
		return false // 3: being computed (recursion)
	}
	m.nnErr[f] = 3
	ok, n := true, 0
	for _, b := range f.Blocks {
		ret, isRet := b.Instrs[len(b.Instrs)-1].(*ssa.Return)
		if !isRet {
			continue
		}
		n++
		if !m.nonNilErrorValue(ret.Results[len(ret.Results)-1], depth+1) {
			ok = false
		}
	}
	if ok && n > 0 {
		m.nnErr[f] = 1
		return true
	}
	m.nnErr[f] = 2
	return false
}

// sentinelNonNil: g is a package-level variable of type error that no function other than its package's initialiser
// writes, and every store of the initialiser puts a non-nil error into it.
func (m *MustAssigner) sentinelNonNil(g *ssa.Global) bool {
	if m.sentinel == nil {
		m.sentinel = map[*ssa.Global]bool{}
	}
	if r, ok := m.sentinel[g]; ok {
		return r
	}
	m.sentinel[g] = false
	pt, ok := g.Type().(*types.Pointer)
	if !ok || !isErrorType(pt.Elem()) || g.Pkg == nil {
		return false
	}
	name := GlobalName(GlobalKey(g))
	for f, fc := range m.a.Facts {
		if fc == nil {
			continue
		}
		isInit := false
		for p := f; p != nil; p = p.Parent() {
			if p.Name() == "init" || strings.HasPrefix(p.Name(), "init#") {
				isInit = true
			}
		}
		if isInit {
			continue
		}
		for _, ac := range fc.Accesses {
			if ac.Write && ac.Global == name {
				return false
			}
		}
	}
	// the address must not be taken (a store through a pointer to it would not be an access by name)
	if refs := g.Referrers(); refs != nil {
		for _, r := range *refs {
			switch u := r.(type) {
			case *ssa.UnOp:
			case *ssa.Store:
				if u.Addr != ssa.Value(g) {
					return false
				}
			case *ssa.DebugRef:
			default:
				return false
			}
		}
	}
	init := g.Pkg.Func("init")
	if init == nil {
		return false
	}
	n := 0
	for _, b := range init.Blocks {
		for _, ins := range b.Instrs {
			if st, ok := ins.(*ssa.Store); ok && st.Addr == ssa.Value(g) {
				n++
				if !m.nonNilErrorValue(st.Val, 0) {
					return false
				}
			}
		}
	}
	if n == 0 {
		return false
	}
	m.sentinel[g] = true
	return true
}
