// Package effects is engine E4: a summary-based alias / write-effect analysis over go/ssa.
//
// Two facts are kept per SSA value and never mixed (DESIGN §2.5):
//
//	loc(v)   which storage an address-like value designates (pointer target, backing array of a
//	         slice, map storage, the object held by an interface or closure);
//	reach(v) which caller-visible memory can be reached *through* the value by loads.
//
// Stores, copy destinations and in-place appends are judged by loc; retention and leaks by reach.
//
// Elements of both sets are strings:
//
//	"P<i>"      storage designated directly by parameter i (receiver = 0)      [loc only: shallow]
//	"P<i>+"     that storage or anything reachable from it by loads            [loc only: deep]
//	"G:<p.v>"   the package-level variable v itself, "G:<p.v>+" anything reachable from it
//	"A:<n>"     a fresh object created in the analysed function (alloc, make, append growth,
//	            composite literal, fresh call result); collapses to "F" in summaries
//	"X", "X+"   memory of unknown origin (free variables, opaque externals)
//
// reach sets hold roots without the "+" marker ("P0", "G:p.v", "A:7", "X").
package effects

import (
	"fmt"
	"go/constant"
	"go/token"
	"go/types"
	"sort"
	"strconv"
	"strings"

	"golang.org/x/tools/go/ssa"
)

// ---------------------------------------------------------------------------------------------
// sets

type Set map[string]struct{}

func (s Set) Has(k string) bool { _, ok := s[k]; return ok }
func (s Set) Add(k string) bool {
	if _, ok := s[k]; ok {
		return false
	}
	s[k] = struct{}{}
	return true
}
func (s Set) AddAll(o Set) bool {
	ch := false
	for k := range o {
		if s.Add(k) {
			ch = true
		}
	}
	return ch
}
func (s Set) Sorted() []string {
	out := make([]string, 0, len(s))
	for k := range s {
		out = append(out, k)
	}
	sort.Strings(out)
	return out
}
func (s Set) String() string { return "{" + strings.Join(s.Sorted(), ",") + "}" }
func (s Set) Copy() Set {
	o := Set{}
	for k := range s {
		o[k] = struct{}{}
	}
	return o
}

func one(k string) Set { return Set{k: {}} }

// IsFresh reports whether a loc/reach element denotes memory created by the analysed function.
func IsFresh(e string) bool { return e == "F" || strings.HasPrefix(e, "A:") }

// RootOf strips the deep marker.
func RootOf(loc string) string { return strings.TrimSuffix(loc, "+") }

// IsDeep reports whether a loc element carries the "or anything reachable" marker.
func IsDeep(loc string) bool { return strings.HasSuffix(loc, "+") }

// ParamIndex returns i for "P<i>" / "P<i>+", else -1.
func ParamIndex(e string) int {
	e = RootOf(e)
	if !strings.HasPrefix(e, "P") {
		return -1
	}
	n, err := strconv.Atoi(e[1:])
	if err != nil {
		return -1
	}
	return n
}

// GlobalName returns "pkg.var" for "G:pkg.var" / "G:pkg.var+", else "".
func GlobalName(e string) string {
	e = RootOf(e)
	if strings.HasPrefix(e, "G:") {
		return e[2:]
	}
	return ""
}

func deepOf(root string) string {
	if IsFresh(root) {
		return root
	}
	return RootOf(root) + "+"
}

// ---------------------------------------------------------------------------------------------
// types

// HasRef reports whether a value of type t can carry a reference to mutable memory.
// Strings are immutable and therefore not references for this analysis.
func HasRef(t types.Type) bool {
	return hasRef(t, 0)
}

func hasRef(t types.Type, depth int) bool {
	if depth > 8 {
		return true
	}
	switch u := t.Underlying().(type) {
	case *types.Pointer, *types.Slice, *types.Map, *types.Chan, *types.Signature, *types.Interface:
		return true
	case *types.Struct:
		for i := 0; i < u.NumFields(); i++ {
			if hasRef(u.Field(i).Type(), depth+1) {
				return true
			}
		}
	case *types.Array:
		return hasRef(u.Elem(), depth+1)
	case *types.Tuple:
		for i := 0; i < u.Len(); i++ {
			if hasRef(u.At(i).Type(), depth+1) {
				return true
			}
		}
	}
	return false
}

// AddrLike: the value itself designates storage (pointer, slice, map, chan, interface box, closure).
func AddrLike(t types.Type) bool {
	switch t.Underlying().(type) {
	case *types.Pointer, *types.Slice, *types.Map, *types.Chan, *types.Interface, *types.Signature:
		return true
	}
	return false
}

func isByteLike(t types.Type) bool {
	b, ok := t.Underlying().(*types.Basic)
	return ok && (b.Kind() == types.Uint8 || b.Kind() == types.Int8)
}

// ---------------------------------------------------------------------------------------------
// effects and summaries

// Effect is a witness for one summarised effect.
type Effect struct {
	Kind  string // store | copy | append | mapupdate | delete | ext:<callee> | send
	Bytes bool   // the written elements are bytes (writes into a []byte / [N]byte backing array)
	// SliceMem: the write goes through a slice value that was not made by slicing an array the
	// function can name (p.arr[:]); i.e. it lands in a slice's own backing array.
	SliceMem bool
	Pos      token.Pos
	Fn       *ssa.Function // function containing the primitive instruction
	Desc     string        // normalised description of the primitive instruction
	Via      []string      // call chain from the summarised function down to Fn (callee names)
	Instr    ssa.Instruction
	Typ      types.Type // retains: static type of the stored value
}

func (e *Effect) via(callee string) *Effect {
	c := *e
	c.Via = append([]string{callee}, e.Via...)
	if len(c.Via) > 6 {
		c.Via = c.Via[:6]
	}
	return &c
}

// Chain renders "f -> g -> primitive".
func (e *Effect) Chain() string {
	s := e.Kind + " " + e.Desc
	if e.Fn != nil {
		s += " in " + ShortFunc(e.Fn)
	}
	if len(e.Via) > 0 {
		s = "via " + strings.Join(e.Via, " -> ") + ": " + s
	}
	return s
}

// Summary of one function; all elements are expressed in the function's own parameters, in
// globals, "F" and "X".
type Summary struct {
	Fn *ssa.Function
	// Writes: non-fresh loc -> witnesses (first per bytes/non-bytes kind).
	Writes map[string][]*Effect
	// Appends: in-place append on a slice with non-fresh backing array whose result is not stored
	// back to the location the slice was loaded from.
	Appends map[string][]*Effect
	// Retains: destination loc (non-fresh) -> source root (non-fresh) -> witness.
	Retains map[string]map[string]*Effect
	// per result
	RetLoc   []Set // loc elements with fresh collapsed to "F"
	RetReach []Set // non-fresh roots reachable through the result (+ "F" if it is/contains fresh memory)
	// GlobalsRead: global name -> witness of a (direct or transitive) read.
	GlobalsRead map[string]*Effect
	// Opaque: calls to external functions without an effect-table entry that receive
	// non-fresh memory: loc -> witness.
	Opaque map[string][]*Effect
	size   int
}

func newSummary(fn *ssa.Function) *Summary {
	s := &Summary{Fn: fn, Writes: map[string][]*Effect{}, Appends: map[string][]*Effect{}, Retains: map[string]map[string]*Effect{},
		GlobalsRead: map[string]*Effect{}, Opaque: map[string][]*Effect{}}
	n := fn.Signature.Results().Len()
	for i := 0; i < n; i++ {
		s.RetLoc = append(s.RetLoc, Set{})
		s.RetReach = append(s.RetReach, Set{})
	}
	return s
}

func addEff(m map[string][]*Effect, loc string, e *Effect) bool {
	for _, o := range m[loc] {
		if o.Bytes == e.Bytes && o.SliceMem == e.SliceMem {
			return false
		}
	}
	m[loc] = append(m[loc], e)
	return true
}

func (s *Summary) measure() int {
	n := 0
	for _, v := range s.Writes {
		n += 1 + len(v)
	}
	for _, v := range s.Appends {
		n += 1 + len(v)
	}
	for _, v := range s.Retains {
		n += 1 + len(v)
	}
	for _, v := range s.RetLoc {
		n += len(v)
	}
	for _, v := range s.RetReach {
		n += len(v)
	}
	for _, v := range s.Opaque {
		n += 1 + len(v)
	}
	n += len(s.GlobalsRead)
	return n
}

// WritesRoot lists the witnesses of writes whose loc has the given root (shallow or deep).
func (s *Summary) WritesRoot(root string) []*Effect {
	var out []*Effect
	for _, k := range sortedKeys(s.Writes) {
		if RootOf(k) == root {
			out = append(out, s.Writes[k]...)
		}
	}
	return out
}

func sortedKeys[V any](m map[string]V) []string {
	out := make([]string, 0, len(m))
	for k := range m {
		out = append(out, k)
	}
	sort.Strings(out)
	return out
}

// Access is one direct access of a package-level variable (or memory reachable from it).
type Access struct {
	Global string // pkg.var
	Write  bool
	Deep   bool // through a load (map element, pointee) rather than the variable itself
	Instr  ssa.Instruction
	Desc   string
}

// Facts are the per-function value facts of the final iteration (for rules that look at sites).
type Facts struct {
	Fn       *ssa.Function
	L, R     map[ssa.Value]Set
	Contents map[string]*tstore
	Accesses []Access
	// AppendSites: every in-place append on a non-fresh backing array, with stored-back flag.
	AppendSites []AppendSite
	ids         map[ssa.Value]string
	st          *fstate
}

type AppendSite struct {
	Call       *ssa.Call
	Locs       []string // non-fresh locs of the base slice
	StoredBack bool
}

// Loc returns loc(v) with fresh ids collapsed to "F".
func (f *Facts) Loc(v ssa.Value) Set {
	out := Set{}
	for k := range f.L[v] {
		if IsFresh(k) {
			out.Add("F")
		} else {
			out.Add(k)
		}
	}
	return out
}

// Reach returns the non-fresh roots reachable through v.
func (f *Facts) Reach(v ssa.Value) Set {
	return f.st.expand(f.R[v], false)
}

// ---------------------------------------------------------------------------------------------
// analysis driver

type Config struct {
	// Funcs are the functions to summarise (they must have bodies).
	Funcs []*ssa.Function
	// Callees resolves a dynamic call site (interface invoke, closure call); static callees are
	// taken from the instruction.
	Callees func(ssa.CallInstruction) []*ssa.Function
	// MaxRounds bounds the global fixpoint iteration (default 24).
	MaxRounds int
}

type Analysis struct {
	cfg    Config
	Sums   map[*ssa.Function]*Summary
	Facts  map[*ssa.Function]*Facts
	Rounds int
	// ExtSeen records every external callee encountered and the table entry used ("" = none).
	ExtSeen map[string]string
	inScope map[*ssa.Function]bool
	// OnceInit: function literals run by Do of a package-level sync.Once (no free variables) -> that Once
	OnceInit map[*ssa.Function]string
}

func Analyse(cfg Config) *Analysis {
	a := &Analysis{cfg: cfg, Sums: map[*ssa.Function]*Summary{}, Facts: map[*ssa.Function]*Facts{}, ExtSeen: map[string]string{}, inScope: map[*ssa.Function]bool{}}
	fns := append([]*ssa.Function(nil), cfg.Funcs...)
	sort.SliceStable(fns, func(i, j int) bool { return fns[i].String() < fns[j].String() })
	for _, f := range fns {
		a.inScope[f] = true
		a.Sums[f] = newSummary(f)
	}
	max := cfg.MaxRounds
	if max == 0 {
		max = 24
	}
	for round := 1; round <= max; round++ {
		a.Rounds = round
		changed := false
		for _, f := range fns {
			st := a.analyseFunc(f)
			if st.sum.measure() != a.Sums[f].measure() {
				changed = true
			}
			a.Sums[f] = st.sum
			a.Facts[f] = st.facts()
		}
		if !changed {
			break
		}
	}
	return a
}

// Summary returns the summary of fn or nil if fn is not in scope.
func (a *Analysis) Summary(fn *ssa.Function) *Summary { return a.Sums[fn] }

// CalleesOf resolves the callees of a call instruction: static callee, else refined dynamic set.
func (a *Analysis) CalleesOf(ci ssa.CallInstruction) []*ssa.Function {
	com := ci.Common()
	if c := com.StaticCallee(); c != nil {
		return []*ssa.Function{c}
	}
	if _, ok := com.Value.(*ssa.Builtin); ok {
		return nil
	}
	var cs []*ssa.Function
	if a.cfg.Callees != nil {
		cs = a.cfg.Callees(ci)
	}
	if com.IsInvoke() {
		inScope := false
		for _, c := range cs {
			if a.inScope[c] {
				inScope = true
			}
		}
		if !inScope {
			// the call graph found no implementation inside the module: fall back to every
			// in-scope method of that name whose receiver implements the interface (CHA)
			if it, ok := com.Value.Type().Underlying().(*types.Interface); ok {
				for f := range a.inScope {
					if f.Name() == com.Method.Name() && f.Signature.Recv() != nil && types.Implements(f.Signature.Recv().Type(), it) {
						cs = append(cs, f)
					}
				}
			}
		}
		cs = refineInvoke(ci, cs)
	}
	sort.SliceStable(cs, func(i, j int) bool { return cs[i].String() < cs[j].String() })
	return cs
}

// refineInvoke narrows the callee set of x.M() when x was loaded from an address whose content is
// known, on every path to the call, to have passed a type assertion to a concrete type T:
//
//	if _, ok := p.F.(*T); !ok { return … }   …   p.F.M()
//
// (the call-graph algorithms are flow-insensitive and would keep every implementation).
func refineInvoke(ci ssa.CallInstruction, cs []*ssa.Function) []*ssa.Function {
	com := ci.Common()
	ld, ok := com.Value.(*ssa.UnOp)
	if !ok || ld.Op != token.MUL {
		return cs
	}
	path, ok := addrPath(ld.X)
	if !ok {
		return cs
	}
	fn := ci.Parent()
	cb := ci.Block()
	var T types.Type
	for _, b := range fn.Blocks {
		for _, ins := range b.Instrs {
			ta, ok := ins.(*ssa.TypeAssert)
			if !ok || !ta.CommaOk {
				continue
			}
			l2, ok := ta.X.(*ssa.UnOp)
			if !ok || l2.Op != token.MUL {
				continue
			}
			if p2, ok := addrPath(l2.X); !ok || p2 != path {
				continue
			}
			// find `if ok` on the extracted flag and require that the call's block is dominated by
			// the true successor (and not reachable otherwise)
			for _, ref := range *ta.Referrers() {
				ex, ok := ref.(*ssa.Extract)
				if !ok || ex.Index != 1 {
					continue
				}
				for _, r2 := range *ex.Referrers() {
					iff, ok := r2.(*ssa.If)
					if !ok {
						continue
					}
					tb := iff.Block().Succs[0]
					if len(tb.Preds) == 1 && tb.Dominates(cb) {
						T = ta.AssertedType
					}
				}
			}
		}
	}
	if T == nil {
		return cs
	}
	// fail closed on any store to the same address path that may execute before the call
	for _, b := range fn.Blocks {
		for i, ins := range b.Instrs {
			st, ok := ins.(*ssa.Store)
			if !ok {
				continue
			}
			if p2, ok := addrPath(st.Addr); ok && p2 == path {
				after := cb.Dominates(b) && (b != cb || i > indexOf(cb, ci.(ssa.Instruction)))
				if !after {
					return cs
				}
			}
		}
	}
	var out []*ssa.Function
	for _, c := range cs {
		if c.Signature.Recv() != nil && types.Identical(c.Signature.Recv().Type(), T) {
			out = append(out, c)
		}
	}
	if len(out) == 0 {
		return cs
	}
	return out
}

func indexOf(b *ssa.BasicBlock, ins ssa.Instruction) int {
	for i, x := range b.Instrs {
		if x == ins {
			return i
		}
	}
	return -1
}

// addrPath renders an address built from a parameter or global by FieldAddr steps.
func addrPath(v ssa.Value) (string, bool) {
	var parts []string
	for {
		switch x := v.(type) {
		case *ssa.FieldAddr:
			parts = append([]string{"." + strconv.Itoa(x.Field)}, parts...)
			v = x.X
		case *ssa.Parameter:
			return x.Name() + strings.Join(parts, ""), true
		case *ssa.Global:
			return "G:" + x.Name() + strings.Join(parts, ""), true
		default:
			return "", false
		}
	}
}

// ShortFunc renders a function name without the module path.
func ShortFunc(f *ssa.Function) string {
	if f == nil {
		return "?"
	}
	s := f.String()
	s = strings.ReplaceAll(s, "github.com/brocaar/lorawan/", "")
	s = strings.ReplaceAll(s, "github.com/brocaar/lorawan.", "")
	s = strings.ReplaceAll(s, "github.com/brocaar/lorawan", "lorawan")
	return s
}

// GlobalKey is the reach/loc root of a package-level variable.
func GlobalKey(g *ssa.Global) string {
	p := ""
	if g.Pkg != nil {
		p = g.Pkg.Pkg.Path()
		p = strings.TrimPrefix(p, "github.com/brocaar/lorawan/")
		if p == "github.com/brocaar/lorawan" {
			p = "lorawan"
		}
	}
	return "G:" + p + "." + g.Name()
}

// ---------------------------------------------------------------------------------------------
// per-function analysis

type fstate struct {
	a        *Analysis
	fn       *ssa.Function
	L, R     map[ssa.Value]Set
	contents map[string]*tstore // fresh id -> typed reach elements stored inside
	stored   map[string]*tstore // non-fresh loc -> typed reach elements stored there by this function
	ids      map[ssa.Value]string
	nextID   int
	sum      *Summary
	changed  bool
	accesses map[ssa.Instruction][]Access
	appends  map[*ssa.Call]*AppendSite
}

func (st *fstate) facts() *Facts {
	f := &Facts{Fn: st.fn, L: st.L, R: st.R, Contents: st.contents, ids: st.ids, st: st}
	for _, b := range st.fn.Blocks {
		for _, ins := range b.Instrs {
			f.Accesses = append(f.Accesses, st.accesses[ins]...)
			if c, ok := ins.(*ssa.Call); ok {
				if as := st.appends[c]; as != nil {
					f.AppendSites = append(f.AppendSites, *as)
				}
			}
		}
	}
	return f
}

func (st *fstate) l(v ssa.Value) Set {
	s := st.L[v]
	if s == nil {
		s = Set{}
		st.L[v] = s
		st.initValue(v)
	}
	return s
}

func (st *fstate) r(v ssa.Value) Set {
	s := st.R[v]
	if s == nil {
		s = Set{}
		st.R[v] = s
		st.initValue(v)
	}
	return s
}

// initValue seeds facts of values that are not instructions (globals, functions, free variables).
func (st *fstate) initValue(v ssa.Value) {
	if st.L[v] == nil {
		st.L[v] = Set{}
	}
	if st.R[v] == nil {
		st.R[v] = Set{}
	}
	switch x := v.(type) {
	case *ssa.Global:
		k := GlobalKey(x)
		st.L[v].Add(k)
		st.R[v].Add(k)
	case *ssa.FreeVar:
		st.L[v].Add("X")
		st.R[v].Add("X")
	case *ssa.Function, *ssa.Const, *ssa.Builtin:
		// no memory
	}
}

func (st *fstate) id(v ssa.Value) string {
	if s, ok := st.ids[v]; ok {
		return s
	}
	st.nextID++
	s := "A:" + strconv.Itoa(st.nextID)
	st.ids[v] = s
	return s
}

func (st *fstate) uL(v ssa.Value, q Set) {
	s := st.l(v)
	for k := range q {
		if s.Add(k) {
			st.changed = true
		}
	}
	// invariant: what a value designates is reachable through it
	r := st.r(v)
	for k := range q {
		if r.Add(RootOf(k)) {
			st.changed = true
		}
	}
}

func (st *fstate) uR(v ssa.Value, q Set) {
	if st.r(v).AddAll(q) {
		st.changed = true
	}
}

// tstore is a type-indexed bag of reach elements: a load of static type T can only observe values
// that were stored with a static type overlapping T (one is T, contains T by value, or is
// contained in T by value). This is the usual type-based alias filter; it is what keeps a []byte
// stored in one field from "flowing" into an interface-typed field of the same root.
type tstore struct {
	entries []*tentry
}

type tentry struct {
	typ   types.Type // nil = any type
	reach Set
}

func (t *tstore) add(typ types.Type, vr Set) bool {
	if len(vr) == 0 {
		return false
	}
	for _, e := range t.entries {
		if (e.typ == nil && typ == nil) || (e.typ != nil && typ != nil && types.Identical(e.typ, typ)) {
			return e.reach.AddAll(vr)
		}
	}
	t.entries = append(t.entries, &tentry{typ: typ, reach: vr.Copy()})
	return true
}

func (t *tstore) get(typ types.Type, out Set) {
	if t == nil {
		return
	}
	for _, e := range t.entries {
		if e.typ == nil || typ == nil || typesOverlap(e.typ, typ) {
			out.AddAll(e.reach)
		}
	}
}

func (t *tstore) all() Set {
	out := Set{}
	t.get(nil, out)
	return out
}

var overlapCache = map[[2]types.Type]bool{}

func typesOverlap(a, b types.Type) bool {
	if types.Identical(a, b) {
		return true
	}
	k := [2]types.Type{a, b}
	if v, ok := overlapCache[k]; ok {
		return v
	}
	v := typeContains(a, b, 0) || typeContains(b, a, 0)
	overlapCache[k] = v
	return v
}

// typeContains: a value of type a embeds (by value) a component of type b.
func typeContains(a, b types.Type, depth int) bool {
	if depth > 10 {
		return true
	}
	switch u := a.Underlying().(type) {
	case *types.Struct:
		for i := 0; i < u.NumFields(); i++ {
			ft := u.Field(i).Type()
			if types.Identical(ft, b) || typeContains(ft, b, depth+1) {
				return true
			}
		}
	case *types.Array:
		return types.Identical(u.Elem(), b) || typeContains(u.Elem(), b, depth+1)
	case *types.Tuple:
		for i := 0; i < u.Len(); i++ {
			if types.Identical(u.At(i).Type(), b) || typeContains(u.At(i).Type(), b, depth+1) {
				return true
			}
		}
	}
	return false
}

func (st *fstate) cont(id string) *tstore {
	s := st.contents[id]
	if s == nil {
		s = &tstore{}
		st.contents[id] = s
	}
	return s
}

// contentOf: the reach elements of static type typ (nil = any) held in the storage designated by locs.
func (st *fstate) contentOf(locs Set, typ types.Type) Set {
	out := Set{}
	for l := range locs {
		if IsFresh(l) {
			st.contents[l].get(typ, out)
			continue
		}
		root := RootOf(l)
		out.Add(root)
		st.stored[root].get(typ, out)
		st.stored[root+"+"].get(typ, out)
	}
	return out
}

func deepLocs(reach Set) Set {
	out := Set{}
	for r := range reach {
		out.Add(deepOf(r))
	}
	return out
}

// expand resolves fresh ids through their contents; keepF adds "F" when fresh memory is involved.
func (st *fstate) expand(reach Set, keepF bool) Set {
	out := Set{}
	seen := Set{}
	var walk func(e string)
	walk = func(e string) {
		if !seen.Add(e) {
			return
		}
		if IsFresh(e) {
			if keepF {
				out.Add("F")
			}
			if ts := st.contents[e]; ts != nil {
				for c := range ts.all() {
					walk(c)
				}
			}
			return
		}
		out.Add(RootOf(e))
	}
	for e := range reach {
		walk(e)
	}
	return out
}

func (a *Analysis) analyseFunc(fn *ssa.Function) *fstate {
	st := &fstate{a: a, fn: fn, L: map[ssa.Value]Set{}, R: map[ssa.Value]Set{}, contents: map[string]*tstore{}, stored: map[string]*tstore{},
		ids: map[ssa.Value]string{}, sum: newSummary(fn), accesses: map[ssa.Instruction][]Access{}, appends: map[*ssa.Call]*AppendSite{}}
	for i, p := range fn.Params {
		k := "P" + strconv.Itoa(i)
		st.L[p], st.R[p] = Set{}, Set{}
		if AddrLike(p.Type()) {
			st.L[p].Add(k)
		}
		if HasRef(p.Type()) {
			st.R[p].Add(k)
		}
	}
	for _, fv := range fn.FreeVars {
		st.initValue(fv)
	}
	// pre-assign stable ids in instruction order
	for _, b := range fn.Blocks {
		for _, ins := range b.Instrs {
			if v, ok := ins.(ssa.Value); ok {
				switch ins.(type) {
				case *ssa.Alloc, *ssa.MakeSlice, *ssa.MakeMap, *ssa.MakeChan, *ssa.MakeClosure, *ssa.Call, *ssa.Convert, *ssa.MakeInterface:
					st.id(v)
				}
			}
		}
	}
	// blocks that no execution reaches (`if debug { … }` with debug a false constant) have no effects
	live := LiveBlocks(fn)
	for iter := 0; iter < 40; iter++ {
		st.changed = false
		for _, b := range fn.Blocks {
			if !live[b] {
				continue
			}
			for _, ins := range b.Instrs {
				st.transfer(ins)
			}
		}
		if !st.changed {
			break
		}
	}
	st.finish()
	return st
}

// LiveBlocks: the blocks reachable from the entry when a branch on a boolean constant takes only the side the
// constant selects (go/ssa keeps both arms of `if false { … }`).
func LiveBlocks(fn *ssa.Function) map[*ssa.BasicBlock]bool {
	live := map[*ssa.BasicBlock]bool{}
	if len(fn.Blocks) == 0 {
		return live
	}
	var walk func(b *ssa.BasicBlock)
	walk = func(b *ssa.BasicBlock) {
		if live[b] {
			return
		}
		live[b] = true
		if len(b.Instrs) > 0 {
			if iff, ok := b.Instrs[len(b.Instrs)-1].(*ssa.If); ok && len(b.Succs) == 2 {
				if c, ok := iff.Cond.(*ssa.Const); ok && c.Value != nil && c.Value.Kind() == constant.Bool {
					if constant.BoolVal(c.Value) {
						walk(b.Succs[0])
					} else {
						walk(b.Succs[1])
					}
					return
				}
			}
		}
		for _, s := range b.Succs {
			walk(s)
		}
	}
	walk(fn.Blocks[0])
	if fn.Recover != nil {
		walk(fn.Recover)
	}
	return live
}

func (st *fstate) transfer(ins ssa.Instruction) {
	switch x := ins.(type) {
	case *ssa.Alloc:
		st.uL(x, one(st.id(x)))
	case *ssa.MakeSlice:
		st.uL(x, one(st.id(x)))
	case *ssa.MakeMap:
		st.uL(x, one(st.id(x)))
	case *ssa.MakeChan:
		st.uL(x, one(st.id(x)))
	case *ssa.MakeClosure:
		id := st.id(x)
		st.uL(x, one(id))
		for _, b := range x.Bindings {
			if st.cont(id).add(b.Type(), st.r(b)) {
				st.changed = true
			}
		}
	case *ssa.MakeInterface:
		if AddrLike(x.X.Type()) {
			st.uL(x, st.l(x.X))
			st.uR(x, st.r(x.X))
		} else if HasRef(x.X.Type()) {
			// a boxed copy of a value that carries references
			id := st.id(x)
			st.uL(x, one(id))
			if st.cont(id).add(x.X.Type(), st.r(x.X)) {
				st.changed = true
			}
		}
	case *ssa.FieldAddr:
		st.uL(x, st.l(x.X))
		st.uR(x, st.r(x.X))
	case *ssa.IndexAddr:
		st.uL(x, st.l(x.X))
		st.uR(x, st.r(x.X))
	case *ssa.Slice:
		if _, isStr := x.X.Type().Underlying().(*types.Basic); isStr {
			return
		}
		st.uL(x, st.l(x.X))
		st.uR(x, st.r(x.X))
	case *ssa.Field:
		st.fromAggregate(x, x.X)
	case *ssa.Index:
		st.fromAggregate(x, x.X)
	case *ssa.ChangeType:
		st.uL(x, st.l(x.X))
		st.uR(x, st.r(x.X))
	case *ssa.ChangeInterface:
		st.uL(x, st.l(x.X))
		st.uR(x, st.r(x.X))
	case *ssa.SliceToArrayPointer:
		st.uL(x, st.l(x.X))
		st.uR(x, st.r(x.X))
	case *ssa.Convert:
		if HasRef(x.Type()) && HasRef(x.X.Type()) {
			st.uL(x, st.l(x.X))
			st.uR(x, st.r(x.X))
		} else if AddrLike(x.Type()) {
			st.uL(x, one(st.id(x))) // string -> []byte/[]rune: a fresh copy
		}
	case *ssa.TypeAssert:
		if HasRef(x.AssertedType) || x.CommaOk {
			if AddrLike(x.AssertedType) {
				st.uL(x, st.l(x.X))
				st.uR(x, st.r(x.X))
			} else if HasRef(x.AssertedType) {
				st.uR(x, st.contentOf(st.l(x.X), x.AssertedType))
			}
		}
	case *ssa.Phi:
		for _, e := range x.Edges {
			if _, isC := e.(*ssa.Const); isC {
				continue
			}
			st.uL(x, st.l(e))
			st.uR(x, st.r(e))
		}
	case *ssa.Select:
		// received values: content of the channels
		for _, s := range x.States {
			if s.Dir == types.RecvOnly {
				st.uR(x, st.contentOf(st.l(s.Chan), nil))
			}
		}
	case *ssa.UnOp:
		switch x.Op {
		case token.MUL:
			st.load(x, x.X)
		case token.ARROW:
			c := st.contentOf(st.l(x.X), x.Type())
			if HasRef(x.Type()) {
				st.uR(x, c)
				st.uL(x, deepLocs(c))
			}
		}
	case *ssa.Lookup:
		if _, isMap := x.X.Type().Underlying().(*types.Map); !isMap {
			return
		}
		st.noteAccess(x, st.l(x.X), false, "lookup "+describeAddr(x.X))
		vt := x.Type()
		if x.CommaOk {
			vt = x.Type().(*types.Tuple).At(0).Type()
		}
		if HasRef(vt) {
			c := st.contentOf(st.l(x.X), vt)
			st.uR(x, c)
			if AddrLike(vt) {
				st.uL(x, deepLocs(c))
			}
		}
	case *ssa.Range:
		if _, isMap := x.X.Type().Underlying().(*types.Map); isMap {
			st.noteAccess(x, st.l(x.X), false, "range "+describeAddr(x.X))
			st.uL(x, st.l(x.X))
			st.uR(x, st.r(x.X))
		}
	case *ssa.Next:
		if !x.IsString {
			c := st.contentOf(st.l(x.Iter), nil)
			st.uR(x, c)
		}
	case *ssa.Extract:
		st.extract(x)
	case *ssa.Call:
		st.call(x)
	case *ssa.Go:
		st.call(x)
	case *ssa.Defer:
		st.call(x)
	case *ssa.Store:
		st.store(x, x.Addr, x.Val, "store")
	case *ssa.MapUpdate:
		st.noteAccess(x, st.l(x.Map), true, "map update "+describeAddr(x.Map))
		st.writeTo(x, st.l(x.Map), "mapupdate", nil, describeInstr(x))
		for _, v := range []ssa.Value{x.Key, x.Value} {
			if _, isC := v.(*ssa.Const); !isC && HasRef(v.Type()) {
				st.storeInto(x, st.l(x.Map), st.r(v), v.Type(), "mapupdate", describeInstr(x))
			}
		}
	case *ssa.Send:
		if HasRef(x.X.Type()) {
			st.storeInto(x, st.l(x.Chan), st.r(x.X), x.X.Type(), "send", describeInstr(x))
		}
	case *ssa.Return:
		// results are read off the final value facts in finish()
	}
}

// fromAggregate: a component read out of a struct/array *value*.
func (st *fstate) fromAggregate(x ssa.Value, base ssa.Value) {
	if !HasRef(x.Type()) {
		return
	}
	st.uR(x, st.r(base))
	if AddrLike(x.Type()) {
		st.uL(x, deepLocs(st.r(base)))
	}
}

func (st *fstate) load(x *ssa.UnOp, addr ssa.Value) {
	al := st.l(addr)
	st.noteAccess(x, al, false, "load "+describeAddr(addr))
	if !HasRef(x.Type()) {
		return
	}
	// strong update: `p.f = v; … p.f …` in one block with nothing in between that can change p.f
	if v := forwardedStore(x); v != nil {
		if _, isC := v.(*ssa.Const); isC {
			return
		}
		st.uR(x, st.r(v))
		if AddrLike(x.Type()) {
			st.uL(x, st.l(v))
		}
		return
	}
	c := st.contentOf(al, x.Type())
	st.uR(x, c)
	if AddrLike(x.Type()) {
		st.uL(x, deepLocs(c))
	}
}

func (st *fstate) store(ins ssa.Instruction, addr, val ssa.Value, kind string) {
	al := st.l(addr)
	st.noteAccess(ins, al, true, "store "+describeAddr(addr))
	st.writeTo(ins, al, kind, addr, describeInstr(ins))
	if _, isC := val.(*ssa.Const); isC || !HasRef(val.Type()) {
		return
	}
	st.storeInto(ins, al, st.r(val), val.Type(), kind, describeInstr(ins))
}

// WriteFlags classifies the memory written through target (an element address, or a slice used as
// copy destination / append base / external write target): are the elements bytes, and is it a
// slice's own backing array (as opposed to an array the function addresses by name).
func WriteFlags(target ssa.Value) (bytes, sliceMem bool) {
	if target == nil {
		return false, false
	}
	switch t := target.Type().Underlying().(type) {
	case *types.Slice:
		return isByteLike(t.Elem()), IsSliceMem(target)
	case *types.Pointer:
		ia, ok := target.(*ssa.IndexAddr)
		if !ok {
			return false, false
		}
		switch bt := ia.X.Type().Underlying().(type) {
		case *types.Slice:
			return isByteLike(bt.Elem()), IsSliceMem(ia.X)
		case *types.Pointer:
			if arr, ok := bt.Elem().Underlying().(*types.Array); ok {
				return isByteLike(arr.Elem()), false
			}
		}
	}
	return false, false
}

// IsSliceMem: the slice value v does not (only) come from slicing an addressable array.
func IsSliceMem(v ssa.Value) bool {
	return isSliceMem(v, map[ssa.Value]bool{})
}

func isSliceMem(v ssa.Value, seen map[ssa.Value]bool) bool {
	if seen[v] {
		return false
	}
	seen[v] = true
	switch x := v.(type) {
	case *ssa.Slice:
		if _, isPtr := x.X.Type().Underlying().(*types.Pointer); isPtr {
			return false
		}
		return isSliceMem(x.X, seen)
	case *ssa.Phi:
		for _, e := range x.Edges {
			if isSliceMem(e, seen) {
				return true
			}
		}
		return false
	case *ssa.ChangeType:
		return isSliceMem(x.X, seen)
	case *ssa.Convert:
		return isSliceMem(x.X, seen)
	case *ssa.Const:
		return false
	}
	return true
}

// writeTo records a write effect on every non-fresh loc; target is the value written through.
func (st *fstate) writeTo(ins ssa.Instruction, locs Set, kind string, target ssa.Value, desc string) {
	bytes, sm := WriteFlags(target)
	for l := range locs {
		if IsFresh(l) {
			continue
		}
		if addEff(st.sum.Writes, l, &Effect{Kind: kind, Bytes: bytes, SliceMem: sm, Pos: ins.Pos(), Fn: st.fn, Desc: desc, Instr: ins}) {
			st.changed = true
		}
	}
}

// storeInto records that values with reach vr now live in the storage designated by locs.
func (st *fstate) storeInto(ins ssa.Instruction, locs Set, vr Set, typ types.Type, kind, desc string) {
	st.storeIntoEff(locs, vr, &Effect{Kind: kind, Pos: ins.Pos(), Fn: st.fn, Desc: desc, Instr: ins, Typ: typ})
}

// storeIntoEff is storeInto with a ready-made witness (its Typ is the static type of the value).
func (st *fstate) storeIntoEff(locs Set, vr Set, e *Effect) {
	for l := range locs {
		if IsFresh(l) {
			if st.cont(l).add(e.Typ, vr) {
				st.changed = true
			}
			continue
		}
		s := st.stored[l]
		if s == nil {
			s = &tstore{}
			st.stored[l] = s
		}
		if s.add(e.Typ, vr) {
			st.changed = true
		}
		for src := range vr {
			st.retain(l, src, e)
		}
	}
}

// retain keeps raw (possibly fresh) sources per destination; they are resolved in finish().
func (st *fstate) retain(dst, src string, e *Effect) {
	m := st.sum.Retains[dst]
	if m == nil {
		m = map[string]*Effect{}
		st.sum.Retains[dst] = m
	}
	if _, ok := m[src]; !ok {
		m[src] = e
		st.changed = true
	}
}

func (st *fstate) noteAccess(ins ssa.Instruction, locs Set, write bool, desc string) {
	for l := range locs {
		g := GlobalName(l)
		if g == "" {
			continue
		}
		dup := false
		for _, a := range st.accesses[ins] {
			if a.Global == g && a.Write == write {
				dup = true
			}
		}
		if !dup {
			st.accesses[ins] = append(st.accesses[ins], Access{Global: g, Write: write, Deep: IsDeep(l), Instr: ins, Desc: desc})
		}
		if !write {
			if _, ok := st.sum.GlobalsRead[g]; !ok {
				st.sum.GlobalsRead[g] = &Effect{Kind: "read", Pos: ins.Pos(), Fn: st.fn, Desc: desc, Instr: ins}
			}
		}
	}
}

func (st *fstate) extract(x *ssa.Extract) {
	switch t := x.Tuple.(type) {
	case *ssa.Call:
		l, r := st.callResult(t, x.Index)
		if AddrLike(x.Type()) {
			st.uL(x, l)
		}
		if HasRef(x.Type()) {
			st.uR(x, r)
		}
	case *ssa.TypeAssert, *ssa.Lookup, *ssa.UnOp, *ssa.Select:
		if x.Index == 0 || (isSelect(t) && x.Index >= 2) {
			if HasRef(x.Type()) {
				st.uR(x, st.r(t))
				if AddrLike(x.Type()) {
					if _, isTA := t.(*ssa.TypeAssert); isTA {
						st.uL(x, st.l(t))
					} else {
						st.uL(x, deepLocs(st.r(t)))
						st.uL(x, st.l(t))
					}
				}
			}
		}
	case *ssa.Next:
		if HasRef(x.Type()) {
			st.uR(x, st.r(t))
			if AddrLike(x.Type()) {
				st.uL(x, deepLocs(st.r(t)))
			}
		}
	}
}

func isSelect(v ssa.Value) bool { _, ok := v.(*ssa.Select); return ok }

// finish resolves fresh ids in the summary.
func (st *fstate) finish() {
	sum := st.sum
	// returns
	for _, b := range st.fn.Blocks {
		for _, ins := range b.Instrs {
			ret, ok := ins.(*ssa.Return)
			if !ok {
				continue
			}
			for i, res := range ret.Results {
				if _, isC := res.(*ssa.Const); isC || i >= len(sum.RetLoc) {
					continue
				}
				if AddrLike(res.Type()) {
					for l := range st.l(res) {
						if IsFresh(l) {
							sum.RetLoc[i].Add("F")
						} else {
							sum.RetLoc[i].Add(l)
						}
					}
				}
				if HasRef(res.Type()) {
					sum.RetReach[i].AddAll(st.expand(st.r(res), true))
				}
			}
		}
	}
	// retains: resolve fresh sources, drop self-retention of the same root
	res := map[string]map[string]*Effect{}
	for dst, m := range sum.Retains {
		for src, e := range m {
			for r := range st.expand(one(src), false) {
				if r == RootOf(dst) {
					continue
				}
				if res[dst] == nil {
					res[dst] = map[string]*Effect{}
				}
				if _, ok := res[dst][r]; !ok {
					res[dst][r] = e
				}
			}
		}
	}
	sum.Retains = res
}

// ---------------------------------------------------------------------------------------------
// descriptions (stable: no line numbers, no SSA register names where avoidable)

func describeAddr(v ssa.Value) string {
	switch x := v.(type) {
	case *ssa.FieldAddr:
		return describeAddr(x.X) + "." + fieldName(x.X.Type(), x.Field)
	case *ssa.IndexAddr:
		return describeAddr(x.X) + "[…]"
	case *ssa.Parameter:
		return x.Name()
	case *ssa.Global:
		return x.Name()
	case *ssa.Alloc:
		if x.Comment != "" {
			return x.Comment
		}
		return "local"
	case *ssa.UnOp:
		if x.Op == token.MUL {
			return describeAddr(x.X)
		}
	case *ssa.Slice:
		return describeAddr(x.X) + "[:]"
	case *ssa.Phi:
		if x.Comment != "" {
			return x.Comment
		}
	case *ssa.TypeAssert:
		return describeAddr(x.X) + ".(" + types.TypeString(x.AssertedType, shortQual) + ")"
	case *ssa.Call:
		if c := x.Call.StaticCallee(); c != nil {
			return c.Name() + "(…)"
		}
		if x.Call.IsInvoke() {
			return describeAddr(x.Call.Value) + "." + x.Call.Method.Name() + "(…)"
		}
		if b, ok := x.Call.Value.(*ssa.Builtin); ok {
			return b.Name() + "(…)"
		}
	case *ssa.Extract:
		return describeAddr(x.Tuple)
	case *ssa.MakeInterface:
		return describeAddr(x.X)
	case *ssa.ChangeType:
		return describeAddr(x.X)
	case *ssa.Convert:
		return describeAddr(x.X)
	case *ssa.Lookup:
		return describeAddr(x.X) + "[…]"
	case *ssa.MakeSlice:
		return "make(…)"
	case *ssa.Const:
		return x.String()
	}
	return "value"
}

func shortQual(p *types.Package) string { return p.Name() }

func fieldName(t types.Type, i int) string {
	if p, ok := t.Underlying().(*types.Pointer); ok {
		t = p.Elem()
	}
	if s, ok := t.Underlying().(*types.Struct); ok && i < s.NumFields() {
		return s.Field(i).Name()
	}
	return "#" + strconv.Itoa(i)
}

func describeInstr(ins ssa.Instruction) string {
	switch x := ins.(type) {
	case *ssa.Store:
		return describeAddr(x.Addr) + " = " + describeAddr(x.Val)
	case *ssa.MapUpdate:
		return describeAddr(x.Map) + "[…] = " + describeAddr(x.Value)
	case *ssa.Send:
		return describeAddr(x.Chan) + " <- " + describeAddr(x.X)
	case ssa.CallInstruction:
		com := x.Common()
		var args []string
		for _, a := range com.Args {
			args = append(args, describeAddr(a))
		}
		name := "call"
		if b, ok := com.Value.(*ssa.Builtin); ok {
			name = b.Name()
		} else if c := com.StaticCallee(); c != nil {
			name = c.Name()
		} else if com.IsInvoke() {
			name = describeAddr(com.Value) + "." + com.Method.Name()
		}
		return fmt.Sprintf("%s(%s)", name, strings.Join(args, ", "))
	}
	return ins.String()
}

// forwardedStore returns the value last stored to the address of ld earlier in the same block when
// nothing in between can have changed that location (other stores are to provably distinct
// locations; no calls other than len/cap/append/copy-of-another-element-type).
func forwardedStore(ld *ssa.UnOp) ssa.Value {
	b := ld.Block()
	if b == nil {
		return nil
	}
	idx := indexOf(b, ld)
	for i := idx - 1; i >= 0; i-- {
		switch x := b.Instrs[i].(type) {
		case *ssa.Store:
			if SameAddr(x.Addr, ld.X) {
				return x.Val
			}
			if !provablyDistinct(x.Addr, ld.X) {
				return nil
			}
		case ssa.CallInstruction:
			bi, ok := x.Common().Value.(*ssa.Builtin)
			if !ok {
				return nil
			}
			switch bi.Name() {
			case "len", "cap", "append", "print", "println", "min", "max":
			case "copy":
				sl, ok := x.Common().Args[0].Type().Underlying().(*types.Slice)
				if !ok || typesOverlap(sl.Elem(), ld.Type()) {
					return nil
				}
			default:
				return nil
			}
		}
	}
	return nil
}

func pointee(v ssa.Value) types.Type {
	if p, ok := v.Type().Underlying().(*types.Pointer); ok {
		return p.Elem()
	}
	return nil
}

func addrRoot(v ssa.Value) ssa.Value {
	for {
		switch x := v.(type) {
		case *ssa.FieldAddr:
			v = x.X
		case *ssa.IndexAddr:
			if _, isPtr := x.X.Type().Underlying().(*types.Pointer); !isPtr {
				return x // element of a slice: its own memory
			}
			v = x.X
		default:
			return v
		}
	}
}

// provablyDistinct: two addresses cannot designate overlapping storage.
func provablyDistinct(a, b ssa.Value) bool {
	if ta, tb := pointee(a), pointee(b); ta != nil && tb != nil && !typesOverlap(ta, tb) {
		return true
	}
	fa, ok1 := a.(*ssa.FieldAddr)
	fb, ok2 := b.(*ssa.FieldAddr)
	if ok1 && ok2 && SameAddr(fa.X, fb.X) && fa.Field != fb.Field {
		return true
	}
	ra, rb := addrRoot(a), addrRoot(b)
	_, la := ra.(*ssa.Alloc)
	_, lb := rb.(*ssa.Alloc)
	if la && lb && ra != rb {
		return true
	}
	if la != lb {
		// one is an object created by this function, the other is caller memory
		switch ra.(type) {
		case *ssa.Parameter, *ssa.Global:
			return true
		}
		switch rb.(type) {
		case *ssa.Parameter, *ssa.Global:
			return true
		}
	}
	return false
}
