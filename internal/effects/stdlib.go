package effects

import (
	"go/types"
	"strings"

	"golang.org/x/tools/go/ssa"
)

// ExtEntry describes the memory effects of a function outside the analysed module. Argument
// indices count the receiver as 0 for methods (static calls and interface invokes alike).
type ExtEntry struct {
	Name       string
	Writes     []int    // writes into the storage designated by the argument (slice backing array, pointee)
	WritesDeep []int    // writes into the argument's storage and anything reachable from it
	Appends    []int    // appends in place to the argument (writes beyond len when capacity allows); result aliases it
	Alias      []int    // result 0 may alias the argument (same backing array / same object)
	Holds      []int    // the fresh result 0 keeps a reference to the argument
	Retains    [][2]int // {dst, src}: dst's storage keeps a reference to src
	Note       string
}

var pureEntry = &ExtEntry{Name: "pure", Note: "reads its arguments only; results are fresh"}

// callbackEntry: a func-typed value supplied by the user of the library (configuration
// callbacks); the library's own state is not reachable from it.
var callbackEntry = &ExtEntry{Name: "callback", Note: "user-supplied callback: assumed not to touch library state"}

// extTable: exact names (ssa Function.String() or types.Func.FullName() of an interface method).
var extTable = map[string]*ExtEntry{
	// encoding/binary
	"(encoding/binary.littleEndian).PutUint16":    {Writes: []int{1}},
	"(encoding/binary.littleEndian).PutUint32":    {Writes: []int{1}},
	"(encoding/binary.littleEndian).PutUint64":    {Writes: []int{1}},
	"(encoding/binary.bigEndian).PutUint16":       {Writes: []int{1}},
	"(encoding/binary.bigEndian).PutUint32":       {Writes: []int{1}},
	"(encoding/binary.bigEndian).PutUint64":       {Writes: []int{1}},
	"(encoding/binary.littleEndian).AppendUint16": {Appends: []int{1}},
	"(encoding/binary.littleEndian).AppendUint32": {Appends: []int{1}},
	"(encoding/binary.littleEndian).AppendUint64": {Appends: []int{1}},
	"(encoding/binary.bigEndian).AppendUint16":    {Appends: []int{1}},
	"(encoding/binary.bigEndian).AppendUint32":    {Appends: []int{1}},
	"(encoding/binary.bigEndian).AppendUint64":    {Appends: []int{1}},
	"(encoding/binary.ByteOrder).PutUint16":       {Writes: []int{1}},
	"(encoding/binary.ByteOrder).PutUint32":       {Writes: []int{1}},
	"(encoding/binary.ByteOrder).PutUint64":       {Writes: []int{1}},
	"encoding/binary.Write":                       {WritesDeep: []int{0}},
	"encoding/binary.Read":                        {WritesDeep: []int{2}},
	// block ciphers / hashes (interface methods: every implementation obeys the interface contract)
	"(crypto/cipher.Block).Encrypt":         {Writes: []int{1}},
	"(crypto/cipher.Block).Decrypt":         {Writes: []int{1}},
	"(crypto/cipher.Block).BlockSize":       {},
	"(crypto/cipher.BlockMode).CryptBlocks": {Writes: []int{1}},
	"(crypto/cipher.Stream).XORKeyStream":   {Writes: []int{1}},
	"(hash.Hash).Write":                     {},
	"(hash.Hash).Sum":                       {Appends: []int{1}},
	"(hash.Hash).Reset":                     {},
	"(hash.Hash).Size":                      {},
	"(hash.Hash).BlockSize":                 {},
	"(io.Writer).Write":                     {},
	"(io.Reader).Read":                      {Writes: []int{1}},
	"(io.Closer).Close":                     {},
	"(io.ReadCloser).Close":                 {},
	"(io.ReadCloser).Read":                  {Writes: []int{1}},
	"(error).Error":                         {},
	// hex / base64: Encode/Decode write their destination; the *String forms are pure
	"encoding/hex.Encode":                      {Writes: []int{0}},
	"encoding/hex.Decode":                      {Writes: []int{0}},
	"encoding/hex.AppendEncode":                {Appends: []int{0}},
	"encoding/hex.AppendDecode":                {Appends: []int{0}},
	"(*encoding/base64.Encoding).Encode":       {Writes: []int{1}},
	"(*encoding/base64.Encoding).Decode":       {Writes: []int{1}},
	"(*encoding/base64.Encoding).AppendEncode": {Appends: []int{1}},
	"(*encoding/base64.Encoding).AppendDecode": {Appends: []int{1}},
	// json: decoding writes the target (deep) with freshly allocated memory; encoding only reads
	"encoding/json.Unmarshal":         {WritesDeep: []int{1}},
	"(*encoding/json.Decoder).Decode": {WritesDeep: []int{1}},
	"encoding/json.NewDecoder":        {Holds: []int{0}},
	"encoding/json.NewEncoder":        {Holds: []int{0}},
	"(*encoding/json.Encoder).Encode": {},
	"encoding/json.Marshal":           {},
	"encoding/json.MarshalIndent":     {},
	// bytes / strings helpers whose result aliases the argument
	"bytes.TrimPrefix":            {Alias: []int{0}},
	"bytes.TrimSuffix":            {Alias: []int{0}},
	"bytes.TrimSpace":             {Alias: []int{0}},
	"bytes.Trim":                  {Alias: []int{0}},
	"bytes.TrimLeft":              {Alias: []int{0}},
	"bytes.TrimRight":             {Alias: []int{0}},
	"bytes.Fields":                {Alias: []int{0}},
	"bytes.Split":                 {Alias: []int{0}},
	"bytes.NewReader":             {Holds: []int{0}},
	"bytes.NewBuffer":             {Holds: []int{0}},
	"(*bytes.Buffer).Bytes":       {Alias: []int{0}},
	"(*bytes.Buffer).Write":       {WritesDeep: []int{0}},
	"(*bytes.Buffer).WriteString": {WritesDeep: []int{0}},
	"(*bytes.Buffer).WriteByte":   {WritesDeep: []int{0}},
	"(*bytes.Buffer).Reset":       {WritesDeep: []int{0}},
	"(*bytes.Buffer).Read":        {Writes: []int{1}},
	// sort
	"sort.Ints":        {Writes: []int{0}},
	"sort.Strings":     {Writes: []int{0}},
	"sort.Slice":       {Writes: []int{0}},
	"sort.SliceStable": {Writes: []int{0}},
	"sort.Sort":        {WritesDeep: []int{0}},
	// strconv appenders
	"strconv.AppendInt":   {Appends: []int{0}},
	"strconv.AppendUint":  {Appends: []int{0}},
	"strconv.AppendQuote": {Appends: []int{0}},
	// io helpers
	"io.ReadFull":       {Writes: []int{1}},
	"io.ReadAll":        {},
	"io/ioutil.ReadAll": {},
	"io.Copy":           {},
	// sync: lock operations are not memory effects for this analysis (see the lock rule);
	// sync.Map is genuinely shared mutable state.
	"(*sync.Map).Store":            {WritesDeep: []int{0}, Retains: [][2]int{{0, 1}, {0, 2}}},
	"(*sync.Map).LoadOrStore":      {WritesDeep: []int{0}, Retains: [][2]int{{0, 1}, {0, 2}}, Alias: []int{0}},
	"(*sync.Map).Delete":           {WritesDeep: []int{0}},
	"(*sync.Map).LoadAndDelete":    {WritesDeep: []int{0}, Alias: []int{0}},
	"(*sync.Map).Swap":             {WritesDeep: []int{0}, Retains: [][2]int{{0, 1}, {0, 2}}, Alias: []int{0}},
	"(*sync.Map).CompareAndSwap":   {WritesDeep: []int{0}, Retains: [][2]int{{0, 3}}},
	"(*sync.Map).CompareAndDelete": {WritesDeep: []int{0}},
	"(*sync.Map).Load":             {Alias: []int{0}},
	"(*sync.Map).Range":            {},
	"(*sync.Pool).Put":             {WritesDeep: []int{0}, Retains: [][2]int{{0, 1}}},
	"(*sync.Pool).Get":             {WritesDeep: []int{0}}, // the object handed out belongs to the caller until it is Put back (ownership: C10-R7.pool)
	"(*sync.Once).Do":              {},                     // the Once itself is a synchronisation primitive (like a mutex); the function it runs: see call()
	// atomics write their target
	"sync/atomic.StoreInt32": {Writes: []int{0}}, "sync/atomic.StoreInt64": {Writes: []int{0}},
	"sync/atomic.StoreUint32": {Writes: []int{0}}, "sync/atomic.StoreUint64": {Writes: []int{0}},
	"sync/atomic.AddInt32": {Writes: []int{0}}, "sync/atomic.AddInt64": {Writes: []int{0}},
	"sync/atomic.AddUint32": {Writes: []int{0}}, "sync/atomic.AddUint64": {Writes: []int{0}},
	"sync/atomic.StorePointer":   {Writes: []int{0}, Retains: [][2]int{{0, 1}}},
	"(*sync/atomic.Value).Store": {WritesDeep: []int{0}, Retains: [][2]int{{0, 1}}},
	"(*sync/atomic.Value).Load":  {Alias: []int{0}},
	// http plumbing used by the join-server: effects stay inside the writer / request objects
	"(net/http.ResponseWriter).Header":      {Alias: []int{0}},
	"(net/http.ResponseWriter).Write":       {WritesDeep: []int{0}},
	"(net/http.ResponseWriter).WriteHeader": {WritesDeep: []int{0}},
	"(net/http.Header).Set":                 {WritesDeep: []int{0}},
	"(net/http.Header).Add":                 {WritesDeep: []int{0}},
	"(net/http.Header).Get":                 {},
	"(net/http.Header).Del":                 {WritesDeep: []int{0}},
	// errors that wrap
	"github.com/pkg/errors.Wrap":      {Holds: []int{0}},
	"github.com/pkg/errors.Wrapf":     {Holds: []int{0}},
	"github.com/pkg/errors.Cause":     {Alias: []int{0}},
	"github.com/pkg/errors.WithStack": {Holds: []int{0}},
	"errors.Unwrap":                   {Alias: []int{0}},
	// time
	"(*time.Time).UnmarshalText":   {Writes: []int{0}},
	"(*time.Time).UnmarshalJSON":   {Writes: []int{0}},
	"(*time.Time).UnmarshalBinary": {Writes: []int{0}},
}

// purePackages: every function of these packages only reads its arguments and returns fresh (or
// reference-free) results — unless listed in extTable.
var purePackages = map[string]string{
	"errors":                              "constructors and predicates",
	"fmt":                                 "formatting reads its operands (Fprint* write to the given writer object only)",
	"strings":                             "strings are immutable",
	"strconv":                             "conversions",
	"math":                                "arithmetic",
	"math/bits":                           "arithmetic",
	"time":                                "value type arithmetic and parsing",
	"unicode":                             "predicates",
	"unicode/utf8":                        "predicates / decoding reads",
	"encoding/hex":                        "EncodeToString/DecodeString/Dump return fresh memory",
	"encoding/base64":                     "EncodeToString/DecodeString return fresh memory",
	"encoding/binary":                     "Uint16/32/64 read their argument",
	"bytes":                               "Equal/Compare/Contains/Index/HasPrefix read; Repeat/Join/ToUpper return fresh memory",
	"crypto/aes":                          "NewCipher copies the key schedule",
	"crypto/cipher":                       "constructors",
	"crypto/rand":                         "",
	"crypto/subtle":                       "ConstantTimeCompare reads",
	"github.com/jacobsa/crypto/cmac":      "New copies the key",
	"log":                                 "the standard logger is internally synchronised (trusted)",
	"github.com/sirupsen/logrus":          "loggers are internally synchronised (trusted)",
	"sync":                                "Mutex/RWMutex/WaitGroup operations: handled by the lock rule, not memory effects",
	"context":                             "contexts are immutable trees",
	"reflect":                             "",
	"sort":                                "Search* read",
	"net/http":                            "client/server plumbing: effects stay inside request/response objects",
	"net/url":                             "",
	"io":                                  "",
	"io/ioutil":                           "",
	"os":                                  "",
	"net":                                 "",
	"crypto/tls":                          "",
	"crypto/x509":                         "",
	"encoding/pem":                        "",
	"database/sql/driver":                 "",
	"github.com/pkg/errors":               "",
	"github.com/NickBall/go-aes-key-wrap": "Wrap/Unwrap return fresh memory",
	"encoding/json":                       "Marshal/Valid read; Unmarshal is in the table",
	"github.com/go-redis/redis/v8":        "client plumbing (backend async client)",
}

func (st *fstate) extFor(com *ssa.CallCommon, callees []*ssa.Function) *ExtEntry {
	record := func(name string, e *ExtEntry) *ExtEntry {
		if e != nil {
			tag := e.Name
			if tag == "" {
				tag = "table"
			}
			st.a.ExtSeen[name] = tag
		}
		return e
	}
	if c := com.StaticCallee(); c != nil {
		if st.a.inScope[c] {
			return nil
		}
		name := c.String()
		if e, ok := extTable[name]; ok {
			return record(name, e)
		}
		if p := funcPkgPath(c); p != "" {
			if _, ok := purePackages[p]; ok {
				return record(name, pureEntry)
			}
		}
		return nil
	}
	if com.IsInvoke() {
		name := com.Method.FullName()
		if e, ok := extTable[name]; ok {
			return record(name, e)
		}
		for _, c := range callees {
			if st.a.inScope[c] {
				return nil
			}
		}
		if pk := com.Method.Pkg(); pk != nil {
			if _, ok := purePackages[pk.Path()]; ok {
				return record(name, pureEntry)
			}
		}
		return nil
	}
	// call of a func value
	for _, c := range callees {
		if st.a.inScope[c] {
			return nil
		}
	}
	if isCallbackValue(com.Value) {
		return record("callback:"+describeAddr(com.Value), callbackEntry)
	}
	return nil
}

// isCallbackValue: the called func value was loaded from a field or parameter (a configuration
// callback), not created in the module.
func isCallbackValue(v ssa.Value) bool {
	switch x := v.(type) {
	case *ssa.UnOp:
		return true
	case *ssa.Parameter:
		return true
	case *ssa.Field:
		return true
	case *ssa.Extract, *ssa.Lookup, *ssa.Phi:
		_ = x
		return true
	}
	return false
}

func funcPkgPath(f *ssa.Function) string {
	if f.Pkg != nil {
		return f.Pkg.Pkg.Path()
	}
	if o := f.Object(); o != nil && o.Pkg() != nil {
		return o.Pkg().Path()
	}
	if f.Signature.Recv() != nil {
		t := f.Signature.Recv().Type()
		if p, ok := t.(*types.Pointer); ok {
			t = p.Elem()
		}
		if n, ok := t.(*types.Named); ok && n.Obj().Pkg() != nil {
			return n.Obj().Pkg().Path()
		}
	}
	return ""
}

func (st *fstate) applyExtResult(e *ExtEntry, args []ssa.Value, id string, idx int, l, r Set) {
	if idx != 0 {
		l.Add(id)
		r.Add(id)
		return
	}
	fresh := true
	arg := func(i int) ssa.Value {
		if i < len(args) {
			if _, isC := args[i].(*ssa.Const); !isC {
				return args[i]
			}
		}
		return nil
	}
	for _, i := range e.Alias {
		if a := arg(i); a != nil {
			l.AddAll(st.l(a))
			l.AddAll(deepLocs(st.r(a)))
			r.AddAll(st.r(a))
		}
	}
	for _, i := range e.Appends {
		if a := arg(i); a != nil {
			l.AddAll(st.l(a))
			r.AddAll(st.r(a))
		}
	}
	for _, i := range e.Holds {
		if a := arg(i); a != nil {
			if st.cont(id).add(nil, st.r(a)) {
				st.changed = true
			}
		}
	}
	if fresh {
		l.Add(id)
		r.Add(id)
	}
}

func (st *fstate) applyExtEffects(ins ssa.Instruction, e *ExtEntry, com *ssa.CallCommon, args []ssa.Value) {
	name := "ext:" + calleeName(com, nil)
	arg := func(i int) ssa.Value {
		if i < len(args) {
			if _, isC := args[i].(*ssa.Const); !isC {
				return args[i]
			}
		}
		return nil
	}
	for _, i := range e.Writes {
		if a := arg(i); a != nil {
			st.noteAccess(ins, st.l(a), true, name)
			st.writeTo(ins, st.l(a), name, a, describeInstr(ins))
		}
	}
	for _, i := range e.WritesDeep {
		if a := arg(i); a != nil {
			locs := st.l(a).Copy()
			locs.AddAll(deepLocs(st.r(a)))
			st.noteAccess(ins, locs, true, name)
			st.writeTo(ins, locs, name, nil, describeInstr(ins))
		}
	}
	for _, i := range e.Appends {
		if a := arg(i); a != nil {
			st.noteAccess(ins, st.l(a), true, name)
			for l := range st.l(a) {
				if IsFresh(l) {
					continue
				}
				bs, sm := WriteFlags(a)
				if addEff(st.sum.Appends, l, &Effect{Kind: name, Bytes: bs, SliceMem: sm, Pos: ins.Pos(), Fn: st.fn, Desc: describeInstr(ins), Instr: ins}) {
					st.changed = true
				}
			}
		}
	}
	for _, p := range e.Retains {
		d, s := arg(p[0]), arg(p[1])
		if d == nil || s == nil || !HasRef(s.Type()) {
			continue
		}
		locs := st.l(d).Copy()
		locs.AddAll(deepLocs(st.r(d)))
		st.storeInto(ins, locs, st.r(s), s.Type(), name, describeInstr(ins))
	}
	// reads of globals passed by address (e.g. mutex operations) are recorded as accesses only
	// when they are memory reads; lock operations are deliberately not accesses.
	if !strings.HasPrefix(calleeName(com, nil), "(*sync.") {
		for _, a := range args {
			if _, isC := a.(*ssa.Const); isC {
				continue
			}
			if AddrLike(a.Type()) {
				st.noteAccess(ins, st.l(a), false, name)
			}
		}
	}
}
