package effects

import (
	"go/token"
	"go/types"
	"strconv"
	"strings"

	"golang.org/x/tools/go/ssa"
)

// argsOf returns the full argument list with the receiver of an interface invoke prepended, so
// that index i corresponds to parameter i of every callee.
func argsOf(com *ssa.CallCommon) []ssa.Value {
	if com.IsInvoke() {
		return append([]ssa.Value{com.Value}, com.Args...)
	}
	return com.Args
}

// mapLoc translates a callee-side loc element into caller-side loc elements.
func (st *fstate) mapLoc(l string, args []ssa.Value) Set {
	out := Set{}
	if l == "F" {
		return out
	}
	i := ParamIndex(l)
	if i < 0 {
		out.Add(l)
		return out
	}
	if i >= len(args) {
		out.Add("X+")
		return out
	}
	a := args[i]
	if _, isC := a.(*ssa.Const); isC {
		return out
	}
	out.AddAll(st.l(a))
	if IsDeep(l) {
		out.AddAll(deepLocs(st.r(a)))
	}
	return out
}

func (st *fstate) mapReach(r string, args []ssa.Value) Set {
	out := Set{}
	if r == "F" {
		return out
	}
	i := ParamIndex(r)
	if i < 0 {
		out.Add(RootOf(r))
		return out
	}
	if i >= len(args) {
		out.Add("X")
		return out
	}
	if _, isC := args[i].(*ssa.Const); isC {
		return out
	}
	out.AddAll(st.r(args[i]))
	return out
}

// callResult computes loc/reach of result idx of a call.
func (st *fstate) callResult(c *ssa.Call, idx int) (Set, Set) {
	l, r := Set{}, Set{}
	com := &c.Call
	args := argsOf(com)
	id := st.id(c)
	if idx > 0 {
		id = id + "." + strconv.Itoa(idx)
	}
	if b, ok := com.Value.(*ssa.Builtin); ok {
		switch b.Name() {
		case "append":
			l.AddAll(st.l(args[0]))
			l.Add(id)
			r.AddAll(st.r(args[0]))
			r.Add(id)
			el, et := st.appendElems(args)
			if et != nil {
				if st.cont(id).add(et, st.contentOf(st.l(args[0]), et)) {
					st.changed = true
				}
			}
			if el != nil {
				r.AddAll(el)
				if st.cont(id).add(et, el) {
					st.changed = true
				}
			}
		case "ssa:wrapnilchk":
			l.AddAll(st.l(args[0]))
			r.AddAll(st.r(args[0]))
		case "new":
			l.Add(id)
			r.Add(id)
		}
		return l, r
	}
	callees := st.a.CalleesOf(c)
	ext := st.extFor(com, callees)
	if ext != nil {
		st.applyExtResult(ext, args, id, idx, l, r)
	}
	handled := ext != nil
	for _, callee := range callees {
		s := st.a.Sums[callee]
		if s == nil {
			continue
		}
		handled = true
		if idx >= len(s.RetLoc) {
			continue
		}
		mapped := Set{}
		for e := range s.RetReach[idx] {
			if e == "F" {
				continue
			}
			mapped.AddAll(st.mapReach(e, args))
		}
		r.AddAll(mapped)
		for e := range s.RetLoc[idx] {
			if e == "F" {
				l.Add(id)
				r.Add(id)
				if st.cont(id).add(nil, mapped) {
					st.changed = true
				}
				continue
			}
			l.AddAll(st.mapLoc(e, args))
		}
		if s.RetReach[idx].Has("F") && !s.RetLoc[idx].Has("F") {
			// a struct value carrying fresh memory
			r.Add(id)
			if st.cont(id).add(nil, mapped) {
				st.changed = true
			}
		}
	}
	if !handled {
		// unknown external: the result may alias anything that was passed in
		l.Add(id)
		r.Add(id)
		for _, a := range args {
			if _, isC := a.(*ssa.Const); isC {
				continue
			}
			if st.cont(id).add(nil, st.r(a)) {
				st.changed = true
			}
			l.AddAll(st.l(a))
			r.AddAll(st.r(a))
		}
	}
	return l, r
}

// appendElems returns the reach of the appended elements (and the element type) when the element
// type carries references.
func (st *fstate) appendElems(args []ssa.Value) (Set, types.Type) {
	sl, ok := args[0].Type().Underlying().(*types.Slice)
	if !ok || !HasRef(sl.Elem()) {
		return nil, nil
	}
	if len(args) < 2 {
		return nil, sl.Elem()
	}
	if _, isC := args[1].(*ssa.Const); isC {
		return nil, sl.Elem()
	}
	return st.contentOf(st.l(args[1]), sl.Elem()), sl.Elem()
}

// call applies the effects of a call instruction and, for single-result calls, its value facts.
func (st *fstate) call(ci ssa.CallInstruction) {
	com := ci.Common()
	args := argsOf(com)
	if c, ok := ci.(*ssa.Call); ok {
		if _, isTuple := c.Type().(*types.Tuple); !isTuple {
			l, r := st.callResult(c, 0)
			if AddrLike(c.Type()) {
				st.uL(c, l)
			}
			if HasRef(c.Type()) {
				st.uR(c, r)
			}
		}
	}
	ins := ci.(ssa.Instruction)
	if b, ok := com.Value.(*ssa.Builtin); ok {
		st.builtin(ci, b.Name(), args)
		return
	}
	callees := st.a.CalleesOf(ci)
	ext := st.extFor(com, callees)
	if ext != nil {
		st.applyExtEffects(ins, ext, com, args)
	}
	handled := ext != nil
	apply := func(callee *ssa.Function, args []ssa.Value) bool {
		s := st.a.Sums[callee]
		if s == nil {
			return false
		}
		name := ShortFunc(callee)
		for _, loc := range sortedKeys(s.Writes) {
			ml := st.mapLoc(loc, args)
			for _, e := range s.Writes[loc] {
				ev := st.viaArg(e, name, loc, args)
				for l := range ml {
					if IsFresh(l) {
						continue
					}
					if addEff(st.sum.Writes, l, ev) {
						st.changed = true
					}
				}
			}
		}
		for _, loc := range sortedKeys(s.Appends) {
			ml := st.mapLoc(loc, args)
			for _, e := range s.Appends[loc] {
				ev := st.viaArg(e, name, loc, args)
				for l := range ml {
					if IsFresh(l) {
						continue
					}
					if addEff(st.sum.Appends, l, ev) {
						st.changed = true
					}
				}
			}
		}
		for _, loc := range sortedKeys(s.Opaque) {
			ml := st.mapLoc(loc, args)
			for _, e := range s.Opaque[loc] {
				for l := range ml {
					if IsFresh(l) {
						continue
					}
					if addEff(st.sum.Opaque, l, e.via(name)) {
						st.changed = true
					}
				}
			}
		}
		for _, dst := range sortedKeys(s.Retains) {
			dl := st.mapLoc(dst, args)
			for _, src := range sortedKeys(s.Retains[dst]) {
				e := s.Retains[dst][src]
				vr := st.mapReach(src, args)
				if len(vr) == 0 {
					continue
				}
				st.storeIntoEff(dl, vr, e.via(name))
			}
		}
		for _, g := range sortedKeys(s.GlobalsRead) {
			if _, ok := st.sum.GlobalsRead[g]; !ok {
				st.sum.GlobalsRead[g] = s.GlobalsRead[g].via(name)
				st.changed = true
			}
		}
		return true
	}
	for _, callee := range callees {
		if apply(callee, args) {
			handled = true
		}
	}
	// a module function handed to an external callee (sync.Once.Do, sort.Slice, sync.Map.Range …) may be called by it:
	// its effects on package-level state are effects of this call. Its parameters are supplied by the external callee
	// (nothing of the caller's is passed: no argument mapping).
	if sc := com.StaticCallee(); sc != nil && !st.a.inScope[sc] {
		for _, av := range args {
			fn := funcValueOf(av)
			if fn == nil || !st.a.inScope[fn] {
				continue
			}
			if o := OnceLiteral(ci, fn); o != "" && !st.a.readsMutableGlobal(fn) {
				// a literal without free variables run by Do of a package-level sync.Once, reading no package-level
				// variable that anything writes after initialisation: it computes the same thing whenever it runs, at
				// most once per process, independent of any caller's arguments. It is kept out of the summaries (like
				// package initialisers) and recorded for the global-inventory rule. (A table built once from a registry
				// that can still change is NOT that: it goes stale, and its writes count.)
				if st.a.OnceInit == nil {
					st.a.OnceInit = map[*ssa.Function]string{}
				}
				st.a.OnceInit[fn] = o
				continue
			}
			apply(fn, nil)
		}
	}
	if !handled {
		st.opaqueCall(ins, com, args, callees)
	}
}

func (st *fstate) opaqueCall(ins ssa.Instruction, com *ssa.CallCommon, args []ssa.Value, callees []*ssa.Function) {
	name := calleeName(com, callees)
	if _, ok := st.a.ExtSeen[name]; !ok {
		st.a.ExtSeen[name] = ""
	}
	e := &Effect{Kind: "ext:" + name, Pos: ins.Pos(), Fn: st.fn, Desc: describeInstr(ins), Instr: ins}
	for _, a := range args {
		if _, isC := a.(*ssa.Const); isC || !HasRef(a.Type()) {
			continue
		}
		locs := Set{}
		locs.AddAll(st.l(a))
		locs.AddAll(deepLocs(st.r(a)))
		for l := range locs {
			if IsFresh(l) {
				continue
			}
			if addEff(st.sum.Opaque, l, e) {
				st.changed = true
			}
		}
	}
}

func calleeName(com *ssa.CallCommon, callees []*ssa.Function) string {
	if c := com.StaticCallee(); c != nil {
		return c.String()
	}
	if com.IsInvoke() {
		return com.Method.FullName()
	}
	if len(callees) > 0 {
		return callees[0].String()
	}
	return "dynamic:" + com.Value.Type().String()
}

func (st *fstate) builtin(ci ssa.CallInstruction, name string, args []ssa.Value) {
	ins := ci.(ssa.Instruction)
	switch name {
	case "append":
		base := args[0]
		if _, isC := base.(*ssa.Const); isC {
			return
		}
		bl := st.l(base)
		st.noteAccess(ins, bl, true, "append "+describeAddr(base))
		var nonFresh []string
		for _, l := range bl.Sorted() {
			if !IsFresh(l) {
				nonFresh = append(nonFresh, l)
			}
		}
		if el, et := st.appendElems(args); el != nil {
			st.storeInto(ins, bl, el, et, "append", describeInstr(ins))
		}
		if len(nonFresh) == 0 {
			return
		}
		call, _ := ci.(*ssa.Call)
		back := call != nil && storedBack(call, base)
		if call != nil {
			st.appends[call] = &AppendSite{Call: call, Locs: nonFresh, StoredBack: back}
		}
		if !back {
			elemBytes, sm := WriteFlags(base)
			for _, l := range nonFresh {
				if addEff(st.sum.Appends, l, &Effect{Kind: "append", Bytes: elemBytes, SliceMem: sm, Pos: ins.Pos(), Fn: st.fn, Desc: describeInstr(ins), Instr: ins}) {
					st.changed = true
				}
			}
		}
	case "copy":
		dst, src := args[0], args[1]
		st.noteAccess(ins, st.l(dst), true, "copy into "+describeAddr(dst))
		var elem types.Type
		if sl, ok := dst.Type().Underlying().(*types.Slice); ok {
			elem = sl.Elem()
		}
		st.writeTo(ins, st.l(dst), "copy", dst, describeInstr(ins))
		if elem != nil && HasRef(elem) {
			if _, isC := src.(*ssa.Const); !isC {
				st.storeInto(ins, st.l(dst), st.contentOf(st.l(src), elem), elem, "copy", describeInstr(ins))
			}
		}
	case "delete", "clear":
		st.noteAccess(ins, st.l(args[0]), true, name+" "+describeAddr(args[0]))
		st.writeTo(ins, st.l(args[0]), name, nil, describeInstr(ins))
	}
}

// viaArg lifts a callee effect to the caller. When the callee wrote the backing array of one of
// its slice parameters (shallow loc), whether that is "a slice's own memory" is decided by what
// the caller passed (p.arr[:] is array memory of p).
func (st *fstate) viaArg(e *Effect, callee, loc string, args []ssa.Value) *Effect {
	ev := e.via(callee)
	if i := ParamIndex(loc); i >= 0 && !IsDeep(loc) && i < len(args) && e.SliceMem {
		if _, isSlice := args[i].Type().Underlying().(*types.Slice); isSlice {
			ev.SliceMem = IsSliceMem(args[i])
		}
	}
	return ev
}

// storedBack: the append result is stored to the very location its base slice was loaded from
// (`x.f = append(x.f, …)`, `*p = append(*p, …)`), i.e. the owner of the slice keeps the result.
func storedBack(call *ssa.Call, base ssa.Value) bool {
	ld, ok := base.(*ssa.UnOp)
	if !ok || ld.Op != token.MUL {
		return false
	}
	refs := call.Referrers()
	if refs == nil {
		return false
	}
	for _, ref := range *refs {
		if s, ok := ref.(*ssa.Store); ok && s.Val == call && SameAddr(ld.X, s.Addr) {
			return true
		}
	}
	return false
}

// SameAddr: two address expressions denote the same location (same SSA value or the same chain
// of field selections from the same base value).
func SameAddr(a, b ssa.Value) bool {
	if a == b {
		return true
	}
	fa, ok1 := a.(*ssa.FieldAddr)
	fb, ok2 := b.(*ssa.FieldAddr)
	if ok1 && ok2 {
		return fa.Field == fb.Field && SameAddr(fa.X, fb.X)
	}
	// loads of the same address between which nothing is required: *p and *p
	la, ok1 := a.(*ssa.UnOp)
	lb, ok2 := b.(*ssa.UnOp)
	if ok1 && ok2 && la.Op == token.MUL && lb.Op == token.MUL {
		return SameAddr(la.X, lb.X)
	}
	return false
}

func funcValueOf(v ssa.Value) *ssa.Function {
	switch x := v.(type) {
	case *ssa.Function:
		return x
	case *ssa.MakeClosure:
		f, _ := x.Fn.(*ssa.Function)
		return f
	}
	return nil
}

// OnceLiteral: ci is o.Do(fn) for a package-level sync.Once o and fn a function literal without free variables;
// returns the Once's global key, else "".
func OnceLiteral(ci ssa.CallInstruction, fn *ssa.Function) string {
	com := ci.Common()
	sc := com.StaticCallee()
	if sc == nil || sc.String() != "(*sync.Once).Do" || len(com.Args) != 2 || len(fn.FreeVars) != 0 {
		return ""
	}
	g, ok := com.Args[0].(*ssa.Global)
	if !ok || funcValueOf(com.Args[1]) != fn {
		return ""
	}
	return GlobalKey(g)
}

// readsMutableGlobal: fn (or a callee) reads a package-level variable that some function other than a package
// initialiser or a recorded once-literal writes. Judged on the facts of the previous round of the fixpoint.
func (a *Analysis) readsMutableGlobal(fn *ssa.Function) bool {
	s := a.Sums[fn]
	if s == nil {
		return true
	}
	for g := range s.GlobalsRead {
		for f, fa := range a.Facts {
			if fa == nil || f == fn || a.OnceInit[f] != "" || (f.Name() == "init" && f.Parent() == nil) {
				continue
			}
			for _, ac := range fa.Accesses {
				if ac.Write && ac.Global == g && !strings.HasPrefix(ac.Desc, "ext:(*sync.") {
					return true
				}
			}
		}
	}
	return false
}
