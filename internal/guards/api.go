package guards

import (
	"go/token"

	"golang.org/x/tools/go/ssa"
)

// Small exported surface for rules that ask the engine custom questions (C19 shape facts, C15/C18 rules).

// Canon returns the canonical representative of a value (type changes stripped, loads replaced by the
// memory-versioned representative / forwarded store).
func (a *FuncAn) Canon(v ssa.Value) ssa.Value { return a.cv(v) }

// EntailsEq: the facts on entry of block b entail l == 0.
func (a *FuncAn) EntailsEq(b *ssa.BasicBlock, l Lin) bool {
	return a.Entails(b, l) && a.Entails(b, Scale(l, -1))
}

// FactsText renders the facts of block b that mention an atom of l (diagnostics).
func (a *FuncAn) FactsText(b *ssa.BasicBlock, l Lin) string { return a.factsText(b, l) }

// Sub returns x - y.
func Sub(x, y Lin) Lin { return Add(x, y, -1) }

// Plus returns l + c.
func (l Lin) Plus(c int64) Lin { return l.plus(c) }

// SameLin: identical linear expressions.
func SameLin(x, y Lin) bool { return x.key() == y.key() && x.C == y.C }

// NonNilAt: v is known non-nil right before instruction ins.
func (a *FuncAn) NonNilAt(ins ssa.Instruction, v ssa.Value) bool {
	s := a.stateBefore(ins)
	if s == nil {
		return true
	}
	return a.isNonNil(s, v)
}

// ExprAt renders the source construct at pos inside f ("" if not found).
func ExprAt(f *ssa.Function, pos token.Pos) string {
	for _, k := range []string{"index", "slice", ""} {
		if s := exprAt(f, pos, k); s != "" {
			return s
		}
	}
	return ""
}

// ReachableBlock:the block is reachable under the computed facts.
func (a *FuncAn) ReachableBlock(b *ssa.BasicBlock) bool { return a.in[b] != nil }

// LoopInfo describes one natural loop.
type LoopInfo struct {
	Head   *ssa.BasicBlock
	Blocks map[*ssa.BasicBlock]bool
}

// LoopsOf lists the natural loops of fn (outermost first by header index).
func LoopsOf(fn *ssa.Function) []LoopInfo {
	var out []LoopInfo
	for _, l := range findLoops(fn) {
		out = append(out, LoopInfo{Head: l.head, Blocks: l.blocks})
	}
	return out
}

// Untracked: the goal, which the facts of block b do not entail, depends on (or is known only through) a value
// outside the tracked memory model (untracked.go).
func (a *FuncAn) Untracked(b *ssa.BasicBlock, g Lin) (string, bool) {
	if why, un := a.untrackedIn(g); un {
		return why, true
	}
	return a.untrackedNear(b, g)
}
