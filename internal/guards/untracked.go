package guards

import (
	"go/token"
	"go/types"

	"golang.org/x/tools/go/ssa"
)

// Memory the engine does not follow. The engine knows the content of a location only while it can see the store that
// put it there (store forwarding inside one function). Three kinds of value are therefore mere names to it:
//
//   - what a field reached through a pointer parameter holds on entry of a function that is not a decoder root — the
//     state of an object its callers own (`r.data` inside `func (r *reader) take(n int)`); where the obligation cannot be
//     established at the call sites either (hoisting), nothing is known;
//   - what a location holds after a call that may write it (`p.MHDR.MType` after `p.MHDR.UnmarshalBinary(…)`);
//   - a field of a struct returned by a module function.
//
// An obligation that fails and whose missing inequality mentions such a value is outside the engine's model: it is
// reported as undecided, not as a violation. Everything else — lengths of parameters and locals, loop indices, results
// with summaries — is tracked, and a goal over tracked values that the facts do not entail stays a violation.
func (a *FuncAn) untrackedIn(g Lin) (string, bool) {
	for _, t := range g.t {
		if why, ok := a.untrackedAtom(t.a); ok {
			return why, true
		}
	}
	return "", false
}

func (a *FuncAn) untrackedAtom(at *Atom) (string, bool) {
	if ld := a.atomLoad[at]; ld != nil {
		return a.untrackedLoad(ld)
	}
	if v := a.capAtomOf[at]; v != nil {
		if ld, ok := a.cv(v).(*ssa.UnOp); ok && ld.Op == token.MUL {
			return a.untrackedLoad(ld)
		}
		if fl, ok := a.cv(v).(*ssa.Field); ok {
			return a.untrackedField(fl)
		}
	}
	if fl := a.fieldAtomOf[at]; fl != nil {
		return a.untrackedField(fl)
	}
	return "", false
}

func (a *FuncAn) untrackedField(fl *ssa.Field) (string, bool) {
	base := a.cv(fl.X)
	for {
		f2, ok := base.(*ssa.Field)
		if !ok {
			break
		}
		base = a.cv(f2.X)
	}
	if ex, ok := base.(*ssa.Extract); ok {
		base = ex.Tuple
	}
	if c, ok := base.(*ssa.Call); ok {
		if callee := c.Call.StaticCallee(); callee != nil && a.E.InModule(callee) {
			return "a field of the struct returned by " + FuncShort(callee), true
		}
	}
	if ld, ok := base.(*ssa.UnOp); ok && ld.Op == token.MUL {
		return a.untrackedLoad(ld)
	}
	return "", false
}

func (a *FuncAn) untrackedLoad(ld *ssa.UnOp) (string, bool) {
	if a.cv(ld) != ssa.Value(ld) {
		return "", false // a known stored value was forwarded
	}
	p := a.pathOf(ld.X)
	if p == nil || len(p.steps) == 0 {
		return "", false
	}
	// written by a call earlier in the function?
	for _, b := range a.Fn.Blocks {
		for _, ins := range b.Instrs {
			ci, ok := ins.(ssa.CallInstruction)
			if !ok {
				continue
			}
			if _, isB := ci.Common().Value.(*ssa.Builtin); isB {
				continue
			}
			if !(b == ld.Block() || b.Dominates(ld.Block()) || reachesBlock(b, ld.Block())) {
				continue
			}
			if b == ld.Block() && !precedes(b, ins, ld) {
				continue
			}
			ws := a.E.callWrites(a, ci)
			if ws == nil {
				continue
			}
			if ws.Any {
				return "the content of " + a.valName(ld) + " after a call that may write anything", true
			}
			for _, d := range ws.Writes {
				if writeKills(d, p) {
					return "the content of " + a.valName(ld) + " after a call that writes it", true
				}
			}
		}
	}
	// state of an object the callers own
	if par, ok := p.root.(*ssa.Parameter); ok && !a.E.Roots[a.Fn] {
		if _, isPtr := par.Type().Underlying().(*types.Pointer); isPtr {
			return "the content of " + a.valName(ld) + " on entry (state of an object owned by the callers)", true
		}
	}
	return "", false
}

func precedes(b *ssa.BasicBlock, x, y ssa.Instruction) bool {
	for _, ins := range b.Instrs {
		if ins == x {
			return true
		}
		if ins == y {
			return false
		}
	}
	return false
}

func reachesBlock(from, to *ssa.BasicBlock) bool {
	seen := map[*ssa.BasicBlock]bool{}
	var walk func(b *ssa.BasicBlock) bool
	walk = func(b *ssa.BasicBlock) bool {
		for _, s := range b.Succs {
			if s == to {
				return true
			}
			if !seen[s] {
				seen[s] = true
				if walk(s) {
					return true
				}
			}
		}
		return false
	}
	return walk(from)
}
