package guards

import (
	"go/token"
	"go/types"

	"golang.org/x/tools/go/ssa"
)

// Memory the engine does not follow. The engine knows the content of a location only while it can see the store that
// put it there (store forwarding inside one function). Three kinds of value are therefore mere names to it:
//
//   - what a field reached through a pointer parameter holds on entry of a function that is not a decoder root — the
//     state of an object its callers own (`r.data` inside `func (r *reader) take(n int)`); where the obligation cannot be
//     established at the call sites either (hoisting), nothing is known;
//   - what a location holds after a call that may write it (`p.MHDR.MType` after `p.MHDR.UnmarshalBinary(…)`);
//   - a field of a struct returned by a module function.
//
// An obligation that fails and whose missing inequality mentions such a value is outside the engine's model: it is
// reported as undecided, not as a violation. Everything else — lengths of parameters and locals, loop indices, results
// with summaries — is tracked, and a goal over tracked values that the facts do not entail stays a violation.
func (a *FuncAn) untrackedIn(g Lin) (string, bool) {
	for _, t := range g.t {
		if why, ok := a.untrackedAtom(t.a); ok {
			return why, true
		}
	}
	return "", false
}

// untrackedNear: the goal itself is over tracked values, but what the engine knows about them runs through an
// untracked one: a loop variable of the goal is advanced by it (`i += cmd.Size()`), or the only facts that bound the
// goal's atoms are stated relative to it (`len(data) >= s.size()`). The proof then fails for lack of knowledge about
// that value, not because a guard is missing.
func (a *FuncAn) untrackedNear(b *ssa.BasicBlock, g Lin) (string, bool) {
	inGoal := map[*Atom]bool{}
	for _, t := range g.t {
		inGoal[t.a] = true
		if phi, ok := a.atomVal[t.a].(*ssa.Phi); ok {
			for _, e := range phi.Edges {
				var el Lin
				if _, _, isInt := a.E.intInfo(phi.Type()); isInt {
					el = a.Lin(e)
				} else if isSeq(phi.Type()) {
					el = a.LenOf(e)
				}
				if why, un := a.untrackedIn(el); un {
					return why + " (it advances " + t.a.Name + ")", true
				}
			}
		}
	}
	s := a.in[b]
	if s == nil {
		return "", false
	}
	for _, f := range s.sortedFacts() {
		shares := false
		for _, t := range f.t {
			if inGoal[t.a] {
				shares = true
			}
		}
		if !shares {
			continue
		}
		if why, un := a.untrackedIn(f); un {
			return why + " (the facts about " + g.t[0].a.Name + " are relative to it)", true
		}
		// a bound stated relative to the result of a module function that is summarised only by a range (`len(data) >=
		// s.size()` with size() somewhere in 1..4): which value of the range applies on this path is not known
		for _, t := range f.t {
			if inGoal[t.a] {
				continue
			}
			v := a.atomVal[t.a]
			if ex, ok := v.(*ssa.Extract); ok {
				v = ex.Tuple
			}
			if c, ok := v.(*ssa.Call); ok {
				// … for a pure function of scalar arguments (a bit set's `size()`): which of its branches is taken
				// depends on bit tests of the argument, which a linear domain cannot express. (A function that counts
				// or measures an object is different: relations to it are the business of the summaries and lemmas.)
				if callee := c.Call.StaticCallee(); callee != nil && a.E.InModule(callee) && a.E.pureFunc(callee, 0) && len(a.decidedCases(c)) == 0 {
					return "the value returned by " + FuncShort(callee) + ", a branching function of the bits of its argument, known only as a range (the facts about " + g.t[0].a.Name + " are relative to it)", true
				}
			}
		}
	}
	return "", false
}

func (a *FuncAn) untrackedAtom(at *Atom) (string, bool) {
	if ld := a.atomLoad[at]; ld != nil {
		return a.untrackedLoad(ld)
	}
	if v := a.capAtomOf[at]; v != nil {
		if ld, ok := a.cv(v).(*ssa.UnOp); ok && ld.Op == token.MUL {
			return a.untrackedLoad(ld)
		}
		if fl, ok := a.cv(v).(*ssa.Field); ok {
			return a.untrackedField(fl)
		}
	}
	if fl := a.fieldAtomOf[at]; fl != nil {
		return a.untrackedField(fl)
	}
	// the result of a dynamically dispatched method: which implementation runs depends on the dynamic type, and what
	// ties its result to the rest of the state (a decoder accepts only inputs at least as long as its Size()) is an
	// invariant across several methods, which the engine does not establish
	// the length of what a module function returns, when its summary says nothing exact about that length
	if lv := a.lenAtomOf[at]; lv != nil {
		cv := a.cv(lv)
		idx := 0
		if ex, ok := cv.(*ssa.Extract); ok {
			cv, idx = ex.Tuple, ex.Index
		}
		if c, ok := cv.(*ssa.Call); ok {
			if callee := c.Call.StaticCallee(); callee != nil && !c.Call.IsInvoke() && a.E.InModule(callee) {
				sums, ok := a.E.joinSummaries(c)
				exact := ok && len(sums) > 0
				for _, sm := range sums {
					if idx >= len(sm.Res) || (sm.Res[idx].LenParam == nil && !(sm.Res[idx].HasLo && sm.Res[idx].HasHi && sm.Res[idx].Lo == sm.Res[idx].Hi)) {
						exact = false
					}
				}
				if !exact {
					return "the length of what " + FuncShort(callee) + " returns, which no summary describes exactly", true
				}
			}
		}
	}
	v := a.atomVal[at]
	// a parameter of a function literal: its callers reach it through a function value (an iterator calling back)
	if par, ok := v.(*ssa.Parameter); ok && a.Fn.Parent() != nil && par.Parent() == a.Fn {
		return "parameter " + par.Name() + " of a function literal, supplied by whoever calls it through a function value", true
	}
	idx := 0
	if ex, ok := v.(*ssa.Extract); ok {
		v, idx = ex.Tuple, ex.Index
	}
	if c, ok := v.(*ssa.Call); ok {
		if c.Call.IsInvoke() {
			return "the result of the dynamically dispatched method " + c.Call.Method.Name(), true
		}
		// the result of a module function the summaries say nothing exact about (no expression over its parameters,
		// not a bounded range): what it returns is known only by name
		if callee := c.Call.StaticCallee(); callee != nil && a.E.InModule(callee) {
			sums, ok := a.E.joinSummaries(c)
			exact := ok && len(sums) > 0
			for _, sm := range sums {
				if idx >= len(sm.Res) {
					exact = false
					break
				}
				r := sm.Res[idx]
				if r.ValParam == nil && !(r.HasLo && r.HasHi) {
					exact = false
				}
			}
			if !exact && a.E.CountSummaryOf(callee) != nil && callee.Pkg == a.Fn.Pkg {
				// a counting function: related to the counted object by the paired-count lemma, which pairs a count with
				// the methods of the same package that measure the same object; a generic counting helper of another
				// package (internal/wire.CountBits4) is only a name here
				exact = true
			}
			if !exact {
				return "the value returned by " + FuncShort(callee) + ", which no summary describes", true
			}
		}
	}
	return "", false
}

func (a *FuncAn) untrackedField(fl *ssa.Field) (string, bool) {
	base := a.cv(fl.X)
	for {
		f2, ok := base.(*ssa.Field)
		if !ok {
			break
		}
		base = a.cv(f2.X)
	}
	if ex, ok := base.(*ssa.Extract); ok {
		base = ex.Tuple
	}
	if c, ok := base.(*ssa.Call); ok {
		if callee := c.Call.StaticCallee(); callee != nil && a.E.InModule(callee) {
			return "a field of the struct returned by " + FuncShort(callee), true
		}
	}
	if ld, ok := base.(*ssa.UnOp); ok && ld.Op == token.MUL {
		return a.untrackedLoad(ld)
	}
	return "", false
}

func (a *FuncAn) untrackedLoad(ld *ssa.UnOp) (string, bool) {
	if a.cv(ld) != ssa.Value(ld) {
		return "", false // a known stored value was forwarded
	}
	p := a.pathOf(ld.X)
	if p == nil {
		return "", false
	}
	if _, isFV := p.root.(*ssa.FreeVar); !isFV && len(p.steps) == 0 {
		return "", false
	}
	// written by a call earlier in the function?
	for _, b := range a.Fn.Blocks {
		for _, ins := range b.Instrs {
			ci, ok := ins.(ssa.CallInstruction)
			if !ok {
				continue
			}
			if _, isB := ci.Common().Value.(*ssa.Builtin); isB {
				continue
			}
			if !(b == ld.Block() || b.Dominates(ld.Block()) || reachesBlock(b, ld.Block())) {
				continue
			}
			if b == ld.Block() && !precedes(b, ins, ld) {
				continue
			}
			ws := a.E.callWrites(a, ci)
			if ws == nil {
				continue
			}
			if ws.Any {
				return "the content of " + a.valName(ld) + " after a call that may write anything", true
			}
			for _, d := range ws.Writes {
				if writeKills(d, p) {
					return "the content of " + a.valName(ld) + " after a call that writes it", true
				}
			}
		}
	}
	// a variable captured by a function literal: it lives in the enclosing activation
	if _, ok := p.root.(*ssa.FreeVar); ok {
		return "the content of " + a.valName(ld) + ", a variable captured from the enclosing function", true
	}
	// state of an object the callers own
	if par, ok := p.root.(*ssa.Parameter); ok && !a.E.Roots[a.Fn] {
		if _, isPtr := par.Type().Underlying().(*types.Pointer); isPtr {
			return "the content of " + a.valName(ld) + " on entry (state of an object owned by the callers)", true
		}
	}
	return "", false
}

func precedes(b *ssa.BasicBlock, x, y ssa.Instruction) bool {
	for _, ins := range b.Instrs {
		if ins == x {
			return true
		}
		if ins == y {
			return false
		}
	}
	return false
}

func reachesBlock(from, to *ssa.BasicBlock) bool {
	seen := map[*ssa.BasicBlock]bool{}
	var walk func(b *ssa.BasicBlock) bool
	walk = func(b *ssa.BasicBlock) bool {
		for _, s := range b.Succs {
			if s == to {
				return true
			}
			if !seen[s] {
				seen[s] = true
				if walk(s) {
					return true
				}
			}
		}
		return false
	}
	return walk(from)
}
