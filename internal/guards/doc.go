// Package guards is engine E3 (DESIGN §2.4): obligations on go/ssa discharged by dominating facts.
//
// Files
//
//	lin.go        atoms, linear expressions, fact states (facts L >= 0, disequalities, non-nil values,
//	              truths of boolean values, non-nil memory locations, conditional facts)
//	prove.go      template-linear entailment: goal-directed cancellation of "bad" terms with at most
//	              maxDepth facts and small multipliers; never a solver
//	paths.go      access paths, alias rules (distinct roots, disjoint fields, type overlap), write descriptors
//	effects.go    transitive write sets of module functions (field / element / pointer writes by type)
//	eval.go       SSA value -> linear expression; lemmas of total operations (/, %, &, |, ^, <<, >> and
//	              wrap-around of narrow types), conditional lemmas released when their premises are entailed
//	flow.go       memory-versioned load numbering (available loads, store forwarding), forward dataflow of
//	              fact states with entailment-based joins, phi transfer by restricted Fourier–Motzkin
//	              elimination, widening at loop heads, in-block transfer of non-nil memory facts
//	relcand.go    loop-head candidates (x >= 0, x >= y, lock-step counters) kept only while every incoming
//	              edge re-establishes them — the greatest fixpoint by iterated removal of DESIGN §2.4
//	condfacts.go  guarded facts across joins (`if !ok() && p == nil {return}; … if !ok() { *p }`)
//	summaries.go  callee summaries: result intervals, parameter-linear values and lengths, success-path
//	              lengths, non-nil results, "result >= 0 for arguments >= 0", field invariants
//	decide.go     decision summaries of small loop-free callees (piecewise-constant Size(), hasError(), …)
//	              evaluated under the caller's branch facts
//	countlemma.go paired-count lemma (a counter incremented once per `true` store into a bool array that a
//	              callee counts)
//	elemlen.go    element-length invariant of slices of slices built by append
//	registry.go   invariants of package-level registries (all stored function values non-nil)
//	context.go    parameter facts of non-root functions from all call sites in scope
//	loops.go      loop progress: an index strictly moves towards a loop-invariant bound tested every iteration
//	extern.go     trusted-total table, intrinsic preconditions, parameter non-nil preconditions
//	engine.go     engine, reachability, obligation enumeration and rendering
//	selftest.go   positive fixtures analysed on every run
//
// # Soundness notes
//
// Facts about SSA values never need to be killed (values are immutable); only the mapping "memory location ->
// current value" is flow sensitive, and it is computed as a must analysis. Global lemmas are restricted to
// mathematical truths about total operations or to bounds of a single fresh atom: a lemma that relates a fresh
// non-negative atom to older atoms (n <= len(src) for n = copy(dst, src)) is only released where the state already
// entails what it would otherwise smuggle in (found by the mutation campaign, see selftest and git history).
package guards
