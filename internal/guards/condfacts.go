package guards

import (
	"fmt"
	"sort"

	"golang.org/x/tools/go/ssa"
)

// Conditional facts keep a little path sensitivity across joins: when a fact F (a value is non-nil, or a linear
// fact) holds on one incoming side only, and the other side is known to contradict a boolean term t that the
// first side established, the join keeps  (t == value  =>  F).  The implication is valid on both sides: on
// the first F holds, on the second the guard is false. A later branch that re-establishes the guard (for
// instance a second call of the same pure predicate on the same receiver state) releases F.
//
// Typical use:  if !p.hasError() && p.TimeToStart == nil { return err } … if !p.hasError() { *p.TimeToStart }

type cfact struct {
	gkey  interface{} // truth key of the guard
	gval  bool
	nn    interface{} // non-nil value (ssa.Value) …
	lin   *Lin        // … or linear fact
	path  *apath      // … or a memory location holding a non-nil value
	descr string
}

func (c cfact) id() string {
	s := fmt.Sprintf("%v=%v=>", keyString(c.gkey), c.gval)
	if c.lin != nil {
		return s + c.lin.key() + fmt.Sprint(c.lin.C)
	}
	if c.path != nil {
		return s + "mem:" + c.path.key()
	}
	return s + keyString(c.nn)
}

func keyString(k interface{}) string {
	switch x := k.(type) {
	case string:
		return x
	case ssa.Value:
		// SSA register names are unique within a function and stable from run to run
		if ins, ok := x.(ssa.Instruction); ok && ins.Parent() != nil {
			return "v:" + ins.Parent().Name() + ":" + x.Name()
		}
		return "v:" + x.Name()
	}
	return fmt.Sprintf("%v", k)
}

// pureCallKey: a key shared by all calls of the same decidable (pure, loop-free) callee whose summary terms
// resolve to the same caller values.
func (a *FuncAn) pureCallKey(call *ssa.Call) (string, bool) {
	d, f := a.decisionFor(call)
	if d == nil {
		return "", false
	}
	seen := map[string]bool{}
	var parts []string
	for _, c := range d.cases {
		if c.partial {
			return "", false
		}
		for _, l := range c.lits {
			tk := l.t.key()
			if seen[tk] {
				continue
			}
			seen[tk] = true
			ct, ok := a.resolveTerm(call, l.t)
			if !ok {
				return "", false
			}
			parts = append(parts, tk+"="+ct.key)
		}
	}
	sort.Strings(parts)
	k := "pure:" + f.String()
	for _, p := range parts {
		k += "|" + p
	}
	return k, true
}

// releaseCFacts: conditional facts whose guard is established become plain facts.
func (a *FuncAn) releaseCFacts(s *State) {
	for _, c := range s.cfacts {
		if v, ok := s.truth[c.gkey]; ok && v == c.gval {
			switch {
			case c.lin != nil:
				s.AddFact(*c.lin)
			case c.path != nil:
				s.nnPath[c.path.key()] = c.path
			default:
				s.nonnil[c.nn] = true
			}
		}
	}
}

// joinCFacts computes the conditional facts of a join of A and B (r is the joined state).
func (a *FuncAn) joinCFacts(r, A, B *State) {
	add := func(c cfact) {
		if len(r.cfacts) >= 24 {
			return
		}
		for _, o := range r.cfacts {
			if o.id() == c.id() {
				return
			}
		}
		r.cfacts = append(r.cfacts, c)
	}
	holdsIn := func(s *State, c cfact) bool {
		if c.lin != nil {
			return a.proverFor(s).Entails(*c.lin)
		}
		if c.path != nil {
			_, ok := s.nnPath[c.path.key()]
			return ok
		}
		return s.nonnil[c.nn]
	}
	contradicts := func(s *State, c cfact) bool {
		v, ok := s.truth[c.gkey]
		return ok && v != c.gval
	}
	has := func(s *State, c cfact) bool {
		for _, o := range s.cfacts {
			if o.id() == c.id() {
				return true
			}
		}
		return false
	}
	// existing conditional facts survive if the other side has them, entails the fact, or contradicts the guard
	for _, pair := range [][2]*State{{A, B}, {B, A}} {
		X, Y := pair[0], pair[1]
		for _, c := range X.cfacts {
			if has(Y, c) || holdsIn(Y, c) || contradicts(Y, c) {
				add(c)
			}
		}
		// new ones: a non-nil fact of X that Y lacks, guarded by a truth of X that Y contradicts
		var guards []cfact
		for k, v := range X.truth {
			if w, ok := Y.truth[k]; ok && w != v {
				switch kk := k.(type) {
				case string: // pure-call keys, projected fields
					guards = append(guards, cfact{gkey: k, gval: v})
				case ssa.Value:
					// a boolean SSA value tested more than once (`failed := p.hasError()` … `if failed`): its truth is
					// the same wherever it is tested
					if _, isConst := kk.(*ssa.Const); !isConst {
						guards = append(guards, cfact{gkey: k, gval: v})
					}
				}
			}
		}
		if len(guards) == 0 {
			continue
		}
		sort.Slice(guards, func(i, j int) bool { return keyString(guards[i].gkey) < keyString(guards[j].gkey) })
		g := guards[0]
		for v := range X.nonnil {
			if !Y.nonnil[v] && !r.nonnil[v] {
				add(cfact{gkey: g.gkey, gval: g.gval, nn: v})
			}
		}
		for k, pv := range X.nnPath {
			if _, ok := r.nnPath[k]; !ok {
				add(cfact{gkey: g.gkey, gval: g.gval, path: pv.(*apath)})
			}
		}
		for k, f := range X.facts {
			if _, ok := r.facts[k]; ok {
				continue
			}
			ff := f
			add(cfact{gkey: g.gkey, gval: g.gval, lin: &ff})
		}
	}
	sort.Slice(r.cfacts, func(i, j int) bool { return r.cfacts[i].id() < r.cfacts[j].id() })
}
