package guards

import (
	"fmt"

	"golang.org/x/tools/go/ssa"
)

// Package-level variables that are constants in all but name:
//
//	var eui64Kind = fixedBytesKind{size: 8, …}
//
// initOnlyConst returns the constant the package initialiser stores at field chain path of g when that store is the
// only write the module ever makes to g: every other use of g is a load of g, or a field address of g that is only
// loaded from (the address never escapes into a call, a store or an interface).
func (e *Engine) initOnlyConst(g *ssa.Global, path []int) *ssa.Const {
	if e.initConst == nil {
		e.initConst = map[*ssa.Global]map[string]*ssa.Const{}
	}
	m, done := e.initConst[g]
	if !done {
		m = e.scanInitOnly(g)
		e.initConst[g] = m
	}
	if m == nil {
		return nil
	}
	return m[fmt.Sprint(path)]
}

func (e *Engine) scanInitOnly(g *ssa.Global) map[string]*ssa.Const {
	out := map[string]*ssa.Const{}
	var fns []*ssa.Function
	fns = append(fns, e.moduleFuncs...)
	if g.Pkg != nil {
		if init := g.Pkg.Func("init"); init != nil {
			fns = append(fns, init)
		}
	}
	seenFn := map[*ssa.Function]bool{}
	// addrUses: every use of an address rooted at g must be a load, a further field address, or (in the package
	// initialiser) the target of a store
	var addrOK func(addr ssa.Value, path []int, inInit bool) bool
	addrOK = func(addr ssa.Value, path []int, inInit bool) bool {
		for _, r := range *addr.Referrers() {
			switch u := r.(type) {
			case *ssa.UnOp:
				// load
			case *ssa.FieldAddr:
				if u.X != addr || !addrOK(u, append(append([]int(nil), path...), u.Field), inInit) {
					return false
				}
			case *ssa.Store:
				if u.Addr != addr || !inInit {
					return false
				}
				k := fmt.Sprint(path)
				if _, dup := out[k]; dup {
					return false
				}
				c, isConst := u.Val.(*ssa.Const)
				if !isConst {
					c = nil
				}
				out[k] = c
			case *ssa.DebugRef:
			default:
				return false
			}
		}
		return true
	}
	ok := true
	for _, f := range fns {
		if seenFn[f] || f.Blocks == nil {
			continue
		}
		seenFn[f] = true
		inInit := f.Name() == "init" && f.Parent() == nil && f.Pkg == g.Pkg && f.Synthetic != ""
		for _, b := range f.Blocks {
			for _, ins := range b.Instrs {
				for _, op := range ins.Operands(nil) {
					if op == nil || *op != ssa.Value(g) {
						continue
					}
					switch u := ins.(type) {
					case *ssa.UnOp:
					case *ssa.FieldAddr:
						if !addrOK(u, []int{u.Field}, inInit) {
							ok = false
						}
					case *ssa.Store:
						if u.Addr != ssa.Value(g) || !inInit {
							ok = false
						}
						// a whole-value store in the initialiser: fields are not tracked individually
						out["whole"] = nil
					case *ssa.DebugRef:
					default:
						ok = false
					}
				}
			}
		}
	}
	if !ok {
		return nil
	}
	if _, whole := out["whole"]; whole {
		return nil
	}
	return out
}
