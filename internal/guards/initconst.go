package guards

import (
	"go/token"
	"fmt"
	"go/types"

	"golang.org/x/tools/go/ssa"
)

// Package-level variables that are constants in all but name:
//
//	var eui64Kind = fixedBytesKind{size: 8, …}
//
// initOnlyConst returns the constant the package initialiser stores at field chain path of g when that store is the
// only write the module ever makes to g: every other use of g is a load of g, or a field address of g that is only
// loaded from (the address never escapes into a call, a store or an interface).
func (e *Engine) initOnlyConst(g *ssa.Global, path []int) *ssa.Const {
	if e.initConst == nil {
		e.initConst = map[*ssa.Global]map[string]*ssa.Const{}
	}
	m, done := e.initConst[g]
	if !done {
		m = e.scanInitOnly(g)
		e.initConst[g] = m
	}
	if m == nil {
		return nil
	}
	return m[fmt.Sprint(path)]
}

// initOnlyElemsNonNil: g is an array that only its package initialiser writes, and the initialiser stores a non-nil
// function (or other non-nil constant) into field chain `fields` of EVERY element: `table[i].f` is non-nil for every i.
func (e *Engine) initOnlyElemsNonNil(g *ssa.Global, fields []int) bool {
	e.initOnlyConst(g, nil) // make sure g has been scanned
	if e.initConst[g] == nil {
		return false
	}
	pt, ok := g.Type().Underlying().(*types.Pointer)
	if !ok {
		return false
	}
	arr, ok := pt.Elem().Underlying().(*types.Array)
	if !ok || arr.Len() == 0 || arr.Len() > 1024 {
		return false
	}
	for i := int64(0); i < arr.Len(); i++ {
		k := fmt.Sprint(append([]int{-1 - int(i)}, fields...))
		if !e.initNonNil[g][k] {
			return false
		}
	}
	return true
}

func (e *Engine) scanInitOnly(g *ssa.Global) map[string]*ssa.Const {
	out := map[string]*ssa.Const{}
	if e.initNonNil == nil {
		e.initNonNil = map[*ssa.Global]map[string]bool{}
	}
	nonNil := map[string]bool{}
	e.initNonNil[g] = nonNil
	var fns []*ssa.Function
	fns = append(fns, e.moduleFuncs...)
	if g.Pkg != nil {
		if init := g.Pkg.Func("init"); init != nil {
			fns = append(fns, init)
		}
	}
	seenFn := map[*ssa.Function]bool{}
	// addrUses: every use of an address rooted at g must be a load, a further field address, or (in the package
	// initialiser) the target of a store
	var addrOK func(addr ssa.Value, path []int, inInit bool) bool
	addrOK = func(addr ssa.Value, path []int, inInit bool) bool {
		for _, r := range *addr.Referrers() {
			switch u := r.(type) {
			case *ssa.UnOp:
				// load
			case *ssa.FieldAddr:
				if u.X != addr || !addrOK(u, append(append([]int(nil), path...), u.Field), inInit) {
					return false
				}
			case *ssa.IndexAddr:
				// element address: a constant index in the initialiser is a path step (encoded -1-i); elsewhere the
				// element may only be read
				if u.X != addr {
					return false
				}
				step := -1 << 30
				if k, ok := ConstInt(u.Index); ok && k >= 0 && k < 1<<20 {
					step = -1 - int(k)
				}
				if !addrOK(u, append(append([]int(nil), path...), step), inInit && step != -1<<30) {
					return false
				}
			case *ssa.Store:
				if u.Addr != addr || !inInit {
					return false
				}
				k := fmt.Sprint(path)
				if _, dup := out[k]; dup {
					return false
				}
				c, isConst := u.Val.(*ssa.Const)
				if !isConst {
					c = nil
				}
				out[k] = c
				nonNil[k] = nonNilInitValue(u.Val)
			case *ssa.DebugRef:
			default:
				return false
			}
		}
		return true
	}
	ok := true
	for _, f := range fns {
		if seenFn[f] || f.Blocks == nil {
			continue
		}
		seenFn[f] = true
		inInit := f.Name() == "init" && f.Parent() == nil && f.Pkg == g.Pkg && f.Synthetic != ""
		for _, b := range f.Blocks {
			for _, ins := range b.Instrs {
				for _, op := range ins.Operands(nil) {
					if op == nil || *op != ssa.Value(g) {
						continue
					}
					switch u := ins.(type) {
					case *ssa.UnOp:
					case *ssa.FieldAddr:
						if !addrOK(u, []int{u.Field}, inInit) {
							ok = false
						}
					case *ssa.IndexAddr:
						step := -1 << 30
						if k, isK := ConstInt(u.Index); isK && k >= 0 && k < 1<<20 {
							step = -1 - int(k)
						}
						if u.X != ssa.Value(g) || !addrOK(u, []int{step}, inInit && step != -1<<30) {
							ok = false
						}
					case *ssa.Store:
						if u.Addr != ssa.Value(g) || !inInit {
							ok = false
						}
						// an array literal built in a temporary and copied over (`var t = [...]T{K: v, …}`): the element stores
						// of the temporary are the element stores of the table
						if ld, isLd := u.Val.(*ssa.UnOp); isLd && ld.Op == token.MUL && inInit {
							if al, isAl := ld.X.(*ssa.Alloc); isAl && tempArrayInit(al, ld, nonNil) {
								continue
							}
						}
						// a whole-value store in the initialiser: fields are not tracked individually
						out["whole"] = nil
						switch v := u.Val.(type) {
						case *ssa.Function, *ssa.MakeClosure, *ssa.Alloc, *ssa.MakeSlice, *ssa.MakeMap, *ssa.MakeInterface:
							if _, seen := nonNil["whole"]; !seen {
								nonNil["whole"] = true
							}
						case *ssa.Const:
							nonNil["whole"] = nonNil["whole"] && v.Value != nil
							if v.Value == nil {
								nonNil["whole"] = false
							}
						default:
							nonNil["whole"] = false
						}
					case *ssa.DebugRef:
					default:
						ok = false
					}
				}
			}
		}
	}
	if !ok {
		delete(nonNil, "whole")
		return nil
	}
	if _, whole := out["whole"]; whole {
		return nil
	}
	return out
}

// initOnlyWholeNonNil: g is a package-level variable (a function value, a pointer, a map …) that only its package
// initialiser writes, as a whole and with a non-nil value: `var hook = func(…) {}` that nothing reassigns.
func (e *Engine) initOnlyWholeNonNil(g *ssa.Global) bool {
	e.initOnlyConst(g, nil) // make sure g has been scanned
	return e.initNonNil[g]["whole"]
}

// tempArrayInit: al is a local array that is only filled element by element at constant indices and then loaded once
// (by ld); records which elements received a non-nil value.
func tempArrayInit(al *ssa.Alloc, ld *ssa.UnOp, nonNil map[string]bool) bool {
	if _, isArr := derefType(al.Type()).Underlying().(*types.Array); !isArr || al.Referrers() == nil {
		return false
	}
	got := map[string]bool{}
	for _, r := range *al.Referrers() {
		switch u := r.(type) {
		case *ssa.UnOp:
			if u != ld {
				return false
			}
		case *ssa.DebugRef:
		case *ssa.IndexAddr:
			k, ok := ConstInt(u.Index)
			if u.X != ssa.Value(al) || !ok || k < 0 || u.Referrers() == nil {
				return false
			}
			for _, r2 := range *u.Referrers() {
				st, isSt := r2.(*ssa.Store)
				if !isSt || st.Addr != ssa.Value(u) {
					return false
				}
				key := fmt.Sprint([]int{-1 - int(k)})
				if _, dup := got[key]; dup {
					return false
				}
				got[key] = nonNilInitValue(st.Val)
			}
		default:
			return false
		}
	}
	for k, v := range got {
		nonNil[k] = v
	}
	return true
}

func nonNilInitValue(v ssa.Value) bool {
	switch x := v.(type) {
	case *ssa.Function, *ssa.MakeClosure, *ssa.Alloc, *ssa.MakeSlice, *ssa.MakeMap, *ssa.MakeInterface:
		return true
	case *ssa.ChangeType:
		return nonNilInitValue(x.X)
	case *ssa.Const:
		return x.Value != nil
	}
	return false
}
