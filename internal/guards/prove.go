package guards

// Template-linear entailment (DESIGN §2.4): a goal g >= 0 holds if, after subtracting a small number of
// non-negative multiples of known facts (each f >= 0), what remains is syntactically non-negative
// (non-negative coefficients on atoms known >= 0, constant >= 0). The search is goal-directed: the first
// "bad" term of the goal (negative coefficient, or positive coefficient on an atom of unknown sign) is
// cancelled with a fact that bounds that atom in the needed direction. Depth (= number of facts used) is
// bounded. This is a lookup with normalisation, not a solver; it is sound because every step only uses
//   g >= 0  <=  mu*g - lambda*f >= 0  and  f >= 0   (mu, lambda > 0).

const (
	maxDepth = 5
	maxMul   = 4096
)

type prover struct {
	facts  []Lin
	byAtom map[*Atom][]int
	steps  int
}

func newProver(facts []Lin) *prover {
	p := &prover{byAtom: map[*Atom][]int{}}
	for _, f := range facts {
		p.add(f)
	}
	return p
}

func (p *prover) add(f Lin) {
	if len(f.t) == 0 {
		return
	}
	i := len(p.facts)
	p.facts = append(p.facts, f)
	for _, t := range f.t {
		p.byAtom[t.a] = append(p.byAtom[t.a], i)
	}
}

// Entails reports whether the facts entail g >= 0.
func (p *prover) Entails(g Lin) bool {
	p.steps = 0
	// all atoms are integers: divide the goal by the gcd of its coefficients, rounding the constant down
	// (3*x + 2 >= 0  <=>  x + 0 >= 0)
	if len(g.t) > 0 {
		d := int64(0)
		for _, t := range g.t {
			d = gcd(d, t.k)
		}
		if d < 0 {
			d = -d
		}
		if d > 1 {
			n := Lin{C: floorDiv(g.C, d)}
			for _, t := range g.t {
				n.t = append(n.t, term{a: t.a, k: t.k / d})
			}
			g = n
		}
	}
	return p.prove(g, maxDepth, nil)
}

func floorDiv(a, b int64) int64 {
	q := a / b
	if (a%b != 0) && ((a < 0) != (b < 0)) {
		q--
	}
	return q
}

func pivots(g Lin) (ts []term, must bool) {
	for _, t := range g.t {
		if t.k < 0 || !t.a.NonNeg {
			return []term{t}, true
		}
	}
	// every term is fine; only the constant is negative: any atom with a known positive lower bound helps
	return g.t, false
}

func (p *prover) prove(g Lin, depth int, used []int) bool { return p.proveM(g, depth, used, 1) }

// proveM: g is m times the original goal minus non-negative multiples of facts. All atoms are integers, so the
// original goal G satisfies m*G >= g's constant once every remaining term is non-negative; G >= ceil(C/m), which is
// >= 0 as soon as C > -m (integer rounding: 3*i <= 14 gives i <= 4).
func (p *prover) proveM(g Lin, depth int, used []int, m int64) bool {
	pv, bad := pivots(g)
	if !bad && (g.C >= 0 || g.C > -m) {
		return true
	}
	if depth == 0 {
		return false
	}
	p.steps++
	if p.steps > 20000 {
		return false
	}
	for _, bt := range pv {
		for _, fi := range p.byAtom[bt.a] {
			f := p.facts[fi]
			d := f.Coef(bt.a)
			if (d < 0) != (bt.k < 0) {
				continue
			}
			// do not reuse a fact more than twice on one branch
			cnt := 0
			for _, u := range used {
				if u == fi {
					cnt++
				}
			}
			if cnt >= 2 {
				continue
			}
			gc := gcd(bt.k, d)
			mu, la := d/gc, bt.k/gc
			if mu < 0 {
				mu = -mu
			}
			if la < 0 {
				la = -la
			}
			if mu > maxMul || la > maxMul {
				continue
			}
			ng := Add(Scale(g, mu), f, -la)
			if len(ng.t) > 12 {
				continue
			}
			nm := m * mu
			if nm > 1<<40 || nm <= 0 {
				continue
			}
			if p.proveM(ng, depth-1, append(used, fi), nm) {
				return true
			}
		}
	}
	return false
}
