package guards

import "golang.org/x/tools/go/ssa"

// relationalCandidates: at a loop head, try relations between pairs of loop variables (integer phis and lengths
// of slice phis):  x >= y,  and "x - y keeps its entry value" (two counters moving in lock-step, e.g. the length
// of a slice that is appended to once per iteration and the loop index). A candidate is kept only if every
// incoming edge seen so far entails it; it is re-examined on every pass, so it survives only if the back edges
// re-establish it (greatest fixpoint by iterated removal).
func (a *FuncAn) relationalCandidates(b *ssa.BasicBlock, s *State, edges []*State) {
	type pv struct {
		at    *Atom
		entry *Lin // value on the unique non-back edge, if any
	}
	var ps []pv
	for _, ins := range b.Instrs {
		phi, ok := ins.(*ssa.Phi)
		if !ok {
			break
		}
		var l Lin
		isInt := false
		if _, _, ok := a.E.intInfo(phi.Type()); ok {
			l = a.Lin(phi)
			isInt = true
		} else if isSeq(phi.Type()) {
			l = a.LenOf(phi)
		} else {
			continue
		}
		if !(len(l.t) == 1 && l.C == 0 && l.t[0].k == 1) {
			continue
		}
		p := pv{at: l.t[0].a}
		n := 0
		for i, pred := range b.Preds {
			if b.Dominates(pred) {
				continue // back edge
			}
			n++
			var e Lin
			if isInt {
				e = a.Lin(phi.Edges[i])
			} else {
				e = a.LenOf(phi.Edges[i])
			}
			p.entry = &e
		}
		if n != 1 {
			p.entry = nil
		}
		ps = append(ps, p)
	}
	try := func(cand Lin) {
		if _, ok := s.facts[cand.key()]; ok && s.facts[cand.key()].C <= cand.C {
			return
		}
		for _, es := range edges {
			if !a.proverFor(es).Entails(cand) {
				return
			}
		}
		s.AddFact(cand)
	}
	// sign candidates: the loop variable stays >= 1 / >= 0
	for _, x := range ps {
		if !x.at.NonNeg {
			try(AtomLin(x.at))
		}
	}
	if len(ps) < 2 || len(ps) > 6 {
		return
	}
	memo := map[*Atom]bool{}
	none := map[*Atom]*Atom{}
	for _, x := range ps {
		for _, y := range ps {
			if x.at == y.at {
				continue
			}
			try(Add(AtomLin(x.at), AtomLin(y.at), -1))
			if x.entry != nil && y.entry != nil && x.at.ID < y.at.ID {
				d0 := Add(*x.entry, *y.entry, -1)
				inv := true
				for _, t := range d0.t {
					if a.stale(t.a, b, none, memo) {
						inv = false
					}
				}
				if inv {
					eq := Add(Add(AtomLin(x.at), AtomLin(y.at), -1), d0, -1)
					try(eq)
					try(Scale(eq, -1))
				}
				// two counters moving towards each other (i up, j down): x + y keeps its entry value
				s0 := Add(*x.entry, *y.entry, 1)
				invS := true
				for _, t := range s0.t {
					if a.stale(t.a, b, none, memo) {
						invS = false
					}
				}
				if invS {
					eq := Add(Add(AtomLin(x.at), AtomLin(y.at), 1), s0, -1)
					try(eq)
					try(Scale(eq, -1))
				}
			}
		}
	}
}
