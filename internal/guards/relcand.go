package guards

import (
	"fmt"
	"os"
	"strings"

	"golang.org/x/tools/go/ssa"
)

// relationalCandidates: at a loop head, try relations between pairs of loop variables (integer phis and lengths
// of slice phis):  x >= y,  and "x - y keeps its entry value" (two counters moving in lock-step, e.g. the length
// of a slice that is appended to once per iteration and the loop index). A candidate is kept only if every
// incoming edge seen so far entails it; it is re-examined on every pass, so it survives only if the back edges
// re-establish it (greatest fixpoint by iterated removal).
func (a *FuncAn) relationalCandidates(b *ssa.BasicBlock, s *State, edges []*State) {
	type pv struct {
		at    *Atom
		entry *Lin   // value on the unique non-back edge, if any
		delta *int64 // constant change per iteration (the same on every back edge), if any
	}
	var ps []pv
	for _, ins := range b.Instrs {
		phi, ok := ins.(*ssa.Phi)
		if !ok {
			break
		}
		var l Lin
		isInt := false
		if _, _, ok := a.E.intInfo(phi.Type()); ok {
			l = a.Lin(phi)
			isInt = true
		} else if isSeq(phi.Type()) {
			l = a.LenOf(phi)
		} else {
			continue
		}
		if !(len(l.t) == 1 && l.C == 0 && l.t[0].k == 1) {
			continue
		}
		p := pv{at: l.t[0].a}
		n := 0
		deltaOK := true
		for i, pred := range b.Preds {
			if b.Dominates(pred) {
				// back edge: value - phi must be one constant
				var e Lin
				if isInt {
					e = a.Lin(phi.Edges[i])
				} else {
					e = a.LenOf(phi.Edges[i])
				}
				d := Add(e, l, -1)
				if !d.IsConst() || (p.delta != nil && *p.delta != d.C) {
					deltaOK = false
				} else {
					c := d.C
					p.delta = &c
				}
				continue // back edge
			}
			n++
			var e Lin
			if isInt {
				e = a.Lin(phi.Edges[i])
			} else {
				e = a.LenOf(phi.Edges[i])
			}
			p.entry = &e
		}
		if n != 1 {
			p.entry = nil
		}
		if !deltaOK {
			p.delta = nil
		}
		ps = append(ps, p)
	}
	try := func(cand Lin) {
		if _, ok := s.facts[cand.key()]; ok && s.facts[cand.key()].C <= cand.C {
			return
		}
		for _, es := range edges {
			if !a.proverFor(es).Entails(cand) {
				if os.Getenv("LW_RELDEBUG") != "" && strings.Contains(a.Fn.String(), os.Getenv("LW_RELDEBUG")) && len(cand.t) >= 3 {
					fmt.Fprintf(os.Stderr, "relcand try %s fails on an edge\n", cand.String())
				}
				return
			}
		}
		s.AddFact(cand)
	}
	if os.Getenv("LW_RELDEBUG") != "" && strings.Contains(a.Fn.String(), os.Getenv("LW_RELDEBUG")) {
		for _, x := range ps {
			d := "nil"
			if x.delta != nil {
				d = fmt.Sprint(*x.delta)
			}
			e := "nil"
			if x.entry != nil {
				e = x.entry.String()
			}
			fmt.Fprintf(os.Stderr, "relcand %s block %d: %s entry=%s delta=%s\n", a.Fn.Name(), b.Index, x.at.Name, e, d)
		}
	}
	// sign candidates: the loop variable stays >= 1 / >= 0
	for _, x := range ps {
		if !x.at.NonNeg {
			try(AtomLin(x.at))
		}
	}
	if len(ps) < 2 || len(ps) > 6 {
		return
	}
	memo := map[*Atom]bool{}
	none := map[*Atom]*Atom{}
	for _, x := range ps {
		for _, y := range ps {
			if x.at == y.at {
				continue
			}
			try(Add(AtomLin(x.at), AtomLin(y.at), -1))
			if x.entry != nil && y.entry != nil && x.at.ID < y.at.ID {
				d0 := Add(*x.entry, *y.entry, -1)
				inv := true
				for _, t := range d0.t {
					if a.stale(t.a, b, none, memo) {
						inv = false
					}
				}
				if inv {
					eq := Add(Add(AtomLin(x.at), AtomLin(y.at), -1), d0, -1)
					try(eq)
					try(Scale(eq, -1))
				}
				// counters moving at different constant rates (a window shrinking by 3 while an index grows by 1):
				// dy*x - dx*y keeps its entry value
				if x.delta != nil && y.delta != nil && *x.delta != 0 && *y.delta != 0 && *x.delta != *y.delta && *x.delta != -*y.delta {
					dx, dy := *x.delta, *y.delta
					if dx > -64 && dx < 64 && dy > -64 && dy < 64 {
						w0 := Add(Scale(*x.entry, dy), *y.entry, -dx)
						invW := true
						for _, t := range w0.t {
							if a.stale(t.a, b, none, memo) {
								invW = false
							}
						}
						if invW {
							eq := Add(Add(Scale(AtomLin(x.at), dy), AtomLin(y.at), -dx), w0, -1)
							try(eq)
							try(Scale(eq, -1))
						}
					}
				}
				// two counters moving towards each other (i up, j down): x + y keeps its entry value
				s0 := Add(*x.entry, *y.entry, 1)
				invS := true
				for _, t := range s0.t {
					if a.stale(t.a, b, none, memo) {
						invS = false
					}
				}
				if invS {
					eq := Add(Add(AtomLin(x.at), AtomLin(y.at), 1), s0, -1)
					try(eq)
					try(Scale(eq, -1))
				}
			}
		}
	}
}
