package guards

import "golang.org/x/tools/go/ssa"

// relationalCandidates: at a loop head, try the order relations x >= y between pairs of loop variables
// (integer phis and lengths of slice phis). A candidate is kept only if every incoming edge seen so far
// entails it; it is re-examined on every pass, so it survives only if the back edges re-establish it
// (greatest fixpoint by iterated removal).
func (a *FuncAn) relationalCandidates(b *ssa.BasicBlock, s *State, edges []*State) {
	var ats []*Atom
	for _, ins := range b.Instrs {
		phi, ok := ins.(*ssa.Phi)
		if !ok {
			break
		}
		var l Lin
		if _, _, isInt := a.E.intInfo(phi.Type()); isInt {
			l = a.Lin(phi)
		} else if isSeq(phi.Type()) {
			l = a.LenOf(phi)
		} else {
			continue
		}
		if len(l.t) == 1 && l.C == 0 && l.t[0].k == 1 {
			ats = append(ats, l.t[0].a)
		}
	}
	if len(ats) < 2 || len(ats) > 6 {
		return
	}
	for _, x := range ats {
		for _, y := range ats {
			if x == y {
				continue
			}
			cand := Add(AtomLin(x), AtomLin(y), -1)
			if _, ok := s.facts[cand.key()]; ok {
				continue
			}
			all := true
			for _, es := range edges {
				if !a.proverFor(es).Entails(cand) {
					all = false
					break
				}
			}
			if all {
				s.AddFact(cand)
			}
		}
	}
}
