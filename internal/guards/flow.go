package guards

import (
	"fmt"
	"go/constant"
	"go/token"
	"go/types"
	"os"
	"sort"
	"strings"

	"golang.org/x/tools/go/ssa"
)

// ---------------------------------------------------------------------------
// memory-versioned load numbering (available loads, must analysis)

type availEnt struct {
	p   *apath
	rep ssa.Value
	// ver (with rep == nil): a synthetic name for the unknown content of the location — created where an in-module
	// callee receives a pointer to the enclosing struct, so that what one call learns about the content (a predicate
	// method returning false) is still known at a later call that sees the same version
	ver string
	// phi (with rep == nil, ver == ""): the location holds a different known slice value on each incoming edge of
	// block phiAt (`if cap(s.buf) < n { s.buf = make(…) }` followed by a load of s.buf): the first load of it is a
	// "memory phi" whose length and capacity are related to the per-edge values like those of an SSA phi
	phi   []ssa.Value
	phiAt *ssa.BasicBlock
}
type availMap map[string]availEnt

type memPhi struct {
	load *ssa.UnOp
	reps []ssa.Value // aligned with the predecessors of the join block; nil where unknown
}

func (m availMap) clone() availMap {
	n := make(availMap, len(m))
	for k, v := range m {
		n[k] = v
	}
	return n
}

func availEqual(a, b availMap) bool {
	if (a == nil) != (b == nil) || len(a) != len(b) {
		return false
	}
	for k, v := range a {
		if w, ok := b[k]; !ok || w.rep != v.rep || w.ver != v.ver || len(w.phi) != len(v.phi) || w.phiAt != v.phiAt {
			return false
		} else {
			for i := range w.phi {
				if w.phi[i] != v.phi[i] {
					return false
				}
			}
		}
	}
	return true
}

func (a *FuncAn) killByWrite(m availMap, w *apath) {
	for k, e := range m {
		if a.mayAlias(e.p, w) {
			delete(m, k)
		}
	}
}

func (a *FuncAn) killByCall(m availMap, ws *WriteSet) {
	if ws == nil || (!ws.Any && len(ws.Writes) == 0) {
		return
	}
	for k, e := range m {
		if al, ok := e.p.root.(*ssa.Alloc); ok && !a.escapes(al) {
			continue
		}
		if ws.Any {
			delete(m, k)
			continue
		}
		for _, d := range ws.Writes {
			if writeKills(d, e.p) {
				delete(m, k)
				break
			}
		}
	}
}

func (a *FuncAn) availTransfer(b *ssa.BasicBlock, m availMap) {
	for _, ins := range b.Instrs {
		switch x := ins.(type) {
		case *ssa.Alloc:
			for k, e := range m {
				if e.p.root == ssa.Value(x) {
					delete(m, k)
				}
			}
		case *ssa.UnOp:
			if x.Op != token.MUL {
				continue
			}
			p := a.pathOf(x.X)
			if p == nil {
				a.canon[x] = x
				continue
			}
			k := p.key()
			if _, isStruct := x.Type().Underlying().(*types.Struct); isStruct {
				a.loadSnap[x] = snapshot(m)
			}
			if e, ok := m[k]; ok && e.rep != nil && types.Identical(e.rep.Type(), x.Type()) {
				a.canon[x] = e.rep
			} else {
				if ok && e.phi != nil && e.phiAt != nil && a.memPhis != nil {
					a.memPhis[e.phiAt] = append(a.memPhis[e.phiAt], memPhi{load: x, reps: e.phi})
				}
				if ok && e.rep == nil && e.ver != "" && a.loadVer != nil {
					a.loadVer[x] = e.ver
				}
				a.canon[x] = x
				m[k] = availEnt{p: p, rep: x}
			}
		case *ssa.Store:
			w := a.pathOf(x.Addr)
			if w == nil {
				a.killByCall(m, &WriteSet{Any: true})
				continue
			}
			a.killByWrite(m, w)
			m[w.key()] = availEnt{p: w, rep: x.Val}
		case ssa.CallInstruction:
			if c, ok := x.(*ssa.Call); ok && c.Call.StaticCallee() != nil {
				a.versionFields(c, m)
				a.callSnap[c] = snapshot(m)
				a.callVer[c] = snapshotVer(m)
			}
			a.killByCall(m, a.E.callWrites(a, x))
			if c, ok := x.(*ssa.Call); ok && a.postAt != nil {
				a.installPostVersions(c, m)
			}
		case *ssa.Return:
			if a.retSnap != nil {
				a.retSnap[x] = snapshot(m)
				a.retVer[x] = snapshotVer(m)
			}
		case *ssa.RunDefers:
			a.killByCall(m, a.E.deferWrites(a))
		}
	}
}

func snapshot(m availMap) map[string]ssa.Value {
	s := make(map[string]ssa.Value, len(m))
	for k, e := range m {
		if e.rep != nil {
			s[k] = e.rep
		}
	}
	return s
}

func snapshotVer(m availMap) map[string]string {
	var s map[string]string
	for k, e := range m {
		if e.rep == nil && e.ver != "" {
			if s == nil {
				s = map[string]string{}
			}
			s[k] = e.ver
		}
	}
	return s
}

// versionFields: an in-module callee receives a pointer to a struct; the integer and sequence fields of that struct
// whose content is not available get a synthetic version at this call.
func (a *FuncAn) versionFields(c *ssa.Call, m availMap) {
	callee := c.Call.StaticCallee()
	if callee == nil || callee.Blocks == nil || !a.E.InModule(callee) {
		return
	}
	for _, arg := range c.Call.Args {
		pt, ok := arg.Type().Underlying().(*types.Pointer)
		if !ok {
			continue
		}
		st, ok := pt.Elem().Underlying().(*types.Struct)
		if !ok || st.NumFields() > 12 {
			continue
		}
		p := a.pathOf(arg)
		if p == nil {
			continue
		}
		for fi := 0; fi < st.NumFields(); fi++ {
			ft := st.Field(fi).Type()
			if _, _, isInt := a.E.intInfo(ft); !isInt && !isSeq(ft) {
				continue
			}
			fp := &apath{root: p.root, steps: append(append([]step(nil), p.steps...), step{key: fmt.Sprintf(".%d", fi), st: pt.Elem(), field: fi}),
				typ: ft, disp: p.disp + "." + st.Field(fi).Name()}
			k := fp.key()
			if _, have := m[k]; !have {
				ver := fmt.Sprintf("v@%p%s", c, k)
				m[k] = availEnt{p: fp, ver: ver}
				a.verCalls[ver] = c
			}
		}
	}
}

func (a *FuncAn) computeCanon() {
	fn := a.Fn
	out := map[*ssa.BasicBlock]availMap{}
	for pass := 0; pass < 50; pass++ {
		changed := false
		a.memPhis = map[*ssa.BasicBlock][]memPhi{}
		a.retSnap, a.retVer = map[*ssa.Return]map[string]ssa.Value{}, map[*ssa.Return]map[string]string{}
		a.postAt, a.loadVer = map[*ssa.Call]map[string]types.Type{}, map[*ssa.UnOp]string{}
		if a.verCalls == nil {
			a.verCalls = map[string]*ssa.Call{}
		}
		for _, b := range a.rpo {
			var in availMap
			if b == fn.Blocks[0] {
				in = a.entryVersions()
			} else {
				first := true
				allKnown := true
				for _, p := range b.Preds {
					if _, ok := out[p]; !ok {
						allKnown = false
					}
				}
				for _, p := range b.Preds {
					o, ok := out[p]
					if !ok {
						continue
					}
					if first {
						in, first = o.clone(), false
						continue
					}
					for k, e := range in {
						if w, ok := o[k]; !ok || w.rep != e.rep || w.ver != e.ver || e.phi != nil || w.phi != nil {
							// different slice values on the edges of a two-way join: keep them as a memory phi
							if mp := a.memPhiEntry(b, k, out, allKnown); mp != nil {
								in[k] = *mp
								continue
							}
							delete(in, k)
						}
					}
				}
				if first {
					continue
				}
			}
			a.availTransfer(b, in)
			if old, ok := out[b]; !ok || !availEqual(old, in) {
				out[b] = in
				changed = true
			}
		}
		if !changed {
			return
		}
	}
	// not converged: fall back to "every load is its own version"
	for k := range a.canon {
		a.canon[k] = k
	}
}

// memPhiEntry: location k holds a known value of one slice type at the end of every predecessor of b (not the same
// one): the entry that stands for "one of them, by edge".
func (a *FuncAn) memPhiEntry(b *ssa.BasicBlock, k string, out map[*ssa.BasicBlock]availMap, allKnown bool) *availEnt {
	if !allKnown || len(b.Preds) < 2 || len(b.Preds) > 4 {
		return nil
	}
	var reps []ssa.Value
	var p *apath
	var typ types.Type
	for _, pr := range b.Preds {
		e, ok := out[pr][k]
		if !ok || e.rep == nil {
			return nil
		}
		if _, isSl := e.rep.Type().Underlying().(*types.Slice); !isSl {
			return nil
		}
		if typ != nil && !types.Identical(typ, e.rep.Type()) {
			return nil
		}
		typ = e.rep.Type()
		p = e.p
		reps = append(reps, e.rep)
	}
	return &availEnt{p: p, phi: reps, phiAt: b}
}

// ---------------------------------------------------------------------------
// provers per state (facts + lemmas + saturated conditional lemmas)

func (a *FuncAn) proverFor(s *State) *prover {
	if p, ok := a.provers[s]; ok {
		return p
	}
	p := a.buildProver(s, nil)
	a.provers[s] = p
	return p
}

// proverBefore: the prover for the moment right before instruction c executes, from the facts of state s (the entry
// of c's block). Lemmas are truths about values, valid wherever the values exist — but a lemma about what c or a
// later instruction produces (the length of its result, the content of a location after it returns) holds only once
// that instruction has completed normally, and together with the sign of such an atom it implies what the instruction
// needs in order to complete (len(result) == n and len >= 0 give n >= 0). Establishing a precondition of c from them
// would be circular, so only lemmas over atoms that exist before c take part.
func (a *FuncAn) proverBefore(s *State, c ssa.Instruction) *prover {
	memo := map[*Atom]bool{}
	return a.buildProver(s, func(l Lin) bool {
		for _, t := range l.t {
			if !a.atomBefore(t.a, c, memo, 0) {
				return false
			}
		}
		return true
	})
}

func (a *FuncAn) buildProver(s *State, keep func(Lin) bool) *prover {
	p := newProver(nil)
	for _, f := range s.sortedFacts() {
		p.add(f)
	}
	for _, l := range a.lemmas {
		if keep == nil || keep(l) {
			p.add(l)
		}
	}
	// disequalities tighten bounds: L >= 0 and L != 0  =>  L - 1 >= 0
	nk := make([]string, 0, len(s.neq))
	for k := range s.neq {
		nk = append(nk, k)
	}
	sort.Strings(nk)
	fired := make([]bool, len(a.conds))
	for round := 0; round < 3; round++ {
		progress := false
		for _, k := range nk {
			l := s.neq[k]
			if p.prove(l, 2, nil) && !p.prove(l.plus(-1), 1, nil) {
				p.add(l.plus(-1))
				progress = true
			}
			n := Scale(l, -1)
			if p.prove(n, 2, nil) && !p.prove(n.plus(-1), 1, nil) {
				p.add(n.plus(-1))
				progress = true
			}
		}
		for i, c := range a.conds {
			if fired[i] {
				continue
			}
			ok := c.okCall == nil || s.truth[c.okCall]
			for _, il := range c.preLits {
				if !ok {
					break
				}
				p.steps = 0
				ok = a.litHolds(s, p, il)
				if DebugAllFacts {
					fmt.Printf("DEBUG lit %v lin=%v neq=%v holds=%v\n", il.isBool, il.lin, il.neq, ok)
				}
			}
			for _, pre := range c.pre {
				if !ok {
					break
				}
				p.steps = 0
				if !p.prove(pre, 5, nil) {
					ok = false
					break
				}
			}
			if ok && keep != nil {
				for _, post := range c.post {
					if !keep(post) {
						ok = false
					}
				}
				if !ok {
					fired[i] = true // never applicable under this filter
					continue
				}
			}
			if ok {
				fired[i] = true
				progress = true
				for _, post := range c.post {
					p.add(post)
				}
			}
		}
		if !progress {
			break
		}
	}
	if keep == nil {
		a.divisibilityFacts(p)
	}
	return p
}

// atomBefore: the value the atom stands for exists before instruction c executes: it is a parameter, constant or
// global, the entry content of a caller-owned location, or it is produced by an instruction that precedes c in c's
// block or sits in a block that dominates c's.
func (a *FuncAn) atomBefore(at *Atom, c ssa.Instruction, memo map[*Atom]bool, depth int) bool {
	if r, ok := memo[at]; ok {
		return r
	}
	memo[at] = false
	r := a.atomBefore0(at, c, memo, depth)
	memo[at] = r
	return r
}

func instrBefore(i, c ssa.Instruction) bool {
	if i == c {
		return false
	}
	if i.Block() == c.Block() {
		return precedes(i.Block(), i, c)
	}
	return i.Block().Dominates(c.Block())
}

func valueBefore(v ssa.Value, c ssa.Instruction) bool {
	switch x := v.(type) {
	case *ssa.Parameter, *ssa.Const, *ssa.Global, *ssa.FreeVar, *ssa.Function, *ssa.Builtin:
		return true
	case ssa.Instruction:
		return instrBefore(x, c)
	}
	return false
}

func (a *FuncAn) atomBefore0(at *Atom, c ssa.Instruction, memo map[*Atom]bool, depth int) bool {
	if depth > 8 {
		return false
	}
	if deps := a.atomDeps[at]; len(deps) > 0 {
		for _, d := range deps {
			if !a.atomBefore(d, c, memo, depth+1) {
				return false
			}
		}
		return true
	}
	if v := a.atomVal[at]; v != nil {
		return valueBefore(v, c)
	}
	if v := a.lenAtomOf[at]; v != nil {
		return valueBefore(v, c)
	}
	if v := a.capAtomOf[at]; v != nil {
		return valueBefore(v, c)
	}
	if ld := a.atomLoad[at]; ld != nil {
		return instrBefore(ld, c)
	}
	if fl := a.fieldAtomOf[at]; fl != nil {
		return valueBefore(a.cv(fl.X), c) && instrBefore(fl, c)
	}
	if ver, ok := a.atomVer[at]; ok {
		return a.versionBefore(ver, c)
	}
	return false
}

// divisibilityFacts: where x%k == 0 is known for an atom x (x == k*q), every fact that mentions x is restated over the
// quotient q and divided by the gcd of its coefficients, the constant rounded down -- all atoms are integers, so
// x - 3*i - 1 >= 0 with x == 3*q gives q - i - 1 >= 0 (a whole stride is left, not just one byte).
func (a *FuncAn) divisibilityFacts(p *prover) {
	for _, rr := range a.rems {
		if rr.q == nil || !(len(rr.X.t) == 1 && rr.X.C == 0 && rr.X.t[0].k == 1) {
			continue
		}
		x := rr.X.t[0].a
		if len(p.byAtom[x]) == 0 {
			continue
		}
		p.steps = 0
		if !p.prove(rr.r, 3, nil) || !p.prove(Scale(rr.r, -1), 3, nil) {
			continue
		}
		idx := append([]int(nil), p.byAtom[x]...)
		for _, fi := range idx {
			f := p.facts[fi]
			c := f.Coef(x)
			if c == 0 || len(f.t) < 2 || len(f.t) > 6 {
				continue
			}
			nf := Add(Add(f, AtomLin(x), -c), AtomLin(rr.q), c*rr.k)
			d := int64(0)
			for _, t := range nf.t {
				d = gcd(d, t.k)
			}
			if d < 0 {
				d = -d
			}
			if d <= 1 || nf.C%d == 0 {
				continue // nothing gained by rounding
			}
			n := Lin{C: floorDiv(nf.C, d)}
			for _, t := range nf.t {
				n.t = append(n.t, term{a: t.a, k: t.k / d})
			}
			p.add(n)
		}
	}
}

// Entails: the facts that hold on entry of block b entail g >= 0.
func (a *FuncAn) Entails(b *ssa.BasicBlock, g Lin) bool {
	s := a.in[b]
	if s == nil {
		return true // unreachable block
	}
	return a.proverFor(s).Entails(g)
}

func (a *FuncAn) Reachable(b *ssa.BasicBlock) bool { return a.in[b] != nil }

// ---------------------------------------------------------------------------
// branch conditions

// noWriteAfter: no store / call follows the load inside its block (the loaded location still holds the value
// when the block's branch is taken).
func noWriteAfter(ld *ssa.UnOp) bool {
	after := false
	for _, ins := range ld.Block().Instrs {
		if ins == ssa.Instruction(ld) {
			after = true
			continue
		}
		if !after {
			continue
		}
		switch ins.(type) {
		case *ssa.Store, ssa.CallInstruction, *ssa.MapUpdate, *ssa.RunDefers:
			return false
		}
	}
	return after
}

func isNilConst(v ssa.Value) bool {
	c, ok := v.(*ssa.Const)
	return ok && c.Value == nil && !isBasic(c.Type())
}

func isBasic(t types.Type) bool { _, ok := t.Underlying().(*types.Basic); return ok }

func (a *FuncAn) condFacts(s *State, cond ssa.Value, truth bool) {
	if dbg := os.Getenv("LW_CFDEBUG"); dbg != "" && strings.Contains(a.Fn.String(), dbg) {
		fmt.Fprintf(os.Stderr, "COND %s: %s = %s is %v\n", a.Fn.Name(), cond.Name(), cond.String(), truth)
	}
	s.truth[cond] = truth
	defer a.releaseCFacts(s)
	switch c := cond.(type) {
	case *ssa.Phi:
		a.shortCircuitFacts(s, c, truth)
		return
	case *ssa.UnOp:
		if c.Op == token.NOT {
			a.condFacts(s, c.X, !truth)
		}
		return
	case *ssa.Call:
		a.boolCallFacts(s, c, truth)
		a.predCallFacts(s, c, truth)
		if k, ok := a.pureCallKey(c); ok {
			s.truth[k] = truth
		}
		a.releaseCFacts(s)
		return
	case *ssa.Extract:
		if ta, ok := c.Tuple.(*ssa.TypeAssert); ok && c.Index == 1 && truth {
			// assumption A2: an interface that passes a type assertion does not hold a typed nil pointer
			for _, r := range *ta.Referrers() {
				if e, ok := r.(*ssa.Extract); ok && e.Index == 0 {
					s.nonnil[e] = true
				}
			}
			s.nonnil[a.cv(ta.X)] = true
		}
		// `v, ok := f(); if ok {…}`: results that are non-nil whenever the callee returns ok == true
		if call, ok := c.Tuple.(*ssa.Call); ok && truth {
			if sums, okS := a.E.joinSummaries(call); okS {
				all := len(sums) > 0
				for _, sm := range sums {
					if !sm.OkBool || sm.ErrIdx != c.Index {
						all = false
					}
				}
				if all {
					for j, nn := range a.E.nonNilOnSuccess(a, call, c.Index) {
						if !nn {
							continue
						}
						for _, r := range *call.Referrers() {
							if e, ok := r.(*ssa.Extract); ok && e.Index == j {
								s.nonnil[e] = true
							}
						}
					}
				}
			}
		}
		return
	case *ssa.BinOp:
		op := c.Op
		if !truth {
			op = negate(op)
			if op == token.ILLEGAL {
				return
			}
		}
		if isNilConst(c.X) || isNilConst(c.Y) {
			v := c.X
			if isNilConst(v) {
				v = c.Y
			}
			v = a.cv(v)
			if op == token.NEQ {
				s.nonnil[v] = true
				if dbg := os.Getenv("LW_CFDEBUG"); dbg != "" && strings.Contains(a.Fn.String(), dbg) {
					ld, isLd := v.(*ssa.UnOp)
					fmt.Fprintf(os.Stderr, "NONNIL %s: v=%s %T isLoad=%v sameBlock=%v noWriteAfter=%v\n", a.Fn.Name(), v.Name(), v, isLd, isLd && ld.Block() == c.Block(), isLd && noWriteAfter(ld))
				}
				if ld, ok := v.(*ssa.UnOp); ok && ld.Op == token.MUL && ld.Block() == c.Block() && noWriteAfter(ld) {
					if p := a.pathOf(ld.X); p != nil {
						s.nnPath[p.key()] = p
					}
				}
			}
			if op == token.EQL {
				if _, ok := v.Type().Underlying().(*types.Slice); ok {
					s.AddEq(a.LenOf(v))
				}
				// err == nil after a call: what the callee establishes on its success returns
				if call, ok := v.(*ssa.Call); ok {
					s.truth[call] = true
					a.okFactsOf(s, call, 0)
				}
				if ex, ok := v.(*ssa.Extract); ok {
					if call, ok := ex.Tuple.(*ssa.Call); ok {
						s.truth[call] = true
						a.okFactsOf(s, call, ex.Index)
						for j, nn := range a.E.nonNilOnSuccess(a, call, ex.Index) {
							if !nn {
								continue
							}
							for _, r := range *call.Referrers() {
								if e, ok := r.(*ssa.Extract); ok && e.Index == j {
									s.nonnil[e] = true
								}
							}
						}
					}
				}
			}
			return
		}
		if _, _, ok := a.E.intInfo(c.X.Type()); !ok {
			return
		}
		if v := lenPositiveOperand(c, op); v != nil {
			defer a.chunkLemma(s, v)
		}
		x, y := a.Lin(c.X), a.Lin(c.Y)
		var nf []Lin
		switch op {
		case token.LSS:
			nf = []Lin{Add(y, x, -1).plus(-1)}
		case token.LEQ:
			nf = []Lin{Add(y, x, -1)}
		case token.GTR:
			nf = []Lin{Add(x, y, -1).plus(-1)}
		case token.GEQ:
			nf = []Lin{Add(x, y, -1)}
		case token.EQL:
			nf = []Lin{Add(x, y, -1), Add(y, x, -1)}
		case token.NEQ:
			s.AddNeq(Add(x, y, -1))
			if y.IsConst() && y.C == 0 {
				defer a.strideIntLemma(s, c.X)
			}
		}
		if len(nf) > 0 {
			// infeasible edge: the current facts refute the condition
			p := a.proverFor(s)
			for _, f := range nf {
				if len(f.t) == 0 {
					if f.C < 0 {
						s.facts["#false"] = f
					}
					continue
				}
				if p.Entails(Scale(f, -1).plus(-1)) {
					s.facts["#false"] = Konst(-1)
				}
			}
			delete(a.provers, s)
			for _, f := range nf {
				s.AddFact(f)
			}
			switch op {
			case token.LSS:
				a.stridedLemma(s, c.X, c.Y)
			case token.GTR:
				a.stridedLemma(s, c.Y, c.X)
			}
		}
	}
}

// okFactsOf adds the success-path facts of every possible callee of call (all callees must agree on the success
// indicator's position and kind; a fact is added only when every callee establishes it).
func (a *FuncAn) okFactsOf(s *State, call *ssa.Call, errIdx int) {
	sums, ok := a.E.joinSummaries(call)
	if !ok || len(sums) == 0 {
		return
	}
	for _, sm := range sums {
		if sm.ErrIdx != errIdx || sm.OkBool {
			return
		}
	}
	for _, pl := range sums[0].OKFacts {
		all := true
		for _, sm := range sums[1:] {
			found := false
			for _, q := range sm.OKFacts {
				if pl.equal(q) {
					found = true
				}
			}
			all = all && found
		}
		if !all {
			continue
		}
		if l, ok := a.instantiate(pl, call); ok {
			s.AddFact(l)
			delete(a.provers, s)
		}
	}
}

// shortCircuitFacts: cond is the boolean phi the SSA builder makes for `L && R` / `L || R` used as a value
// (phi [Bc: false, Bv: R] for &&, phi [Bc: true, Bv: R] for ||; Bc ends in the branch on L, Bv is where R is
// evaluated). The decided outcome (&& true, || false) fixes both operands; the other outcome is a disjunction, kept
// as a conditional fact: "L as it must be for R to have been evaluated  =>  what R's outcome implies".
func (a *FuncAn) shortCircuitFacts(s *State, phi *ssa.Phi, truth bool) {
	if len(phi.Edges) != 2 || (phi.Comment != "&&" && phi.Comment != "||") {
		return
	}
	isAnd := phi.Comment == "&&"
	ci, vi := -1, -1
	for i, e := range phi.Edges {
		if k, ok := e.(*ssa.Const); ok && k.Value != nil && k.Value.Kind() == constant.Bool && constant.BoolVal(k.Value) == !isAnd {
			ci = i
		} else {
			vi = i
		}
	}
	if ci < 0 || vi < 0 {
		return
	}
	bc, bv := phi.Block().Preds[ci], phi.Block().Preds[vi]
	iff, ok := bc.Instrs[len(bc.Instrs)-1].(*ssa.If)
	if !ok || len(bc.Succs) != 2 || bc.Succs[0] == bc.Succs[1] {
		return
	}
	// the value of the branch condition of bc on the way towards R
	var lval bool
	switch {
	case bc.Succs[0] == bv:
		lval = true
	case bc.Succs[1] == bv:
		lval = false
	default:
		return // R is evaluated further down (nested short circuits): not handled
	}
	lcond := ssa.Value(iff.Cond)
	for {
		u, isNot := lcond.(*ssa.UnOp)
		if !isNot || u.Op != token.NOT {
			break
		}
		lcond, lval = u.X, !lval
	}
	r := phi.Edges[vi]
	if truth == isAnd {
		// && is true / || is false: R was evaluated and has this outcome
		a.condFacts(s, lcond, lval)
		a.condFacts(s, r, truth)
		return
	}
	// the other outcome: if R was evaluated (L had the value lval) it came out as `truth`
	if v, known := s.truth[lcond]; known && v == lval {
		a.condFacts(s, r, truth)
		return
	}
	tmp := NewState()
	a.condFacts(tmp, r, truth)
	for v := range tmp.nonnil {
		s.cfacts = append(s.cfacts, cfact{gkey: lcond, gval: lval, nn: v})
	}
	for _, pv := range tmp.nnPath {
		s.cfacts = append(s.cfacts, cfact{gkey: lcond, gval: lval, path: pv.(*apath)})
	}
	for _, f := range tmp.facts {
		ff := f
		s.cfacts = append(s.cfacts, cfact{gkey: lcond, gval: lval, lin: &ff})
	}
	if len(s.cfacts) > 24 {
		s.cfacts = s.cfacts[:24]
	}
}

// stridedLemma: x < B where x is a loop counter that starts at 0 and advances by a loop-invariant stride st >= 1
// (x = phi(0, x + st)), and B is a multiple of st (the state knows B' % st == 0 for a B' with the same linear form):
// then x is a multiple of st below the multiple B, hence x + st <= B. This is the idiom
// `if len(data)%n != 0 { return err }; for off := 0; off < len(data); off += n { data[off : off+n] }`.
// (Assumption A1: the index arithmetic does not overflow.)
func (a *FuncAn) stridedLemma(s *State, xv, bv ssa.Value) {
	phi, ok := xv.(*ssa.Phi)
	if !ok || len(phi.Edges) != 2 {
		return
	}
	var step ssa.Value
	zero := false
	for _, e := range phi.Edges {
		if k, ok := e.(*ssa.Const); ok && k.Value != nil && k.Int64() == 0 {
			zero = true
			continue
		}
		if bo, ok := e.(*ssa.BinOp); ok && bo.Op == token.ADD {
			if bo.X == ssa.Value(phi) {
				step = bo.Y
			} else if bo.Y == ssa.Value(phi) {
				step = bo.X
			}
		}
	}
	if !zero || step == nil {
		return
	}
	// the stride is the same value on every iteration: a parameter, a constant, or defined in a block that
	// strictly dominates the loop head
	switch d := step.(type) {
	case *ssa.Parameter, *ssa.Const:
	case ssa.Instruction:
		if d.Block() == phi.Block() || !d.Block().Dominates(phi.Block()) {
			return
		}
	default:
		return
	}
	st, bl := a.Lin(step), a.Lin(bv)
	p := a.proverFor(s)
	if !p.Entails(st.plus(-1)) {
		return
	}
	// a constant stride and a bound that is provably a multiple of it (a padded buffer: L + (k - L%k))
	if k, isC := ConstInt(step); isC && k >= 1 {
		mult := false
		if call, ok := bv.(*ssa.Call); ok {
			if bi, isB := call.Call.Value.(*ssa.Builtin); isB && bi.Name() == "len" && len(call.Call.Args) == 1 {
				mult = a.lenMultiple(call.Call.Args[0], k, s, 0)
			}
		}
		if !mult {
			mult = a.multipleAt(s, bl, k)
		}
		if mult {
			delete(a.provers, s)
			s.AddFact(Add(Add(bl, a.Lin(xv), -1), st, -1))
			return
		}
	}
	for _, b := range a.Fn.Blocks {
		for _, ins := range b.Instrs {
			rem, ok := ins.(*ssa.BinOp)
			if !ok || rem.Op != token.REM || a.Lin(rem.Y).key() != st.key() || a.Lin(rem.X).key() != bl.key() {
				continue
			}
			r := a.Lin(rem)
			if p.Entails(Scale(r, -1)) && p.Entails(r) {
				delete(a.provers, s)
				s.AddFact(Add(Add(bl, a.Lin(xv), -1), st, -1))
				return
			}
		}
	}
}

// ---------------------------------------------------------------------------
// edges, phis, joins

func (a *FuncAn) stale(at *Atom, b *ssa.BasicBlock, phiAtoms map[*Atom]*Atom, memo map[*Atom]bool) bool {
	if v, ok := memo[at]; ok {
		return v
	}
	memo[at] = false
	r := false
	if _, isPhi := phiAtoms[at]; isPhi {
		r = false
	} else if d := a.atomDef[at]; d != nil && b.Dominates(d) {
		r = true
	}
	for _, dp := range a.atomDeps[at] {
		if _, isPhi := phiAtoms[dp]; isPhi || a.stale(dp, b, phiAtoms, memo) {
			r = true
		}
	}
	memo[at] = r
	return r
}

func renameLin(l Lin, m map[*Atom]*Atom) Lin {
	need := false
	for _, t := range l.t {
		if _, ok := m[t.a]; ok {
			need = true
			break
		}
	}
	if !need {
		return l
	}
	r := Konst(l.C)
	for _, t := range l.t {
		at := t.a
		if n, ok := m[at]; ok {
			at = n
		}
		r = Add(r, Lin{t: []term{{at, t.k}}}, 1)
	}
	return r
}

func mentions(l Lin, f func(*Atom) bool) bool {
	for _, t := range l.t {
		if f(t.a) {
			return true
		}
	}
	return false
}

func valueStale(v interface{}, b *ssa.BasicBlock) bool {
	if ins, ok := v.(ssa.Instruction); ok && ins.Block() != nil {
		return b.Dominates(ins.Block())
	}
	return false
}

// capChain asks for the capacity of v and, through phis, of the values it may come from, so that the capacity atoms
// exist before the dataflow runs (joins then relate them like lengths).
func (a *FuncAn) capChain(v ssa.Value, depth int) {
	if depth > 4 {
		return
	}
	a.CapOf(v)
	if phi, ok := a.cv(v).(*ssa.Phi); ok {
		for _, e := range phi.Edges {
			if a.cv(e) != ssa.Value(phi) {
				a.capChain(e, depth+1)
			}
		}
	}
}

// edgeState: the facts that hold when control enters b from its idx-th predecessor p.
func (a *FuncAn) edgeState(p, b *ssa.BasicBlock, idx int) *State {
	ps := a.out[p]
	if ps == nil {
		return nil
	}
	s := ps.Clone()
	if iff, ok := p.Instrs[len(p.Instrs)-1].(*ssa.If); ok && p.Succs[0] != p.Succs[1] {
		// a branch on a boolean constant (`if debug { … }` with debug a false constant) has one live arm
		if c, ok := iff.Cond.(*ssa.Const); ok && c.Value != nil && c.Value.Kind() == constant.Bool {
			if constant.BoolVal(c.Value) != (p.Succs[0] == b) {
				return nil
			}
		}
		a.condFacts(s, iff.Cond, p.Succs[0] == b)
		if s.Infeasible() {
			return nil
		}
	}
	// phis of b
	type phiRec struct {
		at *Atom
		e  Lin
	}
	var phis []phiRec
	var ptrPhis []*ssa.Phi
	for _, ins := range b.Instrs {
		phi, ok := ins.(*ssa.Phi)
		if !ok {
			break
		}
		if _, _, isInt := a.E.intInfo(phi.Type()); isInt {
			l := a.Lin(phi)
			if len(l.t) == 1 && l.C == 0 {
				phis = append(phis, phiRec{l.t[0].a, a.Lin(phi.Edges[idx])})
			}
		} else if isSeq(phi.Type()) {
			l := a.LenOf(phi)
			if len(l.t) == 1 && l.C == 0 {
				phis = append(phis, phiRec{l.t[0].a, a.LenOf(phi.Edges[idx])})
			}
			// the capacity of a slice phi, when some slice expression or cap() asks for it
			if cl, ok := a.capMemo[a.cv(phi)]; ok && len(cl.t) == 1 && cl.C == 0 {
				phis = append(phis, phiRec{cl.t[0].a, a.CapOf(phi.Edges[idx])})
			}
			ptrPhis = append(ptrPhis, phi)
		} else {
			ptrPhis = append(ptrPhis, phi)
		}
	}
	for _, mp := range a.memPhis[b] {
		if idx >= len(mp.reps) || mp.reps[idx] == nil {
			continue
		}
		if l := a.LenOf(mp.load); len(l.t) == 1 && l.C == 0 && l.t[0].k == 1 {
			phis = append(phis, phiRec{l.t[0].a, a.LenOf(mp.reps[idx])})
		}
		if cl, ok := a.capMemo[a.cv(mp.load)]; ok && len(cl.t) == 1 && cl.C == 0 && cl.t[0].k == 1 {
			phis = append(phis, phiRec{cl.t[0].a, a.CapOf(mp.reps[idx])})
		}
	}
	if len(phis) == 0 && len(ptrPhis) == 0 {
		return s
	}
	// non-nil transfer (evaluated in the predecessor's state, before stale values are dropped)
	nn := map[*ssa.Phi]bool{}
	for _, phi := range ptrPhis {
		nn[phi] = a.isNonNil(s, phi.Edges[idx])
	}
	for v := range s.nonnil {
		if valueStale(v, b) {
			delete(s.nonnil, v)
		}
	}
	for v := range s.truth {
		if valueStale(v, b) {
			delete(s.truth, v)
		}
	}
	for phi, ok := range nn {
		if ok {
			s.nonnil[phi] = true
		}
	}
	for k, pv := range s.nnPath {
		p := pv.(*apath)
		drop := valueStale(p.root, b)
		for _, st := range p.steps {
			if strings.HasPrefix(st.key, "[v:") {
				drop = true
			}
		}
		if drop {
			delete(s.nnPath, k)
		}
	}
	if len(phis) == 0 {
		return s
	}
	old := map[*Atom]*Atom{}
	for _, ph := range phis {
		tmp := a.atom(fmt.Sprintf("old:%d", ph.at.ID), ph.at.Name+"°", ph.at.NonNeg)
		old[ph.at] = tmp
	}
	memo := map[*Atom]bool{}
	isElim := func(at *Atom) bool {
		for _, o := range old {
			if o == at {
				return true
			}
		}
		return a.stale(at, b, old, memo)
	}
	// pool: state facts, lemmas and fired conditional lemmas of the predecessor state, old phis renamed
	pool := a.proverFor(s).facts
	var W []Lin    // facts that mention a new phi value
	var keep []Lin // state facts without eliminated atoms
	var side []Lin // everything else that mentions an eliminated atom (usable in combinations)
	nstate := len(s.facts)
	sf := s.sortedFacts()
	for i, f := range pool {
		rf := renameLin(f, old)
		if mentions(rf, isElim) {
			side = append(side, rf)
		} else if i < nstate {
			keep = append(keep, rf)
		}
	}
	_ = sf
	for _, ph := range phis {
		e := renameLin(ph.e, old)
		eq := Add(AtomLin(ph.at), e, -1)
		W = append(W, eq, Scale(eq, -1))
	}
	// eliminate old/stale atoms from W by pairwise combination (restricted Fourier–Motzkin)
	elimSeen := map[*Atom]bool{}
	for round := 0; round < 12; round++ {
		var t *Atom
		for _, f := range W {
			for _, tm := range f.t {
				if isElim(tm.a) && !elimSeen[tm.a] {
					if t == nil || tm.a.ID > t.ID {
						t = tm.a
					}
				}
			}
		}
		if t == nil {
			break
		}
		elimSeen[t] = true
		var nw []Lin
		for _, f := range W {
			c := f.Coef(t)
			if c == 0 {
				nw = append(nw, f)
				continue
			}
			for _, g := range append(append([]Lin(nil), W...), side...) {
				d := g.Coef(t)
				if d == 0 || (d < 0) == (c < 0) {
					continue
				}
				ca, da := c, d
				if ca < 0 {
					ca = -ca
				}
				if da < 0 {
					da = -da
				}
				gc := gcd(ca, da)
				r := Add(Scale(f, da/gc), g, ca/gc)
				if len(r.t) > 0 && len(r.t) <= 6 && len(nw) < 300 {
					nw = append(nw, r)
				}
			}
		}
		W = nw
	}
	ns := NewState()
	for _, f := range keep {
		ns.AddFact(f)
	}
	for _, f := range W {
		if !mentions(f, isElim) {
			ns.AddFact(f)
		}
	}
	for k, l := range s.neq {
		if !mentions(l, func(at *Atom) bool { _, isPhi := old[at]; return isPhi || isElim(at) }) {
			ns.neq[k] = l
		}
	}
	ns.nonnil = s.nonnil
	ns.truth = s.truth
	for k := range ns.truth {
		if _, isStr := k.(string); isStr {
			delete(ns.truth, k)
		}
	}
	ns.nnPath = s.nnPath
	return ns
}

func isSeq(t types.Type) bool {
	switch u := t.Underlying().(type) {
	case *types.Slice:
		return true
	case *types.Basic:
		return u.Info()&types.IsString != 0
	}
	return false
}

// join keeps every fact of one side that the other side entails (same linear part: the weaker constant).
func (a *FuncAn) join(A, B *State) *State {
	if A == nil {
		return B
	}
	if B == nil {
		return A
	}
	r := NewState()
	pa, pb := a.proverFor(A), a.proverFor(B)
	for k, f := range A.facts {
		if g, ok := B.facts[k]; ok {
			if g.C > f.C {
				r.facts[k] = g
			} else {
				r.facts[k] = f
			}
			continue
		}
		if pb.Entails(f) {
			r.facts[k] = f
		}
	}
	for k, g := range B.facts {
		if _, ok := A.facts[k]; ok {
			continue
		}
		if pa.Entails(g) {
			r.facts[k] = g
		}
	}
	for k, l := range A.neq {
		if _, ok := B.neq[k]; ok {
			r.neq[k] = l
		}
	}
	for v := range A.nonnil {
		if B.nonnil[v] {
			r.nonnil[v] = true
		}
	}
	for v, t := range A.truth {
		if u, ok := B.truth[v]; ok && u == t {
			r.truth[v] = t
		}
	}
	for k, p := range A.nnPath {
		if _, ok := B.nnPath[k]; ok {
			r.nnPath[k] = p
		}
	}
	a.joinCFacts(r, A, B)
	if dbg := os.Getenv("LW_CFDEBUG"); dbg != "" && strings.Contains(a.Fn.String(), dbg) {
		fmt.Fprintf(os.Stderr, "JOIN in %s: A.truth=%d B.truth=%d A.nonnil=%d B.nonnil=%d A.nnPath=%d B.nnPath=%d -> cfacts=%d\n", a.Fn.Name(), len(A.truth), len(B.truth), len(A.nonnil), len(B.nonnil), len(A.nnPath), len(B.nnPath), len(r.cfacts))
		for k, v := range A.truth {
			fmt.Fprintf(os.Stderr, "   A.truth %s=%v\n", keyString(k), v)
		}
		for k, v := range B.truth {
			fmt.Fprintf(os.Stderr, "   B.truth %s=%v\n", keyString(k), v)
		}
		for _, c := range r.cfacts {
			fmt.Fprintf(os.Stderr, "   cfact %s\n", c.id())
		}
	}
	return r
}

func (a *FuncAn) run() {
	fn := a.Fn
	// reverse post-order
	seen := map[*ssa.BasicBlock]bool{}
	var post []*ssa.BasicBlock
	var dfs func(b *ssa.BasicBlock)
	dfs = func(b *ssa.BasicBlock) {
		seen[b] = true
		for _, s := range b.Succs {
			if !seen[s] {
				dfs(s)
			}
		}
		post = append(post, b)
	}
	dfs(fn.Blocks[0])
	for i := len(post) - 1; i >= 0; i-- {
		a.rpo = append(a.rpo, post[i])
	}
	a.computeCanon()
	a.purify()
	a.postLemmas()
	// pre-evaluate every integer / sequence value so that lemmas do not depend on query order
	for _, b := range a.rpo {
		for _, ins := range b.Instrs {
			v, ok := ins.(ssa.Value)
			if !ok {
				continue
			}
			if _, _, isInt := a.E.intInfo(v.Type()); isInt {
				a.Lin(v)
			} else if isSeq(v.Type()) {
				a.LenOf(v)
			}
			// capacities are tracked only for the slices that are re-sliced (their upper limit is the capacity)
			if sl, ok := ins.(*ssa.Slice); ok {
				if _, isSl := sl.X.Type().Underlying().(*types.Slice); isSl {
					a.capChain(sl.X, 0)
				}
			}
		}
	}
	a.crossLemmas()

	entry := a.entry
	if entry == nil {
		entry = NewState()
	}
	a.in[fn.Blocks[0]] = entry
	a.out[fn.Blocks[0]] = a.transfer(fn.Blocks[0], entry, nil)
	visits := map[*ssa.BasicBlock]int{}
	isHead := map[*ssa.BasicBlock]bool{}
	for _, b := range fn.Blocks {
		for _, h := range b.Succs {
			if h.Dominates(b) {
				isHead[h] = true
			}
		}
	}
	for pass := 0; pass < 80; pass++ {
		changed := false
		for _, b := range a.rpo[1:] {
			var s *State
			var edges []*State
			for i, p := range b.Preds {
				es := a.edgeState(p, b, i)
				if es == nil {
					continue
				}
				edges = append(edges, es)
				s = a.join(s, es)
			}
			if s != nil && isHead[b] {
				a.relationalCandidates(b, s, edges)
			}
			old := a.in[b]
			if s == nil {
				if old != nil {
					a.in[b] = nil
					a.out[b] = nil
					changed = true
				}
				continue
			}
			if old != nil && isHead[b] {
				visits[b]++
				if visits[b] > 3 {
					// widening: drop facts whose constant keeps weakening, and anything new
					for k, f := range s.facts {
						if o, ok := old.facts[k]; !ok || o.C != f.C {
							delete(s.facts, k)
						}
					}
				}
			}
			if old == nil || !old.equal(s) {
				a.in[b] = s
				a.out[b] = a.transfer(b, s, nil)
				changed = true
			}
		}
		if !changed {
			a.Converged = true
			return
		}
	}
}

// crossLemmas: product/quotient interplay.  P = A*B, Q = N/B:  A+1 <= Q, B >= 1, N >= 0  =>  P + B <= N.
func (a *FuncAn) crossLemmas() {
	same := func(x, y Lin) bool { return x.key() == y.key() && x.C == y.C }
	for _, p := range a.prods {
		for _, q := range a.quos {
			for _, pair := range [][2]Lin{{p.X, p.Y}, {p.Y, p.X}} {
				other, div := pair[0], pair[1]
				if !same(div, q.Y) {
					continue
				}
				P, Q, N := AtomLin(p.at), AtomLin(q.at), q.X
				a.conds = append(a.conds, condLemma{
					pre:  []Lin{Add(Q, other, -1).plus(-1), div.plus(-1), N},
					post: []Lin{Add(Add(N, P, -1), div, -1)},
					why:  "i < n/k and k >= 1 imply (i+1)*k <= n",
				})
				a.conds = append(a.conds, condLemma{
					pre:  []Lin{Add(Q, other, -1), div.plus(-1), N},
					post: []Lin{Add(N, P, -1)},
					why:  "i <= n/k and k >= 1 imply i*k <= n",
				})
			}
		}
	}
}

// ---------------------------------------------------------------------------
// nil-ness

func (a *FuncAn) isNonNil(s *State, v ssa.Value) bool {
	v = a.cv(v)
	if s != nil && s.nonnil[v] {
		return true
	}
	switch x := v.(type) {
	case *ssa.Alloc, *ssa.MakeInterface, *ssa.MakeSlice, *ssa.MakeMap, *ssa.MakeChan, *ssa.MakeClosure,
		*ssa.Function, *ssa.Global, *ssa.FieldAddr, *ssa.IndexAddr:
		return true
	case *ssa.Slice:
		if _, ok := x.X.Type().Underlying().(*types.Pointer); ok {
			return true
		}
	case *ssa.Const:
		return x.Value != nil
	case *ssa.Parameter:
		return a.E.paramNonNil(a.Fn, x)
	case *ssa.ChangeInterface:
		return a.isNonNil(s, x.X)
	case *ssa.Convert:
		return a.isNonNil(s, x.X)
	case *ssa.TypeAssert:
		if !x.CommaOk {
			return true // A2
		}
	case *ssa.Call:
		return a.E.resultNonNil(a, x, 0)
	case *ssa.Extract:
		if c, ok := x.Tuple.(*ssa.Call); ok {
			return a.E.resultNonNil(a, c, x.Index)
		}
		return a.registryValueNonNil(s, x)
	case *ssa.UnOp:
		if g, ok := x.X.(*ssa.Global); ok && x.Op == token.MUL && a.E.initOnlyWholeNonNil(g) {
			return true
		}
		return a.registryValueNonNil(s, x) || a.onceLoadNonNil(x) || a.initTableNonNil(x)
	case *ssa.Phi:
		// all edges statically non-nil
		for _, e := range x.Edges {
			switch e.(type) {
			case *ssa.Alloc, *ssa.MakeInterface, *ssa.FieldAddr, *ssa.IndexAddr, *ssa.Global, *ssa.MakeSlice:
			default:
				return false
			}
		}
		return true
	}
	return false
}

// transfer applies the in-block effects that concern memory-held nil-ness: stores of non-nil values make a
// location non-nil until something may overwrite it; a load from such a location yields a non-nil value.
// If stop is non-nil the replay ends before that instruction.
func (a *FuncAn) transfer(b *ssa.BasicBlock, in *State, stop ssa.Instruction) *State {
	s := in
	cloned := false
	mut := func() {
		if !cloned {
			s = s.Clone()
			cloned = true
		}
	}
	kill := func(f func(p *apath) bool) {
		for k, pv := range s.nnPath {
			if f(pv.(*apath)) {
				mut()
				delete(s.nnPath, k)
			}
		}
		for i := 0; i < len(s.cfacts); i++ {
			if cp := s.cfacts[i].path; cp != nil && f(cp) {
				mut()
				s.cfacts = append(append([]cfact(nil), s.cfacts[:i]...), s.cfacts[i+1:]...)
				i--
			}
		}
	}
	for _, ins := range b.Instrs {
		if ins == stop {
			break
		}
		switch x := ins.(type) {
		case *ssa.Alloc:
			kill(func(p *apath) bool { return p.root == ssa.Value(x) })
		case *ssa.Store:
			w := a.pathOf(x.Addr)
			if w == nil {
				kill(func(*apath) bool { return true })
				continue
			}
			kill(func(p *apath) bool { return a.mayAlias(p, w) })
			if pointerLike(x.Val.Type()) && a.isNonNil(s, x.Val) {
				mut()
				s.nnPath[w.key()] = w
			}
		case *ssa.UnOp:
			if x.Op == token.MUL && pointerLike(x.Type()) {
				if p := a.pathOf(x.X); p != nil {
					if _, ok := s.nnPath[p.key()]; ok && !s.nonnil[x] {
						mut()
						s.nonnil[x] = true
					}
				}
			}
		case ssa.CallInstruction:
			hasPath := len(s.nnPath) > 0
			for _, cf := range s.cfacts {
				if cf.path != nil {
					hasPath = true
				}
			}
			if hasPath {
				ws := a.E.callWrites(a, x)
				kill(func(p *apath) bool {
					m := availMap{"x": availEnt{p: p, rep: nil}}
					a.killByCall(m, ws)
					return len(m) == 0
				})
			}
		case *ssa.RunDefers:
			kill(func(p *apath) bool {
				al, ok := p.root.(*ssa.Alloc)
				return !ok || a.escapes(al)
			})
		}
	}
	return s
}

// stateBefore: the facts that hold immediately before instruction ins.
func (a *FuncAn) stateBefore(ins ssa.Instruction) *State {
	in := a.in[ins.Block()]
	if in == nil {
		return nil
	}
	return a.transfer(ins.Block(), in, ins)
}
