package guards

import (
	"fmt"
	"go/constant"
	"go/token"
	"go/types"

	"golang.org/x/tools/go/ssa"
)

// Paired-count lemma (DESIGN §3 C09, McGroupStatusAns): a callee whose result is  c0 + c1 * (number of true
// elements of a fixed-size bool array reached from a parameter)  is called after a loop of the caller that
// stores `true` into distinct elements of that very array and increments a counter once per store. Then
//     result >= c0 + c1 * counter     (c1 >= 0)
// because every counted index holds true when the callee counts.

// CountSummary: result = C0 + C1 * |{i < N : param.proj[i]}|.
type CountSummary struct {
	Param  int
	Proj   []int
	N      int64
	C0, C1 int64
}

// countingLoop: the shape shared by callee and caller.
type countingLoop struct {
	head   *ssa.BasicBlock
	cnt    *ssa.Phi  // counter: 0, +1 on exactly one edge
	idx    ssa.Value // range index value (k+1) used inside the body
	n      int64     // constant trip bound
	incBB  *ssa.BasicBlock
	blocks map[*ssa.BasicBlock]bool
}

func findCountingLoops(fn *ssa.Function) []countingLoop {
	var out []countingLoop
	for _, l := range findLoops(fn) {
		var cnt, k *ssa.Phi
		var idx ssa.Value
		var incBB *ssa.BasicBlock
		ok := true
		for _, ins := range l.head.Instrs {
			phi, isPhi := ins.(*ssa.Phi)
			if !isPhi {
				break
			}
			bt, isB := phi.Type().Underlying().(*types.Basic)
			if !isB || bt.Info()&types.IsInteger == 0 {
				continue
			}
			// classify by the constant entry value
			var init *int64
			for _, e := range phi.Edges {
				if c, isC := ConstInt(e); isC {
					v := c
					init = &v
				}
			}
			if init == nil {
				continue
			}
			switch *init {
			case -1: // range index: every other edge is phi+1 (one value)
				var step ssa.Value
				good := true
				for _, e := range phi.Edges {
					if _, isC := ConstInt(e); isC {
						continue
					}
					bo, isBo := e.(*ssa.BinOp)
					if !isBo || bo.Op != token.ADD || bo.X != ssa.Value(phi) {
						good = false
						break
					}
					if c, isC := ConstInt(bo.Y); !isC || c != 1 {
						good = false
						break
					}
					if step != nil && step != e {
						good = false
					}
					step = e
				}
				if good && step != nil {
					k, idx = phi, step
				}
			case 0: // counter: other edges are phi itself or phi+1 (exactly one increment value)
				var inc ssa.Value
				good := true
				for i, e := range phi.Edges {
					if _, isC := ConstInt(e); isC || e == ssa.Value(phi) {
						continue
					}
					bo, isBo := e.(*ssa.BinOp)
					if !isBo || bo.Op != token.ADD || bo.X != ssa.Value(phi) {
						good = false
						break
					}
					if c, isC := ConstInt(bo.Y); !isC || c != 1 {
						good = false
						break
					}
					if inc != nil {
						good = false
					}
					inc = e
					incBB = l.head.Preds[i]
					if bo.Block() != incBB {
						good = false
					}
				}
				if good && inc != nil && cnt == nil {
					cnt = phi
				}
			}
		}
		if cnt == nil || k == nil || incBB == nil {
			continue
		}
		// loop test: idx < N (constant) in the header
		iff, isIf := l.head.Instrs[len(l.head.Instrs)-1].(*ssa.If)
		if !isIf {
			continue
		}
		cmp, isCmp := iff.Cond.(*ssa.BinOp)
		if !isCmp || cmp.Op != token.LSS || cmp.X != idx {
			continue
		}
		n, isC := ConstInt(cmp.Y)
		if !isC || n <= 0 || n > 64 {
			continue
		}
		// the increment block is not inside a nested loop (it runs at most once per iteration)
		nested := false
		for _, o := range findLoops(fn) {
			if o.head != l.head && l.blocks[o.head] && o.blocks[incBB] {
				nested = true
			}
		}
		if nested || !ok {
			continue
		}
		out = append(out, countingLoop{head: l.head, cnt: cnt, idx: idx, n: n, incBB: incBB, blocks: l.blocks})
	}
	return out
}

// CountSummaryOf recognises the callee shape.
func (e *Engine) CountSummaryOf(f *ssa.Function) *CountSummary {
	if s, ok := e.countSums[f]; ok {
		return s
	}
	e.countSums[f] = nil
	if f.Blocks == nil || !e.InModule(f) || f.Signature.Results().Len() != 1 {
		return nil
	}
	loops := findCountingLoops(f)
	if len(loops) != 1 || len(findLoops(f)) != 1 {
		return nil
	}
	cl := loops[0]
	// no stores / calls anywhere except the spill of value parameters
	for _, b := range f.Blocks {
		for _, ins := range b.Instrs {
			switch x := ins.(type) {
			case *ssa.Store:
				if _, isAlloc := x.Addr.(*ssa.Alloc); !isAlloc {
					return nil
				}
				if _, isParam := x.Val.(*ssa.Parameter); !isParam {
					return nil
				}
			case ssa.CallInstruction:
				return nil
			}
		}
	}
	// the increment block is entered exactly when array[idx] is true
	if len(cl.incBB.Preds) != 1 {
		return nil
	}
	d := cl.incBB.Preds[0]
	iff, ok := d.Instrs[len(d.Instrs)-1].(*ssa.If)
	if !ok || d.Succs[0] != cl.incBB {
		return nil
	}
	var arr ssa.Value
	switch x := iff.Cond.(type) {
	case *ssa.Index:
		if x.Index != cl.idx {
			return nil
		}
		arr = x.X
	case *ssa.UnOp:
		ia, ok := x.X.(*ssa.IndexAddr)
		if x.Op != token.MUL || !ok || ia.Index != cl.idx {
			return nil
		}
		arr = ia.X
	default:
		return nil
	}
	if len(d.Preds) != 1 || d.Preds[0] != cl.head {
		return nil // the element test is the first thing in the body
	}
	at, ok := arrayOf(arr.Type())
	if !ok || at.Len() != cl.n {
		return nil
	}
	if b, ok := at.Elem().Underlying().(*types.Basic); !ok || b.Kind() != types.Bool {
		return nil
	}
	param, proj, ok := paramProjection(f, arr)
	if !ok {
		return nil
	}
	// result = c0 + c1*cnt
	a := e.Analyze(f)
	if a == nil {
		return nil
	}
	var ret *ssa.Return
	for _, b := range f.Blocks {
		if r, ok := b.Instrs[len(b.Instrs)-1].(*ssa.Return); ok {
			if ret != nil {
				return nil
			}
			ret = r
		}
	}
	if ret == nil {
		return nil
	}
	rl := a.Lin(ret.Results[0])
	cl0 := a.Lin(cl.cnt)
	if len(rl.t) != 1 || len(cl0.t) != 1 || rl.t[0].a != cl0.t[0].a || rl.t[0].k < 0 {
		return nil
	}
	s := &CountSummary{Param: param, Proj: proj, N: cl.n, C0: rl.C, C1: rl.t[0].k}
	e.countSums[f] = s
	return s
}

func arrayOf(t types.Type) (*types.Array, bool) {
	if p, ok := t.Underlying().(*types.Pointer); ok {
		t = p.Elem()
	}
	a, ok := t.Underlying().(*types.Array)
	return a, ok
}

// paramProjection: v (an array value or pointer to it) is parameter i projected through fields.
func paramProjection(f *ssa.Function, v ssa.Value) (int, []int, bool) {
	var proj []int
	for depth := 0; depth < 12; depth++ {
		switch x := v.(type) {
		case *ssa.UnOp:
			if x.Op != token.MUL {
				return 0, nil, false
			}
			v = x.X
		case *ssa.FieldAddr:
			proj = append([]int{x.Field}, proj...)
			v = x.X
		case *ssa.Field:
			proj = append([]int{x.Field}, proj...)
			v = x.X
		case *ssa.Alloc:
			// spilled value parameter: exactly one whole store of a parameter
			var src ssa.Value
			n := 0
			for _, r := range *x.Referrers() {
				if st, ok := r.(*ssa.Store); ok && st.Addr == ssa.Value(x) {
					src = st.Val
					n++
				}
			}
			if n != 1 {
				return 0, nil, false
			}
			v = src
		case *ssa.Parameter:
			for i, p := range f.Params {
				if p == x {
					return i, proj, true
				}
			}
			return 0, nil, false
		default:
			return 0, nil, false
		}
	}
	return 0, nil, false
}

// countLemma: at call `call` (result atom r) of a callee with a CountSummary, look for the caller's pairing loop.
func (a *FuncAn) countLemma(call *ssa.Call, r Lin) {
	callee := call.Call.StaticCallee()
	if callee == nil {
		return
	}
	cs := a.E.CountSummaryOf(callee)
	if cs == nil || cs.C1 < 0 {
		return
	}
	args := a.callArgs(call)
	if cs.Param >= len(args) {
		return
	}
	// the memory location of the array the callee counts: the argument is a load of a struct (value receiver)
	// or a pointer
	var base *apath
	arg := args[cs.Param]
	if ld, ok := arg.(*ssa.UnOp); ok && ld.Op == token.MUL {
		base = a.pathOf(ld.X)
		// nothing may write between the load and the call (same block, adjacent in practice)
		if ld.Block() != call.Block() {
			return
		}
		between := false
		for _, ins := range ld.Block().Instrs {
			if ins == ssa.Instruction(ld) {
				between = true
				continue
			}
			if ins == ssa.Instruction(call) {
				break
			}
			if between {
				switch ins.(type) {
				case *ssa.Store, ssa.CallInstruction, *ssa.MapUpdate:
					return
				}
			}
		}
	} else if _, isPtr := arg.Type().Underlying().(*types.Pointer); isPtr {
		base = a.pathOf(arg)
	}
	if base == nil {
		return
	}
	want := base.key()
	for _, f := range cs.Proj {
		want += fmt.Sprintf(".%d", f)
	}
	for _, cl := range findCountingLoops(a.Fn) {
		if cl.n > cs.N {
			continue
		}
		// the loop is finished when the call runs
		if cl.blocks[call.Block()] || !cl.head.Dominates(call.Block()) {
			continue
		}
		// the increment block stores true into array[idx]
		var arrPath *apath
		okStore := false
		for _, ins := range cl.incBB.Instrs {
			st, ok := ins.(*ssa.Store)
			if !ok {
				continue
			}
			ia, ok := st.Addr.(*ssa.IndexAddr)
			if !ok || ia.Index != cl.idx {
				continue
			}
			k, isC := st.Val.(*ssa.Const)
			if !isC || k.Value == nil || k.Value.Kind() != constant.Bool || !constant.BoolVal(k.Value) {
				continue
			}
			p := a.pathOf(ia.X)
			if p != nil && p.key() == want {
				arrPath = p
				okStore = true
			}
		}
		if !okStore {
			continue
		}
		// between the loop head and the call nothing else may change the array: every store that may alias it
		// is a `true` element store, no call may write it
		clean := true
		for _, b := range a.Fn.Blocks {
			if !cl.head.Dominates(b) || !reaches(b, call.Block()) {
				continue
			}
			for _, ins := range b.Instrs {
				if ins == ssa.Instruction(call) {
					break
				}
				switch x := ins.(type) {
				case *ssa.Store:
					w := a.pathOf(x.Addr)
					if w == nil {
						clean = false
						continue
					}
					if !a.mayAlias(arrPath, w) && !a.mayAliasElem(arrPath, w) {
						continue
					}
					k, isC := x.Val.(*ssa.Const)
					if !(isC && k.Value != nil && k.Value.Kind() == constant.Bool && constant.BoolVal(k.Value)) {
						clean = false
					}
				case ssa.CallInstruction:
					if x == ssa.CallInstruction(call) {
						continue
					}
					m := availMap{"x": availEnt{p: arrPath}}
					a.killByCall(m, a.E.callWrites(a, x))
					if len(m) == 0 {
						clean = false
					}
				}
			}
		}
		if !clean {
			continue
		}
		// result >= C0 + C1*counter
		g := Add(r, a.Lin(cl.cnt), -cs.C1).plus(-cs.C0)
		a.lemma(g)
		a.CountNotes = append(a.CountNotes, fmt.Sprintf("paired-count lemma: %s >= %d + %d*%s", r.String(), cs.C0, cs.C1, a.Lin(cl.cnt).String()))
		return
	}
}

// mayAliasElem: w designates an element (or sub-location) of the array at p, or the array itself.
func (a *FuncAn) mayAliasElem(p, w *apath) bool {
	if p.root != w.root {
		return typesOverlap(p.typ, w.typ)
	}
	// same root: w extends p or p extends w
	n := len(p.steps)
	if len(w.steps) < n {
		n = len(w.steps)
	}
	for i := 0; i < n; i++ {
		if p.steps[i].key != w.steps[i].key {
			return false
		}
	}
	return true
}

// reaches: there is a path from b to target (including b == target).
func reaches(b, target *ssa.BasicBlock) bool {
	seen := map[*ssa.BasicBlock]bool{}
	work := []*ssa.BasicBlock{b}
	for len(work) > 0 {
		x := work[len(work)-1]
		work = work[:len(work)-1]
		if x == target {
			return true
		}
		if seen[x] {
			continue
		}
		seen[x] = true
		work = append(work, x.Succs...)
	}
	return false
}
