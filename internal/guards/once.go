package guards

import (
	"go/token"
	"go/types"

	"golang.org/x/tools/go/ssa"
)

// Lazily initialised package-level variables (the sync.Once idiom):
//
//	var once sync.Once; var table *T
//	func get() *T { once.Do(func() { …; table = t }); return table }
//
// onceInit decides, for a package-level variable g, that (i) every store to g outside package initialisation sits in a
// function literal that is passed directly to Do of ONE package-level sync.Once o, (ii) every Do call on o in the module
// passes such a literal, (iii) in each literal a store of a provably non-nil value to g dominates every return. Then g is
// non-nil wherever a call o.Do(…) has returned: the first Do ever to run has run one of the literals to completion (a
// literal that panics is a failed panic obligation of its own — the literals are reachable functions of the analysis),
// and sync.Once orders that completion before every return of Do.
type onceInfo struct {
	once *ssa.Global
}

func (e *Engine) onceInit(g *ssa.Global) *onceInfo {
	if e.onceMemo == nil {
		e.onceMemo = map[*ssa.Global]*onceInfo{}
		e.onceDone = map[*ssa.Global]bool{}
	}
	if e.onceDone[g] {
		return e.onceMemo[g]
	}
	e.onceDone[g] = true
	var once *ssa.Global
	lits := map[*ssa.Function]bool{}
	// (i) the stores
	nStores := 0
	for _, f := range e.moduleFuncs {
		if f.Blocks == nil || isPkgInit(f) {
			continue
		}
		for _, b := range f.Blocks {
			for _, ins := range b.Instrs {
				st, ok := ins.(*ssa.Store)
				if !ok || st.Addr != ssa.Value(g) {
					continue
				}
				nStores++
				o := onceOfLiteral(f)
				if o == nil || (once != nil && o != once) {
					return nil
				}
				once = o
				lits[f] = true
			}
		}
	}
	if once == nil || nStores == 0 {
		return nil
	}
	// (ii) every Do on that Once passes one of the literals; (iii) each literal stores non-nil on every return path
	for _, f := range e.moduleFuncs {
		for _, b := range f.Blocks {
			for _, ins := range b.Instrs {
				c, ok := ins.(*ssa.Call)
				if !ok || !isOnceDo(c) || c.Call.Args[0] != ssa.Value(once) {
					continue
				}
				lit := literalArg(c.Call.Args[1])
				if lit == nil || !lits[lit] {
					return nil
				}
			}
		}
	}
	for lit := range lits {
		la := e.Analyze(lit)
		if la == nil || !la.Converged {
			return nil
		}
		var good []*ssa.Store
		for _, b := range lit.Blocks {
			for _, ins := range b.Instrs {
				if st, ok := ins.(*ssa.Store); ok && st.Addr == ssa.Value(g) && la.NonNilAt(st, st.Val) {
					good = append(good, st)
				}
			}
		}
		for _, b := range lit.Blocks {
			if _, isRet := b.Instrs[len(b.Instrs)-1].(*ssa.Return); !isRet {
				continue
			}
			covered := false
			for _, st := range good {
				if st.Block().Dominates(b) && lastStoreTo(g, st, b) {
					covered = true
				}
			}
			if !covered {
				return nil
			}
		}
	}
	oi := &onceInfo{once: once}
	e.onceMemo[g] = oi
	return oi
}

// lastStoreTo: no other store to g can execute between st and the end of block b (conservative: st is the only store
// to g in the literal, or every other store also stores a non-nil value — checked by the caller through `good`; here
// only stores of possibly-nil values matter).
func lastStoreTo(g *ssa.Global, st *ssa.Store, b *ssa.BasicBlock) bool {
	for _, bb := range st.Parent().Blocks {
		for _, ins := range bb.Instrs {
			if o, ok := ins.(*ssa.Store); ok && o.Addr == ssa.Value(g) && o != st {
				if c, isC := o.Val.(*ssa.Const); isC && c.Value == nil {
					return false
				}
			}
		}
	}
	return true
}

func isPkgInit(f *ssa.Function) bool {
	return f.Name() == "init" && f.Signature.Recv() == nil && f.Parent() == nil && f.Synthetic != ""
}

func isOnceDo(c *ssa.Call) bool {
	callee := c.Call.StaticCallee()
	return callee != nil && !c.Call.IsInvoke() && callee.String() == "(*sync.Once).Do" && len(c.Call.Args) == 2
}

func literalArg(v ssa.Value) *ssa.Function {
	switch x := v.(type) {
	case *ssa.MakeClosure:
		f, _ := x.Fn.(*ssa.Function)
		return f
	case *ssa.Function:
		return x
	}
	return nil
}

// onceOfLiteral: lit is used only as the argument of Do calls on one package-level Once; that Once.
func onceOfLiteral(lit *ssa.Function) *ssa.Global {
	if lit.Parent() == nil {
		return nil
	}
	var once *ssa.Global
	n := 0
	for _, b := range lit.Parent().Blocks {
		for _, ins := range b.Instrs {
			c, ok := ins.(*ssa.Call)
			if !ok || !isOnceDo(c) || literalArg(c.Call.Args[1]) != lit {
				continue
			}
			g, ok := c.Call.Args[0].(*ssa.Global)
			if !ok || (once != nil && g != once) {
				return nil
			}
			once = g
			n++
		}
	}
	if n == 0 {
		return nil
	}
	// the literal must not be used in any other way (stored, called directly, passed elsewhere)
	for _, b := range lit.Parent().Blocks {
		for _, ins := range b.Instrs {
			for _, op := range ins.Operands(nil) {
				if op == nil || *op == nil {
					continue
				}
				if literalArg(*op) == lit {
					if mc, isMC := ins.(*ssa.MakeClosure); isMC && mc.Fn == ssa.Value(lit) {
						continue // the closure construction itself
					}
					c, ok := ins.(*ssa.Call)
					if !ok || !isOnceDo(c) {
						return nil
					}
				}
			}
		}
	}
	return once
}

// onceLoadNonNil: v is a load of a once-initialised package-level variable that is dominated by a Do call on its Once.
func (a *FuncAn) onceLoadNonNil(v ssa.Value) bool {
	ld, ok := v.(*ssa.UnOp)
	if !ok || ld.Op != token.MUL {
		return false
	}
	g, ok := ld.X.(*ssa.Global)
	if !ok {
		return false
	}
	oi := a.E.onceInit(g)
	if oi == nil {
		return false
	}
	for _, b := range a.Fn.Blocks {
		for i, ins := range b.Instrs {
			c, ok := ins.(*ssa.Call)
			if !ok || !isOnceDo(c) || c.Call.Args[0] != ssa.Value(oi.once) {
				continue
			}
			if b == ld.Block() {
				for j, x := range b.Instrs {
					if x == ssa.Instruction(ld) && j > i {
						return true
					}
				}
				continue
			}
			if b.Dominates(ld.Block()) {
				return true
			}
		}
	}
	return false
}

// poolAssertOK: x is `pool.Get().(T)` on a package-level sync.Pool whose every object has dynamic type T: the New
// function installed by the package initialiser returns a non-nil T on every path, and every Put in the module puts a
// T. (A pool without New hands out nil when empty: the assertion would panic.)
func (e *Engine) poolAssertOK(x *ssa.TypeAssert) bool {
	call, ok := x.X.(*ssa.Call)
	if !ok {
		return false
	}
	sc := call.Call.StaticCallee()
	if sc == nil || sc.String() != "(*sync.Pool).Get" || len(call.Call.Args) != 1 {
		return false
	}
	pool, ok := call.Call.Args[0].(*ssa.Global)
	if !ok {
		return false
	}
	isT := func(v ssa.Value) bool {
		mi, ok := v.(*ssa.MakeInterface)
		if !ok || !types.Identical(mi.X.Type(), x.AssertedType) {
			return false
		}
		switch mi.X.(type) {
		case *ssa.Alloc, *ssa.MakeSlice, *ssa.MakeMap:
			return true // a fresh, non-nil object
		}
		_, isPtr := mi.X.Type().Underlying().(*types.Pointer)
		return !isPtr // a non-pointer dynamic value is never a nil interface
	}
	var newFn *ssa.Function
	fns := append([]*ssa.Function(nil), e.moduleFuncs...)
	if pool.Pkg != nil {
		if init := pool.Pkg.Func("init"); init != nil {
			fns = append(fns, init)
		}
	}
	seen := map[*ssa.Function]bool{}
	for _, f := range fns {
		if seen[f] || f.Blocks == nil {
			continue
		}
		seen[f] = true
		for _, b := range f.Blocks {
			for _, ins := range b.Instrs {
				for _, op := range ins.Operands(nil) {
					if op == nil || *op != ssa.Value(pool) {
						continue
					}
					switch u := ins.(type) {
					case *ssa.FieldAddr:
						// only the initialiser may touch the fields, and only to install New
						if !isPkgInit(f) {
							return false
						}
						for _, r := range *u.Referrers() {
							st, ok := r.(*ssa.Store)
							if !ok || st.Addr != ssa.Value(u) {
								return false
							}
							fn := literalArg(st.Val)
							if mc, isMC := st.Val.(*ssa.MakeClosure); isMC && len(mc.Bindings) > 0 {
								return false
							}
							if fn == nil || newFn != nil {
								return false
							}
							newFn = fn
						}
					case *ssa.Call:
						c := u.Call.StaticCallee()
						if c == nil || u.Call.Args[0] != ssa.Value(pool) {
							return false
						}
						switch c.String() {
						case "(*sync.Pool).Get":
						case "(*sync.Pool).Put":
							if !isT(u.Call.Args[1]) && !putsPooled(u.Call.Args[1], pool, x.AssertedType) {
								return false
							}
						default:
							return false
						}
					case *ssa.Defer:
						c := u.Call.StaticCallee()
						if c == nil || c.String() != "(*sync.Pool).Put" || u.Call.Args[0] != ssa.Value(pool) {
							return false
						}
						if !isT(u.Call.Args[1]) && !putsPooled(u.Call.Args[1], pool, x.AssertedType) {
							return false
						}
					case *ssa.DebugRef:
					default:
						return false
					}
				}
			}
		}
	}
	if newFn == nil || newFn.Blocks == nil {
		return false
	}
	for _, b := range newFn.Blocks {
		if ret, ok := b.Instrs[len(b.Instrs)-1].(*ssa.Return); ok {
			if len(ret.Results) != 1 || !isT(ret.Results[0]) {
				return false
			}
		}
	}
	return true
}

// putsPooled: v is an interface made from a value that was itself asserted out of this pool with type T.
func putsPooled(v ssa.Value, pool *ssa.Global, T types.Type) bool {
	mi, ok := v.(*ssa.MakeInterface)
	if !ok || !types.Identical(mi.X.Type(), T) {
		return false
	}
	ta, ok := mi.X.(*ssa.TypeAssert)
	if !ok {
		return false
	}
	call, ok := ta.X.(*ssa.Call)
	if !ok {
		return false
	}
	sc := call.Call.StaticCallee()
	return sc != nil && sc.String() == "(*sync.Pool).Get" && len(call.Call.Args) == 1 && call.Call.Args[0] == ssa.Value(pool)
}

// initTableNonNil: v is a load of table[i].f… for a package-level array that only its initialiser writes and whose
// every element got a non-nil value there (a dispatch table of constructors indexed by a small enum).
func (a *FuncAn) initTableNonNil(v ssa.Value) bool {
	ld, ok := v.(*ssa.UnOp)
	if !ok || ld.Op != token.MUL {
		return false
	}
	var fields []int
	addr := ld.X
	for {
		fa, ok := addr.(*ssa.FieldAddr)
		if !ok {
			break
		}
		fields = append([]int{fa.Field}, fields...)
		addr = fa.X
	}
	ia, ok := addr.(*ssa.IndexAddr)
	if !ok {
		return false
	}
	g, ok := ia.X.(*ssa.Global)
	if !ok {
		return false
	}
	return a.E.initOnlyElemsNonNil(g, fields)
}
