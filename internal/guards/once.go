package guards

import (
	"go/token"

	"golang.org/x/tools/go/ssa"
)

// Lazily initialised package-level variables (the sync.Once idiom):
//
//	var once sync.Once; var table *T
//	func get() *T { once.Do(func() { …; table = t }); return table }
//
// onceInit decides, for a package-level variable g, that (i) every store to g outside package initialisation sits in a
// function literal that is passed directly to Do of ONE package-level sync.Once o, (ii) every Do call on o in the module
// passes such a literal, (iii) in each literal a store of a provably non-nil value to g dominates every return. Then g is
// non-nil wherever a call o.Do(…) has returned: the first Do ever to run has run one of the literals to completion (a
// literal that panics is a failed panic obligation of its own — the literals are reachable functions of the analysis),
// and sync.Once orders that completion before every return of Do.
type onceInfo struct {
	once *ssa.Global
}

func (e *Engine) onceInit(g *ssa.Global) *onceInfo {
	if e.onceMemo == nil {
		e.onceMemo = map[*ssa.Global]*onceInfo{}
		e.onceDone = map[*ssa.Global]bool{}
	}
	if e.onceDone[g] {
		return e.onceMemo[g]
	}
	e.onceDone[g] = true
	var once *ssa.Global
	lits := map[*ssa.Function]bool{}
	// (i) the stores
	nStores := 0
	for _, f := range e.moduleFuncs {
		if f.Blocks == nil || isPkgInit(f) {
			continue
		}
		for _, b := range f.Blocks {
			for _, ins := range b.Instrs {
				st, ok := ins.(*ssa.Store)
				if !ok || st.Addr != ssa.Value(g) {
					continue
				}
				nStores++
				o := onceOfLiteral(f)
				if o == nil || (once != nil && o != once) {
					return nil
				}
				once = o
				lits[f] = true
			}
		}
	}
	if once == nil || nStores == 0 {
		return nil
	}
	// (ii) every Do on that Once passes one of the literals; (iii) each literal stores non-nil on every return path
	for _, f := range e.moduleFuncs {
		for _, b := range f.Blocks {
			for _, ins := range b.Instrs {
				c, ok := ins.(*ssa.Call)
				if !ok || !isOnceDo(c) || c.Call.Args[0] != ssa.Value(once) {
					continue
				}
				lit := literalArg(c.Call.Args[1])
				if lit == nil || !lits[lit] {
					return nil
				}
			}
		}
	}
	for lit := range lits {
		la := e.Analyze(lit)
		if la == nil || !la.Converged {
			return nil
		}
		var good []*ssa.Store
		for _, b := range lit.Blocks {
			for _, ins := range b.Instrs {
				if st, ok := ins.(*ssa.Store); ok && st.Addr == ssa.Value(g) && la.NonNilAt(st, st.Val) {
					good = append(good, st)
				}
			}
		}
		for _, b := range lit.Blocks {
			if _, isRet := b.Instrs[len(b.Instrs)-1].(*ssa.Return); !isRet {
				continue
			}
			covered := false
			for _, st := range good {
				if st.Block().Dominates(b) && lastStoreTo(g, st, b) {
					covered = true
				}
			}
			if !covered {
				return nil
			}
		}
	}
	oi := &onceInfo{once: once}
	e.onceMemo[g] = oi
	return oi
}

// lastStoreTo: no other store to g can execute between st and the end of block b (conservative: st is the only store
// to g in the literal, or every other store also stores a non-nil value — checked by the caller through `good`; here
// only stores of possibly-nil values matter).
func lastStoreTo(g *ssa.Global, st *ssa.Store, b *ssa.BasicBlock) bool {
	for _, bb := range st.Parent().Blocks {
		for _, ins := range bb.Instrs {
			if o, ok := ins.(*ssa.Store); ok && o.Addr == ssa.Value(g) && o != st {
				if c, isC := o.Val.(*ssa.Const); isC && c.Value == nil {
					return false
				}
			}
		}
	}
	return true
}

func isPkgInit(f *ssa.Function) bool {
	return f.Name() == "init" && f.Signature.Recv() == nil && f.Parent() == nil && f.Synthetic != ""
}

func isOnceDo(c *ssa.Call) bool {
	callee := c.Call.StaticCallee()
	return callee != nil && !c.Call.IsInvoke() && callee.String() == "(*sync.Once).Do" && len(c.Call.Args) == 2
}

func literalArg(v ssa.Value) *ssa.Function {
	switch x := v.(type) {
	case *ssa.MakeClosure:
		f, _ := x.Fn.(*ssa.Function)
		return f
	case *ssa.Function:
		return x
	}
	return nil
}

// onceOfLiteral: lit is used only as the argument of Do calls on one package-level Once; that Once.
func onceOfLiteral(lit *ssa.Function) *ssa.Global {
	if lit.Parent() == nil {
		return nil
	}
	var once *ssa.Global
	n := 0
	for _, b := range lit.Parent().Blocks {
		for _, ins := range b.Instrs {
			c, ok := ins.(*ssa.Call)
			if !ok || !isOnceDo(c) || literalArg(c.Call.Args[1]) != lit {
				continue
			}
			g, ok := c.Call.Args[0].(*ssa.Global)
			if !ok || (once != nil && g != once) {
				return nil
			}
			once = g
			n++
		}
	}
	if n == 0 {
		return nil
	}
	// the literal must not be used in any other way (stored, called directly, passed elsewhere)
	for _, b := range lit.Parent().Blocks {
		for _, ins := range b.Instrs {
			for _, op := range ins.Operands(nil) {
				if op == nil || *op == nil {
					continue
				}
				if literalArg(*op) == lit {
					if mc, isMC := ins.(*ssa.MakeClosure); isMC && mc.Fn == ssa.Value(lit) {
						continue // the closure construction itself
					}
					c, ok := ins.(*ssa.Call)
					if !ok || !isOnceDo(c) {
						return nil
					}
				}
			}
		}
	}
	return once
}

// onceLoadNonNil: v is a load of a once-initialised package-level variable that is dominated by a Do call on its Once.
func (a *FuncAn) onceLoadNonNil(v ssa.Value) bool {
	ld, ok := v.(*ssa.UnOp)
	if !ok || ld.Op != token.MUL {
		return false
	}
	g, ok := ld.X.(*ssa.Global)
	if !ok {
		return false
	}
	oi := a.E.onceInit(g)
	if oi == nil {
		return false
	}
	for _, b := range a.Fn.Blocks {
		for i, ins := range b.Instrs {
			c, ok := ins.(*ssa.Call)
			if !ok || !isOnceDo(c) || c.Call.Args[0] != ssa.Value(oi.once) {
				continue
			}
			if b == ld.Block() {
				for j, x := range b.Instrs {
					if x == ssa.Instruction(ld) && j > i {
						return true
					}
				}
				continue
			}
			if b.Dominates(ld.Block()) {
				return true
			}
		}
	}
	return false
}
