package guards

import (
	"go/types"
	"sort"

	"golang.org/x/tools/go/ssa"
)

// Context analysis: a function that is not a root is only entered through the call sites of the scope
// (the functions reachable from the roots). Simple facts about its parameters that hold at every such call
// site (p >= 1, p >= 0, len(p) == c, len(p) >= 1) are assumed on entry. Summaries (used by callers) are always
// computed from the context-free analysis, so there is no circularity between a caller's facts and a callee's
// summary.

// AnalyzeCtx: the analysis of f used for checking obligations.
func (e *Engine) AnalyzeCtx(f *ssa.Function) *FuncAn {
	if a, ok := e.ctxFas[f]; ok {
		return a
	}
	if f.Blocks == nil {
		return nil
	}
	if e.Roots[f] || e.Scope == nil || !e.Scope[f] || e.ctxBusy[f] {
		return e.Analyze(f)
	}
	var sites []ssa.CallInstruction
	for _, s := range e.callers[f] {
		if s.Parent() != nil && e.Scope[s.Parent()] {
			sites = append(sites, s)
		}
	}
	if len(sites) == 0 || len(sites) > 40 {
		return e.Analyze(f)
	}
	e.ctxBusy[f] = true
	defer delete(e.ctxBusy, f)
	a := e.newFuncAn(f)
	entry := NewState()
	// the candidate facts need the parameter atoms of the new analysis; loads are not involved, so
	// evaluating parameters before run() is safe.
	type cand struct {
		param int
		seq   bool
		c     int64
		eq    bool
	}
	var notes []string
	for i, p := range f.Params {
		_, _, isInt := e.intInfo(p.Type())
		seq := isSeq(p.Type())
		if !isInt && !seq {
			continue
		}
		var cands []cand
		if isInt {
			cands = []cand{{i, false, 1, false}, {i, false, 0, false}}
		} else {
			// equal constant length at every site? Candidates are the constant lengths seen at any site (a site
			// whose argument length is not syntactically constant must entail the candidate from its facts);
			// then the same constants as lower bounds, largest first.
			cs := e.siteConstLens(sites, f, i)
			for _, c := range cs {
				cands = append(cands, cand{i, true, c, true})
			}
			for _, c := range cs {
				if c > 1 {
					cands = append(cands, cand{i, true, c, false})
				}
			}
			cands = append(cands, cand{i, true, 1, false})
		}
		for _, cd := range cands {
			if e.allSitesEntail(sites, f, cd.param, cd.seq, cd.c, cd.eq) {
				var pl Lin
				if cd.seq {
					pl = a.LenOf(p)
				} else {
					pl = a.Lin(p)
				}
				entry.AddFact(pl.plus(-cd.c))
				if cd.eq {
					entry.AddFact(Scale(pl, -1).plus(cd.c))
				}
				notes = append(notes, pl.plus(-cd.c).String()+" >= 0")
				break
			}
		}
	}
	// relational candidates between two sequence parameters: len(p_i) >= len(p_j) at every site
	// (helpers of the form `for i := range dst { dst[i] ^= src[i] }`)
	for i, pi := range f.Params {
		if !isSeq(pi.Type()) {
			continue
		}
		for j, pj := range f.Params {
			if i == j || !isSeq(pj.Type()) {
				continue
			}
			ok := true
			for _, st := range sites {
				ai, aj := siteArg(st, f, i), siteArg(st, f, j)
				if ai == nil || aj == nil {
					ok = false
					break
				}
				ca := e.AnalyzeCtx(st.Parent())
				if ca == nil || !ca.Converged {
					ok = false
					break
				}
				if ca.in[st.Block()] == nil {
					continue
				}
				if !ca.Entails(st.Block(), Add(ca.LenOf(ai), ca.LenOf(aj), -1)) {
					ok = false
					break
				}
			}
			if ok {
				rel := Add(a.LenOf(pi), a.LenOf(pj), -1)
				entry.AddFact(rel)
				notes = append(notes, rel.String()+" >= 0")
			}
		}
	}
	// an integer parameter used as an index into a sequence parameter: i < len(s) (or i <= len(s)) at every site
	for i, pi := range f.Params {
		if _, _, isInt := e.intInfo(pi.Type()); !isInt {
			continue
		}
		for j, pj := range f.Params {
			if i == j || !isSeq(pj.Type()) {
				continue
			}
			for _, slack := range []int64{1, 0} {
				ok := true
				for _, st := range sites {
					ai, aj := siteArg(st, f, i), siteArg(st, f, j)
					if ai == nil || aj == nil {
						ok = false
						break
					}
					ca := e.AnalyzeCtx(st.Parent())
					if ca == nil || !ca.Converged {
						ok = false
						break
					}
					if ca.in[st.Block()] == nil {
						continue
					}
					if !ca.Entails(st.Block(), Add(ca.LenOf(aj), ca.Lin(ai), -1).plus(-slack)) {
						ok = false
						break
					}
				}
				if ok {
					rel := Add(a.LenOf(pj), a.Lin(pi), -1).plus(-slack)
					entry.AddFact(rel)
					notes = append(notes, rel.String()+" >= 0")
					break
				}
			}
		}
	}
	// element length of a slice-of-slices parameter: at every site the argument has a known element length that is
	// the value (or the length) of another argument of the same call, or a constant
	for i, pi := range f.Params {
		if !isSliceOfSeq(pi.Type()) || (f.Object() != nil && f.Object().Exported() && !internalPkg(f)) {
			continue
		}
		var chosen *Lin
		okAll := len(sites) > 0
		for si, st := range sites {
			ai := siteArg(st, f, i)
			ca := e.AnalyzeCtx(st.Parent())
			if ai == nil || ca == nil || !ca.Converged {
				okAll = false
				break
			}
			er := ca.elemLenOf(ai, map[ssa.Value]bool{})
			if !er.ok || er.any || !ca.elemsStable(ai.Type()) {
				okAll = false
				break
			}
			// express the caller-side length over the callee's parameters
			var here *Lin
			if er.l.IsConst() {
				k := Konst(er.l.C)
				here = &k
			} else {
				for j, pj := range f.Params {
					aj := siteArg(st, f, j)
					if aj == nil || j == i {
						continue
					}
					if _, _, isInt := e.intInfo(pj.Type()); isInt && SameLin(ca.Lin(aj), er.l) {
						l := a.Lin(pj)
						here = &l
						break
					}
					if isSeq(pj.Type()) && SameLin(ca.LenOf(aj), er.l) {
						l := a.LenOf(pj)
						here = &l
						break
					}
				}
			}
			if here == nil || (si > 0 && !SameLin(*chosen, *here)) {
				okAll = false
				break
			}
			chosen = here
		}
		if okAll && chosen != nil {
			if a.paramElem == nil {
				a.paramElem = map[*ssa.Parameter]Lin{}
			}
			a.paramElem[pi] = *chosen
			notes = append(notes, "every element of "+pi.Name()+" has length "+chosen.String())
		}
	}
	if len(entry.facts) == 0 && len(a.paramElem) == 0 {
		a2 := e.Analyze(f)
		e.ctxFas[f] = a2
		return a2
	}
	a.entry = entry
	a.EntryNote = notes
	a.run()
	e.ctxFas[f] = a
	return a
}

func siteArg(site ssa.CallInstruction, callee *ssa.Function, param int) ssa.Value {
	c := site.Common()
	if c.IsInvoke() {
		if param == 0 {
			return nil // receiver extracted from the interface
		}
		if param-1 < len(c.Args) {
			return c.Args[param-1]
		}
		return nil
	}
	if param < len(c.Args) {
		return c.Args[param]
	}
	return nil
}

func (e *Engine) allSitesEntail(sites []ssa.CallInstruction, f *ssa.Function, param int, seq bool, c int64, eq bool) bool {
	for _, s := range sites {
		arg := siteArg(s, f, param)
		if arg == nil {
			return false
		}
		ca := e.AnalyzeCtx(s.Parent())
		if ca == nil || !ca.Converged {
			return false
		}
		if ca.in[s.Block()] == nil {
			continue // unreachable call site
		}
		var l Lin
		if seq {
			l = ca.LenOf(arg)
		} else {
			l = ca.Lin(arg)
		}
		if !ca.Entails(s.Block(), l.plus(-c)) {
			return false
		}
		if eq && !ca.Entails(s.Block(), Scale(l, -1).plus(c)) {
			return false
		}
	}
	return true
}

// siteConstLens lists the distinct constant argument lengths seen at the call sites, largest first.
func (e *Engine) siteConstLens(sites []ssa.CallInstruction, f *ssa.Function, param int) []int64 {
	seen := map[int64]bool{}
	var out []int64
	for _, s := range sites {
		arg := siteArg(s, f, param)
		if arg == nil {
			return nil
		}
		ca := e.AnalyzeCtx(s.Parent())
		if ca == nil {
			return nil
		}
		if l := ca.LenOf(arg); l.IsConst() && !seen[l.C] {
			seen[l.C] = true
			out = append(out, l.C)
		}
	}
	sort.Slice(out, func(i, j int) bool { return out[i] > out[j] })
	return out
}

var _ = types.Identical
