package guards

import (
	"fmt"
	"go/types"
	"os"
	"sort"
	"strings"

	"golang.org/x/tools/go/ssa"
)

// Post-state facts: what a callee guarantees, when it returns, about an integer or sequence field of the struct behind
// one of its pointer parameters — relative to what the field held when the callee was entered, or absolutely.
//
//	func (r *reader) take(n int) []byte { b := r.data[:n]; r.data = r.data[n:]; return b }     len(r.data)' = len(r.data) - n
//	func (r *reader) uint8(v *uint8)    { if r.err != nil { return }; *v = r.take(1)[0] }      len(r.data)' >= len(r.data) - 1
//	func (h *MHDR) UnmarshalBinary(d []byte) error { …; h.MType = MType(d[0] >> 5); … }        on success: MType' <= 7
//
// Callee side (postFactsOf, from the context-free analysis like every summary): the content of the location at each
// return is read off the must-available map — a value stored on the way, the untouched entry content, or the post-state
// version of a nested call; a candidate is kept when the facts at every (successful) return entail it.
// Caller side: after the call the location is given a version name; the first load from it is that version (a lemma
// equates the two), and the callee's facts are instantiated over the version, the content before the call and the
// arguments — as lemmas when they hold at every return, under "this call returned a nil error" when they hold at the
// possibly-successful returns only.
//
// The facts only ever add knowledge: an obligation over the entry content of a caller-owned object that the call sites
// cannot establish stays outside the tracked model (untracked.go), it is not turned into a violation here.

type PostFact struct {
	Param  int   // pointer parameter of the callee (receiver counted)
	Field  int   // field index in the pointee struct
	IsLen  bool  // the fact is about len(field)
	OnOK   bool  // holds at the returns whose error result may be nil only
	Rel    bool  // relative to the content before the call
	Sign   int64 // +1: post - rhs >= 0; -1: rhs - post >= 0
	ParJ   int   // integer parameter in rhs, -1 for none
	KJ     int64 // its coefficient
	NonNeg bool  // established under the assumption parameter ParJ >= 0 (checked at the call site)
	C      int64 // constant in rhs
}

func (e *Engine) postFactsOf(f *ssa.Function) []PostFact {
	if e.postMemo == nil {
		e.postMemo = map[*ssa.Function][]PostFact{}
		e.postBusy = map[*ssa.Function]bool{}
	}
	if pf, ok := e.postMemo[f]; ok {
		return pf
	}
	if f.Blocks == nil || !e.InModule(f) || e.postBusy[f] || len(f.Blocks) > 60 {
		return nil
	}
	hasPtr := false
	for _, par := range f.Params {
		if pt, ok := par.Type().Underlying().(*types.Pointer); ok {
			if _, ok := pt.Elem().Underlying().(*types.Struct); ok {
				hasPtr = true
			}
		}
	}
	if !hasPtr {
		e.postMemo[f] = nil
		return nil
	}
	e.postBusy[f] = true
	a := e.Analyze(f)
	delete(e.postBusy, f)
	if a == nil {
		return nil // being analysed further up the stack: no summary for this request, and nothing memoised
	}
	var out []PostFact
	defer func() {
		e.postMemo[f] = out
		if d := os.Getenv("LW_POSTDEBUG"); d != "" && strings.Contains(f.String(), d) {
			fmt.Fprintf(os.Stderr, "postfacts %s: %+v\n", f.String(), out)
		}
	}()
	if !a.Converged {
		return nil
	}
	ws := e.fnWrites(f)
	errIdx := errIndex(f.Signature)
	type retInfo struct {
		r  *ssa.Return
		s  *State
		ok bool // may carry a nil error (or there is no error result)
	}
	var rets []retInfo
	for _, b := range f.Blocks {
		r, isRet := b.Instrs[len(b.Instrs)-1].(*ssa.Return)
		if !isRet || a.in[b] == nil {
			continue
		}
		s := a.stateBefore(r)
		if s == nil {
			continue
		}
		ri := retInfo{r: r, s: s, ok: true}
		if errIdx >= 0 && errIdx < len(r.Results) {
			ev := r.Results[errIdx]
			if _, isMI := ev.(*ssa.MakeInterface); isMI || a.isNonNil(s, ev) {
				ri.ok = false
			}
		}
		rets = append(rets, ri)
	}
	if len(rets) == 0 || len(rets) > 24 {
		return nil
	}
	for pi, par := range f.Params {
		pt, ok := par.Type().Underlying().(*types.Pointer)
		if !ok {
			continue
		}
		st, ok := pt.Elem().Underlying().(*types.Struct)
		if !ok || st.NumFields() > 12 {
			continue
		}
		base := a.pathOf(par)
		if base == nil {
			continue
		}
		for fi := 0; fi < st.NumFields(); fi++ {
			ft := st.Field(fi).Type()
			_, _, isInt := e.intInfo(ft)
			if !isInt && !isSeq(ft) {
				continue
			}
			fp := fieldPath(base, pt.Elem(), st, fi)
			// only locations the function (or a callee) may write need a description
			written := ws != nil && ws.Any
			if ws != nil {
				for _, d := range ws.Writes {
					if writeKills(d, fp) {
						written = true
					}
				}
			}
			if !written {
				continue
			}
			k := fp.key()
			isLen := !isInt
			pre := a.versionLin(preVersion(k), ft)
			type cont struct {
				l  Lin
				ri retInfo
			}
			var conts []cont
			known := true
			for _, ri := range rets {
				l, ok := a.contentAtReturn(ri.r, fp, k, ft)
				if !ok {
					known = false
					break
				}
				conts = append(conts, cont{l, ri})
			}
			if !known {
				continue
			}
			// try: the goal holds at every return (onOK: at every possibly-successful return), optionally under the
			// assumption that integer parameter assume is >= 0
			try := func(onOK bool, assume int, goal func(post Lin) Lin) bool {
				n := 0
				for _, c := range conts {
					if onOK && !c.ri.ok {
						continue
					}
					n++
					s := c.ri.s
					if assume >= 0 {
						s = s.Clone()
						s.AddFact(a.Lin(f.Params[assume]))
					}
					if !a.proverFor(s).Entails(goal(c.l)) {
						return false
					}
				}
				return n > 0
			}
			for _, onOK := range []bool{false, true} {
				if onOK && errIdx < 0 {
					continue
				}
				covered := func(pf PostFact) bool {
					for _, o := range out {
						if !o.OnOK && o.Param == pf.Param && o.Field == pf.Field && o.IsLen == pf.IsLen && o.Rel == pf.Rel && o.Sign == pf.Sign && o.ParJ == pf.ParJ && o.KJ == pf.KJ {
							return true // already established for every return
						}
					}
					return false
				}
				// post relative to pre and an integer parameter:  sign*(post - pre - kj*param) >= 0
				for j, q := range f.Params {
					if _, _, isI := e.intInfo(q.Type()); !isI {
						continue
					}
					for _, kj := range []int64{1, -1} {
						for _, sign := range []int64{1, -1} {
							pf := PostFact{Param: pi, Field: fi, IsLen: isLen, OnOK: onOK, Rel: true, Sign: sign, ParJ: j, KJ: kj}
							if covered(pf) {
								continue
							}
							goal := func(post Lin) Lin { return Scale(Add(Add(post, pre, -1), a.Lin(f.Params[j]), -kj), sign) }
							if try(onOK, -1, goal) {
								out = append(out, pf)
							} else if try(onOK, j, goal) {
								pf.NonNeg = true
								out = append(out, pf)
							}
						}
					}
				}
				// post relative to pre and a constant:  post >= pre - C  (smallest C),  post <= pre + C
				// (onOK: only when tighter than what holds at every return)
				allC := func(pf PostFact) (int64, bool) {
					for _, o := range out {
						if !o.OnOK && o.Param == pf.Param && o.Field == pf.Field && o.IsLen == pf.IsLen && o.Rel == pf.Rel && o.Sign == pf.Sign && o.ParJ == -1 {
							return o.C, true
						}
					}
					return 0, false
				}
				for _, sign := range []int64{1, -1} {
					pf := PostFact{Param: pi, Field: fi, IsLen: isLen, OnOK: onOK, Rel: true, Sign: sign, ParJ: -1}
					prev, hasPrev := allC(pf)
					for _, C := range []int64{0, 1, 2, 3, 4, 5, 6, 7, 8, 16} {
						C := C
						if onOK && hasPrev && -sign*C == prev {
							break // no better than the unconditional fact
						}
						if try(onOK, -1, func(post Lin) Lin { return Scale(Add(post, pre, -1), sign).plus(C) }) {
							pf.C = -sign * C // rhs = pre + pf.C:  sign*(post - pre - pf.C) = sign*(post-pre) + C
							out = append(out, pf)
							break
						}
					}
				}
				// absolute upper bound:  post <= K
				pf := PostFact{Param: pi, Field: fi, IsLen: isLen, OnOK: onOK, Sign: -1, ParJ: -1}
				prev, hasPrev := allC(pf)
				for _, K := range []int64{0, 1, 3, 7, 15, 31, 63, 127, 255, 4095, 65535} {
					K := K
					if onOK && hasPrev && K >= prev {
						break
					}
					if try(onOK, -1, func(post Lin) Lin { return Scale(post, -1).plus(K) }) {
						pf.C = K
						out = append(out, pf)
						break
					}
				}
			}
		}
	}
	return out
}

func fieldPath(base *apath, structT types.Type, st *types.Struct, fi int) *apath {
	return &apath{root: base.root, steps: append(append([]step(nil), base.steps...), step{key: fmt.Sprintf(".%d", fi), st: structT, field: fi}),
		typ: st.Field(fi).Type(), disp: base.disp + "." + st.Field(fi).Name()}
}

func preVersion(k string) string { return "pre:" + k }

// postVersion: the name of the content of location k right after call c.
func postVersion(c *ssa.Call, k string) string { return fmt.Sprintf("post@%p%s", c, k) }

// versionLin: the value (integer field) or length (sequence field) of a named version of a location's content.
func (a *FuncAn) versionLin(ver string, ft types.Type) Lin {
	if isSeq(ft) {
		at := a.atom("lenproj:"+ver, "len(field("+ver+"))", true)
		a.noteVersion(at, ver)
		return AtomLin(at)
	}
	return a.ctermLin(cterm{key: ver}, ft)
}

// noteVersion: the atom stands for the named version ver of a location's content.
func (a *FuncAn) noteVersion(at *Atom, ver string) {
	if !strings.HasPrefix(ver, "pre:") && !strings.HasPrefix(ver, "post@") && !strings.HasPrefix(ver, "v@") {
		return
	}
	if a.atomVer == nil {
		a.atomVer = map[*Atom]string{}
	}
	a.atomVer[at] = ver
}

// versionBefore: the content the version names exists before instruction c executes.
func (a *FuncAn) versionBefore(ver string, c ssa.Instruction) bool {
	if strings.HasPrefix(ver, "pre:") {
		return true
	}
	vc := a.verCalls[ver]
	if vc == nil {
		return false
	}
	if strings.HasPrefix(ver, "v@") {
		return vc == c || instrBefore(vc, c) // the content right before call vc
	}
	return instrBefore(vc, c) // the content right after call vc
}

// entryVersions: the must-available map on entry: every integer / sequence field of the struct behind a pointer
// parameter holds its (unknown) entry content, under the name pre:<location>.
func (a *FuncAn) entryVersions() availMap {
	m := availMap{}
	for _, par := range a.Fn.Params {
		pt, ok := par.Type().Underlying().(*types.Pointer)
		if !ok {
			continue
		}
		st, ok := pt.Elem().Underlying().(*types.Struct)
		if !ok || st.NumFields() > 12 {
			continue
		}
		base := a.pathOf(par)
		if base == nil {
			continue
		}
		for fi := 0; fi < st.NumFields(); fi++ {
			ft := st.Field(fi).Type()
			if _, _, isInt := a.E.intInfo(ft); !isInt && !isSeq(ft) {
				continue
			}
			fp := fieldPath(base, pt.Elem(), st, fi)
			m[fp.key()] = availEnt{p: fp, ver: preVersion(fp.key())}
		}
	}
	return m
}

// preTermOf: the atom is the entry content (or its length) of a field of the struct behind a pointer parameter.
func (a *FuncAn) preTermOf(at *Atom) (dterm, bool, bool) {
	for i, par := range a.Fn.Params {
		pt, ok := par.Type().Underlying().(*types.Pointer)
		if !ok {
			continue
		}
		st, ok := pt.Elem().Underlying().(*types.Struct)
		if !ok || st.NumFields() > 12 {
			continue
		}
		base := a.pathOf(par)
		if base == nil {
			continue
		}
		for fi := 0; fi < st.NumFields(); fi++ {
			k := preVersion(base.key() + fmt.Sprintf(".%d", fi))
			if x, ok := a.atoms["proj:"+k]; ok && x == at {
				return dterm{param: 1000 + i, proj: []int{fi}}, false, true
			}
			if x, ok := a.atoms["lenproj:"+k]; ok && x == at {
				return dterm{param: 1000 + i, proj: []int{fi}}, true, true
			}
		}
	}
	return dterm{}, false, false
}

// contentAtReturn: the content of location fp when the function returns at r: a value stored on the way, or a named
// version (the entry content, the post-state of a nested call).
func (a *FuncAn) contentAtReturn(r *ssa.Return, fp *apath, k string, ft types.Type) (Lin, bool) {
	if snap := a.retSnap[r]; snap != nil {
		if v, ok := snap[k]; ok {
			if isSeq(ft) {
				return a.LenOf(v), true
			}
			if _, _, isInt := a.E.intInfo(v.Type()); isInt {
				return a.Lin(v), true
			}
			return Lin{}, false
		}
	}
	if vers := a.retVer[r]; vers != nil {
		if ver, ok := vers[k]; ok {
			return a.versionLin(ver, ft), true
		}
	}
	return Lin{}, false
}

// installPostVersions: called by the availability transfer right after the kills of call c: the locations the callee's
// post-state facts describe, and that are not available any more, get the name of their content after the call.
func (a *FuncAn) installPostVersions(c *ssa.Call, m availMap) {
	callee := c.Call.StaticCallee()
	if callee == nil || c.Call.IsInvoke() || callee.Blocks == nil || !a.E.InModule(callee) || callee == a.Fn {
		return
	}
	pfs := a.E.postFactsOf(callee)
	if len(pfs) == 0 {
		return
	}
	args := a.callArgs(c)
	for _, pf := range pfs {
		fp, ft := a.postLoc(args, pf)
		if fp == nil {
			continue
		}
		k := fp.key()
		if _, have := m[k]; have {
			continue // still available (not written by this call, or named already)
		}
		m[k] = availEnt{p: fp, ver: postVersion(c, k)}
		a.verCalls[postVersion(c, k)] = c
		if a.postAt[c] == nil {
			a.postAt[c] = map[string]types.Type{}
		}
		a.postAt[c][k] = ft
	}
}

// postLoc: the caller's location a post-state fact of the callee talks about.
func (a *FuncAn) postLoc(args []ssa.Value, pf PostFact) (*apath, types.Type) {
	if pf.Param >= len(args) {
		return nil, nil
	}
	pt, ok := args[pf.Param].Type().Underlying().(*types.Pointer)
	if !ok {
		return nil, nil
	}
	st, ok := pt.Elem().Underlying().(*types.Struct)
	if !ok || pf.Field >= st.NumFields() {
		return nil, nil
	}
	base := a.pathOf(args[pf.Param])
	if base == nil {
		return nil, nil
	}
	return fieldPath(base, pt.Elem(), st, pf.Field), st.Field(pf.Field).Type()
}

// postLemmas instantiates the post-state facts of the calls that got post versions, and ties the first load of a named
// version to the name. Run once, after the availability analysis and before the dataflow.
func (a *FuncAn) postLemmas() {
	// the first load of a version is the version
	var lds []*ssa.UnOp
	for x := range a.loadVer {
		lds = append(lds, x)
	}
	sort.Slice(lds, func(i, j int) bool {
		return lds[i].Pos() < lds[j].Pos() || (lds[i].Pos() == lds[j].Pos() && lds[i].Name() < lds[j].Name())
	})
	for _, x := range lds {
		ver := a.loadVer[x]
		var l, at Lin
		if _, _, isInt := a.E.intInfo(x.Type()); isInt {
			l, at = a.Lin(x), a.versionLin(ver, x.Type())
		} else if isSeq(x.Type()) {
			l, at = a.LenOf(x), a.versionLin(ver, x.Type())
		} else {
			continue
		}
		a.lemma(Add(l, at, -1))
		a.lemma(Add(at, l, -1))
	}
	// program order, so that a chain of calls on one object accumulates: post_n >= post_0 - (c_1 + … + c_n)
	var calls []*ssa.Call
	for _, b := range a.rpo {
		for _, ins := range b.Instrs {
			if c, ok := ins.(*ssa.Call); ok && a.postAt[c] != nil {
				calls = append(calls, c)
			}
		}
	}
	lower := map[*Atom]Lin{} // version atom -> an expression it is >= (unconditionally)
	for _, c := range calls {
		callee := c.Call.StaticCallee()
		args := a.callArgs(c)
		for _, pf := range a.E.postFactsOf(callee) {
			fp, ft := a.postLoc(args, pf)
			if fp == nil {
				continue
			}
			k := fp.key()
			if _, ok := a.postAt[c][k]; !ok {
				continue
			}
			post := a.versionLin(postVersion(c, k), ft)
			rhs := Konst(pf.C)
			if pf.Rel {
				pre, ok := a.termLin(c, callee, dterm{param: 1000 + pf.Param, proj: []int{pf.Field}}, pf.IsLen)
				if !ok {
					continue
				}
				rhs = Add(rhs, pre, 1)
			}
			var need []Lin // what the fact assumes about the arguments
			if pf.ParJ >= 0 {
				if pf.ParJ >= len(args) {
					continue
				}
				al := a.Lin(args[pf.ParJ])
				if pf.NonNeg && !syntacticallyNonNeg(al) {
					need = append(need, al)
				}
				rhs = Add(rhs, al, pf.KJ)
			}
			fact := Scale(Add(post, rhs, -1), pf.Sign) // sign*(post - rhs) >= 0
			if pf.OnOK || len(need) > 0 {
				cl := condLemma{pre: need, post: []Lin{fact}, why: "post-state of " + FuncShort(callee)}
				if pf.OnOK {
					cl.okCall = c
					cl.why += " on success"
				}
				a.conds = append(a.conds, cl)
				continue
			}
			a.lemma(fact)
			if pf.Sign == 1 && len(post.t) == 1 {
				// accumulate lower bounds through a chain of versions
				lb := rhs
				for i := 0; i < 4; i++ {
					changed := false
					for _, t := range lb.t {
						if t.k > 0 {
							if l2, ok := lower[t.a]; ok {
								lb = Add(Add(lb, AtomLin(t.a), -t.k), l2, t.k)
								changed = true
								break
							}
						}
					}
					if !changed {
						break
					}
				}
				if !SameLin(lb, rhs) {
					a.lemma(Add(post, lb, -1))
				}
				if _, have := lower[post.t[0].a]; !have {
					lower[post.t[0].a] = lb
				}
			}
		}
	}
}

func syntacticallyNonNeg(l Lin) bool {
	if l.C < 0 {
		return false
	}
	for _, t := range l.t {
		if t.k < 0 || !t.a.NonNeg {
			return false
		}
	}
	return true
}
