package guards

import (
	"fmt"
	"go/constant"
	"go/token"
	"go/types"

	"golang.org/x/tools/go/ssa"
)

// FuncAn is the analysis of one function.
type FuncAn struct {
	E  *Engine
	Fn *ssa.Function

	atoms    map[string]*Atom
	atomList []*Atom
	atomDef  map[*Atom]*ssa.BasicBlock // defining block of value atoms (nil: valid everywhere)
	atomDeps map[*Atom][]*Atom         // operand atoms of composite atoms
	linMemo  map[ssa.Value]Lin
	lenMemo  map[ssa.Value]Lin
	escMemo  map[*ssa.Alloc]bool

	lemmas []Lin       // unconditional truths about total operations / static bounds
	conds  []condLemma // pre (all entailed) => post

	canon map[ssa.Value]ssa.Value // load -> representative value (memory-versioned load numbering)

	in         map[*ssa.BasicBlock]*State
	out        map[*ssa.BasicBlock]*State
	Converged  bool
	rpo        []*ssa.BasicBlock
	entry      *State   // precondition facts (roots: none)
	EntryNote  []string // rendered entry facts
	CountNotes []string // paired-count lemmas used

	elemLenMemo    map[ssa.Value]*Lin
	paramElem      map[*ssa.Parameter]Lin // element length of a slice-of-slices parameter, established at every call site
	inited         map[*Atom]bool
	inited2        map[*Atom]bool
	provers        map[*State]*prover
	atomLoad       map[*Atom]*ssa.UnOp                // load atoms (and lengths of loads) -> the representative load
	loadSnap       map[*ssa.UnOp]map[string]ssa.Value // struct-typed load -> locations available at the load
	callSnap       map[*ssa.Call]map[string]ssa.Value // static call -> locations available right before the call
	callVer        map[*ssa.Call]map[string]string    // static call -> synthetic versions of locations whose content is unknown
	prods, quos    []opRec
	rems           []remRec // x % k for constant k: x == k*q + r
	projAtom       map[*Atom]projCoef
	capMemo        map[ssa.Value]Lin
	atomVal        map[*Atom]ssa.Value // atoms of SSA values
	phiMulBusy     map[*ssa.Phi]bool
	pureCanon      map[*ssa.Call]*ssa.Call
	lenAtomOf      map[*Atom]ssa.Value
	hoistUntracked string // set by a failed hoist whose call site lacked the fact because of an untracked value
	memPhis        map[*ssa.BasicBlock][]memPhi
	capAtomOf      map[*Atom]ssa.Value                  // capacity atoms -> the slice value
	fieldAtomOf    map[*Atom]*ssa.Field                 // atoms of struct-value fields
	retSnap        map[*ssa.Return]map[string]ssa.Value // return -> locations available there
	retVer         map[*ssa.Return]map[string]string    // return -> named versions available there
	postAt         map[*ssa.Call]map[string]types.Type  // call -> locations that got a post version (postfacts.go)
	loadVer        map[*ssa.UnOp]string                 // representative load -> the named version it reads
	atomVer        map[*Atom]string                     // atoms of named versions of a location's content -> the name
	verCalls       map[string]*ssa.Call                 // version name -> the call it was created at
}

type remRec struct {
	X Lin
	k int64
	r Lin
	q *Atom // X == k*q + r
}

type opRec struct {
	at   *Atom
	X, Y Lin
}

type condLemma struct {
	pre     []Lin
	okCall  *ssa.Call // additionally requires: this call is known to have returned a nil error
	preLits []instLit // additionally requires: these instantiated callee literals hold
	post    []Lin
	why     string
}

func (a *FuncAn) atom(key, name string, nonneg bool) *Atom {
	if at, ok := a.atoms[key]; ok {
		return at
	}
	at := &Atom{ID: len(a.atomList) + 1, Name: name, NonNeg: nonneg}
	a.atoms[key] = at
	a.atomList = append(a.atomList, at)
	return at
}

func (a *FuncAn) lemma(l Lin) { a.lemmas = append(a.lemmas, l) }

func (a *FuncAn) bounds(at *Atom, lo, hi *int64) {
	if lo != nil {
		a.lemma(AtomLin(at).plus(-*lo))
		if *lo >= 0 {
			at.NonNeg = true
		}
	}
	if hi != nil {
		a.lemma(Scale(AtomLin(at), -1).plus(*hi))
	}
}

// intInfo: bit width and signedness of an integer type under the analysed architecture.
func (e *Engine) intInfo(t types.Type) (bits int, unsigned, ok bool) {
	b, isb := t.Underlying().(*types.Basic)
	if !isb || b.Info()&types.IsInteger == 0 {
		return 0, false, false
	}
	unsigned = b.Info()&types.IsUnsigned != 0
	switch b.Kind() {
	case types.Int8, types.Uint8:
		bits = 8
	case types.Int16, types.Uint16:
		bits = 16
	case types.Int32, types.Uint32:
		bits = 32
	case types.Int64, types.Uint64:
		bits = 64
	case types.Int, types.Uint, types.Uintptr:
		bits = e.WordBits
	case types.UntypedInt, types.UntypedRune:
		bits = 64
	default:
		return 0, false, false
	}
	return bits, unsigned, true
}

func typeMax(bits int, unsigned bool) int64 {
	if unsigned {
		if bits >= 63 {
			return 1<<62 - 1 + 1<<62 // MaxInt64 (saturated)
		}
		return 1<<uint(bits) - 1
	}
	if bits >= 64 {
		return 1<<62 - 1 + 1<<62
	}
	return 1<<uint(bits-1) - 1
}

// wide: arithmetic in this type is treated as mathematical (assumption A1: no overflow of int/int64/uint64
// arithmetic on lengths, indices and small constants). Narrower types wrap and are modelled with bounds.
func (e *Engine) wide(bits int) bool { return bits >= e.WordBits && bits >= 32 }

// cv canonicalises a value: strips type changes and replaces a load by its representative.
func (a *FuncAn) cv(v ssa.Value) ssa.Value {
	for i := 0; i < 50; i++ {
		switch x := v.(type) {
		case *ssa.ChangeType:
			v = x.X
			continue
		case *ssa.UnOp:
			if x.Op == token.MUL {
				if r, ok := a.canon[x]; ok && r != v {
					v = r
					continue
				}
			}
		case *ssa.Call:
			// a later call of a pure function with the same arguments is the earlier one (congruence)
			if r, ok := a.pureCanon[x]; ok && r != x {
				v = r
				continue
			}
		}
		break
	}
	return v
}

// purify: calls of pure module functions (no memory access at all: value parameters of basic type in, arithmetic, calls
// of other pure functions and of math/bits) with identical canonical arguments denote one value; a call dominated by an
// earlier identical call is canonicalised to it.
func (a *FuncAn) purify() {
	a.pureCanon = map[*ssa.Call]*ssa.Call{}
	type key struct {
		f    *ssa.Function
		args string
	}
	first := map[key][]*ssa.Call{}
	for _, b := range a.rpo {
		for _, ins := range b.Instrs {
			c, ok := ins.(*ssa.Call)
			if !ok {
				continue
			}
			f := c.Call.StaticCallee()
			if f == nil || c.Call.IsInvoke() || !a.E.pureFunc(f, 0) {
				continue
			}
			ks := ""
			for _, arg := range c.Call.Args {
				ks += fmt.Sprintf("%p,", a.cv(arg))
			}
			k := key{f, ks}
			done := false
			for _, prev := range first[k] {
				if prev.Block() == b || prev.Block().Dominates(b) {
					a.pureCanon[c] = prev
					done = true
					break
				}
			}
			if !done {
				first[k] = append(first[k], c)
			}
		}
	}
}

// pureFunc: f reads and writes no memory and its result is a function of its arguments.
func (e *Engine) pureFunc(f *ssa.Function, depth int) bool {
	if e.pureMemo == nil {
		e.pureMemo = map[*ssa.Function]int{}
	}
	if v := e.pureMemo[f]; v != 0 {
		return v == 1
	}
	if depth > 3 || f.Blocks == nil || len(f.FreeVars) > 0 {
		return false
	}
	e.pureMemo[f] = 2 // pessimistic while computing (recursion)
	basic := func(t types.Type) bool {
		_, ok := t.Underlying().(*types.Basic)
		return ok
	}
	for _, p := range f.Params {
		if !basic(p.Type()) {
			return false
		}
	}
	for _, b := range f.Blocks {
		for _, ins := range b.Instrs {
			switch x := ins.(type) {
			case *ssa.BinOp, *ssa.Convert, *ssa.ChangeType, *ssa.Phi, *ssa.If, *ssa.Jump, *ssa.Return, *ssa.DebugRef:
			case *ssa.UnOp:
				if x.Op == token.MUL || x.Op == token.ARROW {
					return false
				}
			case *ssa.Call:
				cal := x.Call.StaticCallee()
				if cal == nil || x.Call.IsInvoke() {
					return false
				}
				if cal.Pkg != nil && cal.Pkg.Pkg.Path() == "math/bits" {
					continue
				}
				if !e.InModule(cal) || !e.pureFunc(cal, depth+1) {
					return false
				}
			default:
				return false
			}
		}
	}
	e.pureMemo[f] = 1
	return true
}

func (a *FuncAn) valueAtom(v ssa.Value, nonneg bool) *Atom {
	at := a.atom("v:"+v.Name()+fmt.Sprintf("%p", v), a.valName(v), nonneg)
	if a.atomVal == nil {
		a.atomVal = map[*Atom]ssa.Value{}
	}
	a.atomVal[at] = v
	if ins, ok := v.(ssa.Instruction); ok {
		a.atomDef[at] = ins.Block()
	}
	return at
}

func (a *FuncAn) composite(key, name string, nonneg bool, def ssa.Instruction, ops ...Lin) *Atom {
	_, existed := a.atoms[key]
	at := a.atom(key, name, nonneg)
	if !existed {
		for _, o := range ops {
			for _, t := range o.t {
				a.atomDeps[at] = append(a.atomDeps[at], t.a)
			}
		}
		if len(a.atomDeps[at]) == 0 && def != nil {
			a.atomDef[at] = def.Block()
		}
	}
	return at
}

// Lin evaluates an integer SSA value to a linear expression over atoms.
func (a *FuncAn) Lin(v ssa.Value) Lin {
	if l, ok := a.linMemo[v]; ok {
		return l
	}
	a.linMemo[v] = Lin{} // cycle guard (cannot happen for non-phi values)
	l := a.lin0(v)
	a.linMemo[v] = l
	return l
}

func (a *FuncAn) opaque(v ssa.Value) Lin {
	bits, uns, ok := a.E.intInfo(v.Type())
	at := a.valueAtom(v, uns)
	if ok && bits < 63 {
		if !a.inited[at] {
			a.inited[at] = true
			hi := typeMax(bits, uns)
			lo := int64(0)
			if !uns {
				lo = -hi - 1
			}
			a.bounds(at, &lo, &hi)
		}
	}
	return AtomLin(at)
}

func i64(c int64) *int64 { return &c }

func (a *FuncAn) lin0(v ssa.Value) Lin {
	E := a.E
	switch x := v.(type) {
	case *ssa.Const:
		if x.Value != nil && x.Value.Kind() == constant.Int {
			if c, ok := constant.Int64Val(x.Value); ok {
				return Konst(c)
			}
			// uint64 constants above MaxInt64: opaque non-negative
		}
		if x.Value == nil {
			return Konst(0)
		}
	case *ssa.ChangeType:
		return a.Lin(x.X)
	case *ssa.Convert:
		fb, fu, fok := E.intInfo(x.X.Type())
		tb, tu, tok := E.intInfo(x.Type())
		if !fok || !tok {
			return a.opaque(v)
		}
		src := a.Lin(x.X)
		// value preserving: unsigned -> wider anything; signed -> wider/equal signed; same type class
		if (fu && (tb > fb || (tu && tb >= fb))) || (!fu && !tu && tb >= fb) {
			return src
		}
		if src.IsConst() && src.C >= 0 && src.C <= typeMax(tb, tu) {
			return src
		}
		// possibly value changing (narrowing, sign change): fresh atom with range of the target type;
		// equals the source when the source is within range.
		at := a.composite(fmt.Sprintf("conv%d%v(%s|%d)", tb, tu, src.key(), src.C), fmt.Sprintf("%s(%s)", types.TypeString(x.Type(), nil), src), tu, x, src)
		hi := typeMax(tb, tu)
		if tb < 63 {
			lo := int64(0)
			if !tu {
				lo = -hi - 1
			}
			a.bounds(at, &lo, &hi)
		} else if tu {
			at.NonNeg = true
		}
		r := AtomLin(at)
		pre := []Lin{}
		if !(fu) { // source may be negative
			if tu {
				pre = append(pre, src)
			} else {
				pre = append(pre, Add(src, Konst(-hi-1), -1)) // src >= lo
			}
		}
		if !(tb >= fb && fu == tu) && hi < typeMax(fb, fu) {
			pre = append(pre, Add(Konst(hi), src, -1)) // src <= hi
		}
		a.conds = append(a.conds, condLemma{pre: pre, post: []Lin{Add(r, src, -1), Add(src, r, -1)}, why: "in-range conversion preserves the value"})
		if tu && src.synNonNeg() {
			// truncation of a non-negative value never increases it
			a.lemma(Add(src, r, -1))
		}
		return r
	case *ssa.BinOp:
		bits, uns, ok := E.intInfo(x.Type())
		if !ok {
			return a.opaque(v)
		}
		return a.binop(x, bits, uns)
	case *ssa.UnOp:
		switch x.Op {
		case token.MUL:
			r := a.cv(v)
			if r != v {
				return a.Lin(r)
			}
			return a.loadAtom(x)
		case token.SUB:
			bits, uns, ok := E.intInfo(x.Type())
			if ok && !uns && E.wide(bits) {
				return Scale(a.Lin(x.X), -1)
			}
		}
	case *ssa.Call:
		if b, ok := x.Call.Value.(*ssa.Builtin); ok {
			switch b.Name() {
			case "len":
				return a.LenOf(x.Call.Args[0])
			case "cap":
				return a.CapOf(x.Call.Args[0])
			case "copy":
				// n <= len(dst), n <= len(src). The lengths may be expressions of slice operations that are only
				// known to be >= 0 after those operations succeeded, so the bounds are released only where the
				// state already entails that (a global lemma n <= L with n >= 0 would smuggle in L >= 0).
				at := a.valueAtom(v, true)
				for _, arg := range x.Call.Args[:2] {
					l := a.LenOf(arg)
					if l.synNonNeg() {
						a.lemma(Add(l, AtomLin(at), -1))
					} else {
						a.conds = append(a.conds, condLemma{pre: []Lin{l}, post: []Lin{Add(l, AtomLin(at), -1)}, why: "copy count bounded by a length known to be non-negative"})
					}
				}
				return AtomLin(at)
			case "min", "max":
				return a.opaque(v)
			}
		}
		return a.callResult(v, x, 0, true)
	case *ssa.Extract:
		if c, ok := x.Tuple.(*ssa.Call); ok {
			return a.callResult(v, c, x.Index, false)
		}
	case *ssa.Field:
		return a.fieldAtom(x)
	case *ssa.Index:
		// element of an array value
		return a.opaque(v)
	}
	return a.opaque(v)
}

// loadAtom: atom of a canonical load.
func (a *FuncAn) loadAtom(x *ssa.UnOp) Lin {
	bits, uns, ok := a.E.intInfo(x.Type())
	p := a.pathOf(x.X)
	name := a.valName(x)
	at := a.valueAtom(x, uns)
	at.Name = name
	a.atomLoad[at] = x
	if a.inited[at] {
		return AtomLin(at)
	}
	a.inited[at] = true
	if p != nil {
		switch p.root.(type) {
		case *ssa.Parameter:
			at.Input = true
		}
	}
	if ok && bits < 63 {
		hi := typeMax(bits, uns)
		lo := int64(0)
		if !uns {
			lo = -hi - 1
		}
		a.bounds(at, &lo, &hi)
	}
	// field invariant: every store to this (unexported) integer field in the module stores a value >= c
	if fa, okf := x.X.(*ssa.FieldAddr); okf && ok && !uns {
		if lo, has := a.E.fieldLowerBound(fa); has {
			a.bounds(at, &lo, nil)
		}
	}
	return AtomLin(at)
}

func (a *FuncAn) fieldAtom(x *ssa.Field) Lin {
	_, uns, ok := a.E.intInfo(x.Type())
	if !ok {
		return a.opaque(x)
	}
	base := a.cv(x.X)
	key := fmt.Sprintf("fld:%p.%d", base, x.Field)
	st := x.X.Type().Underlying().(*types.Struct)
	_, existed := a.atoms[key]
	at := a.atom(key, a.valName(base)+"."+st.Field(x.Field).Name(), uns)
	if a.fieldAtomOf == nil {
		a.fieldAtomOf = map[*Atom]*ssa.Field{}
	}
	a.fieldAtomOf[at] = x
	if !existed {
		if ins, ok := base.(ssa.Instruction); ok {
			a.atomDef[at] = ins.Block()
		}
		if _, ok := base.(*ssa.Parameter); ok {
			at.Input = true
		}
		bits, _, _ := a.E.intInfo(x.Type())
		if bits < 63 {
			hi := typeMax(bits, uns)
			lo := int64(0)
			if !uns {
				lo = -hi - 1
			}
			a.bounds(at, &lo, &hi)
		}
		if !uns {
			if lo, has := a.E.fieldLowerBoundVar(st.Field(x.Field)); has {
				a.bounds(at, &lo, nil)
			}
		}
	}
	return AtomLin(at)
}

func (a *FuncAn) binop(x *ssa.BinOp, bits int, uns bool) Lin {
	E := a.E
	X, Y := a.Lin(x.X), a.Lin(x.Y)
	wide := E.wide(bits)
	max := typeMax(bits, uns)
	fresh := func(tag string, nonneg bool, ops ...Lin) *Atom {
		k := tag
		for _, o := range ops {
			k += fmt.Sprintf("(%s|%d)", o.key(), o.C)
		}
		nm := ""
		switch len(ops) {
		case 1:
			nm = fmt.Sprintf("%s(%s)", tag, ops[0])
		default:
			nm = fmt.Sprintf("(%s)%s(%s)", ops[0], tag, ops[1])
		}
		at := a.composite(fmt.Sprintf("%s/%d%v", k, bits, uns), nm, nonneg, x, ops...)
		if bits < 63 {
			if !a.inited[at] {
				a.inited[at] = true
				hi := max
				lo := int64(0)
				if !uns {
					lo = -hi - 1
				}
				a.bounds(at, &lo, &hi)
			}
		}
		return at
	}
	switch x.Op {
	case token.ADD:
		if wide {
			return Add(X, Y, 1)
		}
		sum := Add(X, Y, 1)
		if sum.IsConst() {
			return sum
		}
		at := fresh("+", uns, X, Y)
		r := AtomLin(at)
		if uns {
			// wrap-around can only decrease an unsigned sum of non-negative operands
			a.lemma(Add(sum, r, -1))
		}
		pre := []Lin{Add(Konst(max), sum, -1)}
		if !uns {
			pre = append(pre, Add(sum, Konst(-max-1), -1))
		}
		a.conds = append(a.conds, condLemma{pre: pre, post: []Lin{Add(r, sum, -1), Add(sum, r, -1)}, why: "no wrap-around"})
		return r
	case token.SUB:
		diff := Add(X, Y, -1)
		if diff.IsConst() && diff.C >= 0 {
			return diff
		}
		if wide && !uns {
			return diff
		}
		at := fresh("-", uns, X, Y)
		r := AtomLin(at)
		pre := []Lin{diff}
		if !uns {
			pre = []Lin{Add(Konst(max), diff, -1), Add(diff, Konst(-max-1), -1)}
		}
		a.conds = append(a.conds, condLemma{pre: pre, post: []Lin{Add(r, diff, -1), Add(diff, r, -1)}, why: "no wrap-around"})
		return r
	case token.MUL:
		if X.IsConst() {
			X, Y = Y, X
		}
		if Y.IsConst() {
			prod := Scale(X, Y.C)
			if prod.IsConst() {
				return prod
			}
			if wide {
				return prod
			}
			at := fresh("*", uns, X, Y)
			r := AtomLin(at)
			if uns && Y.C >= 0 {
				a.lemma(Add(prod, r, -1))
				a.conds = append(a.conds, condLemma{pre: []Lin{Add(Konst(max), prod, -1)}, post: []Lin{Add(r, prod, -1), Add(prod, r, -1)}, why: "no wrap-around"})
			}
			return r
		}
		// product of two symbolic factors
		at := fresh("*", uns, X, Y)
		r := AtomLin(at)
		if wide {
			a.prods = append(a.prods, opRec{at, X, Y})
			a.conds = append(a.conds, condLemma{pre: []Lin{X, Y}, post: []Lin{r}, why: "product of non-negative factors"})
		}
		return r
	case token.QUO:
		if Y.IsConst() && Y.C > 0 {
			if X.IsConst() {
				return Konst(X.C / Y.C)
			}
			return AtomLin(a.quoConst(x, X, Y.C, bits, uns))
		}
		at := fresh("/", uns, X, Y)
		r := AtomLin(at)
		a.quos = append(a.quos, opRec{at, X, Y})
		a.conds = append(a.conds, condLemma{pre: []Lin{X, Y.plus(-1)}, post: []Lin{r, Add(X, r, -1)}, why: "quotient of non-negative by positive"})
		return r
	case token.REM:
		if Y.IsConst() && Y.C > 0 {
			if X.IsConst() {
				return Konst(X.C % Y.C)
			}
			k := Y.C
			q := a.quoConst(x, X, k, bits, uns)
			at := fresh("%", uns, X, Y)
			r := AtomLin(at)
			// X == k*q + r always (Go truncated division)
			id := Add(Add(X, Scale(AtomLin(q), k), -1), r, -1)
			a.lemma(id)
			a.lemma(Scale(id, -1))
			a.lemma(Scale(r, -1).plus(k - 1))
			a.lemma(r.plus(k - 1))
			a.rems = append(a.rems, remRec{X: X, k: k, r: r, q: q})
			// integer rounding: a positive multiple of k is at least k
			a.conds = append(a.conds, condLemma{pre: []Lin{X.plus(-1), Scale(r, -1)}, post: []Lin{X.plus(-k), AtomLin(q).plus(-1)}, why: "x >= 1 and x%k == 0 imply x >= k"})
			if X.synNonNeg() {
				at.NonNeg = true
			} else {
				a.conds = append(a.conds, condLemma{pre: []Lin{X}, post: []Lin{r}, why: "remainder of non-negative"})
			}
			return r
		}
		at := fresh("%", uns, X, Y)
		r := AtomLin(at)
		a.conds = append(a.conds, condLemma{pre: []Lin{X, Y.plus(-1)}, post: []Lin{r, Add(Y, r, -1).plus(-1), Add(X, r, -1)}, why: "remainder by positive divisor"})
		// Go's remainder has the sign of the dividend, whatever the divisor (a zero divisor panics: its own obligation)
		a.conds = append(a.conds, condLemma{pre: []Lin{X}, post: []Lin{r, Add(X, r, -1)}, why: "remainder of a non-negative dividend"})
		return r
	case token.AND:
		if X.IsConst() {
			X, Y = Y, X
		}
		if X.IsConst() && Y.IsConst() {
			return Konst(X.C & Y.C)
		}
		if Y.IsConst() && Y.C >= 0 {
			at := fresh("&", true, X, Y)
			r := AtomLin(at)
			a.lemma(Scale(r, -1).plus(Y.C))
			if X.synNonNeg() {
				a.lemma(Add(X, r, -1))
			}
			return r
		}
		at := fresh("&", uns, X, Y)
		r := AtomLin(at)
		if X.synNonNeg() {
			at.NonNeg = true
			a.lemma(Add(X, r, -1))
		}
		if Y.synNonNeg() {
			at.NonNeg = true
			a.lemma(Add(Y, r, -1))
		}
		if !at.NonNeg {
			a.conds = append(a.conds, condLemma{pre: []Lin{X}, post: []Lin{r, Add(X, r, -1)}, why: "and with non-negative"})
			a.conds = append(a.conds, condLemma{pre: []Lin{Y}, post: []Lin{r, Add(Y, r, -1)}, why: "and with non-negative"})
		}
		return r
	case token.OR, token.XOR:
		if X.IsConst() && Y.IsConst() {
			if x.Op == token.OR {
				return Konst(X.C | Y.C)
			}
			return Konst(X.C ^ Y.C)
		}
		at := fresh(x.Op.String(), uns, X, Y)
		r := AtomLin(at)
		sum := Add(X, Y, 1)
		if X.synNonNeg() && Y.synNonNeg() {
			at.NonNeg = true
			if wide || uns {
				a.lemma(Add(sum, r, -1)) // a|b, a^b <= a+b for non-negative operands
			}
		} else {
			a.conds = append(a.conds, condLemma{pre: []Lin{X, Y}, post: []Lin{r, Add(sum, r, -1)}, why: "or/xor of non-negative"})
		}
		return r
	case token.AND_NOT:
		at := fresh("&^", uns, X, Y)
		r := AtomLin(at)
		if X.synNonNeg() {
			at.NonNeg = true
			a.lemma(Add(X, r, -1))
			// clearing the k low bits leaves a multiple of 2^k that is at most 2^k-1 below x
			if Y.IsConst() && Y.C > 0 && (Y.C+1)&Y.C == 0 && Y.C < 1<<30 {
				k := Y.C + 1
				a.lemma(Add(r, X, -1).plus(k - 1)) // r >= x - (k-1)
				a.rems = append(a.rems, remRec{X: r, k: k, r: Konst(0)})
				a.conds = append(a.conds, condLemma{pre: []Lin{r.plus(-1)}, post: []Lin{r.plus(-k)}, why: "a positive multiple of 2^k is at least 2^k"})
			}
		}
		return r
	case token.SHL:
		if Y.IsConst() && Y.C >= 0 && Y.C < 62 {
			m := int64(1) << uint(Y.C)
			if X.IsConst() {
				if p := X.C * m; p/m == X.C && p <= max && p >= -max-1 {
					return Konst(p)
				}
			}
			prod := Scale(X, m)
			if wide {
				return prod
			}
			at := fresh("<<", uns, X, Y)
			r := AtomLin(at)
			if uns {
				a.lemma(Add(prod, r, -1))
			}
			return r
		}
		at := fresh("<<", uns, X, Y)
		return AtomLin(at)
	case token.SHR:
		if Y.IsConst() && Y.C >= 0 && Y.C < 62 && X.synNonNeg() {
			m := int64(1) << uint(Y.C)
			if X.IsConst() {
				return Konst(X.C >> uint(Y.C))
			}
			return AtomLin(a.quoConst(x, X, m, bits, uns))
		}
		at := fresh(">>", uns, X, Y)
		r := AtomLin(at)
		if X.synNonNeg() {
			at.NonNeg = true
			a.lemma(Add(X, r, -1))
		}
		return r
	}
	return a.opaque(x)
}

// quoConst: atom q = X / k for constant k > 0 with the lemmas of truncated division.
func (a *FuncAn) quoConst(def ssa.Instruction, X Lin, k int64, bits int, uns bool) *Atom {
	key := fmt.Sprintf("quo(%s|%d)/%d", X.key(), X.C, k)
	if at, ok := a.atoms[key]; ok {
		return at
	}
	at := a.composite(key, fmt.Sprintf("(%s)/%d", X, k), false, def, X)
	q := AtomLin(at)
	lo := []Lin{Add(X, Scale(q, k), -1)}             // X - k*q >= 0
	hi := []Lin{Add(Scale(q, k), X, -1).plus(k - 1)} // k*q + k-1 - X >= 0
	if X.synNonNeg() {
		at.NonNeg = true
		a.lemma(lo[0])
		a.lemma(hi[0])
	} else {
		a.conds = append(a.conds, condLemma{pre: []Lin{X}, post: []Lin{q, lo[0], hi[0]}, why: "quotient of non-negative"})
		// for negative X truncation goes the other way: |k*q| <= |X|
		a.conds = append(a.conds, condLemma{pre: []Lin{Scale(X, -1)}, post: []Lin{Scale(q, -1), Add(Scale(q, k), X, -1)}, why: "quotient of non-positive"})
	}
	// integer rounding of an upper bound: X <= j*k - 1 gives q <= j - 1 (the rational relaxation only gives
	// q <= j - 1/k); needed for `for i := range [16]…  { data[i/8] }` with len(data) == 2
	if k >= 2 && k <= 64 {
		for j := int64(1); j <= 16; j++ {
			a.conds = append(a.conds, condLemma{pre: []Lin{Scale(X, -1).plus(j*k - 1)}, post: []Lin{Scale(q, -1).plus(j - 1)}, why: "quotient of a value below a multiple of the divisor"})
		}
	}
	return at
}

// LenOf evaluates the length of a slice / string / array-pointer value.
func (a *FuncAn) LenOf(v ssa.Value) Lin {
	v = a.cv(v)
	if l, ok := a.lenMemo[v]; ok {
		return l
	}
	l := a.len0(v)
	a.lenMemo[v] = l
	return l
}

// CapOf: the capacity of a slice value. The upper bound of a slice expression on a slice is its capacity, not its
// length (`b[:cap(b)]`, `scratch[:n]` after `cap(scratch) >= n`); for strings and arrays the two coincide.
func (a *FuncAn) CapOf(v ssa.Value) Lin {
	v = a.cv(v)
	if n, ok := arrayLen(v.Type()); ok {
		return Konst(n)
	}
	if _, isSlice := v.Type().Underlying().(*types.Slice); !isSlice {
		return a.LenOf(v)
	}
	if a.capMemo == nil {
		a.capMemo = map[ssa.Value]Lin{}
	}
	if l, ok := a.capMemo[v]; ok {
		return l
	}
	var l Lin
	done := false
	switch x := v.(type) {
	case *ssa.MakeSlice:
		l, done = a.Lin(x.Cap), true
	case *ssa.Slice:
		lo := Konst(0)
		if x.Low != nil {
			lo = a.Lin(x.Low)
		}
		switch {
		case x.Max != nil:
			l, done = Add(a.Lin(x.Max), lo, -1), true
		default:
			if n, ok := arrayLen(x.X.Type()); ok {
				l, done = Add(Konst(n), lo, -1), true
			} else if _, isSl := x.X.Type().Underlying().(*types.Slice); isSl {
				l, done = Add(a.CapOf(x.X), lo, -1), true
			}
		}
	case *ssa.Const:
		if x.Value == nil {
			l, done = Konst(0), true
		}
	}
	if !done {
		at := a.atom("cap:"+v.Name()+fmt.Sprintf("%p", v), "cap("+a.valName(v)+")", true)
		if ins, ok := v.(ssa.Instruction); ok {
			a.atomDef[at] = ins.Block()
		}
		if a.capAtomOf == nil {
			a.capAtomOf = map[*Atom]ssa.Value{}
		}
		a.capAtomOf[at] = v
		l = AtomLin(at)
		ln := a.LenOf(v)
		if ln.synNonNeg() {
			a.lemma(Add(l, ln, -1)) // cap >= len
		} else {
			a.conds = append(a.conds, condLemma{pre: []Lin{ln}, post: []Lin{Add(l, ln, -1)}, why: "capacity is at least the length"})
		}
	}
	a.capMemo[v] = l
	return l
}

func arrayLen(t types.Type) (int64, bool) {
	if p, ok := t.Underlying().(*types.Pointer); ok {
		t = p.Elem()
	}
	if ar, ok := t.Underlying().(*types.Array); ok {
		return ar.Len(), true
	}
	return 0, false
}

func (a *FuncAn) lenAtom(v ssa.Value) Lin {
	at := a.atom("len:"+v.Name()+fmt.Sprintf("%p", v), "len("+a.valName(v)+")", true)
	if a.lenAtomOf == nil {
		a.lenAtomOf = map[*Atom]ssa.Value{}
	}
	a.lenAtomOf[at] = v
	if ins, ok := v.(ssa.Instruction); ok {
		a.atomDef[at] = ins.Block()
	}
	switch x := v.(type) {
	case *ssa.Parameter:
		at.Input = true
	case *ssa.UnOp:
		if x.Op == token.MUL {
			a.atomLoad[at] = x
			if p := a.pathOf(x.X); p != nil {
				if _, ok := p.root.(*ssa.Parameter); ok {
					at.Input = true
				}
			}
		}
	}
	return AtomLin(at)
}

func (a *FuncAn) len0(v ssa.Value) Lin {
	if n, ok := arrayLen(v.Type()); ok {
		return Konst(n)
	}
	switch x := v.(type) {
	case *ssa.Slice:
		var base Lin
		if n, ok := arrayLen(x.X.Type()); ok {
			base = Konst(n)
		} else {
			base = a.LenOf(x.X)
		}
		hi, lo := base, Konst(0)
		if x.High != nil {
			hi = a.Lin(x.High)
		}
		if x.Low != nil {
			lo = a.Lin(x.Low)
		}
		return Add(hi, lo, -1)
	case *ssa.MakeSlice:
		return a.Lin(x.Len)
	case *ssa.Const:
		if x.Value == nil {
			return Konst(0)
		}
		if x.Value.Kind() == constant.String {
			return Konst(int64(len(constant.StringVal(x.Value))))
		}
	case *ssa.Convert:
		// string <-> []byte keep the byte length
		if isByteSeq(x.Type()) && isByteSeq(x.X.Type()) {
			return a.LenOf(x.X)
		}
	case *ssa.Call:
		if b, ok := x.Call.Value.(*ssa.Builtin); ok && b.Name() == "append" {
			l := a.LenOf(x.Call.Args[0])
			if len(x.Call.Args) == 2 {
				l = Add(l, a.LenOf(x.Call.Args[1]), 1)
			}
			return l
		}
		if l, ok := a.callLen(x, 0); ok {
			return l
		}
	case *ssa.Extract:
		if c, ok := x.Tuple.(*ssa.Call); ok {
			if l, ok := a.callLen(c, x.Index); ok {
				return l
			}
		}
	case *ssa.BinOp:
		if x.Op == token.ADD { // string concatenation
			return Add(a.LenOf(x.X), a.LenOf(x.Y), 1)
		}
	case *ssa.Index, *ssa.Lookup, *ssa.UnOp:
		// element of a slice of slices / map of slices: use the element-length invariant when known
		if l, ok := a.elemLenOfElement(v); ok {
			return l
		}
	}
	return a.lenAtom(v)
}

func isByteSeq(t types.Type) bool {
	switch u := t.Underlying().(type) {
	case *types.Basic:
		return u.Info()&types.IsString != 0
	case *types.Slice:
		b, ok := u.Elem().Underlying().(*types.Basic)
		return ok && b.Kind() == types.Uint8
	}
	return false
}
