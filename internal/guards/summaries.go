package guards

import (
	"fmt"
	"go/constant"
	"go/token"
	"go/types"
	"os"

	"golang.org/x/tools/go/ssa"
)

// ResSummary: what is known about one result of a function on every return.
type ResSummary struct {
	HasLo, HasHi bool
	Lo, Hi       int64 // integer result bounds; for sequence results: bounds of the length
	CondNonNeg   bool  // integer result >= 0 provided every integer argument is >= 0
	LenParam     *ParamLin
	ValParam     *ParamLin
	NonNil       bool
	NonNilOnOK   bool   // non-nil on every return whose error result is the nil constant
	OKLo         *int64 // lower bound of the value / length on returns whose error result is nil
	OKLenParam   *ParamLin
}

// ParamLin is a linear expression over a function's own parameters:  sum k*param_i + sum k*len(param_j) + C.
type ParamLin struct {
	Val map[int]int64
	Len map[int]int64
	// Proj: integer fields of struct-valued parameters (`k.size` of a value receiver), keyed "param.f1.f2"
	Proj map[string]projCoef
	C    int64
}

type projCoef struct {
	param int
	proj  []int
	k     int64
}

func (p *ParamLin) equal(o *ParamLin) bool {
	if p == nil || o == nil {
		return p == o
	}
	if p.C != o.C || len(p.Val) != len(o.Val) || len(p.Len) != len(o.Len) || len(p.Proj) != len(o.Proj) {
		return false
	}
	for k, v := range p.Proj {
		if o.Proj[k].k != v.k {
			return false
		}
	}
	for k, v := range p.Val {
		if o.Val[k] != v {
			return false
		}
	}
	for k, v := range p.Len {
		if o.Len[k] != v {
			return false
		}
	}
	return true
}

type Summary struct {
	Res    []ResSummary
	ErrIdx int  // index of the success indicator: the error result, or (comma-ok idiom) a trailing bool when there is no error result; -1 if none
	OkBool bool // the indicator is a bool that is true on success
	// OKFacts: linear facts g >= 0 over the function's own parameters (values and lengths) that hold at every return
	// whose success indicator says "ok" (nil error / true): what a validation helper such as
	// `func checkLen(data []byte, n int) error` establishes for its caller on the err == nil branch.
	OKFacts []*ParamLin
	// RelFacts: Sign*result_j + PL(params) >= 0 on every return (value of an integer result, length of a sequence
	// result), e.g. "the returned index is below the column count it was given".
	RelFacts []RelFact
	// ElemLen: result index -> length of every element of a slice-of-slices result, over the parameters
	ElemLen map[int]*ParamLin
}

type RelFact struct {
	Res  int
	Sign int64
	PL   *ParamLin
}

func (r RelFact) equal(o RelFact) bool { return r.Res == o.Res && r.Sign == o.Sign && r.PL.equal(o.PL) }

// succIndex: the error result, else a trailing bool result of a multi-result function (`v, ok := f()`).
func succIndex(sig *types.Signature) (int, bool) {
	if i := errIndex(sig); i >= 0 {
		return i, false
	}
	r := sig.Results()
	if n := r.Len(); n >= 2 {
		if b, ok := r.At(n - 1).Type().Underlying().(*types.Basic); ok && b.Kind() == types.Bool {
			return n - 1, true
		}
	}
	return -1, false
}

func isTrueConst(v ssa.Value) bool {
	k, ok := v.(*ssa.Const)
	return ok && k.Value != nil && k.Value.Kind() == constant.Bool && constant.BoolVal(k.Value)
}

func errIndex(sig *types.Signature) int {
	r := sig.Results()
	for i := r.Len() - 1; i >= 0; i-- {
		if n, ok := r.At(i).Type().(*types.Named); ok && n.Obj().Name() == "error" && n.Obj().Pkg() == nil {
			return i
		}
	}
	return -1
}

// toParamLin expresses l over the parameters of a.Fn, if every atom is a parameter or the length of one.
func (a *FuncAn) toParamLin(l Lin) *ParamLin {
	pl := &ParamLin{Val: map[int]int64{}, Len: map[int]int64{}, C: l.C}
	for _, t := range l.t {
		found := false
		for i, p := range a.Fn.Params {
			if _, _, ok := a.E.intInfo(p.Type()); ok {
				pla := a.Lin(p)
				if len(pla.t) == 1 && pla.t[0].a == t.a {
					pl.Val[i] += t.k
					found = true
					break
				}
			} else if isSeq(p.Type()) {
				pla := a.LenOf(p)
				if len(pla.t) == 1 && pla.t[0].a == t.a {
					pl.Len[i] += t.k
					found = true
					break
				}
			}
		}
		if !found {
			if pc, ok := a.projAtoms()[t.a]; ok {
				if pl.Proj == nil {
					pl.Proj = map[string]projCoef{}
				}
				key := fmt.Sprint(pc.param, pc.proj)
				cur := pl.Proj[key]
				pl.Proj[key] = projCoef{param: pc.param, proj: pc.proj, k: cur.k + t.k}
				found = true
			}
		}
		if !found {
			return nil
		}
	}
	return pl
}

// equalParamLin: an expression over the parameters that the facts at block b make equal to l. l is a single atom (the
// length of a local value); the candidates come from the comparisons the function branches on: from `len(b) != k.size`
// not taken,  len(b) - k.size == 0  gives  len(b) = k.size.
func (a *FuncAn) equalParamLin(b *ssa.BasicBlock, l Lin) *ParamLin {
	if len(l.t) != 1 || l.t[0].k != 1 {
		return nil
	}
	at := l.t[0].a
	for _, bb := range a.Fn.Blocks {
		iff, ok := bb.Instrs[len(bb.Instrs)-1].(*ssa.If)
		if !ok {
			continue
		}
		cond := iff.Cond
		for {
			u, isNot := cond.(*ssa.UnOp)
			if !isNot || u.Op != token.NOT {
				break
			}
			cond = u.X
		}
		c, ok := cond.(*ssa.BinOp)
		if !ok || (c.Op != token.EQL && c.Op != token.NEQ) {
			continue
		}
		if _, _, isInt := a.E.intInfo(c.X.Type()); !isInt {
			continue
		}
		d := Add(a.Lin(c.X), a.Lin(c.Y), -1)
		k := d.Coef(at)
		if k != 1 && k != -1 {
			continue
		}
		if !a.Entails(b, d) || !a.Entails(b, Scale(d, -1)) {
			continue
		}
		// l - k*d does not mention the atom and equals l where d == 0
		if pl := a.toParamLin(Add(l, d, -k)); pl != nil {
			return pl
		}
	}
	return nil
}

// projAtoms: atoms that stand for an integer field (chain) of a struct-valued parameter.
func (a *FuncAn) projAtoms() map[*Atom]projCoef {
	if a.projAtom != nil {
		return a.projAtom
	}
	a.projAtom = map[*Atom]projCoef{}
	for _, b := range a.Fn.Blocks {
		for _, ins := range b.Instrs {
			fl, ok := ins.(ssa.Value)
			if !ok {
				continue
			}
			switch ins.(type) {
			case *ssa.Field, *ssa.UnOp:
			default:
				continue
			}
			if _, _, isInt := a.E.intInfo(fl.Type()); !isInt {
				continue
			}
			t, ok := paramTerm(a.Fn, fl)
			if !ok || t.param >= 1000 || len(t.proj) == 0 {
				continue
			}
			l := a.Lin(fl)
			if len(l.t) == 1 && l.C == 0 && l.t[0].k == 1 {
				a.projAtom[l.t[0].a] = projCoef{param: t.param, proj: t.proj}
			}
		}
	}
	return a.projAtom
}

// instantiate evaluates a callee's ParamLin at a call site of the caller a.
func (a *FuncAn) instantiate(pl *ParamLin, call *ssa.Call) (Lin, bool) {
	args := call.Call.Args
	if call.Call.IsInvoke() {
		args = append([]ssa.Value{call.Call.Value}, args...)
	}
	r := Konst(pl.C)
	for i, k := range pl.Val {
		if i >= len(args) {
			return Lin{}, false
		}
		r = Add(r, a.Lin(args[i]), k)
	}
	for i, k := range pl.Len {
		if i >= len(args) {
			return Lin{}, false
		}
		r = Add(r, a.LenOf(args[i]), k)
	}
	for _, pc := range pl.Proj {
		if pc.param >= len(args) {
			return Lin{}, false
		}
		ct, ok := a.projectValue(args[pc.param], pc.proj)
		if !ok {
			return Lin{}, false
		}
		typ := projType(args[pc.param].Type(), pc.proj)
		if typ == nil {
			return Lin{}, false
		}
		r = Add(r, a.ctermLin(ct, typ), pc.k)
	}
	return r, true
}

func projType(t types.Type, proj []int) types.Type {
	for _, fi := range proj {
		st, ok := t.Underlying().(*types.Struct)
		if !ok || fi >= st.NumFields() {
			return nil
		}
		t = st.Field(fi).Type()
	}
	return t
}

// Summarize computes the result summary of a module function from its own analysis.
func (e *Engine) Summarize(f *ssa.Function) *Summary {
	if s, ok := e.sums[f]; ok {
		return s
	}
	if f.Blocks == nil || !e.InModule(f) {
		s := externSummary(f)
		e.sums[f] = s
		return s
	}
	if e.sumBusy[f] {
		return nil
	}
	e.sumBusy[f] = true
	defer delete(e.sumBusy, f)
	a := e.Analyze(f)
	if a == nil || !a.Converged {
		return nil
	}
	nres := f.Signature.Results().Len()
	s := &Summary{Res: make([]ResSummary, nres)}
	s.ErrIdx, s.OkBool = succIndex(f.Signature)
	type ret struct {
		b   *ssa.BasicBlock
		r   *ssa.Return
		okp bool // error result is the nil constant
	}
	var rets []ret
	for _, b := range f.Blocks {
		if r, ok := b.Instrs[len(b.Instrs)-1].(*ssa.Return); ok && a.in[b] != nil {
			okp := s.ErrIdx >= 0 && ((!s.OkBool && isNilConst(a.cv(r.Results[s.ErrIdx]))) || (s.OkBool && isTrueConst(a.cv(r.Results[s.ErrIdx]))))
			rets = append(rets, ret{b, r, okp})
		}
	}
	if len(rets) == 0 {
		e.sums[f] = s
		return s
	}
	s.OKFacts = a.okFacts(func(yield func(*ssa.BasicBlock)) {
		for _, r := range rets {
			if r.okp {
				yield(r.b)
			}
		}
	})
	for j := 0; j < nres; j++ {
		if t := f.Signature.Results().At(j).Type(); isSliceOfSeq(t) && a.elemsStable(t) {
			var pl *ParamLin
			good, some := true, false
			for _, r := range rets {
				er := a.elemLenOf(r.r.Results[j], map[ssa.Value]bool{})
				if !er.ok {
					good = false
					break
				}
				if er.any {
					continue
				}
				q := a.toParamLin(er.l)
				if q == nil || (some && !pl.equal(q)) {
					good = false
					break
				}
				pl, some = q, true
			}
			if good && some {
				if s.ElemLen == nil {
					s.ElemLen = map[int]*ParamLin{}
				}
				s.ElemLen[j] = pl
			}
		}
	}
	for j := 0; j < nres; j++ {
		rs := &s.Res[j]
		t := f.Signature.Results().At(j).Type()
		_, _, isInt := e.intInfo(t)
		seq := isSeq(t)
		if isInt || seq {
			val := func(r ret) Lin {
				if isInt {
					return a.Lin(r.r.Results[j])
				}
				return a.LenOf(r.r.Results[j])
			}
			// relations between the result and one parameter
			for i, p := range f.Params {
				var pl Lin
				if _, _, ok := e.intInfo(p.Type()); ok {
					pl = a.Lin(p)
				} else if isSeq(p.Type()) {
					pl = a.LenOf(p)
				} else {
					continue
				}
				_ = i
				for _, cand := range []struct {
					sign int64
					c    int64
				}{{-1, -1}, {-1, 0}, {1, 0}} {
					all := true
					var g0 Lin
					for k, r := range rets {
						// sign*res + (-sign)*param + c >= 0
						g := Add(Scale(val(r), cand.sign), pl, -cand.sign).plus(cand.c)
						if k == 0 {
							g0 = g
						}
						if len(g.t) == 0 || !a.Entails(r.b, g) {
							all = false
							break
						}
					}
					_ = g0
					if all {
						if ppl := a.toParamLin(Scale(pl, -cand.sign).plus(cand.c)); ppl != nil {
							s.RelFacts = append(s.RelFacts, RelFact{Res: j, Sign: cand.sign, PL: ppl})
							break
						}
					}
				}
			}
			// candidate constant bounds: the constants returned somewhere, 0 and 1
			var consts []int64
			for _, r := range rets {
				// the constant itself, or the additive constant of e.g. 2 + len(p.Payload)
				consts = append(consts, val(r).C)
			}
			bound := func(sel func(ret) bool, lower bool) (int64, bool) {
				cands := append([]int64{0, 1}, consts...)
				best, has := int64(0), false
				for _, c := range cands {
					ok := true
					for _, r := range rets {
						if !sel(r) {
							continue
						}
						g := val(r).plus(-c)
						if !lower {
							g = Scale(val(r), -1).plus(c)
						}
						if !a.Entails(r.b, g) {
							ok = false
							break
						}
					}
					if ok && (!has || (lower && c > best) || (!lower && c < best)) {
						best, has = c, true
					}
				}
				return best, has
			}
			all := func(ret) bool { return true }
			rs.Lo, rs.HasLo = bound(all, true)
			rs.Hi, rs.HasHi = bound(all, false)
			if seq && !rs.HasLo {
				rs.Lo, rs.HasLo = 0, true
			}
			if s.ErrIdx >= 0 && j != s.ErrIdx {
				anyOK := false
				for _, r := range rets {
					anyOK = anyOK || r.okp
				}
				if anyOK {
					if lo, has := bound(func(r ret) bool { return r.okp }, true); has {
						rs.OKLo = &lo
					}
				}
			}
			// exact expression over the parameters
			var pl, okpl *ParamLin
			same, sameOK, nOK := true, true, 0
			for i, r := range rets {
				p := a.toParamLin(val(r))
				if p == nil && seq && r.okp {
					p = a.equalParamLin(r.b, val(r))
				}
				if i == 0 {
					pl = p
				} else if !pl.equal(p) {
					same = false
				}
				if r.okp {
					if nOK == 0 {
						okpl = p
					} else if !okpl.equal(p) {
						sameOK = false
					}
					nOK++
				}
			}
			if same && pl != nil {
				if isInt {
					rs.ValParam = pl
				} else {
					rs.LenParam = pl
				}
			}
			if seq && nOK > 0 && sameOK && okpl != nil {
				rs.OKLenParam = okpl
			}
			if isInt && !(rs.HasLo && rs.Lo >= 0) {
				rs.CondNonNeg = e.condNonNeg(f, j)
			}
		}
		switch t.Underlying().(type) {
		case *types.Pointer, *types.Interface, *types.Map, *types.Signature, *types.Chan:
			nn, nnok, anyOK := true, true, false
			for _, r := range rets {
				v := a.isNonNil(a.out[r.b], r.r.Results[j])
				if !v {
					nn = false
					if r.okp {
						nnok = false
					}
				}
				anyOK = anyOK || r.okp
			}
			rs.NonNil = nn
			rs.NonNilOnOK = nnok && anyOK
		}
	}
	e.sums[f] = s
	return s
}

// okFacts: candidates are the integer comparisons the function itself branches on, expressed over its parameters
// (x - y, y - x, each also minus one); kept are those entailed at every success return.
func (a *FuncAn) okFacts(okBlocks func(func(*ssa.BasicBlock))) []*ParamLin {
	var blocks []*ssa.BasicBlock
	okBlocks(func(b *ssa.BasicBlock) { blocks = append(blocks, b) })
	if len(blocks) == 0 {
		return nil
	}
	var out []*ParamLin
	seen := map[string]bool{}
	for _, b := range a.Fn.Blocks {
		iff, ok := b.Instrs[len(b.Instrs)-1].(*ssa.If)
		if !ok {
			continue
		}
		var cmps []*ssa.BinOp
		var walk func(v ssa.Value, d int)
		walk = func(v ssa.Value, d int) {
			if d > 3 {
				return
			}
			switch x := v.(type) {
			case *ssa.BinOp:
				switch x.Op {
				case token.LSS, token.LEQ, token.GTR, token.GEQ, token.EQL, token.NEQ:
					if _, _, isInt := a.E.intInfo(x.X.Type()); isInt {
						cmps = append(cmps, x)
					}
				}
			case *ssa.UnOp:
				if x.Op == token.NOT {
					walk(x.X, d+1)
				}
			}
		}
		walk(iff.Cond, 0)
		for _, c := range cmps {
			d := Add(a.Lin(c.X), a.Lin(c.Y), -1)
			for _, g := range []Lin{d, d.plus(-1), Scale(d, -1), Scale(d, -1).plus(-1)} {
				pl := a.toParamLin(g)
				if pl == nil || (len(pl.Val) == 0 && len(pl.Len) == 0) {
					continue
				}
				k := fmt.Sprint(pl.Val, pl.Len, pl.Proj, pl.C)
				if seen[k] {
					continue
				}
				seen[k] = true
				all := true
				for _, rb := range blocks {
					if !a.Entails(rb, g) {
						all = false
						break
					}
				}
				if all {
					out = append(out, pl)
				}
			}
		}
	}
	return out
}

// condNonNeg: re-analyse f under the assumption that every integer parameter is >= 0.
func (e *Engine) condNonNeg(f *ssa.Function, j int) bool {
	hasInt := false
	for _, p := range f.Params {
		if _, uns, ok := e.intInfo(p.Type()); ok && !uns {
			hasInt = true
		}
	}
	if !hasInt || len(f.Blocks) > 12 {
		return false
	}
	a := e.newFuncAn(f)
	entry := NewState()
	for _, p := range f.Params {
		if _, _, ok := e.intInfo(p.Type()); ok {
			entry.AddFact(a.Lin(p))
		}
	}
	a.entry = entry
	a.run()
	if !a.Converged {
		return false
	}
	for _, b := range f.Blocks {
		if r, ok := b.Instrs[len(b.Instrs)-1].(*ssa.Return); ok && a.in[b] != nil {
			if !a.Entails(b, a.Lin(r.Results[j])) {
				return false
			}
		}
	}
	return true
}

// externSummary: table for functions outside the module.
func externSummary(f *ssa.Function) *Summary {
	n := f.Signature.Results().Len()
	s := &Summary{Res: make([]ResSummary, n), ErrIdx: errIndex(f.Signature)}
	name := FuncFullName(f)
	switch name {
	case "errors.New", "fmt.Errorf", "github.com/pkg/errors.New", "github.com/pkg/errors.Errorf":
		s.Res[0].NonNil = true
	case "crypto/aes.NewCipher", "github.com/jacobsa/crypto/cmac.New":
		s.Res[0].NonNilOnOK = true
	}
	for j := 0; j < n; j++ {
		if isSeq(f.Signature.Results().At(j).Type()) {
			s.Res[j].HasLo = true
		}
	}
	return s
}

func (e *Engine) joinSummaries(call *ssa.Call) ([]*Summary, bool) {
	if _, ok := call.Call.Value.(*ssa.Builtin); ok {
		return nil, false
	}
	cs := e.Callees(call)
	if len(cs) == 0 {
		return nil, false
	}
	var out []*Summary
	for _, c := range cs {
		s := e.Summarize(c)
		if s == nil {
			return nil, false
		}
		out = append(out, s)
	}
	return out, true
}

// callResult: the integer value of result idx of a call.
func (a *FuncAn) callResult(v ssa.Value, call *ssa.Call, idx int, single bool) Lin {
	_, uns, isInt := a.E.intInfo(v.Type())
	if !isInt {
		return a.opaque(v)
	}
	// piecewise-constant callee evaluated under the caller's facts
	if dcs := a.decidedCases(call); len(dcs) > 0 {
		lo, hi := dcs[0].val, dcs[0].val
		for _, dc := range dcs {
			if dc.val < lo {
				lo = dc.val
			}
			if dc.val > hi {
				hi = dc.val
			}
		}
		if lo == hi {
			return Konst(lo)
		}
		l := a.opaque(v)
		at := l.t[0].a
		if !a.inited2[at] {
			a.inited2[at] = true
			a.bounds(at, &lo, &hi)
			for _, dc := range dcs {
				eq := l.plus(-dc.val)
				a.conds = append(a.conds, condLemma{preLits: dc.lits, post: []Lin{eq, Scale(eq, -1)}, why: "piecewise-constant callee under the caller's branch facts"})
			}
		}
		return l
	}
	// documented result ranges of a few external callees
	if call.Call.IsInvoke() && call.Call.Method != nil {
		switch "(" + types.TypeString(call.Call.Value.Type(), nil) + ")." + call.Call.Method.Name() {
		case "(crypto/cipher.Block).BlockSize", "(crypto/cipher.BlockMode).BlockSize", "(hash.Hash).Size", "(hash.Hash).BlockSize":
			// "BlockSize returns the cipher's block size": a positive constant of the implementation
			l := a.opaque(v)
			if at := l.t[0].a; !a.inited2[at] {
				a.inited2[at] = true
				one := int64(1)
				a.bounds(at, &one, nil)
			}
			return l
		}
	}
	if sc := call.Call.StaticCallee(); sc != nil && idx == 0 {
		switch sc.String() {
		case "encoding/hex.Decode", "encoding/hex.Encode", "copy", "(*bytes.Buffer).Len", "(*bytes.Reader).Len", "(*strings.Builder).Len",
			"encoding/base64.(*Encoding).Decode", "(*encoding/base64.Encoding).Decode", "(*encoding/base64.Encoding).EncodedLen", "(*encoding/base64.Encoding).DecodedLen",
			"encoding/hex.EncodedLen", "encoding/hex.DecodedLen", "encoding/binary.PutUvarint", "encoding/binary.PutVarint", "unicode/utf8.RuneCountInString", "unicode/utf8.RuneCount", "unicode/utf8.RuneLen":
			// "returns the number of bytes written / decoded", a length or a count: never negative (RuneLen: -1 excluded by
			// not listing a tighter bound; only the documented sign is used)
			if sc.String() == "unicode/utf8.RuneLen" {
				break
			}
			l := a.opaque(v)
			if at := l.t[0].a; !a.inited2[at] {
				a.inited2[at] = true
				zero := int64(0)
				a.bounds(at, &zero, nil)
				// hex.Decode / base64 Decode write at most len(dst) bytes
				if (sc.String() == "encoding/hex.Decode" || sc.String() == "encoding/hex.Encode") && len(call.Call.Args) == 2 {
					a.lemma(Add(a.LenOf(call.Call.Args[0]), l, -1))
				}
			}
			return l
		}
	}
	sums, ok := a.E.joinSummaries(call)
	if !ok {
		return a.opaque(v)
	}
	var lo, hi int64
	hasLo, hasHi, condNN := true, true, true
	var pl *ParamLin
	var okLo *int64
	for i, s := range sums {
		if idx >= len(s.Res) {
			return a.opaque(v)
		}
		r := s.Res[idx]
		if i == 0 {
			pl = r.ValParam
			okLo = r.OKLo
		} else {
			if !pl.equal(r.ValParam) {
				pl = nil
			}
			if okLo != nil && (r.OKLo == nil || *r.OKLo < *okLo) {
				okLo = r.OKLo
			}
		}
		if !r.HasLo {
			hasLo = false
		} else if i == 0 || r.Lo < lo {
			lo = r.Lo
		}
		if !r.HasHi {
			hasHi = false
		} else if i == 0 || r.Hi > hi {
			hi = r.Hi
		}
		if !(r.CondNonNeg || (r.HasLo && r.Lo >= 0)) {
			condNN = false
		}
	}
	if hasLo && hasHi && lo == hi {
		return Konst(lo)
	}
	if pl != nil {
		if l, ok := a.instantiate(pl, call); ok {
			return l
		}
	}
	l := a.opaque(v)
	at := l.t[0].a
	if !a.inited2[at] {
		a.inited2[at] = true
		a.relLemmas(sums, call, idx, l)
		a.countLemma(call, l)
		if hasLo {
			a.bounds(at, &lo, nil)
		}
		if hasHi {
			a.bounds(at, nil, &hi)
		}
		if uns {
			at.NonNeg = true
		}
		// a tighter lower bound on the success path of the callee (released where the call's error is known nil)
		if okLo != nil && (!hasLo || *okLo > lo) {
			a.conds = append(a.conds, condLemma{okCall: call, post: []Lin{l.plus(-*okLo)}, why: "value on the success path of the callee"})
		}
		if condNN && !(hasLo && lo >= 0) {
			var pre []Lin
			for _, arg := range call.Call.Args {
				if _, u, ok := a.E.intInfo(arg.Type()); ok && !u {
					pre = append(pre, a.Lin(arg))
				}
			}
			a.conds = append(a.conds, condLemma{pre: pre, post: []Lin{l}, why: "callee returns >= 0 for arguments >= 0"})
		}
	}
	return l
}

// relLemmas releases the result/parameter relations every possible callee guarantees.
func (a *FuncAn) relLemmas(sums []*Summary, call *ssa.Call, idx int, l Lin) {
	if len(sums) == 0 {
		return
	}
	for _, rf := range sums[0].RelFacts {
		if rf.Res != idx {
			continue
		}
		all := true
		for _, sm := range sums[1:] {
			found := false
			for _, q := range sm.RelFacts {
				if rf.equal(q) {
					found = true
				}
			}
			all = all && found
		}
		if !all {
			continue
		}
		if inst, ok := a.instantiate(rf.PL, call); ok {
			a.lemma(Add(Scale(l, rf.Sign), inst, 1))
		}
	}
}

// callLen: the length of sequence result idx of a call.
func (a *FuncAn) callLen(call *ssa.Call, idx int) (Lin, bool) {
	sums, ok := a.E.joinSummaries(call)
	if !ok {
		return Lin{}, false
	}
	var lo, hi int64
	hasLo, hasHi := true, true
	var pl, okpl *ParamLin
	var okLo *int64
	for i, s := range sums {
		if idx >= len(s.Res) {
			return Lin{}, false
		}
		r := s.Res[idx]
		if i == 0 {
			pl, okpl, okLo = r.LenParam, r.OKLenParam, r.OKLo
		} else {
			if !pl.equal(r.LenParam) {
				pl = nil
			}
			if !okpl.equal(r.OKLenParam) {
				okpl = nil
			}
			if okLo != nil && (r.OKLo == nil || *r.OKLo < *okLo) {
				okLo = r.OKLo
			}
		}
		if !r.HasLo {
			hasLo = false
		} else if i == 0 || r.Lo < lo {
			lo = r.Lo
		}
		if !r.HasHi {
			hasHi = false
		} else if i == 0 || r.Hi > hi {
			hi = r.Hi
		}
	}
	if hasLo && hasHi && lo == hi {
		return Konst(lo), true
	}
	if pl != nil {
		if l, ok := a.instantiate(pl, call); ok {
			return l, true
		}
	}
	var v ssa.Value = call
	if call.Type() != nil {
		if _, isTuple := call.Type().(*types.Tuple); isTuple {
			for _, r := range *call.Referrers() {
				if ex, ok := r.(*ssa.Extract); ok && ex.Index == idx {
					v = ex
				}
			}
		}
	}
	l := a.lenAtom(v)
	at := l.t[0].a
	if !a.inited2[at] {
		a.inited2[at] = true
		a.relLemmas(sums, call, idx, l)
		if hasLo && lo > 0 {
			a.bounds(at, &lo, nil)
		}
		if hasHi {
			a.bounds(at, nil, &hi)
		}
		// facts that hold when the call returned a nil error
		var post []Lin
		if okLo != nil && *okLo > 0 {
			post = append(post, l.plus(-*okLo))
		}
		if okpl != nil {
			if inst, ok := a.instantiate(okpl, call); ok {
				post = append(post, Add(l, inst, -1), Add(inst, l, -1))
			}
		}
		if len(post) > 0 {
			a.conds = append(a.conds, condLemma{okCall: call, post: post, why: "length on the success path of the callee"})
		}
	}
	return l, true
}

func (e *Engine) resultNonNil(a *FuncAn, call *ssa.Call, idx int) bool {
	sums, ok := e.joinSummaries(call)
	if !ok {
		return false
	}
	for _, s := range sums {
		if idx >= len(s.Res) || !s.Res[idx].NonNil {
			return false
		}
	}
	return true
}

// nonNilOnSuccess: for a call whose result errIdx is the error, which other results are non-nil when
// the error is nil.
func (e *Engine) nonNilOnSuccess(a *FuncAn, call *ssa.Call, errIdx int) []bool {
	sums, ok := e.joinSummaries(call)
	if !ok {
		return nil
	}
	var out []bool
	for i, s := range sums {
		if s.ErrIdx != errIdx {
			return nil
		}
		if i == 0 {
			out = make([]bool, len(s.Res))
			for j := range out {
				out[j] = true
			}
		}
		for j := range out {
			if j >= len(s.Res) || !(s.Res[j].NonNilOnOK || s.Res[j].NonNil) {
				out[j] = false
			}
		}
	}
	return out
}

// ---------------------------------------------------------------------------
// field invariants: every store to an unexported integer field anywhere in the module stores a value >= c

func fieldVar(fa *ssa.FieldAddr) *types.Var {
	st, ok := derefType(fa.X.Type()).Underlying().(*types.Struct)
	if !ok {
		return nil
	}
	return st.Field(fa.Field)
}

func (e *Engine) fieldLowerBound(fa *ssa.FieldAddr) (int64, bool) {
	v := fieldVar(fa)
	if v == nil {
		return 0, false
	}
	return e.fieldLowerBoundVar(v)
}

func (e *Engine) fieldLowerBoundVar(v *types.Var) (int64, bool) {
	if v.Exported() || v.Pkg() == nil {
		return 0, false
	}
	if r, ok := e.fieldInv[v]; ok {
		return r.lo, r.has
	}
	e.fieldInv[v] = fieldInvRes{} // cycle: no bound
	var stores []*ssa.Store
	for _, f := range e.moduleFuncs {
		if f.Blocks == nil {
			continue
		}
		for _, b := range f.Blocks {
			for _, ins := range b.Instrs {
				if st, ok := ins.(*ssa.Store); ok {
					if fa, ok := st.Addr.(*ssa.FieldAddr); ok && fieldVar(fa) == v {
						stores = append(stores, st)
					}
				}
			}
		}
	}
	res := fieldInvRes{lo: 0, has: true}
	var pending []*ssa.Store
	for _, st := range stores {
		if c, ok := ConstInt(st.Val); ok {
			if c < 0 {
				res.has = false
			}
			continue
		}
		a := e.Analyze(st.Parent())
		if a == nil || !a.Converged || !a.Entails(st.Block(), a.Lin(st.Val)) {
			// the storing function may establish the sign only with what its call sites guarantee
			if e.Scope != nil && e.Scope[st.Parent()] && !e.Roots[st.Parent()] {
				if ca := e.AnalyzeCtx(st.Parent()); ca != nil && ca.Converged && ca.Entails(st.Block(), ca.Lin(st.Val)) {
					continue
				}
			}
			pending = append(pending, st)
		}
	}
	if res.has && len(pending) > 0 && len(pending) <= 4 {
		// induction over the writers: the zero value satisfies the bound; a store of an expression over the field
		// itself (pos = pos + n) preserves it when it does so under the assumption that loads of the field see a
		// value >= 0. The assumption is visible only to throw-away analyses of the storing functions.
		e.fieldInv[v] = fieldInvRes{lo: 0, has: true}
		for _, st := range pending {
			a := e.newFuncAn(st.Parent())
			a.run()
			if !a.Converged || !a.Entails(st.Block(), a.Lin(st.Val)) {
				res.has = false
				res.witness = fmt.Sprintf("%s stores a value of unknown sign", st.Parent().String())
				break
			}
		}
		if !res.has {
			// nothing computed under the failed assumption may survive: summaries of callees were cached meanwhile
			e.fieldInv[v] = res
			e.fas = map[*ssa.Function]*FuncAn{}
			e.ctxFas = map[*ssa.Function]*FuncAn{}
			e.sums = map[*ssa.Function]*Summary{}
			e.decs = map[*ssa.Function]*DecSummary{}
			return res.lo, res.has
		}
	} else if len(pending) > 0 {
		res.has = false
		res.witness = fmt.Sprintf("%s stores a value of unknown sign", pending[0].Parent().String())
	}
	if res.has && len(pending) > 0 {
		e.invGen++ // analyses cached so far did not know this bound: callers restart (see analyzeFresh)
	}
	if os.Getenv("LW_FIELDDEBUG") != "" {
		fmt.Fprintf(os.Stderr, "fieldinv %s.%s: has=%v stores=%d pending=%d witness=%s\n", v.Pkg().Name(), v.Name(), res.has, len(stores), len(pending), res.witness)
	}
	e.fieldInv[v] = res
	return res.lo, res.has
}

type fieldInvRes struct {
	lo      int64
	has     bool
	witness string
}

// FieldInvariantWitness explains why a field has no lower-bound invariant.
func (e *Engine) FieldInvariantWitness(v *types.Var) string {
	return e.fieldInv[v].witness
}
