package guards

import (
	"fmt"
	"go/constant"
	"go/token"
	"go/types"
	"sort"

	"golang.org/x/tools/go/ssa"
)

// Decision summaries: a small, loop-free, side-effect-free function (Size(), hasError(), IsXValid() …) is
// summarised as a list of cases  "literals over projections of the parameters  =>  result".  At a call site the
// projections are resolved to the caller's values (through memory-versioned loads and store forwarding), so a
// piecewise-constant Size() is evaluated under the caller's branch facts (DESIGN §2.4 "piecewise Size()").

// dterm: parameter param (value), or — param >= 1000 — the pointee of pointer parameter param-1000 at call
// time, projected through the field chain proj.
type dterm struct {
	param int
	proj  []int
}

func (t dterm) key() string {
	s := fmt.Sprintf("p%d", t.param)
	for _, f := range t.proj {
		s += fmt.Sprintf(".%d", f)
	}
	return s
}

func (t dterm) with(fields ...int) dterm {
	return dterm{param: t.param, proj: append(append([]int(nil), t.proj...), fields...)}
}

type dlit struct {
	t    dterm
	kind byte // 't' term is true, 'f' term is false, '=' term == c, '!' term != c
	c    int64
}

func (l dlit) key() string { return fmt.Sprintf("%s%c%d", l.t.key(), l.kind, l.c) }

type dres struct {
	kind byte // 'c' integer constant, 'b' bool constant, 't' term, '?' unknown
	c    int64
	b    bool
	t    dterm
}

type dcase struct {
	lits    []dlit
	partial bool // some branch condition on the path could not be expressed
	res     dres
}

type DecSummary struct {
	cases []dcase
}

// dsym: symbolic value of the callee-side evaluation.
// 'c' int const, 'b' bool const, 't' term (value), 'a' address (of a term / local cell), 'l' boolean literal, '?' unknown
type dsym struct {
	kind byte
	c    int64
	b    bool
	t    dterm
	lit  dlit
}

func (e *Engine) Decide(f *ssa.Function) *DecSummary {
	if d, ok := e.decs[f]; ok {
		return d
	}
	e.decs[f] = nil
	if f.Blocks == nil || !e.InModule(f) || len(f.Blocks) > 24 || f.Signature.Results().Len() != 1 {
		return nil
	}
	for _, b := range f.Blocks {
		for _, s := range b.Succs {
			if s.Dominates(b) {
				return nil // loop
			}
		}
	}
	ev := &decEval{e: e, f: f}
	ev.walkFrom(f.Blocks[0], 0, nil, map[ssa.Value]dsym{}, map[string]dsym{}, nil, false, 0)
	if ev.fail || len(ev.cases) == 0 || len(ev.cases) > 32 {
		return nil
	}
	d := &DecSummary{cases: ev.cases}
	e.decs[f] = d
	return d
}

type decEval struct {
	e     *Engine
	f     *ssa.Function
	cases []dcase
	fail  bool
}

func cloneEnv(m map[ssa.Value]dsym) map[ssa.Value]dsym {
	n := make(map[ssa.Value]dsym, len(m))
	for k, v := range m {
		n[k] = v
	}
	return n
}

func cloneMem(m map[string]dsym) map[string]dsym {
	n := make(map[string]dsym, len(m))
	for k, v := range m {
		n[k] = v
	}
	return n
}

func (ev *decEval) val(env map[ssa.Value]dsym, v ssa.Value) dsym {
	if s, ok := env[v]; ok {
		return s
	}
	switch x := v.(type) {
	case *ssa.Const:
		if x.Value == nil {
			return dsym{kind: '?'}
		}
		switch x.Value.Kind() {
		case constant.Int:
			if c, ok := constant.Int64Val(x.Value); ok {
				return dsym{kind: 'c', c: c}
			}
		case constant.Bool:
			return dsym{kind: 'b', b: constant.BoolVal(x.Value)}
		}
	case *ssa.Parameter:
		for i, p := range ev.f.Params {
			if p == x {
				if _, isPtr := p.Type().Underlying().(*types.Pointer); isPtr {
					return dsym{kind: 'a', t: dterm{param: i}}
				}
				return dsym{kind: 't', t: dterm{param: i}}
			}
		}
	}
	return dsym{kind: '?'}
}

func negLit(l dlit) dlit {
	switch l.kind {
	case 't':
		l.kind = 'f'
	case 'f':
		l.kind = 't'
	case '=':
		l.kind = '!'
	case '!':
		l.kind = '='
	}
	return l
}

func lits(ls []dlit, more ...dlit) []dlit { return append(append([]dlit(nil), ls...), more...) }

func (ev *decEval) enter(b, pred *ssa.BasicBlock, env map[ssa.Value]dsym, mem map[string]dsym, ls []dlit, partial bool, depth int) {
	ev.walkFrom(b, 0, pred, cloneEnv(env), cloneMem(mem), ls, partial, depth)
}

// walkFrom evaluates block b from instruction index `from` on one path.
func (ev *decEval) walkFrom(b *ssa.BasicBlock, from int, pred *ssa.BasicBlock, env map[ssa.Value]dsym, mem map[string]dsym, ls []dlit, partial bool, depth int) {
	if ev.fail || depth > 60 || len(ev.cases) > 32 {
		ev.fail = true
		return
	}
	for i := from; i < len(b.Instrs); i++ {
		ins := b.Instrs[i]
		switch x := ins.(type) {
		case *ssa.Phi:
			for k, p := range b.Preds {
				if p == pred {
					env[x] = ev.val(env, x.Edges[k])
				}
			}
		case *ssa.Alloc:
			if x.Heap {
				ev.fail = true
				return
			}
			// local cell, identified by a negative pseudo-parameter
			env[x] = dsym{kind: 'a', t: dterm{param: -1 - len(mem)}}
			mem[env[x].t.key()] = dsym{kind: '?'}
		case *ssa.Store:
			ad := ev.val(env, x.Addr)
			if ad.kind != 'a' || ad.t.param >= 0 || len(ad.t.proj) != 0 {
				ev.fail = true // writes through a parameter or into part of a cell: not summarised
				return
			}
			mem[ad.t.key()] = ev.val(env, x.Val)
		case *ssa.FieldAddr:
			ad := ev.val(env, x.X)
			if ad.kind != 'a' {
				env[x] = dsym{kind: '?'}
				continue
			}
			env[x] = dsym{kind: 'a', t: ad.t.with(x.Field)}
		case *ssa.Field:
			sv := ev.val(env, x.X)
			if sv.kind != 't' {
				env[x] = dsym{kind: '?'}
				continue
			}
			env[x] = dsym{kind: 't', t: sv.t.with(x.Field)}
		case *ssa.UnOp:
			switch x.Op {
			case token.MUL:
				ad := ev.val(env, x.X)
				if ad.kind != 'a' {
					env[x] = dsym{kind: '?'}
					continue
				}
				if ad.t.param < 0 {
					cell := mem[dterm{param: ad.t.param}.key()]
					switch {
					case cell.kind == 't':
						env[x] = dsym{kind: 't', t: cell.t.with(ad.t.proj...)}
					case len(ad.t.proj) == 0:
						env[x] = cell
					default:
						env[x] = dsym{kind: '?'}
					}
					continue
				}
				// load through a pointer parameter: the pointee's field at call time (param index + 1000)
				env[x] = dsym{kind: 't', t: dterm{param: ad.t.param + 1000, proj: ad.t.proj}}
			case token.NOT:
				bv := ev.val(env, x.X)
				switch bv.kind {
				case 'b':
					env[x] = dsym{kind: 'b', b: !bv.b}
				case 'l':
					env[x] = dsym{kind: 'l', lit: negLit(bv.lit)}
				case 't':
					env[x] = dsym{kind: 'l', lit: dlit{t: bv.t, kind: 'f'}}
				default:
					env[x] = dsym{kind: '?'}
				}
			default:
				env[x] = dsym{kind: '?'}
			}
		case *ssa.BinOp:
			l, r := ev.val(env, x.X), ev.val(env, x.Y)
			env[x] = dsym{kind: '?'}
			switch {
			case l.kind == 'c' && r.kind == 'c':
				switch x.Op {
				case token.ADD:
					env[x] = dsym{kind: 'c', c: l.c + r.c}
				case token.SUB:
					env[x] = dsym{kind: 'c', c: l.c - r.c}
				case token.MUL:
					env[x] = dsym{kind: 'c', c: l.c * r.c}
				case token.EQL:
					env[x] = dsym{kind: 'b', b: l.c == r.c}
				case token.NEQ:
					env[x] = dsym{kind: 'b', b: l.c != r.c}
				}
			case x.Op == token.EQL || x.Op == token.NEQ:
				if l.kind == 'c' && r.kind == 't' {
					l, r = r, l
				}
				if l.kind == 't' && r.kind == 'c' {
					k := byte('=')
					if x.Op == token.NEQ {
						k = '!'
					}
					env[x] = dsym{kind: 'l', lit: dlit{t: l.t, kind: k, c: r.c}}
				}
			}
		case *ssa.Convert:
			sv := ev.val(env, x.X)
			env[x] = dsym{kind: '?'}
			fb, fu, fok := ev.e.intInfo(x.X.Type())
			tb, tu, tok := ev.e.intInfo(x.Type())
			if fok && tok {
				if sv.kind == 'c' {
					env[x] = sv
				} else if sv.kind == 't' && ((fu && (tb > fb || (tu && tb >= fb))) || (!fu && !tu && tb >= fb)) {
					env[x] = sv
				}
			}
		case *ssa.ChangeType:
			env[x] = ev.val(env, x.X)
		case *ssa.Call:
			callee := x.Call.StaticCallee()
			if callee == nil {
				ev.fail = true
				return
			}
			d := ev.e.Decide(callee)
			if d == nil {
				ev.fail = true
				return
			}
			for _, c := range d.cases {
				nl := lits(ls)
				np := partial || c.partial
				for _, l := range c.lits {
					sub, ok := ev.substTerm(env, x, l.t)
					if !ok {
						np = true
						continue
					}
					l.t = sub
					nl = append(nl, l)
				}
				nenv := cloneEnv(env)
				nenv[x] = dsym{kind: '?'}
				switch c.res.kind {
				case 'c':
					nenv[x] = dsym{kind: 'c', c: c.res.c}
				case 'b':
					nenv[x] = dsym{kind: 'b', b: c.res.b}
				case 't':
					if sub, ok := ev.substTerm(env, x, c.res.t); ok {
						nenv[x] = dsym{kind: 't', t: sub}
					}
				}
				ev.walkFrom(b, i+1, pred, nenv, cloneMem(mem), nl, np, depth+1)
			}
			return
		case *ssa.If:
			c := ev.val(env, x.Cond)
			switch c.kind {
			case 'b':
				if c.b {
					ev.enter(b.Succs[0], b, env, mem, ls, partial, depth+1)
				} else {
					ev.enter(b.Succs[1], b, env, mem, ls, partial, depth+1)
				}
			case 'l':
				ev.enter(b.Succs[0], b, env, mem, lits(ls, c.lit), partial, depth+1)
				ev.enter(b.Succs[1], b, env, mem, lits(ls, negLit(c.lit)), partial, depth+1)
			case 't':
				ev.enter(b.Succs[0], b, env, mem, lits(ls, dlit{t: c.t, kind: 't'}), partial, depth+1)
				ev.enter(b.Succs[1], b, env, mem, lits(ls, dlit{t: c.t, kind: 'f'}), partial, depth+1)
			default:
				ev.enter(b.Succs[0], b, env, mem, ls, true, depth+1)
				ev.enter(b.Succs[1], b, env, mem, ls, true, depth+1)
			}
			return
		case *ssa.Jump:
			ev.enter(b.Succs[0], b, env, mem, ls, partial, depth+1)
			return
		case *ssa.Return:
			r := ev.val(env, x.Results[0])
			c := dcase{lits: ls, partial: partial}
			switch r.kind {
			case 'c':
				c.res = dres{kind: 'c', c: r.c}
			case 'b':
				c.res = dres{kind: 'b', b: r.b}
			case 't':
				c.res = dres{kind: 't', t: r.t}
			case 'l':
				ev.cases = append(ev.cases, dcase{lits: lits(ls, r.lit), partial: partial, res: dres{kind: 'b', b: true}})
				ev.cases = append(ev.cases, dcase{lits: lits(ls, negLit(r.lit)), partial: partial, res: dres{kind: 'b', b: false}})
				return
			default:
				c.res = dres{kind: '?'}
			}
			ev.cases = append(ev.cases, c)
			return
		case *ssa.DebugRef:
		default:
			ev.fail = true
			return
		}
	}
}

// substTerm maps a term of a nested callee to a term of the function under evaluation.
func (ev *decEval) substTerm(env map[ssa.Value]dsym, call *ssa.Call, t dterm) (dterm, bool) {
	idx := t.param
	ptr := false
	if idx >= 1000 {
		idx -= 1000
		ptr = true
	}
	if idx < 0 || idx >= len(call.Call.Args) {
		return dterm{}, false
	}
	av := ev.val(env, call.Call.Args[idx])
	if ptr {
		if av.kind != 'a' || av.t.param < 0 {
			return dterm{}, false
		}
		return dterm{param: av.t.param + 1000, proj: append(append([]int(nil), av.t.proj...), t.proj...)}, true
	}
	if av.kind != 't' {
		return dterm{}, false
	}
	return av.t.with(t.proj...), true
}

// ---------------------------------------------------------------------------
// caller side

// cterm: a callee term resolved in the caller: an SSA value, or only a stable key.
type cterm struct {
	v   ssa.Value
	key string
}

func (a *FuncAn) callArgs(call *ssa.Call) []ssa.Value {
	if call.Call.IsInvoke() {
		return append([]ssa.Value{call.Call.Value}, call.Call.Args...)
	}
	return call.Call.Args
}

// resolveTerm maps term t of the callee of `call` to a caller value.
func (a *FuncAn) resolveTerm(call *ssa.Call, t dterm) (cterm, bool) {
	args := a.callArgs(call)
	idx := t.param
	if idx >= 1000 {
		// load through a pointer argument at call time: only if the location is available right before the call
		idx -= 1000
		if idx >= len(args) {
			return cterm{}, false
		}
		snap := a.callSnap[call]
		p := a.pathOf(args[idx])
		if p == nil || (snap == nil && a.callVer[call] == nil) {
			return cterm{}, false
		}
		k := p.key()
		for i, f := range t.proj {
			k += fmt.Sprintf(".%d", f)
			if v, ok := snap[k]; ok {
				return a.projectValue(v, t.proj[i+1:])
			}
			if ver, ok := a.callVer[call][k]; ok && i == len(t.proj)-1 {
				return cterm{key: ver}, true
			}
		}
		return cterm{}, false
	}
	if idx < 0 || idx >= len(args) {
		return cterm{}, false
	}
	return a.projectValue(args[idx], t.proj)
}

// projectValue: the value of field chain proj of struct value v.
func (a *FuncAn) projectValue(v ssa.Value, proj []int) (cterm, bool) {
	v = a.cv(v)
	if len(proj) == 0 {
		return cterm{v: v, key: fmt.Sprintf("%p", v)}, true
	}
	switch x := v.(type) {
	case *ssa.Field:
		return a.projectValue(x.X, append([]int{x.Field}, proj...))
	case *ssa.UnOp:
		if x.Op == token.MUL {
			// load of a package-level struct that is only ever written by its initialiser
			if g, chain := globalFieldChain(x.X); g != nil {
				if c := a.E.initOnlyConst(g, append(chain, proj...)); c != nil {
					return cterm{v: c, key: fmt.Sprintf("%p", c)}, true
				}
			}
			// load of a struct from path P: field chain resolved against the locations available at the load
			if snap := a.loadSnap[x]; snap != nil {
				if p := a.pathOf(x.X); p != nil {
					k := p.key()
					for i, f := range proj {
						k += fmt.Sprintf(".%d", f)
						if sv, ok := snap[k]; ok {
							return a.projectValue(sv, proj[i+1:])
						}
					}
					// an enclosing struct is available (e.g. a value receiver spilled to a local): project it
					for j := len(p.steps) - 1; j >= 0; j-- {
						if p.steps[j].st == nil {
							break
						}
						pk := fmt.Sprintf("%p", p.root)
						for _, s := range p.steps[:j] {
							pk += s.key
						}
						if sv, ok := snap[pk]; ok {
							var chain []int
							for _, s := range p.steps[j:] {
								chain = append(chain, s.field)
							}
							return a.projectValue(sv, append(chain, proj...))
						}
					}
				}
			}
		}
	}
	ks := fmt.Sprintf("%p", v)
	for _, f := range proj {
		ks += fmt.Sprintf(".%d", f)
	}
	return cterm{key: ks}, true
}

// globalFieldChain: addr is g or &g.f1.f2…
func globalFieldChain(addr ssa.Value) (*ssa.Global, []int) {
	var chain []int
	for {
		switch x := addr.(type) {
		case *ssa.Global:
			return x, chain
		case *ssa.FieldAddr:
			chain = append([]int{x.Field}, chain...)
			addr = x.X
		default:
			return nil, nil
		}
	}
}

func (a *FuncAn) ctermLin(c cterm, typ types.Type) Lin {
	if c.v != nil {
		return a.Lin(c.v)
	}
	bits, uns, _ := a.E.intInfo(typ)
	at := a.atom("proj:"+c.key, "field("+c.key+")", uns)
	a.noteVersion(at, c.key)
	if !a.inited[at] && bits > 0 && bits < 63 {
		a.inited[at] = true
		hi := typeMax(bits, uns)
		lo := int64(0)
		if !uns {
			lo = -hi - 1
		}
		a.bounds(at, &lo, &hi)
	}
	return AtomLin(at)
}

func (c cterm) truthKey() interface{} {
	if c.v != nil {
		return c.v
	}
	return c.key
}

// instLit: a literal of a callee instantiated in the caller.
type instLit struct {
	lin    []Lin       // '=': two inequalities, all must hold
	neq    *Lin        // '!': L != 0
	tkey   interface{} // boolean: truth key
	tval   bool
	isBool bool
}

func termType(f *ssa.Function, t dterm) types.Type {
	idx := t.param
	if idx >= 1000 {
		idx -= 1000
	}
	if idx < 0 || idx >= len(f.Params) {
		return nil
	}
	ty := derefType(f.Params[idx].Type())
	for _, fi := range t.proj {
		st, ok := ty.Underlying().(*types.Struct)
		if !ok || fi >= st.NumFields() {
			return nil
		}
		ty = st.Field(fi).Type()
	}
	return ty
}

func (a *FuncAn) instantiateLit(call *ssa.Call, callee *ssa.Function, l dlit) (instLit, bool) {
	ct, ok := a.resolveTerm(call, l.t)
	if !ok {
		return instLit{}, false
	}
	switch l.kind {
	case 't', 'f':
		return instLit{isBool: true, tkey: ct.truthKey(), tval: l.kind == 't'}, true
	}
	typ := termType(callee, l.t)
	if typ == nil {
		return instLit{}, false
	}
	if _, _, ok := a.E.intInfo(typ); !ok {
		return instLit{}, false
	}
	x := a.ctermLin(ct, typ).plus(-l.c)
	if l.kind == '=' {
		return instLit{lin: []Lin{x, Scale(x, -1)}}, true
	}
	return instLit{neq: &x}, true
}

// litHolds: the state establishes the instantiated literal.
func (a *FuncAn) litHolds(s *State, p *prover, il instLit) bool {
	if il.isBool {
		v, ok := s.truth[il.tkey]
		return ok && v == il.tval
	}
	if il.neq != nil {
		if p.prove(il.neq.plus(-1), 3, nil) || p.prove(Scale(*il.neq, -1).plus(-1), 3, nil) {
			return true
		}
		n := *il.neq
		if len(n.t) > 0 && n.t[0].k < 0 {
			n = Scale(n, -1)
		}
		_, ok := s.neq[fmt.Sprintf("%s|%d", n.key(), n.C)]
		return ok
	}
	for _, l := range il.lin {
		if !p.prove(l, 3, nil) {
			return false
		}
	}
	return true
}

// assumeLit records an instantiated literal as a fact.
func (a *FuncAn) assumeLit(s *State, il instLit) {
	if il.isBool {
		if v, ok := il.tkey.(ssa.Value); ok {
			// a boolean SSA value that is itself a comparison / call carries further facts
			a.condFacts(s, v, il.tval)
			return
		}
		s.truth[il.tkey] = il.tval
		return
	}
	if il.neq != nil {
		s.AddNeq(*il.neq)
		return
	}
	for _, l := range il.lin {
		s.AddFact(l)
	}
}

func (a *FuncAn) decisionFor(call *ssa.Call) (*DecSummary, *ssa.Function) {
	f := call.Call.StaticCallee()
	if f == nil {
		return nil, nil
	}
	return a.E.Decide(f), f
}

// boolCallFacts: a branch condition is a call of a decidable boolean function with the given outcome: the
// literals common to every case that can produce this outcome hold.
func (a *FuncAn) boolCallFacts(s *State, call *ssa.Call, truth bool) {
	d, f := a.decisionFor(call)
	if d == nil {
		return
	}
	var common map[string]dlit
	for _, c := range d.cases {
		if c.res.kind == 'b' && c.res.b != truth {
			continue
		}
		m := map[string]dlit{}
		for _, l := range c.lits {
			m[l.key()] = l
		}
		if c.res.kind == 't' {
			// `return a || b || c`: on the last case the result *is* the term c, so the outcome fixes it
			k := byte('f')
			if truth {
				k = 't'
			}
			l := dlit{t: c.res.t, kind: k}
			m[l.key()] = l
		}
		if common == nil {
			common = m
			continue
		}
		for k := range common {
			if _, ok := m[k]; !ok {
				delete(common, k)
			}
		}
	}
	var ks []string
	for k := range common {
		ks = append(ks, k)
	}
	sort.Strings(ks)
	for _, k := range ks {
		if il, ok := a.instantiateLit(call, f, common[k]); ok {
			a.assumeLit(s, il)
		}
	}
}

// DescribeDecision renders a decision summary (debugging / evidence).
func (e *Engine) DescribeDecision(f *ssa.Function) string {
	d := e.Decide(f)
	if d == nil {
		return "not decidable"
	}
	s := ""
	for _, c := range d.cases {
		for _, l := range c.lits {
			s += l.key() + " "
		}
		if c.partial {
			s += "(partial) "
		}
		switch c.res.kind {
		case 'c':
			s += fmt.Sprintf("=> %d; ", c.res.c)
		case 'b':
			s += fmt.Sprintf("=> %v; ", c.res.b)
		case 't':
			s += "=> " + c.res.t.key() + "; "
		default:
			s += "=> ?; "
		}
	}
	return s
}

type decidedCase struct {
	lits []instLit
	val  int64
}

// decidedCases: the cases of an integer-valued decidable callee instantiated at the call, if every case is
// complete and constant.
func (a *FuncAn) decidedCases(call *ssa.Call) []decidedCase {
	d, f := a.decisionFor(call)
	if d == nil {
		return nil
	}
	var out []decidedCase
	for _, c := range d.cases {
		if c.partial || c.res.kind != 'c' {
			return nil
		}
		dc := decidedCase{val: c.res.c}
		for _, l := range c.lits {
			il, ok := a.instantiateLit(call, f, l)
			if !ok {
				return nil
			}
			dc.lits = append(dc.lits, il)
		}
		out = append(out, dc)
	}
	return out
}
