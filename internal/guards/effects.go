package guards

import (
	"go/types"
	"strings"

	"golang.org/x/tools/go/ssa"
)

// WriteSet over-approximates the memory a call may write, by the types of the written locations
// (Go without unsafe is type safe: a store through *T can only change a location of type T).
type WriteSet struct {
	Any    bool
	Writes []writeDesc
}

func (w *WriteSet) addDesc(d writeDesc) bool {
	for _, o := range w.Writes {
		if o.kind == d.kind && types.Identical(o.typ, d.typ) && o.field == d.field && (o.st == nil) == (d.st == nil) && (o.st == nil || types.Identical(o.st, d.st)) {
			return false
		}
	}
	w.Writes = append(w.Writes, d)
	return true
}

// add: a write through a plain pointer / into an element of the given type.
func (w *WriteSet) add(t types.Type) bool { return w.addDesc(writeDesc{kind: 'd', typ: t}) }

func (w *WriteSet) addElem(t types.Type) bool { return w.addDesc(writeDesc{kind: 'e', typ: t}) }

func descOfAddr(addr ssa.Value) writeDesc {
	switch x := addr.(type) {
	case *ssa.FieldAddr:
		st := derefType(x.X.Type())
		if s, ok := st.Underlying().(*types.Struct); ok {
			return writeDesc{kind: 'f', typ: s.Field(x.Field).Type(), st: st, field: x.Field}
		}
	case *ssa.IndexAddr:
		return writeDesc{kind: 'e', typ: derefType(x.Type())}
	}
	return writeDesc{kind: 'd', typ: derefType(addr.Type())}
}

func (w *WriteSet) union(o *WriteSet) bool {
	if o == nil {
		return false
	}
	ch := false
	if o.Any && !w.Any {
		w.Any = true
		ch = true
	}
	for _, d := range o.Writes {
		if w.addDesc(d) {
			ch = true
		}
	}
	return ch
}

// pureExtern: functions outside the module that write no memory visible to the caller (they return fresh
// values; fmt/log verbs may call String/Error methods of their operands, assumed side-effect free: A3).
var pureExtern = map[string]bool{
	"errors.New": true, "fmt.Errorf": true, "fmt.Sprintf": true, "fmt.Sprint": true, "fmt.Sprintln": true,
	"log.Printf": true, "log.Println": true, "log.Print": true,
	"github.com/pkg/errors.New": true, "github.com/pkg/errors.Wrap": true, "github.com/pkg/errors.Wrapf": true,
	"github.com/pkg/errors.Errorf": true, "github.com/pkg/errors.Cause": true, "github.com/pkg/errors.WithStack": true,
	"encoding/hex.EncodeToString": true, "encoding/hex.DecodeString": true, "bytes.Equal": true, "bytes.Compare": true,
	"strings.ToLower": true, "strings.ToUpper": true, "strings.TrimSpace": true, "strings.Split": true, "strings.HasPrefix": true,
	"strings.TrimPrefix": true, "strings.Replace": true, "strings.Trim": true,
	"strconv.Itoa": true, "strconv.Atoi": true, "strconv.ParseInt": true, "strconv.ParseUint": true, "strconv.ParseFloat": true,
	"strconv.FormatInt": true, "strconv.FormatUint": true, "strconv.Quote": true, "strconv.Unquote": true,
	"(encoding/binary.littleEndian).Uint16": true, "(encoding/binary.littleEndian).Uint32": true, "(encoding/binary.littleEndian).Uint64": true,
	"(encoding/binary.bigEndian).Uint16": true, "(encoding/binary.bigEndian).Uint32": true, "(encoding/binary.bigEndian).Uint64": true,
	"math.Round": true, "math.Floor": true, "math.Ceil": true, "math.Pow": true, "math.Log10": true, "math.Abs": true, "math.Max": true, "math.Min": true,
	"time.Parse": true, "(time.Time).Format": true, "(time.Time).Sub": true, "(time.Time).Add": true, "time.Date": true, "(time.Time).Before": true, "(time.Time).After": true,
	"(*encoding/base64.Encoding).DecodeString": true, "(*encoding/base64.Encoding).EncodeToString": true,
	"crypto/aes.NewCipher": true,
}

func FuncFullName(f *ssa.Function) string {
	s := f.String()
	return s
}

func (e *Engine) fnWrites(f *ssa.Function) *WriteSet {
	if ws, ok := e.writes[f]; ok {
		return ws
	}
	return e.externWritesByType(f)
}

// externWritesByType: default for a function without analysed body: it may write whatever is reachable
// from its pointer-like parameters.
func (e *Engine) externWritesByType(f *ssa.Function) *WriteSet {
	if ws, ok := e.extWrites[f]; ok {
		return ws
	}
	ws := &WriteSet{}
	e.extWrites[f] = ws
	if pureExtern[FuncFullName(f)] {
		return ws
	}
	sig := f.Signature
	seen := map[types.Type]bool{}
	var reach func(t types.Type, top bool)
	reach = func(t types.Type, top bool) {
		if seen[t] {
			return
		}
		seen[t] = true
		switch u := t.Underlying().(type) {
		case *types.Pointer:
			ws.add(u.Elem())
			reach(u.Elem(), false)
		case *types.Slice:
			ws.addElem(u.Elem())
			reach(u.Elem(), false)
		case *types.Map:
			reach(u.Elem(), false)
		case *types.Struct:
			for i := 0; i < u.NumFields(); i++ {
				reach(u.Field(i).Type(), false)
			}
		case *types.Array:
			reach(u.Elem(), false)
		case *types.Interface, *types.Signature, *types.Chan:
			ws.Any = true
		}
	}
	if sig.Recv() != nil {
		reach(sig.Recv().Type(), true)
	}
	for i := 0; i < sig.Params().Len(); i++ {
		reach(sig.Params().At(i).Type(), true)
	}
	return ws
}

// computeWrites: transitive write sets of all module functions (fixpoint over the call graph).
func (e *Engine) computeWrites(fns []*ssa.Function) {
	local := map[*ssa.Function]*WriteSet{}
	for _, f := range fns {
		ws := &WriteSet{}
		local[f] = ws
		e.writes[f] = &WriteSet{}
		if f.Blocks == nil {
			continue
		}
		for _, b := range f.Blocks {
			for _, ins := range b.Instrs {
				switch x := ins.(type) {
				case *ssa.Store:
					if rootIsPrivateAlloc(x.Addr) {
						continue
					}
					ws.addDesc(descOfAddr(x.Addr))
				case *ssa.MapUpdate:
					// map contents are not numbered as loads
				case ssa.CallInstruction:
					if b, ok := x.Common().Value.(*ssa.Builtin); ok {
						switch b.Name() {
						case "copy", "append":
							if sl, ok := x.Common().Args[0].Type().Underlying().(*types.Slice); ok {
								ws.addElem(sl.Elem())
							}
						}
					}
				}
			}
		}
		e.writes[f].union(ws)
	}
	for changed := true; changed; {
		changed = false
		for _, f := range fns {
			if f.Blocks == nil {
				continue
			}
			ws := e.writes[f]
			for _, b := range f.Blocks {
				for _, ins := range b.Instrs {
					call, ok := ins.(ssa.CallInstruction)
					if !ok {
						continue
					}
					if _, ok := call.Common().Value.(*ssa.Builtin); ok {
						continue
					}
					cs := e.Callees(call)
					if len(cs) == 0 {
						if ws.union(e.unknownCallWrites(call)) {
							changed = true
						}
						continue
					}
					for _, c := range cs {
						if ws.union(e.fnWrites(c)) {
							changed = true
						}
					}
				}
			}
		}
	}
}

func rootIsPrivateAlloc(addr ssa.Value) bool {
	for {
		switch x := addr.(type) {
		case *ssa.FieldAddr:
			addr = x.X
		case *ssa.IndexAddr:
			if _, ok := x.X.Type().Underlying().(*types.Pointer); !ok {
				return false
			}
			addr = x.X
		case *ssa.Alloc:
			return !addrEscapes(x, 0)
		default:
			return false
		}
	}
}

// unknownCallWrites: a call whose callee set is empty (dynamic call with no analysed target).
func (e *Engine) unknownCallWrites(call ssa.CallInstruction) *WriteSet {
	c := call.Common()
	if c.IsInvoke() {
		// interface method outside the module: use the method signature
		ws := &WriteSet{}
		sig := c.Method.Type().(*types.Signature)
		for i := 0; i < sig.Params().Len(); i++ {
			switch u := sig.Params().At(i).Type().Underlying().(type) {
			case *types.Pointer:
				ws.add(u.Elem())
			case *types.Slice:
				ws.addElem(u.Elem())
			case *types.Basic:
			default:
				ws.Any = true
			}
		}
		// the receiver object itself is of unknown type: it cannot be a location the module numbers
		// unless it is a module type, in which case the call graph would have had a callee.
		return ws
	}
	return &WriteSet{Any: true}
}

// callWrites: what one call instruction may write.
func (e *Engine) callWrites(a *FuncAn, call ssa.CallInstruction) *WriteSet {
	c := call.Common()
	if b, ok := c.Value.(*ssa.Builtin); ok {
		switch b.Name() {
		case "copy", "append":
			if sl, ok := c.Args[0].Type().Underlying().(*types.Slice); ok {
				return &WriteSet{Writes: []writeDesc{{kind: 'e', typ: sl.Elem()}}}
			}
		}
		return nil
	}
	cs := e.Callees(call)
	if len(cs) == 0 {
		return e.unknownCallWrites(call)
	}
	ws := &WriteSet{}
	for _, f := range cs {
		ws.union(e.fnWrites(f))
	}
	return ws
}

func (e *Engine) deferWrites(a *FuncAn) *WriteSet {
	ws := &WriteSet{}
	for _, b := range a.Fn.Blocks {
		for _, ins := range b.Instrs {
			if d, ok := ins.(*ssa.Defer); ok {
				ws.union(e.callWrites(a, d))
			}
		}
	}
	return ws
}

func pkgOf(f *ssa.Function) string {
	if f.Pkg != nil {
		return f.Pkg.Pkg.Path()
	}
	if o := f.Object(); o != nil && o.Pkg() != nil {
		return o.Pkg().Path()
	}
	s := f.String()
	if i := strings.LastIndex(s, "."); i > 0 {
		return strings.Trim(s[:i], "(*)")
	}
	return ""
}
