package guards

import (
	"fmt"
	"go/token"
	"go/types"
	"os"
	"sort"
	"strings"

	"golang.org/x/tools/go/ssa"
)

// Relations between the fields of one object across calls (a cursor struct {data []byte; pos int} with a predicate
// method done() and a stepping method next()):
//
//   - predicate summaries: a single-block bool function whose result is a comparison of linear expressions over its
//     parameters, the integer fields of its pointer parameters and the lengths of their sequence fields is summarised as
//     that comparison over *terms* (dterm); where a caller branches on such a call, the comparison holds on the
//     corresponding edge for the caller's values of those terms — the values available right before the call, or the
//     synthetic content versions of flow.go when the caller never loaded the field itself;
//   - obligation hoisting: an obligation of a callee that is not dischargeable inside it, whose goal mentions only
//     entry values of parameters and of fields of pointer parameters, is discharged when every call site of the scope
//     establishes the same inequality for its own values of those terms.

type predTerm struct {
	t     dterm
	isLen bool
	k     int64
}

// PredSummary: the function returns true exactly when  Σ k·term + c  `op`  0.
type PredSummary struct {
	op    token.Token
	terms []predTerm
	c     int64
}

func (e *Engine) predOf(f *ssa.Function) *PredSummary {
	if p, ok := e.preds[f]; ok {
		return p
	}
	e.preds[f] = nil
	if f.Blocks == nil || !e.InModule(f) || len(f.Blocks) != 1 || f.Signature.Results().Len() != 1 {
		return nil
	}
	if b, ok := f.Signature.Results().At(0).Type().Underlying().(*types.Basic); !ok || b.Kind() != types.Bool {
		return nil
	}
	blk := f.Blocks[0]
	ret, ok := blk.Instrs[len(blk.Instrs)-1].(*ssa.Return)
	if !ok {
		return nil
	}
	for _, ins := range blk.Instrs {
		switch x := ins.(type) {
		case *ssa.Store, *ssa.MapUpdate, *ssa.Send, *ssa.Go, *ssa.Defer, *ssa.Panic:
			return nil
		case ssa.CallInstruction:
			if bi, isB := x.Common().Value.(*ssa.Builtin); !isB || (bi.Name() != "len" && bi.Name() != "cap") {
				return nil
			}
		}
	}
	cmp, ok := ret.Results[0].(*ssa.BinOp)
	if !ok {
		return nil
	}
	switch cmp.Op {
	case token.LSS, token.LEQ, token.GTR, token.GEQ, token.EQL, token.NEQ:
	default:
		return nil
	}
	if _, _, isInt := e.intInfo(cmp.X.Type()); !isInt {
		return nil
	}
	ps := &PredSummary{op: cmp.Op}
	if !e.predOperand(f, cmp.X, 1, ps, 0) || !e.predOperand(f, cmp.Y, -1, ps, 0) {
		return nil
	}
	e.preds[f] = ps
	return ps
}

// paramTerm: v is parameter i (value) or a load of a field chain through pointer parameter i.
func paramTerm(f *ssa.Function, v ssa.Value) (dterm, bool) {
	switch x := v.(type) {
	case *ssa.Parameter:
		for i, p := range f.Params {
			if p == x {
				return dterm{param: i}, true
			}
		}
	case *ssa.UnOp:
		if x.Op != token.MUL {
			return dterm{}, false
		}
		var proj []int
		addr := x.X
		for {
			fa, ok := addr.(*ssa.FieldAddr)
			if !ok {
				break
			}
			proj = append([]int{fa.Field}, proj...)
			addr = fa.X
		}
		if al, ok := addr.(*ssa.Alloc); ok && len(proj) > 0 {
			// a struct-valued parameter the SSA builder spilled to a local because its fields are selected
			if sp := spilledParam(al); sp != nil {
				for i, q := range f.Params {
					if q == sp {
						t := dterm{param: i}
						for _, fi := range proj {
							t = t.with(fi)
						}
						return t, true
					}
				}
			}
			return dterm{}, false
		}
		if p, ok := addr.(*ssa.Parameter); ok && len(proj) > 0 {
			if _, isPtr := p.Type().Underlying().(*types.Pointer); !isPtr {
				return dterm{}, false
			}
			for i, q := range f.Params {
				if q == p {
					return dterm{param: 1000 + i, proj: proj}, true
				}
			}
		}
	case *ssa.Field:
		if t, ok := paramTerm(f, x.X); ok {
			return t.with(x.Field), true
		}
	}
	return dterm{}, false
}

// spilledParam: al is the local copy `*al = p` of parameter p, written nowhere else and never escaping (its address is
// used only to select fields that are loaded).
func spilledParam(al *ssa.Alloc) *ssa.Parameter {
	if al.Heap {
		return nil
	}
	var p *ssa.Parameter
	var onlyLoads func(addr ssa.Value) bool
	onlyLoads = func(addr ssa.Value) bool {
		for _, r := range *addr.Referrers() {
			switch u := r.(type) {
			case *ssa.UnOp:
			case *ssa.FieldAddr:
				if u.X != addr || !onlyLoads(u) {
					return false
				}
			case *ssa.DebugRef:
			case *ssa.Store:
				if addr != ssa.Value(al) || u.Addr != addr {
					return false
				}
				q, ok := u.Val.(*ssa.Parameter)
				if !ok || p != nil {
					return false
				}
				p = q
			default:
				return false
			}
		}
		return true
	}
	if !onlyLoads(al) {
		return nil
	}
	return p
}

func (e *Engine) predOperand(f *ssa.Function, v ssa.Value, sign int64, ps *PredSummary, depth int) bool {
	if depth > 6 {
		return false
	}
	if k, ok := ConstInt(v); ok {
		ps.c += sign * k
		return true
	}
	switch x := v.(type) {
	case *ssa.BinOp:
		switch x.Op {
		case token.ADD:
			return e.predOperand(f, x.X, sign, ps, depth+1) && e.predOperand(f, x.Y, sign, ps, depth+1)
		case token.SUB:
			return e.predOperand(f, x.X, sign, ps, depth+1) && e.predOperand(f, x.Y, -sign, ps, depth+1)
		}
		return false
	case *ssa.Call:
		if bi, ok := x.Call.Value.(*ssa.Builtin); ok && bi.Name() == "len" && len(x.Call.Args) == 1 {
			if t, ok := paramTerm(f, x.Call.Args[0]); ok && isSeq(x.Call.Args[0].Type()) {
				ps.terms = append(ps.terms, predTerm{t: t, isLen: true, k: sign})
				return true
			}
		}
		return false
	case *ssa.ChangeType:
		return e.predOperand(f, x.X, sign, ps, depth+1)
	}
	if _, _, isInt := e.intInfo(v.Type()); isInt {
		if t, ok := paramTerm(f, v); ok {
			ps.terms = append(ps.terms, predTerm{t: t, k: sign})
			return true
		}
	}
	return false
}

// termLin: the caller's value of a callee term at a call (value or length).
func (a *FuncAn) termLin(call *ssa.Call, callee *ssa.Function, t dterm, isLen bool) (Lin, bool) {
	ct, ok := a.resolveTerm(call, t)
	if !ok {
		return Lin{}, false
	}
	typ := termType(callee, t)
	if typ == nil {
		return Lin{}, false
	}
	if isLen {
		if ct.v != nil {
			return a.LenOf(ct.v), true
		}
		lat := a.atom("lenproj:"+ct.key, "len(field("+ct.key+"))", true)
		a.noteVersion(lat, ct.key)
		return AtomLin(lat), true
	}
	if _, _, isInt := a.E.intInfo(typ); !isInt {
		return Lin{}, false
	}
	l := a.ctermLin(ct, typ)
	// a field with a lower-bound invariant keeps it in every version of its content
	if ct.v == nil && len(t.proj) > 0 && len(l.t) == 1 {
		if fv := termField(callee, t); fv != nil {
			if lo, has := a.E.fieldLowerBoundVar(fv); has && !a.inited2[l.t[0].a] {
				a.inited2[l.t[0].a] = true
				a.bounds(l.t[0].a, &lo, nil)
			}
		}
	}
	return l, true
}

// termField: the struct field a projected term ends in.
func termField(f *ssa.Function, t dterm) *types.Var {
	idx := t.param
	if idx >= 1000 {
		idx -= 1000
	}
	if idx < 0 || idx >= len(f.Params) || len(t.proj) == 0 {
		return nil
	}
	ty := derefType(f.Params[idx].Type())
	var fv *types.Var
	for _, fi := range t.proj {
		st, ok := ty.Underlying().(*types.Struct)
		if !ok || fi >= st.NumFields() {
			return nil
		}
		fv = st.Field(fi)
		ty = fv.Type()
	}
	return fv
}

// predCallFacts: a branch on the result of a summarised predicate.
func (a *FuncAn) predCallFacts(s *State, call *ssa.Call, truth bool) {
	callee := call.Call.StaticCallee()
	if callee == nil {
		return
	}
	ps := a.E.predOf(callee)
	if ps == nil {
		return
	}
	l := Konst(ps.c)
	for _, pt := range ps.terms {
		tl, ok := a.termLin(call, callee, pt.t, pt.isLen)
		if !ok {
			return
		}
		l = Add(l, tl, pt.k)
	}
	op := ps.op
	if !truth {
		op = negate(op)
		if op == token.ILLEGAL {
			return
		}
	}
	switch op {
	case token.LSS:
		s.AddFact(Scale(l, -1).plus(-1))
	case token.LEQ:
		s.AddFact(Scale(l, -1))
	case token.GTR:
		s.AddFact(l.plus(-1))
	case token.GEQ:
		s.AddFact(l)
	case token.EQL:
		s.AddFact(l)
		s.AddFact(Scale(l, -1))
	case token.NEQ:
		s.AddNeq(l)
	}
	delete(a.provers, s)
}

// entryTerm: the atom stands for the entry value of a parameter, of the length of a sequence parameter, or of a field
// (or the length of a sequence field) reached through a pointer parameter — i.e. a load that sees the content the
// caller handed over: it is the representative of its location and nothing before it in the entry block can write.
func (a *FuncAn) entryTerm(at *Atom) (dterm, bool, bool) {
	f := a.Fn
	if t, isLen, ok := a.preTermOf(at); ok {
		return t, isLen, true
	}
	for i, p := range f.Params {
		if _, _, isInt := a.E.intInfo(p.Type()); isInt {
			if l := a.Lin(p); len(l.t) == 1 && l.t[0].a == at && l.t[0].k == 1 && l.C == 0 {
				return dterm{param: i}, false, true
			}
		} else if isSeq(p.Type()) {
			if l := a.LenOf(p); len(l.t) == 1 && l.t[0].a == at {
				return dterm{param: i}, true, true
			}
		}
	}
	entry := f.Blocks[0]
	for _, ins := range entry.Instrs {
		switch x := ins.(type) {
		case *ssa.Store, *ssa.MapUpdate:
			return dterm{}, false, false
		case ssa.CallInstruction:
			if _, isB := x.Common().Value.(*ssa.Builtin); !isB {
				return dterm{}, false, false
			}
		case *ssa.UnOp:
			if x.Op != token.MUL || a.cv(x) != ssa.Value(x) {
				continue
			}
			t, ok := paramTerm(f, x)
			if !ok || t.param < 1000 {
				continue
			}
			if _, _, isInt := a.E.intInfo(x.Type()); isInt {
				if l := a.Lin(x); len(l.t) == 1 && l.t[0].a == at && l.t[0].k == 1 && l.C == 0 {
					return t, false, true
				}
			} else if isSeq(x.Type()) {
				if l := a.LenOf(x); len(l.t) == 1 && l.t[0].a == at {
					return t, true, true
				}
			}
		}
	}
	return dterm{}, false, false
}

// hoist: goal g >= 0 of this (non-root) function holds because every call site of the scope establishes it for its own
// values of the entry terms g mentions. Returns a description when it does.
func (a *FuncAn) hoist(g Lin) (string, bool) {
	e := a.E
	f := a.Fn
	if e.Roots[f] || e.Scope == nil || !e.Scope[f] || len(g.t) == 0 || e.hoistBusy[f] {
		return "", false
	}
	if f.Object() != nil && f.Object().Exported() && !internalPkg(f) {
		return "", false // callable from outside the analysed scope
	}
	type et struct {
		t     dterm
		isLen bool
		k     int64
	}
	var ets []et
	for _, t := range g.t {
		dt, isLen, ok := a.entryTerm(t.a)
		if !ok {
			return "", false
		}
		ets = append(ets, et{dt, isLen, t.k})
	}
	var sites []*ssa.Call
	for _, s := range e.callers[f] {
		c, ok := s.(*ssa.Call)
		if !ok || s.Parent() == nil || c.Call.StaticCallee() != f {
			return "", false
		}
		if e.Scope[s.Parent()] {
			sites = append(sites, c)
		}
	}
	if len(sites) == 0 || len(sites) > 16 {
		return "", false
	}
	e.hoistBusy[f] = true
	defer delete(e.hoistBusy, f)
	sort.SliceStable(sites, func(i, j int) bool {
		if sites[i].Parent() != sites[j].Parent() {
			return sites[i].Parent().String() < sites[j].Parent().String()
		}
		return sites[i].Pos() < sites[j].Pos()
	})
	failed, trackedFail, untracked := false, false, ""
	for _, c := range sites {
		ca := e.AnalyzeCtx(c.Parent())
		if ca == nil || !ca.Converged {
			return "", false
		}
		if ca.in[c.Block()] == nil {
			continue
		}
		l := Konst(g.C)
		for _, x := range ets {
			tl, ok := ca.termLin(c, f, x.t, x.isLen)
			if !ok {
				return "", false
			}
			l = Add(l, tl, x.k)
		}
		// what holds right before the call: the facts on entry of its block (what the block itself adds before the
		// call is not needed for the idiom: the call is in the block the guarding branch leads to) and the lemmas
		// about values that exist by then
		pb := ca.proverBefore(ca.in[c.Block()], c)
		entailed := pb.Entails(l)
		if os.Getenv("LW_HOISTDEBUG") == "all" {
			fmt.Fprintf(os.Stderr, "hoist %s: goal %s at site in %s: site goal %s entailed=%v; facts %s\n", FuncShort(f), g.String(), FuncShort(c.Parent()), l.String(), entailed, ca.factsText(c.Block(), l))
		}
		if !entailed {
			// the site's own callers may establish it (a reader method called from another reader method)
			if _, ok := ca.hoistWithProver(pb, l, 1); ok {
				continue
			}
			// the call site would have to establish it. Every site is examined: one site that fails on values the
			// engine tracks is a missing guard whatever the others are; a failure that only concerns a value outside
			// the tracked model makes the obligation undecided (the verdict must not depend on which site is seen first)
			if os.Getenv("LW_HOISTDEBUG") != "" {
				fmt.Fprintf(os.Stderr, "hoist %s: goal %s fails at site %s in %s: site goal %s; facts %s\n", FuncShort(f), g.String(), c.String(), FuncShort(c.Parent()), l.String(), ca.factsText(c.Block(), l))
			}
			failed = true
			if why, un := ca.untrackedIn(l); un {
				if untracked == "" {
					untracked = "at the call site in " + FuncShort(c.Parent()) + " it depends on " + why
				}
			} else if why, un := ca.untrackedNear(c.Block(), l); un {
				if untracked == "" {
					untracked = "at the call site in " + FuncShort(c.Parent()) + " it is known only through " + why
				}
			} else {
				trackedFail = true
			}
		}
	}
	if failed {
		if !trackedFail {
			a.hoistUntracked = untracked
		}
		return "", false
	}
	return fmt.Sprintf("established at all %d call sites of %s", len(sites), FuncShort(f)), true
}

// hoistWith: hoist g, after cancelling atoms that are not entry terms (a loop index) with local facts of block b:
// from  mu*g - la*f = g'  with f >= 0 a local fact and mu, la > 0, g' >= 0 at every call site gives g >= 0.
func (a *FuncAn) hoistWith(b *ssa.BasicBlock, g Lin, depth int) (string, bool) {
	if a.in[b] == nil {
		return a.hoist(g)
	}
	return a.hoistWithProver(a.proverFor(a.in[b]), g, depth)
}

func (a *FuncAn) hoistWithProver(p *prover, g Lin, depth int) (string, bool) {
	if why, ok := a.hoist(g); ok {
		return why, true
	}
	if depth == 0 {
		return "", false
	}
	for _, t := range g.t {
		if _, _, isEntry := a.entryTerm(t.a); isEntry {
			continue
		}
		for _, fi := range p.byAtom[t.a] {
			f := p.facts[fi]
			d := f.Coef(t.a)
			if d == 0 || (d < 0) != (t.k < 0) {
				continue
			}
			gc := gcd(t.k, d)
			mu, la := d/gc, t.k/gc
			if mu < 0 {
				mu = -mu
			}
			if la < 0 {
				la = -la
			}
			if mu > 64 || la > 64 {
				continue
			}
			ng := Add(Scale(g, mu), f, -la)
			if len(ng.t) == 0 {
				if ng.C >= 0 {
					return "local facts", true
				}
				continue
			}
			if why, ok := a.hoistWithProver(p, ng, depth-1); ok {
				return why + " (after cancelling " + t.a.Name + " with a local fact)", true
			}
		}
		return "", false // this atom cannot be removed
	}
	return "", false
}

// cursorLoop recognises a loop driven by an object: the head tests a summarised predicate method of a receiver
// (`for !cc.done()`), whose staying condition bounds an integer field `pos` of the receiver from above by terms nothing
// in the loop writes, and every back edge is reached only after a successful call of a method of the same receiver
// that stores `pos = entry pos + n`, n >= 1, on its success returns.
func (a *FuncAn) cursorLoop(l *loop) (desc, why string, ok bool) {
	e := a.E
	iff, isIf := l.head.Instrs[len(l.head.Instrs)-1].(*ssa.If)
	if !isIf || len(l.head.Succs) != 2 {
		return "", "", false
	}
	stayTruth := l.blocks[l.head.Succs[0]] && !l.blocks[l.head.Succs[1]]
	if !stayTruth && !(l.blocks[l.head.Succs[1]] && !l.blocks[l.head.Succs[0]]) {
		return "", "", false
	}
	cond := iff.Cond
	for {
		u, isNot := cond.(*ssa.UnOp)
		if !isNot || u.Op != token.NOT {
			break
		}
		stayTruth = !stayTruth
		cond = u.X
	}
	pc, isCall := cond.(*ssa.Call)
	if !isCall || pc.Call.StaticCallee() == nil || len(pc.Call.Args) == 0 {
		return "", "", false
	}
	pf := pc.Call.StaticCallee()
	ps := e.predOf(pf)
	if ps == nil {
		return "", "", false
	}
	// normalise the staying condition to  Σ k·term + c >= 0
	op := ps.op
	if !stayTruth {
		op = negate(op)
	}
	sign := int64(1)
	switch op {
	case token.GEQ, token.GTR:
	case token.LEQ, token.LSS:
		sign = -1
	default:
		return "", "", false
	}
	// the cursor: the one integer field of the receiver (parameter 0 of the predicate) that the staying condition
	// bounds from above
	var cur *predTerm
	curIdx := -1
	for i := range ps.terms {
		t := &ps.terms[i]
		if !t.isLen && t.t.param == 1000 && len(t.t.proj) == 1 && t.k*sign < 0 {
			if cur != nil {
				return "", "", false
			}
			cur, curIdx = t, i
		}
	}
	if cur == nil {
		return "", "", false
	}
	recv := a.cv(pc.Call.Args[0])
	rt, isPtr := pc.Call.Args[0].Type().Underlying().(*types.Pointer)
	if !isPtr {
		return "", "", false
	}
	st, isStruct := rt.Elem().Underlying().(*types.Struct)
	if !isStruct {
		return "", "", false
	}
	mayWrite := func(ws *WriteSet, field int) bool {
		if ws == nil {
			return false
		}
		if ws.Any {
			return true
		}
		ft := st.Field(field).Type()
		for _, d := range ws.Writes {
			switch d.kind {
			case 'f':
				if d.st != nil && types.Identical(d.st, rt.Elem()) && d.field == field {
					return true
				}
			case 'd':
				if types.Identical(d.typ, ft) {
					return true
				}
			}
		}
		return false
	}
	// the other terms of the predicate: fields of the receiver that nothing in the loop writes (parameters of the
	// predicate other than the receiver are not supported)
	var others []int
	for i, t := range ps.terms {
		if i == curIdx {
			continue
		}
		if t.t.param != 1000 || len(t.t.proj) != 1 {
			return "", "", false
		}
		others = append(others, t.t.proj[0])
	}
	var step *ssa.Call
	for b := range l.blocks {
		for _, ins := range b.Instrs {
			switch x := ins.(type) {
			case *ssa.Store:
				if fa, isFA := x.Addr.(*ssa.FieldAddr); isFA && a.cv(fa.X) == recv {
					return "", "", false // the loop writes the object directly
				}
			case ssa.CallInstruction:
				if _, isB := x.Common().Value.(*ssa.Builtin); isB {
					continue
				}
				ws := e.callWrites(a, x)
				for _, fo := range others {
					if mayWrite(ws, fo) {
						return "", "", false
					}
				}
				if !mayWrite(ws, cur.t.proj[0]) {
					continue
				}
				cc, isC := x.(*ssa.Call)
				if !isC || cc.Call.StaticCallee() == nil || len(cc.Call.Args) == 0 || a.cv(cc.Call.Args[0]) != recv || step != nil {
					return "", "", false // the cursor is written by something else, or twice
				}
				step = cc
			}
		}
	}
	if step == nil {
		return "", "", false
	}
	n, okS := e.fieldStep(step.Call.StaticCallee(), cur.t.proj[0])
	if !okS {
		return "", "", false
	}
	// every back edge lies behind the success edge of the stepping call
	for _, bk := range l.backs {
		s := a.out[bk]
		if s == nil {
			continue
		}
		if !s.truth[step] {
			return "", "", false
		}
	}
	fname := st.Field(cur.t.proj[0]).Name()
	return fmt.Sprintf("%s.%s | %s()", "receiver", fname, pf.Name()),
		fmt.Sprintf("field %s of the receiver advances by %s on every successful %s(), which every back edge follows; %s() bounds it on the staying edge by fields the loop does not write",
			fname, n, step.Call.StaticCallee().Name(), pf.Name()), true
}

// fieldStep: method m stores field fi of its receiver exactly once, as (entry value of the field) + n with n >= 1, and
// every return with a nil error is dominated by that store. Returns a rendering of n.
func (e *Engine) fieldStep(m *ssa.Function, fi int) (string, bool) {
	if m == nil || m.Blocks == nil || !e.InModule(m) || len(m.Params) == 0 {
		return "", false
	}
	a := e.Analyze(m)
	if a == nil || !a.Converged {
		return "", false
	}
	var store *ssa.Store
	for _, b := range m.Blocks {
		for _, ins := range b.Instrs {
			st, ok := ins.(*ssa.Store)
			if !ok {
				continue
			}
			fa, ok := st.Addr.(*ssa.FieldAddr)
			if !ok || fa.X != ssa.Value(m.Params[0]) || fa.Field != fi {
				continue
			}
			if store != nil {
				return "", false
			}
			store = st
		}
	}
	if store == nil {
		return "", false
	}
	// callees must not write the field as well
	for _, b := range m.Blocks {
		for _, ins := range b.Instrs {
			if ci, ok := ins.(ssa.CallInstruction); ok {
				if _, isB := ci.Common().Value.(*ssa.Builtin); isB {
					continue
				}
				ws := e.callWrites(a, ci)
				if ws != nil {
					if ws.Any {
						return "", false
					}
					for _, d := range ws.Writes {
						if d.kind == 'f' && d.st != nil && types.Identical(d.st, derefType(m.Params[0].Type())) && d.field == fi {
							return "", false
						}
					}
				}
			}
		}
	}
	// the entry value of the field
	var entry *Atom
	for _, at := range a.atomList {
		if t, isLen, ok := a.entryTerm(at); ok && !isLen && t.param == 1000 && len(t.proj) == 1 && t.proj[0] == fi {
			entry = at
		}
	}
	if entry == nil {
		return "", false
	}
	delta := Add(a.Lin(store.Val), AtomLin(entry), -1)
	if !a.Entails(store.Block(), delta.plus(-1)) {
		return "", false
	}
	// every successful return is dominated by the store
	s := e.Summarize(m)
	if s == nil || s.ErrIdx < 0 || s.OkBool {
		return "", false
	}
	for _, b := range m.Blocks {
		ret, ok := b.Instrs[len(b.Instrs)-1].(*ssa.Return)
		if !ok || a.in[b] == nil {
			continue
		}
		if isNilConst(a.cv(ret.Results[s.ErrIdx])) && !store.Block().Dominates(b) {
			return "", false
		}
	}
	return delta.String(), true
}

// ---------------------------------------------------------------------------
// consuming a buffer in strides

// multipleAt: under state s the linear expression l is a multiple of k. l is reduced modulo k: atoms whose
// coefficient is a multiple of k vanish, an atom x for which `x % k` was computed is replaced by that remainder, the
// constant is reduced; what is left must be provably zero.
func (a *FuncAn) multipleAt(s *State, l Lin, k int64) bool {
	if k <= 0 {
		return false
	}
	// l differs from an expression whose remainder modulo k was computed only by multiples of k
	for _, rr := range a.rems {
		if rr.k != k || len(rr.X.t) == 0 {
			continue
		}
		d := Add(l, rr.X, -1)
		okd := d.C%k == 0
		for _, t := range d.t {
			if t.k%k != 0 {
				okd = false
			}
		}
		if okd {
			p := a.proverFor(s)
			if p.Entails(rr.r) && p.Entails(Scale(rr.r, -1)) {
				return true
			}
		}
	}
	red := Konst(((l.C % k) + k) % k)
	for _, t := range l.t {
		if t.k%k == 0 {
			continue
		}
		// an integer loop variable that starts at a multiple of k and moves by multiples of k
		if phi, ok := a.atomVal[t.a].(*ssa.Phi); ok && a.intPhiMultiple(phi, k, 0) {
			continue
		}
		replaced := false
		for _, rr := range a.rems {
			if rr.k == k && len(rr.X.t) == 1 && rr.X.C == 0 && rr.X.t[0].k == 1 && rr.X.t[0].a == t.a {
				red = Add(red, rr.r, t.k)
				replaced = true
				break
			}
		}
		if !replaced {
			red = Add(red, AtomLin(t.a), t.k)
		}
	}
	if len(red.t) == 0 {
		return red.C%k == 0
	}
	p := a.proverFor(s)
	// red == 0, or red == k (e.g. r + (k - r))
	if p.Entails(red) && p.Entails(Scale(red, -1)) {
		return true
	}
	return p.Entails(red.plus(-k)) && p.Entails(Scale(red, -1).plus(k))
}

// intPhiMultiple: the integer phi is a multiple of k on every edge: its values from outside the loop are (judged in the
// state of that edge), and every value from inside differs from the phi itself by a constant multiple of k.
func (a *FuncAn) intPhiMultiple(phi *ssa.Phi, k int64, depth int) bool {
	if depth > 2 || k <= 0 {
		return false
	}
	if a.phiMulBusy == nil {
		a.phiMulBusy = map[*ssa.Phi]bool{}
	}
	if a.phiMulBusy[phi] {
		return false
	}
	a.phiMulBusy[phi] = true
	defer delete(a.phiMulBusy, phi)
	pl := a.Lin(phi)
	for i, e := range phi.Edges {
		pred := phi.Block().Preds[i]
		el := a.Lin(e)
		d := Add(el, pl, -1)
		if d.IsConst() {
			if d.C%k != 0 {
				return false
			}
			continue // phi + multiple of k (also the phi itself)
		}
		ps := a.out[pred]
		if ps == nil {
			continue // unreachable edge
		}
		if !a.multipleAt(ps, el, k) {
			return false
		}
	}
	return true
}

// strideIntLemma: x != 0 was learnt for an integer phi that is a multiple of k (its stride) and non-negative: it is at
// least k. (`for end != 0 && … { end -= 2 }` with an even start.)
func (a *FuncAn) strideIntLemma(s *State, x ssa.Value) {
	phi, ok := a.cv(x).(*ssa.Phi)
	if !ok {
		return
	}
	if _, _, isInt := a.E.intInfo(phi.Type()); !isInt {
		return
	}
	pl := a.Lin(phi)
	var k int64
	for _, e := range phi.Edges {
		d := Add(a.Lin(e), pl, -1)
		if d.IsConst() && d.C != 0 {
			c := d.C
			if c < 0 {
				c = -c
			}
			if k == 0 || c < k {
				k = c
			}
		}
	}
	if k < 2 || k > 1<<20 || !a.intPhiMultiple(phi, k, 0) {
		return
	}
	p := a.proverFor(s)
	if p.Entails(pl) { // phi >= 0 and != 0 and a multiple of k
		delete(a.provers, s)
		s.AddFact(pl.plus(-k))
	}
}

// lenMultiple: the length of sequence value v is a multiple of the constant k, judged where v is defined (for a phi:
// on every incoming edge).
func (a *FuncAn) lenMultiple(v ssa.Value, k int64, at *State, depth int) bool {
	if depth > 3 {
		return false
	}
	v = a.cv(v)
	if phi, ok := v.(*ssa.Phi); ok {
		for i, e := range phi.Edges {
			if a.cv(e) == ssa.Value(phi) {
				continue
			}
			ps := a.out[phi.Block().Preds[i]]
			if ps == nil {
				continue // unreachable edge
			}
			// the facts of the edge itself (the branch that leads here)
			pred := phi.Block().Preds[i]
			st := ps
			if iff, ok := pred.Instrs[len(pred.Instrs)-1].(*ssa.If); ok && pred.Succs[0] != pred.Succs[1] {
				st = ps.Clone()
				a.condFacts(st, iff.Cond, pred.Succs[0] == phi.Block())
			}
			if !a.lenMultiple(e, k, st, depth+1) {
				return false
			}
		}
		return true
	}
	if at == nil {
		return false
	}
	return a.multipleAt(at, a.LenOf(v), k)
}

// chunkLemma: v is a sequence phi c = phi(s0, c[k:]) of a loop that consumes a buffer in strides of k; where the
// state says len(c) >= 1 and len(s0) is a multiple of k, a whole stride is left: len(c) >= k. (By induction every
// c[k:] so far was in range, so len(c) = len(s0) - k*j is a non-negative multiple of k.) k is a positive constant, or a
// loop-invariant value for which `len(s0) % k == 0` was tested (the strided-loop idiom of stridedLemma).
func (a *FuncAn) chunkLemma(s *State, v ssa.Value) {
	phi, ok := a.cv(v).(*ssa.Phi)
	if !ok || len(phi.Edges) != 2 || !isSeq(phi.Type()) {
		return
	}
	var s0, kv ssa.Value
	var s0pred *ssa.BasicBlock
	for i, e := range phi.Edges {
		if sl, ok := e.(*ssa.Slice); ok && a.cv(sl.X) == ssa.Value(phi) && sl.Low != nil && sl.High == nil && sl.Max == nil {
			kv = sl.Low
			continue
		}
		s0, s0pred = e, phi.Block().Preds[i]
	}
	if s0 == nil || kv == nil {
		return
	}
	ps := a.out[s0pred]
	if ps == nil {
		return
	}
	kl := a.Lin(kv)
	if k, isC := ConstInt(kv); isC || kl.IsConst() {
		if !isC {
			k = kl.C // e.g. len(s) of a slice made with a constant length
		}
		if k < 1 || !a.lenMultiple(s0, k, ps, 0) {
			return
		}
	} else {
		switch d := kv.(type) {
		case *ssa.Parameter:
		case ssa.Instruction:
			if d.Block() == phi.Block() || !d.Block().Dominates(phi.Block()) {
				return
			}
		default:
			return
		}
		p := a.proverFor(ps)
		if !p.Entails(kl.plus(-1)) {
			return
		}
		found := false
		sl := a.LenOf(s0)
		for _, b := range a.Fn.Blocks {
			for _, ins := range b.Instrs {
				rem, ok := ins.(*ssa.BinOp)
				if !ok || rem.Op != token.REM || a.Lin(rem.Y).key() != kl.key() || a.Lin(rem.X).key() != sl.key() || a.Lin(rem.X).C != sl.C {
					continue
				}
				r := a.Lin(rem)
				if p.Entails(r) && p.Entails(Scale(r, -1)) {
					found = true
				}
			}
		}
		if !found {
			return
		}
	}
	delete(a.provers, s)
	s.AddFact(Add(a.LenOf(phi), kl, -1))
}

// lenPositiveOperand: cond (with the given truth) says len(v) >= 1 for some sequence v; returns v.
func lenPositiveOperand(c *ssa.BinOp, op token.Token) ssa.Value {
	lenArg := func(x ssa.Value) ssa.Value {
		if call, ok := x.(*ssa.Call); ok {
			if bi, ok := call.Call.Value.(*ssa.Builtin); ok && bi.Name() == "len" && len(call.Call.Args) == 1 && isSeq(call.Call.Args[0].Type()) {
				return call.Call.Args[0]
			}
		}
		return nil
	}
	kx, okx := ConstInt(c.X)
	ky, oky := ConstInt(c.Y)
	switch {
	case oky && lenArg(c.X) != nil:
		if (op == token.NEQ && ky == 0) || (op == token.GTR && ky == 0) || (op == token.GEQ && ky == 1) {
			return lenArg(c.X)
		}
	case okx && lenArg(c.Y) != nil:
		if (op == token.NEQ && kx == 0) || (op == token.LSS && kx == 0) || (op == token.LEQ && kx == 1) {
			return lenArg(c.Y)
		}
	}
	return nil
}

// internalPkg: f lives in a package under internal/ — exported there, but only the module's own packages can call it.
func internalPkg(f *ssa.Function) bool {
	if f == nil || f.Pkg == nil {
		return false
	}
	p := f.Pkg.Pkg.Path()
	return strings.Contains(p, "/internal/") || strings.HasSuffix(p, "/internal")
}
