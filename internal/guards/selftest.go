package guards

import (
	"fmt"
	"go/ast"
	"go/parser"
	"go/token"
	"go/types"
	"os"
	"sort"
	"strings"

	"golang.org/x/tools/go/callgraph/cha"
	"golang.org/x/tools/go/ssa"
	"golang.org/x/tools/go/ssa/ssautil"
)

// Positive fixtures: a tiny package compiled to SSA in-process on every run. Functions named bad_<kind>_*
// must yield at least one failed obligation of that kind, functions named ok_* none. This shows that each
// matcher can fire (rules with zero expected violations on /repo are not vacuous) and that the guard idioms
// the repository relies on are still understood.
const fixtureSrc = `package fx

type hdr struct{ n uint8; size int; p *int }

type sizer interface{ Size() int }
type two struct{}
func (two) Size() int { return 2 }
type st struct{ status uint8; v *uint32 }
func (s st) valid() bool { return s.status == 3 }
func (s st) Size() int { if s.valid() { return 5 }; return 1 }

func ok_len_guard(b []byte) byte { if len(b) < 5 { return 0 }; return b[4] }
func bad_index_weak_guard(b []byte) byte { if len(b) < 4 { return 0 }; return b[4] }
func bad_index_no_guard(b []byte, i int) byte { if i < len(b) { return b[i] }; return 0 }
func ok_signed_guard(b []byte, i int) byte { if i < 0 || i > len(b)-1 { return 0 }; return b[i] }
func ok_slice_var(b []byte, h *hdr) []byte { if len(b) < 7+int(h.n) { return nil }; return b[0 : 7+h.n] }
func bad_slice_store_between(b []byte, h *hdr) []byte { if len(b) < 7+int(h.n) { return nil }; h.n++; return b[0 : 7+int(h.n)] }
func bad_slice_off_by_one(b []byte, h *hdr) []byte { if len(b) < 7+int(h.n) { return nil }; return b[0 : 8+int(h.n)] }
func ok_loop_div(b []byte) int { s := 0; for i := 0; i < len(b)/4; i++ { s += int(b[4*i+3]) }; return s }
func bad_index_loop_div(b []byte) int { s := 0; for i := 0; i < len(b)/4; i++ { s += int(b[4*i+4]) }; return s }
func ok_mod(b []byte) []byte { if len(b)%16 != 0 || len(b) == 0 { return nil }; return b[len(b)-16:] }
func ok_slice_cap(b []byte, n int) []byte { if n < 0 { return nil }; if cap(b) < n { b = make([]byte, n) }; return b[:n] }
func bad_slice_cap(b []byte, n int) []byte { if n < 0 || len(b) < 1 { return nil }; return b[:n] }
func bad_index_after_reslice(b []byte) byte { c := b[:cap(b)]; _ = c; if len(b) < 1 { return 0 }; return b[cap(b)-1] }
type sbuf struct{ b []byte }
func ok_mem_phi(s *sbuf, n int) []byte { if n < 0 { return nil }; if cap(s.b) < n { s.b = make([]byte, n) }; return s.b[:n] }
func bad_slice_mem_phi(s *sbuf, n int) []byte { if n < 1 { return nil }; if cap(s.b) < n-1 { s.b = make([]byte, n) }; return s.b[:n] }
func ok_even_scan(b []byte) int { end := len(b) &^ 1; for end != 0 && b[end-2] == 0 { end -= 2 }; return end }
func bad_index_odd_scan(b []byte) int { end := len(b); for end != 0 && b[end-2] == 0 { end -= 2 }; return end }
func ok_window3(b []byte) [5]byte { var o [5]byte; if len(b) > 15 || len(b)%3 != 0 { return o }; for i := 0; len(b) != 0; i, b = i+1, b[3:] { o[i] = b[0] }; return o }
func bad_index_window3(b []byte) [5]byte { var o [5]byte; if len(b) > 18 || len(b)%3 != 0 { return o }; for i := 0; len(b) != 0; i, b = i+1, b[3:] { o[i] = b[0] }; return o }
type rdr struct{ data []byte; err error }
func (r *rdr) take(n int) []byte { b := r.data[:n]; r.data = r.data[n:]; return b }
func ok_reader_direct(b []byte) byte { if len(b) != 3 { return 0 }; r := &rdr{data: b}; x := r.take(1); y := r.take(2); return x[0] ^ y[1] }
type szr interface{ Size() int }
func und_slice_dispatch(b []byte, s szr) []byte { if len(b) == 0 || s == nil { return nil }; return b[s.Size():] }
type rdr2 struct{ data []byte; err error }
func (r *rdr2) take(n int) []byte { b := r.data[:n]; r.data = r.data[n:]; return b }
func (r *rdr2) u8(v *uint8) { if r.err != nil { return }; *v = r.take(1)[0] }
func (r *rdr2) u16(v *uint16) { if r.err != nil { return }; b := r.take(2); *v = uint16(b[0]) | uint16(b[1])<<8 }
func (r *rdr2) raw(n int, dst []byte) { if r.err != nil { return }; copy(dst, r.take(n)) }
func ok_reader_chain(b []byte) (x uint8, y uint16, z [4]byte) { if len(b) != 9 { return }; r := rdr2{data: b}; r.u8(&x); r.raw(4, z[:]); r.u16(&y); r.u16(&y); return }
type rdr3 struct{ data []byte; err error }
func (r *rdr3) take(n int) []byte { b := r.data[:n]; r.data = r.data[n:]; return b }
func (r *rdr3) u8(v *uint8) { if r.err != nil { return }; *v = r.take(1)[0] }
func (r *rdr3) u16(v *uint16) { if r.err != nil { return }; b := r.take(2); *v = uint16(b[0]) | uint16(b[1])<<8 }
func und_slice_reader_short(b []byte) (x uint8, y uint16) { if len(b) != 4 { return }; r := rdr3{data: b}; r.u8(&x); r.u16(&y); r.u16(&y); return }
type rdr4 struct{ data []byte; err error }
func (r *rdr4) take(n int) []byte { b := r.data[:n]; r.data = r.data[n+1:]; return b }
func (r *rdr4) u8(v *uint8) { if r.err != nil { return }; *v = r.take(1)[0] }
func und_slice_reader_skip(b []byte) (x, y uint8) { if len(b) != 3 { return }; r := rdr4{data: b}; r.u8(&x); r.u8(&y); return }
type hd struct{ kind uint8; n int }
func (h *hd) parse(b []byte) bool { if len(b) != 1 { return false }; h.kind = b[0] >> 5; return true }
func (h *hd) parse2(b []byte) bool { if len(b) != 1 { return false }; h.kind = b[0] >> 4; return true }
var hdTab [8]int
func ok_post_bound(h *hd, b []byte) int { if !h.parse(b) { return 0 }; return hdTab[h.kind&7] }
type hd5 struct{ kind uint8 }
func (h *hd5) dec(b []byte) error { if len(b) != 1 { return fxErr{} }; h.kind = b[0] >> 5; return nil }
func (h *hd5) dec4(b []byte) error { if len(b) != 1 { return fxErr{} }; h.kind = b[0] >> 4; return nil }
type fxErr struct{}
func (fxErr) Error() string { return "short" }
func ok_post_field(h *hd5, b []byte) int { if err := h.dec(b); err != nil { return 0 }; return hdTab[h.kind] }
func und_index_post_wide(h *hd5, b []byte) int { if err := h.dec4(b); err != nil { return 0 }; return hdTab[h.kind] }
func und_index_post_unchecked(h *hd5, b []byte) int { h.dec(b); return hdTab[h.kind] }
func bad_slice_tracked(b []byte, n int) []byte { if len(b) == 0 { return nil }; return b[n:] }
func bad_div_zero(n, d int) int { return n / d }
func ok_div(n, d int) int { if d <= 0 { return 0 }; return n / d }
func bad_make_neg(n int) []byte { return make([]byte, n) }
func ok_make(n int) []byte { if n < 0 { return nil }; return make([]byte, n) }
func bad_assert_unchecked(x interface{}) int { return x.(int) }
func ok_assert(x interface{}) int { if v, ok := x.(int); ok { return v }; return 0 }
func bad_panic_explicit(n int) int { if n > 3 { panic("no") }; return n }
func bad_nil_field(h *hdr) int { return *h.p }
func ok_nil_field(h *hdr) int { if h.p == nil { return 0 }; return *h.p }
func ok_stream(b []byte, s sizer) int { n := 0; if s == nil { return 0 }; for i := 0; i < len(b); { _ = b[i:]; i += s.Size(); n++ }; return n }
func bad_loop_no_progress(b []byte, step int) int { n := 0; for i := 0; i < len(b); i++ { n++; i = i + step }; return n }
func ok_piecewise(b []byte, s *st) uint32 {
	if len(b) < 1 { return 0 }
	s.status = b[0] & 3
	if s.valid() { if len(b) < s.Size() { return 0 }; return uint32(b[4]) }
	return 0
}
func bad_index_piecewise(b []byte, s *st) uint32 {
	if len(b) < 1 { return 0 }
	s.status = b[0] & 3
	if len(b) < s.Size() { return 0 }
	return uint32(b[4])
}
type ans struct{ err bool; t *uint32 }
func (a ans) hasErr() bool { if a.err { return true }; return false }
func ok_cond_nil(a ans) uint32 { if !a.hasErr() && a.t == nil { return 0 }; if !a.hasErr() { return *a.t }; return 1 }
func bad_nil_cond(a ans) uint32 { if a.hasErr() && a.t == nil { return 0 }; if !a.hasErr() { return *a.t }; return 1 }
func ok_rows(data []byte, fs int) byte {
	if fs <= 0 || len(data)%fs != 0 { return 0 }
	var rows [][]byte
	for i := 0; i < len(data)/fs; i++ { off := i * fs; rows = append(rows, data[off:off+fs]) }
	var x byte
	for r := 0; r < len(rows); r++ { for m := 0; m < fs; m++ { x ^= rows[r][m] } }
	return x
}
type grp struct{ mask [4]bool; n uint8 }
func (g grp) Size() int { c := 0; for _, m := range g.mask { if m { c++ } }; return 1 + 5*c }
func ok_count(b []byte, g *grp) byte {
	if len(b) == 0 { return 0 }
	c := 0
	for i := range g.mask { if b[0]&(1<<uint8(i)) != 0 { g.mask[i] = true; c++ } }
	if len(b) < g.Size() { return 0 }
	var x byte
	for i := 0; i < c; i++ { x ^= b[1+i*5] }
	return x
}
func bad_index_count(b []byte, g *grp) byte {
	if len(b) == 0 { return 0 }
	c := 0
	for i := range g.mask { if b[0]&(1<<uint8(i)) != 0 { g.mask[i] = true }; c++ }
	if len(b) < g.Size() { return 0 }
	var x byte
	for i := 0; i < c; i++ { x ^= b[1+i*5] }
	return x
}
func bad_div_rows(data []byte, fs int) int { if len(data)%fs != 0 { return 0 }; return len(data) / fs }
func bad_index_induction(b []byte, step int) byte {
	var x byte
	for i := 0; i < len(b); i++ { x = b[i]; i = i + step }
	return x
}
`

// SelfTest analyses the fixture package and returns the list of expectation failures (empty = healthy) and
// the number of fixture functions checked.
func SelfTest() (problems []string, n int) {
	fset := token.NewFileSet()
	f, err := parser.ParseFile(fset, "fx.go", fixtureSrc, 0)
	if err != nil {
		return []string{"fixture does not parse: " + err.Error()}, 0
	}
	pkg := types.NewPackage("fx", "fx")
	spkg, _, err := ssautil.BuildPackage(&types.Config{}, fset, pkg, []*ast.File{f}, ssa.InstantiateGenerics)
	if err != nil {
		return []string{"fixture does not type-check: " + err.Error()}, 0
	}
	prog := spkg.Prog
	cg := cha.CallGraph(prog)
	inMod := func(fn *ssa.Function) bool {
		for g := fn; g != nil; g = g.Parent() {
			if g.Pkg == spkg {
				return true
			}
		}
		return fn != nil && fn.Object() != nil && fn.Object().Pkg() == pkg
	}
	e := NewEngine(prog, cg, inMod, "")
	var names []string
	for name, m := range spkg.Members {
		if fn, ok := m.(*ssa.Function); ok && (strings.HasPrefix(name, "ok_") || strings.HasPrefix(name, "bad_") || strings.HasPrefix(name, "und_")) {
			names = append(names, name)
			e.Roots[fn] = true
		}
	}
	sort.Strings(names)
	var roots []*ssa.Function
	for _, name := range names {
		roots = append(roots, spkg.Func(name))
	}
	// the helpers the fixtures call are analysed in the context of their call sites, as in the real checks
	e.SolveParamNil(e.Reachable(roots))
	for _, name := range names {
		fn := spkg.Func(name)
		n++
		failedKinds := map[string]int{}
		undecidedKinds := map[string]int{}
		whyUnd := ""
		for _, rf := range e.Reachable([]*ssa.Function{fn}) {
			if rf != fn && e.Roots[rf] {
				continue
			}
			for _, o := range e.Obligations(rf) {
				if d := os.Getenv("LW_FIXDEBUG"); d != "" && strings.Contains(name, d) {
					fmt.Fprintf(os.Stderr, "fixture %s: %s %s %s status=%d %s\n", name, FuncShort(rf), o.Kind, o.Expr, o.Status, o.Why)
				}
				switch o.Status {
				case Failed:
					failedKinds[o.Kind]++
				case Unsupported:
					undecidedKinds[o.Kind]++
					whyUnd = o.Why
				}
			}
		}
		for _, lp := range e.LoopProgress(fn) {
			switch lp.Status {
			case Failed:
				failedKinds["loop"]++
			case Unsupported:
				undecidedKinds["loop"]++
			}
		}
		if strings.HasPrefix(name, "und_") {
			// outside the tracked memory model: undecided, and in particular not reported as a violation
			kind := strings.SplitN(strings.TrimPrefix(name, "und_"), "_", 2)[0]
			if undecidedKinds[kind] == 0 || len(failedKinds) > 0 {
				problems = append(problems, fmt.Sprintf("fixture %s: expected an undecided %q obligation and no violation, got undecided %v, failed %v", name, kind, undecidedKinds, failedKinds))
			}
			continue
		}
		if strings.HasPrefix(name, "ok_") {
			if len(failedKinds) > 0 || len(undecidedKinds) > 0 {
				problems = append(problems, fmt.Sprintf("fixture %s: expected every obligation discharged, failed kinds %v, undecided %v", name, failedKinds, undecidedKinds))
			}
			continue
		}
		kind := strings.SplitN(strings.TrimPrefix(name, "bad_"), "_", 2)[0]
		if failedKinds[kind] == 0 {
			problems = append(problems, fmt.Sprintf("fixture %s: expected a failed %q obligation, got %v (undecided: %v %s)", name, kind, failedKinds, undecidedKinds, whyUnd))
		}
	}
	return problems, n
}
