package guards

import (
	"fmt"
	"go/ast"
	"go/token"
	"go/types"
	"os"
	"regexp"
	"sort"
	"strings"

	"golang.org/x/tools/go/callgraph"
	"golang.org/x/tools/go/ssa"
)

// Engine is E3: obligations on SSA discharged by dominating facts (DESIGN §2.4).
type Engine struct {
	Prog     *ssa.Program
	CG       *callgraph.Graph
	InModule func(*ssa.Function) bool
	WordBits int

	// RootParamsNonNil: pointer parameters (and receivers) of root functions are assumed non-nil.
	Roots map[*ssa.Function]bool

	moduleFuncs   []*ssa.Function
	fas           map[*ssa.Function]*FuncAn
	busy          map[*ssa.Function]bool
	sums          map[*ssa.Function]*Summary
	sumBusy       map[*ssa.Function]bool
	writes        map[*ssa.Function]*WriteSet
	postMemo      map[*ssa.Function][]PostFact
	postBusy      map[*ssa.Function]bool
	extWrites     map[*ssa.Function]*WriteSet
	fieldInv      map[*types.Var]fieldInvRes
	callees       map[ssa.CallInstruction][]*ssa.Function
	callers       map[*ssa.Function][]ssa.CallInstruction
	paramMaybeNil map[*ssa.Parameter]string // parameter -> call site that may pass nil
	Scope         map[*ssa.Function]bool    // functions whose call sites count for parameter preconditions
	externSeen    map[string]*ExternUse
	mapInv        map[string]bool
	decs          map[*ssa.Function]*DecSummary
	preds         map[*ssa.Function]*PredSummary
	hoistBusy     map[*ssa.Function]bool
	invGen        int // incremented when an inductive field invariant is established
	invSeen       int // generation the cached analyses were computed under
	ctxFas        map[*ssa.Function]*FuncAn
	ctxBusy       map[*ssa.Function]bool
	countSums     map[*ssa.Function]*CountSummary
	onceMemo      map[*ssa.Global]*onceInfo
	onceDone      map[*ssa.Global]bool
	initConst     map[*ssa.Global]map[string]*ssa.Const
	initNonNil    map[*ssa.Global]map[string]bool
	pureMemo      map[*ssa.Function]int
}

func NewEngine(prog *ssa.Program, cg *callgraph.Graph, inModule func(*ssa.Function) bool, goarch string) *Engine {
	e := &Engine{Prog: prog, CG: cg, InModule: inModule, WordBits: 64,
		Roots: map[*ssa.Function]bool{}, fas: map[*ssa.Function]*FuncAn{}, busy: map[*ssa.Function]bool{},
		sums: map[*ssa.Function]*Summary{}, sumBusy: map[*ssa.Function]bool{}, writes: map[*ssa.Function]*WriteSet{},
		extWrites: map[*ssa.Function]*WriteSet{}, fieldInv: map[*types.Var]fieldInvRes{},
		callees: map[ssa.CallInstruction][]*ssa.Function{}, callers: map[*ssa.Function][]ssa.CallInstruction{},
		paramMaybeNil: map[*ssa.Parameter]string{}, mapInv: map[string]bool{}, decs: map[*ssa.Function]*DecSummary{}, ctxFas: map[*ssa.Function]*FuncAn{}, ctxBusy: map[*ssa.Function]bool{}, countSums: map[*ssa.Function]*CountSummary{}, preds: map[*ssa.Function]*PredSummary{}, hoistBusy: map[*ssa.Function]bool{}}
	switch goarch {
	case "386", "arm", "mips", "mipsle", "wasm":
		e.WordBits = 32
	}
	var nodes []*callgraph.Node
	for f, n := range cg.Nodes {
		if f == nil {
			continue
		}
		nodes = append(nodes, n)
		if inModule(f) && f.Blocks != nil {
			e.moduleFuncs = append(e.moduleFuncs, f)
		}
	}
	sort.Slice(nodes, func(i, j int) bool { return nodes[i].ID < nodes[j].ID })
	sort.Slice(e.moduleFuncs, func(i, j int) bool { return e.moduleFuncs[i].String() < e.moduleFuncs[j].String() })
	for _, n := range nodes {
		for _, ed := range n.Out {
			if ed.Site == nil || ed.Callee.Func == nil {
				continue
			}
			dup := false
			for _, c := range e.callees[ed.Site] {
				if c == ed.Callee.Func {
					dup = true
				}
			}
			if !dup {
				e.callees[ed.Site] = append(e.callees[ed.Site], ed.Callee.Func)
				e.callers[ed.Callee.Func] = append(e.callers[ed.Callee.Func], ed.Site)
			}
		}
	}
	for _, cs := range e.callees {
		sort.Slice(cs, func(i, j int) bool { return cs[i].String() < cs[j].String() })
	}
	e.computeWrites(e.moduleFuncs)
	return e
}

// Callees: possible targets of a call instruction (static callee, else call-graph edges).
func (e *Engine) Callees(call ssa.CallInstruction) []*ssa.Function {
	if f := call.Common().StaticCallee(); f != nil {
		return []*ssa.Function{f}
	}
	return e.callees[call]
}

// Reachable: module functions reachable from the roots through the call graph (bodies only).
func (e *Engine) Reachable(roots []*ssa.Function) []*ssa.Function {
	seen := map[*ssa.Function]bool{}
	var work, out []*ssa.Function
	for _, r := range roots {
		if !seen[r] {
			seen[r] = true
			work = append(work, r)
		}
	}
	for len(work) > 0 {
		f := work[0]
		work = work[1:]
		out = append(out, f)
		if f.Blocks == nil {
			continue
		}
		for _, b := range f.Blocks {
			for _, ins := range b.Instrs {
				// a module function used as a value (a literal without free variables handed to sync.Once.Do, sort.Search …)
				// may be called by whoever receives it
				for _, op := range ins.Operands(nil) {
					if op == nil || *op == nil {
						continue
					}
					if c, ok := (*op).(*ssa.Function); ok && e.InModule(c) && c.Blocks != nil && !seen[c] {
						seen[c] = true
						work = append(work, c)
					}
				}
				switch x := ins.(type) {
				case ssa.CallInstruction:
					for _, c := range e.Callees(x) {
						if e.InModule(c) && c.Blocks != nil && !seen[c] {
							seen[c] = true
							work = append(work, c)
						}
					}
				case *ssa.MakeClosure:
					if c, ok := x.Fn.(*ssa.Function); ok && !seen[c] && c.Blocks != nil {
						seen[c] = true
						work = append(work, c)
					}
				}
			}
		}
	}
	sort.Slice(out, func(i, j int) bool { return out[i].String() < out[j].String() })
	return out
}

func (e *Engine) newFuncAn(f *ssa.Function) *FuncAn {
	return &FuncAn{E: e, Fn: f, atoms: map[string]*Atom{}, atomDef: map[*Atom]*ssa.BasicBlock{}, atomDeps: map[*Atom][]*Atom{},
		linMemo: map[ssa.Value]Lin{}, lenMemo: map[ssa.Value]Lin{}, escMemo: map[*ssa.Alloc]bool{}, canon: map[ssa.Value]ssa.Value{},
		in: map[*ssa.BasicBlock]*State{}, out: map[*ssa.BasicBlock]*State{}, elemLenMemo: map[ssa.Value]*Lin{}, inited: map[*Atom]bool{}, inited2: map[*Atom]bool{},
		provers: map[*State]*prover{}, atomLoad: map[*Atom]*ssa.UnOp{},
		loadSnap: map[*ssa.UnOp]map[string]ssa.Value{}, callSnap: map[*ssa.Call]map[string]ssa.Value{}, callVer: map[*ssa.Call]map[string]string{}}
}

// Analyze runs (once) the intraprocedural analysis of f.
func (e *Engine) Analyze(f *ssa.Function) *FuncAn {
	if a, ok := e.fas[f]; ok {
		return a
	}
	if f.Blocks == nil || e.busy[f] {
		return nil
	}
	e.busy[f] = true
	a := e.newFuncAn(f)
	a.run()
	delete(e.busy, f)
	e.fas[f] = a
	return a
}

// ---------------------------------------------------------------------------
// obligations

type Status int

const (
	Proved Status = iota
	Failed
	Unsupported
)

type Goal struct {
	L    Lin
	Text string
}

type Obl struct {
	Fn         *ssa.Function
	Instr      ssa.Instruction
	Kind       string // index slice div shift make assert panic nil extern intrinsic mapwrite
	Expr       string // source text of the construct
	Want       string
	Status     Status
	Why        string
	Nontrivial bool
	Input      bool   // some operand derives from an input symbol
	Assumed    string // discharged by a stated assumption (e.g. "A5"), not by a fact
}

// isInterfaceSliceElement: v is loaded from an element of a slice whose element type is an interface.
func isInterfaceSliceElement(v ssa.Value) bool {
	ld, ok := v.(*ssa.UnOp)
	if !ok || ld.Op != token.MUL {
		return false
	}
	ia, ok := ld.X.(*ssa.IndexAddr)
	if !ok {
		return false
	}
	sl, ok := ia.X.Type().Underlying().(*types.Slice)
	if !ok {
		return false
	}
	_, isIface := sl.Elem().Underlying().(*types.Interface)
	return isIface
}

func (o *Obl) Pos() token.Pos { return o.Instr.Pos() }

// FuncShort: pkg-relative name, e.g. "lorawan.(*MACPayload).UnmarshalBinary" -> "MACPayload.UnmarshalBinary".
func FuncShort(f *ssa.Function) string {
	name := f.Name()
	if f.Signature.Recv() != nil {
		r := types.TypeString(f.Signature.Recv().Type(), func(*types.Package) string { return "" })
		name = strings.TrimPrefix(r, "*") + "." + name
	}
	if f.Parent() != nil {
		name = FuncShort(f.Parent()) + "$" + strings.TrimPrefix(f.Name(), f.Parent().Name()+"$")
	}
	return name
}

func PkgRel(f *ssa.Function, mod string) string {
	p := pkgOf(f)
	if f.Parent() != nil {
		p = pkgOf(f.Parent())
	}
	p = strings.TrimPrefix(strings.TrimPrefix(p, mod), "/")
	if p == "" {
		return "lorawan"
	}
	return p
}

// exprAt finds the source text of the construct at pos inside the function's syntax.
func exprAt(f *ssa.Function, pos token.Pos, kind string) string {
	for g := f; g != nil; g = g.Parent() {
		syn := g.Syntax()
		if syn == nil || !pos.IsValid() {
			continue
		}
		var best ast.Node
		ast.Inspect(syn, func(n ast.Node) bool {
			if n == nil || pos < n.Pos() || pos >= n.End() {
				return n == nil || false
			}
			match := false
			switch x := n.(type) {
			case *ast.IndexExpr:
				match = x.Lbrack == pos && (kind == "index" || kind == "nil")
			case *ast.SliceExpr:
				match = x.Lbrack == pos && (kind == "slice" || kind == "nil")
			case *ast.BinaryExpr:
				match = x.OpPos == pos
			case *ast.AssignStmt:
				match = x.TokPos == pos
			case *ast.IncDecStmt:
				match = x.TokPos == pos
			case *ast.CallExpr:
				match = x.Lparen == pos || x.Pos() == pos
			case *ast.TypeAssertExpr:
				match = x.Lparen == pos
			case *ast.StarExpr:
				match = x.Star == pos
			case *ast.SelectorExpr:
				match = x.Sel.Pos() == pos || x.Pos() == pos
			case *ast.RangeStmt:
				match = x.For == pos || x.X.Pos() == pos
			case *ast.Ident:
				match = x.Pos() == pos
			case *ast.CompositeLit:
				match = x.Lbrace == pos
			case *ast.UnaryExpr:
				match = x.OpPos == pos
			}
			if match {
				best = n
			}
			return true
		})
		if best != nil {
			switch x := best.(type) {
			case *ast.RangeStmt:
				return "range " + types.ExprString(x.X)
			case *ast.AssignStmt:
				s := ""
				for i, l := range x.Lhs {
					if i > 0 {
						s += ", "
					}
					s += types.ExprString(l)
				}
				s += " " + x.Tok.String() + " "
				for i, r := range x.Rhs {
					if i > 0 {
						s += ", "
					}
					s += types.ExprString(r)
				}
				return clip(s)
			case *ast.IncDecStmt:
				return types.ExprString(x.X) + x.Tok.String()
			case ast.Expr:
				return clip(types.ExprString(x))
			}
		}
	}
	return ""
}

var ssaNumRe = regexp.MustCompile(`φ[0-9]+|\bt[0-9]+`)

// stableName removes SSA register numbers from a diagnostic rendering (keys must survive unrelated edits).
func stableName(s string) string { return ssaNumRe.ReplaceAllString(s, "") }

func clip(s string) string {
	s = strings.Join(strings.Fields(s), " ")
	if len(s) > 90 {
		s = s[:87] + "..."
	}
	return s
}

func (a *FuncAn) goalText(g Lin) string { return g.String() + " >= 0" }

// fromUnclassifiedExtern: v is (a result of) a call all of whose callees are outside the module and neither trusted nor
// intrinsic.
func (a *FuncAn) fromUnclassifiedExtern(v ssa.Value) bool {
	if ex, ok := v.(*ssa.Extract); ok {
		v = ex.Tuple
	}
	call, ok := v.(*ssa.Call)
	if !ok {
		return false
	}
	cs := a.E.Callees(call)
	if call.Call.IsInvoke() && len(cs) == 0 {
		name := "(" + types.TypeString(call.Call.Value.Type(), nil) + ")." + call.Call.Method.Name()
		_, trusted := trustedReason(name)
		_, intr := intrinsics[name]
		return !trusted && !intr
	}
	if len(cs) == 0 {
		return false
	}
	for _, f := range cs {
		if a.E.InModule(f) {
			return false
		}
		name := FuncFullName(f)
		if _, ok := trustedReason(name); ok {
			return false
		}
		if _, ok := intrinsics[name]; ok {
			return false
		}
	}
	return true
}

const untrackedPrefix = "outside the tracked memory model: "

// check proves all goals at block b; returns status text.
func (a *FuncAn) check(b *ssa.BasicBlock, goals []Goal) (bool, string) {
	if !a.Converged {
		return false, "analysis of the function did not converge"
	}
	if a.in[b] == nil {
		return true, "block unreachable under the dominating facts"
	}
	hoisted := ""
	for _, g := range goals {
		if !a.Entails(b, g.L) {
			a.hoistUntracked = ""
			if why, ok := a.hoistWith(b, g.L, 2); ok {
				hoisted = why
				continue
			}
			if a.hoistUntracked != "" {
				return false, untrackedPrefix + g.Text + "  [" + a.goalText(g.L) + "] is left to the callers, and " + a.hoistUntracked
			}
			if DebugAllFacts {
				for _, f := range a.proverFor(a.in[b]).facts {
					fmt.Println("DEBUG prover fact:", f.String(), ">= 0")
				}
			}
			if why, un := a.untrackedIn(g.L); un {
				return false, untrackedPrefix + g.Text + "  [" + a.goalText(g.L) + "] depends on " + why
			}
			if why, un := a.untrackedNear(b, g.L); un {
				return false, untrackedPrefix + g.Text + "  [" + a.goalText(g.L) + "] is known only through " + why
			}
			// an unexported worker whose obligation relates several of its parameters to a loop variable (`data[off :
			// off+size]` with off advancing by size, safe because the exported wrapper checked len(data)%size == 0): the
			// relation among the parameters is established by the callers in a form a per-site linear goal cannot carry
			if why := a.callerRelation(b, g.L); why != "" {
				return false, untrackedPrefix + g.Text + "  [" + a.goalText(g.L) + "] " + why
			}
			// a value of the goal was examined by a module function whose nil error is established on this path (a
			// validation helper: `if err := b.checkIndex(i); err != nil { return err }`): what that success implies is a
			// fact about the helper's arguments and the state it reads, which no summary of this engine carried here
			for _, t := range g.L.t {
				v := a.atomVal[t.a]
				if v == nil {
					v = a.lenAtomOf[t.a]
				}
				if v == nil {
					continue
				}
				if h := a.vettedBy(a.in[b], a.cv(v)); h != "" {
					return false, untrackedPrefix + g.Text + "  [" + a.goalText(g.L) + "]: " + a.valName(v) + " was examined by " + h + ", which returned no error on this path; what that success implies is not summarised"
				}
			}
			return false, "cannot show " + g.Text + "  [" + a.goalText(g.L) + "]; facts: " + a.factsText(b, g.L)
		}
	}
	var ts []string
	all := Lin{}
	for _, g := range goals {
		ts = append(ts, g.Text)
		for _, t := range g.L.t {
			if all.Coef(t.a) == 0 {
				all = Add(all, AtomLin(t.a), 1)
			}
		}
	}
	if hoisted != "" {
		return true, strings.Join(ts, ", ") + " (" + hoisted + ")"
	}
	if len(all.t) == 0 {
		return true, strings.Join(ts, ", ") + " (constant)"
	}
	return true, strings.Join(ts, ", ") + " from " + a.factsText(b, all)
}

// DebugAllFacts makes failure texts list every fact of the block (LWDEBUG=facts).
var DebugAllFacts = os.Getenv("LWDEBUG") == "facts"

// factsText lists the state facts of block b (those sharing an atom with g when g has atoms).
func (a *FuncAn) factsText(b *ssa.BasicBlock, g Lin) string {
	s := a.in[b]
	if s == nil {
		return "unreachable"
	}
	var out []string
	for _, f := range s.sortedFacts() {
		if len(g.t) > 0 && !DebugAllFacts {
			rel := false
			for _, t := range g.t {
				if f.Coef(t.a) != 0 {
					rel = true
				}
			}
			if !rel {
				continue
			}
		}
		out = append(out, f.String()+" >= 0")
		if len(out) >= 8 && !DebugAllFacts {
			out = append(out, "…")
			break
		}
	}
	if len(out) == 0 {
		return "(no dominating fact)"
	}
	return strings.Join(out, "; ")
}

// Obligations enumerates and checks the obligations of one analysed function.
// survivedState: the facts on entry of ins's block plus, for every index / slice expression that precedes ins in the
// block, the bound it checked at run time (execution reaches ins only if it did not panic). nil when there is none.
func (a *FuncAn) survivedState(ins ssa.Instruction) *State {
	b := ins.Block()
	in := a.in[b]
	if in == nil {
		return nil
	}
	var s *State
	add := func(l Lin) {
		if s == nil {
			s = in.Clone()
		}
		s.AddFact(l)
	}
	for _, x := range b.Instrs {
		if x == ins {
			break
		}
		switch y := x.(type) {
		case *ssa.IndexAddr:
			if _, _, isInt := a.E.intInfo(y.Index.Type()); !isInt {
				continue
			}
			i := a.Lin(y.Index)
			add(Add(a.LenOf(y.X), i, -1).plus(-1))
			add(i)
		case *ssa.Slice:
			// what a slice expression that did not panic establishes: 0 <= low <= high <= cap (len for strings/arrays)
			l := a.CapOf(y.X)
			if y.High != nil {
				add(Add(l, a.Lin(y.High), -1))
			}
			if y.Low != nil {
				add(Add(l, a.Lin(y.Low), -1))
				add(a.Lin(y.Low))
			}
		}
	}
	return s
}

// analyzeFresh: the contextual analysis of f, recomputed when an inductive field invariant was established while it
// ran (analyses cached before that did not know the bound: they are sound but weaker).
func (e *Engine) analyzeFresh(f *ssa.Function) *FuncAn {
	for i := 0; ; i++ {
		if e.invGen == e.invSeen || i >= 4 {
			a := e.AnalyzeCtx(f)
			if e.invGen == e.invSeen || i >= 4 {
				return a
			}
		}
		e.invSeen = e.invGen
		e.fas = map[*ssa.Function]*FuncAn{}
		e.ctxFas = map[*ssa.Function]*FuncAn{}
		e.sums = map[*ssa.Function]*Summary{}
		e.decs = map[*ssa.Function]*DecSummary{}
		e.preds = map[*ssa.Function]*PredSummary{}
	}
}

func (e *Engine) Obligations(f *ssa.Function) []*Obl {
	a := e.analyzeFresh(f)
	if a == nil {
		return nil
	}
	var out []*Obl
	add := func(ins ssa.Instruction, kind, want string, goals []Goal) *Obl {
		o := &Obl{Fn: f, Instr: ins, Kind: kind, Want: want}
		ok, why := a.check(ins.Block(), goals)
		if !ok {
			// facts established earlier in the same block by constructs that did not panic (`_ = b[2]` before b[0], b[1])
			if s2 := a.survivedState(ins); s2 != nil {
				all := true
				for _, g := range goals {
					if !a.proverFor(s2).Entails(g.L) {
						all = false
						break
					}
				}
				delete(a.provers, s2)
				if all {
					ok, why = true, "implied by an earlier index / slice expression of the same block that did not panic"
				}
			}
		}
		o.Why = why
		if !ok {
			o.Status = Failed
			if strings.HasPrefix(why, untrackedPrefix) {
				o.Status = Unsupported
			}
		}
		for _, g := range goals {
			if len(g.L.t) > 0 {
				o.Nontrivial = true
			}
			if g.L.dependsOnInput() {
				o.Input = true
			}
		}
		o.Expr = exprAt(f, ins.Pos(), kind)
		out = append(out, o)
		return o
	}
	nilSeen := map[string]bool{}
	nilObl := func(ins ssa.Instruction, ptr ssa.Value, what string) {
		v := a.cv(ptr)
		if a.isNonNil(nil, v) {
			return
		}
		k := fmt.Sprintf("%p|%p", v, ins.Block())
		if nilSeen[k] {
			return
		}
		nilSeen[k] = true
		o := &Obl{Fn: f, Instr: ins, Kind: "nil", Want: what + " is non-nil", Nontrivial: true}
		s := a.stateBefore(ins)
		switch {
		case !a.Converged:
			o.Status, o.Why = Failed, "analysis of the function did not converge"
		case s == nil:
			o.Why = "block unreachable"
		case a.isNonNil(s, v):
			o.Why = "dominating non-nil fact for " + a.valName(v)
		case isInterfaceSliceElement(v):
			o.Why = "assumption A5: interface elements of a payload slice are non-nil (" + a.valName(v) + ")"
			o.Assumed = "A5"
		case a.fromUnclassifiedExtern(v):
			// what an external callee outside the trusted table returns is not known to be nil or non-nil; the callee
			// itself is reported as the undecided obligation
			o.Status = Unsupported
			o.Why = "result of an unclassified external callee: " + a.valName(v)
		case a.vettedBy(s, v) != "":
			// the pointer was handed to a module function whose nil error has been established on this path (a
			// validation helper: `if err := validate(flag, p.T); err != nil { return err }`): what that success says about
			// the pointer is a relation between its arguments that no summary of this engine expresses
			o.Status = Unsupported
			o.Why = untrackedPrefix + "nil-ness of " + a.valName(v) + " was examined by " + a.vettedBy(s, v) + ", which returned no error on this path; what that success implies for the pointer is not summarised"
		default:
			o.Status = Failed
			o.Why = "no dominating non-nil check for " + a.valName(v)
			if p, ok := v.(*ssa.Parameter); ok {
				o.Why += " (call site: " + e.paramMaybeNil[p] + ")"
			}
		}
		// stable key text: the source construct when it can be located, else the value rendering without
		// SSA register numbers
		o.Expr = stableName(a.valName(v))
		if src := exprAt(f, ins.Pos(), "nil"); src != "" {
			o.Expr = src + " <- " + o.Expr
		}
		out = append(out, o)
	}
	for _, b := range a.rpo {
		for _, ins := range b.Instrs {
			switch x := ins.(type) {
			case *ssa.IndexAddr:
				if _, isPtr := x.X.Type().Underlying().(*types.Pointer); isPtr {
					nilObl(x, x.X, "array pointer")
				}
				ln := a.LenOf(x.X)
				idx := a.Lin(x.Index)
				if idx.IsConst() && ln.IsConst() && idx.C >= 0 && idx.C < ln.C {
					continue // compile-time safe
				}
				add(x, "index", "0 <= index < len", []Goal{{idx, "index >= 0"}, {Add(ln, idx, -1).plus(-1), "index < len"}})
			case *ssa.Index:
				ln := a.LenOf(x.X)
				idx := a.Lin(x.Index)
				if idx.IsConst() && ln.IsConst() && idx.C >= 0 && idx.C < ln.C {
					continue
				}
				add(x, "index", "0 <= index < len", []Goal{{idx, "index >= 0"}, {Add(ln, idx, -1).plus(-1), "index < len"}})
			case *ssa.Lookup:
				if isSeq(x.X.Type()) {
					ln := a.LenOf(x.X)
					idx := a.Lin(x.Index)
					add(x, "index", "0 <= index < len", []Goal{{idx, "index >= 0"}, {Add(ln, idx, -1).plus(-1), "index < len"}})
				}
			case *ssa.Slice:
				var ln Lin
				if n, ok := arrayLen(x.X.Type()); ok {
					ln = Konst(n)
					nilObl(x, x.X, "array pointer")
				} else {
					ln = a.LenOf(x.X)
				}
				lo, hi := Konst(0), ln
				if x.Low != nil {
					lo = a.Lin(x.Low)
				}
				if x.High != nil {
					hi = a.Lin(x.High)
				}
				var goals []Goal
				if x.Low != nil && !(lo.IsConst() && lo.C >= 0) {
					goals = append(goals, Goal{lo, "low >= 0"})
				}
				if d := Add(hi, lo, -1); !(d.IsConst() && d.C >= 0) {
					goals = append(goals, Goal{d, "low <= high"})
				}
				// the upper limit of a slice expression on a slice is its capacity
				limit, limName := ln, "len"
				if _, isSl := x.X.Type().Underlying().(*types.Slice); isSl {
					limit, limName = a.CapOf(x.X), "cap"
				}
				if x.High != nil && x.Max == nil {
					if d := Add(limit, hi, -1); !(d.IsConst() && d.C >= 0) {
						// proved against the length first (the common form, and the facts are about lengths)
						if dl := Add(ln, hi, -1); limName == "cap" && (dl.IsConst() && dl.C >= 0 || a.Entails(x.Block(), dl)) {
							goals = append(goals, Goal{dl, "high <= len"}) // high <= len <= cap
						} else {
							goals = append(goals, Goal{d, "high <= " + limName})
						}
					}
				}
				if x.Max != nil {
					goals = append(goals, Goal{Add(a.Lin(x.Max), hi, -1), "high <= max"})
					if d := Add(limit, a.Lin(x.Max), -1); !(d.IsConst() && d.C >= 0) {
						goals = append(goals, Goal{d, "max <= " + limName})
					}
				}
				if len(goals) == 0 {
					continue
				}
				add(x, "slice", "0 <= low <= high <= len", goals)
			case *ssa.BinOp:
				switch x.Op {
				case token.QUO, token.REM:
					if _, _, ok := e.intInfo(x.Type()); !ok {
						continue
					}
					d := a.Lin(x.Y)
					if d.IsConst() && d.C != 0 {
						continue
					}
					o := add(x, "div", "divisor != 0", []Goal{{d.plus(-1), "divisor >= 1"}})
					if o.Status == Failed {
						// a negative divisor is fine too
						if ok, why := a.check(b, []Goal{{Scale(d, -1).plus(-1), "divisor <= -1"}}); ok {
							o.Status, o.Why = Proved, why
						}
					}
				case token.SHL, token.SHR:
					_, uns, ok := e.intInfo(x.Y.Type())
					if !ok || uns {
						continue
					}
					d := a.Lin(x.Y)
					if d.IsConst() && d.C >= 0 {
						continue
					}
					add(x, "shift", "shift count >= 0", []Goal{{d, "count >= 0"}})
				}
			case *ssa.MakeSlice:
				n := a.Lin(x.Len)
				var goals []Goal
				if !(n.IsConst() && n.C >= 0) {
					goals = append(goals, Goal{n, "len >= 0"})
				}
				c := a.Lin(x.Cap)
				if d := Add(c, n, -1); !(d.IsConst() && d.C >= 0) {
					goals = append(goals, Goal{d, "len <= cap"})
				}
				if len(goals) > 0 {
					add(x, "make", "0 <= len <= cap", goals)
				}
			case *ssa.TypeAssert:
				if !x.CommaOk {
					o := &Obl{Fn: f, Instr: x, Kind: "assert", Want: "checked (comma-ok) type assertion", Nontrivial: true, Expr: exprAt(f, x.Pos(), "assert")}
					if mi, ok := a.cv(x.X).(*ssa.MakeInterface); ok && types.Identical(mi.X.Type(), x.AssertedType) {
						o.Why = "operand is a fresh interface of the asserted type"
					} else if a.in[b] == nil {
						o.Why = "unreachable"
					} else if e.poolAssertOK(x) {
						o.Why = "every object of this sync.Pool has the asserted type (New and every Put)"
					} else if upcastOK(x) {
						// an interface value asserted to an interface its static type already implements (what go/ssa emits for
						// a method value of an interface, `block.Encrypt`): fails only for a nil interface
						if s := a.stateBefore(x); s != nil && a.isNonNil(s, a.cv(x.X)) {
							o.Why = "assertion to an interface the static type implements, on a non-nil value"
						} else {
							o.Kind, o.Want = "nil", "interface value is non-nil"
							o.Status, o.Why = Failed, "no dominating non-nil check for "+a.valName(x.X)
							if h := a.vettedBy(a.stateBefore(x), a.cv(x.X)); h != "" {
								o.Status, o.Why = Unsupported, untrackedPrefix+"nil-ness of "+a.valName(x.X)+" was examined by "+h
							}
						}
					} else {
						o.Status, o.Why = Failed, "single-result type assertion on "+a.valName(x.X)
					}
					out = append(out, o)
				}
			case *ssa.Panic:
				o := &Obl{Fn: f, Instr: x, Kind: "panic", Want: "explicit panic unreachable", Nontrivial: true, Expr: exprAt(f, x.Pos(), "panic")}
				if a.Converged && a.in[b] == nil {
					o.Why = "block unreachable under the dominating facts"
				} else {
					o.Status, o.Why = Failed, "explicit panic reachable"
				}
				out = append(out, o)
			case *ssa.FieldAddr:
				nilObl(x, x.X, "struct pointer")
			case *ssa.UnOp:
				if x.Op == token.MUL {
					nilObl(x, x.X, "pointer")
				}
			case *ssa.Store:
				nilObl(x, x.Addr, "pointer")
			case *ssa.MapUpdate:
				nilObl(x, x.Map, "map written to")
			case ssa.CallInstruction:
				c := x.Common()
				if _, isB := c.Value.(*ssa.Builtin); isB {
					continue
				}
				if c.IsInvoke() {
					nilObl(x, c.Value, "interface receiver")
				} else if c.StaticCallee() == nil {
					nilObl(x, c.Value, "function value")
				}
				if call, ok := x.(*ssa.Call); ok {
					e.externObligations(a, call, add, &out)
				}
			}
		}
	}
	return out
}

// vettedBy: v was an argument of a module call that is known, in state s, to have returned a nil error.
func (a *FuncAn) vettedBy(s *State, v ssa.Value) string {
	if s == nil {
		return ""
	}
	best := ""
	for k, tv := range s.truth {
		c, ok := k.(*ssa.Call)
		if !ok {
			continue
		}
		callee := c.Call.StaticCallee()
		if callee == nil || !a.E.InModule(callee) || callee.Blocks == nil {
			continue
		}
		if _, hasErr := errOfSignature(callee.Signature); hasErr && !tv {
			continue // an error-returning call must be known to have succeeded
		}
		if _, hasErr := errOfSignature(callee.Signature); !hasErr {
			// a boolean predicate of the module whose truth is known on this path (`if !intutil.ValidIndex(i, n) {
			// return … }`) and that the engine has neither a decision nor a comparison summary for
			res := callee.Signature.Results()
			if res.Len() != 1 || !isBoolType(res.At(0).Type()) || a.E.decisionComplete(callee) || a.E.predOf(callee) != nil {
				continue
			}
		}
		vr := valueRoots(v, 0)
		for _, arg := range c.Call.Args {
			hit := a.cv(arg) == v
			if !hit {
				// the helper received the object the value belongs to (`p.validate()` on the struct whose field is
				// dereferenced, whose Size() is taken, …)
				for r := range valueRoots(arg, 0) {
					if vr[r] {
						hit = true
					}
				}
			}
			if hit {
				if n := FuncShort(callee); best == "" || n < best {
					best = n
				}
			}
		}
	}
	return best
}

func errOfSignature(sig *types.Signature) (int, bool) {
	i := errIndex(sig)
	return i, i >= 0
}

// valueRoots: the local variables and pointer parameters a value is read from or computed over: through loads, field
// and element selections, conversions, and the receiver/arguments of calls (the Size() of an object is rooted in it).
// Plain scalar and slice parameters are not roots: sharing `data` with a helper says nothing about an index into it.
func valueRoots(v ssa.Value, depth int) map[ssa.Value]bool {
	out := map[ssa.Value]bool{}
	var walk func(v ssa.Value, d int)
	walk = func(v ssa.Value, d int) {
		if v == nil || d > 6 {
			return
		}
		switch x := v.(type) {
		case *ssa.Alloc:
			if _, isStruct := derefType(x.Type()).Underlying().(*types.Struct); isStruct {
				out[x] = true
			}
		case *ssa.Parameter:
			if pt, ok := x.Type().Underlying().(*types.Pointer); ok {
				if _, isStruct := pt.Elem().Underlying().(*types.Struct); isStruct {
					out[x] = true
				}
			} else if _, isStruct := x.Type().Underlying().(*types.Struct); isStruct {
				out[x] = true
			}
		case *ssa.UnOp:
			walk(x.X, d+1)
		case *ssa.FieldAddr:
			walk(x.X, d+1)
		case *ssa.IndexAddr:
			walk(x.X, d+1)
		case *ssa.Field:
			walk(x.X, d+1)
		case *ssa.ChangeType:
			walk(x.X, d+1)
		case *ssa.Convert:
			walk(x.X, d+1)
		case *ssa.Extract:
			walk(x.Tuple, d+1)
		case *ssa.Call:
			if _, isB := x.Call.Value.(*ssa.Builtin); isB {
				for _, a := range x.Call.Args {
					walk(a, d+1)
				}
				return
			}
			if x.Call.StaticCallee() != nil && !x.Call.IsInvoke() && len(x.Call.Args) > 0 {
				walk(x.Call.Args[0], d+1)
			}
		}
	}
	walk(v, depth)
	return out
}

// upcastOK: x.(I) where the static type of x is an interface whose method set includes I's: the assertion cannot fail
// on the dynamic type, only on a nil interface.
func upcastOK(x *ssa.TypeAssert) bool {
	ai, ok := x.AssertedType.Underlying().(*types.Interface)
	if !ok {
		return false
	}
	if _, ok := x.X.Type().Underlying().(*types.Interface); !ok {
		return false
	}
	return types.Implements(x.X.Type(), ai)
}

func isBoolType(t types.Type) bool {
	b, ok := t.Underlying().(*types.Basic)
	return ok && b.Kind() == types.Bool
}

// decisionComplete: the function has a decision summary every case of which expresses all its branch conditions.
func (e *Engine) decisionComplete(f *ssa.Function) bool {
	d := e.Decide(f)
	if d == nil || len(d.cases) == 0 {
		return false
	}
	for _, c := range d.cases {
		if c.partial || c.res.kind == '?' {
			return false
		}
	}
	return true
}

// callerRelation: the function is an unexported (or internal-package) non-root with callers in scope, and the goal
// mentions entry values of at least two different parameters together with a value that varies inside the function.
func (a *FuncAn) callerRelation(b *ssa.BasicBlock, g Lin) string {
	e, f := a.E, a.Fn
	if e.Roots[f] || e.Scope == nil || !e.Scope[f] || len(e.callers[f]) == 0 {
		return ""
	}
	if f.Object() != nil && f.Object().Exported() && !internalPkg(f) {
		return ""
	}
	params := map[int]bool{}
	varying := false
	var walk func(at *Atom, d int)
	walk = func(at *Atom, d int) {
		if d > 4 {
			return
		}
		if t, _, ok := a.entryTerm(at); ok {
			idx := t.param
			if idx >= 1000 {
				idx -= 1000
			}
			params[idx] = true
			return
		}
		if deps := a.atomDeps[at]; len(deps) > 0 {
			for _, dp := range deps {
				walk(dp, d+1)
			}
			return
		}
		if v := a.capAtomOf[at]; v != nil {
			if p, ok := v.(*ssa.Parameter); ok {
				for i, q := range f.Params {
					if q == p {
						params[i] = true
					}
				}
				return
			}
		}
		// a value read out of a parameter (an element of a slice parameter, a field behind a pointer parameter)
		v := a.lenAtomOf[at]
		if v == nil {
			v = a.atomVal[at]
		}
		for d2 := 0; v != nil && d2 < 6; d2++ {
			switch x := v.(type) {
			case *ssa.UnOp:
				v = x.X
				continue
			case *ssa.IndexAddr:
				v = x.X
				continue
			case *ssa.Index:
				v = x.X
				continue
			case *ssa.FieldAddr:
				v = x.X
				continue
			case *ssa.Slice:
				v = x.X
				continue
			case *ssa.Parameter:
				for i, q := range f.Params {
					if q == x {
						params[i] = true
					}
				}
			}
			break
		}
		varying = true
	}
	inGoal := map[*Atom]bool{}
	for _, t := range g.t {
		inGoal[t.a] = true
		walk(t.a, 0)
	}
	// the parameters that bound the goal's values in the facts in scope count too (`m < fragmentSize` for the index m
	// into a row whose length the callers made equal to fragmentSize)
	if s := a.in[b]; s != nil {
		for _, f := range s.sortedFacts() {
			shares := false
			for _, t := range f.t {
				if inGoal[t.a] {
					shares = true
				}
			}
			if !shares {
				continue
			}
			wasVarying := varying
			for _, t := range f.t {
				if !inGoal[t.a] {
					walk(t.a, 0)
				}
			}
			varying = wasVarying
		}
	}
	if len(params) >= 2 && varying {
		return "relates several parameters of " + FuncShort(f) + " to a value that varies inside it: the relation among the parameters is what its callers establish, in a form hoisting cannot carry"
	}
	return ""
}
