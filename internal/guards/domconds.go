// Package guards is engine E3: dominating-guard analysis on SSA.
package guards

import (
	"go/constant"
	"go/token"

	"golang.org/x/tools/go/ssa"
)

// Cond is a branch condition known to hold (Positive) or not to hold at a program point.
type Cond struct {
	V        ssa.Value
	Positive bool
}

// DomConds returns the branch conditions that dominate block b: for every dominator D ending in
// `if c goto T else F`, if b is dominated by T and T has D as its only predecessor then c holds; same for F.
func DomConds(b *ssa.BasicBlock) []Cond {
	var out []Cond
	for x := b; x != nil; x = x.Idom() {
		d := x.Idom()
		if d == nil {
			break
		}
		ifi, ok := d.Instrs[len(d.Instrs)-1].(*ssa.If)
		if !ok {
			continue
		}
		t, f := d.Succs[0], d.Succs[1]
		if t == f {
			continue
		}
		// x is dominated by d; decide through which edge. x's chain passes through a successor s of d
		// only if s dominates x and s has the single predecessor d.
		if len(t.Preds) == 1 && t.Dominates(x) {
			out = append(out, expand(Cond{ifi.Cond, true})...)
		} else if len(f.Preds) == 1 && f.Dominates(x) {
			out = append(out, expand(Cond{ifi.Cond, false})...)
		}
	}
	return out
}

// expand unfolds boolean negation.
func expand(c Cond) []Cond {
	if u, ok := c.V.(*ssa.UnOp); ok && u.Op == token.NOT {
		return expand(Cond{u.X, !c.Positive})
	}
	return []Cond{c}
}

// Cmp is a normalised comparison  L op R  known to be true.
type Cmp struct {
	L, R ssa.Value
	Op   token.Token // LSS LEQ GTR GEQ EQL NEQ
}

func negate(op token.Token) token.Token {
	switch op {
	case token.LSS:
		return token.GEQ
	case token.LEQ:
		return token.GTR
	case token.GTR:
		return token.LEQ
	case token.GEQ:
		return token.LSS
	case token.EQL:
		return token.NEQ
	case token.NEQ:
		return token.EQL
	}
	return token.ILLEGAL
}

// Facts turns dominating conditions into true comparisons.
func Facts(b *ssa.BasicBlock) []Cmp {
	var out []Cmp
	for _, c := range DomConds(b) {
		bo, ok := c.V.(*ssa.BinOp)
		if !ok {
			continue
		}
		switch bo.Op {
		case token.LSS, token.LEQ, token.GTR, token.GEQ, token.EQL, token.NEQ:
			op := bo.Op
			if !c.Positive {
				op = negate(op)
			}
			out = append(out, Cmp{bo.X, bo.Y, op})
		}
	}
	return out
}

// ConstInt returns the integer value of an SSA constant.
func ConstInt(v ssa.Value) (int64, bool) {
	c, ok := v.(*ssa.Const)
	if !ok || c.Value == nil || c.Value.Kind() != constant.Int {
		return 0, false
	}
	return constant.Int64Val(c.Value)
}

// ResultFacts returns comparisons (over f's own SSA values: parameters, loads, len calls) that hold whenever the
// bool function f returns want. f must be a small predicate: one bool result, no loop, no store, no call other
// than the len builtin; otherwise nil. Short-circuit expressions are phis of constants and comparisons; an edge whose
// constant differs from want cannot produce the result and is skipped, the other edges contribute the facts that
// dominate them plus the comparison they carry, and the result is what all contributing edges agree on.
func ResultFacts(f *ssa.Function, want bool) []Cmp {
	if f == nil || f.Blocks == nil || f.Signature.Results().Len() != 1 {
		return nil
	}
	// loop-free, effect-free
	for _, b := range f.Blocks {
		for _, s := range b.Succs {
			if s.Dominates(b) {
				return nil
			}
		}
		for _, ins := range b.Instrs {
			switch x := ins.(type) {
			case *ssa.Store, *ssa.MapUpdate, *ssa.Send, *ssa.Go, *ssa.Defer, *ssa.Panic:
				return nil
			case ssa.CallInstruction:
				bi, ok := x.Common().Value.(*ssa.Builtin)
				if !ok || bi.Name() != "len" {
					return nil
				}
			}
		}
	}
	type set map[Cmp]bool
	var impl func(v ssa.Value, want bool, depth int) (set, bool) // facts, possible
	impl = func(v ssa.Value, want bool, depth int) (set, bool) {
		if depth > 8 {
			return set{}, true
		}
		switch x := v.(type) {
		case *ssa.Const:
			if x.Value == nil || x.Value.Kind() != constant.Bool {
				return set{}, true
			}
			return set{}, constant.BoolVal(x.Value) == want
		case *ssa.UnOp:
			if x.Op == token.NOT {
				return impl(x.X, !want, depth+1)
			}
		case *ssa.BinOp:
			switch x.Op {
			case token.LSS, token.LEQ, token.GTR, token.GEQ, token.EQL, token.NEQ:
				op := x.Op
				if !want {
					op = negate(op)
				}
				return set{Cmp{x.X, x.Y, op}: true}, true
			}
		case *ssa.Phi:
			var acc set
			any := false
			for i, e := range x.Edges {
				fs, possible := impl(e, want, depth+1)
				if !possible {
					continue
				}
				for _, c := range Facts(x.Block().Preds[i]) {
					fs[c] = true
				}
				if !any {
					acc, any = fs, true
					continue
				}
				for c := range acc {
					if !fs[c] {
						delete(acc, c)
					}
				}
			}
			if !any {
				return set{}, false
			}
			return acc, true
		}
		return set{}, true
	}
	var acc set
	any := false
	for _, b := range f.Blocks {
		ret, ok := b.Instrs[len(b.Instrs)-1].(*ssa.Return)
		if !ok || len(ret.Results) != 1 {
			continue
		}
		fs, possible := impl(ret.Results[0], want, 0)
		if !possible {
			continue
		}
		for _, c := range Facts(b) {
			fs[c] = true
		}
		if !any {
			acc, any = fs, true
			continue
		}
		for c := range acc {
			if !fs[c] {
				delete(acc, c)
			}
		}
	}
	var out []Cmp
	for c := range acc {
		out = append(out, c)
	}
	return out
}
