package guards

import (
	"fmt"
	"go/token"
	"go/types"

	"golang.org/x/tools/go/ssa"
)

// Registry invariants: values held by package-level maps of the module (command registries).

// rootsAtGlobal: the map operand is a package-level variable of the module (possibly through nested lookups).
func rootsAtGlobal(v ssa.Value) bool { return rootsAtGlobalD(v, 0) }

func rootsAtGlobalD(v ssa.Value, depth int) bool {
	if depth > 3 {
		return false
	}
	for i := 0; i < 6; i++ {
		switch x := v.(type) {
		case *ssa.UnOp:
			if x.Op == token.MUL {
				_, ok := x.X.(*ssa.Global)
				return ok
			}
			return false
		case *ssa.Lookup:
			v = x.X
		case *ssa.Extract:
			v = x.Tuple
		case *ssa.Phi:
			for _, e := range x.Edges {
				if !rootsAtGlobalD(e, depth+1) {
					return false
				}
			}
			return len(x.Edges) > 0
		case *ssa.Call:
			// an accessor of the module that selects one of its registries: every return hands out a map rooted
			// at a package-level variable
			callee := x.Call.StaticCallee()
			if callee == nil || callee.Blocks == nil || callee.Signature.Results().Len() != 1 {
				return false
			}
			n := 0
			for _, b := range callee.Blocks {
				if ret, ok := b.Instrs[len(b.Instrs)-1].(*ssa.Return); ok {
					n++
					if !rootsAtGlobalD(ret.Results[0], depth+1) {
						return false
					}
				}
			}
			return n > 0
		default:
			return false
		}
	}
	return false
}

func staticNonNil(v ssa.Value) bool {
	switch x := v.(type) {
	case *ssa.MakeClosure, *ssa.Function, *ssa.Alloc, *ssa.MakeInterface, *ssa.MakeMap, *ssa.MakeSlice:
		return true
	case *ssa.ChangeType:
		return staticNonNil(x.X)
	}
	return false
}

// mapValuesNonNil: every MapUpdate in the module that stores a value of type T stores a non-nil value.
// For a struct type T and field index >= 0: every stored struct is a composite literal that sets the field
// to a non-nil value.
func (e *Engine) mapValuesNonNil(T types.Type, field int) bool {
	key := fmt.Sprintf("%s#%d", types.TypeString(T, nil), field)
	if r, ok := e.mapInv[key]; ok {
		return r
	}
	res := true
	n := 0
	for _, f := range e.moduleFuncs {
		if f.Blocks == nil {
			continue
		}
		for _, b := range f.Blocks {
			for _, ins := range b.Instrs {
				mu, ok := ins.(*ssa.MapUpdate)
				if !ok || !types.Identical(mu.Value.Type(), T) {
					continue
				}
				n++
				if field < 0 {
					if !staticNonNil(mu.Value) {
						res = false
					}
					continue
				}
				ld, ok := mu.Value.(*ssa.UnOp)
				if !ok || ld.Op != token.MUL {
					res = false
					continue
				}
				al, ok := ld.X.(*ssa.Alloc)
				if !ok {
					res = false
					continue
				}
				set := false
				for _, r := range *al.Referrers() {
					if fa, ok := r.(*ssa.FieldAddr); ok && fa.Field == field {
						for _, rr := range *fa.Referrers() {
							if st, ok := rr.(*ssa.Store); ok && st.Addr == ssa.Value(fa) && staticNonNil(st.Val) && st.Block() == ld.Block() {
								set = true
							}
						}
					}
				}
				if !set {
					res = false
				}
			}
		}
	}
	if n == 0 {
		res = false
	}
	e.mapInv[key] = res
	return res
}

// registryValueNonNil: v is (a field of) the value of a successful lookup in a package-level map whose
// stored values are all non-nil.
func (a *FuncAn) registryValueNonNil(s *State, v ssa.Value) bool {
	if s == nil {
		return false
	}
	okLookup := func(x ssa.Value) bool {
		ex, ok := x.(*ssa.Extract)
		if !ok || ex.Index != 0 {
			return false
		}
		// a helper that only hands out the two results of one comma-ok lookup in a package-level map
		if call, isCall := ex.Tuple.(*ssa.Call); isCall {
			if callee := call.Call.StaticCallee(); callee != nil && lookupPassthrough(callee) {
				for _, r := range *call.Referrers() {
					if e2, ok := r.(*ssa.Extract); ok && e2.Index == 1 && s.truth[e2] {
						return true
					}
				}
			}
			return false
		}
		lk, ok := ex.Tuple.(*ssa.Lookup)
		if !ok || !lk.CommaOk || !rootsAtGlobal(lk.X) {
			return false
		}
		for _, r := range *lk.Referrers() {
			if e2, ok := r.(*ssa.Extract); ok && e2.Index == 1 && s.truth[e2] {
				return true
			}
		}
		return false
	}
	if okLookup(v) {
		return a.E.mapValuesNonNil(v.Type(), -1)
	}
	// field of a local copy of the looked-up struct
	ld, ok := v.(*ssa.UnOp)
	if !ok || ld.Op != token.MUL {
		return false
	}
	fa, ok := ld.X.(*ssa.FieldAddr)
	if !ok {
		return false
	}
	al, ok := fa.X.(*ssa.Alloc)
	if !ok || a.escapes(al) {
		return false
	}
	var stored ssa.Value
	nst := 0
	for _, r := range *al.Referrers() {
		if st, ok := r.(*ssa.Store); ok && st.Addr == ssa.Value(al) {
			stored = st.Val
			nst++
		}
		if f2, ok := r.(*ssa.FieldAddr); ok {
			for _, rr := range *f2.Referrers() {
				if st, ok := rr.(*ssa.Store); ok && st.Addr == ssa.Value(f2) {
					return false // the copy is modified field-wise
				}
			}
		}
	}
	if nst != 1 || !okLookup(stored) {
		return false
	}
	return a.E.mapValuesNonNil(stored.Type(), fa.Field)
}

// lookupPassthrough: f has two results and every return hands out (value, ok) of one comma-ok lookup in a
// package-level map of the module, unchanged.
func lookupPassthrough(f *ssa.Function) bool {
	if f.Blocks == nil || f.Signature.Results().Len() != 2 {
		return false
	}
	n := 0
	for _, b := range f.Blocks {
		ret, ok := b.Instrs[len(b.Instrs)-1].(*ssa.Return)
		if !ok {
			continue
		}
		n++
		e0, ok0 := ret.Results[0].(*ssa.Extract)
		e1, ok1 := ret.Results[1].(*ssa.Extract)
		if !ok0 || !ok1 || e0.Index != 0 || e1.Index != 1 || e0.Tuple != e1.Tuple {
			return false
		}
		lk, ok := e0.Tuple.(*ssa.Lookup)
		if !ok || !lk.CommaOk || !rootsAtGlobal(lk.X) {
			return false
		}
	}
	return n > 0
}
