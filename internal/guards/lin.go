package guards

import (
	"fmt"
	"sort"
	"strings"
)

// Atom is a symbolic integer quantity of one function analysis: an opaque SSA value, the length of an
// opaque slice, a versioned load, a quotient/remainder/product … Atoms are interned per analysis.
type Atom struct {
	ID     int
	Name   string // diagnostic rendering (never part of an obligation key)
	NonNeg bool   // value is >= 0 in every execution (unsigned type, len, masked value, …)
	Input  bool   // derives from an input symbol (parameter, length of a parameter, load through a parameter)
}

type term struct {
	a *Atom
	k int64
}

// Lin is  sum k_i*atom_i + C.  Terms are sorted by atom id and have non-zero coefficients.
type Lin struct {
	t []term
	C int64
}

func Konst(c int64) Lin { return Lin{C: c} }
func AtomLin(a *Atom) Lin {
	return Lin{t: []term{{a, 1}}}
}

func (l Lin) IsConst() bool { return len(l.t) == 0 }

// Add returns a + s*b.
func Add(a, b Lin, s int64) Lin {
	r := Lin{C: a.C + s*b.C}
	i, j := 0, 0
	for i < len(a.t) || j < len(b.t) {
		switch {
		case j >= len(b.t) || (i < len(a.t) && a.t[i].a.ID < b.t[j].a.ID):
			r.t = append(r.t, a.t[i])
			i++
		case i >= len(a.t) || b.t[j].a.ID < a.t[i].a.ID:
			if s != 0 {
				r.t = append(r.t, term{b.t[j].a, s * b.t[j].k})
			}
			j++
		default:
			if k := a.t[i].k + s*b.t[j].k; k != 0 {
				r.t = append(r.t, term{a.t[i].a, k})
			}
			i++
			j++
		}
	}
	return r
}

func Scale(a Lin, s int64) Lin {
	if s == 0 {
		return Lin{}
	}
	r := Lin{C: a.C * s, t: make([]term, len(a.t))}
	for i, t := range a.t {
		r.t[i] = term{t.a, t.k * s}
	}
	return r
}

func (l Lin) plus(c int64) Lin { l.C += c; return l }

// Coef returns the coefficient of atom a.
func (l Lin) Coef(a *Atom) int64 {
	for _, t := range l.t {
		if t.a == a {
			return t.k
		}
	}
	return 0
}

// key identifies the linear part (without the constant).
func (l Lin) key() string {
	var sb strings.Builder
	for _, t := range l.t {
		fmt.Fprintf(&sb, "%d*%d ", t.k, t.a.ID)
	}
	return sb.String()
}

func (l Lin) String() string {
	if len(l.t) == 0 {
		return fmt.Sprint(l.C)
	}
	ts := append([]term(nil), l.t...)
	sort.SliceStable(ts, func(i, j int) bool { return ts[i].k > 0 && ts[j].k < 0 })
	var sb strings.Builder
	for i, t := range ts {
		k := t.k
		switch {
		case k < 0:
			sb.WriteString(" - ")
			k = -k
		case i > 0:
			sb.WriteString(" + ")
		}
		if k != 1 {
			fmt.Fprintf(&sb, "%d*", k)
		}
		sb.WriteString(t.a.Name)
	}
	if l.C > 0 {
		fmt.Fprintf(&sb, " + %d", l.C)
	} else if l.C < 0 {
		fmt.Fprintf(&sb, " - %d", -l.C)
	}
	return strings.TrimSpace(sb.String())
}

// synNonNeg: every coefficient is positive on an atom known >= 0 and the constant is >= 0.
func (l Lin) synNonNeg() bool {
	if l.C < 0 {
		return false
	}
	for _, t := range l.t {
		if t.k < 0 || !t.a.NonNeg {
			return false
		}
	}
	return true
}

// dependsOnInput: some atom derives from an input symbol.
func (l Lin) dependsOnInput() bool {
	for _, t := range l.t {
		if t.a.Input {
			return true
		}
	}
	return false
}

func gcd(a, b int64) int64 {
	if a < 0 {
		a = -a
	}
	if b < 0 {
		b = -b
	}
	for b != 0 {
		a, b = b, a%b
	}
	return a
}

// ---------------------------------------------------------------------------
// fact states

// State is a conjunction of facts  L >= 0  (keyed by linear part, strongest constant kept),
// disequalities L != 0, and a set of SSA values known to be non-nil. A nil *State is "unreachable".
type State struct {
	facts  map[string]Lin
	neq    map[string]Lin
	nonnil map[interface{}]bool
	truth  map[interface{}]bool   // boolean SSA values with known truth value
	nnPath map[string]interface{} // memory locations (access-path key -> path) currently holding a non-nil value
	cfacts []cfact                // guarded facts kept across joins (see condfacts.go)
}

func NewState() *State {
	return &State{facts: map[string]Lin{}, neq: map[string]Lin{}, nonnil: map[interface{}]bool{}, truth: map[interface{}]bool{}, nnPath: map[string]interface{}{}}
}

func (s *State) Clone() *State {
	n := NewState()
	for k, v := range s.facts {
		n.facts[k] = v
	}
	for k, v := range s.neq {
		n.neq[k] = v
	}
	for k, v := range s.nonnil {
		n.nonnil[k] = v
	}
	for k, v := range s.truth {
		n.truth[k] = v
	}
	for k, v := range s.nnPath {
		n.nnPath[k] = v
	}
	n.cfacts = append([]cfact(nil), s.cfacts...)
	return n
}

// AddFact records l >= 0.
func (s *State) AddFact(l Lin) {
	if len(l.t) == 0 {
		if l.C < 0 {
			s.facts["#false"] = l
		}
		return
	}
	// normalise by the gcd of the coefficients (integer tightening: floor the constant)
	g := int64(0)
	for _, t := range l.t {
		g = gcd(g, t.k)
	}
	if g > 1 {
		n := Lin{t: make([]term, len(l.t))}
		for i, t := range l.t {
			n.t[i] = term{t.a, t.k / g}
		}
		// floor division of the constant
		c := l.C / g
		if l.C%g != 0 && l.C < 0 {
			c--
		}
		n.C = c
		l = n
	}
	k := l.key()
	if old, ok := s.facts[k]; !ok || l.C < old.C {
		s.facts[k] = l
	}
}

func (s *State) AddEq(l Lin) { s.AddFact(l); s.AddFact(Scale(l, -1)) }

func (s *State) AddNeq(l Lin) {
	if len(l.t) == 0 {
		return
	}
	// canonical sign: first coefficient positive
	if l.t[0].k < 0 {
		l = Scale(l, -1)
	}
	s.neq[fmt.Sprintf("%s|%d", l.key(), l.C)] = l
}

func (s *State) Infeasible() bool {
	_, ok := s.facts["#false"]
	return ok
}

func (s *State) sortedFacts() []Lin {
	ks := make([]string, 0, len(s.facts))
	for k := range s.facts {
		ks = append(ks, k)
	}
	sort.Strings(ks)
	out := make([]Lin, len(ks))
	for i, k := range ks {
		out[i] = s.facts[k]
	}
	return out
}

func (s *State) equal(o *State) bool {
	if s == nil || o == nil {
		return s == o
	}
	if len(s.facts) != len(o.facts) || len(s.neq) != len(o.neq) || len(s.nonnil) != len(o.nonnil) || len(s.truth) != len(o.truth) || len(s.nnPath) != len(o.nnPath) {
		return false
	}
	for k, v := range s.facts {
		if w, ok := o.facts[k]; !ok || w.C != v.C {
			return false
		}
	}
	for k := range s.neq {
		if _, ok := o.neq[k]; !ok {
			return false
		}
	}
	for k := range s.nonnil {
		if !o.nonnil[k] {
			return false
		}
	}
	for k, v := range s.truth {
		if w, ok := o.truth[k]; !ok || w != v {
			return false
		}
	}
	for k := range s.nnPath {
		if _, ok := o.nnPath[k]; !ok {
			return false
		}
	}
	if len(s.cfacts) != len(o.cfacts) {
		return false
	}
	for i := range s.cfacts {
		if s.cfacts[i].id() != o.cfacts[i].id() {
			return false
		}
	}
	return true
}
