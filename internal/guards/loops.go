package guards

import (
	"fmt"
	"go/token"
	"sort"
	"strings"

	"golang.org/x/tools/go/ssa"
)

// LoopRes is the verdict on one natural loop.
type LoopRes struct {
	Desc       string
	Pos        token.Pos
	Status     Status
	Why        string
	InputBound bool     // the bound depends on an input symbol
	Depth      int      // nesting depth (1 = outermost)
	RetryRem   bool     // the tested variable is re-drawn on a back edge as (call result) % n: a rejection-sampling loop
	Calls      []string // names of the statically resolved functions called in the loop itself, nested loops excluded (sorted)
}

type loop struct {
	head   *ssa.BasicBlock
	blocks map[*ssa.BasicBlock]bool
	backs  []*ssa.BasicBlock // sources of back edges
}

func findLoops(fn *ssa.Function) []*loop {
	byHead := map[*ssa.BasicBlock]*loop{}
	var order []*ssa.BasicBlock
	for _, b := range fn.Blocks {
		for _, h := range b.Succs {
			if h.Dominates(b) {
				l := byHead[h]
				if l == nil {
					l = &loop{head: h, blocks: map[*ssa.BasicBlock]bool{h: true}}
					byHead[h] = l
					order = append(order, h)
				}
				l.backs = append(l.backs, b)
				// natural loop body: everything that reaches b without passing h
				work := []*ssa.BasicBlock{b}
				for len(work) > 0 {
					x := work[len(work)-1]
					work = work[:len(work)-1]
					if l.blocks[x] {
						continue
					}
					l.blocks[x] = true
					work = append(work, x.Preds...)
				}
			}
		}
	}
	sort.Slice(order, func(i, j int) bool { return order[i].Index < order[j].Index })
	var out []*loop
	for _, h := range order {
		out = append(out, byHead[h])
	}
	return out
}

// invariantAtom: the atom has the same value in every iteration of loop l.
func (a *FuncAn) invariantAtom(at *Atom, l *loop, depth int) bool {
	if depth > 6 {
		return false
	}
	for _, d := range a.atomDeps[at] {
		if !a.invariantAtom(d, l, depth+1) {
			return false
		}
	}
	d := a.atomDef[at]
	if d == nil || !l.blocks[d] {
		return true
	}
	// defined inside the loop: a load (or the length of a load) from a location nothing in the loop writes
	ld := a.atomLoad[at]
	if ld == nil {
		return false
	}
	p := a.pathOf(ld.X)
	if p == nil {
		return false
	}
	if ins, ok := p.root.(ssa.Instruction); ok && l.blocks[ins.Block()] {
		if _, isAlloc := p.root.(*ssa.Alloc); !isAlloc {
			return false
		}
		return false
	}
	for _, st := range p.steps {
		if strings.HasPrefix(st.key, "[v:") {
			return false
		}
	}
	for b := range l.blocks {
		for _, ins := range b.Instrs {
			switch x := ins.(type) {
			case *ssa.Store:
				w := a.pathOf(x.Addr)
				if w == nil || a.mayAlias(p, w) {
					return false
				}
			case ssa.CallInstruction:
				m := availMap{"p": availEnt{p: p, rep: ld}}
				a.killByCall(m, a.E.callWrites(a, x))
				if len(m) == 0 {
					return false
				}
			}
		}
	}
	return true
}

// condLins: the linear facts implied by an integer comparison being true/false.
func (a *FuncAn) condLins(cond ssa.Value, truth bool) []Lin {
	switch c := cond.(type) {
	case *ssa.UnOp:
		if c.Op == token.NOT {
			return a.condLins(c.X, !truth)
		}
	case *ssa.BinOp:
		op := c.Op
		if !truth {
			op = negate(op)
		}
		if _, _, ok := a.E.intInfo(c.X.Type()); !ok {
			return nil
		}
		x, y := a.Lin(c.X), a.Lin(c.Y)
		switch op {
		case token.LSS:
			return []Lin{Add(y, x, -1).plus(-1)}
		case token.LEQ:
			return []Lin{Add(y, x, -1)}
		case token.GTR:
			return []Lin{Add(x, y, -1).plus(-1)}
		case token.GEQ:
			return []Lin{Add(x, y, -1)}
		case token.EQL:
			return []Lin{Add(x, y, -1), Add(y, x, -1)}
		case token.NEQ:
			// a length (never negative) that is not zero is at least one
			if v := lenPositiveOperand(c, op); v != nil {
				return []Lin{a.LenOf(v).plus(-1)}
			}
		}
	}
	return nil
}

// neqLins: `x != y` holds on the staying edge and the facts at the test already give x >= y (or x <= y): then
// x - y - 1 >= 0 (resp. y - x - 1 >= 0). (`for end != 0 { end -= 2 }` with end >= 0.)
func (a *FuncAn) neqLins(tb *ssa.BasicBlock, cond ssa.Value, truth bool) []Lin {
	for {
		u, ok := cond.(*ssa.UnOp)
		if !ok || u.Op != token.NOT {
			break
		}
		cond, truth = u.X, !truth
	}
	c, ok := cond.(*ssa.BinOp)
	if !ok {
		return nil
	}
	op := c.Op
	if !truth {
		op = negate(op)
	}
	if op != token.NEQ {
		return nil
	}
	if _, _, isInt := a.E.intInfo(c.X.Type()); !isInt {
		return nil
	}
	d := Add(a.Lin(c.X), a.Lin(c.Y), -1)
	if a.in[tb] == nil {
		return nil
	}
	var out []Lin
	if a.Entails(tb, d) {
		out = append(out, d.plus(-1))
	}
	if a.Entails(tb, Scale(d, -1)) {
		out = append(out, Scale(d, -1).plus(-1))
	}
	return out
}

// LoopProgress checks every natural loop of f.
func (e *Engine) LoopProgress(f *ssa.Function) []LoopRes {
	a := e.analyzeFresh(f)
	if a == nil {
		return nil
	}
	loops := findLoops(f)
	var out []LoopRes
	for li, l := range loops {
		depth := 1
		for lj, o := range loops {
			if lj != li && o.blocks[l.head] && len(o.blocks) > len(l.blocks) {
				depth++
			}
		}
		res := LoopRes{Pos: l.head.Instrs[0].Pos(), Depth: depth}
		for _, ins := range l.head.Instrs {
			if ins.Pos().IsValid() {
				res.Pos = ins.Pos()
				break
			}
		}
		res.Desc = ""
		{
			seen := map[string]bool{}
			for b := range l.blocks {
				inner := false
				for lj, o := range loops {
					if lj != li && len(o.blocks) < len(l.blocks) && o.blocks[b] && l.blocks[o.head] {
						inner = true // belongs to a loop nested in this one
					}
				}
				if inner {
					continue
				}
				for _, ins := range b.Instrs {
					if ci, ok := ins.(ssa.CallInstruction); ok {
						if sc := ci.Common().StaticCallee(); sc != nil && !seen[sc.Name()] {
							seen[sc.Name()] = true
							res.Calls = append(res.Calls, sc.Name())
						}
					}
				}
			}
			sort.Strings(res.Calls)
		}
		if a.in[l.head] == nil {
			res.Why = "loop unreachable"
			out = append(out, res)
			continue
		}
		// range over map / string / channel: driven by a Next instruction in the loop
		isNext := false
		for b := range l.blocks {
			for _, ins := range b.Instrs {
				if _, ok := ins.(*ssa.Next); ok {
					isNext = true
				}
			}
		}
		if isNext {
			res.Desc = "range"
			res.Why = "range iteration (finite collection, driven by Next)"
			out = append(out, res)
			continue
		}
		if !a.Converged {
			res.Status, res.Why = Failed, "analysis did not converge"
			out = append(out, res)
			continue
		}
		type cand struct {
			phi  *ssa.Phi
			why  string
			ok   bool
			part string
			cond string
			// untracked: the step could not be bounded because it is a value outside the tracked model
			untracked string
		}
		var best *cand
		for _, ins := range l.head.Instrs {
			phi, ok := ins.(*ssa.Phi)
			if !ok {
				break
			}
			// an integer loop variable, or a sequence that is consumed (its length is the variable)
			seqPhi := false
			if _, _, isInt := e.intInfo(phi.Type()); !isInt {
				if !isSeq(phi.Type()) {
					continue
				}
				seqPhi = true
			}
			pl := a.Lin(phi)
			if seqPhi {
				pl = a.LenOf(phi)
			}
			if len(pl.t) != 1 {
				continue
			}
			pat := pl.t[0].a
			for _, dir := range []int64{1, -1} {
				c := &cand{phi: phi}
				// (b) a test inside the loop that dominates every back edge and bounds phi on the stay side
				var boundTxt string
				inputBound := false
				for tb := range l.blocks {
					iff, ok := tb.Instrs[len(tb.Instrs)-1].(*ssa.If)
					if !ok {
						continue
					}
					var stay *ssa.BasicBlock
					var truth bool
					switch {
					case l.blocks[tb.Succs[0]] && !l.blocks[tb.Succs[1]]:
						stay, truth = tb.Succs[0], true
					case l.blocks[tb.Succs[1]] && !l.blocks[tb.Succs[0]]:
						stay, truth = tb.Succs[1], false
					default:
						continue
					}
					_ = stay
					domAll := true
					for _, bk := range l.backs {
						if !tb.Dominates(bk) {
							domAll = false
						}
					}
					if !domAll {
						continue
					}
					for _, nf := range append(a.condLins(iff.Cond, truth), a.neqLins(tb, iff.Cond, truth)...) {
						k := nf.Coef(pat)
						if k*dir >= 0 {
							continue
						}
						rest := Add(nf, Scale(AtomLin(pat), k), -1)
						inv := true
						for _, t := range rest.t {
							if !a.invariantAtom(t.a, l, 0) {
								inv = false
							}
						}
						if inv {
							boundTxt = nf.String() + " >= 0 on the staying edge"
							if t := exprAt(f, iff.Cond.Pos(), ""); t != "" {
								c.cond = t
							}
							inputBound = !rest.IsConst()
							if inputBound && depth > 1 && a.in[tb] != nil {
								// nested loop: a bound that is itself bounded by a constant keeps the nest linear
								pr := a.proverFor(a.in[tb])
								pr.steps = 0
								if pr.prove(Scale(rest, -dir).plus(4096), 7, nil) {
									inputBound = false
									boundTxt += " (bound itself bounded by a constant)"
								}
							}
						}
					}
				}
				if boundTxt == "" {
					continue
				}
				// (a) strict progress on every back edge
				prog := true
				var steps []string
				for i, p := range l.head.Preds {
					isBack := false
					for _, bk := range l.backs {
						if bk == p {
							isBack = true
						}
					}
					if !isBack {
						continue
					}
					s := a.out[p]
					if s == nil {
						continue
					}
					s = s.Clone()
					if iff, ok := p.Instrs[len(p.Instrs)-1].(*ssa.If); ok && p.Succs[0] != p.Succs[1] {
						a.condFacts(s, iff.Cond, p.Succs[0] == l.head)
					}
					ev := a.Lin(phi.Edges[i])
					if seqPhi {
						ev = a.LenOf(phi.Edges[i])
					}
					g := Scale(Add(ev, pl, -1), dir).plus(-1)
					if !a.proverFor(s).Entails(g) {
						prog = false
						c.why = fmt.Sprintf("cannot show that %s changes by >= 1 per iteration: need %s >= 0 on the back edge", pat.Name, g)
						if why, un := a.untrackedIn(g); un {
							c.untracked = untrackedPrefix + "the step of " + pat.Name + " is " + why
						}
					} else {
						steps = append(steps, Add(ev, pl, -1).String())
					}
					delete(a.provers, s)
				}
				c.ok = prog
				c.part = boundTxt
				if prog {
					c.why = fmt.Sprintf("%s steps by %s; %s", pat.Name, strings.Join(steps, " / "), boundTxt)
					res.InputBound = inputBound
					best = c
					break
				}
				if best == nil {
					best = c
				}
			}
			if best != nil && best.ok {
				break
			}
		}
		if best != nil && !best.ok {
			for i, p := range l.head.Preds {
				isBack := false
				for _, bk := range l.backs {
					if bk == p {
						isBack = true
					}
				}
				if !isBack {
					continue
				}
				v := best.phi.Edges[i]
				for {
					cv, ok := v.(*ssa.Convert)
					if !ok {
						break
					}
					v = cv.X
				}
				if rem, ok := v.(*ssa.BinOp); ok && rem.Op == token.REM && l.blocks[rem.Block()] {
					x := rem.X
					for {
						cv, ok := x.(*ssa.Convert)
						if !ok {
							break
						}
						x = cv.X
					}
					switch d := x.(type) {
					case *ssa.Call:
						res.RetryRem = l.blocks[d.Block()]
					case *ssa.Extract:
						if c, ok := d.Tuple.(*ssa.Call); ok {
							res.RetryRem = l.blocks[c.Block()]
						}
					}
				}
			}
		}
		switch {
		case best == nil:
			if d, w, ok := a.cursorLoop(l); ok {
				res.Desc, res.Why = d, w
				res.InputBound = true
				break
			}
			res.Status = Unsupported
			res.Why = "loop shape not recognised: no integer loop variable with an invariant bound tested on every iteration"
		case best.ok:
			res.Desc = best.phi.Comment + " | " + best.cond
			res.Why = best.why
		default:
			res.Desc = best.phi.Comment + " | " + best.cond
			res.Status = Failed
			res.Why = best.why + "; bound: " + best.part
			if best.untracked != "" {
				res.Status = Unsupported
				res.Why = best.untracked + "; " + res.Why
			}
		}
		out = append(out, res)
	}
	// linear time: an input-bounded loop nested in an input-bounded loop
	for i := range out {
		if out[i].Status == Proved && out[i].Depth > 1 && out[i].InputBound {
			out[i].Why += " [nested: bound is not a constant]"
			out[i].Desc += " nested"
		}
	}
	return out
}
