package guards

import (
	"go/token"
	"go/types"

	"golang.org/x/tools/go/ssa"
)

// Fill summarises a helper that behaves like the builtin copy for the purpose of "which elements are written": on
// every normal return, elements 0 … len(Src)-1 of its slice parameter Dst have each been stored a value that does not
// depend on what Dst held before. (Src == Dst: the bound is len(Dst) itself.)
type Fill struct {
	Dst, Src int // parameter indices (receiver not counted; helpers are plain functions)
	// Descending: the elements are stored from the end, dst[len(dst)-1-j] for j = 0 … len(src)-1. With len(src) >=
	// len(dst) (what copy into a whole array also needs) either order covers every element; a longer source would index
	// below zero, which is a panic and not a return.
	Descending bool
}

// FillOf decides the summary for f from its loop: one integer phi i that starts at 0 and moves by +1 on every back
// edge; a store to Dst[i] in a block every back edge is dominated by; the loop is left only from its head; where it is
// left the linear facts entail i >= len(Src); Dst is used for nothing but those stores and len.
func (e *Engine) FillOf(f *ssa.Function) (Fill, bool) {
	if f == nil || f.Blocks == nil || f.Signature.Recv() != nil || len(f.FreeVars) > 0 {
		return Fill{}, false
	}
	a := e.Analyze(f)
	if a == nil || !a.Converged {
		return Fill{}, false
	}
	for di, dst := range f.Params {
		if _, ok := dst.Type().Underlying().(*types.Slice); !ok {
			continue
		}
		stores, ok := onlyElementStores(dst)
		if !ok || len(stores) == 0 {
			continue
		}
		for _, l := range findLoops(f) {
			if !exitsOnlyFromHead(l) || !dominatesReturns(l.head) {
				continue
			}
			for _, st := range stores {
				ia := st.Addr.(*ssa.IndexAddr)
				if !l.blocks[st.Block()] {
					continue
				}
				every := true
				for _, bk := range l.backs {
					if !st.Block().Dominates(bk) {
						every = false
					}
				}
				if !every || valueReads(st.Val, dst, map[ssa.Value]bool{}) {
					continue
				}
				// the iteration counter J: 0 in the first iteration, +1 per iteration
				for _, J := range iterationCounters(l) {
					jb := l.head
					if ins, ok := J.(ssa.Instruction); ok {
						jb = ins.Block()
					}
					if !jb.Dominates(st.Block()) {
						continue
					}
					idx, jl := a.Lin(ia.Index), a.Lin(J)
					asc := SameLin(idx, jl)
					desc := SameLin(idx, Add(a.LenOf(dst), jl, -1).plus(-1)) // len(dst) - 1 - J
					if !asc && !desc {
						continue
					}
					for si, src := range f.Params {
						if !isSeq(src.Type()) {
							continue
						}
						goal := Add(jl, a.LenOf(src), -1) // J - len(src) >= 0 where the loop is left
						held := true
						n := 0
						for _, x := range l.head.Succs {
							if l.blocks[x] {
								continue
							}
							n++
							s := a.out[l.head]
							if s == nil {
								held = false
								break
							}
							s = s.Clone()
							if iff, ok := l.head.Instrs[len(l.head.Instrs)-1].(*ssa.If); ok {
								a.condFacts(s, iff.Cond, l.head.Succs[0] == x)
							}
							if !a.proverFor(s).Entails(goal) {
								held = false
							}
						}
						if held && n > 0 {
							return Fill{Dst: di, Src: si, Descending: desc}, true
						}
					}
				}
			}
		}
	}
	return Fill{}, false
}

// onlyElementStores: every use of the slice parameter is len(dst) or the address dst[i] used as a store target.
func onlyElementStores(dst *ssa.Parameter) ([]*ssa.Store, bool) {
	var out []*ssa.Store
	for _, r := range *dst.Referrers() {
		switch u := r.(type) {
		case *ssa.IndexAddr:
			if u.X != ssa.Value(dst) {
				return nil, false
			}
			for _, rr := range *u.Referrers() {
				st, ok := rr.(*ssa.Store)
				if !ok || st.Addr != ssa.Value(u) || st.Val == ssa.Value(u) {
					return nil, false
				}
				out = append(out, st)
			}
		case *ssa.Call:
			b, ok := u.Call.Value.(*ssa.Builtin)
			if !ok || b.Name() != "len" {
				return nil, false
			}
		case *ssa.DebugRef:
		default:
			return nil, false
		}
	}
	return out, true
}

// dominatesReturns: no normal return of the function avoids block h.
func dominatesReturns(h *ssa.BasicBlock) bool {
	for _, b := range h.Parent().Blocks {
		if _, ok := b.Instrs[len(b.Instrs)-1].(*ssa.Return); ok && !h.Dominates(b) {
			return false
		}
	}
	return true
}

func exitsOnlyFromHead(l *loop) bool {
	for b := range l.blocks {
		if b == l.head {
			continue
		}
		for _, s := range b.Succs {
			if !l.blocks[s] {
				return false
			}
		}
		if len(b.Succs) == 0 {
			if _, isRet := b.Instrs[len(b.Instrs)-1].(*ssa.Return); isRet {
				return false
			}
		}
	}
	return true
}

// iterationCounters: values of the loop that are 0 during the first iteration and grow by one per iteration: a head phi
// [0, phi+1], or phi+1 for a head phi [-1, phi+1] (the form the SSA builder gives `for i := range s`).
func iterationCounters(l *loop) []ssa.Value {
	var out []ssa.Value
	for _, ins := range l.head.Instrs {
		phi, ok := ins.(*ssa.Phi)
		if !ok {
			break
		}
		if countsUpFromZero(phi, l) {
			out = append(out, phi)
			continue
		}
		// range form
		var inc *ssa.BinOp
		okForm := true
		for i, pred := range l.head.Preds {
			e := phi.Edges[i]
			if l.blocks[pred] {
				add, ok := e.(*ssa.BinOp)
				if !ok || add.Op != token.ADD || add.X != ssa.Value(phi) || (inc != nil && inc != add) {
					okForm = false
					break
				}
				if k, ok := ConstInt(add.Y); !ok || k != 1 {
					okForm = false
					break
				}
				inc = add
				continue
			}
			if k, ok := ConstInt(e); !ok || k != -1 {
				okForm = false
				break
			}
		}
		if okForm && inc != nil && inc.Block() == l.head {
			out = append(out, inc)
		}
	}
	return out
}

func countsUpFromZero(phi *ssa.Phi, l *loop) bool {
	for i, pred := range phi.Block().Preds {
		e := phi.Edges[i]
		if l.blocks[pred] {
			add, ok := e.(*ssa.BinOp)
			if !ok || add.Op != token.ADD || add.X != ssa.Value(phi) {
				return false
			}
			if k, ok := ConstInt(add.Y); !ok || k != 1 {
				return false
			}
			continue
		}
		if k, ok := ConstInt(e); !ok || k != 0 {
			return false
		}
	}
	return true
}

// valueReads: v may depend on memory reached through dst (dst's only uses are element-store addresses and len, so a
// dependence would have to go through one of those addresses, which onlyElementStores excludes; len(dst) is not
// content). Kept as an explicit walk so the summary does not silently rest on that argument alone.
func valueReads(v ssa.Value, dst *ssa.Parameter, seen map[ssa.Value]bool) bool {
	if v == nil || seen[v] {
		return false
	}
	seen[v] = true
	if v == ssa.Value(dst) {
		return true
	}
	ins, ok := v.(ssa.Instruction)
	if !ok {
		return false
	}
	if c, ok := v.(*ssa.Call); ok {
		if b, ok := c.Call.Value.(*ssa.Builtin); ok && b.Name() == "len" {
			return false
		}
	}
	for _, op := range ins.Operands(nil) {
		if op != nil && *op != nil && valueReads(*op, dst, seen) {
			return true
		}
	}
	return false
}

// LenAtLeastBefore: right before instruction ins, len(v) >= n.
func (a *FuncAn) LenAtLeastBefore(ins ssa.Instruction, v ssa.Value, n int64) bool {
	s := a.stateBefore(ins)
	if s == nil {
		return true
	}
	return a.proverFor(s).Entails(a.LenOf(v).plus(-n))
}
