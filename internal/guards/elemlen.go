package guards

import (
	"go/token"
	"go/types"

	"golang.org/x/tools/go/ssa"
)

// Element-length invariant of a slice of slices: every element of the value has length L, where L is a linear
// expression over atoms that are valid everywhere in the function (parameters, their lengths). The value must be
// built only from nil / empty literals, append of single elements, and phis of such values, and the function
// must not store into elements of a slice of that type in any other way.

type elemLenRes struct {
	any bool // no elements yet (nil / empty): compatible with every length
	l   Lin
	ok  bool
}

func (a *FuncAn) globalLin(l Lin) bool {
	for _, t := range l.t {
		if a.atomDef[t.a] != nil || len(a.atomDeps[t.a]) > 0 {
			return false
		}
	}
	return true
}

func (a *FuncAn) elemLenOf(v ssa.Value, seen map[ssa.Value]bool) elemLenRes {
	v = a.cv(v)
	if seen[v] {
		return elemLenRes{any: true, ok: true} // coinductive: a cycle through a phi adds no element
	}
	seen[v] = true
	defer delete(seen, v)
	switch x := v.(type) {
	case *ssa.Const:
		if x.Value == nil {
			return elemLenRes{any: true, ok: true}
		}
	case *ssa.MakeSlice:
		if l := a.Lin(x.Len); l.IsConst() && l.C == 0 {
			return elemLenRes{any: true, ok: true}
		}
	case *ssa.Slice:
		// make([]T, 0, constant) is lowered to a slice of a fresh array
		if _, fresh := x.X.(*ssa.Alloc); fresh {
			if l := a.LenOf(x); l.IsConst() && l.C == 0 {
				return elemLenRes{any: true, ok: true}
			}
		}
	case *ssa.Phi:
		res := elemLenRes{any: true, ok: true}
		for _, e := range x.Edges {
			r := a.elemLenOf(e, seen)
			if !r.ok {
				return elemLenRes{}
			}
			if r.any {
				continue
			}
			if res.any {
				res = r
			} else if res.l.key() != r.l.key() || res.l.C != r.l.C {
				return elemLenRes{}
			}
		}
		return res
	case *ssa.Call:
		b, ok := x.Call.Value.(*ssa.Builtin)
		if !ok || b.Name() != "append" || len(x.Call.Args) != 2 {
			return elemLenRes{}
		}
		base := a.elemLenOf(x.Call.Args[0], seen)
		if !base.ok {
			return elemLenRes{}
		}
		// the appended elements: a slice of a fresh array whose elements are stored right before
		sl, ok := x.Call.Args[1].(*ssa.Slice)
		if !ok {
			return elemLenRes{}
		}
		al, ok := sl.X.(*ssa.Alloc)
		if !ok {
			return elemLenRes{}
		}
		res := base
		for _, r := range *al.Referrers() {
			ia, ok := r.(*ssa.IndexAddr)
			if !ok {
				continue
			}
			for _, rr := range *ia.Referrers() {
				st, ok := rr.(*ssa.Store)
				if !ok || st.Addr != ssa.Value(ia) {
					continue
				}
				l := a.LenOf(st.Val)
				if !a.globalLin(l) {
					return elemLenRes{}
				}
				if res.any {
					res = elemLenRes{l: l, ok: true}
				} else if res.l.key() != l.key() || res.l.C != l.C {
					return elemLenRes{}
				}
			}
		}
		return res
	}
	return elemLenRes{}
}

// noOtherElementStores: the function stores into elements of slices of type T only through append varargs.
func (a *FuncAn) noOtherElementStores(T types.Type) bool {
	for _, b := range a.Fn.Blocks {
		for _, ins := range b.Instrs {
			st, ok := ins.(*ssa.Store)
			if !ok {
				continue
			}
			ia, ok := st.Addr.(*ssa.IndexAddr)
			if !ok {
				continue
			}
			if _, isAlloc := ia.X.(*ssa.Alloc); isAlloc {
				continue // varargs array of an append
			}
			if types.Identical(ia.X.Type(), T) {
				return false
			}
		}
	}
	return true
}

// elemLenOfElement: v is an element loaded from a slice of slices with a known element-length invariant.
func (a *FuncAn) elemLenOfElement(v ssa.Value) (Lin, bool) {
	ld, ok := v.(*ssa.UnOp)
	if !ok || ld.Op != token.MUL {
		return Lin{}, false
	}
	ia, ok := ld.X.(*ssa.IndexAddr)
	if !ok {
		return Lin{}, false
	}
	if _, isSlice := ia.X.Type().Underlying().(*types.Slice); !isSlice {
		return Lin{}, false
	}
	r := a.elemLenOf(ia.X, map[ssa.Value]bool{})
	if !r.ok || r.any {
		return Lin{}, false
	}
	if !a.noOtherElementStores(ia.X.Type()) {
		return Lin{}, false
	}
	// the slice value must not have been handed to a callee that could replace elements
	for _, b := range a.Fn.Blocks {
		for _, ins := range b.Instrs {
			if call, ok := ins.(ssa.CallInstruction); ok {
				if _, isB := call.Common().Value.(*ssa.Builtin); isB {
					continue
				}
				for _, arg := range call.Common().Args {
					if types.Identical(arg.Type(), ia.X.Type()) {
						return Lin{}, false
					}
				}
			}
		}
	}
	return r.l, true
}
