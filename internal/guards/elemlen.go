package guards

import (
	"go/token"
	"go/types"

	"golang.org/x/tools/go/ssa"
)

// Element-length invariant of a slice of slices: every element of the value has length L, where L is a linear
// expression over atoms that are valid everywhere in the function (parameters, their lengths). The value must be
// built only from nil / empty literals, append of single elements, and phis of such values, and the function
// must not store into elements of a slice of that type in any other way.

type elemLenRes struct {
	any bool // no elements yet (nil / empty): compatible with every length
	l   Lin
	ok  bool
}

func (a *FuncAn) globalLin(l Lin) bool {
	for _, t := range l.t {
		if a.atomDef[t.a] != nil || len(a.atomDeps[t.a]) > 0 {
			return false
		}
	}
	return true
}

func (a *FuncAn) elemLenOf(v ssa.Value, seen map[ssa.Value]bool) elemLenRes {
	v = a.cv(v)
	if seen[v] {
		return elemLenRes{any: true, ok: true} // coinductive: a cycle through a phi adds no element
	}
	seen[v] = true
	defer delete(seen, v)
	switch x := v.(type) {
	case *ssa.Const:
		if x.Value == nil {
			return elemLenRes{any: true, ok: true}
		}
	case *ssa.MakeSlice:
		if l := a.Lin(x.Len); l.IsConst() && l.C == 0 {
			return elemLenRes{any: true, ok: true}
		}
	case *ssa.Slice:
		// make([]T, 0, constant) is lowered to a slice of a fresh array
		if _, fresh := x.X.(*ssa.Alloc); fresh {
			if l := a.LenOf(x); l.IsConst() && l.C == 0 {
				return elemLenRes{any: true, ok: true}
			}
		}
		// a window of a table has the table's element invariant
		if isSliceOfSeq(x.X.Type()) {
			return a.elemLenOf(x.X, seen)
		}
	case *ssa.Phi:
		res := elemLenRes{any: true, ok: true}
		for _, e := range x.Edges {
			r := a.elemLenOf(e, seen)
			if !r.ok {
				return elemLenRes{}
			}
			if r.any {
				continue
			}
			if res.any {
				res = r
			} else if res.l.key() != r.l.key() || res.l.C != r.l.C {
				return elemLenRes{}
			}
		}
		return res
	case *ssa.Parameter:
		if l, ok := a.paramElem[x]; ok {
			return elemLenRes{l: l, ok: true}
		}
	case *ssa.Extract:
		if call, ok := x.Tuple.(*ssa.Call); ok {
			return a.callElemLen(call, x.Index)
		}
	case *ssa.Call:
		b, ok := x.Call.Value.(*ssa.Builtin)
		if !ok {
			return a.callElemLen(x, 0)
		}
		if b.Name() != "append" || len(x.Call.Args) != 2 {
			return elemLenRes{}
		}
		base := a.elemLenOf(x.Call.Args[0], seen)
		if !base.ok {
			return elemLenRes{}
		}
		// the appended elements: a slice of a fresh array whose elements are stored right before
		sl, ok := x.Call.Args[1].(*ssa.Slice)
		if !ok {
			return elemLenRes{}
		}
		al, ok := sl.X.(*ssa.Alloc)
		if !ok {
			return elemLenRes{}
		}
		res := base
		for _, r := range *al.Referrers() {
			ia, ok := r.(*ssa.IndexAddr)
			if !ok {
				continue
			}
			for _, rr := range *ia.Referrers() {
				st, ok := rr.(*ssa.Store)
				if !ok || st.Addr != ssa.Value(ia) {
					continue
				}
				l := a.LenOf(st.Val)
				if !a.globalLin(l) {
					return elemLenRes{}
				}
				if res.any {
					res = elemLenRes{l: l, ok: true}
				} else if res.l.key() != l.key() || res.l.C != l.C {
					return elemLenRes{}
				}
			}
		}
		return res
	}
	return elemLenRes{}
}

// noOtherElementStores: the function stores into elements of slices of type T only through append varargs.
func (a *FuncAn) noOtherElementStores(T types.Type) bool {
	for _, b := range a.Fn.Blocks {
		for _, ins := range b.Instrs {
			st, ok := ins.(*ssa.Store)
			if !ok {
				continue
			}
			ia, ok := st.Addr.(*ssa.IndexAddr)
			if !ok {
				continue
			}
			if _, isAlloc := ia.X.(*ssa.Alloc); isAlloc {
				continue // varargs array of an append
			}
			if types.Identical(ia.X.Type(), T) {
				return false
			}
		}
	}
	return true
}

// elemLenOfElement: v is an element loaded from a slice of slices with a known element-length invariant.
func (a *FuncAn) elemLenOfElement(v ssa.Value) (Lin, bool) {
	ld, ok := v.(*ssa.UnOp)
	if !ok || ld.Op != token.MUL {
		return Lin{}, false
	}
	ia, ok := ld.X.(*ssa.IndexAddr)
	if !ok {
		return Lin{}, false
	}
	if _, isSlice := ia.X.Type().Underlying().(*types.Slice); !isSlice {
		return Lin{}, false
	}
	r := a.elemLenOf(ia.X, map[ssa.Value]bool{})
	if !r.ok || r.any {
		return Lin{}, false
	}
	if !a.elemsStable(ia.X.Type()) {
		return Lin{}, false
	}
	return r.l, true
}

// elemsStable: the function stores into elements of slices of type T only through append varargs, and hands values
// of that type only to callees that do not store into such elements either.
func (a *FuncAn) elemsStable(T types.Type) bool {
	return !a.E.mayStoreElems(a.Fn, T, map[*ssa.Function]bool{})
}

// mayStoreElems: f (or a callee that receives a value of type T from it) may replace an element of a slice of type T.
func (e *Engine) mayStoreElems(f *ssa.Function, T types.Type, seen map[*ssa.Function]bool) bool {
	if seen[f] {
		return false
	}
	seen[f] = true
	if f.Blocks == nil {
		return true
	}
	for _, b := range f.Blocks {
		for _, ins := range b.Instrs {
			switch x := ins.(type) {
			case *ssa.Store:
				ia, ok := x.Addr.(*ssa.IndexAddr)
				if !ok {
					continue
				}
				if _, isAlloc := ia.X.(*ssa.Alloc); isAlloc {
					continue // varargs array of an append
				}
				if types.Identical(ia.X.Type(), T) {
					return true
				}
			case ssa.CallInstruction:
				if _, isB := x.Common().Value.(*ssa.Builtin); isB {
					continue
				}
				passes := false
				for _, arg := range x.Common().Args {
					if types.Identical(arg.Type(), T) {
						passes = true
					}
				}
				if !passes {
					continue
				}
				cs := e.Callees(x)
				if len(cs) == 0 {
					return true
				}
				for _, c := range cs {
					if e.mayStoreElems(c, T, seen) {
						return true
					}
				}
			}
		}
	}
	return false
}

// callElemLen: element length of result idx of a call, from the callees' summaries, instantiated at the call site.
func (a *FuncAn) callElemLen(call *ssa.Call, idx int) elemLenRes {
	sums, ok := a.E.joinSummaries(call)
	if !ok || len(sums) == 0 {
		return elemLenRes{}
	}
	var pl *ParamLin
	for i, s := range sums {
		q := s.ElemLen[idx]
		if q == nil {
			return elemLenRes{}
		}
		if i == 0 {
			pl = q
		} else if !pl.equal(q) {
			return elemLenRes{}
		}
	}
	l, ok := a.instantiate(pl, call)
	if !ok || !a.globalLin(l) {
		return elemLenRes{}
	}
	return elemLenRes{l: l, ok: true}
}

// isSliceOfSeq: [][]T or []string-like types whose elements have a length.
func isSliceOfSeq(t types.Type) bool {
	sl, ok := t.Underlying().(*types.Slice)
	return ok && isSeq(sl.Elem())
}
