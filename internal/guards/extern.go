package guards

import (
	"go/types"
	"sort"
	"strings"

	"golang.org/x/tools/go/ssa"
)

// TrustedTotal lists callees outside the module that are trusted not to panic for any argument values
// (they report malformed input through an error result or have no failure mode). Key: full name as printed
// by go/ssa (functions) or "(pkg.Iface).Method" (interface methods without an analysed callee); a key ending
// in ".*" covers a whole package. Each entry carries the reason.
var TrustedTotal = map[string]string{
	"errors.New":                   "allocates an error value",
	"fmt.Errorf":                   "formatting; operands' String/Error methods assumed total (A3)",
	"fmt.Sprintf":                  "formatting (A3)",
	"fmt.Sprint":                   "formatting (A3)",
	"log.Printf":                   "formatting to the standard logger (A3)",
	"log.Println":                  "formatting to the standard logger (A3)",
	"github.com/pkg/errors.*":      "error wrapping helpers: allocate, never index",
	"encoding/hex.DecodeString":    "returns ErrLength / InvalidByteError for malformed text",
	"encoding/hex.EncodeToString":  "total",
	"encoding/hex.DecodedLen":      "total",
	"encoding/hex.EncodedLen":      "total",
	"encoding/hex.Encode":          "destination sized by EncodedLen at every call site (checked as intrinsic)",
	"(*encoding/base64.Encoding).DecodeString":   "returns CorruptInputError for malformed text",
	"(*encoding/base64.Encoding).EncodeToString": "total",
	"(*encoding/base64.Encoding).Decode":         "destination sized by DecodedLen (checked as intrinsic)",
	"(*encoding/base64.Encoding).DecodedLen":     "total",
	"(*encoding/base64.Encoding).EncodedLen":     "total",
	"(*encoding/base64.Encoding).Encode":         "destination sized by EncodedLen (checked as intrinsic)",
	"strconv.*":                    "parsers return *NumError; formatters are total",
	"strings.*":                    "no index arguments used by the module (Trim/Split/Replace/ToLower/HasPrefix/…)",
	"bytes.Equal":                  "total",
	"bytes.Compare":                "total",
	"time.Parse":                   "returns *ParseError",
	"time.*":                       "time arithmetic and formatting are total",
	"(time.Time).*":                "time arithmetic and formatting are total",
	"(time.Duration).*":            "total",
	"math.*":                       "floating point, no panics",
	"math/bits.*":                  "total for the shapes used (no Div)",
	"encoding/json.Unmarshal":      "returns SyntaxError/UnmarshalTypeError; custom unmarshalers are roots themselves",
	"encoding/json.Marshal":        "returns error",
	"crypto/aes.NewCipher":         "returns KeySizeError instead of panicking",
	"github.com/jacobsa/crypto/cmac.New": "returns error for a bad key length",
	"(crypto/cipher.Block).BlockSize": "constant of the cipher",
	"(hash.Hash).Write":            "hash.Hash.Write never returns an error and accepts any length",
	"(hash.Hash).Sum":              "appends to its argument",
	"(hash.Hash).Reset":            "total",
	"(io.Writer).Write":            "hash/buffer writers accept any length",
	"encoding/binary.Write":        "returns error for unsupported types",
	"encoding/binary.Read":         "returns io.ErrUnexpectedEOF on short input",
	"(*bytes.Buffer).*":            "growing buffer; Write/Bytes/Len are total",
	"bytes.NewBuffer":              "total",
	"bytes.NewReader":              "total",
	"(*bytes.Reader).*":            "returns io.EOF on short input",
	"(*sync.Mutex).*":              "lock operations (Unlock of a locked mutex)",
	"(*sync.RWMutex).*":            "lock operations",
	"(error).Error":                "error values produced by the module and the standard library",
	"sort.*":                       "comparison sorts over module-provided Less functions",
	"(reflect.Type).*":             "not reached with invalid kinds",
	"unicode/utf8.*":               "total",
	"database/sql/driver.*":        "interfaces only",
	"(*encoding/binary.littleEndian).*": "see intrinsics",
}

// intrinsic preconditions: callee name -> list of (argument index, minimal length).
type lenReq struct {
	arg int
	min int64
}

var intrinsics = map[string][]lenReq{
	"(encoding/binary.littleEndian).Uint16":    {{0, 2}},
	"(encoding/binary.littleEndian).Uint32":    {{0, 4}},
	"(encoding/binary.littleEndian).Uint64":    {{0, 8}},
	"(encoding/binary.littleEndian).PutUint16": {{0, 2}},
	"(encoding/binary.littleEndian).PutUint32": {{0, 4}},
	"(encoding/binary.littleEndian).PutUint64": {{0, 8}},
	"(encoding/binary.bigEndian).Uint16":       {{0, 2}},
	"(encoding/binary.bigEndian).Uint32":       {{0, 4}},
	"(encoding/binary.bigEndian).Uint64":       {{0, 8}},
	"(encoding/binary.bigEndian).PutUint16":    {{0, 2}},
	"(encoding/binary.bigEndian).PutUint32":    {{0, 4}},
	"(encoding/binary.bigEndian).PutUint64":    {{0, 8}},
	// crypto/cipher.Block as produced by aes.NewCipher: block size 16
	"(crypto/cipher.Block).Encrypt": {{0, 16}, {1, 16}},
	"(crypto/cipher.Block).Decrypt": {{0, 16}, {1, 16}},
}

func trustedReason(name string) (string, bool) {
	if r, ok := TrustedTotal[name]; ok {
		return r, true
	}
	// package / receiver wildcard
	if i := strings.LastIndex(name, "."); i > 0 {
		if r, ok := TrustedTotal[name[:i]+".*"]; ok {
			return r, true
		}
	}
	return "", false
}

// ExternSeen collects the extern callees met while enumerating obligations: name -> classification.
type ExternUse struct {
	Name, Class, Reason string
	Sites               int
}

func (e *Engine) ExternUses() []ExternUse {
	var out []ExternUse
	for _, u := range e.externSeen {
		out = append(out, *u)
	}
	sort.Slice(out, func(i, j int) bool { return out[i].Name < out[j].Name })
	return out
}

func (e *Engine) noteExtern(name, class, reason string) {
	if e.externSeen == nil {
		e.externSeen = map[string]*ExternUse{}
	}
	u := e.externSeen[name]
	if u == nil {
		u = &ExternUse{Name: name, Class: class, Reason: reason}
		e.externSeen[name] = u
	}
	u.Sites++
}

// externObligations: preconditions of callees outside the module.
func (e *Engine) externObligations(a *FuncAn, call *ssa.Call, add func(ssa.Instruction, string, string, []Goal) *Obl, out *[]*Obl) {
	c := call.Common()
	var names []string
	if c.IsInvoke() {
		// an interface method: if every callee is a module function nothing to do here
		allModule := true
		cs := e.Callees(call)
		for _, f := range cs {
			if !e.InModule(f) {
				allModule = false
			}
		}
		if len(cs) > 0 && allModule {
			return
		}
		recv := c.Value.Type()
		names = []string{"(" + types.TypeString(recv, nil) + ")." + c.Method.Name()}
	} else {
		for _, f := range e.Callees(call) {
			if !e.InModule(f) {
				names = append(names, FuncFullName(f))
			}
		}
		if len(e.Callees(call)) == 0 {
			names = []string{"dynamic call of " + a.valName(c.Value)}
		}
	}
	for _, name := range names {
		if reqs, ok := intrinsics[name]; ok {
			e.noteExtern(name, "intrinsic", "length preconditions checked at every call site")
			var goals []Goal
			off := 0
			if !c.IsInvoke() && c.Signature().Recv() != nil {
				off = 1 // static method call: the receiver is Args[0]
			}
			for _, r := range reqs {
				goals = append(goals, Goal{a.LenOf(c.Args[r.arg+off]).plus(-r.min), "len(arg" + string(rune('0'+r.arg)) + ") >= " + itoa(r.min)})
			}
			add(call, "intrinsic", name+" argument lengths", goals)
			continue
		}
		if reason, ok := trustedReason(name); ok {
			e.noteExtern(name, "trusted-total", reason)
			continue
		}
		e.noteExtern(name, "UNCLASSIFIED", "")
		o := &Obl{Fn: a.Fn, Instr: call, Kind: "extern", Want: "callee is in the trusted-total table or has checked preconditions", Nontrivial: true,
			Status: Unsupported, Why: "callee " + name + " is not classified", Expr: exprAt(a.Fn, call.Pos(), "call")}
		*out = append(*out, o)
	}
}

func itoa(n int64) string {
	if n == 0 {
		return "0"
	}
	s := ""
	neg := n < 0
	if neg {
		n = -n
	}
	for n > 0 {
		s = string(rune('0'+n%10)) + s
		n /= 10
	}
	if neg {
		s = "-" + s
	}
	return s
}

// ---------------------------------------------------------------------------
// parameter non-nil preconditions (greatest fixpoint over the call sites in scope)

func pointerLike(t types.Type) bool {
	switch t.Underlying().(type) {
	case *types.Pointer, *types.Interface, *types.Signature, *types.Map:
		return true
	}
	return false
}

func (e *Engine) paramNonNil(f *ssa.Function, p *ssa.Parameter) bool {
	if e.Roots[f] {
		_, isPtr := p.Type().Underlying().(*types.Pointer)
		return isPtr // A4: root receivers / pointer parameters are non-nil; interface parameters are not assumed
	}
	if _, maybe := e.paramMaybeNil[p]; maybe {
		return false
	}
	if e.Scope != nil && len(e.callers[f]) == 0 {
		return false
	}
	return true
}

// SolveParamNil: iterate over all call sites in the scope; a parameter stays "non-nil" only if every
// call site passes a value that is non-nil under the caller's facts (callers' own parameters included,
// coinductively).
func (e *Engine) SolveParamNil(scope []*ssa.Function) {
	e.Scope = map[*ssa.Function]bool{}
	e.ctxFas = map[*ssa.Function]*FuncAn{} // entry facts depend on the scope
	e.paramMaybeNil = map[*ssa.Parameter]string{}
	for _, f := range scope {
		e.Scope[f] = true
	}
	for changed := true; changed; {
		changed = false
		for _, f := range scope {
			a := e.AnalyzeCtx(f)
			if a == nil {
				continue
			}
			for _, b := range a.rpo {
				s := a.in[b]
				if s == nil {
					continue
				}
				for _, ins := range b.Instrs {
					call, ok := ins.(ssa.CallInstruction)
					if !ok {
						continue
					}
					c := call.Common()
					if _, isB := c.Value.(*ssa.Builtin); isB {
						continue
					}
					for _, callee := range e.Callees(call) {
						if callee.Blocks == nil || !e.InModule(callee) {
							continue
						}
						args := c.Args
						off := 0
						if c.IsInvoke() {
							off = 1 // receiver comes from the interface value: non-nil by the invoke obligation + A2
						}
						for i, arg := range args {
							pi := i + off
							if pi >= len(callee.Params) {
								break
							}
							p := callee.Params[pi]
							if !pointerLike(p.Type()) {
								continue
							}
							if _, done := e.paramMaybeNil[p]; done {
								continue
							}
							if !a.isNonNil(a.stateBefore(ins), arg) {
								e.paramMaybeNil[p] = FuncShort(f)
								changed = true
							}
						}
					}
				}
			}
		}
	}
}
