package guards

import (
	"go/types"
	"sort"
	"strings"

	"golang.org/x/tools/go/ssa"
)

// TrustedTotal lists callees outside the module that are trusted not to panic for any argument values
// (they report malformed input through an error result or have no failure mode). Key: full name as printed
// by go/ssa (functions) or "(pkg.Iface).Method" (interface methods without an analysed callee); a key ending
// in ".*" covers a whole package. Each entry carries the reason.
var TrustedTotal = map[string]string{
	// error construction and logging
	"(*sync.Pool).Get":             "returns a pooled object or the result of New (a module function literal, analysed on its own)",
	"(*sync.Pool).Put":             "stores its argument, no preconditions",
	"(*sync.Once).Do":              "runs its argument at most once; the argument is a module function literal, analysed as a reachable function of its own",
	"math/bits.OnesCount8":         "pure arithmetic",
	"math/bits.OnesCount16":        "pure arithmetic",
	"math/bits.OnesCount32":        "pure arithmetic",
	"math/bits.OnesCount64":        "pure arithmetic",
	"math/bits.OnesCount":          "pure arithmetic",
	"math/bits.LeadingZeros8":      "pure arithmetic",
	"math/bits.LeadingZeros16":     "pure arithmetic",
	"math/bits.LeadingZeros32":     "pure arithmetic",
	"math/bits.LeadingZeros64":     "pure arithmetic",
	"math/bits.TrailingZeros8":     "pure arithmetic",
	"math/bits.TrailingZeros16":    "pure arithmetic",
	"math/bits.TrailingZeros32":    "pure arithmetic",
	"math/bits.TrailingZeros64":    "pure arithmetic",
	"math/bits.Len8":               "pure arithmetic",
	"math/bits.Len16":              "pure arithmetic",
	"math/bits.Len32":              "pure arithmetic",
	"math/bits.Len64":              "pure arithmetic",
	"math/bits.Reverse8":           "pure arithmetic",
	"math/bits.ReverseBytes32":     "pure arithmetic",
	"bytes.TrimPrefix":             "returns a sub-slice of its argument",
	"bytes.TrimSuffix":             "returns a sub-slice of its argument",
	"bytes.HasPrefix":              "compares, reads only",
	"encoding/hex.DecodedLen":      "len/2",
	"encoding/hex.EncodedLen":      "len*2",
	"errors.New":                   "allocates an error value",
	"errors.Is":                    "walks the Unwrap chain comparing identities; the Is/Unwrap methods it may call belong to error values built by errors.New, fmt.Errorf and pkg/errors, which are total",
	"fmt.Errorf":                   "formatting; String/Error methods of operands assumed total (A3)",
	"fmt.Sprintf":                  "formatting (A3)",
	"log.Printf":                   "formatting to the standard logger (A3)",
	"github.com/pkg/errors.Wrap":   "wraps an error, allocates only",
	"github.com/pkg/errors.Wrapf":  "wraps an error, allocates only",
	"github.com/pkg/errors.New":    "allocates an error value",
	"github.com/pkg/errors.Errorf": "allocates an error value",
	// text decoders: malformed input is reported through the error result
	"encoding/hex.DecodeString":                  "returns ErrLength / InvalidByteError for malformed text",
	"encoding/hex.EncodeToString":                "total",
	"(*encoding/base64.Encoding).DecodeString":   "returns CorruptInputError for malformed text",
	"(*encoding/base64.Encoding).EncodeToString": "total",
	"strconv.ParseFloat":                         "returns *NumError",
	"strconv.ParseInt":                           "returns *NumError",
	"strconv.ParseUint":                          "returns *NumError",
	"strconv.Atoi":                               "returns *NumError",
	"strconv.Itoa":                               "total",
	"strconv.FormatInt":                          "total for base 10/16 used here",
	"strconv.FormatFloat":                        "total",
	"strings.TrimPrefix":                         "total",
	"strings.TrimSuffix":                         "total",
	"strings.TrimSpace":                          "total",
	"strings.ToLower":                            "total",
	"strings.ToUpper":                            "total",
	"strings.HasPrefix":                          "total",
	"strings.Split":                              "total",
	"time.Parse":                                 "returns *ParseError",
	"math.Round":                                 "floating point, no panic",
	"encoding/json.Unmarshal":                    "returns SyntaxError/UnmarshalTypeError; custom unmarshalers of the module are roots themselves",
	"bytes.Equal":                                "total",
	// crypto constructors: bad key sizes are errors
	"crypto/aes.NewCipher":               "returns KeySizeError instead of panicking",
	"github.com/jacobsa/crypto/cmac.New": "returns an error for a bad key length",
	"(crypto/cipher.Block).BlockSize":    "constant of the cipher",
	"sync/atomic.AddUint64":              "total on a non-nil, aligned address (package-level variables are)",
	"sync/atomic.AddUint32":              "total on a non-nil address",
	"sync/atomic.AddInt64":               "total on a non-nil, aligned address (package-level variables are)",
	"sync/atomic.AddInt32":               "total on a non-nil address",
	"sync/atomic.LoadUint64":             "total on a non-nil, aligned address",
	"sync/atomic.LoadUint32":             "total on a non-nil address",
	"sync/atomic.LoadInt64":              "total on a non-nil, aligned address",
	"sync/atomic.LoadInt32":              "total on a non-nil address",
	"(hash.Hash).Write":                  "never fails, accepts any length",
	"(hash.Hash).Sum":                    "appends to its argument",
	// locks
	"(*sync.RWMutex).RLock":   "lock operation",
	"(*sync.RWMutex).RUnlock": "paired with RLock by defer",
	"(*sync.RWMutex).Lock":    "lock operation",
	"(*sync.RWMutex).Unlock":  "paired with Lock by defer",
	"(*sync.Mutex).Lock":      "lock operation",
	"(*sync.Mutex).Unlock":    "paired with Lock by defer",
	"(error).Error":           "error values produced by the module and the standard library",
}

// intrinsic preconditions: callee name -> list of (argument index, minimal length).
type lenReq struct {
	arg int
	min int64
	// relational form (rel true):  ka*len(arg) + kb*len(arg2) + min >= 0
	rel    bool
	arg2   int
	ka, kb int64
}

var intrinsics = map[string][]lenReq{
	"(encoding/binary.littleEndian).Uint16":    {{arg: 0, min: 2}},
	"(encoding/binary.littleEndian).Uint32":    {{arg: 0, min: 4}},
	"(encoding/binary.littleEndian).Uint64":    {{arg: 0, min: 8}},
	"(encoding/binary.littleEndian).PutUint16": {{arg: 0, min: 2}},
	"(encoding/binary.littleEndian).PutUint32": {{arg: 0, min: 4}},
	"(encoding/binary.littleEndian).PutUint64": {{arg: 0, min: 8}},
	"(encoding/binary.bigEndian).Uint16":       {{arg: 0, min: 2}},
	"(encoding/binary.bigEndian).Uint32":       {{arg: 0, min: 4}},
	"(encoding/binary.bigEndian).Uint64":       {{arg: 0, min: 8}},
	"(encoding/binary.bigEndian).PutUint16":    {{arg: 0, min: 2}},
	"(encoding/binary.bigEndian).PutUint32":    {{arg: 0, min: 4}},
	"(encoding/binary.bigEndian).PutUint64":    {{arg: 0, min: 8}},
	// crypto/cipher.Block as produced by aes.NewCipher: block size 16
	"(crypto/cipher.Block).Encrypt": {{arg: 0, min: 16}, {arg: 1, min: 16}},
	"(crypto/cipher.Block).Decrypt": {{arg: 0, min: 16}, {arg: 1, min: 16}},
	// hex.Decode(dst, src) writes len(src)/2 bytes and does not check dst:  2*len(dst) + 1 - len(src) >= 0
	"encoding/hex.Decode": {{rel: true, arg: 0, ka: 2, arg2: 1, kb: -1, min: 1}},
	// hex.Encode(dst, src) writes 2*len(src) bytes:  len(dst) - 2*len(src) >= 0
	"encoding/hex.Encode": {{rel: true, arg: 0, ka: 1, arg2: 1, kb: -2, min: 0}},
}

func trustedReason(name string) (string, bool) {
	r, ok := TrustedTotal[name]
	return r, ok
}

// ExternSeen collects the extern callees met while enumerating obligations: name -> classification.
type ExternUse struct {
	Name, Class, Reason string
	Sites               int
}

func (e *Engine) ExternUses() []ExternUse {
	var out []ExternUse
	for _, u := range e.externSeen {
		out = append(out, *u)
	}
	sort.Slice(out, func(i, j int) bool { return out[i].Name < out[j].Name })
	return out
}

func (e *Engine) noteExtern(name, class, reason string) {
	if e.externSeen == nil {
		e.externSeen = map[string]*ExternUse{}
	}
	u := e.externSeen[name]
	if u == nil {
		u = &ExternUse{Name: name, Class: class, Reason: reason}
		e.externSeen[name] = u
	}
	u.Sites++
}

// externObligations: preconditions of callees outside the module.
func (e *Engine) externObligations(a *FuncAn, call *ssa.Call, add func(ssa.Instruction, string, string, []Goal) *Obl, out *[]*Obl) {
	if a.Converged && a.in[call.Block()] == nil {
		return // the block is never reached (a branch on a false constant): nothing is called
	}
	c := call.Common()
	var names []string
	if c.IsInvoke() {
		// an interface method: if every callee is a module function nothing to do here
		allModule := true
		cs := e.Callees(call)
		for _, f := range cs {
			if !e.InModule(f) {
				allModule = false
			}
		}
		if len(cs) > 0 && allModule {
			return
		}
		recv := c.Value.Type()
		names = []string{"(" + types.TypeString(recv, nil) + ")." + c.Method.Name()}
	} else {
		for _, f := range e.Callees(call) {
			if !e.InModule(f) {
				names = append(names, FuncFullName(f))
			}
		}
		if len(e.Callees(call)) == 0 {
			names = []string{"dynamic call of " + a.valName(c.Value)}
		}
	}
	for _, name := range names {
		// a method expression T.M used as a function value is called through a synthetic thunk whose first argument
		// is the receiver; it is the method itself
		thunk := false
		for _, sfx := range []string{"$thunk", "$bound"} {
			if strings.HasSuffix(name, sfx) {
				thunk = sfx == "$thunk"
				name = strings.TrimSuffix(name, sfx)
			}
		}
		if reqs, ok := intrinsics[name]; ok {
			e.noteExtern(name, "intrinsic", "length preconditions checked at every call site")
			var goals []Goal
			off := 0
			if !c.IsInvoke() && c.Signature().Recv() != nil {
				off = 1 // static method call: the receiver is Args[0]
			}
			if thunk {
				off = 1 // T.M(recv, args…)
			}
			for _, r := range reqs {
				if r.rel {
					g := Add(Scale(a.LenOf(c.Args[r.arg+off]), r.ka), a.LenOf(c.Args[r.arg2+off]), r.kb).plus(r.min)
					goals = append(goals, Goal{g, itoa(r.ka) + "*len(arg" + string(rune('0'+r.arg)) + ") + " + itoa(r.kb) + "*len(arg" + string(rune('0'+r.arg2)) + ") + " + itoa(r.min) + " >= 0"})
					continue
				}
				goals = append(goals, Goal{a.LenOf(c.Args[r.arg+off]).plus(-r.min), "len(arg" + string(rune('0'+r.arg)) + ") >= " + itoa(r.min)})
			}
			add(call, "intrinsic", name+" argument lengths", goals)
			continue
		}
		if reason, ok := trustedReason(name); ok {
			e.noteExtern(name, "trusted-total", reason)
			continue
		}
		e.noteExtern(name, "UNCLASSIFIED", "")
		o := &Obl{Fn: a.Fn, Instr: call, Kind: "extern", Want: "callee is in the trusted-total table or has checked preconditions", Nontrivial: true,
			Status: Unsupported, Why: "callee " + name + " is not classified", Expr: exprAt(a.Fn, call.Pos(), "call")}
		*out = append(*out, o)
	}
}

func itoa(n int64) string {
	if n == 0 {
		return "0"
	}
	s := ""
	neg := n < 0
	if neg {
		n = -n
	}
	for n > 0 {
		s = string(rune('0'+n%10)) + s
		n /= 10
	}
	if neg {
		s = "-" + s
	}
	return s
}

// ---------------------------------------------------------------------------
// parameter non-nil preconditions (greatest fixpoint over the call sites in scope)

func pointerLike(t types.Type) bool {
	switch t.Underlying().(type) {
	case *types.Pointer, *types.Interface, *types.Signature, *types.Map:
		return true
	}
	return false
}

func (e *Engine) paramNonNil(f *ssa.Function, p *ssa.Parameter) bool {
	if e.Roots[f] {
		_, isPtr := p.Type().Underlying().(*types.Pointer)
		return isPtr // A4: root receivers / pointer parameters are non-nil; interface parameters are not assumed
	}
	if _, maybe := e.paramMaybeNil[p]; maybe {
		return false
	}
	if e.Scope != nil && len(e.callers[f]) == 0 {
		return false
	}
	return true
}

// SolveParamNil: iterate over all call sites in the scope; a parameter stays "non-nil" only if every
// call site passes a value that is non-nil under the caller's facts (callers' own parameters included,
// coinductively).
func (e *Engine) SolveParamNil(scope []*ssa.Function) {
	e.Scope = map[*ssa.Function]bool{}
	e.ctxFas = map[*ssa.Function]*FuncAn{} // entry facts depend on the scope
	e.paramMaybeNil = map[*ssa.Parameter]string{}
	for _, f := range scope {
		e.Scope[f] = true
	}
	for changed := true; changed; {
		changed = false
		for _, f := range scope {
			a := e.AnalyzeCtx(f)
			if a == nil {
				continue
			}
			for _, b := range a.rpo {
				s := a.in[b]
				if s == nil {
					continue
				}
				for _, ins := range b.Instrs {
					call, ok := ins.(ssa.CallInstruction)
					if !ok {
						continue
					}
					c := call.Common()
					if _, isB := c.Value.(*ssa.Builtin); isB {
						continue
					}
					for _, callee := range e.Callees(call) {
						if callee.Blocks == nil || !e.InModule(callee) {
							continue
						}
						args := c.Args
						off := 0
						if c.IsInvoke() {
							off = 1 // receiver comes from the interface value: non-nil by the invoke obligation + A2
						}
						for i, arg := range args {
							pi := i + off
							if pi >= len(callee.Params) {
								break
							}
							p := callee.Params[pi]
							if !pointerLike(p.Type()) {
								continue
							}
							if _, done := e.paramMaybeNil[p]; done {
								continue
							}
							if !a.isNonNil(a.stateBefore(ins), arg) {
								e.paramMaybeNil[p] = FuncShort(f)
								changed = true
							}
						}
					}
				}
			}
		}
	}
}
