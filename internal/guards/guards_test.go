package guards

import "testing"

func TestSelfTestFixtures(t *testing.T) {
	problems, n := SelfTest()
	if n < 30 {
		t.Errorf("only %d fixture functions analysed", n)
	}
	for _, p := range problems {
		t.Error(p)
	}
}

func TestProverBasics(t *testing.T) {
	x := &Atom{ID: 1, Name: "x", NonNeg: true}
	y := &Atom{ID: 2, Name: "y"}
	// facts: x - y - 1 >= 0 (y < x), y >= 0
	p := newProver([]Lin{Add(AtomLin(x), AtomLin(y), -1).plus(-1), AtomLin(y)})
	if !p.Entails(AtomLin(x).plus(-1)) {
		t.Error("x >= 1 should follow from y < x, y >= 0")
	}
	if p.Entails(AtomLin(x).plus(-2)) {
		t.Error("x >= 2 must not follow")
	}
	if p.Entails(Scale(AtomLin(y), -1)) {
		t.Error("y <= 0 must not follow")
	}
}
