package guards

import (
	"fmt"
	"go/token"
	"go/types"
	"strings"

	"golang.org/x/tools/go/ssa"
)

// apath is an access path: the memory location an address value designates.
//
//	root  — a pointer Parameter / Alloc / Global (the object it points to), a slice value (its backing
//	        array) or any other pointer value (opaque root)
//	steps — field selections ".3" and element selections "[c5]" / "[v:t7]"
type apath struct {
	root  ssa.Value
	steps []step
	typ   types.Type // type of the designated location
	disp  string     // human readable
}

// step: ".f" of struct type st (field index f) or an element selection.
type step struct {
	key   string     // ".3", "[c5]", "[v:t7]"
	st    types.Type // struct type for field steps
	field int
}

func (p *apath) key() string {
	k := fmt.Sprintf("%p", p.root)
	for _, s := range p.steps {
		k += s.key
	}
	return k
}

func (p *apath) lastField() (step, bool) {
	if n := len(p.steps); n > 0 && p.steps[n-1].st != nil {
		return p.steps[n-1], true
	}
	return step{}, false
}

func rootName(v ssa.Value) string {
	switch x := v.(type) {
	case *ssa.Parameter:
		return x.Name()
	case *ssa.Global:
		return x.Name()
	case *ssa.Alloc:
		if x.Comment != "" {
			return x.Comment
		}
		return "local"
	case *ssa.FreeVar:
		return x.Name()
	}
	return v.Name()
}

// pathOf returns the location designated by address value v (a pointer) or, for elem=true, the backing
// array of slice value v.
func (a *FuncAn) pathOf(v ssa.Value) *apath {
	switch x := v.(type) {
	case *ssa.FieldAddr:
		base := a.pathOf(x.X)
		st, ok := derefType(x.X.Type()).Underlying().(*types.Struct)
		if !ok {
			return nil
		}
		f := st.Field(x.Field)
		return &apath{root: base.root, steps: append(append([]step(nil), base.steps...), step{key: fmt.Sprintf(".%d", x.Field), st: derefType(x.X.Type()), field: x.Field}),
			typ: f.Type(), disp: base.disp + "." + f.Name()}
	case *ssa.IndexAddr:
		var base *apath
		var et types.Type
		if pt, ok := x.X.Type().Underlying().(*types.Pointer); ok {
			base = a.pathOf(x.X)
			et = pt.Elem().Underlying().(*types.Array).Elem()
		} else {
			sv := a.cv(x.X)
			sl, ok := sv.Type().Underlying().(*types.Slice)
			if !ok {
				return nil
			}
			et = sl.Elem()
			base = &apath{root: sv, typ: sv.Type(), disp: a.valName(sv)}
		}
		ik, id := a.indexKey(x.Index)
		return &apath{root: base.root, steps: append(append([]step(nil), base.steps...), step{key: "[" + ik + "]"}), typ: et, disp: base.disp + "[" + id + "]"}
	case *ssa.ChangeType:
		return a.pathOf(x.X)
	case *ssa.Convert:
		if _, ok := x.X.Type().Underlying().(*types.Pointer); ok {
			return a.pathOf(x.X)
		}
	}
	cvv := a.cv(v)
	if cvv != v {
		if _, isLoad := cvv.(*ssa.UnOp); !isLoad {
			return a.pathOf(cvv)
		}
	}
	return &apath{root: cvv, typ: derefType(v.Type()), disp: a.valName(cvv)}
}

func derefType(t types.Type) types.Type {
	if p, ok := t.Underlying().(*types.Pointer); ok {
		return p.Elem()
	}
	return t
}

func (a *FuncAn) indexKey(v ssa.Value) (key, disp string) {
	if k, ok := ConstInt(v); ok {
		return fmt.Sprintf("c%d", k), fmt.Sprint(k)
	}
	// strip integer conversions that cannot change the value's identity for addressing purposes
	for {
		c, ok := v.(*ssa.Convert)
		if !ok {
			break
		}
		v = c.X
	}
	v = a.cv(v)
	return "v:" + v.Name(), a.valName(v)
}

// valName renders a value for diagnostics.
func (a *FuncAn) valName(v ssa.Value) string {
	switch x := v.(type) {
	case *ssa.Parameter:
		return x.Name()
	case *ssa.Global:
		return x.Name()
	case *ssa.Const:
		return x.Name()
	case *ssa.UnOp:
		if x.Op == token.MUL {
			if p := a.pathOf(x.X); p != nil {
				if _, ok := x.X.(*ssa.Alloc); ok {
					return p.disp
				}
				if _, ok := x.X.(*ssa.Global); ok {
					return p.disp
				}
				if len(p.steps) == 0 {
					return "*" + p.disp
				}
				return p.disp
			}
		}
	case *ssa.Alloc:
		return "&" + rootName(x)
	case *ssa.Phi:
		if x.Comment != "" {
			return x.Comment + "φ" + strings.TrimPrefix(x.Name(), "t")
		}
	case *ssa.Slice:
		lo, hi := "", ""
		if x.Low != nil {
			lo = a.valName(x.Low)
		}
		if x.High != nil {
			hi = a.valName(x.High)
		}
		return a.valName(x.X) + "[" + lo + ":" + hi + "]"
	case *ssa.Call:
		if c := x.Call.StaticCallee(); c != nil {
			return c.Name() + "(…)"
		}
		if x.Call.IsInvoke() {
			return a.valName(x.Call.Value) + "." + x.Call.Method.Name() + "()"
		}
	case *ssa.Extract:
		return fmt.Sprintf("%s#%d", a.valName(x.Tuple), x.Index)
	case *ssa.TypeAssert:
		return a.valName(x.X) + ".(" + types.TypeString(x.AssertedType, func(*types.Package) string { return "" }) + ")"
	case *ssa.Lookup:
		return a.valName(x.X) + "[" + a.valName(x.Index) + "]"
	case *ssa.Convert:
		return a.valName(x.X)
	case *ssa.ChangeType:
		return a.valName(x.X)
	case *ssa.Field:
		if st, ok := x.X.Type().Underlying().(*types.Struct); ok {
			return a.valName(x.X) + "." + st.Field(x.Field).Name()
		}
	case *ssa.BinOp:
		return "(" + a.valName(x.X) + " " + x.Op.String() + " " + a.valName(x.Y) + ")"
	}
	return v.Name()
}

// stepsDisjoint: two step lists from the same root designate provably different locations.
func stepsDisjoint(p, q []step) bool {
	for i := 0; i < len(p) && i < len(q); i++ {
		if p[i].key == q[i].key {
			continue
		}
		if p[i].key[0] == '.' && q[i].key[0] == '.' {
			return true
		}
		if strings.HasPrefix(p[i].key, "[c") && strings.HasPrefix(q[i].key, "[c") {
			return true
		}
		return false
	}
	return false
}

// typeContains reports whether a location of type outer includes (as itself, a field or an array
// element, not through pointers) a location of type inner.
func typeContains(outer, inner types.Type, depth int) bool {
	if types.Identical(outer, inner) {
		return true
	}
	if depth > 6 {
		return true
	}
	switch u := outer.Underlying().(type) {
	case *types.Struct:
		for i := 0; i < u.NumFields(); i++ {
			if typeContains(u.Field(i).Type(), inner, depth+1) {
				return true
			}
		}
	case *types.Array:
		return typeContains(u.Elem(), inner, depth+1)
	}
	return false
}

func typesOverlap(a, b types.Type) bool {
	if types.Identical(a.Underlying(), b.Underlying()) {
		return true
	}
	return typeContains(a, b, 0) || typeContains(b, a, 0)
}

// escapes: the address of a local allocation is stored, passed or otherwise leaves the set of
// load/store/field-address uses.
func (a *FuncAn) escapes(al *ssa.Alloc) bool {
	if e, ok := a.escMemo[al]; ok {
		return e
	}
	a.escMemo[al] = true // cycles: conservative
	e := addrEscapes(al, 0)
	a.escMemo[al] = e
	return e
}

func addrEscapes(v ssa.Value, depth int) bool {
	if depth > 8 {
		return true
	}
	refs := v.Referrers()
	if refs == nil {
		return true
	}
	for _, r := range *refs {
		switch x := r.(type) {
		case *ssa.UnOp:
			if x.Op != token.MUL {
				return true
			}
		case *ssa.Store:
			if x.Val == v {
				return true
			}
		case *ssa.FieldAddr:
			if addrEscapes(x, depth+1) {
				return true
			}
		case *ssa.IndexAddr:
			if addrEscapes(x, depth+1) {
				return true
			}
		case *ssa.DebugRef:
		default:
			return true
		}
	}
	return false
}

// mayAlias: a store to location w may change the value read from location p.
func (a *FuncAn) mayAlias(p, w *apath) bool {
	if p.root == w.root {
		return !stepsDisjoint(p.steps, w.steps)
	}
	pa, pIsAlloc := p.root.(*ssa.Alloc)
	wa, wIsAlloc := w.root.(*ssa.Alloc)
	if pIsAlloc && wIsAlloc {
		return false
	}
	if pIsAlloc && !a.escapes(pa) {
		return false
	}
	if wIsAlloc && !a.escapes(wa) {
		return false
	}
	_, pIsParam := p.root.(*ssa.Parameter)
	_, wIsParam := w.root.(*ssa.Parameter)
	_, pIsGlobal := p.root.(*ssa.Global)
	_, wIsGlobal := w.root.(*ssa.Global)
	// a fresh allocation of this call is distinct from anything that existed at entry
	if (pIsAlloc && (wIsParam || wIsGlobal)) || (wIsAlloc && (pIsParam || pIsGlobal)) {
		return false
	}
	if pIsGlobal && wIsGlobal {
		return false
	}
	return writeKills(writeOfPath(w), p)
}

// ---------------------------------------------------------------------------
// write descriptors: how a location was written decides what it may overlap (Go without unsafe)

type writeDesc struct {
	kind  byte       // 'f' store through a field address, 'e' element of a slice/array, 'd' through any other pointer
	typ   types.Type // type of the written location
	st    types.Type // 'f': struct type
	field int        // 'f': field index
}

func writeOfPath(w *apath) writeDesc {
	if n := len(w.steps); n > 0 {
		if l := w.steps[n-1]; l.st != nil {
			return writeDesc{kind: 'f', typ: w.typ, st: l.st, field: l.field}
		}
		return writeDesc{kind: 'e', typ: w.typ}
	}
	return writeDesc{kind: 'd', typ: w.typ}
}

// writeKills: a write described by w (to a location not provably distinct by roots) may change location p.
//   - a field of struct S is changed by: a store to the same field of S; a store of a whole value that
//     contains S (element / pointer / field write whose type contains S); a store through a plain pointer of
//     the field's type (the field's address may have been taken).
//   - an element or pointer target is changed by any write whose type overlaps.
func writeKills(w writeDesc, p *apath) bool {
	hasField := false
	for _, s := range p.steps {
		if s.st == nil {
			continue
		}
		hasField = true
		if w.kind == 'f' && types.Identical(w.st, s.st) && w.field == s.field {
			return true
		}
		// the write replaces a whole value that contains this struct
		if typeContains(w.typ, s.st, 0) {
			return true
		}
	}
	if !hasField {
		return typesOverlap(w.typ, p.typ)
	}
	last, isField := p.lastField()
	_ = last
	if !isField {
		// element below a field (x.f[i]): element writes and pointer writes of overlapping type
		if w.kind != 'f' {
			return typesOverlap(w.typ, p.typ)
		}
		return typeContains(w.typ, p.typ, 0)
	}
	switch w.kind {
	case 'f':
		return false // a different field (same fields were handled above)
	case 'e':
		return false // slice/array elements are not struct fields unless the element type contains the struct (handled above)
	default:
		// through a plain pointer: could be the address of this very field
		return typesOverlap(w.typ, p.typ)
	}
}
