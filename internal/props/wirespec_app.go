package props

// Application-layer payloads: field widths from TS003-1.0.0 (clock sync), TS005-1.0.0 (remote multicast setup),
// TS004-1.0.0 (fragmented data block transport), TS006-1.0.0 (firmware management). Only widths are armed
// (C18 speaks of in-range values); gate fields select the variants with different encoded lengths.

const (
	pkCS = "applayer/clocksync"
	pkMC = "applayer/multicastsetup"
	pkFR = "applayer/fragmentation"
	pkFW = "applayer/firmwaremanagement"
)

func one(size int) []avariant { return []avariant{{Name: "v", Size: size}} }

var appSpecs = []aspec{
	// clock synchronisation
	{Pkg: pkCS, Type: "PackageVersionAnsPayload", Dir: "up", Variants: one(2)},
	{Pkg: pkCS, Type: "AppTimeReqPayload", Dir: "up", Widths: map[string]int{"Param.TokenReq": 4}, Variants: one(5)},
	{Pkg: pkCS, Type: "AppTimeAnsPayload", Dir: "down", Widths: map[string]int{"Param.TokenAns": 4}, Variants: one(5)},
	{Pkg: pkCS, Type: "DeviceAppTimePeriodicityReqPayload", Dir: "down", Widths: map[string]int{"Periodicity.Period": 4}, Variants: one(1)},
	{Pkg: pkCS, Type: "DeviceAppTimePeriodicityAnsPayload", Dir: "up", Variants: one(5)},
	{Pkg: pkCS, Type: "ForceDeviceResyncReqPayload", Dir: "down", Widths: map[string]int{"ForceConf.NbTransmissions": 3}, Variants: one(1)},
	// remote multicast setup
	{Pkg: pkMC, Type: "PackageVersionAnsPayload", Dir: "up", Variants: one(2)},
	{Pkg: pkMC, Type: "McGroupStatusReqPayload", Dir: "down", Variants: one(1)},
	{Pkg: pkMC, Type: "McGroupStatusAnsPayload", Dir: "up", Widths: map[string]int{"Status.NbTotalGroups": 3, "Items.McGroupID": 2}, Variants: []avariant{
		{Name: "mask0000", Size: 1, Fix: map[string]int64{"Status.AnsGroupMask[0]": 0, "Status.AnsGroupMask[1]": 0, "Status.AnsGroupMask[2]": 0, "Status.AnsGroupMask[3]": 0}},
		{Name: "mask0001", Size: 6, Lens: map[string]int{"Items": 1}, Fix: map[string]int64{"Status.AnsGroupMask[0]": 1, "Status.AnsGroupMask[1]": 0, "Status.AnsGroupMask[2]": 0, "Status.AnsGroupMask[3]": 0}},
		{Name: "mask1010", Size: 11, Lens: map[string]int{"Items": 2}, Fix: map[string]int64{"Status.AnsGroupMask[0]": 0, "Status.AnsGroupMask[1]": 1, "Status.AnsGroupMask[2]": 0, "Status.AnsGroupMask[3]": 1}},
		{Name: "mask1111", Size: 21, Lens: map[string]int{"Items": 4}, Fix: map[string]int64{"Status.AnsGroupMask[0]": 1, "Status.AnsGroupMask[1]": 1, "Status.AnsGroupMask[2]": 1, "Status.AnsGroupMask[3]": 1}},
	}},
	{Pkg: pkMC, Type: "McGroupSetupReqPayload", Dir: "down", Widths: map[string]int{"McGroupIDHeader.McGroupID": 2}, Variants: one(29)},
	{Pkg: pkMC, Type: "McGroupSetupAnsPayload", Dir: "up", Widths: map[string]int{"McGroupIDHeader.McGroupID": 2}, Variants: one(1)},
	{Pkg: pkMC, Type: "McGroupDeleteReqPayload", Dir: "down", Widths: map[string]int{"McGroupIDHeader.McGroupID": 2}, Variants: one(1)},
	{Pkg: pkMC, Type: "McGroupDeleteAnsPayload", Dir: "up", Widths: map[string]int{"McGroupIDHeader.McGroupID": 2}, Variants: one(1)},
	{Pkg: pkMC, Type: "McClassCSessionReqPayload", Dir: "down", Widths: map[string]int{"McGroupIDHeader.McGroupID": 2, "SessionTimeOut.TimeOut": 4}, Freq100: []string{"DLFrequency"}, Variants: one(10)},
	{Pkg: pkMC, Type: "McClassCSessionAnsPayload", Dir: "up", Widths: map[string]int{"StatusAndMcGroupID.McGroupID": 2, "TimeToStart": 24}, Variants: []avariant{
		{Name: "ok", Size: 4, NonNil: []string{"TimeToStart"}, Fix: map[string]int64{"StatusAndMcGroupID.McGroupUndefined": 0, "StatusAndMcGroupID.FreqError": 0, "StatusAndMcGroupID.DRError": 0}},
		{Name: "drerror", Size: 1, Fix: map[string]int64{"StatusAndMcGroupID.DRError": 1}},
		{Name: "freqerror", Size: 1, Fix: map[string]int64{"StatusAndMcGroupID.FreqError": 1}},
		{Name: "undefined", Size: 1, Fix: map[string]int64{"StatusAndMcGroupID.McGroupUndefined": 1}},
	}},
	{Pkg: pkMC, Type: "McClassBSessionReqPayload", Dir: "down", Widths: map[string]int{"McGroupIDHeader.McGroupID": 2, "TimeOutPeriodicity.TimeOut": 4, "TimeOutPeriodicity.Periodicity": 3}, Freq100: []string{"DLFrequency"}, Variants: one(10)},
	{Pkg: pkMC, Type: "McClassBSessionAnsPayload", Dir: "up", Widths: map[string]int{"StatusAndMcGroupID.McGroupID": 2, "TimeToStart": 24}, Variants: []avariant{
		{Name: "ok", Size: 4, NonNil: []string{"TimeToStart"}, Fix: map[string]int64{"StatusAndMcGroupID.McGroupUndefined": 0, "StatusAndMcGroupID.FreqError": 0, "StatusAndMcGroupID.DRError": 0}},
		{Name: "drerror", Size: 1, Fix: map[string]int64{"StatusAndMcGroupID.DRError": 1}},
		{Name: "freqerror", Size: 1, Fix: map[string]int64{"StatusAndMcGroupID.FreqError": 1}},
		{Name: "undefined", Size: 1, Fix: map[string]int64{"StatusAndMcGroupID.McGroupUndefined": 1}},
	}},
	// fragmentation
	{Pkg: pkFR, Type: "PackageVersionAnsPayload", Dir: "up", Variants: one(2)},
	{Pkg: pkFR, Type: "FragSessionSetupReqPayload", Dir: "down", Widths: map[string]int{"FragSession.FragIndex": 2, "Control.FragmentationMatrix": 3, "Control.BlockAckDelay": 3}, Variants: one(10)},
	{Pkg: pkFR, Type: "FragSessionSetupAnsPayload", Dir: "up", Widths: map[string]int{"StatusBitMask.FragIndex": 2}, Variants: one(1)},
	{Pkg: pkFR, Type: "FragSessionDeleteReqPayload", Dir: "down", Widths: map[string]int{"Param.FragIndex": 2}, Variants: one(1)},
	{Pkg: pkFR, Type: "FragSessionDeleteAnsPayload", Dir: "up", Widths: map[string]int{"Status.FragIndex": 2}, Variants: one(1)},
	{Pkg: pkFR, Type: "DataFragmentPayload", Dir: "down", Widths: map[string]int{"IndexAndN.FragIndex": 2, "IndexAndN.N": 14}, Variants: []avariant{
		{Name: "len0", Size: 2, NoStream: true}, {Name: "len3", Size: 5, Lens: map[string]int{"Payload": 3}, NoStream: true}}},
	{Pkg: pkFR, Type: "FragSessionStatusReqPayload", Dir: "down", Widths: map[string]int{"FragStatusReqParam.FragIndex": 2}, Variants: one(1)},
	{Pkg: pkFR, Type: "FragSessionStatusAnsPayload", Dir: "up", Widths: map[string]int{"ReceivedAndIndex.FragIndex": 2, "ReceivedAndIndex.NbFragReceived": 14}, Variants: one(4)},
	// firmware management
	{Pkg: pkFW, Type: "PackageVersionAnsPayload", Dir: "up", Variants: one(2)},
	{Pkg: pkFW, Type: "DevVersionReqPayload", Dir: "down", Variants: one(0), ExactLen: true},
	{Pkg: pkFW, Type: "DevVersionAnsPayload", Dir: "up", Variants: one(8)},
	{Pkg: pkFW, Type: "DevRebootTimeReqPayload", Dir: "down", Variants: one(4)},
	{Pkg: pkFW, Type: "DevRebootTimeAnsPayload", Dir: "up", Variants: one(4)},
	{Pkg: pkFW, Type: "DevRebootCountdownReqPayload", Dir: "down", Widths: map[string]int{"Countdown": 24}, Variants: one(3)},
	{Pkg: pkFW, Type: "DevRebootCountdownAnsPayload", Dir: "up", Widths: map[string]int{"Countdown": 24}, Variants: one(3)},
	{Pkg: pkFW, Type: "DevUpgradeImageReqPayload", Dir: "down", Variants: one(0), ExactLen: true},
	{Pkg: pkFW, Type: "DevUpgradeImageAnsPayload", Dir: "up", Variants: []avariant{
		{Name: "valid", Size: 5, NonNil: []string{"nextFirmwareVersion"}, Fix: map[string]int64{"Status.UpImageStatus": 3}},
		{Name: "notvalid", Size: 1, Where: map[string][2]int64{"Status.UpImageStatus": {0, 2}}},
	}},
	{Pkg: pkFW, Type: "DevDeleteImageReqPayload", Dir: "down", Variants: one(4)},
	{Pkg: pkFW, Type: "DevDeleteImageAnsPayload", Dir: "up", Widths: map[string]int{"Status.ErrorInvalidVersion": 1, "Status.ErrorNoValidImage": 1}, Variants: one(1)},
}
