package props

import (
	"fmt"
	"go/token"
	"os"
	"path/filepath"
	"strings"
	"sync"

	"golang.org/x/tools/go/packages"

	"lwverif/internal/core"
	"lwverif/internal/load"
)

// The effect rules mostly expect zero violations on the real tree. To show on every run that each
// matcher can fire, a miniature module with the same module path (so that the very same rule code
// runs unchanged) is written to a scratch directory, type-checked, analysed, and the verdicts are
// compared with what is known about it by construction: every key below must come out with the
// listed status. It contains the violating constructs (sub-slice stored, own slice returned,
// in-place append, cap() reslice, write in a validator, conditional / accumulating decoder
// assignments, shared band slice, unlocked registry access, missing unlock, stateful handler …)
// next to behaviour-preserving variants that must stay silent (append([]byte(nil), x...) as a
// copy, if/else assignment, fields assigned in another order, value-receiver writes).
// The fixture is analysed, never executed.

var fixtureFiles = map[string]string{
	"go.mod": "module github.com/brocaar/lorawan\n\ngo 1.17\n",
	"fix.go": `package lorawan

import "sync"

type fixErr struct{}

func (*fixErr) Error() string { return "x" }

// ---- R1 / R2
type Keep struct{ Bytes []byte }

func (k *Keep) UnmarshalBinary(data []byte) error { k.Bytes = data[1:]; return nil }
func (k Keep) MarshalBinary() ([]byte, error)     { return k.Bytes, nil }
func (k *Keep) DecodeInPlace()                    { k.Bytes[0] ^= 1 }

type Wrap struct{ K *Keep }

func (w *Wrap) UnmarshalBinary(data []byte) error {
	w.K = &Keep{}
	return w.K.UnmarshalBinary(data)
}

type Copy struct{ Bytes []byte }

func (k *Copy) UnmarshalBinary(data []byte) error {
	k.Bytes = append([]byte(nil), data...)
	return nil
}
func (k Copy) MarshalBinary() ([]byte, error) {
	out := make([]byte, len(k.Bytes))
	copy(out, k.Bytes)
	return out, nil
}

type Arr [4]byte

func (a Arr) Value() ([]byte, error) { return a[:], nil }
func (a *Arr) Bytes() []byte         { return a[:] }

// ---- R3
func Pad(data []byte) []byte { return append(data, 0) }
func Grow(data []byte) []byte {
	d := data[:cap(data)]
	d[len(d)-1] = 1
	return d
}
func Xor(data []byte) {
	for i := range data {
		data[i] ^= 1
	}
}

type Owner struct{ list []int }

func (o *Owner) Add(v int) { o.list = append(o.list, v) }

func UnmarshalThing(data []byte) { data[0] = 1 }

type RX struct{ v byte }

func (r *RX) UnmarshalBinary(data []byte) error {
	b := append(data, 0)
	r.v = b[1]
	return nil
}

// ---- R4
type Frame struct {
	MIC   [4]byte
	cache []byte
	P     *Keep
}

var counter int

func (f *Frame) ValidateMIC() bool            { f.cache = nil; return true }
func (f Frame) MarshalText() ([]byte, error)  { f.MIC[0] = 1; return []byte("x"), nil }
func (f Frame) Size() int                     { f.P.Bytes[0] = 1; return 1 }
func (f Frame) String() string                { counter++; return "" }
func (f *Frame) calculateMIC() [4]byte        { var m [4]byte; copy(m[:], f.MIC[:]); return m }

// ---- R5
type Flags struct {
	A, B bool
	N    uint8
	L    []int
	Arr  [4]bool
	Sub  struct{ X uint8 }
	K    [2]byte
}

func (p *Flags) UnmarshalBinary(data []byte) error {
	if len(data) < 2 {
		return &fixErr{}
	}
	if data[0]&1 != 0 {
		p.A = true
	}
	p.B = data[0]&2 != 0
	p.N += data[1]
	p.L = append(p.L, int(data[1]))
	for i := range p.Arr {
		if data[0]&(1<<uint(i)) != 0 {
			p.Arr[i] = true
		}
	}
	p.Sub.X = data[1]
	copy(p.K[:], data[1:])
	return nil
}

type Good struct {
	Arr [4]bool
	A   bool
	K   [2]byte
	L   []int
	M   [3]byte
	In  Inner
}

type Inner struct{ V uint8 }

func (i *Inner) UnmarshalBinary(data []byte) error {
	if len(data) != 1 {
		return &fixErr{}
	}
	i.V = data[0]
	return nil
}

func (p *Good) UnmarshalBinary(data []byte) error {
	if len(data) != 3 {
		return &fixErr{}
	}
	if err := p.In.UnmarshalBinary(data[2:3]); err != nil {
		return err
	}
	p.L = nil
	p.L = append(p.L, int(data[1]))
	copy(p.K[:], data[0:2])
	for i, v := range data {
		p.M[len(p.M)-1-i] = v
	}
	if data[0] > 3 {
		p.A = true
	} else {
		p.A = false
	}
	for i := range p.Arr {
		p.Arr[i] = data[0]&(1<<uint(i)) != 0
	}
	return nil
}

// Good2: same decoder written differently (fields in another order, if/else inside the loop,
// whole-value store) - must stay silent.
type Good2 struct {
	Arr [4]bool
	A   bool
	N   uint8
	L   []int
}

func (p *Good2) UnmarshalBinary(data []byte) error {
	if len(data) < 2 {
		return &fixErr{}
	}
	*p = Good2{N: data[1]}
	for i := 0; i < 4; i++ {
		if data[0]&(1<<uint(i)) != 0 {
			p.Arr[i] = true
		} else {
			p.Arr[i] = false
		}
	}
	p.L = append(p.L[:0], int(data[0]))
	switch data[1] {
	case 0:
		p.A = false
	default:
		p.A = true
	}
	return nil
}

// Half: an if/else in the loop of which one arm forgets the store.
type Half struct{ Arr [4]bool }

func (p *Half) UnmarshalBinary(data []byte) error {
	if len(data) < 1 {
		return &fixErr{}
	}
	for i := 0; i < 4; i++ {
		if data[0]&(1<<uint(i)) != 0 {
			p.Arr[i] = true
		} else if data[0] == 0xff {
			p.Arr[i] = false
		}
	}
	return nil
}

// Fill helpers: a hand-written copy loop called with the whole array as destination.
func revCopy(dst, src []byte) {
	for i, j := 0, len(src)-1; j >= 0; i, j = i+1, j-1 {
		dst[i] = src[j]
	}
}

// revCopyShort stops one element early.
func revCopyShort(dst, src []byte) {
	for i, j := 0, len(src)-1; j >= 1; i, j = i+1, j-1 {
		dst[i] = src[j]
	}
}

// mixCopy folds the previous content of dst into what it stores.
func mixCopy(dst, src []byte) {
	for i := 0; i < len(src); i++ {
		dst[i] ^= src[i]
	}
}

// condCopy skips elements.
func condCopy(dst, src []byte) {
	for i := 0; i < len(src); i++ {
		if src[i] != 0 {
			dst[i] = src[i]
		}
	}
}

// two helper calls that together fill the array / leave one element out
func fillBools(b byte, f []bool) {
	for i := range f {
		f[i] = b>>uint(i)&1 == 1
	}
}

type Mask struct{ M [16]bool }

func (p *Mask) UnmarshalBinary(d []byte) error {
	if len(d) != 2 {
		return &fixErr{}
	}
	fillBools(d[0], p.M[:8])
	fillBools(d[1], p.M[8:])
	return nil
}

type GapMask struct{ M [16]bool }

func (p *GapMask) UnmarshalBinary(d []byte) error {
	if len(d) != 2 {
		return &fixErr{}
	}
	fillBools(d[0], p.M[:8])
	fillBools(d[1], p.M[9:])
	return nil
}

// store under err == nil, then hand back err itself
type Lazy struct{ V [2]byte }

func checkLen2(d []byte) error {
	if len(d) != 2 {
		return &fixErr{}
	}
	return nil
}
func (p *Lazy) UnmarshalBinary(d []byte) error {
	err := checkLen2(d)
	if err == nil {
		copy(p.V[:], d)
	}
	return err
}

type Filled struct{ A, B, C, D, E [4]byte }

func (p *Filled) UnmarshalBinary(data []byte) error {
	if len(data) != 20 {
		return &fixErr{}
	}
	revCopy(p.A[:], data[0:4])
	revCopyShort(p.B[:], data[4:8])
	mixCopy(p.C[:], data[8:12])
	condCopy(p.D[:], data[12:16])
	revCopy(p.E[:], data[16:19])
	return nil
}

// ---- R7 / registry
type CID byte

var macPayloadMutex sync.RWMutex
var macPayloadRegistry = map[bool]map[CID]int{true: {}, false: {}}

func RegisterProprietaryMACCommand(uplink bool, cid CID, size int) error {
	macPayloadRegistry[true][cid] = size
	return nil
}

func sneaky(cid CID) { macPayloadRegistry[false][cid] = 1 }

var regMu sync.RWMutex
var reg = map[bool]map[byte]int{true: {}, false: {}}

func Get(up bool, c byte) int { return reg[up][c] }
func Put(up bool, c byte, n int) {
	regMu.Lock()
	if n == 0 {
		return
	}
	reg[up][c] = n
	regMu.Unlock()
}

var okMu sync.RWMutex
var okReg = map[byte]int{}

func GetOK(c byte) int { okMu.RLock(); defer okMu.RUnlock(); return okReg[c] }
func PutOK(c byte, n int) {
	okMu.Lock()
	okReg[c] = n
	okMu.Unlock()
}
func PutDeferLit(c byte, n int) {
	okMu.Lock()
	defer func() { okMu.Unlock() }()
	if n == 0 {
		return
	}
	okReg[c] = n
}

// lazily built tables
var sqOnce sync.Once
var sqTab *[16]int

func squares() *[16]int {
	sqOnce.Do(func() {
		t := new([16]int)
		for i := range t {
			t[i] = i * i
		}
		sqTab = t
	})
	return sqTab
}
func Square(i int) int { return squares()[i&15] }

// earlyTab: one reader does not wait for Do
var earlyOnce sync.Once
var earlyTab *[4]int

func early() *[4]int {
	earlyOnce.Do(func() { earlyTab = &[4]int{1, 2, 3, 4} })
	return earlyTab
}
func EarlyOK(i int) int { return early()[i&3] }
func EarlyRacy(i int) int {
	if earlyTab != nil {
		return earlyTab[i&3]
	}
	return early()[i&3]
}

// pooled scratch memory
type scratch struct{ a, s [16]byte }

var scratchPool = sync.Pool{New: func() interface{} { return new(scratch) }}

type Holder struct{ last *scratch }

func PoolOK(x byte) byte {
	sc := scratchPool.Get().(*scratch)
	*sc = scratch{}
	sc.a[0] = x
	r := sc.a[0] ^ sc.s[1]
	scratchPool.Put(sc)
	return r
}
func PoolDeferOK(x byte) byte {
	sc := scratchPool.Get().(*scratch)
	defer scratchPool.Put(sc)
	*sc = scratch{}
	sc.a[0] = x
	return sc.a[0]
}
func PoolUseAfterPut(x byte) byte {
	sc := scratchPool.Get().(*scratch)
	*sc = scratch{}
	scratchPool.Put(sc)
	sc.a[0] = x
	return sc.a[0]
}
func (h *Holder) PoolKept(x byte) {
	sc := scratchPool.Get().(*scratch)
	*sc = scratch{}
	h.last = sc
	scratchPool.Put(sc)
}
func PoolReturned() []byte {
	sc := scratchPool.Get().(*scratch)
	defer scratchPool.Put(sc)
	return sc.a[:]
}
func PoolForeign(b *scratch) { scratchPool.Put(b) }

// firstArg: what is stored depends on the first caller's argument (the literal captures it)
var firstOnce sync.Once
var firstVal int

func First(n int) int {
	firstOnce.Do(func() { firstVal = n })
	return firstVal
}
`,
	"band/band.go": `package band

type Channel struct {
	F       int
	enabled bool
}

type Band interface{ N() int }

type band struct{ up []Channel }

func (b *band) N() int { return len(b.up) }

func (b *band) Disable(i int) {
	if i >= 0 && i < len(b.up) {
		b.up[i].enabled = false
	}
}

var shared = []Channel{{1, true}}

func newSharedBand() (Band, error) { return &band{up: shared}, nil }
func newFreshBand() (Band, error)  { return &band{up: []Channel{{1, true}}}, nil }

var table = map[int]int{}

func (b *band) Touch() { table[1] = 2 }
`,
	"backend/joinserver/js.go": `package joinserver

type handler struct{ n int }

var cache = map[string]int{}

func (h *handler) ServeHTTP(k string) { h.n++; store(k) }
func store(k string)                  { cache[k] = 1 }

type pure struct{ cfg int }

func (h *pure) ServeHTTP(k string) int { return h.cfg + len(k) }
`,
}

var (
	fixtureOnce sync.Once
	fixtureProg *load.Program
	fixtureErr  error
)

// loadFixture writes the miniature module to a scratch directory, loads it, and removes it.
func loadFixture() (*load.Program, error) {
	fixtureOnce.Do(func() {
		dir, err := os.MkdirTemp("", "lwfixture")
		if err != nil {
			fixtureErr = err
			return
		}
		defer os.RemoveAll(dir)
		for name, src := range fixtureFiles {
			p := filepath.Join(dir, name)
			if err := os.MkdirAll(filepath.Dir(p), 0o755); err != nil {
				fixtureErr = err
				return
			}
			if err := os.WriteFile(p, []byte(src), 0o644); err != nil {
				fixtureErr = err
				return
			}
		}
		env := []string{}
		for _, e := range os.Environ() {
			if strings.HasPrefix(e, "GOWORK=") || strings.HasPrefix(e, "GOFLAGS=") || strings.HasPrefix(e, "GOARCH=") {
				continue
			}
			env = append(env, e)
		}
		env = append(env, "GOFLAGS=-mod=mod", "GOPROXY=off", "GOSUMDB=off", "GOTOOLCHAIN=local", "GOWORK=off", "CGO_ENABLED=0")
		fset := token.NewFileSet()
		pkgs, err := packages.Load(&packages.Config{Mode: packages.LoadAllSyntax, Dir: dir, Fset: fset, Env: env}, "./...")
		if err != nil {
			fixtureErr = err
			return
		}
		p := &load.Program{Dir: dir, Fset: fset, Pkgs: map[string]*packages.Package{}, All: pkgs}
		for _, pk := range pkgs {
			for _, e := range pk.Errors {
				fixtureErr = fmt.Errorf("fixture does not type-check: %v", e)
				return
			}
			p.Pkgs[pk.PkgPath] = pk
		}
		p.BuildSSA()
		// force everything that needs the files while they exist
		effectsFor(p)
		fixtureProg = p
	})
	return fixtureProg, fixtureErr
}

type fixtureWant struct {
	key    string // full obligation key in the scratch run
	status core.Status
}

// runFixture executes rules(ctx) on the miniature module and reports, in the real run, one
// obligation per expectation: discharged when the scratch verdict is as constructed, undecided
// (machinery error, never a violation of /repo) otherwise.
func runFixture(c *Ctx, rule string, rules func(fc *Ctx), wants []fixtureWant) {
	r := c.Run
	r.Rule(rule, "self-check: on a miniature module with known defects every matcher fires where constructed and stays silent on the behaviour-preserving variants")
	p, err := loadFixture()
	if err != nil {
		r.Unknown(rule, "load", "", "fixture module loads", err.Error())
		return
	}
	scratch := core.NewRun(c.Run.Prop, "fixture")
	rules(&Ctx{Prog: p, Run: scratch, VerifDir: c.VerifDir, Tier: c.Tier})
	got := map[string]core.Status{}
	why := map[string]string{}
	for _, o := range scratch.Obls {
		got[o.Key] = o.Status
		why[o.Key] = o.Got
	}
	if os.Getenv("LW_FIXTURE_DEBUG") != "" {
		for _, o := range scratch.Obls {
			fmt.Printf("fixture: %s %s :: %s\n", o.Status, o.Key, o.Got)
		}
	}
	for _, w := range wants {
		k := c.Run.Prop + "-" + w.key
		st, ok := got[k]
		switch {
		case !ok:
			r.Unknown(rule, w.key, "", "fixture verdict "+w.status.String(), "no such obligation produced on the fixture")
		case st != w.status:
			r.Unknown(rule, w.key, "", "fixture verdict "+w.status.String(), "matcher gave "+st.String()+" on the fixture (machinery error): "+why[k])
		default:
			r.OK(rule, w.key, "", "fixture verdict "+w.status.String(), "as constructed", w.status == core.Violated)
		}
	}
}

const (
	fxBad = core.Violated
	fxOK  = core.Discharged
)

func c10Fixture(c *Ctx) {
	runFixture(c, "R0.fixture", func(fc *Ctx) {
		info := effectsFor(fc.Prog)
		c10R1(fc, info)
		c10R2(fc, info)
		c10R3(fc, info)
		c10R4(fc, info)
		c10R5(fc, info)
		c10R6(fc, info)
		c10R7(fc, info)
	}, []fixtureWant{
		{"R1.noretain|lorawan.Keep.UnmarshalBinary/data", fxBad},
		{"R1.noretain|lorawan.Wrap.UnmarshalBinary/data", fxBad},
		{"R1.noretain|lorawan.Copy.UnmarshalBinary/data", fxOK},
		{"R1.noretain|lorawan.RX.UnmarshalBinary/data", fxOK},
		{"R2.noleak|lorawan.Keep.MarshalBinary/result0", fxBad},
		{"R2.noleak|lorawan.Copy.MarshalBinary/result0", fxOK},
		{"R2.noleak|lorawan.Arr.Value/result0", fxOK},
		{"R2.noleak|lorawan.Arr.Bytes/result0", fxBad},
		{"R3.append|lorawan.Pad", fxBad},
		{"R3.append|lorawan.RX.UnmarshalBinary", fxBad},
		{"R3.append|lorawan.Owner.Add", fxOK},
		{"R3.append|lorawan.Xor", fxOK},
		{"R3.within|lorawan.Grow/data", fxBad},
		{"R3.within|lorawan.Xor/data", fxOK},
		{"R4.readonly|lorawan.Frame.ValidateMIC", fxBad},
		{"R4.readonly|lorawan.Frame.Size", fxBad},
		{"R4.readonly|lorawan.Frame.String", fxBad},
		{"R4.readonly|lorawan.Frame.MarshalText", fxOK},
		{"R4.readonly|lorawan.Frame.calculateMIC", fxOK},
		{"R5.overwrite|lorawan.Flags.UnmarshalBinary/A", fxBad},
		{"R5.overwrite|lorawan.Flags.UnmarshalBinary/B", fxOK},
		{"R5.overwrite|lorawan.Flags.UnmarshalBinary/N", fxBad},
		{"R5.overwrite|lorawan.Flags.UnmarshalBinary/L", fxBad},
		{"R5.overwrite|lorawan.Flags.UnmarshalBinary/Arr", fxBad},
		{"R5.overwrite|lorawan.Flags.UnmarshalBinary/Sub.X", fxOK},
		{"R5.overwrite|lorawan.Flags.UnmarshalBinary/K", fxBad},
		{"R5.overwrite|lorawan.Good.UnmarshalBinary/Arr", fxOK},
		{"R5.overwrite|lorawan.Good.UnmarshalBinary/A", fxOK},
		{"R5.overwrite|lorawan.Good.UnmarshalBinary/K", fxOK},
		{"R5.overwrite|lorawan.Good.UnmarshalBinary/L", fxOK},
		{"R5.overwrite|lorawan.Good.UnmarshalBinary/M", fxOK},
		{"R5.overwrite|lorawan.Good.UnmarshalBinary/In.V", fxOK},
		{"R5.overwrite|lorawan.Good2.UnmarshalBinary/Arr", fxOK},
		{"R5.overwrite|lorawan.Good2.UnmarshalBinary/A", fxOK},
		{"R5.overwrite|lorawan.Good2.UnmarshalBinary/N", fxOK},
		{"R5.overwrite|lorawan.Good2.UnmarshalBinary/L", fxOK},
		{"R5.overwrite|lorawan.Half.UnmarshalBinary/Arr", fxBad},
		{"R5.overwrite|lorawan.Lazy.UnmarshalBinary/V", fxOK},
		{"R5.overwrite|lorawan.Mask.UnmarshalBinary/M", fxOK},
		{"R5.overwrite|lorawan.GapMask.UnmarshalBinary/M", fxBad},
		{"R5.overwrite|lorawan.Filled.UnmarshalBinary/A", fxOK},
		{"R5.overwrite|lorawan.Filled.UnmarshalBinary/B", fxBad},
		{"R5.overwrite|lorawan.Filled.UnmarshalBinary/C", fxBad},
		{"R5.overwrite|lorawan.Filled.UnmarshalBinary/D", fxBad},
		{"R5.overwrite|lorawan.Filled.UnmarshalBinary/E", fxBad},
		{"R6.freshband|band.newSharedBand", fxBad},
		{"R6.freshband|band.newFreshBand", fxOK},
		{"R6.bandglobals|band.table", fxBad},
		{"R6.bandglobals|band.shared", fxOK},
		{"R7.globals|lorawan.reg", fxBad},
		{"R7.globals|lorawan.okReg", fxOK},
		{"R7.globals|lorawan.counter", fxBad},
		{"R7.globals|lorawan.regMu", fxOK},
		{"R7.globals|lorawan.sqTab", fxOK},
		{"R7.globals|lorawan.scratchPool", fxOK},
		{"R7.pool|lorawan.PoolOK/Put#1", fxOK},
		{"R7.pool|lorawan.PoolDeferOK/Put#1", fxOK},
		{"R7.pool|lorawan.PoolUseAfterPut/Put#1", fxBad},
		{"R7.pool|lorawan.Holder.PoolKept/Put#1", fxBad},
		{"R7.pool|lorawan.PoolReturned/Put#1", fxBad},
		{"R7.pool|lorawan.PoolForeign/Put#1", fxBad},
		{"R7.globals|lorawan.earlyTab", fxBad},
		{"R7.globals|lorawan.firstVal", fxBad},
		{"R7.lock|lorawan.reg@lorawan.Get/lookup reg", fxBad},
		{"R7.lock|lorawan.reg@lorawan.Put/map update reg[…]", fxOK},
		{"R7.lock|lorawan.okReg@lorawan.GetOK/lookup okReg", fxOK},
		{"R7.unlock|lorawan.Put/G:regMu", fxBad},
		{"R7.unlock|lorawan.PutOK/G:okMu", fxOK},
		{"R7.unlock|lorawan.GetOK/G:okMu", fxOK},
		{"R7.unlock|lorawan.PutDeferLit/G:okMu", fxOK},
		{"R7.lock|lorawan.okReg@lorawan.PutDeferLit/map update okReg", fxOK},
	})
}

// e4Fixture is the self-check of the three reusable rules.
func e4Fixture(c *Ctx, rule string) {
	runFixture(c, rule, func(fc *Ctx) {
		ruleNoInputWrite(fc, "noinputwrite", nil)
		ruleRegistryWriters(fc, "registrywriters")
		ruleStateless(fc, "stateless", fc.Prog.SSAFunc("backend/joinserver", "handler.ServeHTTP"))
		ruleStateless(fc, "stateless", fc.Prog.SSAFunc("backend/joinserver", "pure.ServeHTTP"))
	}, []fixtureWant{
		{"noinputwrite|lorawan.UnmarshalThing/data", fxBad},
		{"noinputwrite|lorawan.RX.UnmarshalBinary/data", fxBad},
		{"noinputwrite|lorawan.Keep.UnmarshalBinary/data", fxOK},
		{"noinputwrite|lorawan.Copy.UnmarshalBinary/data", fxOK},
		{"noinputwrite|lorawan.Keep.DecodeInPlace/receiver-held-bytes", fxBad},
		{"noinputwrite|lorawan.Good.UnmarshalBinary/receiver-held-bytes", fxOK},
		{"registrywriters|writers/lorawan.RegisterProprietaryMACCommand", fxOK},
		{"registrywriters|writers/lorawan.sneaky", fxBad},
		{"registrywriters|direction", fxBad},
		{"registrywriters|cid-range", fxBad},
		{"registrywriters|lock", fxBad},
		{"stateless|backend/joinserver.handler.ServeHTTP/receiver", fxBad},
		{"stateless|backend/joinserver.handler.ServeHTTP/globals", fxBad},
		{"stateless|backend/joinserver.pure.ServeHTTP/receiver", fxOK},
		{"stateless|backend/joinserver.pure.ServeHTTP/globals", fxOK},
	})
}
