package props

// c10Fixture analyses a small in-process Go package in which every zero-expected matcher of the
// effect rules must fire (filled in below).
func c10Fixture(c *Ctx) {}
