package props

import (
	"fmt"
	"os"
	"sort"
	"strings"
	"sync"

	"golang.org/x/tools/go/ssa"

	"lwverif/internal/guards"
	"lwverif/internal/load"
)

var (
	engMu    sync.Mutex
	engs     = map[*load.Program]*guards.Engine{}
	engOrder []*load.Program
)

// guardsEngine builds E3 once per loaded program (the self-test tier loads one program per seeded variant).
func guardsEngine(P *load.Program) *guards.Engine {
	engMu.Lock()
	defer engMu.Unlock()
	if e, ok := engs[P]; ok {
		return e
	}
	// keep the engines of the two most recent programs only (repository + fixture, or one seeded variant at a time)
	if len(engOrder) >= 2 {
		delete(engs, engOrder[0])
		engOrder = engOrder[1:]
	}
	e := guards.NewEngine(P.SSA, P.CallGraph(), load.InModule, P.GOARCH)
	engs[P] = e
	engOrder = append(engOrder, P)
	return e
}

func guardFnName(f *ssa.Function) string {
	return guards.PkgRel(f, load.ModPath) + "." + guards.FuncShort(f)
}

func guardOblKey(o *guards.Obl) string {
	expr := o.Expr
	if expr == "" {
		expr = "?"
	}
	return fmt.Sprintf("%s/%s %s", guardFnName(o.Fn), o.Kind, expr)
}

var guardsAssumptions = []string{
	"the Go toolchain's type checker, go/ssa construction and the VTA call graph are correct",
	"A1: arithmetic in int/int64/uint64 on lengths, indices and small constants does not overflow (narrower types are modelled with wrap-around)",
	"A2: an interface value that passes a type assertion / carries a receiver does not hold a typed nil pointer",
	"A3: String/Error methods called by fmt/log verbs are side-effect free and total",
	"A4: receivers and pointer parameters of the root functions are non-nil; input slices and interface parameters are arbitrary",
	"A5: interface elements of payload slices ([]Payload) are non-nil (true for every frame a decoder produced)",
	"slice expressions are required to stay within len (stronger than Go's cap bound)",
}

// guardsOpts configures one run of the E3 obligations over a set of roots.
type guardsOpts struct {
	rule         func(kind string) string    // obligation kind -> rule id ("" = do not report this kind)
	loopRule     string                      // rule id for loop progress ("" = skip loops)
	nest         bool                        // also require constant bounds for loops nested in loops (linear time)
	excludedLoop func(guards.LoopRes) string // non-empty: the loop is excluded from the progress claim for this reason
	excluded     map[string]string           // obligation key -> reason: failing obligations with this key are excluded from the claim (note), not reported
	only         func(f *ssa.Function) bool
	rootsCat     string
}

// runGuards enumerates and reports the E3 obligations of every function reachable from roots.
func runGuards(c *Ctx, roots []*ssa.Function, o guardsOpts) (scope []*ssa.Function) {
	r := c.Run
	P := c.Prog
	E := guardsEngine(P)
	for _, f := range roots {
		E.Roots[f] = true
		r.Saw(o.rootsCat, guardFnName(f))
	}
	for _, f := range E.Reachable(roots) {
		if f.Synthetic != "" || f.Blocks == nil {
			continue
		}
		scope = append(scope, f)
		r.Saw("reachable module functions", guardFnName(f))
	}
	E.SolveParamNil(scope)
	ncalls := 0
	for _, f := range scope {
		if o.only != nil && !o.only(f) {
			continue
		}
		for _, b := range f.Blocks {
			for _, ins := range b.Instrs {
				if call, ok := ins.(ssa.CallInstruction); ok {
					if _, isB := call.Common().Value.(*ssa.Builtin); isB {
						continue
					}
					var names []string
					for _, cal := range E.Callees(call) {
						names = append(names, cal.String())
					}
					ncalls++
					if len(names) > 3 {
						names = append(names[:3], fmt.Sprintf("… (%d callees)", len(names)))
					}
					r.Saw("call sites", fmt.Sprintf("%s @%s -> %s", guardFnName(f), P.Rel(call.Pos()), strings.Join(names, ", ")))
				}
			}
		}
		for _, ob := range E.Obligations(f) {
			rule := o.rule(ob.Kind)
			if rule == "" {
				continue
			}
			key := guardOblKey(ob)
			pos := P.Rel(ob.Pos())
			switch ob.Status {
			case guards.Proved:
				r.OK(rule, key, pos, ob.Want, ob.Why, ob.Nontrivial)
			case guards.Failed:
				if why, ok := o.excluded[key]; ok {
					r.Note("EXCLUDED from the claim (not analysed): %s at %s — %s", key, pos, why)
					r.Saw("excluded obligations", key)
					continue
				}
				r.Bad(rule, key, pos, ob.Want, ob.Why)
			default:
				r.Unknown(rule, key, pos, ob.Want, ob.Why)
			}
		}
		if o.loopRule == "" {
			continue
		}
		for _, lp := range E.LoopProgress(f) {
			key := fmt.Sprintf("%s/loop %s", guardFnName(f), lp.Desc)
			want := "index advances by >= 1 on every back edge towards a loop-invariant bound tested on every iteration"
			switch lp.Status {
			case guards.Proved:
				r.OK(o.loopRule, key, P.Rel(lp.Pos), want, lp.Why, true)
				if !o.nest {
					continue
				}
				if lp.Depth > 1 && lp.InputBound {
					r.Bad(o.loopRule+".nest", key, P.Rel(lp.Pos), "a loop nested in another loop has a constant bound (linear time)", lp.Why)
				} else if lp.Depth > 1 {
					r.OK(o.loopRule+".nest", key, P.Rel(lp.Pos), "a loop nested in another loop has a constant bound (linear time)", lp.Why, false)
				}
			case guards.Failed:
				if why, ok := o.excluded[key]; ok {
					r.Note("EXCLUDED from the claim (not analysed): %s — %s", key, why)
					continue
				}
				if o.excludedLoop != nil {
					if why := o.excludedLoop(lp); why != "" {
						r.Note("EXCLUDED from the claim (not analysed): %s — %s", key, why)
						continue
					}
				}
				r.Bad(o.loopRule, key, P.Rel(lp.Pos), want, lp.Why)
			default:
				if why, ok := o.excluded[key]; ok {
					r.Note("EXCLUDED from the claim (not analysed): %s — %s", key, why)
					continue
				}
				if o.excludedLoop != nil {
					if why := o.excludedLoop(lp); why != "" {
						r.Note("EXCLUDED from the claim (not analysed): %s — %s", key, why)
						continue
					}
				}
				r.Unknown(o.loopRule, key, P.Rel(lp.Pos), "recognised loop shape", lp.Why)
			}
		}
	}
	var us []guards.ExternUse
	us = append(us, E.ExternUses()...)
	sort.Slice(us, func(i, j int) bool { return us[i].Name < us[j].Name })
	for _, u := range us {
		r.Saw("extern callees ("+u.Class+")", fmt.Sprintf("%s ×%d — %s", u.Name, u.Sites, u.Reason))
	}
	return scope
}

// guardRootsFromEnv: LWROOTS="applayer/fragmentation:Encode,band:band.AddChannel" (debugging dumps only).
func guardRootsFromEnv(P *load.Program) []*ssa.Function {
	var out []*ssa.Function
	for _, it := range strings.Split(os.Getenv("LWROOTS"), ",") {
		it = strings.TrimSpace(it)
		if it == "" {
			continue
		}
		rel, name := "", it
		if i := strings.Index(it, ":"); i >= 0 {
			rel, name = it[:i], it[i+1:]
		}
		if f := P.SSAFunc(rel, name); f != nil {
			out = append(out, f)
		}
	}
	return out
}

// guardsSelfTest runs the positive fixtures of E3 (every matcher can fire, the supported idioms still prove).
func guardsSelfTest(c *Ctx, rule string) {
	problems, n := guards.SelfTest()
	c.Run.Rule(rule, "E3 positive fixtures: every bad_* fixture yields a failed obligation of its kind, every ok_* fixture is fully discharged")
	if len(problems) == 0 && n >= 30 {
		c.Run.OK(rule, "fixtures", "internal/guards/selftest.go", "fixture expectations hold", fmt.Sprintf("%d fixture functions analysed", n), false)
		return
	}
	if n < 30 {
		problems = append(problems, fmt.Sprintf("only %d fixture functions analysed", n))
	}
	for _, p := range problems {
		c.Run.Unknown(rule, "fixtures", "internal/guards/selftest.go", "fixture expectations hold", p)
	}
}
