package props

import (
	"sort"

	"golang.org/x/tools/go/ssa"
)

type ssaCallCommon = ssa.CallCommon

// ssaCallees returns the full names of the statically resolved callees of a function.
func ssaCallees(c *Ctx, rel, name string) map[string]bool {
	fn := c.Prog.SSAFunc(rel, name)
	if fn == nil {
		return nil
	}
	out := map[string]bool{}
	for _, b := range fn.Blocks {
		for _, ins := range b.Instrs {
			if call, ok := ins.(ssa.CallInstruction); ok {
				if callee := call.Common().StaticCallee(); callee != nil {
					out[callee.String()] = true
				}
			}
		}
	}
	return out
}

func keysOfBool(m map[string]bool) []string {
	var ks []string
	for k := range m {
		ks = append(ks, k)
	}
	sort.Strings(ks)
	return ks
}
