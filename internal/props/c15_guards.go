package props

import (
	"fmt"
	"go/token"
	"go/types"
	"regexp"
	"sort"
	"strings"

	"golang.org/x/tools/go/ssa"

	"lwverif/internal/guards"
	"lwverif/internal/tables"
)

// c15Guards implements the E3/E4-flavoured clauses of C15 (DESIGN §3 C15) on the SSA of package band:
//
//	R1 SIGNED-INDEX   channel accessors, enable/disable, GetTXPowerOffset guard their signed index on both sides
//	R2 WHO-WRITES     outside the constructors the only stores into Channel elements of the channel tables are
//	                  `.enabled` in Enable/DisableUplinkChannelIndex; AddChannel appends one value with custom:true
//	                  to both tables; the tables never escape
//	R3 COMPLEMENT     enabled/disabled and standard/custom index functions range over the same table with
//	                  complementary predicates on one field
//	R5 CFLIST-MASKS   (E2 constant evaluation per configuration) the channel-mask CFList has ceil(n/16) masks and
//	                  bit i%16 of mask i/16 is channel i's enabled flag
//	R6 LOOKUP-SEARCH  GetUplinkChannelIndexForFrequencyDR leaves its candidate loop early only on success or on a
//	                  propagated callee error (a data-dependent fresh error would skip remaining candidates)
//
// It does not register a property; c15.go calls it.
func c15Guards(c *Ctx) {
	// the shape rules below recognise particular ways of writing the accessors; the clauses themselves are decided on
	// the real band object by the R8 rules (c15_e1.go), so an unrecognised shape is a note, a refutation still counts
	c.Run.Advisory("R1.signedindex", "R8.index")
	c.Run.Advisory("R3.complement", "R8.partition")
	c.Run.Advisory("R6.lookupsearch", "R8.lookup")
	c15SignedIndex(c)
	c15WhoWrites(c)
	c15Complement(c)
	c15LookupSearch(c)
	// R5 (CFList masks) is decided in c15.go (c15CFList) with the E2 evaluator.
	c15QueriesPure(c)
}

var c15IndexMethods = map[string]bool{
	"GetUplinkChannel": true, "GetDownlinkChannel": true, "EnableUplinkChannelIndex": true,
	"DisableUplinkChannelIndex": true, "GetTXPowerOffset": true,
}

func c15SignedIndex(c *Ctx) {
	c.Run.Rule("R1.signedindex", "GetUplinkChannel/GetDownlinkChannel/Enable-/DisableUplinkChannelIndex/GetTXPowerOffset test their signed index parameter against 0 and against the table length before indexing")
	seen := map[string]bool{}
	signedIndexRule(c, "R1.signedindex", "band", func(recv, meth string) bool {
		if c15IndexMethods[meth] {
			seen[meth] = true
			return true
		}
		return false
	})
	var missing []string
	for m := range c15IndexMethods {
		if !seen[m] {
			missing = append(missing, m)
		}
	}
	sort.Strings(missing)
	for _, m := range missing {
		c.Run.Unknown("R1.signedindex", "band."+m, "", "anchor method exists", "method not found in package band")
	}
}

// ---------------------------------------------------------------------------
// R2 WHO-WRITES

var c15CtorRe = regexp.MustCompile(`^new[A-Za-z0-9]*Band$`)

func c15BandFunctions(c *Ctx) []*ssa.Function {
	P := c.Prog
	sp := P.SSAPkg("band")
	if sp == nil {
		return nil
	}
	var fns []*ssa.Function
	seen := map[*ssa.Function]bool{}
	add := func(f *ssa.Function) {
		if f != nil && f.Blocks != nil && f.Synthetic == "" && !seen[f] {
			seen[f] = true
			fns = append(fns, f)
			for _, an := range f.AnonFuncs {
				if !seen[an] {
					seen[an] = true
					fns = append(fns, an)
				}
			}
		}
	}
	for _, m := range sp.Members {
		switch x := m.(type) {
		case *ssa.Function:
			add(x)
		case *ssa.Type:
			for _, T := range []types.Type{x.Type(), types.NewPointer(x.Type())} {
				ms := P.SSA.MethodSets.MethodSet(T)
				for i := 0; i < ms.Len(); i++ {
					if fn := P.SSA.MethodValue(ms.At(i)); fn != nil && fn.Pkg == sp {
						add(fn)
					}
				}
			}
		}
	}
	sort.Slice(fns, func(i, j int) bool { return fns[i].String() < fns[j].String() })
	return fns
}

func c15IsChannelType(t types.Type) bool {
	n, ok := t.(*types.Named)
	return ok && n.Obj().Name() == "Channel" && n.Obj().Pkg() != nil && strings.HasSuffix(n.Obj().Pkg().Path(), "/band")
}

func c15IsChannelSlice(t types.Type) bool {
	sl, ok := t.Underlying().(*types.Slice)
	return ok && c15IsChannelType(sl.Elem())
}

// c15TableFieldOf: v is a load of a []Channel field of the band struct; returns the field name.
func c15TableFieldOf(v ssa.Value) (string, bool) {
	ld, ok := v.(*ssa.UnOp)
	if !ok || ld.Op != token.MUL {
		return "", false
	}
	fa, ok := ld.X.(*ssa.FieldAddr)
	if !ok || !c15IsChannelSlice(ld.Type()) {
		return "", false
	}
	st, ok := fa.X.Type().Underlying().(*types.Pointer).Elem().Underlying().(*types.Struct)
	if !ok {
		return "", false
	}
	return st.Field(fa.Field).Name(), true
}

func c15ChannelFieldName(fa *ssa.FieldAddr) string {
	st := fa.X.Type().Underlying().(*types.Pointer).Elem().Underlying().(*types.Struct)
	return st.Field(fa.Field).Name()
}

func c15WhoWrites(c *Ctx) {
	r := c.Run
	P := c.Prog
	r.Rule("R2.whowrites", "outside new*Band the channel tables are only written by Enable/DisableUplinkChannelIndex (the `.enabled` field) and by AddChannel (table re-assignment), or by helpers only they call; the tables never escape. What these three write is decided by R8.index / R8.addchannel")
	r.Rule("R2.addshape", "(shape; advisory, backed by R8.addchannel) AddChannel appends one composite literal with custom:true to both tables")
	r.Advisory("R2.addshape", "R8.addchannel")
	fns := c15BandFunctions(c)
	if len(fns) == 0 {
		r.Unknown("R2.whowrites", "band", "", "package band loaded", "no functions")
		return
	}
	E := guardsEngine(P)
	nStores, nTableStores, nUses := 0, 0, 0
	sawAdd := false
	// constructor-only helpers: unexported functions every caller of which (in the whole program's call graph) is a
	// constructor or such a helper; their stores are constructor stores
	topOf := func(f *ssa.Function) *ssa.Function {
		for f.Parent() != nil {
			f = f.Parent()
		}
		return f
	}
	isCtorName := func(f *ssa.Function) bool { return c15CtorRe.MatchString(f.Name()) || f.Name() == "init" }
	ctorOnly := map[*ssa.Function]bool{}
	cg := P.CallGraph()
	for changed := true; changed; {
		changed = false
		for _, f := range fns {
			if f.Parent() != nil || ctorOnly[f] || isCtorName(f) || f.Object() == nil || f.Object().Exported() {
				continue
			}
			n := cg.Nodes[f]
			if n == nil || len(n.In) == 0 {
				continue
			}
			all := true
			for _, e := range n.In {
				caller := topOf(e.Caller.Func)
				if !(isCtorName(caller) || ctorOnly[caller]) {
					all = false
					break
				}
			}
			if all {
				ctorOnly[f] = true
				changed = true
				r.Saw("constructor-only helpers (all callers are constructors)", guards.FuncShort(f))
			}
		}
	}
	// mutator-only helpers: unexported functions every caller of which is AddChannel / Enable- / DisableUplinkChannelIndex
	// or such a helper; what the three mutators do to the tables is decided exactly by R8.index / R8.addchannel
	isMutName := func(f *ssa.Function) string {
		switch guards.FuncShort(f) {
		case "band.AddChannel":
			return "add"
		case "band.EnableUplinkChannelIndex", "band.DisableUplinkChannelIndex":
			return "flag"
		}
		return ""
	}
	mutOnly := map[*ssa.Function]string{}
	for changed := true; changed; {
		changed = false
		for _, f := range fns {
			if f.Parent() != nil || mutOnly[f] != "" || isMutName(f) != "" || f.Object() == nil || f.Object().Exported() {
				continue
			}
			n := cg.Nodes[f]
			if n == nil || len(n.In) == 0 {
				continue
			}
			kind := ""
			for _, e := range n.In {
				if e.Caller.Func.Synthetic != "" {
					continue // promoted-method wrappers of the embedding band types
				}
				caller := topOf(e.Caller.Func)
				k := isMutName(caller)
				if k == "" {
					k = mutOnly[caller]
				}
				if k == "" || (kind != "" && kind != k) {
					kind = ""
					break
				}
				kind = k
			}
			if kind != "" {
				mutOnly[f] = kind
				changed = true
				r.Saw("mutator-only helpers (all callers are AddChannel or Enable/DisableUplinkChannelIndex)", guards.FuncShort(f))
			}
		}
	}
	for _, f := range fns {
		name := guards.FuncShort(f)
		top := topOf(f)
		isCtor := isCtorName(top) || ctorOnly[top]
		mutKind := isMutName(top)
		if mutKind == "" {
			mutKind = mutOnly[top]
		}
		r.Saw("band functions scanned for channel-table writes", name)
		for _, b := range f.Blocks {
			for _, ins := range b.Instrs {
				switch x := ins.(type) {
				case *ssa.Store:
					// (1) store into a field of a Channel that lives in a table (element of a []Channel) or behind a pointer
					if fa, ok := x.Addr.(*ssa.FieldAddr); ok && c15IsChannelType(fa.X.Type().Underlying().(*types.Pointer).Elem()) {
						if _, local := fa.X.(*ssa.Alloc); local {
							continue // building a value
						}
						nStores++
						field := c15ChannelFieldName(fa)
						key := fmt.Sprintf("band.%s/store Channel.%s", name, field)
						allowed := isCtor || (mutKind == "flag" && field == "enabled")
						r.Check(allowed, "R2.whowrites", key, P.Rel(x.Pos()), "only .enabled in Enable/DisableUplinkChannelIndex (or a helper only they call, or a constructor) writes a field of a table element", "store to Channel."+field+" in "+name, true)
						continue
					}
					// (2) whole-element store into a []Channel
					if ia, ok := x.Addr.(*ssa.IndexAddr); ok && c15IsChannelSlice(ia.X.Type()) {
						if _, local := ia.X.(*ssa.Alloc); local {
							continue
						}
						nStores++
						r.Check(isCtor, "R2.whowrites", fmt.Sprintf("band.%s/store element", name), P.Rel(x.Pos()), "no whole-element store outside constructors", "table element overwritten in "+name, true)
						continue
					}
					// (3) store to a table field itself
					if fa, ok := x.Addr.(*ssa.FieldAddr); ok && c15IsChannelSlice(x.Val.Type()) {
						nTableStores++
						field := c15ChannelFieldName(fa)
						key := fmt.Sprintf("band.%s/assign %s", name, field)
						if isCtor {
							r.OK("R2.whowrites", key, P.Rel(x.Pos()), "table assigned in a constructor", name, false)
							continue
						}
						if mutKind != "add" {
							r.Bad("R2.whowrites", key, P.Rel(x.Pos()), "only AddChannel (or a helper only it calls) re-assigns a channel table", "assignment in "+name)
							continue
						}
						sawAdd = true
						r.OK("R2.whowrites", key, P.Rel(x.Pos()), "table re-assigned by AddChannel only", name, true)
						// what is appended is decided exactly by R8.addchannel; the syntactic form is only recorded
						if ok2, why := c15AddChannelAppend(E, f, x, field); ok2 {
							r.OK("R2.addshape", key, P.Rel(x.Pos()), "AddChannel: table = append(table, c) with c.custom = true, same c for both tables", why, true)
						} else {
							r.Unknown("R2.addshape", key, P.Rel(x.Pos()), "AddChannel: table = append(table, c) with c.custom = true, same c for both tables", why)
						}
					}
				}
				// (4) the tables do not escape: a loaded table value is only measured, indexed, ranged or appended to
				if v, ok := ins.(ssa.Value); ok {
					if fld, isTable := c15TableFieldOf(v); isTable && !isCtor {
						for _, ref := range *v.Referrers() {
							nUses++
							if why := c15TableUseEscapes(ref, v); why != "" {
								r.Bad("R2.whowrites", fmt.Sprintf("band.%s/escape %s", name, fld), P.Rel(ref.Pos()), "the channel table does not escape the band", why)
							}
						}
					}
				}
			}
		}
	}
	if !sawAdd {
		r.Unknown("R2.whowrites", "band.AddChannel", "", "AddChannel assigns the tables", "no table assignment found in AddChannel")
	}
	r.Note("R2.whowrites: %d element stores, %d table assignments, %d table uses examined in %d functions of package band", nStores, nTableStores, nUses, len(fns))
}

var c15PhiBusy = map[*ssa.Phi]bool{}

var c15EscapeDepth int

// c15TableUseEscapes: how a use of a loaded table value lets it escape ("" = harmless).
func c15TableUseEscapes(ref ssa.Instruction, v ssa.Value) string {
	switch x := ref.(type) {
	case *ssa.IndexAddr, *ssa.DebugRef, *ssa.Range:
		return ""
	case *ssa.Call:
		if b, ok := x.Call.Value.(*ssa.Builtin); ok {
			switch b.Name() {
			case "len", "cap":
				return ""
			case "append":
				if x.Call.Args[0] == v {
					return "" // re-assignment is checked by the table-assignment clause
				}
			}
		}
		// a helper of the package that only measures, indexes, ranges over or re-slices what it receives does not let the
		// table escape (its element stores are seen by the element-store clause like those of any function of the package)
		if callee := x.Call.StaticCallee(); callee != nil && callee.Blocks != nil && callee.Pkg == x.Parent().Pkg && !x.Call.IsInvoke() && c15EscapeDepth < 3 {
			c15EscapeDepth++
			defer func() { c15EscapeDepth-- }()
			for i, a := range x.Call.Args {
				if a != v || i >= len(callee.Params) {
					continue
				}
				if refs := callee.Params[i].Referrers(); refs != nil {
					for _, r2 := range *refs {
						if why := c15TableUseEscapes(r2, callee.Params[i]); why != "" {
							return "table passed to " + callee.Name() + ", where: " + why
						}
					}
				}
			}
			return ""
		}
		return "table passed to " + x.Call.Value.Name()
	case *ssa.Return:
		return "table returned to the caller"
	case *ssa.Store:
		if x.Val == v {
			return "table stored elsewhere"
		}
		return ""
	case *ssa.Slice:
		// a local window onto the table: harmless as long as the window itself stays local (stores through it are
		// seen by the element-store clause, which looks at every store of the function)
		if x.X != v {
			return "table used as a slice bound"
		}
		if refs := x.Referrers(); refs != nil {
			for _, r2 := range *refs {
				if why := c15TableUseEscapes(r2, x); why != "" {
					return "re-sliced table: " + why
				}
			}
		}
		return ""
	case *ssa.Phi:
		// a loop that walks the table window by window (rest = rest[16:]): the phi is another local name for (a window
		// of) the table; what matters is what happens to the phi
		if c15PhiBusy[x] {
			return ""
		}
		c15PhiBusy[x] = true
		defer delete(c15PhiBusy, x)
		if refs := x.Referrers(); refs != nil {
			for _, r2 := range *refs {
				if why := c15TableUseEscapes(r2, x); why != "" {
					return "table window (phi): " + why
				}
			}
		}
		return ""
	}
	return fmt.Sprintf("table used by %T", ref)
}

// c15AddChannelAppend: st assigns `append(load of the same field, c)` where c is a composite literal with custom=true.
func c15AddChannelAppend(E *guards.Engine, f *ssa.Function, st *ssa.Store, field string) (bool, string) {
	call, ok := st.Val.(*ssa.Call)
	if !ok {
		return false, "assigned value is not an append call"
	}
	base, elems, ok := guardAppendedElems(call)
	if !ok || len(elems) != 1 {
		return false, "assigned value is not append(table, one element)"
	}
	if fld, isTable := c15TableFieldOf(base); !isTable || fld != field {
		return false, "appends to a different table than it assigns"
	}
	ld, ok := elems[0].(*ssa.UnOp)
	if !ok || ld.Op != token.MUL {
		return false, "appended element is not a composite literal value"
	}
	al, ok := ld.X.(*ssa.Alloc)
	if !ok {
		return false, "appended element is not a local composite literal"
	}
	custom := false
	for _, ref := range *al.Referrers() {
		fa, ok := ref.(*ssa.FieldAddr)
		if !ok || c15ChannelFieldName(fa) != "custom" {
			continue
		}
		for _, rr := range *fa.Referrers() {
			if s2, ok := rr.(*ssa.Store); ok && s2.Addr == ssa.Value(fa) {
				k, isConst := s2.Val.(*ssa.Const)
				custom = isConst && k.Value != nil && k.Value.String() == "true"
			}
		}
	}
	if !custom {
		return false, "appended channel does not set custom: true"
	}
	// the same literal value must be appended to every table assigned in this function
	for _, b := range f.Blocks {
		for _, ins := range b.Instrs {
			s2, ok := ins.(*ssa.Store)
			if !ok || s2 == st || !c15IsChannelSlice(s2.Val.Type()) {
				continue
			}
			if c2, ok := s2.Val.(*ssa.Call); ok {
				if _, e2, ok := guardAppendedElems(c2); ok && len(e2) == 1 {
					l2, ok := e2[0].(*ssa.UnOp)
					if !ok || l2.X != ld.X {
						return false, "the two tables receive different channel values"
					}
				}
			}
		}
	}
	return true, "append(b." + field + ", c) with c.custom = true; same literal for every table"
}

// ---------------------------------------------------------------------------
// R3 COMPLEMENT

type c15IndexFn struct {
	table, field string
	positive     bool // appends when the field is true
	pos          token.Pos
}

// c15ElemFieldOf: v is the value of field f of table[idx] (directly or through a local copy of the element).
func c15ElemFieldOf(v ssa.Value) (table ssa.Value, idx ssa.Value, field string, ok bool) {
	ld, isLd := v.(*ssa.UnOp)
	if !isLd || ld.Op != token.MUL {
		return nil, nil, "", false
	}
	fa, isFa := ld.X.(*ssa.FieldAddr)
	if !isFa || !c15IsChannelType(fa.X.Type().Underlying().(*types.Pointer).Elem()) {
		return nil, nil, "", false
	}
	field = c15ChannelFieldName(fa)
	var elemAddr *ssa.IndexAddr
	switch b := fa.X.(type) {
	case *ssa.IndexAddr:
		elemAddr = b
	case *ssa.Alloc:
		// local copy: exactly one whole store, of a loaded element
		var src ssa.Value
		n := 0
		for _, ref := range *b.Referrers() {
			if st, isSt := ref.(*ssa.Store); isSt && st.Addr == ssa.Value(b) {
				src = st.Val
				n++
			}
		}
		if n != 1 {
			return nil, nil, "", false
		}
		l2, isL := src.(*ssa.UnOp)
		if !isL || l2.Op != token.MUL {
			return nil, nil, "", false
		}
		ia, isIa := l2.X.(*ssa.IndexAddr)
		if !isIa {
			return nil, nil, "", false
		}
		elemAddr = ia
	default:
		return nil, nil, "", false
	}
	return elemAddr.X, elemAddr.Index, field, true
}

// c15ClassifyIndexFn recognises: out := nil; for i := range table { if [!]table[i].field { out = append(out, i) } }; return out
func c15ClassifyIndexFn(f *ssa.Function) (c15IndexFn, string) {
	var ret *ssa.Return
	for _, b := range f.Blocks {
		if r, ok := b.Instrs[len(b.Instrs)-1].(*ssa.Return); ok {
			if ret != nil {
				return c15IndexFn{}, "more than one return"
			}
			ret = r
		}
	}
	if ret == nil || len(ret.Results) != 1 {
		return c15IndexFn{}, "no single-result return"
	}
	phi, ok := ret.Results[0].(*ssa.Phi)
	if !ok {
		// delegation: return helper(recv, func(c Channel) bool { return [!]c.field }) — the sibling must delegate to
		// the same helper with the complementary predicate
		if call, isCall := ret.Results[0].(*ssa.Call); isCall {
			if callee := call.Call.StaticCallee(); callee != nil && callee.Blocks != nil && len(f.Blocks) == 1 {
				for _, a := range call.Call.Args {
					var pf *ssa.Function
					switch x := a.(type) {
					case *ssa.Function:
						pf = x
					case *ssa.MakeClosure:
						if len(x.Bindings) == 0 {
							pf, _ = x.Fn.(*ssa.Function)
						}
					}
					if pf == nil || len(pf.Blocks) != 1 || len(pf.Params) != 1 {
						continue
					}
					pr, ok := pf.Blocks[0].Instrs[len(pf.Blocks[0].Instrs)-1].(*ssa.Return)
					if !ok || len(pr.Results) != 1 {
						continue
					}
					v, positive := pr.Results[0], true
					for {
						u, isNot := v.(*ssa.UnOp)
						if !isNot || u.Op != token.NOT {
							break
						}
						positive = !positive
						v = u.X
					}
					// the field of the parameter: Field(param) or load of FieldAddr(alloc holding param)
					field := ""
					switch x := v.(type) {
					case *ssa.Field:
						if x.X == ssa.Value(pf.Params[0]) {
							field = x.X.Type().Underlying().(*types.Struct).Field(x.Field).Name()
						}
					case *ssa.UnOp:
						if fa, ok := x.X.(*ssa.FieldAddr); ok && x.Op == token.MUL {
							if al, ok := fa.X.(*ssa.Alloc); ok {
								if st, ok := al.Type().Underlying().(*types.Pointer).Elem().Underlying().(*types.Struct); ok && c15AllocHolds(al, pf.Params[0]) {
									field = st.Field(fa.Field).Name()
								}
							}
						}
					}
					if field != "" && c15IsChannelType(pf.Params[0].Type()) {
						return c15IndexFn{table: "via " + guards.FuncShort(callee), field: field, positive: positive}, ""
					}
				}
			}
		}
		return c15IndexFn{}, "result is not built in a loop"
	}
	var app *ssa.Call
	for _, e := range phi.Edges {
		switch x := e.(type) {
		case *ssa.Const:
		case *ssa.Phi:
			if x != phi {
				return c15IndexFn{}, "result merges another list"
			}
		case *ssa.Call:
			if app != nil {
				return c15IndexFn{}, "more than one append"
			}
			app = x
		default:
			return c15IndexFn{}, "result has an unrecognised source"
		}
	}
	if app == nil {
		return c15IndexFn{}, "no append"
	}
	base, elems, ok := guardAppendedElems(app)
	if !ok || base != ssa.Value(phi) || len(elems) != 1 {
		return c15IndexFn{}, "append shape not recognised"
	}
	idx := elems[0]
	// the block of the append is entered from a block that tests the element's field
	ab := app.Block()
	if len(ab.Preds) != 1 {
		return c15IndexFn{}, "append block has several predecessors"
	}
	d := ab.Preds[0]
	iff, ok := d.Instrs[len(d.Instrs)-1].(*ssa.If)
	if !ok {
		return c15IndexFn{}, "append is unconditional"
	}
	positive := d.Succs[0] == ab
	cond := iff.Cond
	for {
		u, isNot := cond.(*ssa.UnOp)
		if !isNot || u.Op != token.NOT {
			break
		}
		positive = !positive
		cond = u.X
	}
	table, eidx, field, ok := c15ElemFieldOf(cond)
	if !ok {
		return c15IndexFn{}, "condition is not a field of the ranged element"
	}
	if eidx != idx {
		return c15IndexFn{}, "appended value is not the index of the tested element"
	}
	tname, ok := c15TableFieldOf(table)
	if !ok {
		return c15IndexFn{}, "ranged value is not a channel table"
	}
	// full range: idx = k+1 with k = phi(-1, idx, idx…), loop test idx < len(table), and the test block is entered
	// directly from the loop header (no other filter)
	bo, ok := idx.(*ssa.BinOp)
	if !ok || bo.Op != token.ADD {
		return c15IndexFn{}, "index is not a range index"
	}
	kphi, ok := bo.X.(*ssa.Phi)
	one, okc := guards.ConstInt(bo.Y)
	if !ok || !okc || one != 1 {
		return c15IndexFn{}, "index is not a range index"
	}
	for _, e := range kphi.Edges {
		if k, isC := guards.ConstInt(e); isC {
			if k != -1 {
				return c15IndexFn{}, "range does not start at 0"
			}
		} else if e != idx {
			return c15IndexFn{}, "range index changes irregularly"
		}
	}
	hd := kphi.Block()
	hif, ok := hd.Instrs[len(hd.Instrs)-1].(*ssa.If)
	if !ok {
		return c15IndexFn{}, "loop header has no test"
	}
	cmp, ok := hif.Cond.(*ssa.BinOp)
	if !ok || cmp.Op != token.LSS || cmp.X != idx {
		return c15IndexFn{}, "loop test is not index < len(table)"
	}
	lc, ok := cmp.Y.(*ssa.Call)
	if !ok || lc.Call.Value.Name() != "len" || lc.Call.Args[0] != table {
		return c15IndexFn{}, "loop bound is not len(table)"
	}
	if d.Idom() != hd && d != hd.Succs[0] {
		return c15IndexFn{}, "the field test is nested under another condition"
	}
	if len(d.Preds) != 1 || d.Preds[0] != hd {
		return c15IndexFn{}, "the field test is not the first statement of the loop body"
	}
	return c15IndexFn{table: tname, field: field, positive: positive, pos: ret.Pos()}, ""
}

func c15Complement(c *Ctx) {
	r := c.Run
	P := c.Prog
	r.Rule("R3.complement", "Get{Enabled,Disabled}UplinkChannelIndices and Get{Standard,Custom}UplinkChannelIndices range over the same table and append the index under complementary tests of one field")
	pairs := [][3]string{
		{"GetEnabledUplinkChannelIndices", "GetDisabledUplinkChannelIndices", "enabled"},
		{"GetCustomUplinkChannelIndices", "GetStandardUplinkChannelIndices", "custom"},
	}
	for _, p := range pairs {
		key := "band." + p[0] + "/" + p[1]
		fa, fb := P.SSAFunc("band", "band."+p[0]), P.SSAFunc("band", "band."+p[1])
		if fa == nil || fb == nil {
			r.Unknown("R3.complement", key, "", "both index functions exist", "method missing")
			continue
		}
		ia, whyA := c15ClassifyIndexFn(fa)
		ib, whyB := c15ClassifyIndexFn(fb)
		if whyA != "" || whyB != "" {
			r.Unknown("R3.complement", key, P.Rel(fa.Pos()), "filter-by-field loop shape", strings.TrimSpace(p[0]+": "+whyA+" "+p[1]+": "+whyB))
			continue
		}
		got := fmt.Sprintf("%s: %s.%s==%v; %s: %s.%s==%v", p[0], ia.table, ia.field, ia.positive, p[1], ib.table, ib.field, ib.positive)
		ok := ia.table == ib.table && ia.field == ib.field && ia.field == p[2] && ia.positive && !ib.positive
		r.Check(ok, "R3.complement", key, P.Rel(fa.Pos()), "same table, same field "+p[2]+", opposite polarity (first positive)", got, true)
	}
}

// ---------------------------------------------------------------------------
// R5 CFLIST-MASKS (E2 evaluation per configuration)

// c15MaskValues digs the [][16]bool out of an evaluated *CFList{Payload: *CFListChannelMaskPayload{ChannelMasks: …}}.
func c15MaskValues(v tables.Value) ([][16]bool, string) {
	deref := func(x tables.Value) tables.Value {
		for {
			p, ok := x.(*tables.Ptr)
			if !ok {
				return x
			}
			x = p.Elem
		}
	}
	v = deref(v)
	pl := deref(tables.Field(v, "Payload"))
	ms := tables.Field(pl, "ChannelMasks")
	sl, ok := ms.(*tables.Slice)
	if !ok {
		return nil, fmt.Sprintf("ChannelMasks is %s", tables.Show(ms))
	}
	var out [][16]bool
	for _, el := range sl.Elems {
		arr, ok := el.(*tables.Slice)
		if !ok {
			return nil, fmt.Sprintf("mask is %s", tables.Show(el))
		}
		var m [16]bool
		es := arr.Elems
		if len(es) != 16 {
			return nil, fmt.Sprintf("mask has %d bits", len(es))
		}
		for i, b := range es {
			bv, ok := tables.AsBool(b)
			if !ok {
				return nil, "mask bit is not a constant"
			}
			m[i] = bv
		}
		out = append(out, m)
	}
	return out, ""
}

// ---------------------------------------------------------------------------
// R6 LOOKUP-SEARCH

func c15LookupSearch(c *Ctx) {
	r := c.Run
	P := c.Prog
	const key = "band.band.GetUplinkChannelIndexForFrequencyDR"
	r.Rule("R6.lookupsearch", "GetUplinkChannelIndexForFrequencyDR leaves its candidate loop only with a result or with a propagated callee error: a fresh data-dependent error inside the loop would hide later candidates")
	f := P.SSAFunc("band", "band.GetUplinkChannelIndexForFrequencyDR")
	if f == nil {
		r.Unknown("R6.lookupsearch", key, "", "anchor method exists", "missing")
		return
	}
	loops := guards.LoopsOf(f)
	if len(loops) != 1 {
		r.Unknown("R6.lookupsearch", key, P.Rel(f.Pos()), "one candidate loop", fmt.Sprintf("%d loops", len(loops)))
		return
	}
	lp := loops[0]
	n := 0
	// the loop body: everything dominated by the header's successor that stays in the loop (returns inside the
	// body are not part of the natural loop, but they are dominated by the body's entry)
	var body *ssa.BasicBlock
	for _, s := range lp.Head.Succs {
		if lp.Blocks[s] {
			body = s
		}
	}
	if body == nil || body == lp.Head {
		r.Unknown("R6.lookupsearch", key, P.Rel(f.Pos()), "a loop body", "not found")
		return
	}
	for _, b := range f.Blocks {
		ret, ok := b.Instrs[len(b.Instrs)-1].(*ssa.Return)
		if !ok || !body.Dominates(b) {
			continue
		}
		n++
		errv := ret.Results[len(ret.Results)-1]
		k := fmt.Sprintf("%s/return in loop", key)
		switch {
		case isNilConstValue(errv):
			r.OK("R6.lookupsearch", k, P.Rel(ret.Pos()), "success or propagated error", "returns a result (nil error)", true)
		case c15DerivesFromCalleeError(errv, 0):
			r.OK("R6.lookupsearch", k, P.Rel(ret.Pos()), "success or propagated error", "propagates the error of a callee", true)
		default:
			r.Bad("R6.lookupsearch", k, P.Rel(ret.Pos()), "success or propagated error", "returns a freshly built error from inside the candidate loop: the remaining candidates (custom channels on the same frequency) are never examined")
		}
	}
	if n == 0 {
		r.Unknown("R6.lookupsearch", key, P.Rel(f.Pos()), "the loop returns the index it finds", "no return inside the loop")
	}
}

// c15DerivesFromCalleeError: the error value is (a wrapping of) the error result of a call.
func c15DerivesFromCalleeError(v ssa.Value, depth int) bool {
	if depth > 4 {
		return false
	}
	switch x := v.(type) {
	case *ssa.Extract:
		_, isCall := x.Tuple.(*ssa.Call)
		return isCall && types.Identical(x.Type(), types.Universe.Lookup("error").Type())
	case *ssa.Call:
		// errors.Wrap(err, …) and friends: some argument is itself a callee error
		for _, a := range x.Call.Args {
			if types.Identical(a.Type(), types.Universe.Lookup("error").Type()) && c15DerivesFromCalleeError(a, depth+1) {
				return true
			}
		}
	case *ssa.Phi:
		for _, e := range x.Edges {
			if !c15DerivesFromCalleeError(e, depth+1) {
				return false
			}
		}
		return len(x.Edges) > 0
	case *ssa.ChangeInterface:
		return c15DerivesFromCalleeError(x.X, depth+1)
	}
	return false
}

// c15QueriesPure (R7): every Get* method of package band is a pure query: it writes nothing through the receiver, its
// parameters or package-level variables. The channel partition the queries report is then a function of the tables at
// the time of the call; a memo field that only some mutators invalidate cannot exist.
func c15QueriesPure(c *Ctx) {
	const rule = "R7.queries-pure"
	r := c.Run
	r.Rule(rule, "Get* methods of package band and their callees write nothing through the receiver, parameters or package-level variables (answers are functions of the current tables)")
	info := effectsFor(c.Prog)
	sp := c.Prog.SSAPkg("band")
	if sp == nil {
		r.Unknown(rule, "band", "", "package loaded", "missing")
		return
	}
	n := 0
	for _, f := range info.Funcs {
		if f.Pkg != sp || f.Signature.Recv() == nil || f.Synthetic != "" || !strings.HasPrefix(f.Name(), "Get") {
			continue
		}
		n++
		readOnlyObligation(c, info, rule, f)
	}
	if n == 0 {
		r.Unknown(rule, "band.Get*", "", "query methods found", "none")
	}
}

// c15AllocHolds: the only store into the local is the parameter (a spilled by-value parameter).
func c15AllocHolds(al *ssa.Alloc, p *ssa.Parameter) bool {
	n := 0
	for _, r := range *al.Referrers() {
		if st, ok := r.(*ssa.Store); ok && st.Addr == ssa.Value(al) {
			if st.Val != ssa.Value(p) {
				return false
			}
			n++
		}
	}
	return n == 1
}
