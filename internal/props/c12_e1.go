package props

import (
	"encoding/json"
	"fmt"
	"go/token"
	"go/types"

	"lwverif/internal/absint"
	"lwverif/internal/tables"
)

// E1 on real band objects: band.GetConfig is interpreted by the bit-level engine (constructors, table literals and maps
// evaluated on constants), which yields the band value itself; its accessor methods are then interpreted on symbolic
// arguments. Nothing here depends on how the accessors are written or which helpers they share.

// e1Band interprets band.GetConfig(name, repeater, dwell) and returns the interface value.
func e1Band(in *absint.Interp, name string, rep, d400 bool) (*absint.Iface, error) {
	var res []absint.Value
	repN := absint.False
	if rep {
		repN = absint.True
	}
	dt := int64(0)
	if d400 {
		dt = 1
	}
	if err := in.Try(func() {
		res = in.CallFunc("band", "GetConfig", &absint.StrVal{Known: true, S: name}, in.D.Bool(repN), in.D.Const(dt, 64, true))
	}); err != nil {
		return nil, err
	}
	if ev, ok := res[1].(*absint.ErrVal); !ok || ev.NonNil != absint.False {
		return nil, fmt.Errorf("GetConfig(%q) returns an error: %s", name, in.Show(res[1]))
	}
	ifc, ok := res[0].(*absint.Iface)
	if !ok || ifc.DynT == nil {
		return nil, fmt.Errorf("GetConfig(%q) returns %T", name, res[0])
	}
	return ifc, nil
}

// e1BandCall calls a method of the band's dynamic type (promoted methods of the embedded band struct included).
func e1BandCall(in *absint.Interp, ifc *absint.Iface, method string, args ...absint.Value) ([]absint.Value, error) {
	pt, ok := ifc.DynT.(*types.Pointer)
	if !ok {
		return nil, fmt.Errorf("band value is not a pointer: %s", ifc.DynT)
	}
	nt, ok := pt.Elem().(*types.Named)
	if !ok {
		return nil, fmt.Errorf("band value is not a named struct: %s", ifc.DynT)
	}
	p, ok := ifc.Dyn.(*absint.Ptr)
	if !ok || p.To == nil {
		return nil, fmt.Errorf("band value is %T", ifc.Dyn)
	}
	obj, index, _ := types.LookupFieldOrMethod(pt, true, nt.Obj().Pkg(), method)
	if _, isFn := obj.(*types.Func); !isFn {
		return nil, fmt.Errorf("method %s not found on %s", method, nt)
	}
	cell := p.To
	var T types.Type = nt
	for _, fi := range index[:len(index)-1] {
		st, ok := T.Underlying().(*types.Struct)
		sv, ok2 := cell.V.(*absint.Struct)
		if !ok || !ok2 {
			return nil, fmt.Errorf("embedded path of %s is not a struct", method)
		}
		f := st.Field(fi)
		cell = sv.F[f.Name()]
		T = f.Type()
		if cell == nil {
			return nil, fmt.Errorf("embedded field %s missing", f.Name())
		}
	}
	var res []absint.Value
	err := in.Try(func() { res = in.CallMethod(cell, T, method, args...) })
	return res, err
}

// c12PingE1 (rule C12-R6.ping-e1): GetPingSlotFrequency decided for every DevAddr and for beacon times
// T = 128 s · q + r with q < 2^24 and r < 2^36 ns, and r in [128 s - 2^36 ns, 128 s) (the division by the beacon
// period is exact on the linear form, so no bit-level division is built): a fixed-frequency region returns its
// frequency whatever the arguments; a hopping region returns downlink channel (DevAddr + q) mod N of the evaluated
// table. Run for 64-bit and for 32-bit int (a sum formed in a 32-bit signed int wraps for DevAddr >= 0x80000000).
func c12PingE1(c *Ctx, bands *tables.Bands) {
	r := c.Run
	const rule = "R6.ping-e1"
	r.Rule(rule, "GetPingSlotFrequency (E1 on the real band object; DevAddr symbolic, beacon time = 128 s·q + r symbolic, int of 64 and of 32 bits): the region's fixed frequency, or downlink channel (DevAddr + floor(T/128 s)) mod N")
	for _, cfg := range bands.Configs {
		if (cfg.Repeater || cfg.Dwell400) && c.Tier != "thorough" {
			continue // the ping-slot frequency does not depend on repeater compatibility or dwell time
		}
		reg, rerr := c.regional()
		if rerr != nil {
			continue // reported by R0.load
		}
		fam, ok := reg.Bands[family(cfg.Canon())]
		if !ok {
			continue
		}
		pg := fam.ping()
		off := 0
		if fam.Uplink.OffsetBy != nil {
			off = fam.Uplink.OffsetBy[cfg.Canon()]
		}
		dn, err := cfg.Channels("downlinkChannels")
		if err != nil {
			r.Unknown(rule, cfg.Short(), "", "downlink channel table evaluable", err.Error())
			continue
		}
		for _, ib := range []int{64, 32} {
			for _, hi := range []bool{false, true} {
				key := fmt.Sprintf("%s/int%d", cfg.Short(), ib)
				if hi {
					key += "/late"
				}
				absint.IntBits = ib
				func() {
					defer func() { absint.IntBits = 64 }()
					in := absint.NewInterp(c.Prog)
					d := in.D
					ifc, err := e1Band(in, cfg.Canon(), cfg.Repeater, cfg.Dwell400)
					if err != nil {
						r.Unknown(rule, key, "", "band.GetConfig inside the interpreter's subset", err.Error())
						return
					}
					// DevAddr and q share the low end of the variable order, interleaved bit by bit from the least significant
					// bit (the sum of the two stays linear in size)
					var order [][2]int
					for i := 0; i < 24; i++ {
						order = append(order, [2]int{0, i}, [2]int{1, i})
					}
					grp := d.SymGroup([]string{"devAddr", "q"}, []int{32, 24}, order)
					av := grp[0].Bits()
					arrV := &absint.Array{Elem: types.Typ[types.Uint8]}
					for bi := 3; bi >= 0; bi-- {
						arrV.E = append(arrV.E, &absint.Cell{V: absint.MakeBits(8, false, av[8*bi:8*bi+8])})
					}
					var addr absint.Value = arrV
					q := d.Resize(grp[1], 64, true)
					rr := d.Resize(d.Sym("r", 36, false, false), 64, true)
					if hi {
						rr = d.AddSub(token.ADD, rr, d.Const(128_000_000_000-(1<<36), 64, true))
					}
					bt := d.AddSub(token.ADD, d.MulConst(q, 128_000_000_000), rr)
					res, err := e1BandCall(in, ifc, "GetPingSlotFrequency", addr, bt)
					if err != nil {
						if pe, isP := err.(absint.Panic); isP {
							r.Bad(rule, key, "", "a frequency for every DevAddr and beacon time", "panics: "+pe.Why+", e.g. "+d.Witness(pe.Cond))
							return
						}
						r.Unknown(rule, key, "", "GetPingSlotFrequency inside the interpreter's subset", err.Error())
						return
					}
					if ev, ok := res[1].(*absint.ErrVal); !ok || ev.NonNil != absint.False {
						r.Bad(rule, key, "", "no error", in.Show(res[1]))
						return
					}
					got, ok := res[0].(*absint.Bits)
					if !ok {
						r.Unknown(rule, key, "", "an integer frequency", in.Show(res[0]))
						return
					}
					var want *absint.Bits
					var wantDesc string
					switch {
					case pg.Fixed != nil:
						want = d.Const(int64(*pg.Fixed+off), got.W, got.Signed)
						wantDesc = fmt.Sprintf("%d Hz for every argument", *pg.Fixed+off)
					case pg.Hop != nil:
						n := pg.Hop.Mod
						// the hop table: the band's downlink channels, or the region's own list of ping-slot frequencies
						var tab []int
						var tabName string
						var wantList []int
						if json.Unmarshal(pg.Hop.Table, &tabName) == nil && tabName == "downlink" {
							for _, ch := range dn {
								tab = append(tab, ch.Freq)
							}
							tabName = "downlinkChannels"
						} else if json.Unmarshal(pg.Hop.Table, &wantList) == nil {
							tab, tabName = wantList, "the regional ping-slot table"
						}
						if n <= 0 || n&(n-1) != 0 || n > len(tab) {
							r.Unknown(rule, key, "", "a power-of-two hop modulus within the hop table", fmt.Sprintf("mod %d, %d entries", n, len(tab)))
							return
						}
						arr, _ := addr.(*absint.Array)
						if arr == nil || len(arr.E) != 4 {
							r.Unknown(rule, key, "", "DevAddr of 4 bytes", in.Show(addr))
							return
						}
						// (DevAddr + q) mod n over the low bits: DevAddr is big endian, its low byte is the last one
						lowA := d.Resize(arr.E[3].V.(*absint.Bits), 8, false)
						lowQ := d.Resize(d.Resize(q, 8, false), 8, false)
						sum := d.Bitwise(token.AND, d.AddSub(token.ADD, lowA, lowQ), d.Const(int64(n-1), 8, false))
						want = d.Const(int64(tab[0]), got.W, got.Signed)
						for k := 1; k < n; k++ {
							want = d.ITE(d.Cmp(token.EQL, sum, d.Const(int64(k), 8, false)), d.Const(int64(tab[k]), got.W, got.Signed), want)
						}
						wantDesc = fmt.Sprintf("entry (DevAddr + T/128s) mod %d of %s", n, tabName)
					default:
						r.Unknown(rule, key, "", "oracle entry", "neither fixed nor hop")
						return
					}
					diff := d.M.Not(d.Cmp(token.EQL, got, want))
					why := "equal for every DevAddr, q and r"
					if diff != absint.False {
						why = "differs, e.g. " + d.Witness(diff)
					}
					r.Check(diff == absint.False, rule, key, c.Prog.Rel(cfg.CtorDecl.Pos()), wantDesc, why, true)
				}()
			}
		}
	}
}

// c12RX1FreqE1 (rule C12-R5.rx1freq-e1): GetRX1FrequencyForUplinkFrequency decided for a fully symbolic 32-bit uplink
// frequency on the real band object: for every default uplink channel i the frequency of that channel maps to downlink
// channel i (or i mod N in the regions with fewer downlink than uplink channels) without error. (What an unknown
// frequency yields is not stated by the property: identity in the same-frequency regions, an error elsewhere.)
func c12RX1FreqE1(c *Ctx, bands *tables.Bands) {
	r := c.Run
	const rule = "R5.rx1freq-e1"
	r.Rule(rule, "GetRX1FrequencyForUplinkFrequency (E1 on the real band object, symbolic frequency): uplink channel i maps to downlink channel i (mod N in the regions with fewer downlink channels)")
	for _, cfg := range bands.Configs {
		if (cfg.Repeater || cfg.Dwell400) && c.Tier != "thorough" {
			continue
		}
		reg, rerr := c.regional()
		if rerr != nil {
			continue // reported by R0.load
		}
		fam, ok := reg.Bands[family(cfg.Canon())]
		if !ok {
			continue
		}
		key := cfg.Short() + "/GetRX1FrequencyForUplinkFrequency"
		up, err := cfg.Channels("uplinkChannels")
		dn, err2 := cfg.Channels("downlinkChannels")
		if err != nil || err2 != nil {
			r.Unknown(rule, key, "", "channel tables evaluable", fmt.Sprint(err, err2))
			continue
		}
		mod := fam.rx1ChannelMod()
		in := absint.NewInterp(c.Prog)
		d := in.D
		ifc, err := e1Band(in, cfg.Canon(), cfg.Repeater, cfg.Dwell400)
		if err != nil {
			r.Unknown(rule, key, "", "band.GetConfig inside the interpreter's subset", err.Error())
			continue
		}
		f := d.Sym("f", 32, false, true)
		res, err := e1BandCall(in, ifc, "GetRX1FrequencyForUplinkFrequency", f)
		if err != nil {
			if pe, isP := err.(absint.Panic); isP {
				r.Bad(rule, key, "", "a frequency or an error for every input", "panics: "+pe.Why+", e.g. "+d.Witness(pe.Cond))
				continue
			}
			r.Unknown(rule, key, "", "inside the interpreter's subset", err.Error())
			continue
		}
		ev, ok1 := res[1].(*absint.ErrVal)
		got, ok2 := res[0].(*absint.Bits)
		if !ok1 || !ok2 {
			r.Unknown(rule, key, "", "(uint32, error)", in.Show(res[0])+", "+in.Show(res[1]))
			continue
		}
		// expected: the first uplink channel with that frequency decides (duplicates map identically in every region)
		known := absint.False
		bad := ""
		seen := map[int]bool{}
		for i, ch := range up {
			if seen[ch.Freq] {
				continue
			}
			seen[ch.Freq] = true
			isF := d.Cmp(token.EQL, f, d.Const(int64(ch.Freq), 32, false))
			known = d.M.Or(known, isF)
			j := i
			if mod != 0 {
				j = i % mod
			}
			if j >= len(dn) {
				bad = fmt.Sprintf("uplink channel %d has no downlink channel %d", i, j)
				break
			}
			if w := d.M.And(isF, ev.NonNil); w != absint.False {
				bad = fmt.Sprintf("uplink channel %d (%d Hz) yields an error", i, ch.Freq)
				break
			}
			if w := d.M.And(isF, d.M.Not(d.Cmp(token.EQL, got, d.Const(int64(dn[j].Freq), got.W, got.Signed)))); w != absint.False {
				bad = fmt.Sprintf("uplink channel %d (%d Hz) does not map to downlink channel %d (%d Hz)", i, ch.Freq, j, dn[j].Freq)
				break
			}
		}
		_ = known
		r.Check(bad == "", rule, key, c.Prog.Rel(cfg.CtorDecl.Pos()), fmt.Sprintf("each of the %d uplink frequencies maps to its downlink channel without error", len(up)), bad, true)
	}
}
