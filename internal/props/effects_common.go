package props

import (
	"fmt"
	"go/types"
	"sort"
	"strings"
	"sync"

	"golang.org/x/tools/go/ssa"
	"golang.org/x/tools/go/ssa/ssautil"

	"lwverif/internal/effects"
	"lwverif/internal/load"
)

// effectsCache: one E4 analysis per loaded program (shared by all rules of a run).
var (
	effectsMu    sync.Mutex
	effectsCache = map[*load.Program]*effectsInfo{}
)

type effectsInfo struct {
	A      *effects.Analysis
	Funcs  []*ssa.Function // module functions with bodies, sorted by name
	byName map[string]*ssa.Function
	sites  map[ssa.CallInstruction][]*ssa.Function
}

// moduleFuncs lists every function of the analysed module that has a body (methods, wrappers and
// anonymous functions included).
func moduleFuncs(p *load.Program) []*ssa.Function {
	p.BuildSSA()
	var fns []*ssa.Function
	seen := map[*ssa.Function]bool{}
	var add func(f *ssa.Function)
	add = func(f *ssa.Function) {
		if f == nil || seen[f] {
			return
		}
		seen[f] = true
		if f.Blocks != nil && load.InModule(f) {
			fns = append(fns, f)
		}
		for _, an := range f.AnonFuncs {
			add(an)
		}
	}
	for f := range ssautil.AllFunctions(p.SSA) {
		add(f)
	}
	// AllFunctions only follows what may be called; methods of unexported types that never
	// reach an interface would be missed, so add every declared function and method explicitly.
	for _, sp := range p.SSAPkgs {
		for _, m := range sp.Members {
			switch x := m.(type) {
			case *ssa.Function:
				add(x)
			case *ssa.Type:
				for _, T := range []types.Type{x.Type(), types.NewPointer(x.Type())} {
					ms := p.SSA.MethodSets.MethodSet(T)
					for i := 0; i < ms.Len(); i++ {
						add(p.SSA.MethodValue(ms.At(i)))
					}
				}
			}
		}
	}
	sort.Slice(fns, func(i, j int) bool { return fns[i].String() < fns[j].String() })
	return fns
}

func effectsFor(p *load.Program) *effectsInfo {
	effectsMu.Lock()
	defer effectsMu.Unlock()
	if e, ok := effectsCache[p]; ok {
		return e
	}
	info := &effectsInfo{byName: map[string]*ssa.Function{}, sites: map[ssa.CallInstruction][]*ssa.Function{}}
	effects.ExactLenOracle = func(v ssa.Value, b *ssa.BasicBlock, n int64) bool {
		a := guardsEngine(p).Analyze(b.Parent())
		return a != nil && a.Converged && a.ReachableBlock(b) && a.EntailsEq(b, a.LenOf(v).Plus(-n))
	}
	effects.FillOracle = func(callee *ssa.Function) (int, int, bool) {
		fl, ok := guardsEngine(p).FillOf(callee)
		return fl.Dst, fl.Src, ok
	}
	effects.LenAtLeastOracle = func(at ssa.Instruction, v ssa.Value, n int64) bool {
		a := guardsEngine(p).Analyze(at.Parent())
		return a != nil && a.Converged && a.LenAtLeastBefore(at, v, n)
	}
	info.Funcs = moduleFuncs(p)
	for _, f := range info.Funcs {
		info.byName[effects.ShortFunc(f)] = f
	}
	cg := p.CallGraph()
	for _, f := range info.Funcs {
		n := cg.Nodes[f]
		if n == nil {
			continue
		}
		for _, e := range n.Out {
			if e.Site != nil && e.Callee != nil && e.Callee.Func != nil {
				info.sites[e.Site] = append(info.sites[e.Site], e.Callee.Func)
			}
		}
	}
	info.A = effects.Analyse(effects.Config{
		Funcs:   info.Funcs,
		Callees: func(ci ssa.CallInstruction) []*ssa.Function { return info.sites[ci] },
	})
	effectsCache[p] = info
	return info
}

// recvTypeName returns the receiver's named type (without pointer / package) or "".
func recvTypeName(fn *ssa.Function) string {
	if fn.Signature.Recv() == nil {
		return ""
	}
	t := fn.Signature.Recv().Type()
	if p, ok := t.(*types.Pointer); ok {
		t = p.Elem()
	}
	if n, ok := t.(*types.Named); ok {
		return n.Obj().Name()
	}
	return ""
}

// funcKey is the stable, line-free name used in obligation keys: pkg.Recv.Method / pkg.Func.
func funcKey(fn *ssa.Function) string {
	pkg := ""
	if fn.Pkg != nil {
		pkg = relPkg(fn.Pkg.Pkg.Path())
	} else if o := fn.Object(); o != nil && o.Pkg() != nil {
		pkg = relPkg(o.Pkg().Path())
	}
	name := fn.Name()
	if r := recvTypeName(fn); r != "" {
		name = r + "." + name
	}
	if fn.Parent() != nil {
		name = funcKey(fn.Parent()) + "$" + fn.Name()
		return name
	}
	return pkg + "." + name
}

func relPkg(path string) string {
	if path == load.ModPath {
		return "lorawan"
	}
	return strings.TrimPrefix(path, load.ModPath+"/")
}

func isPtrRecv(fn *ssa.Function) bool {
	if fn.Signature.Recv() == nil {
		return false
	}
	_, ok := fn.Signature.Recv().Type().(*types.Pointer)
	return ok
}

func init() {
	dumpers["effects"] = func(p *load.Program, args []string) {
		info := effectsFor(p)
		fmt.Printf("%d module functions, %d rounds\n", len(info.Funcs), info.A.Rounds)
		filter := ""
		if len(args) > 0 {
			filter = args[0]
		}
		for _, f := range info.Funcs {
			name := effects.ShortFunc(f)
			if filter != "" && !strings.Contains(name, filter) {
				continue
			}
			s := info.A.Sums[f]
			fmt.Printf("%s\n", name)
			for _, k := range sortedStr(s.Writes) {
				for _, e := range s.Writes[k] {
					fmt.Printf("   writes  %-8s bytes=%v slicemem=%v %s\n", k, e.Bytes, e.SliceMem, e.Chain())
				}
			}
			for _, k := range sortedStr(s.Appends) {
				for _, e := range s.Appends[k] {
					fmt.Printf("   append  %-8s %s\n", k, e.Chain())
				}
			}
			for _, k := range sortedStr(s.Retains) {
				for src, e := range s.Retains[k] {
					fmt.Printf("   retains %-8s <- %s  %s\n", k, src, e.Chain())
				}
			}
			for i := range s.RetLoc {
				if len(s.RetLoc[i]) > 0 || len(s.RetReach[i]) > 0 {
					fmt.Printf("   result %d loc=%s reach=%s\n", i, s.RetLoc[i], s.RetReach[i])
				}
			}
			for _, k := range sortedStr(s.Opaque) {
				for _, e := range s.Opaque[k] {
					fmt.Printf("   opaque  %-8s %s\n", k, e.Chain())
				}
			}
			for g := range s.GlobalsRead {
				fmt.Printf("   reads global %s\n", g)
			}
		}
	}
	dumpers["extcalls"] = func(p *load.Program, args []string) {
		info := effectsFor(p)
		var names []string
		for k := range info.A.ExtSeen {
			names = append(names, k)
		}
		sort.Strings(names)
		for _, k := range names {
			tag := info.A.ExtSeen[k]
			if tag == "" {
				tag = "** NO ENTRY **"
			}
			fmt.Printf("%-70s %s\n", k, tag)
		}
	}
}

func sortedStr[V any](m map[string]V) []string {
	out := make([]string, 0, len(m))
	for k := range m {
		out = append(out, k)
	}
	sort.Strings(out)
	return out
}
