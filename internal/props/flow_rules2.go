package props

import (
	"fmt"
	"go/token"
	"go/types"
	"strings"

	"golang.org/x/tools/go/ssa"

	"lwverif/internal/flow"
)

// ---------------------------------------------------------------------------
// C04-R2 (guard and order of the 1.1 prefix) and C04-R3 (callee identity, 16-byte blocking)

type gItem struct {
	g *flow.Formula
	t *flow.Term
}

// flattenAppend turns a term built from append / ite / nil into the guarded sequence of appended items.
func flattenAppend(t *flow.Term) ([]gItem, bool) {
	switch {
	case t.Op == "const" && t.Val == "nil":
		return nil, true
	case t.Op == "makeslice" && len(t.Args) == 1 && t.Args[0].String() == "0":
		return nil, true // make([]T, 0, n): empty
	case t.Op == "call" && t.Val == "append" && len(t.Args) == 2:
		head, ok := flattenAppend(t.Args[0])
		if !ok {
			return nil, false
		}
		return append(head, gItem{flow.FTrue(), t.Args[1]}), true
	case t.Op == "ite" && len(t.Args) == 3:
		a, ok1 := flattenAppend(t.Args[1])
		b, ok2 := flattenAppend(t.Args[2])
		if !ok1 || !ok2 {
			return nil, false
		}
		c := flow.AtomOf(t.Args[0])
		if t.Args[0].Op == "un" && t.Args[0].Val == "!" {
			c = flow.FNot(flow.AtomOf(t.Args[0].Args[0]))
		}
		var out []gItem
		i := 0
		for i < len(a) && i < len(b) && a[i].t.Equal(b[i].t) {
			out = append(out, gItem{flow.FOr(flow.FAnd(c, a[i].g), flow.FAnd(flow.FNot(c), b[i].g)), a[i].t})
			i++
		}
		for _, x := range a[i:] {
			out = append(out, gItem{flow.FAnd(c, x.g), x.t})
		}
		for _, x := range b[i:] {
			out = append(out, gItem{flow.FAnd(flow.FNot(c), x.g), x.t})
		}
		return out, true
	case t.Op == "unknown" || t.Op == "phi" || t.Op == "loop":
		return nil, false
	}
	// any other value is one item (e.g. the slice the first append starts from)
	return []gItem{{flow.FTrue(), t}}, true
}

func flowC04(c *Ctx) {
	const r2, r3 = "R2.prefix-guard", "R3.block-callee"
	c.Run.Rule(r2, "calculateDownlinkJoinMIC feeds the CMAC JoinReqType|JoinEUI|DevNonce exactly under DLSettings.OptNeg, followed by MHDR|payload unconditionally")
	c.Run.Rule(r3, "EncryptJoinAcceptPayload calls cipher.Block.Decrypt (Decrypt…: Block.Encrypt) once per 16-byte block at offsets 16i..16i+16 of payload|MIC, length a multiple of 16, outputs split at len-4")

	if fn := flowFn(c, r2, "", "PHYPayload.calculateDownlinkJoinMIC"); fn != nil && len(fn.Params) != 5 {
		// the rule names the parameters by position (receiver, joinReqType, joinEUI, devNonce, key); with another
		// parameter list (an options struct) it has nothing to compare with — what the function computes is decided by
		// the E1 rules on the function as a whole
		c.Run.Unknown(r2, fnKey(fn)+"/params", fpos(c, fn), "five parameters (receiver, joinReqType, joinEUI, devNonce, key)", fmt.Sprint(len(fn.Params)))
	} else if fn != nil {
		key := fnKey(fn)
		e := flow.For(fn)
		J := flow.Extract(flow.Assert(flow.Param(0, "MACPayload"), "*lorawan.JoinAcceptPayload"), 0)
		O := flow.AtomOf(J.Field("DLSettings", "OptNeg"))
		ref, okRef := oneSite(c, r2, key+"/call:MHDR.MarshalBinary", fn, "(lorawan.MHDR).MarshalBinary")
		if okRef {
			refPC := projectPlumbing(e.PathCond(ref.Instr.Block(), nil), map[string]bool{O.Atom: true})
			for _, x := range []struct {
				callee, what string
				arg          *flow.Term
			}{
				{"(lorawan.EUI64).MarshalBinary", "JoinEUI", flow.Param(2)},
				{"(lorawan.DevNonce).MarshalBinary", "DevNonce", flow.Param(3)},
			} {
				s, ok := oneSite(c, r2, key+"/call:"+x.callee, fn, x.callee)
				if !ok {
					continue
				}
				checkTerm(c, r2, key+"/"+x.what+"-source", ipos(c, s.Instr), x.what+" fed to the MIC", s.Args[0], x.arg)
				compareGuard(c, r2, key+"/"+x.what+"-guard", ipos(c, s.Instr), "the "+x.what+" prefix is computed", e.PathCond(s.Instr.Block(), nil), flow.FAnd(refPC, O))
			}
		}
		// the byte sequence handed to the hash
		if w, ok := oneSite(c, r2, key+"/call:hash.Write", fn, "invoke hash.Hash.Write"); ok {
			items, flat := flattenAppend(w.Args[0])
			if !flat {
				c.Run.Unknown(r2, key+"/sequence", ipos(c, w.Instr), "CMAC input built by append/if", short(w.Args[0].String()))
			} else {
				typ := flow.SliceOf(&flow.Term{Op: "arr", Args: []*flow.Term{flow.Param(1)}}, nil, nil) // uint8(joinReqType): JoinType is a uint8
				want := []gItem{
					{O, typ},
					{O, flow.Extract(flow.Call("(lorawan.EUI64).MarshalBinary", flow.Param(2)), 0)},
					{O, flow.Extract(flow.Call("(lorawan.DevNonce).MarshalBinary", flow.Param(3)), 0)},
					{flow.FTrue(), flow.Extract(flow.Call("(lorawan.MHDR).MarshalBinary", flow.Param(0, "MHDR")), 0)},
					{flow.FTrue(), flow.Extract(flow.Call("invoke lorawan.Payload.MarshalBinary", flow.Param(0, "MACPayload")), 0)},
				}
				names := []string{"JoinReqType", "JoinEUI", "DevNonce", "MHDR", "payload"}
				if len(items) != len(want) {
					var got []string
					for _, it := range items {
						got = append(got, it.t.String())
					}
					if len(items) == 1 {
						// not an append chain at all (a bytes.Buffer, a helper): the input is assembled some other way;
						// what it is, byte for byte, is decided by the exact rules R1/R2
						c.Run.Unknown(r2, key+"/sequence", ipos(c, w.Instr), "CMAC input built by append/if", short(strings.Join(got, " | ")))
					} else {
						c.Run.Bad(r2, key+"/sequence", ipos(c, w.Instr), "CMAC input = [JoinReqType|JoinEUI|DevNonce under OptNeg] | MHDR | payload", fmt.Sprintf("%d items: %s", len(items), short(strings.Join(got, " | "))))
					}
				} else {
					for i := range want {
						k := fmt.Sprintf("%s/sequence[%d]:%s", key, i, names[i])
						if checkTerm(c, r2, k, ipos(c, w.Instr), "item "+fmt.Sprint(i)+" of the CMAC input", items[i].t, want[i].t) {
							compareGuard(c, r2, k+"/guard", ipos(c, w.Instr), names[i]+" is part of the CMAC input", items[i].g, want[i].g)
						}
					}
				}
			}
		}
	}

	for _, x := range []struct {
		name, want, other string
		srcOf             func() []*flow.Term
	}{
		{"PHYPayload.EncryptJoinAcceptPayload", "invoke crypto/cipher.Block.Decrypt", "invoke crypto/cipher.Block.Encrypt", func() []*flow.Term {
			pl := flow.Extract(flow.Call("invoke lorawan.Payload.MarshalBinary", flow.Param(0, "MACPayload")), 0)
			return []*flow.Term{flow.Call("append", pl, flow.SliceOf(flow.Param(0, "MIC"), flow.ConstInt(0), flow.ConstInt(4))), flow.Call("append", pl, flow.SliceOf(flow.Param(0, "MIC"), nil, nil))}
		}},
		{"PHYPayload.DecryptJoinAcceptPayload", "invoke crypto/cipher.Block.Encrypt", "invoke crypto/cipher.Block.Decrypt", func() []*flow.Term {
			dp := flow.Extract(flow.Assert(flow.Param(0, "MACPayload"), "*lorawan.DataPayload"), 0).Field("Bytes")
			return []*flow.Term{flow.Call("append", dp, flow.SliceOf(flow.Param(0, "MIC"), nil, nil)), flow.Call("append", dp, flow.SliceOf(flow.Param(0, "MIC"), flow.ConstInt(0), flow.ConstInt(4)))}
		}},
	} {
		fn := flowFn(c, r3, "", x.name)
		if fn == nil {
			continue
		}
		joinAcceptBlocks(c, r3, fn, x.want, x.other, x.srcOf())
	}
}

func joinAcceptBlocks(c *Ctx, rule string, fn *ssa.Function, want, other string, srcWant []*flow.Term) {
	key := fnKey(fn)
	e := flow.For(fn)
	nc, ok := oneSite(c, rule, key+"/call:aes.NewCipher", fn, "crypto/aes.NewCipher")
	if !ok {
		return
	}
	checkTerm(c, rule, key+"/cipher-key", ipos(c, nc.Instr), "AES key", nc.Args[0], flow.SliceOf(flow.Param(1), nil, nil))
	blockT := flow.Extract(e.Term(nc.Value()), 0)
	// every use of the cipher.Block value
	var blockVal ssa.Value
	for _, ref := range *nc.Value().Referrers() {
		if ex, ok := ref.(*ssa.Extract); ok && ex.Index == 0 {
			blockVal = ex
		}
	}
	if blockVal == nil {
		c.Run.Unknown(rule, key+"/block", ipos(c, nc.Instr), "the cipher.Block result is used", "not extracted")
		return
	}
	nWant := 0
	for _, ref := range *blockVal.Referrers() {
		ci, isCall := ref.(ssa.CallInstruction)
		if !isCall {
			if _, dbg := ref.(*ssa.DebugRef); dbg {
				continue
			}
			c.Run.Unknown(rule, key+"/block-use", ipos(c, ref), "cipher.Block used only by BlockSize and "+want, fmt.Sprintf("%T", ref))
			continue
		}
		name := flow.CalleeName(ci.Common())
		switch {
		case name == "invoke crypto/cipher.Block.BlockSize":
		case name == want && ci.Common().Value == blockVal:
			nWant++
			blockSite(c, rule, fn, ci, srcWant)
		case name == other && ci.Common().Value == blockVal:
			c.Run.Bad(rule, key+"/callee", ipos(c, ci), "the AES operation is "+strings.TrimPrefix(want, "invoke "), "calls "+strings.TrimPrefix(other, "invoke ")+": the device's AES-encrypt no longer inverts it")
		default:
			if callee := ci.Common().StaticCallee(); callee != nil && flow.InModule(callee) {
				c.Run.Unknown(rule, key+"/block-use:"+name, ipos(c, ci), "per-block "+want+" in "+key, "cipher.Block handed to helper "+name+" (outside the supported subset)")
			} else {
				c.Run.Bad(rule, key+"/block-use:"+name, ipos(c, ci), "cipher.Block used only for BlockSize and per-16-byte-block "+strings.TrimPrefix(want, "invoke "), "cipher.Block is handed to "+name+" (a chaining mode is not AES-ECB with the inverse direction)")
			}
		}
	}
	if nWant == 0 {
		// not refuted: the block operation may be performed by a helper that receives the block or its method value;
		// what the function computes is decided by R3.encrypt on the whole function
		c.Run.Unknown(rule, key+"/callee", fpos(c, fn), "a call of "+strings.TrimPrefix(want, "invoke ")+" on the block "+blockT.String(), "no such call in this function (a helper may perform it)")
	}
}

// blockSite checks one Block.Encrypt/Decrypt(dst, src) call: inside a loop over i = 0,1,… < len/16 with
// dst = D[16i:16i+16], src = S[16i:16i+16], S = payload|MIC, len(S) % 16 == 0 on the path.
func blockSite(c *Ctx, rule string, fn *ssa.Function, ci ssa.CallInstruction, srcWant []*flow.Term) {
	key := fnKey(fn) + "/block-op"
	e := flow.For(fn)
	pos := ipos(c, ci)
	args := ci.Common().Args
	if len(args) != 2 {
		c.Run.Unknown(rule, key, pos, "2 arguments", fmt.Sprint(len(args)))
		return
	}
	if !flow.InLoop(ci.Block()) {
		c.Run.Bad(rule, key+"/loop", pos, "one AES block operation per 16-byte block (inside a loop)", "the call is not inside a loop")
		return
	}
	var bases [2]*flow.Term
	var lows [2]*flow.Term
	byteStep := false // the loop variable is the byte offset itself (o += 16)
	for k, a := range args {
		sl, ok := a.(*ssa.Slice)
		if !ok || sl.Low == nil || sl.High == nil {
			c.Run.Unknown(rule, fmt.Sprintf("%s/arg%d", key, k), pos, "X[16i:16i+16]", e.Term(a).String())
			return
		}
		lo, hi := e.Term(sl.Low), e.Term(sl.High)
		lows[k] = lo
		bases[k] = e.Select(sl.X, nil, ci)
		okHi := hi.Equal(flow.Bin("+", lo, flow.ConstInt(16))) || hi.Equal(flow.Bin("+", flow.ConstInt(16), lo))
		c.Run.Check(okHi, rule, fmt.Sprintf("%s/arg%d/width", key, k), pos, "slice of exactly 16 bytes [o:o+16]", "["+lo.String()+":"+hi.String()+"]", true)
		// o = 16*i with i = 0,1,2,…  or o = 0,16,32,…
		stride := int64(0)
		var lv ssa.Value = sl.Low
		if bo, ok := sl.Low.(*ssa.BinOp); ok && bo.Op == token.MUL {
			if k16, ok := intConst(bo.Y); ok {
				stride, lv = k16, bo.X
			} else if k16, ok := intConst(bo.X); ok {
				stride, lv = k16, bo.Y
			}
		} else {
			stride = 1
		}
		if stride == 1 {
			byteStep = true
		}
		init, step, isLoop := flow.LoopVar(lv)
		if !isLoop {
			c.Run.Unknown(rule, fmt.Sprintf("%s/arg%d/offset", key, k), pos, "offset 16*i for a counting loop variable i", lo.String())
			continue
		}
		c.Run.Check(init.Equal(flow.ConstInt(0)) && stride*step == 16, rule, fmt.Sprintf("%s/arg%d/offset", key, k), pos, "offsets 0,16,32,…", fmt.Sprintf("start %s, step %d", init, stride*step), true)
	}
	c.Run.Check(lows[0].Equal(lows[1]), rule, key+"/same-offset", pos, "destination and source block at the same offset", lows[0].String()+" vs "+lows[1].String(), true)
	// the input is payload|MIC, however the concatenation was built
	srcOK := false
	items, flat := flattenAppend(bases[1])
	for _, w := range srcWant {
		wi, _ := flattenAppend(w)
		if flat && len(wi) == len(items) {
			same := true
			for i := range wi {
				if !wi[i].t.Equal(items[i].t) || !items[i].g.Eval(nil) && items[i].g.Op == "const" {
					same = false
				}
				if eq, _, _ := flow.Compare(items[i].g, flow.FTrue()); !eq {
					same = false
				}
			}
			if same {
				srcOK = true
			}
		}
	}
	if srcOK {
		c.Run.OK(rule, key+"/source", pos, "input of the AES operation = payload | MIC", short(bases[1].String()), true)
	} else {
		checkTerm(c, rule, key+"/source", pos, "input of the AES operation (payload|MIC)", bases[1], srcWant...)
	}
	// a fresh buffer of the input's length, or the input buffer itself (block-wise in place: Block.Encrypt/Decrypt
	// permit dst == src; what ends up in the frame is decided byte for byte by the exact rule)
	checkTerm(c, rule, key+"/dest", pos, "output buffer", bases[0], &flow.Term{Op: "makeslice", Val: "[]byte", Args: []*flow.Term{flow.Call("len", bases[1])}}, bases[1])
	// length is a multiple of 16 on the path, loop runs to len/16
	pc := e.PathCond(ci.Block(), nil)
	mult := flow.Eq(flow.Bin("%", flow.Call("len", bases[1]), flow.ConstInt(16)), flow.ConstInt(0))
	if flow.Implies(pc, mult) {
		c.Run.OK(rule, key+"/multiple-of-16", pos, "len(payload|MIC) % 16 == 0 on the path", mult.String(), true)
	} else {
		c.Run.Bad(rule, key+"/multiple-of-16", pos, "len(payload|MIC) % 16 == 0 is checked before the block loop", "path condition: "+short(pc.Pretty()))
	}
	bound := false
	for a, t := range pc.Atoms() {
		_ = a
		if t != nil && t.Op == "bin" && t.Val == "<" && len(t.Args) == 2 && t.Args[0].Op == "loop" {
			for _, b := range []*flow.Term{bases[0], bases[1]} {
				if !byteStep && t.Args[1].Equal(flow.Bin("/", flow.Call("len", b), flow.ConstInt(16))) {
					bound = true
				}
				if byteStep && t.Args[1].Equal(flow.Call("len", b)) {
					bound = true
				}
			}
		}
	}
	if bound {
		c.Run.OK(rule, key+"/bound", pos, "loop bound len/16", "i < len/16", true)
	} else {
		c.Run.Unknown(rule, key+"/bound", pos, "loop bound len/16", short(pc.Pretty()))
	}
	// outputs: MIC = last four bytes of the output
	ei := errIndex(fn)
	D := bases[0]
	lenD := flow.Call("len", D)
	n := 0
	for _, r := range flow.Returns(fn) {
		if !mayReturnNil(e, r, ei) {
			continue
		}
		n++
		got := e.SelectAddr(fn.Params[0], []string{"MIC"}, r)
		w1 := flow.CopyOf(flow.SliceOf(D, flow.Bin("-", lenD, flow.ConstInt(4)), nil))
		w2 := flow.CopyOf(flow.SliceOf(D, flow.Bin("-", lenD, flow.ConstInt(4)), lenD))
		checkTerm(c, rule, fmt.Sprintf("%s/out-MIC#%d", fnKey(fn), n), ipos(c, r), "p.MIC after the operation (last 4 bytes of the output)", got, w1, w2)
	}
	// payload part = output[0:len-4]
	found := false
	wantPl := flow.SliceOf(D, flow.ConstInt(0), flow.Bin("-", lenD, flow.ConstInt(4)))
	wantPl2 := flow.SliceOf(D, nil, flow.Bin("-", lenD, flow.ConstInt(4)))
	for _, b := range fn.Blocks {
		for _, ins := range b.Instrs {
			switch x := ins.(type) {
			case *ssa.Store:
				if t := e.Select(x.Val, nil, x); t.Equal(wantPl) || t.Equal(wantPl2) {
					found = true
				}
			case ssa.CallInstruction:
				for _, a := range x.Common().Args {
					if t := e.Select(a, nil, x); t.Equal(wantPl) || t.Equal(wantPl2) {
						found = true
					}
				}
			}
		}
	}
	if found {
		c.Run.OK(rule, fnKey(fn)+"/out-payload", pos, "payload part = output[0:len-4]", wantPl.String(), true)
	} else {
		c.Run.Bad(rule, fnKey(fn)+"/out-payload", pos, "payload part = output[0:len-4] is stored or re-parsed", "no store/argument with that value")
	}
}

func intConst(v ssa.Value) (int64, bool) {
	cst, ok := v.(*ssa.Const)
	if !ok || cst.Value == nil {
		return 0, false
	}
	var k int64
	if _, err := fmt.Sscan(cst.Value.ExactString(), &k); err != nil {
		return 0, false
	}
	return k, true
}

// ---------------------------------------------------------------------------
// C11-R3 ISNETID and C11-R4 text/SQL codecs

func flowC11(c *Ctx) {
	const r3, r4 = "R3.isnetid-flow", "R4.codecs"
	c.Run.Rule(r3, "DevAddr.IsNetID = (a == copy of a after SetAddrPrefix(netID)), all four bytes")
	c.Run.Rule(r4, "EUI64/DevAddr/NetID/AES128Key: hex.EncodeToString / hex.DecodeString after trimming one 0x; decoded length == array length before copy; Scan needs []byte (checked) of exact length; Value returns a slice of a copy")

	if fn := flowFn(c, r3, "", "DevAddr.IsNetID"); fn != nil {
		key := fnKey(fn)
		e := flow.For(fn)
		const sap = "(*lorawan.DevAddr).SetAddrPrefix"
		if s, ok := oneSite(c, r3, key+"/call:SetAddrPrefix", fn, sap); ok {
			// the object handed to SetAddrPrefix holds a copy of the receiver
			recv := s.Args[0]
			if recv.Op == "addr" && len(recv.Args) == 1 {
				recv = recv.Args[0]
			}
			_, isAlloc := stripToAlloc(s.Instr.Common().Args[0])
			if !isAlloc {
				c.Run.Bad(r3, key+"/copy", ipos(c, s.Instr), "SetAddrPrefix is applied to a local copy of the receiver", "applied to "+s.Args[0].String())
			} else {
				checkTerm(c, r3, key+"/copy", ipos(c, s.Instr), "content of the temporary before SetAddrPrefix", recv, flow.Param(0))
			}
			checkTerm(c, r3, key+"/netid", ipos(c, s.Instr), "NetID argument", s.Args[1], flow.Param(1))
			// result ≡ (a == temp after the call)
			var res *flow.Formula = flow.FFalse()
			for _, r := range flow.Returns(fn) {
				res = flow.FOr(res, flow.FAnd(e.PathCond(r.Block(), nil), e.Bool(r.Results[0])))
			}
			after := flow.After(sap, flow.Param(0))
			want := flow.Eq(flow.Param(0), after)
			alt1 := flow.AtomOf(flow.Call("bytes.Equal", flow.SliceOf(flow.Param(0), nil, nil), flow.SliceOf(after, nil, nil)))
			alt2 := flow.AtomOf(flow.Call("bytes.Equal", flow.SliceOf(after, nil, nil), flow.SliceOf(flow.Param(0), nil, nil)))
			okRes := false
			for _, w := range []*flow.Formula{want, alt1, alt2} {
				if eq, _, _ := flow.Compare(res, w); eq {
					okRes = true
				}
			}
			if okRes {
				c.Run.OK(r3, key+"/result", fpos(c, fn), "result ≡ "+want.String(), short(res.Pretty()), true)
			} else {
				cmpLike := true
				for _, t := range res.Atoms() {
					if t == nil || t.IsUnknown() {
						cmpLike = false
					}
				}
				if cmpLike {
					c.Run.Bad(r3, key+"/result", fpos(c, fn), "result ≡ "+want.String()+" (all four bytes: type prefix, NwkID and untouched NwkAddr)", short(res.Pretty()))
				} else {
					c.Run.Unknown(r3, key+"/result", fpos(c, fn), "result ≡ "+want.String(), short(res.Pretty()))
				}
			}
		}
	}

	for _, T := range []struct {
		name string
		n    int64
	}{{"EUI64", 8}, {"DevAddr", 4}, {"NetID", 3}, {"AES128Key", 16}} {
		codecRules(c, r4, T.name, T.n)
	}
}

func stripToAlloc(v ssa.Value) (*ssa.Alloc, bool) {
	for {
		switch x := v.(type) {
		case *ssa.Alloc:
			return x, true
		case *ssa.FieldAddr:
			v = x.X
		case *ssa.ChangeType:
			v = x.X
		default:
			return nil, false
		}
	}
}

func codecRules(c *Ctx, rule, T string, N int64) {
	lt := "lorawan." + T
	// --- String / MarshalText
	strWant := flow.Call("encoding/hex.EncodeToString", flow.SliceOf(flow.Param(0), nil, nil))
	strOK := false
	if fn := flowFn(c, rule, "", T+".String"); fn != nil {
		e := flow.For(fn)
		for _, r := range flow.Returns(fn) {
			strOK = checkTerm(c, rule, fnKey(fn)+"/result", ipos(c, r), "String()", e.Select(r.Results[0], nil, r), strWant)
		}
	}
	if fn := flowFn(c, rule, "", T+".MarshalText"); fn != nil {
		e := flow.For(fn)
		for _, r := range flow.Returns(fn) {
			got := e.Select(r.Results[0], nil, r)
			viaString := flow.Conv("[]byte", flow.Call("("+lt+").String", flow.Param(0)))
			direct := flow.Conv("[]byte", strWant)
			if got.Equal(viaString) && !strOK {
				c.Run.Unknown(rule, fnKey(fn)+"/result", ipos(c, r), "MarshalText = []byte(hex.EncodeToString(v[:]))", "goes through String(), which did not match")
			} else {
				checkTerm(c, rule, fnKey(fn)+"/result", ipos(c, r), "MarshalText", got, viaString, direct)
			}
			c.Run.Check(flow.IsNilConst(r.Results[1]), rule, fnKey(fn)+"/error", ipos(c, r), "nil error", e.Select(r.Results[1], nil, r).String(), false)
		}
	}
	// --- UnmarshalText
	if fn := flowFn(c, rule, "", T+".UnmarshalText"); fn != nil {
		key := fnKey(fn)
		e := flow.For(fn)
		in := flow.Call("strings.TrimPrefix", flow.Conv("string", flow.Param(1)), flow.ConstString("0x"))
		dec := flow.Call("encoding/hex.DecodeString", in)
		if ss := flow.Calls(fn, flow.Named("encoding/hex.DecodeString")); len(ss) == 1 {
			s := ss[0]
			checkTerm(c, rule, key+"/input", ipos(c, s.Instr), "input of hex.DecodeString (one 0x prefix trimmed)", s.Args[0], in)
			lengthGuardedCopy(c, rule, fn, flow.Extract(dec, 0), N, flow.FTrue())
		} else {
			// the decode step was not recognised; the exact-length requirement can still be refuted
			lengthGuardFallback(c, rule, fn, N)
		}
		errSwallowRule(c, rule, fn)
		_ = e
	}
	// --- Scan
	if fn := flowFn(c, rule, "", T+".Scan"); fn != nil {
		key := fnKey(fn)
		var ta *ssa.TypeAssert
		for _, b := range fn.Blocks {
			for _, ins := range b.Instrs {
				if x, ok := ins.(*ssa.TypeAssert); ok && x.X == ssa.Value(fn.Params[1]) {
					ta = x
				}
			}
		}
		if ta == nil {
			c.Run.Unknown(rule, key+"/assert", fpos(c, fn), "src.([]byte) with comma-ok", "no type assertion on the argument")
		} else {
			sl, isSl := ta.AssertedType.Underlying().(*types.Slice)
			isBytes := isSl && types.Identical(sl.Elem(), types.Typ[types.Byte])
			if !ta.CommaOk {
				c.Run.Bad(rule, key+"/assert", ipos(c, ta), "checked assertion src.([]byte) (wrong type is an error, not a panic)", "unchecked assertion "+ta.String())
			} else {
				c.Run.Check(isBytes, rule, key+"/assert", ipos(c, ta), "checked assertion to []byte", ta.AssertedType.String(), true)
			}
			at := flow.Assert(flow.Param(1), "[]byte")
			okFlag := flow.AtomOf(flow.Extract(at, 1))
			if !ta.CommaOk {
				okFlag = flow.FTrue()
				lengthGuardedCopy(c, rule, fn, at, N, okFlag)
			} else {
				lengthGuardedCopy(c, rule, fn, flow.Extract(at, 0), N, okFlag)
			}
		}
	}
	// --- Value
	if fn := flowFn(c, rule, "", T+".Value"); fn != nil {
		key := fnKey(fn)
		e := flow.For(fn)
		for _, r := range flow.Returns(fn) {
			v := r.Results[0]
			if mi, ok := v.(*ssa.MakeInterface); ok {
				v = mi.X
			}
			got := e.Select(v, nil, r)
			if !checkTerm(c, rule, key+"/result", ipos(c, r), "Value()", got, flow.SliceOf(flow.Param(0), nil, nil)) {
				continue
			}
			sl, ok := v.(*ssa.Slice)
			_, isAlloc := ssa.Value(nil), false
			if ok {
				_, isAlloc = sl.X.(*ssa.Alloc)
			}
			c.Run.Check(isAlloc, rule, key+"/copy", ipos(c, r), "the returned slice views a copy (value receiver), not the caller's array", fmt.Sprintf("slices %s", e.Term(v)), true)
			c.Run.Check(flow.IsNilConst(r.Results[1]), rule, key+"/error", ipos(c, r), "nil error", e.Select(r.Results[1], nil, r).String(), false)
		}
	}
}

// lengthGuardedCopy: every return of fn that may carry a nil error (a) lies behind `pre` and behind an
// *equality* test len(src) == N and (b) sees the receiver array holding copy(recv[:], src).
func lengthGuardedCopy(c *Ctx, rule string, fn *ssa.Function, src *flow.Term, N int64, pre *flow.Formula) {
	e := flow.For(fn)
	ei := errIndex(fn)
	lenEq := flow.Eq(flow.Call("len", src), flow.ConstInt(N))
	n := 0
	for _, r := range flow.Returns(fn) {
		if !mayReturnNil(e, r, ei) {
			continue
		}
		n++
		rk := fmt.Sprintf("%s/success#%d", fnKey(fn), n)
		pc := e.PathCond(r.Block(), nil)
		if flow.Implies(pc, flow.FAnd(lenEq, pre)) {
			c.Run.OK(rule, rk+"/length", ipos(c, r), "success implies "+lenEq.String(), short(pc.Pretty()), true)
		} else {
			c.Run.Bad(rule, rk+"/length", ipos(c, r), "success implies "+flow.FAnd(lenEq, pre).String()+" (wrong-length input is rejected)", describeLengthGuard(pc, N))
		}
		got := e.SelectAddr(fn.Params[0], nil, r)
		checkTerm(c, rule, rk+"/copy", ipos(c, r), "receiver content at the successful return", got, flow.CopyOf(src))
	}
	if n == 0 {
		c.Run.Unknown(rule, fnKey(fn)+"/success", fpos(c, fn), "a return with a nil error", "none")
	}
}

// lengthGuardFallback is used when the decode call has an unrecognised shape: a successful return whose path
// condition implies no equality between a length and N (or 2N hex digits) refutes "wrong-length inputs are
// rejected" if the path condition only contains comparisons on pure/len terms; otherwise Undecided.
func lengthGuardFallback(c *Ctx, rule string, fn *ssa.Function, N int64) {
	e := flow.For(fn)
	ei := errIndex(fn)
	n := 0
	for _, r := range flow.Returns(fn) {
		if !mayReturnNil(e, r, ei) {
			continue
		}
		n++
		rk := fmt.Sprintf("%s/success#%d/length", fnKey(fn), n)
		pc := e.PathCond(r.Block(), nil)
		implied := false
		relational := false
		for a, t := range pc.Atoms() {
			if t == nil || t.Op != "bin" || len(t.Args) != 2 {
				continue
			}
			k := t.Args[1].String()
			isLen := strings.Contains(t.Args[0].String(), "len(") || strings.Contains(t.Args[1].String(), "len(")
			if !isLen {
				continue
			}
			if t.Val == "==" && (k == fmt.Sprint(N) || k == fmt.Sprint(2*N)) {
				if flow.Implies(pc, flow.FAtom(a, t)) {
					implied = true
				}
			}
			if t.Val == "<" || t.Val == "<=" {
				relational = true
			}
		}
		switch {
		case implied:
			c.Run.Unknown(rule, rk, ipos(c, r), "recognised decode step (hex.DecodeString) with exact-length test", "an exact-length test exists but the decode step has an unsupported shape")
		case relational || len(flow.Calls(fn, func(s string) bool {
			return strings.HasPrefix(s, "lorawan.") || strings.HasPrefix(s, "(lorawan.") || strings.HasPrefix(s, "(*lorawan.")
		})) == 0:
			c.Run.Bad(rule, rk, ipos(c, r), fmt.Sprintf("success implies decoded length == %d (wrong-length input is rejected)", N), describeLengthGuard(pc, N))
		default:
			c.Run.Unknown(rule, rk, ipos(c, r), fmt.Sprintf("success implies decoded length == %d", N), short(pc.Pretty()))
		}
	}
	if n == 0 {
		c.Run.Unknown(rule, fnKey(fn)+"/success", fpos(c, fn), "a return with a nil error", "none")
	}
}

func describeLengthGuard(pc *flow.Formula, N int64) string {
	var rel []string
	for a, t := range pc.Atoms() {
		if t != nil && t.Op == "bin" && (t.Val == "<" || t.Val == "<=") {
			rel = append(rel, a)
		}
	}
	s := "the successful return is reachable under " + short(pc.Pretty())
	if len(rel) > 0 {
		s += "; only an ordering test (" + strings.Join(rel, ", ") + ") guards the length, so a shorter input is accepted and leaves stale bytes"
	} else {
		s += fmt.Sprintf("; no test `len == %d` on that path", N)
	}
	return s
}
