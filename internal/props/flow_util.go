package props

import (
	"fmt"
	"go/token"
	"go/types"
	"sort"
	"strings"

	"golang.org/x/tools/go/ssa"

	"lwverif/internal/flow"
)

// Helpers shared by the rules built on engine E5 (internal/flow).

// flowFn finds an SSA function; a missing anchor is Undecided, never a pass.
func flowFn(c *Ctx, rule, rel, name string) *ssa.Function {
	fn := c.Prog.SSAFunc(rel, name)
	if fn == nil || fn.Blocks == nil {
		pk := rel
		if pk == "" {
			pk = "lorawan"
		}
		c.Run.Unknown(rule, pk+"."+name+"/anchor", "", "function "+name+" exists in package "+pk, "not found")
		return nil
	}
	c.Run.Saw("functions analysed by flow rules", fnKey(fn))
	return fn
}

// fnKey is the stable name used in obligation keys: pkg.Func or pkg.Recv.Method.
func fnKey(fn *ssa.Function) string {
	pk := "lorawan"
	if fn.Pkg != nil {
		pk = fn.Pkg.Pkg.Name()
	}
	return pk + "." + flow.ShortFunc(fn)
}

func ipos(c *Ctx, ins ssa.Instruction) string {
	if ins == nil {
		return ""
	}
	p := ins.Pos()
	if !p.IsValid() {
		// fall back to the nearest positioned instruction of the block, then the function
		for _, x := range ins.Block().Instrs {
			if x.Pos().IsValid() {
				p = x.Pos()
				break
			}
		}
		if !p.IsValid() {
			p = ins.Parent().Pos()
		}
	}
	return c.Prog.Rel(p)
}

func fpos(c *Ctx, fn *ssa.Function) string { return c.Prog.Rel(fn.Pos()) }

func short(s string) string {
	if len(s) > 300 {
		return s[:300] + "…"
	}
	return s
}

// checkTerm: got must equal one of wants. Unknown sub-terms → Undecided; a different, fully known term → Bad.
func checkTerm(c *Ctx, rule, key, pos, what string, got *flow.Term, wants ...*flow.Term) bool {
	var ws []string
	for _, w := range wants {
		ws = append(ws, w.String())
		if got.Equal(w) {
			c.Run.OK(rule, key, pos, what+" = "+w.String(), short(got.String()), true)
			return true
		}
	}
	want := what + " = " + strings.Join(ws, " or ")
	// a value that goes through an in-module helper the rule does not know is outside the supported
	// subset: Undecided, not a verdict
	if h := unknownHelper(got, ws); h != "" {
		c.Run.Unknown(rule, key, pos, want, "goes through helper "+h+": "+short(got.String()))
		return false
	}
	if got.IsUnknown() {
		c.Run.Unknown(rule, key, pos, want, short(got.String()))
		return false
	}
	// A verdict needs a recognised shape: a simple value (input, constant, one primitive applied to
	// inputs) or the expected construction with a different leaf/callee. A differently built complex
	// value may be an equivalent rewrite: Undecided.
	recognised := termDepth(got) <= 2
	for _, w := range wants {
		if sameShape(got, w) {
			recognised = true
		}
	}
	if !recognised {
		c.Run.Unknown(rule, key, pos, want, "built differently (not a recognised shape): "+short(got.String()))
		return false
	}
	c.Run.Bad(rule, key, pos, want, short(got.String()))
	return false
}

func isLeafTerm(t *flow.Term) bool {
	switch t.Op {
	case "param", "field", "const", "zero", "global", "func":
		return true
	}
	return false
}

// skin strips nodes that do not change the construction: conversions, unary operators, tuple extraction.
func skin(t *flow.Term) *flow.Term {
	for (t.Op == "conv" || t.Op == "un" || t.Op == "extract" || t.Op == "addr" || t.Op == "deref") && len(t.Args) == 1 {
		t = t.Args[0]
	}
	return t
}

func termDepth(t *flow.Term) int {
	t = skin(t)
	if isLeafTerm(t) {
		return 0
	}
	d := 0
	for _, a := range t.Args {
		if x := termDepth(a); x > d {
			d = x
		}
	}
	return d + 1
}

// sameShape: same construction up to leaves (inputs, constants) and callee names.
func sameShape(a, b *flow.Term) bool {
	a, b = skin(a), skin(b)
	if isLeafTerm(a) || isLeafTerm(b) {
		return isLeafTerm(a) && isLeafTerm(b)
	}
	if a.Op != b.Op || len(a.Args) != len(b.Args) {
		return false
	}
	if a.Op == "fld" && a.Val != b.Val {
		return false
	}
	for i := range a.Args {
		if !sameShape(a.Args[i], b.Args[i]) {
			return false
		}
	}
	return true
}

// isPlumbing: atoms that only say "the previous step succeeded": error-result nil tests on call results and
// comma-ok flags of type assertions.
func isPlumbing(t *flow.Term) bool {
	if t == nil {
		return false
	}
	if t.Op == "bin" && t.Val == "==" && len(t.Args) == 2 && t.Args[1].String() == "nil" && !t.Args[0].Pure() {
		return true
	}
	if t.Op == "extract" && t.Val == "1" && len(t.Args) == 1 && t.Args[0].Op == "assert" {
		return true
	}
	return false
}

// projectPlumbing existentially quantifies the success-plumbing atoms (keeping the atoms in keep).
func projectPlumbing(f *flow.Formula, keep map[string]bool) *flow.Formula {
	for a, t := range f.Atoms() {
		if keep[a] || !isPlumbing(t) {
			continue
		}
		f = flow.FOr(f.Assign(a, true), f.Assign(a, false))
	}
	return f
}

// compareGuard decides got ≡ want by truth table. Atoms of got that want does not mention:
// success plumbing is projected out; an input condition (pure term) the guard depends on refutes the rule
// (the guard is wider or narrower than required on some input); an opaque one makes it Undecided.
func compareGuard(c *Ctx, rule, key, pos, what string, got, want *flow.Formula) bool {
	keep := map[string]bool{}
	for a := range want.Atoms() {
		keep[a] = true
	}
	got = projectPlumbing(got, keep)
	wantLeaves := map[string]bool{}
	for _, t := range want.Atoms() {
		if t != nil {
			for l := range t.Leaves() {
				wantLeaves[l] = true
			}
		}
	}
	var extraPure, extraOpaque []string
	for a, t := range got.Atoms() {
		if keep[a] || !got.DependsOn(a) {
			continue
		}
		if flow.Linked(t, want.Atoms()) {
			continue // compared with a constant like one of the required atoms: decided exactly by Compare
		}
		if t != nil && t.Pure() && !sharesLeaf(t, wantLeaves) {
			extraPure = append(extraPure, a)
		} else {
			// opaque, or an input condition on a value the required guard also tests (the two atoms are
			// not independent, a truth table over them proves nothing)
			extraOpaque = append(extraOpaque, a)
		}
	}
	sort.Strings(extraPure)
	sort.Strings(extraOpaque)
	wantS := what + " ≡ " + want.Pretty()
	if len(extraOpaque) > 0 {
		c.Run.Unknown(rule, key, pos, wantS, "condition also depends on "+strings.Join(extraOpaque, ", ")+": "+short(got.Pretty()))
		return false
	}
	eq, witness, atoms := flow.Compare(got, want)
	if eq && len(extraPure) == 0 {
		c.Run.OK(rule, key, pos, wantS, fmt.Sprintf("equivalent by truth table over %d atoms: %s", len(atoms), short(got.Pretty())), true)
		return true
	}
	msg := short(got.Pretty())
	if len(extraPure) > 0 {
		msg += "; depends on extra input condition(s) " + strings.Join(extraPure, ", ")
	}
	if witness != "" {
		msg += "; differs at " + witness
	}
	c.Run.Bad(rule, key, pos, wantS, msg)
	return false
}

// paramsInOrder: args[from:] of the site are exactly the function's own parameters $from.. in order
// (a receiver passed by address of a local copy counts as the receiver).
func passThrough(c *Ctx, rule, key string, fn *ssa.Function, s flow.Site, want []*flow.Term) bool {
	ok := true
	args := s.Instr.Common().Args
	if len(args) != len(want) {
		// a different signature (parameters folded into a struct, one added or dropped): not the shape this rule reads
		c.Run.Unknown(rule, key, ipos(c, s.Instr), fmt.Sprintf("%d arguments", len(want)), fmt.Sprintf("%d arguments: the callee's parameter list is not the one the rule was written for", len(args)))
		return false
	}
	norm := func(t *flow.Term) *flow.Term {
		if t.Op == "addr" && len(t.Args) == 1 {
			return t.Args[0] // pointer to a local: compare the content it holds at the call
		}
		return t
	}
	// The expectation is written in the callee's parameter order. Where an expected term is a whole parameter of fn
	// whose type occurs once among fn's parameters and once among the callee's, the type system fixes its position:
	// if the helper's parameters were reordered, the term is expected at the position of its type.
	at := make([]int, len(want)) // position at which want[i] is expected
	for i := range at {
		at[i] = i
	}
	if sig := calleeSignature(s); sig != nil && sig.Params().Len() == len(args) {
		count := func(ts []types.Type, t types.Type) (n, pos int) {
			for i, u := range ts {
				if types.Identical(u, t) {
					n++
					pos = i
				}
			}
			return
		}
		var fnT, ceT []types.Type
		for _, q := range fn.Params {
			fnT = append(fnT, q.Type())
		}
		for i := 0; i < sig.Params().Len(); i++ {
			ceT = append(ceT, sig.Params().At(i).Type())
		}
		moved := map[int]bool{}
		for i, w := range want {
			if norm(s.Args[i]).Equal(w) || w.Op != "param" || len(w.Args) != 0 {
				continue
			}
			var j int
			if _, err := fmt.Sscanf(w.Val, "%d", &j); err != nil || j < 0 || j >= len(fnT) {
				continue
			}
			nf, _ := count(fnT, fnT[j])
			nc, pos := count(ceT, fnT[j])
			if nf == 1 && nc == 1 && pos != i {
				at[i] = pos
				moved[pos] = true
			}
		}
		// positions vacated by a move take the expectations that were displaced, when their types decide it too;
		// otherwise they keep their own index and are compared there
		for i, w := range want {
			if at[i] == i && moved[i] && !(w.Op == "param" && len(w.Args) == 0) {
				// a constant or computed argument (a type byte): its position is the one not taken by typed moves
				for k := range want {
					free := true
					for i2 := range want {
						if at[i2] == k && i2 != i {
							free = false
						}
					}
					if free && !moved[k] {
						at[i] = k
						break
					}
				}
			}
		}
	}
	var gots []string
	for i := range args {
		gots = append(gots, norm(s.Args[i]).String())
	}
	taken := map[int]bool{}
	for i := range want {
		if taken[at[i]] {
			c.Run.Unknown(rule, key, ipos(c, s.Instr), "the callee's parameter order the rule was written for", "parameters reordered in a way the types do not decide")
			return false
		}
		taken[at[i]] = true
	}
	for i := range want {
		t := norm(s.Args[at[i]])
		if !t.Equal(want[i]) {
			ok = false
			k := fmt.Sprintf("%s/arg%d", key, i)
			if t.IsUnknown() {
				c.Run.Unknown(rule, k, ipos(c, s.Instr), "argument "+fmt.Sprint(at[i])+" of "+s.Callee+" = "+want[i].String(), t.String())
			} else {
				c.Run.Bad(rule, k, ipos(c, s.Instr), "argument "+fmt.Sprint(at[i])+" of "+s.Callee+" = "+want[i].String(), short(t.String()))
			}
		}
	}
	if ok {
		var ws []string
		for _, w := range want {
			ws = append(ws, w.String())
		}
		c.Run.OK(rule, key, ipos(c, s.Instr), s.Callee+"("+strings.Join(ws, ", ")+")", strings.Join(gots, ", "), true)
	}
	return ok
}

func calleeSignature(s flow.Site) *types.Signature {
	if s.Static != nil && s.Static.Signature.Recv() == nil {
		return s.Static.Signature
	}
	return nil
}

// oneSite requires exactly one call site of the named callee in fn.
func oneSite(c *Ctx, rule, key string, fn *ssa.Function, callee string) (flow.Site, bool) {
	sites := flow.Calls(fn, flow.Named(callee))
	if len(sites) == 1 {
		return sites[0], true
	}
	if len(sites) == 0 {
		// a different algorithm or a helper: outside the supported subset, not a verdict
		c.Run.Unknown(rule, key, fpos(c, fn), "one direct call of "+callee+" in "+fnKey(fn), "no direct call (helper or different algorithm: outside the supported subset)")
		return flow.Site{}, false
	}
	c.Run.Unknown(rule, key, fpos(c, fn), "one call of "+callee+" in "+fnKey(fn), fmt.Sprintf("%d calls", len(sites)))
	return flow.Site{}, false
}

// mayReturnNil: can this return carry a nil error in result index ei? const nil → yes; a freshly built
// error → no; otherwise yes unless the path condition implies the returned value is non-nil.
func mayReturnNil(e *flow.Eval, r *ssa.Return, ei int) bool {
	v := r.Results[ei]
	if flow.IsNilConst(v) {
		return true
	}
	if _, isMI := v.(*ssa.MakeInterface); isMI {
		return false // a concrete value (`&lengthError{…}`) stored into the error: never the nil interface
	}
	t := e.Select(v, nil, r)
	if t.Op == "call" {
		switch t.Val {
		case "errors.New", "fmt.Errorf", "pkgerrors.New", "pkgerrors.Errorf":
			return false
		case "pkgerrors.Wrap", "pkgerrors.Wrapf", "pkgerrors.WithStack", "pkgerrors.WithMessage", "pkgerrors.WithMessagef":
			// Wrap(nil, …) is nil: the result is nil exactly when the wrapped error is
			if len(t.Args) == 0 {
				return true
			}
			pc := e.PathCond(r.Block(), nil)
			return !flow.Implies(pc, flow.FNot(flow.Eq(t.Args[0], flow.Nil())))
		}
	}
	if g, ok := v.(*ssa.UnOp); ok && g.Op == token.MUL {
		if _, isG := g.X.(*ssa.Global); isG {
			return false // a package-level error variable
		}
	}
	pc := e.PathCond(r.Block(), nil)
	return !flow.Implies(pc, flow.FNot(e.NilTest(v)))
}

func errIndex(fn *ssa.Function) int {
	res := fn.Signature.Results()
	if res.Len() == 0 || !flow.IsErrorType(res.At(res.Len()-1).Type()) {
		return -1
	}
	return res.Len() - 1
}

// errSwallowRule: no error branch of fn reaches a return with a nil error.
func errSwallowRule(c *Ctx, rule string, fn *ssa.Function) {
	n, bad := flow.ErrSwallows(fn)
	key := fnKey(fn) + "/err-branches"
	if len(bad) == 0 {
		c.Run.OK(rule, key, fpos(c, fn), "no `err != nil` branch reaches `return nil`", fmt.Sprintf("%d error branches, every one returns a non-nil error", n), n > 0)
		return
	}
	e := flow.For(fn)
	seen := map[string]bool{}
	for _, s := range bad {
		et := e.Term(s.Branch.Err)
		k := fnKey(fn) + "/swallow:" + strings.ReplaceAll(et.String(), " ", "")
		if seen[k] {
			continue
		}
		seen[k] = true
		c.Run.Bad(rule, k, ipos(c, s.Ret), "a failure of "+et.String()+" is reported to the caller", "the `!= nil` branch reaches `return nil` at "+ipos(c, s.Ret)+": the caller sees success although the data was not transformed")
	}
}

func sharesLeaf(t *flow.Term, leaves map[string]bool) bool {
	for l := range t.Leaves() {
		if leaves[l] {
			return true
		}
		for w := range leaves {
			if strings.HasPrefix(l, w+".") || strings.HasPrefix(w, l+".") {
				return true
			}
		}
	}
	return false
}

// unknownHelper returns the name of a function called inside got that none of the expected terms mentions
// and that is not one of the primitives the rules know.
func unknownHelper(got *flow.Term, wants []string) string {
	name := ""
	got.Has(func(t *flow.Term) bool {
		if t.Op != "call" || name != "" {
			return false
		}
		n := t.Val
		for _, w := range wants {
			if strings.Contains(w, n+"(") {
				return false
			}
		}
		if knownPrimitive[n] {
			return false // a primitive the rules know, used in the wrong place: that is a verdict
		}
		name = n
		return true
	})
	return name
}

// knownPrimitive lists the in-module functions the flow rules reason about. A value that flows through one of
// them where another was required is refuted; a value that flows through any other in-module function is an
// unrecognised helper (Undecided).
var knownPrimitive = map[string]bool{}

func init() {
	for _, n := range []string{
		"lorawan/backend/joinserver.getJSIntKey", "lorawan/backend/joinserver.getJSEncKey",
		"lorawan/backend/joinserver.getFNwkSIntKey", "lorawan/backend/joinserver.getAppSKey",
		"lorawan/backend/joinserver.getSNwkSIntKey", "lorawan/backend/joinserver.getNwkSEncKey",
		"lorawan/backend/joinserver.getSKey", "lorawan/backend/joinserver.getJSKey",
		"lorawan/backend/joinserver.handleJoinRequest", "lorawan/backend/joinserver.handleRejoinRequest",
		"lorawan/backend/joinserver.handleJoinRequestWrapper", "lorawan/backend/joinserver.handleRejoinRequestWrapper",
		"lorawan/backend.NewKeyEnvelope",
		"(lorawan.PHYPayload).isUplink", "(lorawan.PHYPayload).MarshalBinary", "(lorawan.PHYPayload).ValidateUplinkJoinMIC",
		"(*lorawan.PHYPayload).calculateUplinkDataMIC", "(*lorawan.PHYPayload).calculateDownlinkDataMIC",
		"(*lorawan.PHYPayload).EncryptFOpts", "(*lorawan.PHYPayload).EncryptFRMPayload",
		"(*lorawan.PHYPayload).DecodeFOptsToMACCommands", "(*lorawan.PHYPayload).SetDownlinkJoinMIC",
		"(*lorawan.PHYPayload).EncryptJoinAcceptPayload",
		"lorawan.EncryptFOpts", "lorawan.EncryptFRMPayload", "lorawan.decodeDataPayloadToMACCommands",
		"(lorawan.MACPayload).marshalPayload",
		"(lorawan.EUI64).MarshalBinary", "(lorawan.DevNonce).MarshalBinary", "(lorawan.MHDR).MarshalBinary",
		"(lorawan.NetID).MarshalBinary", "(lorawan.JoinNonce).MarshalBinary",
		"(*lorawan.DevAddr).SetAddrPrefix", "(lorawan.DevAddr).NwkID", "(lorawan.DevAddr).NetIDType",
		"(lorawan.NetID).ID", "(lorawan.NetID).Type",
		"(*lorawan.CFList).UnmarshalBinary", "(*lorawan.NetID).UnmarshalText", "(*lorawan.EUI64).UnmarshalText",
		"(lorawan.EUI64).String", "(lorawan.DevAddr).String", "(lorawan.NetID).String", "(lorawan.AES128Key).String",
		"(lorawan/backend.HEXBytes).String",
		// builtins and error constructors
		"len", "cap", "append", "copy", "dyn",
		"errors.New", "fmt.Errorf", "pkgerrors.New", "pkgerrors.Errorf", "pkgerrors.Wrap", "pkgerrors.Wrapf", "pkgerrors.Cause",
		"bytes.Equal", "encoding/hex.EncodeToString", "encoding/hex.DecodeString", "strings.TrimPrefix",
		"crypto/aes.NewCipher", "keywrap.Wrap", "keywrap.Unwrap", "time.Parse", "(time.Time).Format",
		"strconv.ParseFloat", "strconv.FormatFloat", "encoding/json.Marshal", "math.Round",
		"invoke error.Error", "invoke lorawan.Payload.MarshalBinary",
	} {
		knownPrimitive[n] = true
	}
}

// flowSelfTest runs the engine's matchers on the built-in positive fixture (analysed, never executed) and
// records one obligation per matcher: rules that are expected to report nothing on the real tree are only
// meaningful if their matcher can fire.
func flowSelfTest(c *Ctx) {
	const rule = "R0.selftest"
	c.Run.Rule(rule, "the flow matchers report the defects seeded in the built-in fixture and accept their correct twins")
	res, err := flow.SelfTest()
	if err != nil {
		c.Run.Unknown(rule, "fixture/build", "", "fixture type-checks and builds", err.Error())
		return
	}
	for _, r := range res {
		if r.Fired {
			c.Run.OK(rule, "fixture/"+r.Name, "", "matcher fires on the seeded defect only", "fired", false)
		} else {
			c.Run.Unknown(rule, "fixture/"+r.Name, "", "matcher fires on the seeded defect only", "did not behave as expected "+r.Got)
		}
	}
}
