package props

import (
	"fmt"
	"go/token"

	"lwverif/internal/absint"
)

// c16KeyBlocksE1 (rule C16-R1): session-key and JS-key derivation blocks of backend/joinserver, interpreted with
// AES as an uninterpreted function and compared with LoRaWAN 1.1 §6.2.5 / 1.0.x §6.2.5.
func c16KeyBlocksE1(c *Ctx, rule string) {
	r := c.Run
	const pk = "backend/joinserver"
	type sk struct {
		fn  string
		typ int
	}
	for _, k := range []sk{{"getFNwkSIntKey", 0x01}, {"getAppSKey", 0x02}, {"getSNwkSIntKey", 0x03}, {"getNwkSEncKey", 0x04}} {
		// OptNeg symbolic; when the code's shape makes the interpreter ask for a partition on it (a block builder whose
		// write position depends on the branch), once with OptNeg set and once unset
		if c16SKeyRun(c, rule, pk, k.fn, k.typ, -1, "") {
			continue
		}
		c16SKeyRun(c, rule, pk, k.fn, k.typ, 1, "/optNeg=true")
		c16SKeyRun(c, rule, pk, k.fn, k.typ, 0, "/optNeg=false")
	}
	for _, k := range []sk{{"getJSIntKey", 0x06}, {"getJSEncKey", 0x05}} {
		in := absint.NewInterp(c.Prog)
		d := in.D
		var key, devEUI absint.Value
		var res []absint.Value
		err := in.Try(func() {
			key = in.Sym("nwkKey", in.NamedType("", "AES128Key"), false)
			devEUI = in.Sym("devEUI", in.NamedType("", "EUI64"), false)
			res = in.CallFunc(pk, k.fn, key, devEUI)
		})
		name := "joinserver." + k.fn
		if err != nil {
			r.Unknown(rule, name, "", "inside the interpreter's subset", err.Error())
			continue
		}
		if ev, _ := res[1].(*absint.ErrVal); ev == nil || ev.NonNil != absint.False {
			r.Bad(rule, name+"/error", "", "no error", in.Show(res[1]))
			continue
		}
		block := append([]absint.Value{d.Const(int64(k.typ), 8, false)}, arrayBytes(devEUI, true)...)
		for len(block) < 16 {
			block = append(block, d.Const(0, 8, false))
		}
		want := in.OpaqueBytes("AESenc", [][]absint.Value{arrayBytes(key, false), block}, 16, "")
		compareBytes(c, in, rule, name+"/key", "", arrayBytes(res[0], false), vals(want...), absint.True, nil)
		r.Saw("key derivations", fmt.Sprintf("%s: aes128_encrypt(NwkKey, %#02x | DevEUI | pad)", k.fn, k.typ))
	}
}

// c16SKeyRun interprets one session-key derivation; fixed < 0: OptNeg symbolic (returns false when the interpreter asks
// for a partition on it), 0 / 1: OptNeg constant.
func c16SKeyRun(c *Ctx, rule, pk, fn string, typ int, fixed int, sfx string) bool {
	r := c.Run
	{
		in := absint.NewInterp(c.Prog)
		d := in.D
		var key, netID, joinEUI absint.Value
		var optNeg, joinNonce, devNonce *absint.Bits
		var res []absint.Value
		dom := absint.True
		err := in.Try(func() {
			switch fixed {
			case 0:
				optNeg = d.Bool(absint.False)
			case 1:
				optNeg = d.Bool(absint.True)
			default:
				optNeg = d.Sym("optNeg", 1, false, false)
			}
			key = in.Sym("nwkKey", in.NamedType("", "AES128Key"), false)
			netID = in.Sym("netID", in.NamedType("", "NetID"), false)
			joinEUI = in.Sym("joinEUI", in.NamedType("", "EUI64"), false)
			joinNonce = d.Sym("joinNonce", 32, false, false)
			devNonce = d.Sym("devNonce", 16, false, false)
			dom = d.Cmp(token.LSS, joinNonce, d.Const(1<<24, 32, false))
			in.SetLive(dom)
			res = in.CallFunc(pk, fn, optNeg, key, netID, joinEUI, joinNonce, devNonce)
		})
		name := "joinserver." + fn + sfx
		if err != nil {
			if _, isSplit := err.(absint.SplitRequest); isSplit && fixed < 0 {
				return false
			}
			r.Unknown(rule, name, "", "inside the interpreter's subset", err.Error())
			return true
		}
		if ev, _ := res[1].(*absint.ErrVal); ev == nil || d.M.And(dom, ev.NonNil) != absint.False {
			r.Bad(rule, name+"/error", "", "no error for JoinNonce < 2^24", in.Show(res[1]))
			return true
		}
		on := optNeg.Bits()[0]
		jn := leBytes(joinNonce, 3)
		dn := leBytes(devNonce, 2)
		z := func(n int) []absint.Value {
			var out []absint.Value
			for i := 0; i < n; i++ {
				out = append(out, d.Const(0, 8, false))
			}
			return out
		}
		b11 := append(append(append(append([]absint.Value{d.Const(int64(typ), 8, false)}, jn...), arrayBytes(joinEUI, true)...), dn...), z(2)...)
		b10 := append(append(append(append([]absint.Value{d.Const(int64(typ), 8, false)}, jn...), arrayBytes(netID, true)...), dn...), z(7)...)
		block := make([]absint.Value, 16)
		for i := range block {
			block[i] = d.ITE(on, b11[i].(*absint.Bits), b10[i].(*absint.Bits))
		}
		want := in.OpaqueBytes("AESenc", [][]absint.Value{arrayBytes(key, false), block}, 16, "")
		compareBytes(c, in, rule, name+"/key", "", arrayBytes(res[0], false), vals(want...), dom,
			nil)
		r.Saw("key derivations", fmt.Sprintf("%s: aes128_encrypt(NwkKey, %#02x | JoinNonce | (OptNeg ? JoinEUI | DevNonce | pad : NetID | DevNonce | pad))", fn, typ))
	}
	return true
}
