package props

import (
	"fmt"

	"lwverif/internal/flow"
)

func init() { Register("C01", checkC01) }

const (
	mpFHDR = "MACPayload.*.FHDR"
)

// dataFrameVariants enumerates the structural configurations of data frames: FOpts length x FPort presence x FRMPayload length.
func dataFrameVariants() []avariant {
	var out []avariant
	for _, mt := range []int64{2, 3, 4, 5} {
		for n := 0; n <= 15; n++ {
			for _, sh := range []struct {
				port int // 0 absent, 1 present with value 0, 2 present with value 1..255
				m    int
			}{{0, 0}, {1, 0}, {2, 0}, {1, 1}, {2, 1}, {2, 17}, {2, 242}} {
				if sh.m == 242 && n != 0 && n != 15 {
					continue // the maximum-size payload is analysed with no and with full FOpts only
				}
				if sh.m == 242 {
					sh.m = 242 - n // MACPayload <= 250 bytes: N <= 242 - FOptsLen
				}
				if n > 0 && sh.port == 1 {
					continue // FPort 0 is not allowed together with FOpts
				}
				v := avariant{
					Name:     fmt.Sprintf("mtype%d/fopts%d/fport=%s/frm%d", mt, n, []string{"absent", "0", "1..255"}[sh.port], sh.m),
					NoStream: true,
					Dyn:      map[string]string{"MACPayload": ":MACPayload"},
					Fix:      map[string]int64{"MHDR.MType": mt, mpFHDR + ".FCtrl.fOptsLen": int64(n)},
					Lens:     map[string]int{},
					Where:    map[string][2]int64{},
					Equal:    [][2]string{{mpFHDR + ".FCtrl.ClassB", mpFHDR + ".FCtrl.FPending"}},
				}
				size := 1 + 7 + n + 4
				if n > 0 {
					v.Lens[mpFHDR+".FOpts"] = 1
					v.Dyn[mpFHDR+".FOpts[0]"] = ":DataPayload"
					v.Lens[mpFHDR+".FOpts[0].*.Bytes"] = n
				}
				if sh.port > 0 {
					v.NonNil = []string{"MACPayload.*.FPort"}
					size++
					if sh.port == 1 {
						v.Fix["MACPayload.*.FPort.*"] = 0
					} else {
						v.Where["MACPayload.*.FPort.*"] = [2]int64{1, 255}
					}
				}
				if sh.m > 0 {
					v.Lens["MACPayload.*.FRMPayload"] = 1
					v.Dyn["MACPayload.*.FRMPayload[0]"] = ":DataPayload"
					v.Lens["MACPayload.*.FRMPayload[0].*.Bytes"] = sh.m
					size += sh.m
				}
				v.Size = size
				out = append(out, v)
			}
		}
	}
	// stale bookkeeping: FCtrl.fOptsLen is unexported and recomputed by the encoder; a value left over from an
	// earlier decode must not reach the wire (the encoder must derive the nibble from the FOpts actually present)
	for _, n := range []int{0, 3} {
		v := avariant{Name: fmt.Sprintf("mtype2/fopts%d/stale-foptslen", n), NoStream: true,
			Dyn:    map[string]string{"MACPayload": ":MACPayload"},
			Fix:    map[string]int64{"MHDR.MType": 2},
			Lens:   map[string]int{},
			NonNil: []string{"MACPayload.*.FPort"},
			Where:  map[string][2]int64{"MACPayload.*.FPort.*": {1, 255}},
			Equal:  [][2]string{{mpFHDR + ".FCtrl.ClassB", mpFHDR + ".FCtrl.FPending"}},
			Ignore: []string{mpFHDR + ".FCtrl.fOptsLen"},
			Size:   1 + 7 + n + 1 + 4}
		if n > 0 {
			v.Lens[mpFHDR+".FOpts"] = 1
			v.Dyn[mpFHDR+".FOpts[0]"] = ":DataPayload"
			v.Lens[mpFHDR+".FOpts[0].*.Bytes"] = n
		}
		out = append(out, v)
	}
	// the same with FPort 0 (MAC commands in the FRMPayload, no FOpts): a stale non-zero nibble must not make the
	// encoder believe that FOpts are present and refuse the frame
	for _, m := range []int{0, 1} {
		v := avariant{Name: fmt.Sprintf("mtype2/fopts0/fport=0/frm%d/stale-foptslen", m), NoStream: true,
			Dyn:    map[string]string{"MACPayload": ":MACPayload"},
			Fix:    map[string]int64{"MHDR.MType": 2, "MACPayload.*.FPort.*": 0},
			Lens:   map[string]int{},
			NonNil: []string{"MACPayload.*.FPort"},
			Where:  map[string][2]int64{},
			Equal:  [][2]string{{mpFHDR + ".FCtrl.ClassB", mpFHDR + ".FCtrl.FPending"}},
			Ignore: []string{mpFHDR + ".FCtrl.fOptsLen"},
			Size:   1 + 7 + 1 + m + 4}
		if m > 0 {
			v.Lens["MACPayload.*.FRMPayload"] = 1
			v.Dyn["MACPayload.*.FRMPayload[0]"] = ":DataPayload"
			v.Lens["MACPayload.*.FRMPayload[0].*.Bytes"] = m
		}
		out = append(out, v)
	}
	return out
}

func phySpec() aspec {
	vs := dataFrameVariants()
	vs = append(vs,
		avariant{Name: "join-request", Size: 23, NoStream: true, Dyn: map[string]string{"MACPayload": ":JoinRequestPayload"}, Fix: map[string]int64{"MHDR.MType": 0}},
		avariant{Name: "rejoin-request-0", Size: 19, NoStream: true, Dyn: map[string]string{"MACPayload": ":RejoinRequestType02Payload"}, Fix: map[string]int64{"MHDR.MType": 6, "MACPayload.*.RejoinType": 0}},
		avariant{Name: "rejoin-request-2", Size: 19, NoStream: true, Dyn: map[string]string{"MACPayload": ":RejoinRequestType02Payload"}, Fix: map[string]int64{"MHDR.MType": 6, "MACPayload.*.RejoinType": 2}},
		avariant{Name: "rejoin-request-1", Size: 24, NoStream: true, Dyn: map[string]string{"MACPayload": ":RejoinRequestType1Payload"}, Fix: map[string]int64{"MHDR.MType": 6, "MACPayload.*.RejoinType": 1}},
		avariant{Name: "join-accept-encrypted-12", Size: 17, NoStream: true, Dyn: map[string]string{"MACPayload": ":DataPayload"}, Fix: map[string]int64{"MHDR.MType": 1}, Lens: map[string]int{"MACPayload.*.Bytes": 12}},
		avariant{Name: "join-accept-encrypted-28", Size: 33, NoStream: true, Dyn: map[string]string{"MACPayload": ":DataPayload"}, Fix: map[string]int64{"MHDR.MType": 1}, Lens: map[string]int{"MACPayload.*.Bytes": 28}},
		avariant{Name: "proprietary-0", Size: 5, NoStream: true, Dyn: map[string]string{"MACPayload": ":DataPayload"}, Fix: map[string]int64{"MHDR.MType": 7}},
		avariant{Name: "proprietary-9", Size: 14, NoStream: true, Dyn: map[string]string{"MACPayload": ":DataPayload"}, Fix: map[string]int64{"MHDR.MType": 7}, Lens: map[string]int{"MACPayload.*.Bytes": 9}},
	)
	return aspec{Pkg: "", Type: "PHYPayload", Dir: "",
		Widths:   map[string]int{"MHDR.Major": 2, mpFHDR + ".FCnt": 16},
		Variants: vs}
}

func joinAcceptSpec() aspec {
	w := map[string]int{"JoinNonce": 24, "RXDelay": 4, "DLSettings.RX2DataRate": 4, "DLSettings.RX1DROffset": 3}
	chm := func(name string, pattern string) avariant {
		v := avariant{Name: name, Size: 28, NoStream: true, NonNil: []string{"CFList"}, Dyn: map[string]string{"CFList.*.Payload": ":CFListChannelMaskPayload"},
			Fix: map[string]int64{"CFList.*.CFListType": 1}, Lens: map[string]int{"CFList.*.Payload.*.ChannelMasks": len(pattern)}}
		for i, ch := range pattern {
			p := fmt.Sprintf("CFList.*.Payload.*.ChannelMasks[%d]", i)
			if ch == 'N' {
				v.AnyTrue = append(v.AnyTrue, p)
			} else {
				v.AllFalse = append(v.AllFalse, p)
			}
		}
		return v
	}
	return aspec{Pkg: "", Type: "JoinAcceptPayload", Dir: "down", Widths: w, Freq100: []string{"CFList.*.Payload.*.Channels"}, Variants: []avariant{
		{Name: "no-cflist", Size: 12, NoStream: true},
		{Name: "cflist-channels", Size: 28, NoStream: true, NonNil: []string{"CFList"}, Dyn: map[string]string{"CFList.*.Payload": ":CFListChannelPayload"}, Fix: map[string]int64{"CFList.*.CFListType": 0}},
		chm("cflist-mask-N", "N"), chm("cflist-mask-NN", "NN"), chm("cflist-mask-ZN", "ZN"), chm("cflist-mask-NZN", "NZN"),
		chm("cflist-mask-NNNNN", "NNNNN"), chm("cflist-mask-NNNNNN", "NNNNNN"), chm("cflist-mask-ZZZZN", "ZZZZN"),
	}}
}

func checkC01(c *Ctx) {
	r := c.Run
	r.Exhaustive = true
	r.Explanation = "Decides C01's binary round-trip clauses with the bit-precise abstract interpreter (engine E1). For every structural configuration of a frame — 4 data MTypes x FOpts length 0..15 x FPort absent / 0 / 1..255 x FRMPayload length {0,1,17}, join-request, the three rejoin types, opaque (encrypted) join-accept of 12/28 bytes, proprietary — PHYPayload.MarshalBinary is interpreted on a value whose every scalar is symbolic (within the specification widths: FCnt modulo 2^16, FPort>=1 when FOpts are present) and PHYPayload.UnmarshalBinary is interpreted on the resulting abstract bytes; proved for all field values at once: encoding succeeds, the length is the sum of the parts, and every leaf of the decoded frame equals the original (FOpts/FRMPayload as the bytes they carry). The same is done for JoinAcceptPayload without CFList, with a channel CFList (frequencies parametrised as 100·q) and with channel-mask CFLists in 7 zero/non-zero mask patterns, and for the fixed-layout sub-structures. FCtrl.ClassB and FCtrl.FPending share one wire bit and are constrained equal (declared alias). The base64 text form delegates to the binary codec (rule R4, call-structure check). Not covered: MAC-command level equality of FOpts/FRMPayload contents (C07), channel-mask lists ending in an all-zero mask (the decoder trims them by design)."
	r.Trusted = []string{"internal/absint BDD domain and operator semantics", "models of encoding/binary, append, copy, make", "encoding/base64"}
	r.Rule("R1.inverse", "decode(encode(v)) = v leaf by leaf for every spec-valid value of every structural configuration")
	r.Rule("R2.length", "encoding succeeds for every spec-valid value and has the length of its parts")
	r.Rule("R3.fixed", "fixed-layout sub-structures (MHDR, join/rejoin payloads, identifiers, DLSettings) invert exactly")
	r.Rule("R5.command-inverse", "every MAC command payload a frame can carry in FOpts or on port 0 decodes back to the value that was encoded, for every accepted value (FOpts and FRMPayload are compared as the MAC commands they carry)")
	r.Rule("R4.text", "MarshalText/UnmarshalText delegate to the binary codec through base64.StdEncoding")
	for _, sp := range []aspec{phySpec(), joinAcceptSpec()} {
		res := runApp(c, sp)
		r.Saw("types analysed", sp.Type)
		for _, v := range sp.Variants {
			r.Saw("structural configurations", sp.Type+"/"+v.Name)
		}
		emitFacts(c, res, "R1.inverse", "app.inv", "undecided")
		emitFacts(c, res, "R2.length", "app.accept", "app.size")
	}
	for _, s := range frameSpecs {
		if s.Type == "FCtrl" || s.Type == "FHDR" {
			// not injective by design (ClassB and FPending share a wire bit, FCnt travels with 16 of its 32 bits): their
			// round trip is decided inside whole frames by R1, where the decoded counter is compared modulo 2^16 and
			// the shared bit by direction; their absolute layout is C06's
			continue
		}
		res := runCodec(c, s)
		r.Saw("types analysed", s.name())
		emitFacts(c, res, "R3.fixed", "inv", "enc.size", "undecided")
	}
	c01Text(c)
	// the MAC commands inside FOpts / a port-0 FRMPayload: the frame-level runs above use a few command types as
	// stand-ins; the per-payload inverse for all of them is the codec analysis C07 is built on
	for _, s := range macSpecs {
		res := runCodec(c, s)
		r.Saw("MAC command codecs analysed", s.name())
		emitFacts(c, res, "R5.command-inverse", "inv")
	}
}

// c01Text: PHYPayload.MarshalText = base64.StdEncoding.EncodeToString(MarshalBinary()), UnmarshalText the converse.
func c01Text(c *Ctx) {
	const rule = "R4.text"
	const b64 = "(*encoding/base64.Encoding)."
	std := flow.Global("encoding/base64.StdEncoding")
	// MarshalText: the only successful result is []byte(base64.StdEncoding.EncodeToString(MarshalBinary(p)))
	if fn := flowFn(c, rule, "", "PHYPayload.MarshalText"); fn != nil {
		e := flow.For(fn)
		bin := flow.Call("(lorawan.PHYPayload).MarshalBinary", flow.Param(0))
		want := flow.Conv("[]byte", flow.Call(b64+"EncodeToString", std, flow.Extract(bin, 0)))
		n := 0
		for _, r := range flow.Returns(fn) {
			if !mayReturnNil(e, r, errIndex(fn)) {
				continue
			}
			n++
			checkTerm(c, rule, fmt.Sprintf("%s/success#%d", fnKey(fn), n), ipos(c, r), "text form", e.Select(r.Results[0], nil, r), want)
		}
		if n == 0 {
			c.Run.Unknown(rule, fnKey(fn)+"/success", fpos(c, fn), "a return with a nil error", "none")
		}
	}
	// UnmarshalText: the binary decoder is called exactly once, on base64.StdEncoding.DecodeString(string(text)), and
	// only when that decoding succeeded; no other interpretation of the text is tried first
	if fn := flowFn(c, rule, "", "PHYPayload.UnmarshalText"); fn != nil {
		e := flow.For(fn)
		dec := flow.Call(b64+"DecodeString", std, flow.Conv("string", flow.Param(1)))
		sites := flow.Calls(fn, flow.Named("(*lorawan.PHYPayload).UnmarshalBinary"))
		c.Run.Check(len(sites) == 1, rule, fnKey(fn)+"/decode-sites", fpos(c, fn), "exactly one call of UnmarshalBinary (one interpretation of the text)", fmt.Sprintf("%d calls", len(sites)), true)
		for i, s := range sites {
			key := fmt.Sprintf("%s/decode#%d", fnKey(fn), i+1)
			if len(s.Args) == 2 {
				checkTerm(c, rule, key+"/receiver", ipos(c, s.Instr), "receiver", s.Args[0], flow.Param(0))
				checkTerm(c, rule, key+"/input", ipos(c, s.Instr), "decoded bytes", s.Args[1], flow.Extract(dec, 0))
			}
			pc := e.PathCond(s.Instr.Block(), nil)
			okGuard := flow.Implies(pc, flow.Eq(flow.Extract(dec, 1), flow.Nil()))
			c.Run.Check(okGuard, rule, key+"/guard", ipos(c, s.Instr), "reached only when the base64 decoding returned no error", pc.String(), true)
		}
	}
}
