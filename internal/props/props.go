// Package props wires rules (built on the engines) to properties.
package props

import (
	"encoding/json"
	"fmt"
	"os"
	"path/filepath"
	"sync"

	"lwverif/internal/core"
	"lwverif/internal/load"
	"lwverif/internal/tables"
)

type Ctx struct {
	Prog     *load.Program
	Run      *core.Run
	VerifDir string
	Tier     string

	bandsOnce sync.Once
	bands     *tables.Bands
	bandsErr  error
	seen      map[string]bool
}

type CheckFn func(*Ctx)

var registry = map[string]CheckFn{}

func Register(id string, fn CheckFn) { registry[id] = fn }
func Get(id string) CheckFn          { return registry[id] }
func IDs() []string {
	var out []string
	for k := range registry {
		out = append(out, k)
	}
	return out
}

// Spec loads a JSON oracle from /verif/spec.
func (c *Ctx) Spec(name string, into interface{}) error {
	b, err := os.ReadFile(filepath.Join(c.VerifDir, "spec", name))
	if err != nil {
		return err
	}
	if err := json.Unmarshal(b, into); err != nil {
		return fmt.Errorf("spec/%s: %v", name, err)
	}
	return nil
}

func (c *Ctx) Bands() (*tables.Bands, error) {
	c.bandsOnce.Do(func() { c.bands, c.bandsErr = tables.EvalBands(c.Prog) })
	return c.bands, c.bandsErr
}

// Dump prints engine views for debugging / DESIGN measurements.
func Dump(p *load.Program, what string, args []string) {
	switch what {
	case "bands":
		b, err := tables.EvalBands(p)
		if err != nil {
			fmt.Println("error:", err)
			return
		}
		for _, pr := range b.Problems {
			fmt.Println("PROBLEM", pr)
		}
		for _, c := range b.Configs {
			drs, err := c.DataRates()
			up, err2 := c.Channels("uplinkChannels")
			dn, err3 := c.Channels("downlinkChannels")
			cells, err4 := c.PayloadCells()
			rx1, _, err5 := c.RX1Table()
			fmt.Printf("%s ctor=%s extra=%s type=%s drs=%d up=%d down=%d cells=%d rx1rows=%d errs=%v %v %v %v %v\n", c.ID(), c.Ctor, c.ExtraArgs, c.TypeName, len(drs), len(up), len(dn), len(cells), len(rx1), err, err2, err3, err4, err5)
			if len(args) > 0 && args[0] == "-v" {
				for _, d := range drs {
					fmt.Printf("   DR%d up=%v down=%v %s\n", d.Index, d.Uplink, d.Downlink, d.Params())
				}
				for k, row := range rx1 {
					fmt.Printf("   rx1[%d]=%v\n", k, row)
				}
				if len(up) > 0 {
					fmt.Printf("   up[0]=%+v up[last]=%+v\n", up[0], up[len(up)-1])
				}
			}
		}
	default:
		if f, ok := dumpers[what]; ok {
			f(p, args)
			return
		}
		fmt.Println("dump: bands |", dumperNames())
	}
}

var dumpers = map[string]func(*load.Program, []string){}

func dumperNames() []string {
	var out []string
	for k := range dumpers {
		out = append(out, k)
	}
	return out
}
