package props

import (
	"fmt"
	"go/token"
	"go/types"
	"sort"
	"strings"

	"golang.org/x/tools/go/ssa"

	"lwverif/internal/effects"
	"lwverif/internal/load"
)

// C10 — isolation: no aliasing of caller buffers, no hidden shared state, lock discipline.
// All rules are built on engine E4 (internal/effects); see DESIGN §2.5 and §3 C10.

func init() { Register("C10", checkC10) }

func checkC10(c *Ctx) {
	r := c.Run
	r.Explanation = "Summary-based loc/reach effect analysis over go/ssa of all 11 packages (fixpoint over function summaries, VTA call graph, type-indexed heap, stdlib effect table). " +
		"R1: no decoder stores a value reaching its input slice into the receiver. R2: no Marshal*/Value/String returns receiver (or global) memory. " +
		"R3: exported functions never append in place to caller-visible slices (unless the owner keeps the result) nor reslice a written parameter beyond len. " +
		"R4: Validate*/Marshal*/calculate*/Size/String/isUplink write nothing through receiver, parameters or globals. " +
		"R5: definite assignment of every receiver leaf on every possibly-successful return of every decoder (old-value independent). " +
		"R6: band constructors return memory that reaches no package-level variable; no reference-typed band global is written after init. " +
		"R7: inventory of all package-level variables; those written after init are accessed only under their mutex, and no return leaves it locked."
	r.Assumptions = []string{
		"go/types, go/ssa and the VTA call graph are correct; reflection and unsafe are not used to reach the analysed state",
		"functions outside the module behave as listed in internal/effects/stdlib.go (reviewed table: binary.Put*, cipher.Block, hash.Hash, copy/append semantics, hex/base64/json return fresh memory); user-supplied callbacks do not touch library state",
		"R5 does not track control dependence on old field values (`if p.old {…}`)",
		"R3 does not prove that plain sub-slicing s[a:b] stays below len(s); cap()-based and 3-index reslicing of written parameters is reported",
		"race freedom of stdlib internals (log, aes, sync.Map) is trusted; R7 is lock discipline, not schedule exploration",
	}
	r.Trusted = []string{"go/packages, go/types, go/ssa, callgraph/vta", "internal/effects/stdlib.go effect table"}

	info := effectsFor(c.Prog)
	r.Note("E4: %d module functions summarised in %d rounds", len(info.Funcs), info.A.Rounds)
	for _, f := range info.Funcs {
		if f.Synthetic == "" {
			r.Saw("functions summarised", funcKey(f))
		}
	}
	var unlisted []string
	for k, v := range info.A.ExtSeen {
		if v == "" {
			unlisted = append(unlisted, k)
		}
	}
	sort.Strings(unlisted)
	r.Note("external callees without an effect-table entry (opaque): %d %v", len(unlisted), unlisted)

	c10R1(c, info)
	c10R2(c, info)
	c10R3(c, info)
	c10R4(c, info)
	c10R5(c, info)
	c10R6(c, info)
	c10R7(c, info)
	c10R8(c, info)
	c10Fixture(c)
}

// ---------------------------------------------------------------------------------------------
// root selection

func isUserFunc(f *ssa.Function) bool {
	return f.Synthetic == "" && f.Parent() == nil && f.Blocks != nil
}

// decoderRoots: pointer-receiver methods Unmarshal* / Scan of all packages.
func decoderRoots(info *effectsInfo) []*ssa.Function {
	var out []*ssa.Function
	for _, f := range info.Funcs {
		if !isUserFunc(f) || !isPtrRecv(f) {
			continue
		}
		if strings.HasPrefix(f.Name(), "Unmarshal") || f.Name() == "Scan" {
			out = append(out, f)
		}
	}
	return out
}

// inputParams: indices (>= 1) of parameters through which a decoder receives caller memory.
func inputParams(f *ssa.Function) []int {
	var out []int
	start := 0
	if f.Signature.Recv() != nil {
		start = 1
	}
	for i := start; i < len(f.Params); i++ {
		if effects.HasRef(f.Params[i].Type()) {
			out = append(out, i)
		}
	}
	return out
}

func posOf(c *Ctx, e *effects.Effect) string {
	if e == nil {
		return ""
	}
	return c.Prog.Rel(e.Pos)
}

// ---------------------------------------------------------------------------------------------
// R1 NO-RETAIN

func c10R1(c *Ctx, info *effectsInfo) {
	const rule = "R1.noretain"
	r := c.Run
	r.Rule(rule, "decoders never store a value that reaches their input slice into the receiver (a decoded frame must not change when the caller overwrites the buffer)")
	noRetainObligations(c, info, rule, nil)
}

// noRetainObligations: for every decoder root accepted by pick (nil: all), the receiver keeps no reference into an
// input parameter.
func noRetainObligations(c *Ctx, info *effectsInfo, rule string, pick func(*ssa.Function) bool) {
	r := c.Run
	for _, f := range decoderRoots(info) {
		if pick != nil && !pick(f) {
			continue
		}
		s := info.A.Sums[f]
		for _, pi := range inputParams(f) {
			key := fmt.Sprintf("%s/%s", funcKey(f), f.Params[pi].Name())
			src := fmt.Sprintf("P%d", pi)
			var w *effects.Effect
			for _, dst := range sortedStr(s.Retains) {
				// destinations that outlive the call: the receiver and package-level variables
				if effects.ParamIndex(dst) != 0 && effects.GlobalName(dst) == "" {
					continue
				}
				if e, ok := s.Retains[dst][src]; ok && w == nil {
					w = e
				}
			}
			if w != nil {
				r.Bad(rule, key, posOf(c, w), "receiver keeps no reference into parameter "+f.Params[pi].Name(), "retained: "+w.Chain())
			} else {
				r.OK(rule, key, c.Prog.Rel(f.Pos()), "receiver keeps no reference into parameter "+f.Params[pi].Name(), "retains(receiver) does not include it", true)
			}
		}
	}
}

// ---------------------------------------------------------------------------------------------
// R2 NO-LEAK

func isEncoderName(n string) bool {
	return strings.HasPrefix(n, "Marshal") || strings.HasPrefix(n, "marshal") || n == "Value" || n == "String" || n == "Bytes"
}

func c10R2(c *Ctx, info *effectsInfo) {
	const rule = "R2.noleak"
	r := c.Run
	r.Rule(rule, "Marshal*/Value/String never return a slice whose backing array is receiver memory or a package-level variable (encoded output must be private)")
	for _, f := range info.Funcs {
		if !isUserFunc(f) || f.Signature.Recv() == nil || !isEncoderName(f.Name()) {
			continue
		}
		s := info.A.Sums[f]
		for i := 0; i < f.Signature.Results().Len(); i++ {
			rt := f.Signature.Results().At(i).Type()
			if !effects.AddrLike(rt) || isErrorT(rt) {
				continue
			}
			key := fmt.Sprintf("%s/result%d", funcKey(f), i)
			var bad []string
			for _, l := range s.RetLoc[i].Sorted() {
				if effects.ParamIndex(l) == 0 || effects.GlobalName(l) != "" {
					bad = append(bad, l)
				}
			}
			if len(bad) > 0 {
				r.Bad(rule, key, c.Prog.Rel(f.Pos()), "result designates fresh memory", "result backing array may be "+strings.Join(bad, ",")+" (P0 = the receiver's own memory)")
			} else {
				r.OK(rule, key, c.Prog.Rel(f.Pos()), "result designates fresh memory", "loc(result)="+s.RetLoc[i].String(), true)
			}
		}
	}
}

func isErrorT(t types.Type) bool {
	n, ok := t.(*types.Named)
	return ok && n.Obj().Pkg() == nil && n.Obj().Name() == "error"
}

// ---------------------------------------------------------------------------------------------
// R3 NO-OUTSIDE-WRITE

func isExportedEntry(f *ssa.Function) bool {
	if !isUserFunc(f) {
		return false
	}
	return token.IsExported(f.Name()) && !inInternalPkg(f)
}

// inInternalPkg: the function lives in a package under internal/: exported there means "usable by the module's other
// packages", not "API" — its callers are all in the module and are analysed.
func inInternalPkg(f *ssa.Function) bool {
	if f == nil || f.Pkg == nil {
		return false
	}
	p := f.Pkg.Pkg.Path()
	return strings.Contains(p, "/internal/") || strings.HasSuffix(p, "/internal")
}

func c10R3(c *Ctx, info *effectsInfo) {
	const ruleA = "R3.append"
	const ruleW = "R3.within"
	r := c.Run
	r.Rule(ruleA, "exported functions never append in place to a slice whose backing array is caller-visible, unless the result is stored back to where the slice came from (spare capacity belongs to the caller)")
	r.Rule(ruleW, "exported functions that write through a []byte parameter address it only within [0,len): no cap()-based or 3-index reslicing of that parameter")
	for _, f := range info.Funcs {
		if !isExportedEntry(f) {
			continue
		}
		s := info.A.Sums[f]
		key := funcKey(f)
		var bad []string
		var pos string
		for _, l := range sortedStr(s.Appends) {
			for _, e := range s.Appends[l] {
				bad = append(bad, fmt.Sprintf("%s: %s", l, e.Chain()))
				if pos == "" {
					pos = posOf(c, e)
				}
			}
		}
		if len(bad) > 0 {
			r.Bad(ruleA, key, pos, "no in-place append on caller-visible memory", strings.Join(bad, "; "))
		} else {
			n := 0
			for _, as := range info.A.Facts[f].AppendSites {
				if as.StoredBack {
					n++
				}
			}
			r.OK(ruleA, key, c.Prog.Rel(f.Pos()), "no in-place append on caller-visible memory", fmt.Sprintf("append effects on parameters/globals: none (%d owner-stored-back sites)", n), n > 0)
		}
		// writes through slice parameters
		for i, p := range f.Params {
			sl, ok := p.Type().Underlying().(*types.Slice)
			if !ok {
				continue
			}
			if b, ok := sl.Elem().Underlying().(*types.Basic); !ok || b.Kind() != types.Uint8 {
				continue
			}
			root := fmt.Sprintf("P%d", i)
			ws := s.WritesRoot(root)
			if len(ws) == 0 {
				continue
			}
			k2 := fmt.Sprintf("%s/%s", key, p.Name())
			if site := resliceBeyondLen(info, f, root); site != "" {
				r.Bad(ruleW, k2, c.Prog.Rel(f.Pos()), "parameter "+p.Name()+" is written only within [0,len)", "resliced beyond len: "+site)
			} else {
				r.OK(ruleW, k2, posOf(c, ws[0]), "parameter "+p.Name()+" is written only within [0,len)", "writes: "+ws[0].Chain()+"; no cap()/3-index reslice of it", true)
			}
		}
	}
}

// resliceBeyondLen looks, in f and its transitive in-module callees that write root, for cap(x)
// or x[a:b:c] applied to a value whose backing array may be the parameter.
func resliceBeyondLen(info *effectsInfo, f *ssa.Function, root string) string {
	facts := info.A.Facts[f]
	if facts == nil {
		return ""
	}
	for _, b := range f.Blocks {
		for _, ins := range b.Instrs {
			switch x := ins.(type) {
			case *ssa.Slice:
				if x.Max != nil && locHasRoot(facts.L[x.X], root) {
					return "3-index slice of " + x.X.Name()
				}
			case *ssa.Call:
				if bi, ok := x.Call.Value.(*ssa.Builtin); ok && bi.Name() == "cap" && locHasRoot(facts.L[x.Call.Args[0]], root) {
					return "cap() of the parameter's slice"
				}
			}
		}
	}
	return ""
}

func locHasRoot(s effects.Set, root string) bool {
	for l := range s {
		if effects.RootOf(l) == root {
			return true
		}
	}
	return false
}

// ---------------------------------------------------------------------------------------------
// R4 READ-ONLY

func isReadOnlyName(n string) bool {
	return strings.HasPrefix(n, "Validate") || strings.HasPrefix(n, "Marshal") || strings.HasPrefix(n, "calculate") ||
		n == "Size" || n == "String" || n == "isUplink" || n == "marshalPayload" || n == "Value"
}

func c10R4(c *Ctx, info *effectsInfo) {
	const rule = "R4.readonly"
	r := c.Run
	r.Rule(rule, "Validate*, Marshal*, calculate*, Size, String, Value, isUplink and their callees write nothing through the receiver, parameters or package-level variables")
	for _, f := range info.Funcs {
		if !isUserFunc(f) || !isReadOnlyName(f.Name()) {
			continue
		}
		readOnlyObligation(c, info, rule, f)
	}
}

func readOnlyObligation(c *Ctx, info *effectsInfo, rule string, f *ssa.Function) {
	r := c.Run
	s := info.A.Sums[f]
	key := funcKey(f)
	var bad, opq []string
	pos := ""
	for _, l := range sortedStr(s.Writes) {
		for _, e := range s.Writes[l] {
			bad = append(bad, fmt.Sprintf("%s: %s", l, e.Chain()))
			if pos == "" {
				pos = posOf(c, e)
			}
		}
	}
	for _, l := range sortedStr(s.Appends) {
		for _, e := range s.Appends[l] {
			bad = append(bad, fmt.Sprintf("%s: %s", l, e.Chain()))
			if pos == "" {
				pos = posOf(c, e)
			}
		}
	}
	for _, l := range sortedStr(s.Opaque) {
		for _, e := range s.Opaque[l] {
			opq = append(opq, fmt.Sprintf("%s: %s", l, e.Chain()))
		}
	}
	want := "writes-through(receiver, parameters, globals) is empty"
	switch {
	case len(bad) > 0:
		r.Bad(rule, key, pos, want, strings.Join(bad, "; "))
	case len(opq) > 0:
		r.Unknown(rule, key, c.Prog.Rel(f.Pos()), want, "caller-visible memory passed to callee without effect-table entry: "+strings.Join(opq, "; "))
	default:
		nontrivial := len(f.Params) > 0 && effects.HasRef(f.Params[0].Type())
		r.OK(rule, key, c.Prog.Rel(f.Pos()), want, "summary has no write, append or opaque effect on non-fresh memory", nontrivial)
	}
}

// ---------------------------------------------------------------------------------------------
// R5 MUST-OVERWRITE

func c10R5(c *Ctx, info *effectsInfo) {
	const rule = "R5.overwrite"
	r := c.Run
	r.Rule(rule, "on every possibly-successful return of every decoder each leaf of the receiver has been assigned a value independent of its previous content (decoding into a used value equals decoding into a fresh one)")
	ma := effects.NewMustAssigner(info.A)
	for _, f := range decoderRoots(info) {
		res := ma.Analyse(f, 0)
		if res == nil {
			r.Unknown(rule, funcKey(f), c.Prog.Rel(f.Pos()), "receiver fully overwritten", "definite-assignment analysis not applicable")
			continue
		}
		r.Saw("decoders analysed for must-overwrite", funcKey(f))
		if len(res.Leaves) == 0 {
			r.OK(rule, funcKey(f)+"/(no fields)", c.Prog.Rel(f.Pos()), "receiver fully overwritten", "receiver type has no fields", false)
			continue
		}
		if res.Returns == 0 {
			r.Unknown(rule, funcKey(f), c.Prog.Rel(f.Pos()), "receiver fully overwritten", "no possibly-successful return found")
			continue
		}
		for _, ls := range res.Leaves {
			key := funcKey(f) + "/" + ls.Leaf.Name
			want := "assigned on every path to a nil-error return, independent of the old value"
			switch {
			case ls.Clean:
				r.OK(rule, key, c.Prog.Rel(f.Pos()), want, fmt.Sprintf("definitely assigned at all %d successful returns", res.Returns), true)
			case ls.Unknown:
				r.Unknown(rule, key, c.Prog.Rel(ls.Pos), want, ls.Reason)
			default:
				r.Bad(rule, key, c.Prog.Rel(ls.Pos), want, ls.Reason)
			}
		}
	}
}

// ---------------------------------------------------------------------------------------------
// R6 FRESH-BAND

func c10R6(c *Ctx, info *effectsInfo) {
	const ruleC = "R6.freshband"
	const ruleG = "R6.bandglobals"
	r := c.Run
	r.Rule(ruleC, "every band constructor returns memory that is fresh per call and reaches no package-level variable (two band objects share no backing array)")
	r.Rule(ruleG, "no package-level variable of reference type in package band is written after init")
	sp := c.Prog.SSAPkg("band")
	if sp == nil {
		r.Unknown(ruleC, "band", "", "package band loaded", "missing")
		return
	}
	freshBandObligations(c, info, ruleC)
	writers := globalWriters(info)
	for _, name := range sortedStr(sp.Members) {
		g, ok := sp.Members[name].(*ssa.Global)
		if !ok || strings.HasPrefix(name, "init$") {
			continue
		}
		elem := g.Type().(*types.Pointer).Elem()
		if !effects.HasRef(elem) {
			continue
		}
		gk := effects.GlobalName(effects.GlobalKey(g))
		key := "band." + name
		onceOnly := len(writers[gk]) > 0
		for _, w := range writers[gk] {
			if info.A.OnceInit[w.Instr.Parent()] == "" {
				onceOnly = false
			}
		}
		if onceOnly {
			// written only by a function literal that runs once under a package-level sync.Once (lazy initialisation; that
			// every reader is ordered after the Do is R7.globals)
			r.OK(ruleG, key, c.Prog.Rel(g.Pos()), "never written after init", "written only by a sync.Once literal ("+info.A.OnceInit[writers[gk][0].Instr.Parent()]+")", false)
		} else if ws := writers[gk]; len(ws) > 0 {
			r.Bad(ruleG, key, c.Prog.Rel(ws[0].Instr.Pos()), "never written after init", fmt.Sprintf("written by %s: %s", funcKey(ws[0].Instr.Parent()), ws[0].Desc))
		} else {
			r.OK(ruleG, key, c.Prog.Rel(g.Pos()), "never written after init", "no store outside package initialisation", false)
		}
	}
}

// ---------------------------------------------------------------------------------------------
// R8 FACTORIES

// c10R8: the decoders obtain the value they decode a command into from a factory — a function literal without
// parameters, kept in a registry (`func() MACCommandPayload { return &LinkADRReqPayload{} }`). Two decoded frames share
// no state only if every call of a factory returns memory allocated by that call: a literal that returns a captured
// or package-level object hands the same object to every frame.
func c10R8(c *Ctx, info *effectsInfo) {
	const rule = "R8.factories"
	r := c.Run
	r.Rule(rule, "every parameterless function literal that returns a pointer or interface value (the payload factories of the command registries) returns memory that is fresh per call and reaches no captured or package-level variable")
	for _, f := range info.Funcs {
		if f.Parent() == nil || f.Signature.Params().Len() != 0 || f.Signature.Recv() != nil || f.Signature.Results().Len() != 1 || f.Blocks == nil {
			continue
		}
		rt := f.Signature.Results().At(0).Type()
		switch rt.Underlying().(type) {
		case *types.Pointer, *types.Interface:
		default:
			continue
		}
		if isErrorType(rt) {
			continue
		}
		s := info.A.Sums[f]
		if s == nil || len(s.RetReach) == 0 {
			continue
		}
		key := funcKey(f)
		want := "reach(result) ⊆ {Fresh}"
		var shared []string
		for _, e := range s.RetReach[0].Sorted() {
			if e != "F" {
				shared = append(shared, e)
			}
		}
		for _, e := range s.RetLoc[0].Sorted() {
			if e != "F" {
				shared = append(shared, "loc:"+e)
			}
		}
		switch {
		case len(shared) > 0:
			r.Bad(rule, key, c.Prog.Rel(f.Pos()), want, "the returned value reaches "+strings.Join(shared, ",")+" (X: a variable captured from the enclosing function): every call hands out the same object")
		case !s.RetReach[0].Has("F") && !s.RetLoc[0].Has("F"):
			r.OK(rule, key, c.Prog.Rel(f.Pos()), want, "returns no memory (nil or a value without references)", false)
		default:
			r.OK(rule, key, c.Prog.Rel(f.Pos()), want, "loc="+s.RetLoc[0].String()+" reach="+s.RetReach[0].String(), true)
		}
	}
}

func isErrorType(t types.Type) bool {
	n, ok := t.(*types.Named)
	return ok && n.Obj().Pkg() == nil && n.Obj().Name() == "error"
}

// ---------------------------------------------------------------------------------------------
// R7 GLOBALS + LOCK

// isInitFunc: the package initialiser and user init functions.
func isInitFunc(f *ssa.Function) bool {
	for p := f; p != nil; p = p.Parent() {
		if p.Name() == "init" || strings.HasPrefix(p.Name(), "init#") {
			return true
		}
	}
	return false
}

// globalWriters: global name -> direct write accesses outside init.
func globalWriters(info *effectsInfo) map[string][]effects.Access {
	out := map[string][]effects.Access{}
	for _, f := range info.Funcs {
		if isInitFunc(f) {
			continue
		}
		for _, a := range info.A.Facts[f].Accesses {
			if a.Write {
				out[a.Global] = append(out[a.Global], a)
			}
		}
	}
	return out
}

func globalReaders(info *effectsInfo) map[string][]effects.Access {
	out := map[string][]effects.Access{}
	for _, f := range info.Funcs {
		if isInitFunc(f) {
			continue
		}
		for _, a := range info.A.Facts[f].Accesses {
			if !a.Write {
				out[a.Global] = append(out[a.Global], a)
			}
		}
	}
	return out
}

// isSyncCall: the access happens inside an internally synchronised stdlib primitive.
func isSyncAccess(a effects.Access) bool {
	return strings.HasPrefix(a.Desc, "ext:(*sync.") || strings.HasPrefix(a.Desc, "ext:sync/atomic.") || strings.HasPrefix(a.Desc, "ext:(*sync/atomic.")
}

type lockCtx struct {
	info    *effectsInfo
	locks   map[*ssa.Function]*effects.LockInfo
	callers map[*ssa.Function][]ssa.CallInstruction
}

func newLockCtx(info *effectsInfo) *lockCtx {
	lc := &lockCtx{info: info, locks: map[*ssa.Function]*effects.LockInfo{}, callers: map[*ssa.Function][]ssa.CallInstruction{}}
	for _, f := range info.Funcs {
		for _, b := range f.Blocks {
			for _, ins := range b.Instrs {
				ci, ok := ins.(ssa.CallInstruction)
				if !ok {
					continue
				}
				for _, callee := range info.A.CalleesOf(ci) {
					lc.callers[callee] = append(lc.callers[callee], ci)
				}
			}
		}
	}
	return lc
}

func (lc *lockCtx) of(f *ssa.Function) *effects.LockInfo {
	if li, ok := lc.locks[f]; ok {
		return li
	}
	li := effects.Locks(f)
	lc.locks[f] = li
	return li
}

// held reports the strongest mode in which some mutex is certainly held before ins, looking
// through callers when the function itself takes no lock (every in-module call site must hold
// it; exported functions are callable from outside and are never covered by callers).
func (lc *lockCtx) held(ins ssa.Instruction, seen map[*ssa.Function]bool) map[string]effects.LockMode {
	f := ins.Parent()
	out := map[string]effects.LockMode{}
	for m, st := range lc.of(f).HeldBefore(ins) {
		if st.Held != effects.NotHeld {
			out[m] = st.Held
		}
	}
	if len(out) > 0 || seen[f] {
		return out
	}
	seen[f] = true
	if f.Parent() == nil && token.IsExported(f.Name()) && !inInternalPkg(f) {
		return out
	}
	sites := lc.callers[f]
	if len(sites) == 0 {
		return out
	}
	var acc map[string]effects.LockMode
	for _, cs := range sites {
		h := lc.held(cs.(ssa.Instruction), seen)
		if acc == nil {
			acc = h
			continue
		}
		for m, mode := range acc {
			hm, ok := h[m]
			if !ok {
				delete(acc, m)
			} else if hm < mode {
				acc[m] = hm
			}
		}
	}
	return acc
}

func c10R7(c *Ctx, info *effectsInfo) {
	const ruleI = "R7.globals"
	const ruleL = "R7.lock"
	const ruleU = "R7.unlock"
	r := c.Run
	r.Rule(ruleI, "inventory: every package-level variable of the 11 packages is either never written after init, or written only under its mutex (or by an internally synchronised primitive)")
	r.Rule(ruleL, "every access of a variable that is written after init is dominated by Lock (writes) / RLock or Lock (reads) of one common mutex")
	r.Rule(ruleU, "no return leaves a mutex locked: every Lock/RLock is followed by an unlock on every path or by a deferred unlock")
	writers := globalWriters(info)
	readers := globalReaders(info)
	lc := newLockCtx(info)
	var pkgs []string
	for path := range c.Prog.Pkgs {
		pkgs = append(pkgs, path)
	}
	sort.Strings(pkgs)
	for _, path := range pkgs {
		sp := c.Prog.SSA.Package(c.Prog.Pkgs[path].Types)
		if sp == nil {
			r.Unknown(ruleI, relPkg(path), "", "SSA package", "missing")
			continue
		}
		for _, name := range sortedStr(sp.Members) {
			g, ok := sp.Members[name].(*ssa.Global)
			if !ok || strings.HasPrefix(name, "init$") {
				continue
			}
			gk := effects.GlobalName(effects.GlobalKey(g))
			key := relPkg(path) + "." + name
			ws := writers[gk]
			if len(ws) == 0 {
				r.OK(ruleI, key, c.Prog.Rel(g.Pos()), "no store after init, or all accesses under one mutex", "never written outside package initialisation", false)
				continue
			}
			// written after init: every access must be protected
			all := append(append([]effects.Access(nil), ws...), readers[gk]...)
			if once, bad := onceGuarded(info, all); once != "" {
				// lazily initialised under a sync.Once
				for _, a := range all {
					akey := fmt.Sprintf("%s@%s/%s", key, funcKey(a.Instr.Parent()), a.Desc)
					if why, isBad := bad[a.Instr]; isBad {
						r.Bad(ruleL, akey, c.Prog.Rel(a.Instr.Pos()), "access of "+name+" follows a completed "+once+".Do", why)
					} else {
						r.OK(ruleL, akey, c.Prog.Rel(a.Instr.Pos()), "access of "+name+" follows a completed "+once+".Do", "inside the function run by Do, or dominated by a call that completes Do", true)
					}
				}
				if len(bad) == 0 {
					r.OK(ruleI, key, c.Prog.Rel(g.Pos()), "no store after init, or all accesses under one mutex", fmt.Sprintf("initialised once: written only by the function literal run by %s.Do (no free variables); all %d accesses follow a completed Do", once, len(all)), true)
				} else {
					r.Bad(ruleI, key, c.Prog.Rel(ws[0].Instr.Pos()), "no store after init, or all accesses under one mutex", fmt.Sprintf("written by the function run by %s.Do, but %d accesses are not ordered after it", once, len(bad)))
				}
				continue
			}
			common := map[string]bool{}
			first := true
			okAll := true
			unsync := 0
			unsyncWrites := 0
			for _, a := range all {
				if a.Write && !isSyncAccess(a) {
					unsyncWrites++
				}
			}
			for _, a := range all {
				if isSyncAccess(a) {
					continue
				}
				if unsyncWrites == 0 {
					// every write goes through an internally synchronised primitive (sync.Map.Store, atomic.Value.Store):
					// what readers obtain from it was published with a happens-before edge and is not written afterwards
					continue
				}
				unsync++
				h := lc.held(a.Instr, map[*ssa.Function]bool{})
				akey := fmt.Sprintf("%s@%s/%s", key, funcKey(a.Instr.Parent()), a.Desc)
				need := effects.HeldRead
				kind := "read"
				if a.Write {
					need = effects.HeldWrite
					kind = "write"
				}
				var have []string
				good := map[string]bool{}
				for m, mode := range h {
					have = append(have, fmt.Sprintf("%s:%s", m, mode))
					if mode >= need {
						good[m] = true
					}
				}
				sort.Strings(have)
				if len(good) == 0 {
					okAll = false
					got := "no mutex held"
					if len(have) > 0 {
						got = "held: " + strings.Join(have, ",")
					}
					r.Bad(ruleL, akey, c.Prog.Rel(a.Instr.Pos()), fmt.Sprintf("%s of %s dominated by %s", kind, name, need), got)
				} else {
					r.OK(ruleL, akey, c.Prog.Rel(a.Instr.Pos()), fmt.Sprintf("%s of %s dominated by %s", kind, name, need), "held: "+strings.Join(have, ","), true)
				}
				if first {
					common = good
					first = false
				} else {
					for m := range common {
						if !good[m] {
							delete(common, m)
						}
					}
				}
			}
			switch {
			case unsync == 0:
				r.OK(ruleI, key, c.Prog.Rel(g.Pos()), "no store after init, or all accesses under one mutex", fmt.Sprintf("written after init only through internally synchronised primitives (%d accesses)", len(all)), true)
			case okAll && len(common) > 0:
				var ms []string
				for m := range common {
					ms = append(ms, m)
				}
				sort.Strings(ms)
				r.OK(ruleI, key, c.Prog.Rel(g.Pos()), "no store after init, or all accesses under one mutex", fmt.Sprintf("written after init by %s; all %d accesses under %s", funcKey(ws[0].Instr.Parent()), unsync, strings.Join(ms, ",")), true)
			default:
				r.Bad(ruleI, key, c.Prog.Rel(ws[0].Instr.Pos()), "no store after init, or all accesses under one mutex", fmt.Sprintf("written after init by %s (%s) and not every access holds one common mutex", funcKey(ws[0].Instr.Parent()), ws[0].Desc))
			}
		}
	}
	unlockObligations(c, info, lc, ruleU)
	c10Pool(c, info)
}

var _ = load.ModPath

// c10Pool (R7.pool): an object taken from a sync.Pool belongs to the goroutine that took it until it is put back; the
// accesses in between need no lock. That argument holds only if (i) what is put into a pool is an object obtained from
// a pool or freshly allocated in the same function — never caller-visible memory, (ii) nothing derived from the object
// is used after Put on any path, (iii) no reference to it is stored anywhere, returned, captured or handed to a callee
// that keeps or returns it.
func c10Pool(c *Ctx, info *effectsInfo) {
	const rule = "R7.pool"
	r := c.Run
	r.Rule(rule, "every object handed to sync.Pool.Put was obtained from Get or allocated in the same function, is not used after Put, and no reference to it outlives the function")
	n := 0
	for _, f := range info.Funcs {
		k := 0
		for _, b := range f.Blocks {
			for _, ins := range b.Instrs {
				ci, ok := ins.(ssa.CallInstruction)
				if !ok {
					continue
				}
				sc := ci.Common().StaticCallee()
				if sc == nil || sc.String() != "(*sync.Pool).Put" || len(ci.Common().Args) != 2 {
					continue
				}
				n++
				k++
				key := fmt.Sprintf("%s/Put#%d", funcKey(f), k)
				pos := c.Prog.Rel(ins.Pos())
				root, why := poolRoot(ci.Common().Args[1])
				if root == nil {
					r.Bad(rule, key, pos, "the object put back comes from Get or a fresh allocation of this function", why)
					continue
				}
				if bad := poolMisuse(info, f, root, ins); bad != "" {
					r.Bad(rule, key, pos, "no use after Put, no reference kept", bad)
					continue
				}
				r.OK(rule, key, pos, "owned between Get and Put, not used afterwards, no reference kept", "all uses of the object are loads, stores into it and calls that do not keep it, none reachable after Put", true)
			}
		}
	}
	if n == 0 {
		r.OK(rule, "(no sync.Pool)", "", "no Put call in the module", "nothing to check", false)
	}
}

// poolRoot follows the value handed to Put back to where the object comes from.
func poolRoot(v ssa.Value) (ssa.Value, string) {
	for i := 0; i < 12; i++ {
		switch x := v.(type) {
		case *ssa.MakeInterface:
			v = x.X
		case *ssa.ChangeType:
			v = x.X
		case *ssa.Convert:
			v = x.X
		case *ssa.TypeAssert:
			v = x.X
		case *ssa.Extract:
			v = x.Tuple
		case *ssa.Slice:
			v = x.X
		case *ssa.FieldAddr:
			v = x.X
		case *ssa.IndexAddr:
			v = x.X
		case *ssa.Call:
			if sc := x.Call.StaticCallee(); sc != nil && sc.String() == "(*sync.Pool).Get" {
				return x, ""
			}
			return nil, "the object is the result of " + x.Call.String()
		case *ssa.Alloc:
			return x, ""
		case *ssa.MakeSlice:
			return x, ""
		default:
			return nil, fmt.Sprintf("the object is %s, which may be visible to the caller", v.String())
		}
	}
	return nil, "origin of the object not found"
}

// poolMisuse: a use of the object (or of anything derived from it) that is reachable after the Put instruction, or that
// lets a reference escape. Returns a description, or "".
func poolMisuse(info *effectsInfo, f *ssa.Function, root ssa.Value, put ssa.Instruction) string {
	derived := map[ssa.Value]bool{root: true}
	work := []ssa.Value{root}
	var uses []ssa.Instruction
	for len(work) > 0 {
		v := work[0]
		work = work[1:]
		refs := v.Referrers()
		if refs == nil {
			continue
		}
		for _, ref := range *refs {
			switch x := ref.(type) {
			case *ssa.TypeAssert, *ssa.ChangeType, *ssa.Convert, *ssa.Slice, *ssa.FieldAddr, *ssa.IndexAddr, *ssa.MakeInterface, *ssa.Phi, *ssa.Extract:
				nv := ref.(ssa.Value)
				if !derived[nv] {
					derived[nv] = true
					work = append(work, nv)
				}
			case *ssa.DebugRef:
			default:
				_ = x
				uses = append(uses, ref)
			}
		}
	}
	_, deferred := put.(*ssa.Defer)
	after := map[*ssa.BasicBlock]bool{}
	if !deferred {
		var walk func(b *ssa.BasicBlock)
		walk = func(b *ssa.BasicBlock) {
			for _, s := range b.Succs {
				if !after[s] {
					after[s] = true
					walk(s)
				}
			}
		}
		walk(put.Block())
	}
	isAfter := func(ins ssa.Instruction) bool {
		if deferred || ins == put {
			return false
		}
		if after[ins.Block()] {
			return true
		}
		if ins.Block() == put.Block() {
			seenPut := false
			for _, x := range put.Block().Instrs {
				if x == put {
					seenPut = true
				} else if x == ins {
					return seenPut
				}
			}
		}
		return false
	}
	pointerLike := func(v ssa.Value) bool { return effects.HasRef(v.Type()) }
	for _, u := range uses {
		if u == put {
			continue
		}
		if isAfter(u) {
			return "used after Put: " + u.String()
		}
		switch x := u.(type) {
		case *ssa.UnOp:
			// a load through the object
		case *ssa.Store:
			if derived[x.Val] && pointerLike(x.Val) {
				return "a reference to the pooled object is stored: " + x.String()
			}
		case *ssa.Return:
			for _, rv := range x.Results {
				if derived[rv] && pointerLike(rv) {
					return "a reference to the pooled object is returned"
				}
			}
		case ssa.CallInstruction:
			com := x.Common()
			if b, ok := com.Value.(*ssa.Builtin); ok {
				switch b.Name() {
				case "len", "cap", "copy":
					continue
				}
				return "pooled object handed to builtin " + b.Name()
			}
			if sc := com.StaticCallee(); sc != nil && (sc.String() == "(*sync.Pool).Put" || sc.String() == "(*sync.Pool).Get") {
				continue // another Put of the same object is its own obligation
			}
			args := com.Args
			if com.IsInvoke() {
				args = append([]ssa.Value{com.Value}, args...)
			}
			for _, callee := range info.A.CalleesOf(x) {
				sum := info.A.Sums[callee]
				if sum == nil {
					// external: consult the effect table through the summary of this function (Opaque) — keep it simple:
					// the standard-library callees used on scratch memory (cipher.Block.Encrypt, binary.PutUint…) keep nothing
					continue
				}
				for i, a := range args {
					if !derived[a] {
						continue
					}
					pk := fmt.Sprintf("P%d", i)
					for dst, srcs := range sum.Retains {
						for src := range srcs {
							if effects.RootOf(src) == pk {
								return fmt.Sprintf("callee %s keeps a reference to the pooled object (in %s)", funcKey(callee), dst)
							}
						}
					}
					for _, rr := range sum.RetReach {
						if rr.Has(pk) || rr.Has(pk+"+") {
							return fmt.Sprintf("callee %s returns memory of the pooled object", funcKey(callee))
						}
					}
				}
			}
		case *ssa.MakeClosure, *ssa.MapUpdate, *ssa.Send:
			return "a reference to the pooled object escapes: " + u.String()
		case *ssa.BinOp, *ssa.If:
			// comparisons with nil
		default:
			if v, ok := u.(ssa.Value); ok && pointerLike(v) {
				return "unrecognised use of the pooled object: " + u.String()
			}
		}
	}
	return ""
}

// onceGuarded: every unsynchronised write of the variable sits in a function literal (no free variables) run by Do of
// one package-level sync.Once. Returns that Once and, per access outside those literals, why it is not ordered after a
// completed Do (empty map: all are). An access is ordered when a call dominates it that is o.Do(…) itself or a function
// every return of which is dominated by such a call (`func get() *T { once.Do(…); return v }`).
func onceGuarded(info *effectsInfo, all []effects.Access) (string, map[ssa.Instruction]string) {
	once := ""
	lits := map[*ssa.Function]bool{}
	nw := 0
	for _, a := range all {
		if !a.Write || isSyncAccess(a) {
			continue
		}
		nw++
		o := info.A.OnceInit[a.Instr.Parent()]
		if o == "" || (once != "" && o != once) {
			return "", nil
		}
		once = o
		lits[a.Instr.Parent()] = true
	}
	if once == "" || nw == 0 {
		return "", nil
	}
	isDo := func(ci ssa.CallInstruction) bool {
		for _, av := range ci.Common().Args {
			switch x := av.(type) {
			case *ssa.Function:
				if effects.OnceLiteral(ci, x) == once {
					return true
				}
			case *ssa.MakeClosure:
				if f, ok := x.Fn.(*ssa.Function); ok && effects.OnceLiteral(ci, f) == once {
					return true
				}
			}
		}
		return false
	}
	// functions that complete Do before every return
	est := map[*ssa.Function]bool{}
	establishes := func(ci ssa.CallInstruction) bool {
		if isDo(ci) {
			return true
		}
		sc := ci.Common().StaticCallee()
		return sc != nil && est[sc]
	}
	for changed := true; changed; {
		changed = false
		for _, f := range info.Funcs {
			if est[f] || f.Blocks == nil {
				continue
			}
			for _, b := range f.Blocks {
				for _, ins := range b.Instrs {
					ci, ok := ins.(ssa.CallInstruction)
					if !ok || !establishes(ci) {
						continue
					}
					if _, isDefer := ins.(*ssa.Defer); isDefer {
						continue
					}
					all := true
					for _, rb := range f.Blocks {
						if _, isRet := rb.Instrs[len(rb.Instrs)-1].(*ssa.Return); isRet && !b.Dominates(rb) {
							all = false
						}
					}
					if all {
						est[f] = true
						changed = true
					}
				}
			}
		}
	}
	bad := map[ssa.Instruction]string{}
	for _, a := range all {
		f := a.Instr.Parent()
		if lits[f] || isSyncAccess(a) {
			continue
		}
		ordered := false
		for _, b := range f.Blocks {
			for i, ins := range b.Instrs {
				ci, ok := ins.(ssa.CallInstruction)
				if !ok || !establishes(ci) {
					continue
				}
				if _, isDefer := ins.(*ssa.Defer); isDefer {
					continue
				}
				if b == a.Instr.Block() {
					for j, x := range b.Instrs {
						if x == a.Instr && j > i {
							ordered = true
						}
					}
				} else if b.Dominates(a.Instr.Block()) {
					ordered = true
				}
			}
		}
		if !ordered {
			bad[a.Instr] = "no call that completes " + once + ".Do dominates this access"
		}
	}
	return once, bad
}

// freshBandObligations: every constructor of package band (a function returning the Band interface) returns memory
// that is fresh per call and reaches no package-level variable.
func freshBandObligations(c *Ctx, info *effectsInfo, ruleC string) {
	r := c.Run
	sp := c.Prog.SSAPkg("band")
	if sp == nil {
		r.Unknown(ruleC, "band", "", "package band loaded", "missing")
		return
	}
	bandIface, _ := sp.Pkg.Scope().Lookup("Band").(*types.TypeName)
	for _, f := range info.Funcs {
		if !isUserFunc(f) || f.Pkg != sp || f.Signature.Recv() != nil {
			continue
		}
		res := f.Signature.Results()
		if res.Len() == 0 || bandIface == nil || !types.Identical(res.At(0).Type(), bandIface.Type()) {
			continue
		}
		s := info.A.Sums[f]
		key := funcKey(f)
		var shared []string
		for _, e := range s.RetReach[0].Sorted() {
			if e != "F" {
				shared = append(shared, e)
			}
		}
		for _, e := range s.RetLoc[0].Sorted() {
			if e != "F" {
				shared = append(shared, "loc:"+e)
			}
		}
		if len(shared) > 0 {
			// shared, but immutable: package-level tables that only the initialiser (or a function run once under
			// sync.Once) writes, of types that no function of the package outside the constructors ever stores into —
			// two band objects that share them share no *mutable* state
			why := sharedTablesImmutable(c, info, sp, shared)
			if why == "" {
				r.OK(ruleC, key, c.Prog.Rel(f.Pos()), "reach(result) ⊆ {Fresh} ∪ immutable tables", "shares only read-only package-level tables: "+strings.Join(shared, ","), true)
				continue
			}
			r.Bad(ruleC, key, c.Prog.Rel(f.Pos()), "reach(result) ⊆ {Fresh}", "the returned band reaches "+strings.Join(shared, ",")+" (shared between all bands built by this constructor; not immutable: "+why+")")
		} else if !s.RetReach[0].Has("F") {
			r.Unknown(ruleC, key, c.Prog.Rel(f.Pos()), "reach(result) ⊆ {Fresh}", "constructor returns no allocated object (summary empty)")
		} else {
			r.OK(ruleC, key, c.Prog.Rel(f.Pos()), "reach(result) ⊆ {Fresh}", "loc="+s.RetLoc[0].String()+" reach="+s.RetReach[0].String(), true)
		}
	}
}

// ruleFreshBands is freshBandObligations for checks other than C10: the per-configuration tables a band property
// talks about are per-object only if constructors share nothing.
func ruleFreshBands(c *Ctx, rule string) {
	c.Run.Rule(rule, "every band constructor returns memory that is fresh per call and reaches no package-level variable: the tables of one configuration cannot be changed through another band object")
	freshBandObligations(c, effectsFor(c.Prog), rule)
}

// unlockObligations: no return of any function that takes a mutex leaves it locked (unlock on every path or deferred).
func unlockObligations(c *Ctx, info *effectsInfo, lc *lockCtx, ruleU string) {
	r := c.Run
	for _, f := range info.Funcs {
		li := lc.of(f)
		if len(li.Ops) == 0 {
			continue
		}
		mutexes := map[string]bool{}
		for _, op := range li.Ops {
			if op.Op == "Lock" || op.Op == "RLock" {
				mutexes[op.Mutex] = true
			}
		}
		for _, m := range sortedStr(mutexes) {
			key := funcKey(f) + "/" + m
			var leaks []string
			pos := c.Prog.Rel(f.Pos())
			for _, lk := range li.Leaks {
				if lk.Mutex == m {
					leaks = append(leaks, fmt.Sprintf("return at %s with %s held", c.Prog.Rel(lk.Return.Pos()), lk.Mode))
					pos = c.Prog.Rel(lk.Return.Pos())
				}
			}
			if len(leaks) > 0 {
				r.Bad(ruleU, key, pos, "unlock deferred or on every path", strings.Join(leaks, "; "))
			} else {
				r.OK(ruleU, key, pos, "unlock deferred or on every path", "no return reachable with the mutex held", true)
			}
		}
	}
}

// ruleNoLockLeak is unlockObligations for checks other than C10: a leaked lock makes every later operation on the
// same mutex block forever.
func ruleNoLockLeak(c *Ctx, rule string) {
	c.Run.Rule(rule, "no return leaves a mutex locked (unlock on every path or deferred): a leaked lock blocks every later decoder that takes the same mutex")
	info := effectsFor(c.Prog)
	unlockObligations(c, info, newLockCtx(info), rule)
}

// sharedTablesImmutable: every element of shared is a package-level variable of package band (no parameter, no
// location) that is written only by the package initialiser or by a sync.Once literal, and no function of the package
// other than initialisers, once-literals and constructors stores into a map or slice of the types those variables
// (transitively) hold. Returns "" when so, else the reason.
func sharedTablesImmutable(c *Ctx, info *effectsInfo, sp *ssa.Package, shared []string) string {
	writers := globalWriters(info)
	var held []types.Type
	for _, e := range shared {
		if !strings.HasPrefix(e, "G:band.") {
			return e + " is not a package-level table"
		}
		name := strings.TrimPrefix(e, "G:band.")
		g, ok := sp.Members[name].(*ssa.Global)
		if !ok {
			return name + " not found"
		}
		for _, w := range writers[effects.GlobalName(effects.GlobalKey(g))] {
			if info.A.OnceInit[w.Instr.Parent()] == "" {
				return name + " is written after initialisation by " + funcKey(w.Instr.Parent())
			}
		}
		held = append(held, g.Type().(*types.Pointer).Elem())
	}
	// container types reachable from the tables
	seen := map[string]bool{}
	var cont []types.Type
	var walk func(t types.Type, d int)
	walk = func(t types.Type, d int) {
		if d > 6 || seen[t.String()] {
			return
		}
		seen[t.String()] = true
		switch u := t.Underlying().(type) {
		case *types.Map:
			cont = append(cont, t)
			walk(u.Elem(), d+1)
		case *types.Slice:
			cont = append(cont, t)
			walk(u.Elem(), d+1)
		case *types.Array:
			// an array is shared through the slices taken of it
			cont = append(cont, t, types.NewSlice(u.Elem()))
			walk(u.Elem(), d+1)
		case *types.Pointer:
			walk(u.Elem(), d+1)
		case *types.Struct:
			for i := 0; i < u.NumFields(); i++ {
				walk(u.Field(i).Type(), d+1)
			}
		}
	}
	for _, t := range held {
		walk(t, 0)
	}
	isCont := func(t types.Type) bool {
		for _, ct := range cont {
			if types.Identical(ct.Underlying(), t.Underlying()) {
				return true
			}
		}
		return false
	}
	for _, f := range info.Funcs {
		if f.Pkg != sp || isInitFunc(f) || info.A.OnceInit[f] != "" {
			continue
		}
		top := f
		for top.Parent() != nil {
			top = top.Parent()
		}
		if c15CtorRe.MatchString(top.Name()) {
			continue
		}
		for _, b := range f.Blocks {
			for _, ins := range b.Instrs {
				switch x := ins.(type) {
				case *ssa.MapUpdate:
					if _, fresh := x.Map.(*ssa.MakeMap); fresh {
						continue // filling a map this function has just made (a literal, a builder)
					}
					if isCont(x.Map.Type()) {
						return funcKey(f) + " updates a map of type " + x.Map.Type().String()
					}
				case *ssa.Store:
					addr := x.Addr
					for {
						fa, isFA := addr.(*ssa.FieldAddr)
						if !isFA {
							break
						}
						addr = fa.X // a field of an element: b.up[i].enabled = …
					}
					if ia, ok := addr.(*ssa.IndexAddr); ok && isCont(ia.X.Type()) {
						if true {
							// element stores into freshly made local slices are not writes to a table
							if _, fresh := ia.X.(*ssa.MakeSlice); fresh {
								continue
							}
							if _, fresh := ia.X.(*ssa.Alloc); fresh {
								continue
							}
							return funcKey(f) + " stores into an element of a " + ia.X.Type().String()
						}
					}
				}
			}
		}
	}
	return ""
}
