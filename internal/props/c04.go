package props

import (
	"go/types"
	"fmt"

	"lwverif/internal/absint"
)

func init() { Register("C04", checkC04) }

func jaVariants() []avariant {
	return []avariant{
		{Name: "join-accept-12", Size: 12, NoStream: true, Dyn: map[string]string{"MACPayload": ":JoinAcceptPayload"}, Fix: map[string]int64{"MHDR.MType": 1}},
		{Name: "join-accept-28-channels", Size: 28, NoStream: true, Dyn: map[string]string{"MACPayload": ":JoinAcceptPayload", "MACPayload.*.CFList.*.Payload": ":CFListChannelPayload"},
			NonNil: []string{"MACPayload.*.CFList"}, Fix: map[string]int64{"MHDR.MType": 1, "MACPayload.*.CFList.*.CFListType": 0}},
	}
}

var jaWidths = map[string]int{"MACPayload.*.JoinNonce": 24, "MACPayload.*.RXDelay": 4, "MACPayload.*.DLSettings.RX2DataRate": 4, "MACPayload.*.DLSettings.RX1DROffset": 3}

func checkC04(c *Ctx) {
	r := c.Run
	r.Exhaustive = true
	r.Explanation = "Decides C04's structural clauses with the abstract interpreter (engine E1), AES and AES-CMAC being uninterpreted functions: calculateUplinkJoinMIC is interpreted for join-request and the three rejoin-request payload types, calculateDownlinkJoinMIC for join-accepts with and without CFList with OptNeg symbolic (the interpreter requests a partition on OptNeg because the message length differs), EncryptJoinAcceptPayload and DecryptJoinAcceptPayload for 12- and 28-byte payloads; all identifiers, nonces, keys and fields are symbolic. Proved for all values at once: the four MIC bytes are bytes 0..3 of cmac(key, msg) with key in array order and msg = [JoinReqType | JoinEUI little-endian | DevNonce little-endian] iff OptNeg, then marshal(MHDR) | marshal(payload); encryption yields, per 16-byte block k, AES-*decrypt*(key, (payload|MIC)[16k..16k+16]) split as payload = ct[:len-4], MIC = ct[len-4:]; decryption yields AES-*encrypt* of the blocks of (bytes|MIC), MIC = pt[len-4:], and the payload is JoinAcceptPayload.UnmarshalBinary of pt[:len-4]. That AES-encrypt inverts AES-decrypt (so that decrypt∘encrypt is the identity) and the cipher numerics are trusted."
	r.Trusted = []string{"internal/absint", "crypto/aes, jacobsa/crypto/cmac as uninterpreted functions", "AES decrypt/encrypt are mutually inverse"}
	r.Rule("R1.uplink-mic", "join/rejoin-request MIC = cmac(key, MHDR|payload)[0..3]")
	r.Rule("R2.downlink-mic", "join-accept MIC = cmac(key, [JoinReqType|JoinEUI LE|DevNonce LE iff OptNeg] | MHDR | payload)[0..3]")
	r.Rule("R4.wrappers", "Set*JoinMIC stores the computed MIC; Validate*JoinMIC is true exactly when all four MIC bytes match")
	r.Rule("R3.encrypt", "EncryptJoinAcceptPayload = per-block AES-decrypt over payload|MIC; DecryptJoinAcceptPayload = per-block AES-encrypt, MIC and payload split at len-4")
	T := func(in *absint.Interp) interface{} { return nil }
	_ = T
	// ---- R1
	for _, v := range []avariant{
		{Name: "join-request", Dyn: map[string]string{"MACPayload": ":JoinRequestPayload"}, Fix: map[string]int64{"MHDR.MType": 0}},
		{Name: "rejoin-0", Dyn: map[string]string{"MACPayload": ":RejoinRequestType02Payload"}, Fix: map[string]int64{"MHDR.MType": 6, "MACPayload.*.RejoinType": 0}},
		{Name: "rejoin-2", Dyn: map[string]string{"MACPayload": ":RejoinRequestType02Payload"}, Fix: map[string]int64{"MHDR.MType": 6, "MACPayload.*.RejoinType": 2}},
		{Name: "rejoin-1", Dyn: map[string]string{"MACPayload": ":RejoinRequestType1Payload"}, Fix: map[string]int64{"MHDR.MType": 6, "MACPayload.*.RejoinType": 1}},
	} {
		in := absint.NewInterp(c.Prog)
		PT := in.NamedType("", "PHYPayload")
		cfg := "calculateUplinkJoinMIC/" + v.Name
		dom := absint.True
		var phy, key absint.Value
		var res []absint.Value
		err := in.Try(func() {
			phy = symDeep(in, "", PT, v, aspec{}, &dom)
			key = in.Sym("key", in.NamedType("", "AES128Key"), false)
			in.SetLive(dom)
			res = callMICCalc(in, phy, PT, "calculateUplinkJoinMIC", "SetUplinkJoinMIC", key)
		})
		if err != nil {
			r.Unknown("R1.uplink-mic", cfg, "", "inside the interpreter's subset", err.Error())
			continue
		}
		c04MIC(c, in, "R1.uplink-mic", cfg, dom, phy, key, res, nil)
	}
	// ---- R2
	for _, v := range jaVariants() {
		in := absint.NewInterp(c.Prog)
		d := in.D
		PT := in.NamedType("", "PHYPayload")
		cfg := "calculateDownlinkJoinMIC/" + v.Name
		dom0 := absint.True
		var phy, key, joinEUI absint.Value
		var jt, devNonce *absint.Bits
		if err := in.Try(func() {
			phy = symDeep(in, "", PT, v, aspec{Widths: jaWidths, Freq100: []string{"MACPayload.*.CFList.*.Payload.*.Channels"}}, &dom0)
			key = in.Sym("key", in.NamedType("", "AES128Key"), false)
			joinEUI = in.Sym("joinEUI", in.NamedType("", "EUI64"), false)
			jt = d.Sym("joinReqType", 8, false, false)
			devNonce = d.Sym("devNonce", 16, false, false)
		}); err != nil {
			r.Unknown("R2.downlink-mic", cfg, "", "inputs constructible", err.Error())
			continue
		}
		optNeg := asBits(deepLeaf(phy, "MACPayload.*.DLSettings.OptNeg"), "OptNeg").Bits()[0]
		// the specification's message shape depends on OptNeg only: partition on it up front
		for _, side := range []struct {
			dom absint.Node
			tag string
		}{{d.M.And(dom0, optNeg), "/optneg"}, {d.M.And(dom0, d.M.Not(optNeg)), "/no-optneg"}} {
			side := side
			forParts(in, side.dom, 4, func(dom absint.Node, tag string) error {
				var res []absint.Value
				err := in.Try(func() {
					in.SetLive(dom)
					res = callMICCalc(in, phy, PT, "calculateDownlinkJoinMIC", "SetDownlinkJoinMIC", jt, joinEUI, devNonce, key)
				})
				if err != nil {
					return err
				}
				var prefix []absint.Value
				if side.tag == "/optneg" {
					prefix = append([]absint.Value{jt}, arrayBytes(joinEUI, true)...)
					prefix = append(prefix, leBytes(devNonce, 2)...)
				}
				c04MIC(c, in, "R2.downlink-mic", cfg+side.tag+tag, dom, phy, key, res, prefix)
				return nil
			}, func(tag string, err error) {
				r.Unknown("R2.downlink-mic", cfg+side.tag+tag, "", "inside the interpreter's subset", err.Error())
			})
		}
	}
	micWrappers(c, "R4.wrappers", true)
	flowC04(c)
	c.Run.Advisory("R2.prefix-guard", "R2.downlink-mic")
	c.Run.Advisory("R3.block-callee", "R3.encrypt")
	statelessRoots(c, "R5.stateless", "PHYPayload.calculateUplinkJoinMIC", "PHYPayload.calculateDownlinkJoinMIC", "PHYPayload.SetUplinkJoinMIC", "PHYPayload.SetDownlinkJoinMIC", "PHYPayload.ValidateUplinkJoinMIC", "PHYPayload.ValidateDownlinkJoinMIC", "PHYPayload.EncryptJoinAcceptPayload", "PHYPayload.DecryptJoinAcceptPayload")
	// ---- R3 encrypt
	for _, v := range jaVariants() {
		in := absint.NewInterp(c.Prog)
		PT := in.NamedType("", "PHYPayload")
		cfg := "EncryptJoinAcceptPayload/" + v.Name
		dom := absint.True
		var phy, key absint.Value
		var res []absint.Value
		var pt []absint.Value
		err := in.Try(func() {
			phy = symDeep(in, "", PT, v, aspec{Widths: jaWidths, Freq100: []string{"MACPayload.*.CFList.*.Payload.*.Channels"}}, &dom)
			key = in.Sym("key", in.NamedType("", "AES128Key"), false)
			in.SetLive(dom)
			mp := in.CallMethod(deepLeafCell(phy, "MACPayload.*"), in.NamedType("", "JoinAcceptPayload"), "MarshalBinary")
			pt = append(sliceVals(mp[0]), arrayBytes(deepLeaf(phy, "MIC"), false)...)
			res = in.CallMethod(&absint.Cell{V: phy}, PT, "EncryptJoinAcceptPayload", key)
		})
		if err != nil {
			r.Unknown("R3.encrypt", cfg, "", "inside the interpreter's subset", err.Error())
			continue
		}
		if ev, _ := res[0].(*absint.ErrVal); ev == nil || in.D.M.And(dom, ev.NonNil) != absint.False {
			r.Bad("R3.encrypt", cfg+"/error", "", "no error for a well-formed join-accept", in.Show(res[0]))
			continue
		}
		var want []absint.Value
		for k := 0; k*16 < len(pt); k++ {
			want = append(want, in.OpaqueBytes("AESdec", [][]absint.Value{arrayBytes(key, false), pt[k*16 : k*16+16]}, 16, "")...)
		}
		var got []absint.Value
		if e := in.Try(func() {
			got = append(sliceVals(deepLeaf(phy, "MACPayload.*.Bytes")), arrayBytes(deepLeaf(phy, "MIC"), false)...)
		}); e != nil {
			r.Bad("R3.encrypt", cfg+"/stored", "", "MACPayload replaced by a DataPayload with ct[:len-4], MIC = ct[len-4:]", e.Error())
			continue
		}
		r.Check(len(pt)%16 == 0 && len(got) == len(pt), "R3.encrypt", cfg+"/length", "", fmt.Sprintf("%d bytes", len(pt)), fmt.Sprintf("%d bytes", len(got)), true)
		if len(got) == len(want) {
			compareBytes(c, in, "R3.encrypt", cfg+"/ciphertext", "", got, vals(want...), dom, nil)
		}
	}
	// ---- R3 decrypt
	for _, n := range []int{12, 28} {
		in := absint.NewInterp(c.Prog)
		PT := in.NamedType("", "PHYPayload")
		cfg := fmt.Sprintf("DecryptJoinAcceptPayload/%d", n)
		v := avariant{Name: cfg, Dyn: map[string]string{"MACPayload": ":DataPayload"}, Fix: map[string]int64{"MHDR.MType": 1}, Lens: map[string]int{"MACPayload.*.Bytes": n}}
		dom0 := absint.True
		var phy0, key absint.Value
		if err := in.Try(func() {
			phy0 = symDeep(in, "", PT, v, aspec{}, &dom0)
			key = in.Sym("key", in.NamedType("", "AES128Key"), false)
		}); err != nil {
			r.Unknown("R3.encrypt", cfg, "", "inputs constructible", err.Error())
			continue
		}
		ct := append(sliceVals(deepLeaf(phy0, "MACPayload.*.Bytes")), arrayBytes(deepLeaf(phy0, "MIC"), false)...)
		forParts(in, dom0, 12, func(dom absint.Node, tag string) error {
			cfg := cfg + tag
			// fresh copy of the frame for every part (the method replaces MACPayload and MIC in place)
			phy := absint.Copy(phy0)
			var res []absint.Value
			if err := in.Try(func() {
				in.SetLive(dom)
				res = in.CallMethod(&absint.Cell{V: phy}, PT, "DecryptJoinAcceptPayload", key)
			}); err != nil {
				return err
			}
			var pt []absint.Value
			for k := 0; k*16 < len(ct); k++ {
				pt = append(pt, in.OpaqueBytes("AESenc", [][]absint.Value{arrayBytes(key, false), ct[k*16 : k*16+16]}, 16, "")...)
			}
			// expected payload: the library's own decoder applied to pt[:len-4] (its layout is C01/C06's subject)
			JT := in.NamedType("", "JoinAcceptPayload")
			exp := &absint.Cell{V: in.Zero(JT)}
			bk := &absint.Backing{}
			for _, b := range pt[:len(pt)-4] {
				bk.E = append(bk.E, &absint.Cell{V: b})
			}
			var dres []absint.Value
			if e := in.Try(func() {
				in.SetLive(dom)
				dres = in.CallMethod(exp, JT, "UnmarshalBinary", in.D.Bool(absint.False), &absint.Slice{Back: bk, Hi: len(bk.E), Cap: len(bk.E)})
			}); e != nil {
				return e
			}
			re, _ := res[0].(*absint.ErrVal)
			de, _ := dres[0].(*absint.ErrVal)
			sameErr := re != nil && de != nil && in.D.M.And(dom, in.D.M.Xor(re.NonNil, de.NonNil)) == absint.False
			r.Check(sameErr, "R3.encrypt", cfg+"/error", "", "fails exactly when the decrypted payload does not parse", in.Show(res[0]), true)
			okc := dom
			if re != nil {
				okc = in.D.M.And(dom, in.D.M.Not(re.NonNil))
			}
			if okc == absint.False {
				return nil
			}
			in.SetLive(okc)
			compareBytes(c, in, "R3.encrypt", cfg+"/mic", "", arrayBytes(deepLeaf(phy, "MIC"), false), vals(pt[len(pt)-4:]...), okc, nil)
			func() {
				defer func() {
					if rec := recover(); rec != nil {
						r.Unknown("R3.encrypt", cfg+"/payload", "", "payload comparable", fmt.Sprint(rec))
					}
				}()
				deepCompare(in, "", deepLeaf(phy, "MACPayload.*"), exp.V, okc, func(p string, ok bool, why string) {
					r.Check(ok, "R3.encrypt", cfg+"/payload"+p, "", "= JoinAcceptPayload decoded from the AES-encrypted blocks", why, true)
				})
			}()
			return nil
		}, func(tag string, err error) {
			r.Unknown("R3.encrypt", cfg+tag, "", "inside the interpreter's subset", err.Error())
		})
	}
}

// c04MIC compares a computed MIC with cmac(key, prefix | marshal(MHDR) | marshal(MACPayload))[0..3].
func c04MIC(c *Ctx, in *absint.Interp, rule, cfg string, dom absint.Node, phy, key absint.Value, res []absint.Value, prefix []absint.Value) {
	r := c.Run
	if ev, _ := res[1].(*absint.ErrVal); ev == nil || in.D.M.And(dom, ev.NonNil) != absint.False {
		r.Bad(rule, cfg+"/error", "", "no error for a well-formed frame", in.Show(res[1]))
		return
	}
	var msg []absint.Value
	if e := in.Try(func() {
		mh := in.CallMethod(&absint.Cell{V: deepLeaf(phy, "MHDR")}, in.NamedType("", "MHDR"), "MarshalBinary")
		ifc := deepLeaf(phy, "MACPayload").(*absint.Iface)
		mp := in.CallMethod(ifc.Dyn.(*absint.Ptr).To, ifc.Dyn.(*absint.Ptr).T, "MarshalBinary")
		msg = append(append(append([]absint.Value{}, prefix...), sliceVals(mh[0])...), sliceVals(mp[0])...)
	}); e != nil {
		r.Unknown(rule, cfg+"/msg", "", "frame marshals", e.Error())
		return
	}
	want := in.OpaqueBytes("CMAC", [][]absint.Value{arrayBytes(key, false), msg}, 16, "")
	compareBytes(c, in, rule, cfg+"/mic", "", arrayBytes(res[0], false), vals(want[:4]...), dom, nil)
}

// callMICCalc: the MIC and the error of the unexported calculator when it takes exactly these arguments; otherwise
// (its parameter list is not API: an options struct, another order) the same pair obtained through the exported setter,
// whose signature is — the setter stores what the calculator returns, which is what the wrapper rules establish.
func callMICCalc(in *absint.Interp, phy absint.Value, PT types.Type, calc, set string, args ...absint.Value) []absint.Value {
	if obj, _, _ := types.LookupFieldOrMethod(types.NewPointer(PT), true, pkgOfType(PT), calc); obj != nil {
		if fn, ok := obj.(*types.Func); ok && fn.Type().(*types.Signature).Params().Len() == len(args) {
			return in.CallMethod(&absint.Cell{V: phy}, PT, calc, args...)
		}
	}
	cp := absint.Copy(phy)
	cell := &absint.Cell{V: cp}
	r := in.CallMethod(cell, PT, set, args...)
	var errV absint.Value = absint.NilVal{}
	if len(r) > 0 {
		errV = r[len(r)-1]
	}
	return []absint.Value{deepLeaf(cell.V, "MIC"), errV}
}

func pkgOfType(t types.Type) *types.Package {
	if n, ok := t.(*types.Named); ok {
		return n.Obj().Pkg()
	}
	return nil
}
