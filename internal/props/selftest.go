package props

import (
	"encoding/json"
	"fmt"
	"os"
	"os/exec"
	"path/filepath"
	"sort"
	"strings"

	"lwverif/internal/core"
	"lwverif/internal/load"
)

// SeedExpect: seeded/EXPECT.json — which seeded breaking change each check must report (thorough tier self-test).
type SeedExpect struct {
	Caught map[string][]string `json:"caught"` // property -> seeds its check must flag
	Beyond map[string]string   `json:"beyond"` // seed -> why no static rule covers it
}

// SelfTest re-analyses a scratch copy of /repo's working tree with each expected seed applied and requires at
// least one violation that is not a listed known finding. Returns notes and the seeds that were missed.
func SelfTest(prop, verifDir string, findings []core.Finding) (notes []string, missed []string, err error) {
	b, e := os.ReadFile(filepath.Join(verifDir, "seeded", "EXPECT.json"))
	if e != nil {
		return nil, nil, e
	}
	var exp SeedExpect
	if e := json.Unmarshal(b, &exp); e != nil {
		return nil, nil, e
	}
	seeds := exp.Caught[prop]
	sort.Strings(seeds)
	known := map[string]bool{}
	for _, f := range findings {
		if f.Kind == "known" && f.Prop == prop {
			known[f.Key] = true
		}
	}
	fn := Get(prop)
	for _, seed := range seeds {
		dir, e := os.MkdirTemp("", "lwselftest-*")
		if e != nil {
			return notes, missed, e
		}
		func() {
			defer os.RemoveAll(dir)
			// copy the working tree (without .git) so that uncommitted edits of /repo are part of the baseline
			cp := exec.Command("sh", "-c", fmt.Sprintf("cd %q && tar --exclude=.git -cf - . | (cd %q && tar -xf -)", load.RepoDir(), dir))
			if out, e := cp.CombinedOutput(); e != nil {
				notes = append(notes, fmt.Sprintf("selftest %s: cannot copy tree: %v %s", seed, e, out))
				missed = append(missed, seed)
				return
			}
			ap := exec.Command("git", "apply", filepath.Join(verifDir, "seeded", seed, "patch.diff"))
			ap.Dir = dir
			if out, e := ap.CombinedOutput(); e != nil {
				notes = append(notes, fmt.Sprintf("selftest %s: skipped, patch no longer applies to the current tree (%s)", seed, strings.TrimSpace(string(out))))
				return
			}
			p, e := load.Load(dir, "")
			if e != nil {
				notes = append(notes, fmt.Sprintf("selftest %s: mutated tree does not load: %v", seed, e))
				missed = append(missed, seed)
				return
			}
			run := core.NewRun(prop, "selftest")
			func() {
				defer func() {
					if r := recover(); r != nil {
						notes = append(notes, fmt.Sprintf("selftest %s: analyzer panic %v", seed, r))
					}
				}()
				fn(&Ctx{Prog: p, Run: run, VerifDir: verifDir, Tier: "selftest"})
			}()
			var hits []string
			for _, o := range run.Obls {
				if o.Status == core.Violated && !known[o.Key] {
					hits = append(hits, o.Key)
				}
			}
			if len(hits) == 0 {
				missed = append(missed, seed)
				notes = append(notes, fmt.Sprintf("selftest %s: NOT reported", seed))
				return
			}
			sort.Strings(hits)
			notes = append(notes, fmt.Sprintf("selftest %s: reported by %d obligations, first %s", seed, len(hits), hits[0]))
		}()
	}
	return notes, missed, nil
}
