package props

import (
	"testing"

	"lwverif/internal/core"
)

// The matchers of the effect rules are exercised on the miniature module (analysed, not executed):
// every constructed defect must be reported and every behaviour-preserving variant must be silent.
func TestEffectRuleFixtures(t *testing.T) {
	for _, tc := range []struct {
		prop string
		run  func(c *Ctx)
	}{
		{"C10", c10Fixture},
		{"E4RULES", func(c *Ctx) { e4Fixture(c, "fixture") }},
	} {
		c := &Ctx{Run: core.NewRun(tc.prop, "test")}
		tc.run(c)
		if len(c.Run.Obls) == 0 {
			t.Fatalf("%s: fixture produced no obligations", tc.prop)
		}
		for _, o := range c.Run.Obls {
			if o.Status != core.Discharged {
				t.Errorf("%s: %s %s: want %s, got %s", tc.prop, o.Status, o.Key, o.Want, o.Got)
			}
		}
	}
}
