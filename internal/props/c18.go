package props

import (
	"fmt"

	"lwverif/internal/absint"
)

func init() { Register("C18", checkC18) }

func checkC18(c *Ctx) {
	r := c.Run
	r.Exhaustive = true
	r.Explanation = "Decides C18's per-command clauses with the bit-precise abstract interpreter (engine E1): for each of the 37 payload types of the four application-layer packages, in every gate variant (error flags / image status / item count fixed or region-restricted so that the encoded length is determined), the encoder is interpreted on symbolic fields restricted to their specified bit widths; proved for all such values at once: the encoder accepts, Size() = encoded length = table size, decode(encode(v)) = v leaf by leaf (so in-range bits of different fields cannot collide), the decoder still yields v when another command's byte follows (Commands.UnmarshalBinary hands each decoder the whole remaining buffer, so the length test must be a lower bound), and a truncated payload is rejected. The TS005 key derivations are interpreted with AES as an uninterpreted function and the 16-byte block and key fed to it compared with the specification. Sequences are covered through Size()/stream agreement, not enumerated. Encoder nil-dereference guards (rule R4) come from the SSA guard engine."
	r.Trusted = []string{"internal/absint BDD domain and operator semantics", "props/wirespec_app.go widths and variants (TS003/4/5/6)", "crypto/aes as an uninterpreted function"}
	r.Rule("R1.inverse", "in-range values are accepted and decode(encode(v)) = v for every leaf")
	r.Rule("R2.size", "Size() = encoded length = specification size in every gate variant")
	r.Rule("R3.stream", "a payload followed by another command decodes to the same value; a truncated payload is rejected")
	r.Rule("R5.keys", "multicast key derivations feed AES-encrypt the TS005 block with the right key")
	for _, s := range appSpecs {
		res := runApp(c, s)
		r.Saw("payload types analysed", s.name())
		emitFacts(c, res, "R1.inverse", "app.accept", "app.inv", "undecided")
		emitFacts(c, res, "R2.size", "app.size")
		emitFacts(c, res, "R3.stream", "app.stream", "app.short")
	}
	c18Keys(c)
	// key derivations are functions of their arguments only: no package-level state is written on the way
	// (a memo table keyed by part of the arguments would make the result depend on earlier calls)
	for _, fn := range []string{"GetMcRootKeyForGenAppKey", "GetMcRootKeyForAppKey", "GetMcKEKey", "GetMcAppSKey", "GetMcNetSKey"} {
		ruleStateless(c, "R6.keys-stateless", c.Prog.SSAFunc("applayer/multicastsetup", fn))
	}
	c18EncoderTotal(c)
	c18Sequences(c)
	c18StreamConvention(c)
}

func c18Keys(c *Ctx) {
	r := c.Run
	type kd struct {
		fn      string
		addr    bool
		typ     int
		comment string
	}
	for _, k := range []kd{
		{"GetMcRootKeyForGenAppKey", false, 0x00, "McRootKey = aes128_encrypt(GenAppKey, 0x00 | pad16) (1.0.x)"},
		{"GetMcRootKeyForAppKey", false, 0x20, "McRootKey = aes128_encrypt(AppKey, 0x20 | pad16) (1.1)"},
		{"GetMcKEKey", false, 0x00, "McKEKey = aes128_encrypt(McRootKey, 0x00 | pad16)"},
		{"GetMcAppSKey", true, 0x01, "McAppSKey = aes128_encrypt(McKey, 0x01 | McAddr LE | pad16)"},
		{"GetMcNetSKey", true, 0x02, "McNetSKey = aes128_encrypt(McKey, 0x02 | McAddr LE | pad16)"},
	} {
		in := absint.NewInterp(c.Prog)
		keyT := in.NamedType("", "AES128Key")
		addrT := in.NamedType("", "DevAddr")
		pos := ""
		var res []absint.Value
		var key, addr absint.Value
		err := in.Try(func() {
			key = in.Sym("key", keyT, false)
			args := []absint.Value{key}
			if k.addr {
				addr = in.Sym("mcAddr", addrT, false)
				args = append(args, addr)
			}
			res = in.CallFunc("applayer/multicastsetup", k.fn, args...)
		})
		rk := "multicastsetup." + k.fn
		if err != nil {
			r.Unknown("R5.keys", rk, pos, k.comment, err.Error())
			continue
		}
		ev, _ := res[1].(*absint.ErrVal)
		if ev == nil || ev.NonNil != absint.False {
			r.Bad("R5.keys", rk+"/error", pos, "never fails for a 16-byte key", in.Show(res[1]))
			continue
		}
		out := arrayBytes(res[0], false)
		term, _, ok := opaqueOfBytes(in, out, 0)
		if !ok || term.Kind != "AESenc" {
			r.Bad("R5.keys", rk+"/result", pos, "result = the 16 bytes of one AES-128 encryption", fmt.Sprintf("%s (kind %q)", in.Show(res[0]), term.Kind))
			continue
		}
		r.OK("R5.keys", rk+"/result", pos, "result = AES-128 *encrypt* output bytes 0..15 in order", term.Kind, true)
		compareBytes(c, in, "R5.keys", rk+"/key", pos, term.Inputs[0], vals(arrayBytes(key, false)...), absint.True, nil)
		want := catx([]xb{kb(k.typ)}, zeros(15))
		if k.addr {
			want = catx([]xb{kb(k.typ)}, vals(arrayBytes(addr, true)...), zeros(11))
		}
		compareBytes(c, in, "R5.keys", rk+"/block", pos, term.Inputs[1], want, absint.True, nil)
	}
}
