package props

import (
	"encoding/json"
	"fmt"
	"strconv"
	"strings"
)

// regional.json model

type regDR struct {
	Lora   []int         `json:"lora"`
	FSK    int           `json:"fsk"`
	LRFHSS []interface{} `json:"lrfhss"`
	Dir    string        `json:"dir"`
	// IfDefined: the data-rate exists only in some revisions of the Regional Parameters, with the same definition in
	// all that have it: the band may omit it; a band that defines it must define it like this
	IfDefined bool `json:"if_defined"`
}

type regAffine struct {
	Start        int  `json:"start"`
	Count        int  `json:"count"`
	Base         int  `json:"base"`
	Step         int  `json:"step"`
	MinDR        int  `json:"min_dr"`
	MaxDR        *int `json:"max_dr"`
	MaxDRAtLeast *int `json:"max_dr_at_least"`
}

type regChannels struct {
	List     []int          `json:"list"`
	MinDR    int            `json:"min_dr"`
	MaxDR    int            `json:"max_dr"`
	Affine   []regAffine    `json:"affine"`
	OffsetBy map[string]int `json:"offset_by_variant"`
}

type regRX1DR struct {
	Kind       string           `json:"kind"`
	DRLo       int              `json:"dr_lo"`
	DRHi       int              `json:"dr_hi"`
	OffHi      int              `json:"off_hi"`
	PosOffsets int              `json:"pos_offsets"`
	Rows       map[string][]int `json:"rows"`
	EffOffsets []int            `json:"effective_offsets"`
	Cap        int              `json:"cap"`
	FloorNoDw  int              `json:"floor_nodwell"`
	FloorDw400 int              `json:"floor_dwell400"`
}

type regBand struct {
	Uplink      regChannels            `json:"uplink"`
	Downlink    json.RawMessage        `json:"downlink"`
	RX2         struct{ Freq, DR int } `json:"rx2"`
	DataRates   map[string]regDR       `json:"datarates"`
	UndefinedDR []int                  `json:"undefined_dr"`
	TXPowerStep int                    `json:"tx_power_step"`
	RX1Channel  json.RawMessage        `json:"rx1_channel"`
	RX1DR       regRX1DR               `json:"rx1dr"`
	PingSlot    json.RawMessage        `json:"ping_slot"`
}

type regional struct {
	Bands map[string]regBand `json:"bands"`
}

func (c *Ctx) regional() (*regional, error) {
	var r regional
	if err := c.Spec("regional.json", &r); err != nil {
		return nil, err
	}
	if len(r.Bands) != 11 {
		return nil, fmt.Errorf("regional.json: expected 11 band families, got %d", len(r.Bands))
	}
	return &r, nil
}

// family maps a canonical band name to its oracle entry (AS923-2/3/4 share AS923).
func family(canon string) string {
	if strings.HasPrefix(canon, "AS923") {
		return "AS923"
	}
	return canon
}

func (b regBand) downlinkSame() bool {
	var s string
	return json.Unmarshal(b.Downlink, &s) == nil && s == "same"
}

func (b regBand) downlinkAffine() []regAffine {
	var x struct {
		Affine []regAffine `json:"affine"`
	}
	json.Unmarshal(b.Downlink, &x)
	return x.Affine
}

// rx1ChannelMod returns 0 for "same" (identity) or the modulus.
func (b regBand) rx1ChannelMod() int {
	var s string
	if json.Unmarshal(b.RX1Channel, &s) == nil && s == "same" {
		return 0
	}
	var x struct {
		Mod int `json:"mod"`
	}
	json.Unmarshal(b.RX1Channel, &x)
	return x.Mod
}

type regPing struct {
	Fixed *int `json:"fixed"`
	Hop   *struct {
		Mod   int             `json:"mod"`
		Table json.RawMessage `json:"table"`
	} `json:"hop"`
}

func (b regBand) ping() regPing {
	var p regPing
	json.Unmarshal(b.PingSlot, &p)
	return p
}

// ratio parses "a/b" into a reduced fraction.
func ratio(s string) (int, int, bool) {
	parts := strings.Split(s, "/")
	if len(parts) != 2 {
		return 0, 0, false
	}
	a, e1 := strconv.Atoi(parts[0])
	b, e2 := strconv.Atoi(parts[1])
	if e1 != nil || e2 != nil || b == 0 {
		return 0, 0, false
	}
	g := gcd(a, b)
	return a / g, b / g, true
}

func gcd(a, b int) int {
	for b != 0 {
		a, b = b, a%b
	}
	if a < 0 {
		return -a
	}
	return a
}
