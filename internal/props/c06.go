package props

import (
	"fmt"
	"go/ast"

	"go/types"
	"lwverif/internal/absint"
	"strings"
)

func init() {
	Register("C06", checkC06)
	Register("C07", checkC07)
}

// emitFacts turns codec facts of the selected clauses into obligations of rule.
func emitFacts(c *Ctx, res *codecResult, rule string, clauses ...string) {
	want := map[string]bool{}
	for _, cl := range clauses {
		want[cl] = true
	}
	for _, f := range res.Facts {
		if !want[f.Clause] && !(f.Undec && want["undecided"]) {
			continue
		}
		key := f.Key
		switch {
		case f.Undec:
			c.Run.Unknown(rule, key, f.Pos, f.Want, f.Got)
		case f.OK:
			c.Run.OK(rule, key, f.Pos, f.Want, f.Got, f.NT)
		default:
			c.Run.Bad(rule, key, f.Pos, f.Want, f.Got)
		}
	}
	for _, fn := range res.Funcs {
		c.sawOnce("functions interpreted", fn)
	}
}

func (c *Ctx) sawOnce(cat, item string) {
	if c.seen == nil {
		c.seen = map[string]bool{}
	}
	if !c.seen[cat+"|"+item] {
		c.seen[cat+"|"+item] = true
		c.Run.Saw(cat, item)
	}
}

func checkC06(c *Ctx) {
	r := c.Run
	r.Exhaustive = true
	r.Explanation = "Decides C06's layout clauses with a bit-precise abstract interpretation (engine E1): every MarshalBinary of the 29 registered MAC payloads, their sub-structures, the join/rejoin payloads, MHDR and the identifier types is interpreted on fully symbolic field values (each scalar a vector of BDDs over the field bits; branches if-converted; constant loops unrolled); the resulting function of every wire bit is compared, for all field values inside the encoder's accept condition at once, with the function prescribed by an independently transcribed layout table (byte/bit position, width, little-endian order, 100 Hz unit via a parametrised input F=100·q, 6-bit two's complement, 1/256 s fraction via a linear-form domain). Every UnmarshalBinary is interpreted on fully symbolic bytes and each decoded field compared with the table's reading of the wire, reserved bits being free, so a decoder that lets an RFU bit influence a field is refuted with a concrete byte string. The registry literal (direction, CID) -> (type, size) is compared with the table. Variable-length frames (FHDR/MACPayload/PHYPayload) and CFList are covered under C01/C08, not here; revision-dependent cells are listed in the table as unarmed."
	r.Trusted = []string{"internal/absint BDD domain and operator semantics", "models of encoding/binary, append, copy, make", "props/wirespec_mac.go transcription of LoRaWAN 1.0.x/1.1 §4-§6, §13"}
	r.Assumptions = []string{"append is modelled as allocating (aliasing is the subject of C10)", "enum-typed fields (MType, Major, DwellTime) are restricted to their declared domain"}
	r.Rule("R1.enc=spec", "every wire bit produced by the encoder equals the oracle's function of the field bits, for all accepted values; reserved bits are 0")
	r.Rule("R2.dec=spec", "every decoded field equals the oracle's reading of the wire bits for all byte values; reserved (RFU) bits do not influence any field")
	r.Rule("R3.registry", "the MAC payload registry, read through its accessor GetMACPayloadAndSize (E1, package initialisers evaluated): each of the 2 x 256 (direction, CID) pairs resolves to the specification's payload type and size, or to an error where the specification defines no payload")
	r.Rule("R4.size", "encoded length equals the oracle size")
	all := append(append([]ws{}, macSpecs...), frameSpecs...)
	for _, s := range all {
		res := runCodec(c, s)
		r.Saw("codecs analysed", s.name())
		emitFacts(c, res, "R1.enc=spec", "enc.layout", "undecided")
		emitFacts(c, res, "R2.dec=spec", "dec.layout", "dec.total")
		emitFacts(c, res, "R4.size", "enc.size")
	}
	registryLookupE1(c, "R3.registry", false)
}

func checkC07(c *Ctx) {
	r := c.Run
	r.Exhaustive = true
	r.Explanation = "Decides the per-payload clauses of C07 with the bit-precise abstract interpreter (engine E1): for each of the 29 MAC payload types (and DLSettings/Redundancy/ADRParam/Version) the encoder's accept condition is extracted as a BDD over the field bits and compared with the specification range (every in-range value accepted; no accepted value outside what the wire can carry), and decode(encode(v)) = v is proved for all accepted v at once by interpreting the decoder on the encoder's abstract output (scaled fields through the parametrisation F=100·q / 200·q and a linear-form domain). Size agreement: registry size = encoder length = decoder's exact-length test (decoder interpreted with size-1 and size+1 bytes must reject). The stream decoder is interpreted on every ordered pair of commands of one direction (R10) and on the registry accessor for all 2 x 256 (direction, CID) pairs (R9); registry writers and the no-input-write rule are effect rules; its panic-freedom and progress belong to C09."
	r.Trusted = []string{"internal/absint BDD domain and operator semantics", "models of encoding/binary, append, copy, make", "props/wirespec_mac.go ranges"}
	r.Assumptions = []string{"enum-typed fields (DwellTime) are restricted to their declared constants", "DeviceTimeAns is analysed on wire-resolution inputs (sec·1e9 + frac·3906250); its missing range guard is outside the domain (signed 64-bit division of a free value) and is stated as not analysed"}
	r.Rule("R1.accept", "encoder accept condition vs specification range: spec values accepted; accepted values representable; equal where the range is armed")
	r.Rule("R2.inverse", "decode(encode(v)) = v for every accepted v (no silent truncation, scale exact)")
	r.Rule("R4.size", "registry size = encoded length = decoder's exact length test")
	r.Rule("R6.registry-writers", "the only post-init writer of macPayloadRegistry is RegisterProprietaryMACCommand: under Lock, keyed by the caller's direction and CID, after rejecting CID < 128")
	r.Rule("R8.no-input-write", "no decoder writes through its input slice (commands of one stream share the buffer: a write would corrupt the following command)")
	r.Rule("R7.port0", "marshalPayload refuses a *MACCommand unless FPort is set and 0")
	r.Rule("R9.registry-lookup", "GetMACPayloadAndSize resolves each of the 2 x 256 (direction, CID) pairs to the specified payload type and size or to an error; registering a proprietary CID with a size changes that pair only")
	registryLookupE1(c, "R9.registry-lookup", true)
	c07Sequences(c, "R10.sequence")
	// the stream decoder and the registry accessor read the registry and keep no state of their own (a size table
	// built on first use would miss later registrations)
	statelessRoots(c, "R11.stateless", "decodeDataPayloadToMACCommands", "GetMACPayloadAndSize")
	for _, s := range macSpecs {
		res := runCodec(c, s)
		r.Saw("codecs analysed", s.name())
		emitFacts(c, res, "R1.accept", "enc.accept<=spec", "enc.spec<=accept", "enc.accept=spec", "undecided")
		emitFacts(c, res, "R2.inverse", "inv")
		emitFacts(c, res, "R4.size", "enc.size", "dec.short", "dec.long")
	}
	for _, s := range frameSpecs[:4] {
		res := runCodec(c, s)
		r.Saw("codecs analysed", s.name())
		emitFacts(c, res, "R1.accept", "enc.accept<=spec", "enc.spec<=accept", "enc.accept=spec", "undecided")
		emitFacts(c, res, "R2.inverse", "inv")
	}
	c07Port0(c)
	ruleRegistryWriters(c, "R6.registry-writers")
	ruleNoInputWrite(c, "R8.no-input-write", nil)
}

// c07Port0 (E1): MACPayload.MarshalBinary with MAC commands in FRMPayload succeeds only with FPort = 0 (and no FOpts),
// fails exactly when one of the commands fails to encode, and emits the concatenation of the commands.
func c07Port0(c *Ctx) {
	r := c.Run
	mk := func(port int) avariant {
		v := avariant{Name: fmt.Sprintf("fport-class%d", port), NoStream: true,
			Fix:   map[string]int64{"FHDR.FCtrl.fOptsLen": 0, "FRMPayload[0].*.CID": 0x03, "FRMPayload[1].*.CID": 0x08},
			Lens:  map[string]int{"FRMPayload": 2},
			Where: map[string][2]int64{},
			Dyn: map[string]string{"FRMPayload[0]": ":MACCommand", "FRMPayload[0].*.Payload": ":LinkADRReqPayload",
				"FRMPayload[1]": ":MACCommand", "FRMPayload[1].*.Payload": ":RXTimingSetupReqPayload"}}
		switch port {
		case 1:
			v.NonNil = []string{"FPort"}
			v.Fix["FPort.*"] = 0
		case 2:
			v.NonNil = []string{"FPort"}
			v.Where["FPort.*"] = [2]int64{1, 255}
		}
		return v
	}
	for port := 0; port <= 2; port++ {
		in := absint.NewInterp(c.Prog)
		d := in.D
		MT := in.NamedType("", "MACPayload")
		dom := absint.True
		var mp absint.Value
		var res, e1, e2 []absint.Value
		err := in.Try(func() {
			mp = symDeep(in, "", MT, mk(port), aspec{}, &dom)
			in.SetLive(dom)
			res = in.CallMethod(&absint.Cell{V: mp}, MT, "MarshalBinary")
			e1 = in.CallMethod(deepLeafCell(mp, "FRMPayload[0].*"), in.NamedType("", "MACCommand"), "MarshalBinary")
			e2 = in.CallMethod(deepLeafCell(mp, "FRMPayload[1].*"), in.NamedType("", "MACCommand"), "MarshalBinary")
		})
		key := fmt.Sprintf("MACPayload.MarshalBinary/two-mac-commands/%s", []string{"fport-absent", "fport=0", "fport=1..255"}[port])
		if err != nil {
			r.Unknown("R7.port0", key, "", "inside the interpreter's subset", err.Error())
			continue
		}
		ev, _ := res[1].(*absint.ErrVal)
		if ev == nil {
			r.Unknown("R7.port0", key, "", "error result", in.Show(res[1]))
			continue
		}
		if port != 1 {
			w := d.M.And(dom, d.M.Not(ev.NonNil))
			r.Check(w == absint.False, "R7.port0", key, "", "MAC commands in FRMPayload are refused unless FPort is present and 0", witnessOr(in, w, "always refused"), true)
			continue
		}
		x1, _ := e1[1].(*absint.ErrVal)
		x2, _ := e2[1].(*absint.ErrVal)
		want := d.M.Or(x1.NonNil, x2.NonNil)
		diff := d.M.And(dom, d.M.Xor(ev.NonNil, want))
		r.Check(diff == absint.False, "R7.port0", key+"/error", "", "fails exactly when one of the commands is out of range (no error is lost)", fmt.Sprintf("equal: %v%s", diff == absint.False, witnessIf(in, diff)), true)
		okc := d.M.And(dom, d.M.Not(want))
		out := sliceVals(res[0])
		exp := append(append([]absint.Value{}, sliceVals(e1[0])...), sliceVals(e2[0])...)
		if len(out) < 8+len(exp) {
			r.Bad("R7.port0", key+"/bytes", "", fmt.Sprintf("FHDR(7) FPort(1) then %d command bytes", len(exp)), fmt.Sprintf("%d bytes", len(out)))
			continue
		}
		compareBytes(c, in, "R7.port0", key+"/commands", "", out[8:], vals(exp...), okc, nil)
	}
}

func firstAssign(b *ast.BlockStmt) (*ast.AssignStmt, bool) {
	if len(b.List) == 0 {
		return nil, false
	}
	as, ok := b.List[0].(*ast.AssignStmt)
	return as, ok && len(as.Lhs) == 1 && len(as.Rhs) == 1
}

// retErr: block ends in a return whose last result is not the identifier nil.
func retErr(b *ast.BlockStmt) bool {
	if len(b.List) == 0 {
		return false
	}
	rs, ok := b.List[len(b.List)-1].(*ast.ReturnStmt)
	if !ok || len(rs.Results) == 0 {
		return false
	}
	if id, ok := rs.Results[len(rs.Results)-1].(*ast.Ident); ok && id.Name == "nil" {
		return false
	}
	return true
}

// truthTable evaluates a boolean expression over the given atomic sub-expressions (matched by normalised text,
// also in negated form `x != nil` for `x == nil` etc.). Returns nil if the expression contains other atoms.
func truthTable(info *types.Info, e ast.Expr, atoms []string) map[string]bool {
	norm := func(s string) string { return strings.ReplaceAll(s, " ", "") }
	neg := map[string]string{}
	for _, a := range atoms {
		n := norm(a)
		switch {
		case strings.Contains(n, "=="):
			neg[strings.Replace(n, "==", "!=", 1)] = n
		case strings.Contains(n, "!="):
			neg[strings.Replace(n, "!=", "==", 1)] = n
		}
	}
	idx := map[string]int{}
	for i, a := range atoms {
		idx[norm(a)] = i
	}
	var eval func(e ast.Expr, vals []bool) (bool, bool)
	eval = func(e ast.Expr, vals []bool) (bool, bool) {
		e = unparen(e)
		s := norm(types.ExprString(e))
		if i, ok := idx[s]; ok {
			return vals[i], true
		}
		if p, ok := neg[s]; ok {
			return !vals[idx[p]], true
		}
		switch x := e.(type) {
		case *ast.BinaryExpr:
			l, ok1 := eval(x.X, vals)
			r, ok2 := eval(x.Y, vals)
			if !ok1 || !ok2 {
				return false, false
			}
			switch x.Op.String() {
			case "&&":
				return l && r, true
			case "||":
				return l || r, true
			}
		case *ast.UnaryExpr:
			if x.Op.String() == "!" {
				v, ok := eval(x.X, vals)
				return !v, ok
			}
		}
		return false, false
	}
	out := map[string]bool{}
	n := len(atoms)
	for m := 0; m < 1<<uint(n); m++ {
		vals := make([]bool, n)
		key := ""
		for i := 0; i < n; i++ {
			vals[i] = m&(1<<uint(n-1-i)) != 0
			if vals[i] {
				key += "T"
			} else {
				key += "F"
			}
		}
		v, ok := eval(e, vals)
		if !ok {
			return nil
		}
		out[key] = v
	}
	return out
}

// registryLookupE1 decides the registry through its accessor instead of its representation: GetMACPayloadAndSize is
// interpreted (engine E1, package-level initialisers evaluated) for each of the 2 x 256 (direction, CID) pairs; the
// pair must resolve to the specification's payload type and size, or to an error when the specification defines no
// payload for it. Then, for each direction and each proprietary CID 128..255, RegisterProprietaryMACCommand(dir, cid, 3)
// is interpreted on a fresh state and the lookups that could be disturbed are repeated: the registered pair has size 3,
// the same CID in the other direction, the CID with the top bit cleared and every standard command are unchanged.
func registryLookupE1(c *Ctx, rule string, registration bool) {
	r := c.Run
	want := map[string]ws{}
	for _, s := range macSpecs {
		want[fmt.Sprintf("%s/%#02x", s.Dir, s.CID)] = s
	}
	dirName := func(up bool) string {
		if up {
			return "up"
		}
		return "down"
	}
	type res struct {
		typ  string
		size int64
		err  bool
		bad  string
	}
	lookup := func(in *absint.Interp, up bool, cid int) res {
		d := in.D
		upN := absint.False
		if up {
			upN = absint.True
		}
		var out []absint.Value
		if err := in.Try(func() {
			in.SetLive(absint.True)
			out = in.CallFunc("", "GetMACPayloadAndSize", d.Bool(upN), d.Const(int64(cid), 8, false))
		}); err != nil {
			return res{bad: err.Error()}
		}
		ev, ok := out[2].(*absint.ErrVal)
		if !ok {
			return res{bad: fmt.Sprintf("error result is %T", out[2])}
		}
		switch ev.NonNil {
		case absint.True:
			return res{err: true}
		case absint.False:
		default:
			return res{bad: "error depends on a symbolic value"}
		}
		sz, ok := out[1].(*absint.Bits)
		if !ok {
			return res{bad: "size is not an integer"}
		}
		k, isC := d.ConstVal(sz)
		if !isC {
			return res{bad: "size is symbolic"}
		}
		typ := "?"
		if iface, ok := out[0].(*absint.Iface); ok && iface.DynT != nil {
			typ = types.TypeString(iface.DynT, func(*types.Package) string { return "" })
			typ = strings.TrimPrefix(typ, "*")
		}
		return res{typ: typ, size: k}
	}
	base := absint.NewInterp(c.Prog)
	for _, up := range []bool{true, false} {
		for cid := 0; cid < 256; cid++ {
			k := fmt.Sprintf("%s/%#02x", dirName(up), cid)
			got := lookup(base, up, cid)
			if got.bad != "" {
				r.Unknown(rule, "lookup/"+k, "", "GetMACPayloadAndSize inside the interpreter's subset", got.bad)
				continue
			}
			if s, ok := want[k]; ok {
				r.Check(!got.err && got.typ == s.Type && int(got.size) == s.Size, rule, "lookup/"+k, "", fmt.Sprintf("%s, %d bytes", s.Type, s.Size), fmt.Sprintf("type %s size %d error=%v", got.typ, got.size, got.err), true)
			} else {
				r.Check(got.err, rule, "lookup/"+k, "", "no payload (an error): the specification defines none for this CID and direction", fmt.Sprintf("type %s size %d error=%v", got.typ, got.size, got.err), cid < 0x30)
			}
		}
	}
	if !registration {
		return
	}
	// a standard CID (< 128) cannot be registered: the call is refused and the pair keeps its meaning
	for _, up := range []bool{true, false} {
		for cid := 0; cid < 128; cid++ {
			key := fmt.Sprintf("register/%s/%#02x", dirName(up), cid)
			in := absint.NewInterp(c.Prog)
			d := in.D
			upN := absint.False
			if up {
				upN = absint.True
			}
			var out []absint.Value
			if err := in.Try(func() {
				out = in.CallFunc("", "RegisterProprietaryMACCommand", d.Bool(upN), d.Const(int64(cid), 8, false), d.Const(3, 64, true))
			}); err != nil {
				r.Unknown(rule, key, "", "RegisterProprietaryMACCommand inside the interpreter's subset", err.Error())
				continue
			}
			ev, ok := out[0].(*absint.ErrVal)
			if !ok || ev.NonNil != absint.True {
				r.Bad(rule, key, "", "a CID < 128 is refused", "accepted: "+in.Show(out[0]))
				continue
			}
			g := lookup(in, up, cid)
			k := fmt.Sprintf("%s/%#02x", dirName(up), cid)
			same := false
			if s, ok := want[k]; ok {
				same = g.bad == "" && !g.err && g.typ == s.Type && int(g.size) == s.Size
			} else {
				same = g.bad == "" && g.err
			}
			r.Check(same, rule, key, "", "refused, and the pair resolves as before", fmt.Sprintf("refused; afterwards type %s size %d error=%v %s", g.typ, g.size, g.err, g.bad), cid < 0x30)
		}
	}
	// registration of a proprietary command
	for _, up := range []bool{true, false} {
		for cid := 128; cid < 256; cid++ {
			key := fmt.Sprintf("register/%s/%#02x", dirName(up), cid)
			in := absint.NewInterp(c.Prog)
			d := in.D
			upN := absint.False
			if up {
				upN = absint.True
			}
			var out []absint.Value
			if err := in.Try(func() {
				out = in.CallFunc("", "RegisterProprietaryMACCommand", d.Bool(upN), d.Const(int64(cid), 8, false), d.Const(3, 64, true))
			}); err != nil {
				r.Unknown(rule, key, "", "RegisterProprietaryMACCommand inside the interpreter's subset", err.Error())
				continue
			}
			if ev, ok := out[0].(*absint.ErrVal); !ok || ev.NonNil != absint.False {
				r.Bad(rule, key, "", "a CID >= 128 with a positive size is accepted", in.Show(out[0]))
				continue
			}
			var wrong []string
			chk := func(u bool, id int, wantErr bool, wantSize int, what string) {
				g := lookup(in, u, id)
				switch {
				case g.bad != "":
					wrong = append(wrong, what+": "+g.bad)
				case wantErr && !g.err:
					wrong = append(wrong, fmt.Sprintf("%s: %s/%#02x now resolves to %s size %d", what, dirName(u), id, g.typ, g.size))
				case !wantErr && (g.err || int(g.size) != wantSize):
					wrong = append(wrong, fmt.Sprintf("%s: %s/%#02x size %d error=%v, expected size %d", what, dirName(u), id, g.size, g.err, wantSize))
				}
			}
			chk(up, cid, false, 3, "the registered pair")
			chk(!up, cid, true, 0, "the other direction")
			low := cid & 0x7f
			for _, u := range []bool{true, false} {
				if s, ok := want[fmt.Sprintf("%s/%#02x", dirName(u), low)]; ok {
					chk(u, low, false, s.Size, "the standard command with the same low bits")
				} else {
					chk(u, low, true, 0, "the CID with the top bit cleared")
				}
			}
			r.Check(len(wrong) == 0, rule, key, "", "size 3 in that direction only; standard commands untouched", strings.Join(wrong, "; "), true)
		}
	}
}
