package props

import (
	"fmt"
	"go/token"
	"go/types"
	"sort"
	"strings"

	"golang.org/x/tools/go/ssa"

	"lwverif/internal/guards"
	"lwverif/internal/load"
)

// C18 clauses built on E3 (DESIGN §3 C18):
//   R4 ENCODER TOTAL      in every MarshalBinary of the four applayer packages, index/slice writes, make sizes,
//                         intrinsic preconditions and pointer dereferences are discharged by dominating facts
//                         (a guard that returns an error) — "encoding a well-formed command value never panics"
//   R3 STREAM-CONVENTION  a payload decoder registered in a command registry receives the whole remaining buffer,
//                         so its length test must be a lower bound (len(data) < Size), never an (in)equality
// These functions do not register a property; c18.go calls them.

var c18ApplayerPkgs = []string{"applayer/clocksync", "applayer/multicastsetup", "applayer/fragmentation", "applayer/firmwaremanagement"}

func c18ApplayerMethods(P *load.Program, name string) []*ssa.Function {
	var out []*ssa.Function
	seen := map[*ssa.Function]bool{}
	for _, rel := range c18ApplayerPkgs {
		sp := P.SSAPkg(rel)
		if sp == nil {
			continue
		}
		for _, m := range sp.Members {
			tn, ok := m.(*ssa.Type)
			if !ok {
				continue
			}
			for _, T := range []types.Type{tn.Type(), types.NewPointer(tn.Type())} {
				ms := P.SSA.MethodSets.MethodSet(T)
				for i := 0; i < ms.Len(); i++ {
					if ms.At(i).Obj().Name() != name {
						continue
					}
					fn := P.SSA.MethodValue(ms.At(i))
					if fn != nil && fn.Synthetic == "" && fn.Pkg == sp && fn.Blocks != nil && !seen[fn] {
						seen[fn] = true
						out = append(out, fn)
					}
				}
			}
		}
	}
	sort.Slice(out, func(i, j int) bool { return out[i].String() < out[j].String() })
	return out
}

// c18EncoderTotal: C18-R4.
func c18EncoderTotal(c *Ctx) {
	r := c.Run
	P := c.Prog
	r.Rule("R4.encodertotal.roots", "every applayer MarshalBinary is found and its guard analysis converges")
	r.Rule("R4.encodertotal", "every index/slice/make/intrinsic-precondition and pointer dereference reachable from an applayer MarshalBinary is discharged by a dominating guard")
	roots := c18ApplayerMethods(P, "MarshalBinary")
	if len(roots) < 30 {
		r.Unknown("R4.encodertotal", "applayer MarshalBinary methods", "", "at least 30 encoders in the four applayer packages", fmt.Sprintf("found %d", len(roots)))
		return
	}
	rule := func(kind string) string {
		if kind == "extern" {
			return ""
		}
		return "R4.encodertotal"
	}
	runGuards(c, roots, guardsOpts{rule: rule, rootsCat: "applayer encoders (MarshalBinary)"})
	E := guardsEngine(P)
	for _, f := range roots {
		a := E.AnalyzeCtx(f)
		if a == nil || !a.Converged {
			r.Unknown("R4.encodertotal", guardFnName(f), P.Rel(f.Pos()), "encoder analysed", "dataflow did not converge")
		} else {
			r.OK("R4.encodertotal.roots", guardFnName(f), P.Rel(f.Pos()), "encoder analysed", fmt.Sprintf("%d blocks", len(f.Blocks)), false)
		}
	}
}

// ---------------------------------------------------------------------------
// R3 STREAM-CONVENTION

// c18RegisteredPayloadTypes: the payload types of a package's command stream: every named type of the package whose
// pointer implements the package's CommandPayload interface (however the package maps CIDs to constructors: map
// literal of closures, switch, table of prototypes).
func c18RegisteredPayloadTypes(P *load.Program, rel string) map[*types.Named]bool {
	out := map[*types.Named]bool{}
	sp := P.SSAPkg(rel)
	if sp == nil {
		return out
	}
	cpObj := sp.Pkg.Scope().Lookup("CommandPayload")
	if cpObj == nil {
		return out
	}
	iface, ok := cpObj.Type().Underlying().(*types.Interface)
	if !ok {
		return out
	}
	for _, name := range sp.Pkg.Scope().Names() {
		tn, ok := sp.Pkg.Scope().Lookup(name).(*types.TypeName)
		if !ok || tn.IsAlias() {
			continue
		}
		n, ok := tn.Type().(*types.Named)
		if !ok {
			continue
		}
		if _, isIface := n.Underlying().(*types.Interface); isIface {
			continue
		}
		if types.Implements(types.NewPointer(n), iface) {
			out[n] = true
		}
	}
	return out
}

// c18StreamConvention: C18-R3.
func c18StreamConvention(c *Ctx) {
	r := c.Run
	P := c.Prog
	r.Rule("R3.stream-test", "a registered payload decoder tests len(data) as a lower bound (<, <=): an equality / inequality test rejects the payload whenever another command follows it in the same buffer")
	total := 0
	for _, rel := range c18ApplayerPkgs {
		regs := c18RegisteredPayloadTypes(P, rel)
		if len(regs) == 0 {
			r.Unknown("R3.stream-test", rel, "", "the package has types implementing its CommandPayload interface", "none found")
			continue
		}
		var names []*types.Named
		for n := range regs {
			names = append(names, n)
		}
		sort.Slice(names, func(i, j int) bool { return names[i].Obj().Name() < names[j].Obj().Name() })
		for _, n := range names {
			fn := P.SSAFunc(rel, n.Obj().Name()+".UnmarshalBinary")
			key := rel + "." + n.Obj().Name() + ".UnmarshalBinary"
			if fn == nil {
				r.Unknown("R3.stream-test", key, "", "registered payload has a decoder", "UnmarshalBinary not found")
				continue
			}
			total++
			r.Saw("registered payload decoders", key)
			data := c18DataParam(fn)
			if data == nil {
				r.Unknown("R3.stream-test", key, P.Rel(fn.Pos()), "decoder has a []byte parameter", "none")
				continue
			}
			tests := c18LengthTests(fn, data)
			if len(tests) == 0 {
				r.OK("R3.stream-test", key, P.Rel(fn.Pos()), "rejecting length tests are lower bounds", "no length test rejects input", false)
				continue
			}
			for _, t := range tests {
				k := key + "/" + strings.TrimSpace(guards.ExprAt(fn, t.cmp.Pos()))
				desc := "rejects when len(data) " + t.rejectOp.String() + " <size> in `" + strings.TrimSpace(guards.ExprAt(fn, t.cmp.Pos())) + "`"
				okc := false
				switch t.rejectOp {
				case token.LSS, token.LEQ:
					okc = true
				case token.EQL:
					if kc, isC := guards.ConstInt(t.other); isC && kc == 0 {
						okc = true // emptiness test
					}
				}
				if okc {
					r.OK("R3.stream-test", k, P.Rel(t.cmp.Pos()), "rejecting length tests are lower bounds", desc, true)
				} else {
					r.Bad("R3.stream-test", k, P.Rel(t.cmp.Pos()), "rejecting length tests are lower bounds", desc+": Commands.UnmarshalBinary passes the whole remaining buffer, so a command that follows this one makes it undecodable")
				}
			}
		}
	}
	r.Note("R3.stream: %d registered payload decoders examined", total)
}

func c18DataParam(fn *ssa.Function) *ssa.Parameter {
	for _, p := range fn.Params {
		if sl, ok := p.Type().Underlying().(*types.Slice); ok {
			if b, ok := sl.Elem().Underlying().(*types.Basic); ok && b.Kind() == types.Uint8 {
				return p
			}
		}
	}
	return nil
}

type c18LenTest struct {
	cmp      *ssa.BinOp
	other    ssa.Value
	rejectOp token.Token // the input is rejected when  len(data) rejectOp other
}

func c18FlipCmp(op token.Token) token.Token {
	switch op {
	case token.LSS:
		return token.GTR
	case token.LEQ:
		return token.GEQ
	case token.GTR:
		return token.LSS
	case token.GEQ:
		return token.LEQ
	}
	return op
}

func c18NegCmp(op token.Token) token.Token {
	switch op {
	case token.LSS:
		return token.GEQ
	case token.LEQ:
		return token.GTR
	case token.GTR:
		return token.LEQ
	case token.GEQ:
		return token.LSS
	case token.EQL:
		return token.NEQ
	case token.NEQ:
		return token.EQL
	}
	return op
}

// c18ErrorReturn: the block returns a non-nil error right away.
func c18ErrorReturn(b *ssa.BasicBlock) bool {
	ret, ok := b.Instrs[len(b.Instrs)-1].(*ssa.Return)
	if !ok || len(ret.Results) == 0 {
		return false
	}
	return !isNilConstValue(ret.Results[len(ret.Results)-1])
}

// c18LengthTests: branch conditions comparing len(data) where one side of the branch returns an error at once.
func c18LengthTests(fn *ssa.Function, data *ssa.Parameter) []c18LenTest {
	isLen := func(v ssa.Value) bool {
		call, ok := v.(*ssa.Call)
		if !ok {
			return false
		}
		b, ok := call.Call.Value.(*ssa.Builtin)
		return ok && b.Name() == "len" && call.Call.Args[0] == ssa.Value(data)
	}
	var out []c18LenTest
	for _, b := range fn.Blocks {
		iff, ok := b.Instrs[len(b.Instrs)-1].(*ssa.If)
		if !ok {
			continue
		}
		cond := iff.Cond
		neg := false
		for {
			u, isNot := cond.(*ssa.UnOp)
			if !isNot || u.Op != token.NOT {
				break
			}
			neg = !neg
			cond = u.X
		}
		bo, ok := cond.(*ssa.BinOp)
		if !ok {
			continue
		}
		switch bo.Op {
		case token.EQL, token.NEQ, token.LSS, token.LEQ, token.GTR, token.GEQ:
		default:
			continue
		}
		op := bo.Op
		var other ssa.Value
		switch {
		case isLen(bo.X):
			other = bo.Y
		case isLen(bo.Y):
			other = bo.X
			op = c18FlipCmp(op)
		default:
			continue
		}
		if neg {
			op = c18NegCmp(op)
		}
		switch {
		case c18ErrorReturn(b.Succs[0]) && !c18ErrorReturn(b.Succs[1]):
			out = append(out, c18LenTest{bo, other, op})
		case c18ErrorReturn(b.Succs[1]) && !c18ErrorReturn(b.Succs[0]):
			out = append(out, c18LenTest{bo, other, c18NegCmp(op)})
		}
	}
	return out
}
