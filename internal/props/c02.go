package props

import (
	"fmt"
	"go/types"

	"lwverif/internal/absint"
)

func init() { Register("C02", checkC02) }

// leBytes splits an integer value into its little-endian bytes.
func leBytes(v *absint.Bits, n int) []absint.Value {
	b := v.Bits()
	out := make([]absint.Value, n)
	for i := 0; i < n; i++ {
		bb := make([]absint.Node, 8)
		for j := 0; j < 8; j++ {
			if 8*i+j < len(b) {
				bb[j] = b[8*i+j]
			} else {
				bb[j] = absint.False
			}
		}
		out[i] = absint.MakeBits(8, false, bb)
	}
	return out
}

func gate(in *absint.Interp, c absint.Node, vs []absint.Value) []absint.Value {
	out := make([]absint.Value, len(vs))
	zero := in.D.Const(0, 8, false)
	for i, v := range vs {
		out[i] = in.D.ITE(c, v.(*absint.Bits), zero)
	}
	return out
}

func consts(ks ...int) []xb {
	var out []xb
	for _, k := range ks {
		out = append(out, kb(k))
	}
	return out
}

// frameVariant builds one data-frame shape (n FOpts bytes, FPort present iff port, m FRMPayload bytes).
func frameVariant(mtype int64, n int, port bool, m int) avariant {
	v := avariant{Name: fmt.Sprintf("mtype%d/fopts%d/port%v/frm%d", mtype, n, port, m), NoStream: true,
		Dyn:  map[string]string{"MACPayload": ":MACPayload"},
		Fix:  map[string]int64{"MHDR.MType": mtype, mpFHDR + ".FCtrl.fOptsLen": int64(n)},
		Lens: map[string]int{}, Where: map[string][2]int64{}}
	if n > 0 {
		v.Lens[mpFHDR+".FOpts"] = 1
		v.Dyn[mpFHDR+".FOpts[0]"] = ":DataPayload"
		v.Lens[mpFHDR+".FOpts[0].*.Bytes"] = n
	}
	if port {
		v.NonNil = []string{"MACPayload.*.FPort"}
		v.Where["MACPayload.*.FPort.*"] = [2]int64{1, 255}
	}
	if m > 0 {
		v.Lens["MACPayload.*.FRMPayload"] = 1
		v.Dyn["MACPayload.*.FRMPayload[0]"] = ":DataPayload"
		v.Lens["MACPayload.*.FRMPayload[0].*.Bytes"] = m
	}
	return v
}

func sliceVals(v absint.Value) []absint.Value {
	s, ok := v.(*absint.Slice)
	if !ok {
		return nil
	}
	out := make([]absint.Value, s.Len())
	for i := range out {
		out[i] = s.At(i).V
	}
	return out
}

func checkC02(c *Ctx) {
	r := c.Run
	r.Exhaustive = true
	r.Explanation = "Decides C02's structural clauses with the abstract interpreter (engine E1), AES-CMAC being an uninterpreted function of (key bytes, message bytes): calculateUplinkDataMIC / calculateDownlinkDataMIC are interpreted on a fully symbolic data frame (several FOpts/FPort/FRMPayload shapes including multi-block lengths), symbolic keys, confFCnt, txDR, txCh and ACK flag, once per MAC version. Proved for all values at once: each of the four MIC bytes is byte k of the CMAC term the specification names (1.0: cmac(FNwkSIntKey, B0|msg)[0..3]; 1.1 uplink: cmacS(SNwkSIntKey, B1|msg)[0..1] | cmacF(FNwkSIntKey, B0|msg)[0..1]; downlink: cmac(SNwkSIntKey, B0|msg)[0..3]); the key argument of each CMAC is the named key in array order; each of the 16 bytes of B0/B1 is the specified constant or field byte (DevAddr little-endian, full 32-bit FCnt little-endian, ConfFCnt low 16 bits gated by ACK (and by 1.1 on downlink), TxDr, TxCh, direction, len(msg)); and msg is exactly marshal(MHDR)|marshal(MACPayload) of the same frame. Since the MIC terms mention no other symbol, inputs the specification excludes cannot influence the MIC. The Set*/Validate* wrappers (pass-through, 4-byte compare) are SSA provenance rules. Correctness of the CMAC/AES implementations is trusted."
	r.Trusted = []string{"internal/absint", "github.com/jacobsa/crypto/cmac and crypto/aes as uninterpreted functions", "spec blocks B0/B1 from LoRaWAN 1.1 §4.4 / 1.0.x §4.4"}
	r.Rule("R1.blocks", "every byte of B0/B1 equals the specified constant / field byte / gated counter byte")
	r.Rule("R2.message", "the authenticated message is marshal(MHDR)|marshal(MACPayload) and the key is the named key")
	r.Rule("R3.composition", "MIC byte k is byte k' of the CMAC term the specification names for that version and direction")
	r.Rule("R4.wrappers", "Set* stores the computed MIC; Validate* passes parameters through unchanged and compares all four bytes")
	shapes := []struct {
		n    int
		port bool
		m    int
	}{{0, false, 0}, {3, true, 5}, {15, true, 17}, {0, true, 40}, {0, true, 242}}
	for _, up := range []bool{true, false} {
		for _, ver := range []int64{0, 1} {
			for _, sh := range shapes {
				mt := int64(3)
				if up {
					mt = 2
				}
				c02One(c, up, ver, frameVariant(mt, sh.n, sh.port, sh.m))
				c02One(c, up, ver, frameVariant(mt+2, sh.n, sh.port, sh.m))
			}
		}
	}
	micWrappers(c, "R4.wrappers", false)
	flowC02(c)
	c.Run.Advisory("R4.wrapper-flow", "R4.wrappers")
	statelessRoots(c, "R5.stateless", "PHYPayload.calculateUplinkDataMIC", "PHYPayload.calculateDownlinkDataMIC", "PHYPayload.SetUplinkDataMIC", "PHYPayload.SetDownlinkDataMIC", "PHYPayload.ValidateUplinkDataMIC", "PHYPayload.ValidateDownlinkDataMIC", "PHYPayload.ValidateUplinkDataMICF")
}

func c02One(c *Ctx, uplink bool, ver int64, v avariant) {
	r := c.Run
	in := absint.NewInterp(c.Prog)
	d := in.D
	T := in.NamedType("", "PHYPayload")
	dir := "downlink"
	fnName := "calculateDownlinkDataMIC"
	if uplink {
		dir = "uplink"
		fnName = "calculateUplinkDataMIC"
	}
	cfg := fmt.Sprintf("%s/mac1.%d/%s", dir, ver, v.Name)
	pos := ""
	if fn := c.Prog.SSAFunc("", "PHYPayload."+fnName); fn != nil {
		pos = c.Prog.Rel(fn.Pos())
	}
	var phy absint.Value
	var fKey, sKey absint.Value
	var conf, txDR, txCh *absint.Bits
	dom0 := absint.True
	if err := in.Try(func() {
		phy = symDeep(in, "", T, v, aspec{}, &dom0)
		keys := in.SymByteArraysInterleaved([]string{"fNwkSIntKey", "sNwkSIntKey"}, 16)
		fKey, sKey = keys[0], keys[1]
		conf = d.Sym("confFCnt", 32, false, false)
		txDR = d.Sym("txDR", 8, false, false)
		txCh = d.Sym("txCh", 8, false, false)
	}); err != nil {
		r.Unknown("R3.composition", cfg, pos, "inputs constructible", err.Error())
		return
	}
	type part struct {
		dom absint.Node
		tag string
	}
	work := []part{{dom0, ""}}
	for len(work) > 0 {
		pt := work[0]
		work = work[1:]
		if pt.dom == absint.False {
			continue
		}
		var res []absint.Value
		err := in.Try(func() {
			in.SetLive(pt.dom)
			verV := d.Const(ver, 8, false)
			cell := &absint.Cell{V: phy}
			if uplink {
				res = in.CallMethod(cell, T, fnName, verV, conf, txDR, txCh, fKey, sKey)
			} else {
				res = in.CallMethod(cell, T, fnName, verV, conf, sKey)
			}
		})
		if sr, ok := err.(absint.SplitRequest); ok && len(pt.tag) < 3 {
			work = append(work, part{d.M.And(pt.dom, sr.Cond), pt.tag + "+"}, part{d.M.And(pt.dom, d.M.Not(sr.Cond)), pt.tag + "-"})
			continue
		}
		if err != nil {
			r.Unknown("R3.composition", cfg+pt.tag, pos, "function inside the interpreter's subset", err.Error())
			continue
		}
		c02Judge(c, in, cfg+pt.tag, pos, uplink, ver, pt.dom, phy, res, fKey, sKey, conf, txDR, txCh)
	}
}

func c02Judge(c *Ctx, in *absint.Interp, cfg, pos string, uplink bool, ver int64, dom absint.Node, phy absint.Value, res []absint.Value, fKey, sKey absint.Value, conf, txDR, txCh *absint.Bits) {
	r := c.Run
	d := in.D
	in.SetLive(dom)
	r.Saw("configurations", cfg)
	if ev, _ := res[1].(*absint.ErrVal); ev == nil || d.M.And(dom, ev.NonNil) != absint.False {
		r.Bad("R3.composition", cfg+"/error", pos, "no error for a well-formed frame and 16-byte keys", in.Show(res[1]))
		return
	}
	mic := arrayBytes(res[0], false)
	// expected message
	var msg []absint.Value
	if e := in.Try(func() {
		mh := in.CallMethod(&absint.Cell{V: deepLeaf(phy, "MHDR")}, in.NamedType("", "MHDR"), "MarshalBinary")
		mp := in.CallMethod(deepLeafCell(phy, "MACPayload.*"), in.NamedType("", "MACPayload"), "MarshalBinary")
		msg = append(sliceVals(mh[0]), sliceVals(mp[0])...)
	}); e != nil {
		r.Unknown("R2.message", cfg, pos, "frame marshals", e.Error())
		return
	}
	ack := asBits(deepLeaf(phy, mpFHDR+".FCtrl.ACK"), "ACK").Bits()[0]
	devAddr := arrayBytes(deepLeaf(phy, mpFHDR+".DevAddr"), true)
	fcnt := leBytes(asBits(deepLeaf(phy, mpFHDR+".FCnt"), "FCnt"), 4)
	confB := leBytes(conf, 2)
	ln := kb(len(msg) & 0xff)
	dirB := 1
	if uplink {
		dirB = 0
	}
	b0 := catx(consts(0x49, 0, 0, 0, 0, dirB), vals(devAddr...), vals(fcnt...), consts(0), []xb{ln})
	b1 := catx(consts(0x49), vals(gate(in, ack, confB)...), vals(txDR, txCh), consts(dirB), vals(devAddr...), vals(fcnt...), consts(0), []xb{ln})
	if !uplink {
		g := absint.False
		if ver == 1 {
			g = ack
		}
		b0 = catx(consts(0x49), vals(gate(in, g, confB)...), consts(0, 0, dirB), vals(devAddr...), vals(fcnt...), consts(0), []xb{ln})
	}
	names := []string{"0x49", "ConfFCnt.lo", "ConfFCnt.hi", "TxDr", "TxCh", "Dir", "DevAddr0", "DevAddr1", "DevAddr2", "DevAddr3", "FCnt0", "FCnt1", "FCnt2", "FCnt3", "0x00", "len(msg)"}
	type part struct {
		lo, n  int
		key    absint.Value
		kname  string
		block  []xb
		bname  string
		offset int
	}
	var parts []part
	switch {
	case !uplink:
		parts = []part{{0, 4, sKey, "SNwkSIntKey", b0, "B0", 0}}
	case ver == 0:
		parts = []part{{0, 4, fKey, "FNwkSIntKey", b0, "B0", 0}}
	default:
		parts = []part{{0, 2, sKey, "SNwkSIntKey", b1, "B1", 0}, {2, 2, fKey, "FNwkSIntKey", b0, "B0", 0}}
	}
	for _, p := range parts {
		term, _, ok := opaqueOfBytes(in, mic[p.lo:p.lo+p.n], p.offset)
		key := fmt.Sprintf("%s/mic[%d:%d]", cfg, p.lo, p.lo+p.n)
		if !ok || term.Kind != "CMAC" {
			r.Bad("R3.composition", key, pos, fmt.Sprintf("bytes %d..%d of cmac(%s, %s|msg)", p.offset, p.offset+p.n-1, p.kname, p.bname), fmt.Sprintf("%v", showVals(in, mic[p.lo:p.lo+p.n])))
			continue
		}
		r.OK("R3.composition", key, pos, fmt.Sprintf("bytes %d..%d of one AES-CMAC", p.offset, p.offset+p.n-1), "CMAC term", true)
		compareBytes(c, in, "R2.message", key+"/key="+p.kname, pos, term.Inputs[0], vals(arrayBytes(p.key, false)...), dom, nil)
		if len(term.Inputs[1]) != 16+len(msg) {
			r.Bad("R2.message", key+"/msglen", pos, fmt.Sprintf("%d bytes (block + message)", 16+len(msg)), fmt.Sprint(len(term.Inputs[1])))
			continue
		}
		compareBytes(c, in, "R1.blocks", key+"/"+p.bname, pos, term.Inputs[1][:16], p.block, dom, names)
		compareBytes(c, in, "R2.message", key+"/msg", pos, term.Inputs[1][16:], vals(msg...), dom, nil)
	}
}

func showVals(in *absint.Interp, vs []absint.Value) []string {
	var out []string
	for _, v := range vs {
		out = append(out, in.Show(v))
	}
	return out
}

// deepLeafCell returns the storage cell behind a pointer/interface path ending in ".*".
func deepLeafCell(v absint.Value, path string) *absint.Cell {
	base := path[:len(path)-2]
	cur := deepLeaf(v, base)
	switch x := cur.(type) {
	case *absint.Ptr:
		return x.To
	case *absint.Iface:
		return x.Dyn.(*absint.Ptr).To
	}
	return &absint.Cell{V: cur}
}

var _ = types.Typ
