package props

import (
	"fmt"
	"go/token"

	"lwverif/internal/absint"
)

// micWrappers (E1): Set*MIC stores exactly the computed MIC; Validate*MIC returns true iff all four bytes of
// p.MIC equal the computed MIC (ValidateUplinkDataMICF: bytes 2..3 of the 1.1 MIC computed with fNwkSIntKey twice).
// The computed MIC is the calculate* function's own abstract result for the same symbolic inputs, so this rule
// is independent of the block layout rules.
func micWrappers(c *Ctx, rule string, join bool) {
	r := c.Run
	type wcase struct {
		name     string
		variant  avariant
		calc     string
		set, val string
		args     func(in *absint.Interp) []absint.Value
		widths   map[string]int
	}
	key := func(in *absint.Interp, n string) absint.Value { return in.Sym(n, in.NamedType("", "AES128Key"), false) }
	var cases []wcase
	if !join {
		up := frameVariant(2, 3, true, 5)
		dn := frameVariant(3, 3, true, 5)
		cases = []wcase{
			{"uplink-data", up, "calculateUplinkDataMIC", "SetUplinkDataMIC", "ValidateUplinkDataMIC", func(in *absint.Interp) []absint.Value {
				return []absint.Value{in.D.Sym("macVersion", 8, false, false), in.D.Sym("confFCnt", 32, false, false), in.D.Sym("txDR", 8, false, false), in.D.Sym("txCh", 8, false, false), key(in, "fNwkSIntKey"), key(in, "sNwkSIntKey")}
			}, nil},
			{"downlink-data", dn, "calculateDownlinkDataMIC", "SetDownlinkDataMIC", "ValidateDownlinkDataMIC", func(in *absint.Interp) []absint.Value {
				return []absint.Value{in.D.Sym("macVersion", 8, false, false), in.D.Sym("confFCnt", 32, false, false), key(in, "sNwkSIntKey")}
			}, nil},
		}
	} else {
		jr := avariant{Name: "join-request", Dyn: map[string]string{"MACPayload": ":JoinRequestPayload"}, Fix: map[string]int64{"MHDR.MType": 0}}
		ja := jaVariants()[0]
		cases = []wcase{
			{"uplink-join", jr, "calculateUplinkJoinMIC", "SetUplinkJoinMIC", "ValidateUplinkJoinMIC", func(in *absint.Interp) []absint.Value {
				return []absint.Value{key(in, "key")}
			}, nil},
			{"downlink-join", ja, "calculateDownlinkJoinMIC", "SetDownlinkJoinMIC", "ValidateDownlinkJoinMIC", func(in *absint.Interp) []absint.Value {
				return []absint.Value{in.D.Sym("joinReqType", 8, false, false), in.Sym("joinEUI", in.NamedType("", "EUI64"), false), in.D.Sym("devNonce", 16, false, false), key(in, "key")}
			}, jaWidths},
		}
	}
	for _, wc := range cases {
		in := absint.NewInterp(c.Prog)
		d := in.D
		PT := in.NamedType("", "PHYPayload")
		dom0 := absint.True
		var phy absint.Value
		var args []absint.Value
		if err := in.Try(func() {
			phy = symDeep(in, "", PT, wc.variant, aspec{Widths: wc.widths}, &dom0)
			args = wc.args(in)
			if !join {
				// the MAC version is an enum {1.0, 1.1}
				dom0 = d.M.And(dom0, d.Cmp(token.LEQ, args[0].(*absint.Bits), d.Const(1, 8, false)))
			}
		}); err != nil {
			r.Unknown(rule, wc.name, "", "inputs constructible", err.Error())
			continue
		}
		forParts(in, dom0, 5, func(dom absint.Node, tag string) error {
			var calc, val, set []absint.Value
			setPhy := absint.Copy(phy)
			valPhy := absint.Copy(phy)
			if err := in.Try(func() {
				in.SetLive(dom)
				calc = callMICCalc(in, phy, PT, wc.calc, wc.set, args...)
				// re-parametrise the frame's MIC as computed-MIC XOR delta (a bijection of the input space): comparing
				// free MIC variables with the CMAC output variables directly would need an exponential BDD
				reparamMIC(in, valPhy, arrayBytes(calc[0], false), tag)
				val = in.CallMethod(&absint.Cell{V: valPhy}, PT, wc.val, args...)
				set = in.CallMethod(&absint.Cell{V: setPhy}, PT, wc.set, args...)
			}); err != nil {
				return err
			}
			ce, _ := calc[1].(*absint.ErrVal)
			okc := dom
			if ce != nil {
				okc = d.M.And(dom, d.M.Not(ce.NonNil))
			}
			mic := arrayBytes(calc[0], false)
			cur := arrayBytes(deepLeaf(valPhy, "MIC"), false)
			want := absint.True
			for i := 0; i < 4; i++ {
				want = d.M.And(want, d.Cmp(token.EQL, cur[i].(*absint.Bits), mic[i].(*absint.Bits)))
			}
			got := val[0].(*absint.Bits).Bits()[0]
			diff := d.M.And(okc, d.M.Xor(got, want))
			r.Check(diff == absint.False, rule, wc.val+tag, "", "true exactly when all four bytes of p.MIC equal the computed MIC", fmt.Sprintf("boolean functions equal: %v%s", diff == absint.False, witnessIf(in, diff)), true)
			if ve, _ := val[1].(*absint.ErrVal); ve == nil || ce == nil || d.M.And(dom, d.M.Xor(ve.NonNil, ce.NonNil)) != absint.False {
				r.Bad(rule, wc.val+tag+"/error", "", "fails exactly when the MIC computation fails", in.Show(val[1]))
			}
			after := arrayBytes(deepLeaf(setPhy, "MIC"), false)
			se, _ := set[0].(*absint.ErrVal)
			if se == nil || ce == nil || d.M.And(dom, d.M.Xor(se.NonNil, ce.NonNil)) != absint.False {
				r.Bad(rule, wc.set+tag+"/error", "", "fails exactly when the MIC computation fails", in.Show(set[0]))
			}
			compareBytes(c, in, rule, wc.set+tag+"/stored", "", after, vals(mic...), okc, nil)
			return nil
		}, func(tag string, err error) {
			r.Unknown(rule, wc.name+tag, "", "inside the interpreter's subset", err.Error())
		})
	}
	if !join {
		// ValidateUplinkDataMICF: compares bytes 2..3 with the 1.1 MIC computed with (fNwkSIntKey, fNwkSIntKey), 0,0,0
		in := absint.NewInterp(c.Prog)
		d := in.D
		PT := in.NamedType("", "PHYPayload")
		dom := absint.True
		var phy, k absint.Value
		var calc, val []absint.Value
		err := in.Try(func() {
			phy = symDeep(in, "", PT, frameVariant(2, 3, true, 5), aspec{}, &dom)
			k = key(in, "fNwkSIntKey")
			in.SetLive(dom)
			z8, z32 := d.Const(0, 8, false), d.Const(0, 32, false)
			calc = in.CallMethod(&absint.Cell{V: phy}, PT, "calculateUplinkDataMIC", d.Const(1, 8, false), z32, z8, z8, k, k)
			reparamMIC(in, phy, arrayBytes(calc[0], false), "")
			val = in.CallMethod(&absint.Cell{V: phy}, PT, "ValidateUplinkDataMICF", k)
		})
		if err != nil {
			r.Unknown(rule, "ValidateUplinkDataMICF", "", "inside the interpreter's subset", err.Error())
			return
		}
		mic := arrayBytes(calc[0], false)
		cur := arrayBytes(deepLeaf(phy, "MIC"), false)
		want := absint.True
		for i := 2; i < 4; i++ {
			want = d.M.And(want, d.Cmp(token.EQL, cur[i].(*absint.Bits), mic[i].(*absint.Bits)))
		}
		diff := d.M.And(dom, d.M.Xor(val[0].(*absint.Bits).Bits()[0], want))
		r.Check(diff == absint.False, rule, "ValidateUplinkDataMICF", "", "true exactly when bytes 2..3 of p.MIC equal cmacF[0..1] (1.1 MIC with FNwkSIntKey)", fmt.Sprintf("boolean functions equal: %v%s", diff == absint.False, witnessIf(in, diff)), true)
	}
}

// reparamMIC overwrites phy.MIC[i] with mic[i] XOR delta[i] for fresh symbolic delta bytes.
func reparamMIC(in *absint.Interp, phy absint.Value, mic []absint.Value, tag string) {
	arr := deepLeaf(phy, "MIC").(*absint.Array)
	for i := range arr.E {
		delta := in.D.Sym(fmt.Sprintf("micDelta%s[%d]", tag, i), 8, false, false)
		arr.E[i].V = in.D.Bitwise(token.XOR, mic[i].(*absint.Bits), delta)
	}
}
