package props

import (
	"fmt"
	"go/ast"
	"go/constant"
	"go/token"
	"go/types"
	"sort"
	"strconv"

	"lwverif/internal/load"
	"lwverif/internal/tables"
)

func init() { Register("C13", checkC13) }

func definedSets(drs []tables.DataRate) (all, up, down map[int]bool) {
	all, up, down = map[int]bool{}, map[int]bool{}, map[int]bool{}
	for _, d := range drs {
		all[d.Index] = true
		if d.Uplink {
			up[d.Index] = true
		}
		if d.Downlink {
			down[d.Index] = true
		}
	}
	return
}

func setStr(m map[int]bool) string {
	var ks []int
	for k := range m {
		ks = append(ks, k)
	}
	sort.Ints(ks)
	return fmt.Sprint(ks)
}

// declaredStringConsts returns the values of the version / revision constants declared in package band.
func declaredStringConsts(c *Ctx, prefix string) map[string]bool {
	out := map[string]bool{}
	sc := c.Prog.Pkg("band").Types.Scope()
	for _, n := range sc.Names() {
		if k, ok := sc.Lookup(n).(*types.Const); ok && len(n) > len(prefix) && n[:len(prefix)] == prefix && k.Val().Kind() == constant.String {
			out[constant.StringVal(k.Val())] = true
		}
	}
	return out
}

func checkC13(c *Ctx) {
	r := c.Run
	r.Exhaustive = true
	r.Explanation = "Decides, by conditional constant propagation over the band constructors' literal tables (every configuration of GetConfig: names x repeater x dwell-time folded over the constructor's own branches, constant-trip channel loops unrolled), the table clauses of C13: closure of every data-rate reference, completeness of the latest/latest fallback table and the lookup's fallback keys, the cell relations M=N+8, N<=242, repeater<=non-repeater, SF-monotonicity within one bandwidth and direction, injectivity of data-rate definitions per direction, and equality of default channels / RX2 / DR definitions / TX-power step with an independently transcribed Regional Parameters table. It does NOT decide the numeric max-payload values against each RP revision (only their relations), nor the behaviour of the lookup code beyond its fallback keys."
	r.Trusted = []string{"go/types constant evaluation", "internal/tables evaluator (composite literals, constant-trip loops, branch folding)", "spec/regional.json transcription"}
	r.Assumptions = []string{"band constructors are reached only through band.GetConfig", "Go map-literal duplicate keys are rejected by the compiler (constant keys)"}
	r.Rule("R1.closure", "every DR index a table refers to is a defined data-rate for the direction that uses it; version/revision keys are declared constants")
	r.Rule("R2.fallback", "maxPayloadSizePerDR[latest][latest] exists and covers every defined DR; every version has a latest revision")
	r.Rule("R2.lookup-shape", "the lookup function falls back with the key `latest` (recognised in the `if !ok { x, ok = m[latest] }` form; what the lookup computes is decided by R7)")
	r.Advisory("R2.lookup-shape", "R7.payload-lookup")
	r.Rule("R3.cell", "M = N+8 (or M=N=0), N <= 242")
	r.Rule("R3.repeater", "repeater-compatible N <= non-repeater N for the same (band, dwell, version, revision, DR)")
	r.Rule("R3.sfmono", "within one bandwidth and one direction N does not shrink as SF decreases")
	r.Rule("R4.injective", "no two data-rates usable in the same direction have identical parameters")
	r.Rule("R7.payload-lookup", "GetMaxPayloadSizeForDataRateIndex resolves every (version, revision, DR), known or unknown, through the two-level latest fallback of the evaluated table")
	r.Rule("R6.lookup", "GetDataRateIndex specialised at each (defined DR, supported direction) returns that DR's index (unique by R4)")
	r.Rule("R5.reference", "default channels, RX2 frequency/DR, DR definitions and TX-power step equal spec/regional.json")

	bands, err := c.Bands()
	if err != nil {
		r.Unknown("R0.load", "band.GetConfig", "", "band configurations evaluable", err.Error())
		return
	}
	for _, p := range bands.Problems {
		r.Unknown("R0.load", p, "", "constructor inside the evaluable subset", p)
	}
	reg, err := c.regional()
	if err != nil {
		r.Unknown("R0.load", "spec/regional.json", "", "oracle readable", err.Error())
		return
	}
	r.Saw("band names handled by GetConfig", fmt.Sprint(bands.CaseNames))
	versions := declaredStringConsts(c, "LoRaWAN_")
	revisions := declaredStringConsts(c, "RegParamRev")
	P := c.Prog

	type cellKey struct {
		names, ver, rev string
		dwell           bool
		dr              int
	}
	repCells := map[cellKey]tables.PayloadCell{}
	nonrepCells := map[cellKey]tables.PayloadCell{}

	for _, cfg := range bands.Configs {
		id := cfg.Short()
		r.Saw("configurations", cfg.ID()+" via "+cfg.Ctor)
		drs, err := cfg.DataRates()
		if err != nil {
			r.Unknown("R0.load", id+"/dataRates", P.Rel(cfg.CtorDecl.Pos()), "dataRates literal", err.Error())
			continue
		}
		all, up, down := definedSets(drs)
		byIdx := map[int]tables.DataRate{}
		for _, d := range drs {
			byIdx[d.Index] = d
		}
		// ---- R1 closure: channels
		for _, fld := range []string{"uplinkChannels", "downlinkChannels"} {
			chs, err := cfg.Channels(fld)
			if err != nil {
				r.Unknown("R1.closure", id+"/"+fld, P.Rel(cfg.CtorDecl.Pos()), "channel table evaluable", err.Error())
				continue
			}
			dirset := up
			if fld == "downlinkChannels" {
				dirset = down
			}
			for i, ch := range chs {
				ok := ch.MinDR <= ch.MaxDR
				for d := ch.MinDR; d <= ch.MaxDR && ok; d++ {
					if !dirset[d] {
						ok = false
					}
				}
				r.Check(ok, "R1.closure", fmt.Sprintf("%s/%s[%d].DR", id, fld, i), P.Rel(cfg.CtorDecl.Pos()),
					"MinDR..MaxDR within the DRs defined for this direction "+setStr(dirset), fmt.Sprintf("MinDR=%d MaxDR=%d", ch.MinDR, ch.MaxDR), true)
			}
		}
		// RX1 results
		rx1, rx1pos, err := cfg.RX1Table()
		if err != nil {
			r.Unknown("R1.closure", id+"/rx1", P.Rel(cfg.CtorDecl.Pos()), "rx1 table literal", err.Error())
		} else {
			rows := make([]int, 0, len(rx1))
			for k := range rx1 {
				rows = append(rows, k)
			}
			sort.Ints(rows)
			for _, k := range rows {
				for j, v := range rx1[k] {
					r.Check(down[v], "R1.closure", fmt.Sprintf("%s/rx1/row%d/col%d", id, k, j), P.Rel(rx1pos[k]),
						"RX1 result is a defined downlink DR "+setStr(down), fmt.Sprintf("DR%d", v), true)
				}
			}
		}
		// RX2 default + cFList DRs
		if res, fd, ok := bands.EvalMethod(cfg, "GetDefaults", nil); ok && len(res) == 1 {
			dr, okd := tables.AsInt(tables.Field(res[0], "RX2DataRate"))
			r.Check(okd && down[dr], "R1.closure", id+"/GetDefaults.RX2DataRate", P.Rel(fd.Pos()), "RX2 default DR is a defined downlink DR", tables.Show(tables.Field(res[0], "RX2DataRate")), true)
		} else {
			r.Unknown("R1.closure", id+"/GetDefaults", "", "GetDefaults returns a literal", "not evaluable")
		}
		for _, f := range []string{"cFListMinDR", "cFListMaxDR"} {
			v, ok := tables.AsInt(cfg.Base.Fields[f])
			sup, _ := tables.AsBool(cfg.Base.Fields["supportsExtraChannels"])
			if sup {
				r.Check(ok && up[v], "R1.closure", id+"/"+f, P.Rel(cfg.CtorDecl.Pos()), "CFList DR bound is a defined uplink DR", tables.Show(cfg.Base.Fields[f]), true)
			}
		}
		// ---- payload cells
		cells, err := cfg.PayloadCells()
		if err != nil {
			r.Unknown("R2.fallback", id+"/maxPayloadSizePerDR", P.Rel(cfg.CtorDecl.Pos()), "payload table literal", err.Error())
			continue
		}
		verSet := map[string]map[string]map[int]tables.PayloadCell{}
		for _, pc := range cells {
			if verSet[pc.Version] == nil {
				verSet[pc.Version] = map[string]map[int]tables.PayloadCell{}
			}
			if verSet[pc.Version][pc.Revision] == nil {
				verSet[pc.Version][pc.Revision] = map[int]tables.PayloadCell{}
			}
			verSet[pc.Version][pc.Revision][pc.DR] = pc
		}
		vers := make([]string, 0)
		for v := range verSet {
			vers = append(vers, v)
		}
		sort.Strings(vers)
		for _, v := range vers {
			r.Check(v == "latest" || versions[v], "R1.closure", id+"/payload/version="+v, P.Rel(cfg.CtorDecl.Pos()), "version key is a declared LoRaWAN_* constant or latest", strconv.Quote(v), true)
			_, hasLatest := verSet[v]["latest"]
			r.Check(hasLatest, "R2.fallback", id+"/payload/"+v+"/latest", P.Rel(cfg.CtorDecl.Pos()), "version map has a `latest` revision", fmt.Sprint(keysOf(verSet[v])), true)
			for rev := range verSet[v] {
				if !(rev == "latest" || revisions[rev]) {
					r.Bad("R1.closure", id+"/payload/"+v+"/revision="+rev, P.Rel(cfg.CtorDecl.Pos()), "revision key is a declared RegParamRev* constant or latest", strconv.Quote(rev))
				}
			}
		}
		ll := verSet["latest"]["latest"]
		r.Check(ll != nil, "R2.fallback", id+"/payload/latest/latest", P.Rel(cfg.CtorDecl.Pos()), "fallback table [latest][latest] exists", fmt.Sprint(ll != nil), true)
		if ll != nil {
			for _, d := range drs {
				_, ok := ll[d.Index]
				r.Check(ok, "R2.fallback", fmt.Sprintf("%s/payload/latest/latest/DR%d", id, d.Index), P.Rel(d.Pos), "every defined DR has a size under latest/latest", fmt.Sprintf("present=%v", ok), true)
			}
		}
		for _, pc := range cells {
			ck := fmt.Sprintf("%s/payload/%s/%s/DR%d", id, pc.Version, pc.Revision, pc.DR)
			okMN := (pc.M == pc.N+8) || (pc.M == 0 && pc.N == 0)
			r.Check(okMN && pc.N <= 242 && pc.N >= 0, "R3.cell", ck, P.Rel(pc.Pos), "M = N+8 (or both 0) and 0 <= N <= 242", fmt.Sprintf("M=%d N=%d", pc.M, pc.N), pc.N != 0)
			k := cellKey{cfg.Canon(), pc.Version, pc.Revision, cfg.Dwell400, pc.DR}
			if cfg.Repeater {
				repCells[k] = pc
			} else {
				nonrepCells[k] = pc
			}
		}
		// SF monotonicity within one bandwidth and direction
		for _, v := range vers {
			revs := keysOf(verSet[v])
			for _, rev := range revs {
				tab := verSet[v][rev]
				for _, a := range drs {
					for _, b := range drs {
						if a.Modulation != "LORA" || b.Modulation != "LORA" || a.BW != b.BW || a.SF <= b.SF {
							continue
						}
						if !((a.Uplink && b.Uplink) || (a.Downlink && b.Downlink)) {
							continue
						}
						ca, oka := tab[a.Index]
						cb, okb := tab[b.Index]
						if !oka || !okb {
							continue
						}
						// a has the higher SF: its N must not exceed b's
						r.Check(ca.N <= cb.N, "R3.sfmono", fmt.Sprintf("%s/payload/%s/%s/DR%d<=DR%d", id, v, rev, a.Index, b.Index), P.Rel(cb.Pos),
							fmt.Sprintf("N(SF%d/BW%d) <= N(SF%d/BW%d)", a.SF, a.BW, b.SF, b.BW), fmt.Sprintf("N(DR%d)=%d N(DR%d)=%d", a.Index, ca.N, b.Index, cb.N), a.SF == b.SF+1)
					}
				}
			}
		}
		// ---- R4 injective
		for i, a := range drs {
			for _, b := range drs[i+1:] {
				if a.Params() != b.Params() {
					continue
				}
				clash := (a.Uplink && b.Uplink) || (a.Downlink && b.Downlink)
				r.Check(!clash, "R4.injective", fmt.Sprintf("%s/dataRates/DR%d~DR%d", id, a.Index, b.Index), P.Rel(b.Pos), "equal parameters only across different directions", fmt.Sprintf("%s up=%v/%v down=%v/%v", a.Params(), a.Uplink, b.Uplink, a.Downlink, b.Downlink), true)
			}
		}
		r.OK("R4.injective", id+"/dataRates", P.Rel(cfg.CtorDecl.Pos()), "pairwise comparison of all DR definitions", fmt.Sprintf("%d definitions compared", len(drs)), false)
		c13Lookup(c, bands, cfg, drs)
		c13PayloadLookup(c, bands, cfg, drs, versions, revisions, verSet)

		// ---- R5 reference
		fam, ok := reg.Bands[family(cfg.Canon())]
		if !ok {
			r.Unknown("R5.reference", id, "", "band present in spec/regional.json", "no oracle entry for "+cfg.Canon())
			continue
		}
		c13Reference(c, bands, cfg, fam, drs, all)
	}
	// repeater <= non-repeater
	keys := make([]cellKey, 0, len(repCells))
	for k := range repCells {
		keys = append(keys, k)
	}
	sort.Slice(keys, func(i, j int) bool { return fmt.Sprint(keys[i]) < fmt.Sprint(keys[j]) })
	for _, k := range keys {
		rp := repCells[k]
		np, ok := nonrepCells[k]
		if !ok {
			continue
		}
		r.Check(rp.N <= np.N, "R3.repeater", fmt.Sprintf("%s[dwell400=%v]/payload/%s/%s/DR%d", k.names, k.dwell, k.ver, k.rev, k.dr), P.Rel(rp.Pos),
			"repeater N <= non-repeater N", fmt.Sprintf("repeater N=%d, non-repeater N=%d (at %s)", rp.N, np.N, P.Rel(np.Pos)), rp.N != np.N)
	}
	c13FallbackKeys(c)
	// the tables are per band object, and the lookups are functions of the tables only
	ruleFreshBands(c, "R9.fresh-tables")
	c13QueriesPure(c)
}

// c13QueriesPure (R8): the data-rate and payload-size lookups write nothing (no result cache keyed by part of the
// parameters, no bookkeeping): their answers are functions of the band's tables and the arguments.
func c13QueriesPure(c *Ctx) {
	const rule = "R8.queries-pure"
	r := c.Run
	r.Rule(rule, "GetDataRateIndex, GetDataRate and GetMaxPayloadSizeForDataRateIndex and their callees write nothing through the receiver, parameters or package-level variables")
	info := effectsFor(c.Prog)
	sp := c.Prog.SSAPkg("band")
	n := 0
	for _, f := range info.Funcs {
		if f.Pkg != sp || f.Signature.Recv() == nil || f.Synthetic != "" {
			continue
		}
		switch f.Name() {
		case "GetDataRateIndex", "GetDataRate", "GetMaxPayloadSizeForDataRateIndex":
			n++
			readOnlyObligation(c, info, rule, f)
		}
	}
	if n == 0 {
		r.Unknown(rule, "band", "", "lookup methods found", "none")
	}
}

// c13PayloadLookup specialises GetMaxPayloadSizeForDataRateIndex at every (version, revision, DR) point — the six
// declared versions plus six unknown ones, the seven declared revisions plus four unknown ones, every defined DR plus
// one undefined — and compares with the two-level `latest` fallback applied to the evaluated table.
func c13PayloadLookup(c *Ctx, bands *tables.Bands, cfg *tables.BandConfig, drs []tables.DataRate, versions, revisions map[string]bool, tab map[string]map[string]map[int]tables.PayloadCell) {
	r := c.Run
	fd := cfg.Methods["GetMaxPayloadSizeForDataRateIndex"]
	if fd == nil {
		r.Unknown("R7.payload-lookup", cfg.Short(), "", "method present", "missing")
		return
	}
	pn := paramNames(fd)
	if len(pn) != 3 {
		r.Unknown("R7.payload-lookup", cfg.Short(), c.Prog.Rel(fd.Pos()), "three parameters", fmt.Sprint(pn))
		return
	}
	// unknown strings: one that resembles nothing, and the near misses a lenient comparison would take for a known one
	// (empty, an abbreviated version, surrounding white space, a "v" prefix, another letter case)
	vs := append(keysOfBool(versions), "9.9.9-unknown", "", "1", "1.0", " 1.0.2", "v1.0.3")
	rs := append(keysOfBool(revisions), "RP-unknown", "", "b", " A")
	var drl []int
	for _, d := range drs {
		drl = append(drl, d.Index)
	}
	drl = append(drl, 15)
	bad, n := 0, 0
	first := ""
	for _, v := range vs {
		for _, rv := range rs {
			for _, dr := range drl {
				n++
				// model
				vt, ok := tab[v]
				if !ok {
					vt = tab["latest"]
				}
				var cell *tables.PayloadCell
				if vt != nil {
					rt, ok := vt[rv]
					if !ok {
						rt = vt["latest"]
					}
					if rt != nil {
						if pc, ok := rt[dr]; ok {
							cell = &pc
						}
					}
				}
				res, _, okc := bands.EvalMethod(cfg, "GetMaxPayloadSizeForDataRateIndex", map[string]tables.Value{pn[0]: tables.Str{V: v}, pn[1]: tables.Str{V: rv}, pn[2]: tables.Int{V: int64(dr)}})
				if !okc || len(res) != 2 {
					r.Unknown("R7.payload-lookup", fmt.Sprintf("%s/lookup(%s,%s,DR%d)", cfg.Short(), v, rv, dr), c.Prog.Rel(fd.Pos()), "lookup inside the evaluable subset", fmt.Sprint(bands.Ev.Diag))
					return
				}
				_, errNil := res[1].(tables.Nil)
				good := false
				if cell == nil {
					good = !errNil
				} else {
					M, _ := tables.AsInt(tables.Field(res[0], "M"))
					N, _ := tables.AsInt(tables.Field(res[0], "N"))
					good = errNil && M == cell.M && N == cell.N
				}
				if !good {
					bad++
					if first == "" {
						first = fmt.Sprintf("(%s, %s, DR%d) -> %s, %s; model: %v", v, rv, dr, tables.Show(res[0]), tables.Show(res[1]), cell)
					}
				}
			}
		}
	}
	r.Check(bad == 0, "R7.payload-lookup", cfg.Short()+"/GetMaxPayloadSizeForDataRateIndex", c.Prog.Rel(fd.Pos()),
		fmt.Sprintf("all %d (version, revision, DR) points resolve through table[version|latest][revision|latest][DR]", n), fmt.Sprintf("%d mismatches; first: %s", bad, first), true)
}

// c13Lookup specialises GetDataRateIndex at every (defined DR, supported direction) point of the evaluated
// dataRates table and requires the same index back.
func c13Lookup(c *Ctx, bands *tables.Bands, cfg *tables.BandConfig, drs []tables.DataRate) {
	r := c.Run
	fd := cfg.Methods["GetDataRateIndex"]
	if fd == nil {
		r.Unknown("R6.lookup", cfg.Short()+"/GetDataRateIndex", "", "method present", "missing")
		return
	}
	pn := paramNames(fd)
	if len(pn) != 2 {
		r.Unknown("R6.lookup", cfg.Short()+"/GetDataRateIndex", c.Prog.Rel(fd.Pos()), "two parameters", fmt.Sprint(pn))
		return
	}
	m, okM := cfg.DataRatesMap()
	if !okM {
		r.Unknown("R6.lookup", cfg.Short()+"/GetDataRateIndex", c.Prog.Rel(fd.Pos()), "evaluated data-rate table", "not a table of constant entries")
		return
	}
	for _, e := range m.Entries {
		k, _ := tables.AsInt(e.K)
		for _, up := range []bool{true, false} {
			fld := "downlink"
			if up {
				fld = "uplink"
			}
			if ok, _ := tables.AsBool(tables.Field(e.V, fld)); !ok {
				continue
			}
			res, _, ok := bands.EvalMethod(cfg, "GetDataRateIndex", map[string]tables.Value{pn[0]: tables.Bool{V: up}, pn[1]: e.V})
			key := fmt.Sprintf("%s/GetDataRateIndex(%s,DR%d)", cfg.Short(), fld, k)
			if !ok || len(res) != 2 {
				r.Unknown("R6.lookup", key, c.Prog.Rel(fd.Pos()), "lookup inside the evaluable subset", fmt.Sprint(bands.Ev.Diag))
				continue
			}
			got, okg := res[0].(tables.Int)
			_, errNil := res[1].(tables.Nil)
			r.Check(okg && errNil && int(got.V) == k, "R6.lookup", key, c.Prog.Rel(fd.Pos()), fmt.Sprintf("%d, nil", k), fmt.Sprintf("%s, %s", tables.Show(res[0]), tables.Show(res[1])), true)
		}
	}
}

func keysOf[V any](m map[string]V) []string {
	var ks []string
	for k := range m {
		ks = append(ks, k)
	}
	sort.Strings(ks)
	return ks
}

func c13Reference(c *Ctx, bands *tables.Bands, cfg *tables.BandConfig, fam regBand, drs []tables.DataRate, all map[int]bool) {
	r := c.Run
	P := c.Prog
	id := cfg.Short()
	pos := P.Rel(cfg.CtorDecl.Pos())
	// DR definitions
	idxs := make([]string, 0, len(fam.DataRates))
	for k := range fam.DataRates {
		idxs = append(idxs, k)
	}
	sort.Slice(idxs, func(i, j int) bool { a, _ := strconv.Atoi(idxs[i]); b, _ := strconv.Atoi(idxs[j]); return a < b })
	byIdx := map[int]tables.DataRate{}
	for _, d := range drs {
		byIdx[d.Index] = d
	}
	for _, ks := range idxs {
		k, _ := strconv.Atoi(ks)
		want := fam.DataRates[ks]
		got, ok := byIdx[k]
		if !ok {
			if want.IfDefined {
				r.OK("R5.reference", fmt.Sprintf("%s/dataRates/DR%d", id, k), pos, fmt.Sprintf("DR%d, where defined, as %+v", k, want), "not defined by this band (allowed: later revisions only)", false)
				continue
			}
			r.Bad("R5.reference", fmt.Sprintf("%s/dataRates/DR%d", id, k), pos, fmt.Sprintf("DR%d defined as %+v", k, want), "missing")
			continue
		}
		good := got.Uplink == (want.Dir == "u" || want.Dir == "ud") && got.Downlink == (want.Dir == "d" || want.Dir == "ud")
		desc := ""
		switch {
		case want.Lora != nil:
			good = good && got.Modulation == "LORA" && got.SF == want.Lora[0] && got.BW == want.Lora[1] && got.BitRate == 0
			desc = fmt.Sprintf("LoRa SF%d/%dkHz dir=%s", want.Lora[0], want.Lora[1], want.Dir)
		case want.FSK != 0:
			good = good && got.Modulation == "FSK" && got.BitRate == want.FSK
			desc = fmt.Sprintf("FSK %d bit/s dir=%s", want.FSK, want.Dir)
		case want.LRFHSS != nil:
			wa, wb, _ := ratio(want.LRFHSS[0].(string))
			ga, gb, okr := ratio(got.CodingRate)
			good = good && got.Modulation == "LR_FHSS" && okr && wa == ga && wb == gb && got.OCW == int(want.LRFHSS[1].(float64))
			desc = fmt.Sprintf("LR-FHSS CR%s OCW %v dir=%s", want.LRFHSS[0], want.LRFHSS[1], want.Dir)
		}
		r.Check(good, "R5.reference", fmt.Sprintf("%s/dataRates/DR%d", id, k), P.Rel(got.Pos), desc, fmt.Sprintf("%s up=%v down=%v", got.Params(), got.Uplink, got.Downlink), true)
	}
	for _, u := range fam.UndefinedDR {
		r.Check(!all[u], "R5.reference", fmt.Sprintf("%s/dataRates/DR%d-undefined", id, u), pos, fmt.Sprintf("DR%d is RFU/undefined in this region", u), fmt.Sprintf("defined=%v", all[u]), true)
	}
	// channels
	checkAffine := func(fld string, chs []tables.Channel, rules []regAffine) {
		n := 0
		for _, a := range rules {
			n += a.Count
		}
		r.Check(len(chs) == n, "R5.reference", id+"/"+fld+"/count", pos, fmt.Sprintf("%d default channels", n), fmt.Sprint(len(chs)), true)
		for _, a := range rules {
			for i := 0; i < a.Count && a.Start+i < len(chs); i++ {
				ch := chs[a.Start+i]
				good := ch.Freq == a.Base+i*a.Step && ch.MinDR == a.MinDR && ch.Enabled && !ch.Custom
				if a.MaxDR != nil {
					good = good && ch.MaxDR == *a.MaxDR
				}
				if a.MaxDRAtLeast != nil {
					good = good && ch.MaxDR >= *a.MaxDRAtLeast
				}
				r.Check(good, "R5.reference", fmt.Sprintf("%s/%s[%d]", id, fld, a.Start+i), pos, fmt.Sprintf("freq %d minDR %d enabled standard", a.Base+i*a.Step, a.MinDR), fmt.Sprintf("%+v", ch), true)
			}
		}
	}
	up, err := cfg.Channels("uplinkChannels")
	dn, err2 := cfg.Channels("downlinkChannels")
	if err != nil || err2 != nil {
		r.Unknown("R5.reference", id+"/channels", pos, "channel tables evaluable", fmt.Sprint(err, err2))
		return
	}
	off := 0
	if fam.Uplink.OffsetBy != nil {
		o, ok := fam.Uplink.OffsetBy[cfg.Canon()]
		if !ok {
			r.Unknown("R5.reference", id+"/variant", pos, "AS923 variant known to the oracle", cfg.Canon())
		}
		off = o
	}
	if fam.Uplink.List != nil {
		r.Check(len(up) == len(fam.Uplink.List), "R5.reference", id+"/uplinkChannels/count", pos, fmt.Sprint(len(fam.Uplink.List)), fmt.Sprint(len(up)), true)
		for i, f := range fam.Uplink.List {
			if i >= len(up) {
				break
			}
			ch := up[i]
			r.Check(ch.Freq == f+off && ch.MinDR == fam.Uplink.MinDR && ch.MaxDR == fam.Uplink.MaxDR && ch.Enabled && !ch.Custom, "R5.reference", fmt.Sprintf("%s/uplinkChannels[%d]", id, i), pos,
				fmt.Sprintf("freq %d DR%d-%d enabled standard", f+off, fam.Uplink.MinDR, fam.Uplink.MaxDR), fmt.Sprintf("%+v", ch), true)
		}
	} else {
		checkAffine("uplinkChannels", up, fam.Uplink.Affine)
	}
	if fam.downlinkSame() {
		same := len(up) == len(dn)
		for i := range up {
			if same && up[i] != dn[i] {
				same = false
			}
		}
		r.Check(same, "R5.reference", id+"/downlinkChannels=uplinkChannels", pos, "downlink channel table equals the uplink table", fmt.Sprintf("up=%v down=%v", up, dn), true)
	} else {
		checkAffine("downlinkChannels", dn, fam.downlinkAffine())
	}
	// RX2
	if res, fd, ok := bands.EvalMethod(cfg, "GetDefaults", nil); ok && len(res) == 1 {
		f, ok1 := tables.AsInt(tables.Field(res[0], "RX2Frequency"))
		d, ok2 := tables.AsInt(tables.Field(res[0], "RX2DataRate"))
		r.Check(ok1 && ok2 && f == fam.RX2.Freq+off && d == fam.RX2.DR, "R5.reference", id+"/GetDefaults.RX2", P.Rel(fd.Pos()), fmt.Sprintf("RX2 %d Hz DR%d", fam.RX2.Freq+off, fam.RX2.DR), fmt.Sprintf("%s DR %s", tables.Show(tables.Field(res[0], "RX2Frequency")), tables.Show(tables.Field(res[0], "RX2DataRate"))), true)
	}
	// tx power
	tp, err := cfg.IntSlice("txPowerOffsets")
	if err != nil {
		r.Unknown("R5.reference", id+"/txPowerOffsets", pos, "literal", err.Error())
	} else {
		for i, v := range tp {
			r.Check(v == fam.TXPowerStep*i, "R5.reference", fmt.Sprintf("%s/txPowerOffsets[%d]", id, i), pos, fmt.Sprintf("%d dB", fam.TXPowerStep*i), fmt.Sprint(v), i > 0)
		}
		r.Check(len(tp) >= 6, "R5.reference", id+"/txPowerOffsets/len", pos, "at least 6 TX-power steps (every RP revision defines >= 6)", fmt.Sprint(len(tp)), false)
	}
}

// c13FallbackKeys checks that GetMaxPayloadSizeForDataRateIndex falls back by indexing with `latest`.
func c13FallbackKeys(c *Ctx) {
	r := c.Run
	pk := c.Prog.Pkg("band")
	fd := load.FuncDecl(pk, "band.GetMaxPayloadSizeForDataRateIndex")
	if fd == nil {
		r.Unknown("R2.lookup-shape", "band.GetMaxPayloadSizeForDataRateIndex", "", "anchor function present", "not found")
		return
	}
	info := pk.TypesInfo
	// every `if !ok { X, ok = M[K] ... }` is a fallback step
	n := 0
	ast.Inspect(fd.Body, func(nd ast.Node) bool {
		ifs, ok := nd.(*ast.IfStmt)
		if !ok {
			return true
		}
		un, ok := ifs.Cond.(*ast.UnaryExpr)
		if !ok || un.Op != token.NOT || len(ifs.Body.List) == 0 {
			return true
		}
		as, ok := ifs.Body.List[0].(*ast.AssignStmt)
		if !ok || len(as.Rhs) != 1 {
			return true
		}
		ix, ok := as.Rhs[0].(*ast.IndexExpr)
		if !ok {
			return true
		}
		n++
		tv := info.Types[ix.Index]
		good := tv.Value != nil && tv.Value.Kind() == constant.String && constant.StringVal(tv.Value) == "latest"
		r.Check(good, "R2.lookup-shape", fmt.Sprintf("lookup/fallback-step-%d/%s", n, types.ExprString(ix.X)), c.Prog.Rel(ix.Pos()), "fallback indexes with the constant \"latest\"", types.ExprString(ix.Index), true)
		return true
	})
	if n == 2 {
		r.OK("R2.lookup-shape", "lookup/fallback-steps", c.Prog.Rel(fd.Pos()), "two fallback steps (version, revision)", "2", false)
	} else {
		// the lookup is written some other way: what it computes is decided by R7.payload-lookup
		r.Unknown("R2.lookup-shape", "lookup/fallback-steps", c.Prog.Rel(fd.Pos()), "two fallback steps (version, revision) of the form `if !ok { x, ok = m[latest] }`", fmt.Sprintf("%d steps of that form", n))
	}
}
