package props

import (
	"fmt"
	"go/token"
	"go/types"
	"sort"
	"strings"

	"lwverif/internal/absint"
)

// Application-layer (and variable-shape) codec harness: deep symbolic values with per-variant shapes.

type avariant struct {
	Name     string
	Size     int                 // expected encoded length and Size()
	NonNil   []string            // pointer paths that are non-nil in this variant (others nil)
	Lens     map[string]int      // slice lengths
	Fix      map[string]int64    // leaves fixed to a constant (gate fields)
	Where    map[string][2]int64 // leaf restricted to [lo,hi] (gate regions)
	NoStream bool                // payload swallows the rest of the buffer (cannot be followed by another command)
	Dyn      map[string]string   // interface-typed path -> dynamic type "pkgrel:Type" (value is a *Type)
	Equal    [][2]string         // pairs of boolean leaves constrained to be equal (wire aliases)
	AnyTrue  []string            // [N]bool arrays constrained to contain at least one true element
	AllFalse []string            // [N]bool arrays fixed to all-false
	Ignore   []string            // leaves excluded from the inverse comparison (encoder-recomputed bookkeeping fields)
}

type aspec struct {
	Pkg, Type string
	Dir       string
	Widths    map[string]int // leaf path (without indices) -> bit width defined by the specification
	Freq100   []string       // leaves carried in 100 Hz units (parametrised as 100·q, q 24 bits)
	Variants  []avariant
	ExactLen  bool // decoder documented/pinned to an exact-length test (zero-size requests)
}

func (s aspec) name() string { return s.Pkg[strings.LastIndex(s.Pkg, "/")+1:] + "." + s.Type }

// symDeep builds a symbolic value for T following the variant's shape choices.
func symDeep(in *absint.Interp, path string, T types.Type, v avariant, sp aspec, dom *absint.Node) absint.Value {
	d := in.D
	strip := stripIdx(path)
	switch u := T.Underlying().(type) {
	case *types.Basic:
		for _, fp := range sp.Freq100 {
			if fp == strip {
				q := d.Sym("q("+path+")", 24, false, false)
				return d.MulConst(d.Resize(q, 32, false), 100)
			}
		}
		val := in.Sym("p."+path, T, true).(*absint.Bits)
		if k, ok := v.Fix[path]; ok {
			return d.Const(k, val.W, val.Signed)
		}
		if r, ok := v.Where[path]; ok {
			*dom = d.M.And(*dom, d.Cmp(token.GEQ, val, d.Const(r[0], val.W, val.Signed)))
			*dom = d.M.And(*dom, d.Cmp(token.LEQ, val, d.Const(r[1], val.W, val.Signed)))
		}
		if w, ok := sp.Widths[strip]; ok && w < val.W {
			*dom = d.M.And(*dom, d.Cmp(token.LEQ, val, d.Const((int64(1)<<uint(w))-1, val.W, val.Signed)))
			if val.Signed {
				*dom = d.M.And(*dom, d.Cmp(token.GEQ, val, d.Const(0, val.W, true)))
			}
		}
		return val
	case *types.Struct:
		st := &absint.Struct{T: T, F: map[string]*absint.Cell{}}
		for i := 0; i < u.NumFields(); i++ {
			f := u.Field(i)
			p := f.Name()
			if path != "" {
				p = path + "." + f.Name()
			}
			st.F[f.Name()] = &absint.Cell{V: symDeep(in, p, f.Type(), v, sp, dom)}
			st.Order = append(st.Order, f.Name())
		}
		return st
	case *types.Array:
		a := &absint.Array{Elem: u.Elem()}
		for i := int64(0); i < u.Len(); i++ {
			a.E = append(a.E, &absint.Cell{V: symDeep(in, fmt.Sprintf("%s[%d]", path, i), u.Elem(), v, sp, dom)})
		}
		return a
	case *types.Pointer:
		for _, nn := range v.NonNil {
			if nn == path {
				return &absint.Ptr{To: &absint.Cell{V: symDeep(in, path+".*", u.Elem(), v, sp, dom)}, T: u.Elem()}
			}
		}
		return absint.NilVal{}
	case *types.Interface:
		dn, ok := v.Dyn[path]
		if !ok {
			return &absint.Iface{Dyn: absint.NilVal{}}
		}
		rel, name := "", dn
		if i := strings.Index(dn, ":"); i >= 0 {
			rel, name = dn[:i], dn[i+1:]
		}
		DT := in.NamedType(rel, name)
		if DT == nil {
			panic(absint.Unsupported{Why: "dynamic type " + dn + " not found"})
		}
		ptr := &absint.Ptr{To: &absint.Cell{V: symDeep(in, path+".*", DT, v, sp, dom)}, T: DT}
		return &absint.Iface{Dyn: ptr, DynT: types.NewPointer(DT)}
	case *types.Slice:
		n := v.Lens[path]
		bk := &absint.Backing{}
		for i := 0; i < n; i++ {
			bk.E = append(bk.E, &absint.Cell{V: symDeep(in, fmt.Sprintf("%s[%d]", path, i), u.Elem(), v, sp, dom)})
		}
		if n == 0 {
			return &absint.Slice{Nil: true, Back: bk, Elem: u.Elem()}
		}
		return &absint.Slice{Back: bk, Hi: n, Cap: n, Elem: u.Elem()}
	}
	panic(absint.Unsupported{Why: fmt.Sprintf("symbolic value of %s at %s", T, path)})
}

func stripIdx(p string) string {
	var sb strings.Builder
	depth := 0
	for _, ch := range p {
		switch ch {
		case '[':
			depth++
		case ']':
			depth--
		default:
			if depth == 0 {
				sb.WriteRune(ch)
			}
		}
	}
	return strings.TrimSuffix(sb.String(), ".*")
}

// deepCompare walks two values of the same static shape and reports every differing scalar leaf.
func deepCompare(in *absint.Interp, path string, got, want absint.Value, cond absint.Node, report func(path string, ok bool, why string)) {
	switch w := want.(type) {
	case *absint.Bits:
		ok, why := sameValue(in, got, want, cond)
		report(path, ok, why)
	case *absint.Struct:
		g, ok := got.(*absint.Struct)
		if !ok {
			report(path, false, fmt.Sprintf("decoded %T, expected struct", got))
			return
		}
		keys := make([]string, 0, len(w.F))
		for k := range w.F {
			keys = append(keys, k)
		}
		sort.Strings(keys)
		for _, k := range keys {
			deepCompare(in, path+"."+k, g.F[k].V, w.F[k].V, cond, report)
		}
	case *absint.Array:
		g, ok := got.(*absint.Array)
		if !ok || len(g.E) != len(w.E) {
			report(path, false, "array shape differs")
			return
		}
		for i := range w.E {
			deepCompare(in, fmt.Sprintf("%s[%d]", path, i), g.E[i].V, w.E[i].V, cond, report)
		}
	case *absint.Ptr:
		g, ok := got.(*absint.Ptr)
		if !ok {
			report(path, false, fmt.Sprintf("decoded %s, expected a non-nil pointer", in.Show(got)))
			return
		}
		deepCompare(in, path+".*", g.To.V, w.To.V, cond, report)
	case absint.NilVal:
		switch g := got.(type) {
		case absint.NilVal:
			report(path, true, "nil")
		case *absint.Slice:
			report(path, g.Len() == 0, fmt.Sprintf("len %d", g.Len()))
		default:
			report(path, false, fmt.Sprintf("decoded %s, expected nil", in.Show(got)))
		}
	case *absint.Slice:
		g, ok := got.(*absint.Slice)
		if !ok {
			if _, isNil := got.(absint.NilVal); isNil && w.Len() == 0 {
				report(path, true, "empty")
				return
			}
			report(path, false, fmt.Sprintf("decoded %T, expected slice", got))
			return
		}
		if g.Len() != w.Len() {
			report(path, false, fmt.Sprintf("decoded %d elements, expected %d", g.Len(), w.Len()))
			return
		}
		if w.Len() == 0 {
			report(path, true, "empty")
		}
		for i := 0; i < w.Len(); i++ {
			deepCompare(in, fmt.Sprintf("%s[%d]", path, i), g.At(i).V, w.At(i).V, cond, report)
		}
	case *absint.Iface:
		g, ok := got.(*absint.Iface)
		if !ok {
			report(path, false, fmt.Sprintf("decoded %T, expected interface", got))
			return
		}
		_, wn := w.Dyn.(absint.NilVal)
		_, gn := g.Dyn.(absint.NilVal)
		if wn || gn {
			report(path, wn == gn, fmt.Sprintf("nil-ness: decoded %v expected %v", gn, wn))
			return
		}
		if !types.Identical(g.DynT, w.DynT) {
			report(path, false, fmt.Sprintf("dynamic type %s, expected %s", g.DynT, w.DynT))
			return
		}
		deepCompare(in, path, g.Dyn, w.Dyn, cond, report)
	default:
		report(path, false, fmt.Sprintf("cannot compare %T", want))
	}
}

// deepLeaf follows a symDeep path ("A.B[2].*.C") inside a value.
func deepLeaf(v absint.Value, path string) absint.Value {
	cur := v
	for _, part := range strings.Split(path, ".") {
		if part == "" {
			continue
		}
		if part == "*" {
			switch x := cur.(type) {
			case *absint.Ptr:
				cur = x.To.V
			case *absint.Iface:
				cur = x.Dyn.(*absint.Ptr).To.V
			}
			continue
		}
		name, idx := part, -1
		if i := strings.Index(part, "["); i >= 0 {
			name = part[:i]
			fmt.Sscanf(part[i:], "[%d]", &idx)
		}
		if name != "" {
			cur = cur.(*absint.Struct).F[name].V
		}
		if idx >= 0 {
			switch x := cur.(type) {
			case *absint.Array:
				cur = x.E[idx].V
			case *absint.Slice:
				cur = x.At(idx).V
			}
		}
	}
	return cur
}

func hasMethod(T types.Type, name string) bool {
	obj, _, _ := types.LookupFieldOrMethod(types.NewPointer(T), true, nil, name)
	_, ok := obj.(*types.Func)
	return ok
}

// runApp analyses one application-layer payload type in every variant.
// streamTrailMax: longest trailer tried by the stream rule; longer than the largest fixed-size application command (29 bytes).
const streamTrailMax = 32

func runApp(c *Ctx, sp aspec) *codecResult {
	res := &codecResult{Spec: ws{Pkg: sp.Pkg, Type: sp.Type}}
	probe := absint.NewInterp(c.Prog)
	T := probe.NamedType(sp.Pkg, sp.Type)
	if T == nil {
		res.undecided("undecided", "type", "type not found", "")
		return res
	}
	pos := typePos(c, T)
	for _, v := range sp.Variants {
		in := absint.NewInterp(c.Prog)
		d := in.D
		dom := absint.True
		var val absint.Value
		err := in.Try(func() {
			val = symDeep(in, "", T, v, sp, &dom)
			for _, eq := range v.Equal {
				a := asBits(deepLeaf(val, eq[0]), eq[0]).Bits()[0]
				b := asBits(deepLeaf(val, eq[1]), eq[1]).Bits()[0]
				dom = d.M.And(dom, d.M.Eqv(a, b))
			}
			for _, ap := range v.AnyTrue {
				arr := deepLeaf(val, ap).(*absint.Array)
				any := absint.False
				for _, c := range arr.E {
					any = d.M.Or(any, asBits(c.V, ap).Bits()[0])
				}
				dom = d.M.And(dom, any)
			}
			for _, ap := range v.AllFalse {
				arr := deepLeaf(val, ap).(*absint.Array)
				for _, c := range arr.E {
					c.V = d.Bool(absint.False)
				}
			}
		})
		collect := func() {
			for fn := range in.Called {
				res.Funcs = append(res.Funcs, fn)
			}
		}
		if err != nil {
			collect()
			res.undecided("undecided", "enc/"+v.Name, err.Error(), pos)
			continue
		}
		// encode; when the encoder's output shape depends on a symbolic condition (a data-dependent early exit, a
		// length that depends on a flag) the input space is partitioned on that condition and every part is analysed
		type encPart struct {
			dom absint.Node
			tag string
			enc []absint.Value
			err error
		}
		var parts []encPart
		forParts(in, dom, 10, func(dp absint.Node, pt string) error {
			var e2 []absint.Value
			er := in.Try(func() {
				in.SetLive(dp)
				e2 = in.CallMethod(&absint.Cell{V: absint.Copy(val)}, T, "MarshalBinary")
			})
			if _, isSplit := er.(absint.SplitRequest); isSplit {
				return er
			}
			parts = append(parts, encPart{dp, pt, e2, er})
			return nil
		}, func(pt string, er error) {
			parts = append(parts, encPart{absint.False, pt, nil, er})
		})
		for _, part := range parts {
			dom, enc, err := part.dom, part.enc, part.err
			_ = enc
			tag := v.Name
			if part.tag != "" {
				tag += "/part" + part.tag
			}
			if err != nil {
				collect()
				if pe, ok := err.(absint.Panic); ok {
					res.add("app.accept", "encoder-total/"+tag, false, "encoding a well-formed value returns bytes or an error", pe.Why+witnessOr(in, pe.Cond, ""), pos)
					continue
				}
				res.undecided("undecided", "enc/"+tag, err.Error(), pos)
				continue
			}
			ev, ok1 := enc[1].(*absint.ErrVal)
			out, ok2 := enc[0].(*absint.Slice)
			if !ok1 {
				res.undecided("undecided", "enc/"+tag, fmt.Sprintf("unexpected error shape %T", enc[1]), pos)
				continue
			}
			w := d.M.And(dom, ev.NonNil)
			res.add("app.accept", "in-range-accepted/"+tag, w == absint.False, "every value within the specified bit widths is accepted", witnessOr(in, w, "always accepted"), pos)
			A := d.M.And(dom, d.M.Not(ev.NonNil))
			if A == absint.False || !ok2 {
				continue
			}
			in.SetLive(A)
			// Size()
			if hasMethod(T, "Size") {
				var sz []absint.Value
				if e := in.Try(func() { sz = in.CallMethod(&absint.Cell{V: absint.Copy(val)}, T, "Size") }); e != nil {
					res.undecided("undecided", "size/"+tag, e.Error(), pos)
				} else if k, ok := d.ConstVal(sz[0].(*absint.Bits)); ok {
					res.add("app.size", "size/"+tag, int(k) == out.Len() && out.Len() == v.Size, fmt.Sprintf("Size() = encoded length = %d", v.Size), fmt.Sprintf("Size()=%d, encoded %d bytes", k, out.Len()), pos)
				} else {
					res.add("app.size", "size/"+tag, false, "Size() is determined by the variant's gate fields", "Size() depends on other symbolic fields: "+in.Show(sz[0]), pos)
				}
			} else {
				res.add("app.size", "size/"+tag, out.Len() == v.Size, fmt.Sprintf("encoded length = %d", v.Size), fmt.Sprintf("encoded %d bytes", out.Len()), pos)
			}
			// inverse
			decode := func(data absint.Value) (*absint.Cell, *absint.ErrVal, error) {
				recv := &absint.Cell{V: in.Zero(T)}
				var dec []absint.Value
				e := in.Try(func() { dec = in.CallMethod(recv, T, "UnmarshalBinary", unmarshalArgs(in, T, data, sp.Dir == "up")...) })
				if e != nil {
					return nil, nil, e
				}
				de, _ := dec[0].(*absint.ErrVal)
				return recv, de, nil
			}
			recv, de, e := decode(out)
			collect()
			if e != nil {
				if pe, ok := e.(absint.Panic); ok {
					res.add("app.inv", "decoder-total/"+tag, false, "decoding the encoder's output returns a value or an error", pe.Why, pos)
					continue
				}
				res.undecided("undecided", "dec-of-enc/"+tag, e.Error(), pos)
				continue
			}
			cond := A
			if de != nil {
				w := d.M.And(A, de.NonNil)
				res.add("app.inv", "decoder-accepts/"+tag, w == absint.False, "decoder accepts the encoder's output", witnessOr(in, w, "always accepted"), pos)
				cond = d.M.And(A, d.M.Not(de.NonNil))
			}
			if cond != absint.False {
				in.SetLive(cond)
				func() {
					defer func() {
						if r := recover(); r != nil {
							if u, ok := r.(absint.Unsupported); ok {
								res.undecided("undecided", "inv/"+tag, u.Error(), pos)
								return
							}
							if u, ok := r.(absint.BudgetExceeded); ok {
								res.undecided("undecided", "inv/"+tag, u.Error(), pos)
								return
							}
							panic(r)
						}
					}()
					deepCompare(in, "", recv.V, val, cond, func(p string, ok bool, why string) {
						for _, ig := range v.Ignore {
							if strings.TrimPrefix(p, ".") == ig {
								return
							}
						}
						res.add("app.inv", "inv/"+tag+p, ok, "decode(encode(v))"+p+" = v"+p+" for every in-range v", why, pos)
					})
				}()
			}
			// stream convention: a following byte must not disturb decoding; a missing byte must be rejected
			if !v.NoStream {
				// trailers of every length 1..streamTrailMax, all bytes symbolic; one obligation per variant,
				// reporting the shortest trailer that disturbs decoding
				streamOK, streamWhy, streamUndec := true, fmt.Sprintf("same value with every trailer of 1..%d arbitrary bytes", streamTrailMax), ""
				var trail []absint.Value
				for j := 0; j < streamTrailMax; j++ {
					trail = append(trail, in.D.Sym(fmt.Sprintf("next-command-byte%d/%s", j, tag), 8, false, false))
				}
				for tl := 1; tl <= streamTrailMax && streamOK && streamUndec == ""; tl++ {
					bk := &absint.Backing{}
					for i := 0; i < out.Len(); i++ {
						bk.E = append(bk.E, &absint.Cell{V: out.At(i).V})
					}
					for j := 0; j < tl; j++ {
						bk.E = append(bk.E, &absint.Cell{V: trail[j]})
					}
					longer := &absint.Slice{Back: bk, Hi: len(bk.E), Cap: len(bk.E), Elem: out.Elem}
					in.SetLive(A)
					recv2, de2, e2 := decode(longer)
					switch {
					case e2 != nil:
						streamUndec = fmt.Sprintf("trailer of %d bytes: %s", tl, e2.Error())
					case de2 != nil && d.M.And(A, de2.NonNil) != absint.False:
						streamOK, streamWhy = false, fmt.Sprintf("rejected with a trailer of %d bytes: %s", tl, witnessOr(in, d.M.And(A, de2.NonNil), ""))
					default:
						func() {
							defer func() {
								if r := recover(); r != nil {
									streamOK, streamWhy = false, fmt.Sprint(r)
								}
							}()
							deepCompare(in, "", recv2.V, val, A, func(p string, ok bool, w string) {
								if !ok && streamOK {
									streamOK, streamWhy = false, fmt.Sprintf("with a trailer of %d bytes %s: %s", tl, p, w)
								}
							})
						}()
					}
				}
				if streamUndec != "" {
					res.undecided("undecided", "stream/"+tag, streamUndec, pos)
				} else {
					res.add("app.stream", "stream/"+tag, streamOK, "payload followed by further commands decodes to the same value (length test is a lower bound, nothing beyond Size() is read)", streamWhy, pos)
				}
			}
			if out.Len() > 0 && !v.NoStream {
				shorter := &absint.Slice{Back: out.Back, Lo: out.Lo, Hi: out.Hi - 1, Cap: out.Len() - 1, Elem: out.Elem}
				in.SetLive(A)
				_, de3, e3 := decode(shorter)
				if e3 != nil {
					res.add("app.short", "short/"+tag, false, "a truncated payload is rejected with an error", "decoder runs off the buffer: "+e3.Error(), pos)
				} else {
					rej := de3 != nil && d.M.Implies(A, de3.NonNil)
					res.add("app.short", "short/"+tag, rej, "a truncated payload is rejected with an error", fmt.Sprintf("rejected=%v", rej), pos)
				}
			}
		}
		res.Nodes += d.M.Size()
	}
	return res
}
