package props

import (
	"fmt"
	"go/token"
	"go/types"

	"lwverif/internal/absint"
)

// c11TextE1 (rule C11-R5.text): the text forms of the four identifier types decided by the bit-level engine on strings
// with symbolic characters. hex.EncodeToString produces two uninterpreted characters per byte; hex.DecodeString returns
// the byte back for exactly those two characters, and for any other pair an uninterpreted byte together with an
// uninterpreted "invalid digit" bit; an odd length is an error. Decided for all values / all characters at once:
// UnmarshalText(MarshalText(v)) = v, also with a leading 0x; every text whose length after the optional 0x is not twice
// the array length is rejected; no text makes the decoder panic.
func c11TextE1(c *Ctx, rule string) {
	r := c.Run
	r.Rule(rule, "EUI64/DevAddr/NetID/AES128Key: UnmarshalText(MarshalText(v)) = v with and without 0x; texts of every other length (0..2N+2 after the optional prefix) are rejected for all characters; no panic")
	for _, T := range []struct {
		name string
		n    int
	}{{"EUI64", 8}, {"DevAddr", 4}, {"NetID", 3}, {"AES128Key", 16}} {
		// ---- round trip
		for _, prefix := range []string{"", "0x"} {
			key := fmt.Sprintf("%s/roundtrip/prefix%q", T.name, prefix)
			in := absint.NewInterp(c.Prog)
			d := in.D
			NT := in.NamedType("", T.name)
			var v absint.Value
			var mt, ut []absint.Value
			recv := &absint.Cell{}
			err := in.Try(func() {
				v = in.Sym("v", NT, false)
				mt = in.CallMethod(&absint.Cell{V: absint.Copy(v)}, NT, "MarshalText")
			})
			if err != nil {
				r.Unknown(rule, key, "", "MarshalText inside the interpreter's subset", err.Error())
				continue
			}
			if ev, _ := mt[1].(*absint.ErrVal); ev == nil || ev.NonNil != absint.False {
				r.Bad(rule, key+"/encode", "", "MarshalText never fails", in.Show(mt[1]))
				continue
			}
			txt, ok := mt[0].(*absint.Slice)
			if !ok || txt.Len() != 2*T.n {
				r.Bad(rule, key+"/encode", "", fmt.Sprintf("%d characters", 2*T.n), in.Show(mt[0]))
				continue
			}
			bk := &absint.Backing{}
			for i := 0; i < len(prefix); i++ {
				bk.E = append(bk.E, &absint.Cell{V: d.Const(int64(prefix[i]), 8, false)})
			}
			for i := 0; i < txt.Len(); i++ {
				bk.E = append(bk.E, &absint.Cell{V: txt.At(i).V})
			}
			text := &absint.Slice{Back: bk, Hi: len(bk.E), Cap: len(bk.E), Elem: types.Typ[types.Uint8]}
			done := false
			forParts(in, absint.True, 4, func(dp absint.Node, pt string) error {
				e := in.Try(func() {
					in.SetLive(dp)
					recv.V = in.Zero(NT)
					ut = in.CallMethod(recv, NT, "UnmarshalText", text)
				})
				if e != nil {
					if pe, isP := e.(absint.Panic); isP {
						r.Bad(rule, key, "", "decoding the encoder's text returns a value or an error", "panics: "+pe.Why)
						done = true
						return nil
					}
					return e
				}
				ev, _ := ut[0].(*absint.ErrVal)
				if ev == nil || d.M.And(dp, ev.NonNil) != absint.False {
					r.Bad(rule, key+pt, "", "the encoder's own text is accepted", in.Show(ut[0]))
					done = true
					return nil
				}
				good, why := true, "every byte equal for all values"
				deepCompare(in, "", recv.V, v, dp, func(p string, ok bool, w string) {
					if !ok && good {
						good, why = false, p+": "+w
					}
				})
				r.Check(good, rule, key+pt, "", "UnmarshalText(MarshalText(v)) = v", why, true)
				done = true
				return nil
			}, func(pt string, e error) {
				r.Unknown(rule, key+pt, "", "UnmarshalText inside the interpreter's subset", e.Error())
				done = true
			})
			_ = done
		}
		// ---- wrong lengths
		for _, prefix := range []string{"", "0x"} {
			for L := 0; L <= 2*T.n+2; L++ {
				if L == 2*T.n {
					continue
				}
				key := fmt.Sprintf("%s/length%d/prefix%q", T.name, L, prefix)
				in := absint.NewInterp(c.Prog)
				d := in.D
				NT := in.NamedType("", T.name)
				body := in.SymBytes("c", L)
				dom := absint.True
				if prefix == "" && L >= 2 {
					isPre := d.M.And(d.Cmp(token.EQL, body.At(0).V.(*absint.Bits), d.Const('0', 8, false)), d.Cmp(token.EQL, body.At(1).V.(*absint.Bits), d.Const('x', 8, false)))
					dom = d.M.Not(isPre) // a text that happens to start with 0x belongs to the other family
				}
				bk := &absint.Backing{}
				for i := 0; i < len(prefix); i++ {
					bk.E = append(bk.E, &absint.Cell{V: d.Const(int64(prefix[i]), 8, false)})
				}
				for i := 0; i < L; i++ {
					bk.E = append(bk.E, &absint.Cell{V: body.At(i).V})
				}
				text := &absint.Slice{Back: bk, Hi: len(bk.E), Cap: len(bk.E), Elem: types.Typ[types.Uint8]}
				okAll, why, undec := true, "rejected for every character content", ""
				forParts(in, dom, 4, func(dp absint.Node, pt string) error {
					var ut []absint.Value
					e := in.Try(func() {
						in.SetLive(dp)
						ut = in.CallMethod(&absint.Cell{V: in.Zero(NT)}, NT, "UnmarshalText", text)
					})
					if e != nil {
						if pe, isP := e.(absint.Panic); isP {
							okAll, why = false, "panics: "+pe.Why
							return nil
						}
						return e
					}
					ev, _ := ut[0].(*absint.ErrVal)
					if ev == nil {
						okAll, why = false, "no error value"
						return nil
					}
					if acc := d.M.And(dp, d.M.Not(ev.NonNil)); acc != absint.False {
						okAll, why = false, "accepted, e.g. "+d.Witness(acc)
					}
					return nil
				}, func(pt string, e error) { undec = e.Error() })
				if undec != "" {
					r.Unknown(rule, key, "", "UnmarshalText inside the interpreter's subset", undec)
					continue
				}
				r.Check(okAll, rule, key, "", fmt.Sprintf("a text of %d characters after the optional prefix is rejected (%d expected)", L, 2*T.n), why, true)
			}
		}
	}
}

// c11SQLE1: the database forms of the four identifier types on the bit-level engine. Scan(src): a []byte of exactly N
// symbolic bytes is accepted and becomes the value byte for byte; a []byte of any other length 0..N+2, a string, an
// integer and nil are errors, never panics. Value(): a []byte holding the N bytes of the value, no error.
func c11SQLE1(c *Ctx, rule string) {
	r := c.Run
	r.Rule(rule, "EUI64/DevAddr/NetID/AES128Key: Scan accepts exactly a []byte of the array length and copies it; every other length and every other dynamic type is an error (no panic); Value returns the bytes")
	byteSlice := types.NewSlice(types.Typ[types.Uint8])
	for _, T := range []struct {
		name string
		n    int
	}{{"EUI64", 8}, {"DevAddr", 4}, {"NetID", 3}, {"AES128Key", 16}} {
		for L := 0; L <= T.n+2; L++ {
			key := fmt.Sprintf("%s/scan/bytes%d", T.name, L)
			in := absint.NewInterp(c.Prog)
			d := in.D
			NT := in.NamedType("", T.name)
			src := in.SymBytes("s", L)
			recv := &absint.Cell{V: in.Zero(NT)}
			var res []absint.Value
			err := in.Try(func() {
				res = in.CallMethod(recv, NT, "Scan", &absint.Iface{Dyn: src, DynT: byteSlice})
			})
			if err != nil {
				if pe, isP := err.(absint.Panic); isP {
					r.Bad(rule, key, "", "a value or an error", "panics: "+pe.Why)
				} else {
					r.Unknown(rule, key, "", "Scan inside the interpreter's subset", err.Error())
				}
				continue
			}
			ev, _ := res[0].(*absint.ErrVal)
			if ev == nil {
				r.Unknown(rule, key, "", "error result", in.Show(res[0]))
				continue
			}
			if L != T.n {
				acc := d.M.Not(ev.NonNil)
				r.Check(acc == absint.False, rule, key, "", fmt.Sprintf("%d bytes are rejected (%d expected)", L, T.n), witnessOr(in, acc, "rejected for every content"), true)
				continue
			}
			if ev.NonNil != absint.False {
				r.Bad(rule, key, "", "a []byte of the exact length is accepted", witnessOr(in, ev.NonNil, ""))
				continue
			}
			arr, ok := recv.V.(*absint.Array)
			good, why := ok && len(arr.E) == T.n, "every byte equals the source byte"
			for i := 0; good && i < T.n; i++ {
				if same, w := sameValue(in, arr.E[i].V, src.At(i).V, absint.True); !same {
					good, why = false, fmt.Sprintf("byte %d: %s", i, w)
				}
			}
			r.Check(good, rule, key, "", "value[i] = src[i] for every i", why, true)
		}
		// other dynamic types
		for _, alt := range []struct {
			name string
			mk   func(in *absint.Interp) absint.Value
		}{
			{"nil", func(in *absint.Interp) absint.Value { return &absint.Iface{Dyn: absint.NilVal{}} }},
			{"string", func(in *absint.Interp) absint.Value {
				return &absint.Iface{Dyn: &absint.StrVal{}, DynT: types.Typ[types.String]}
			}},
			{"int64", func(in *absint.Interp) absint.Value {
				return &absint.Iface{Dyn: in.D.Sym("n", 64, true, false), DynT: types.Typ[types.Int64]}
			}},
		} {
			key := fmt.Sprintf("%s/scan/%s", T.name, alt.name)
			in := absint.NewInterp(c.Prog)
			NT := in.NamedType("", T.name)
			var res []absint.Value
			err := in.Try(func() {
				res = in.CallMethod(&absint.Cell{V: in.Zero(NT)}, NT, "Scan", alt.mk(in))
			})
			if err != nil {
				if pe, isP := err.(absint.Panic); isP {
					r.Bad(rule, key, "", "an error, not a panic", "panics: "+pe.Why)
				} else {
					r.Unknown(rule, key, "", "Scan inside the interpreter's subset", err.Error())
				}
				continue
			}
			ev, _ := res[0].(*absint.ErrVal)
			r.Check(ev != nil && ev.NonNil == absint.True, rule, key, "", "a source that is not a []byte is an error", in.Show(res[0]), true)
		}
		// Value
		{
			key := T.name + "/value"
			in := absint.NewInterp(c.Prog)
			NT := in.NamedType("", T.name)
			var v absint.Value
			var res []absint.Value
			err := in.Try(func() {
				v = in.Sym("v", NT, false)
				res = in.CallMethod(&absint.Cell{V: absint.Copy(v)}, NT, "Value")
			})
			if err != nil {
				r.Unknown(rule, key, "", "Value inside the interpreter's subset", err.Error())
				continue
			}
			ev, _ := res[1].(*absint.ErrVal)
			out := res[0]
			if ifc, ok := out.(*absint.Iface); ok {
				out = ifc.Dyn
			}
			sl, ok := out.(*absint.Slice)
			good, why := ok && ev != nil && ev.NonNil == absint.False && sl.Len() == T.n, "the value's bytes"
			if !good {
				why = in.Show(res[0]) + ", " + in.Show(res[1])
			}
			arr, _ := v.(*absint.Array)
			for i := 0; good && arr != nil && i < T.n; i++ {
				if same, w := sameValue(in, sl.At(i).V, arr.E[i].V, absint.True); !same {
					good, why = false, fmt.Sprintf("byte %d: %s", i, w)
				}
			}
			r.Check(good, rule, key, "", fmt.Sprintf("Value() = the %d bytes of the value, nil error", T.n), why, true)
		}
	}
}
