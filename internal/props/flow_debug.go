package props

import "os"

// With LW_FLOW_DEBUG=1 the reusable flow rules of C02/C03/C04/C11 can be run on their own as X02/X03/X04/X11
// (development and seed testing only; the owning property files call flowC02 … flowC11 directly).
func init() {
	if os.Getenv("LW_FLOW_DEBUG") == "" {
		return
	}
	Register("X02", flowC02)
	Register("X03", flowC03)
	Register("X04", flowC04)
	Register("X11", flowC11)
}
