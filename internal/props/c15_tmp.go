package props

// TEMPORARY registrations for testing c15Guards / c18 rules; removed before the final commit
// (c15.go / c18.go own the ids).
func init() {
	if Get("C15") == nil {
		Register("C15", func(c *Ctx) { c15Guards(c) })
	}
	if Get("C18") == nil {
		Register("C18", func(c *Ctx) { c18EncoderTotal(c); c18StreamConvention(c) })
	}
}
