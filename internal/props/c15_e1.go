package props

import (
	"fmt"
	"go/token"
	"go/types"

	"lwverif/internal/absint"
	"lwverif/internal/tables"
)

// C15 on real band objects (engine E1): band.GetConfig is interpreted, extra channels are added through AddChannel,
// the `enabled` flag of every channel is then replaced by a free boolean (every subset of enabled channels is reachable
// through Enable/DisableUplinkChannelIndex, so this is "after any sequence of disables and enables"), and the methods
// under test are interpreted on that state with symbolic arguments. Nothing depends on how the methods are written.

type c15State struct {
	in     *absint.Interp
	ifc    *absint.Iface
	base   *absint.Struct // the embedded band struct
	n      int            // uplink channels
	flags  []absint.Node  // enabled flag of uplink channel k
	custom []bool
}

func c15BandBase(ifc *absint.Iface) *absint.Struct {
	p, ok := ifc.Dyn.(*absint.Ptr)
	if !ok || p.To == nil {
		return nil
	}
	outer, ok := p.To.V.(*absint.Struct)
	if !ok {
		return nil
	}
	// embedded directly or through intermediate embedded structs
	var find func(st *absint.Struct, depth int) *absint.Struct
	find = func(st *absint.Struct, depth int) *absint.Struct {
		if c := st.F["band"]; c != nil {
			if b, ok := c.V.(*absint.Struct); ok {
				return b
			}
		}
		if depth > 2 {
			return nil
		}
		for _, name := range st.Order {
			if inner, ok := st.F[name].V.(*absint.Struct); ok {
				if b := find(inner, depth+1); b != nil {
					return b
				}
			}
		}
		return nil
	}
	return find(outer, 0)
}

func c15Chans(base *absint.Struct, field string) []*absint.Struct {
	c := base.F[field]
	if c == nil {
		return nil
	}
	sl, ok := c.V.(*absint.Slice)
	if !ok {
		return nil
	}
	var out []*absint.Struct
	for i := 0; i < sl.Len(); i++ {
		st, ok := sl.At(i).V.(*absint.Struct)
		if !ok {
			return nil
		}
		out = append(out, st)
	}
	return out
}

// c15Setup builds the state: band `name`, extra channels added (when the band supports them), enabled flags symbolic.
func c15Setup(c *Ctx, name string, extra [][3]int64, symbolicFlags bool) (*c15State, error) {
	in := absint.NewInterp(c.Prog)
	ifc, err := e1Band(in, name, false, false)
	if err != nil {
		return nil, err
	}
	d := in.D
	for _, ch := range extra {
		res, err := e1BandCall(in, ifc, "AddChannel", d.Const(ch[0], 32, false), d.Const(ch[1], absint.IntBits, true), d.Const(ch[2], absint.IntBits, true))
		if err != nil {
			return nil, fmt.Errorf("AddChannel: %v", err)
		}
		if ev, ok := res[0].(*absint.ErrVal); !ok || ev.NonNil != absint.False {
			return nil, fmt.Errorf("AddChannel(%d) on %s fails: %s", ch[0], name, in.Show(res[0]))
		}
	}
	base := c15BandBase(ifc)
	if base == nil {
		return nil, fmt.Errorf("band value has no embedded band struct")
	}
	up := c15Chans(base, "uplinkChannels")
	if up == nil {
		return nil, fmt.Errorf("uplinkChannels is not a table of channel structs")
	}
	st := &c15State{in: in, ifc: ifc, base: base, n: len(up)}
	for k, ch := range up {
		cu, ok := ch.F["custom"].V.(*absint.Bits)
		en, ok2 := ch.F["enabled"].V.(*absint.Bits)
		if !ok || !ok2 {
			return nil, fmt.Errorf("channel %d has no custom/enabled flags", k)
		}
		kc, isC := d.ConstVal(cu)
		if !isC {
			return nil, fmt.Errorf("custom flag of channel %d is not a constant", k)
		}
		st.custom = append(st.custom, kc != 0)
		if symbolicFlags {
			f := d.Sym(fmt.Sprintf("enabled%d", k), 1, false, false)
			ch.F["enabled"].V = f
			st.flags = append(st.flags, f.Bits()[0])
		} else {
			st.flags = append(st.flags, en.Bits()[0])
		}
	}
	return st, nil
}

var c15Extra = [][3]int64{{867100000, 0, 5}, {867300000, 0, 5}, {868300000, 6, 6}}

// c15Band: the band a rule instance runs on, with the channels it adds first (two new frequencies and one that shares
// the frequency of a default channel at another data-rate).
type c15Band struct {
	name   string
	extra  [][3]int64
	shared int64 // frequency carried by a default channel and by an added one
	fresh  int64 // frequency of an added channel only
	drIn   int64 // a data-rate of the default channel on the shared frequency
	// downOnly: only the downlink accessor, on concrete channel flags (a fixed channel plan with 72 uplink channels)
	downOnly bool
}

var c15EU868 = c15Band{name: "EU868", extra: c15Extra, shared: 868300000, fresh: 867100000, drIn: 3}

// c15Bands: EU868 always; in the thorough tier every band that accepts extra channels.
func c15Bands(c *Ctx) []c15Band {
	out := []c15Band{c15EU868}
	if c.Tier != "thorough" {
		return out
	}
	bands, err := c.Bands()
	if err != nil {
		return out
	}
	seen := map[string]bool{"EU868": true}
	for _, cfg := range bands.Configs {
		if cfg.Repeater || cfg.Dwell400 || seen[cfg.Canon()] {
			continue
		}
		seen[cfg.Canon()] = true
		if b, ok := tables.AsBool(cfg.Base.Fields["supportsExtraChannels"]); !ok || !b {
			continue
		}
		up, err := cfg.Channels("uplinkChannels")
		if err != nil || len(up) == 0 || len(up) > 5 {
			continue
		}
		last := int64(up[len(up)-1].Freq)
		out = append(out, c15Band{name: cfg.Canon(), shared: int64(up[0].Freq), fresh: last + 200000, drIn: int64(up[0].MinDR),
			extra: [][3]int64{{last + 200000, 0, 5}, {last + 400000, 0, 5}, {int64(up[0].Freq), int64(up[0].MaxDR) + 1, int64(up[0].MaxDR) + 1}}})
	}
	return out
}

func c15IntList(in *absint.Interp, v absint.Value) ([]int64, bool) {
	if _, isNil := v.(absint.NilVal); isNil {
		return nil, true
	}
	sl, ok := v.(*absint.Slice)
	if !ok {
		return nil, false
	}
	var out []int64
	for i := 0; i < sl.Len(); i++ {
		b, ok := sl.At(i).V.(*absint.Bits)
		if !ok {
			return nil, false
		}
		k, isC := in.D.ConstVal(b)
		if !isC {
			// constant under the current path condition?
			return nil, false
		}
		out = append(out, k)
	}
	return out, true
}

// c15BookkeepingE1 emits the rules R8.partition, R8.index, R8.addchannel and R8.lookup.
func c15BookkeepingE1(c *Ctx) {
	r := c.Run
	r.Rule("R8.partition", "E1 on EU868 with three added channels and every subset of enabled channels: enabled/disabled and standard/custom index sets partition all channels, and the enabled set is exactly the channels whose flag is set")
	r.Rule("R8.index", "E1, symbolic index of 64 and 32 bits: GetUplinkChannel/GetDownlinkChannel/GetTXPowerOffset/Enable-/DisableUplinkChannelIndex never panic, fail exactly for an index outside the table, return the indexed entry, and Enable/Disable change the enabled flag of that one uplink channel only")
	r.Rule("R8.addchannel", "E1, symbolic frequency and data-rates: AddChannel appends one custom channel (enabled iff frequency != 0) to both tables and leaves every existing entry untouched; a band without extra-channel support refuses and changes nothing")
	r.Rule("R8.lookup", "E1, symbolic frequency / data-rate: an index returned by GetUplinkChannelIndex or GetUplinkChannelIndexForFrequencyDR designates a channel with that frequency (and default/custom class, resp. a data-rate range containing dr); GetUplinkChannelIndex fails only when no channel matches")
	for _, b := range c15Bands(c) {
		c15Partition(c, b)
		for _, ib := range []int{64, 32} {
			absint.IntBits = ib
			func() {
				defer func() { absint.IntBits = 64 }()
				c15Index(c, b, ib)
			}()
		}
		c15Lookup(c, b)
	}
	// a fixed channel plan whose downlink table is shorter than its uplink table (72 / 8): an accessor that guards one
	// table with the length of the other is wrong only here
	c15Index(c, c15Band{name: "US915", downOnly: true}, 64)
	c15AddChannelE1(c)
}

func c15Partition(c *Ctx, b c15Band) {
	r := c.Run
	const rule = "R8.partition"
	st, err := c15Setup(c, b.name, b.extra, true)
	if err != nil {
		r.Unknown(rule, b.name+"/setup", "", "band state inside the interpreter's subset", err.Error())
		return
	}
	in, d := st.in, st.in.D
	nParts := 0
	bad := ""
	forParts(in, absint.True, 8, func(dom absint.Node, tag string) error {
		var en, dis, std, cus []absint.Value
		var err error
		in.SetLive(dom)
		call := func(m string) ([]absint.Value, error) {
			in.SetLive(dom)
			return e1BandCall(in, st.ifc, m)
		}
		if en, err = call("GetEnabledUplinkChannelIndices"); err != nil {
			return err
		}
		if dis, err = call("GetDisabledUplinkChannelIndices"); err != nil {
			return err
		}
		if std, err = call("GetStandardUplinkChannelIndices"); err != nil {
			return err
		}
		if cus, err = call("GetCustomUplinkChannelIndices"); err != nil {
			return err
		}
		nParts++
		le, ok1 := c15IntList(in, en[0])
		ld, ok2 := c15IntList(in, dis[0])
		ls, ok3 := c15IntList(in, std[0])
		lc, ok4 := c15IntList(in, cus[0])
		if !(ok1 && ok2 && ok3 && ok4) {
			return fmt.Errorf("index lists are not constant within one flag assignment")
		}
		check := func(a, b []int64, inA func(k int) bool, what string) {
			seen := map[int64]int{}
			for _, k := range a {
				seen[k]++
			}
			for _, k := range b {
				seen[k] += 100
			}
			for k := 0; k < st.n; k++ {
				want := 100
				if inA(k) {
					want = 1
				}
				if seen[int64(k)] != want && bad == "" {
					bad = fmt.Sprintf("%s: channel %d is reported %d/%d times in the two sets (flags %s)", what, k, seen[int64(k)]%100, seen[int64(k)]/100, d.Witness(dom))
				}
			}
			if len(a)+len(b) != st.n && bad == "" {
				bad = fmt.Sprintf("%s: %d + %d indices for %d channels (flags %s)", what, len(a), len(b), st.n, d.Witness(dom))
			}
		}
		check(le, ld, func(k int) bool { return d.M.And(dom, d.M.Not(st.flags[k])) == absint.False }, "enabled/disabled")
		check(lc, ls, func(k int) bool { return st.custom[k] }, "custom/standard")
		return nil
	}, func(tag string, e error) {
		if pe, isP := e.(absint.Panic); isP {
			bad = "panics: " + pe.Why
			return
		}
		r.Unknown(rule, b.name+"/partition"+tag, "", "index-set queries inside the interpreter's subset", e.Error())
	})
	if nParts > 0 {
		r.Check(bad == "", rule, b.name+"/partition", "", fmt.Sprintf("both pairs of index sets partition the %d channels for every subset of enabled channels", st.n), fmt.Sprintf("%s (%d flag assignments examined)", bad, nParts), true)
	}
}

func c15Index(c *Ctx, b c15Band, ib int) {
	r := c.Run
	const rule = "R8.index"
	type acc struct {
		method, table string
	}
	for _, a := range []acc{{"GetUplinkChannel", "uplinkChannels"}, {"GetDownlinkChannel", "downlinkChannels"}} {
		if b.downOnly && a.method != "GetDownlinkChannel" {
			continue
		}
		key := fmt.Sprintf("%s/%s/int%d", b.name, a.method, ib)
		st, err := c15Setup(c, b.name, b.extra, !b.downOnly)
		if err != nil {
			r.Unknown(rule, key, "", "band state inside the interpreter's subset", err.Error())
			continue
		}
		in, d := st.in, st.in.D
		tab := c15Chans(st.base, a.table)
		i := d.Sym("i", ib, true, false)
		res, err := e1BandCall(in, st.ifc, a.method, i)
		if err != nil {
			c15Report(r, rule, key, in, err)
			continue
		}
		ev, ok := res[1].(*absint.ErrVal)
		ch, ok2 := res[0].(*absint.Struct)
		if !ok || !ok2 {
			r.Unknown(rule, key, "", "(Channel, error)", in.Show(res[0]))
			continue
		}
		oor := d.M.Or(d.Cmp(token.LSS, i, d.Const(0, ib, true)), d.M.Not(d.Cmp(token.LSS, i, d.Const(int64(len(tab)), ib, true))))
		bad := ""
		if x := d.M.Xor(ev.NonNil, oor); x != absint.False {
			bad = "error condition differs from `index outside the table`, e.g. " + d.Witness(x)
		}
		for k := 0; k < len(tab) && bad == ""; k++ {
			ck := d.Cmp(token.EQL, i, d.Const(int64(k), ib, true))
			for _, f := range []string{"Frequency", "MinDR", "MaxDR"} {
				if ok, w := sameValue(in, ch.F[f].V, tab[k].F[f].V, ck); !ok {
					bad = fmt.Sprintf("index %d: field %s: %s", k, f, w)
				}
			}
		}
		r.Check(bad == "", rule, key, "", "error iff the index is outside the table; otherwise the indexed entry", bad, true)
	}
	if b.downOnly {
		return
	}
	// GetTXPowerOffset
	{
		key := fmt.Sprintf("%s/GetTXPowerOffset/int%d", b.name, ib)
		st, err := c15Setup(c, b.name, nil, false)
		if err != nil {
			r.Unknown(rule, key, "", "band state inside the interpreter's subset", err.Error())
		} else {
			in, d := st.in, st.in.D
			n := 0
			if sl, ok := st.base.F["txPowerOffsets"].V.(*absint.Slice); ok {
				n = sl.Len()
			}
			i := d.Sym("i", ib, true, false)
			res, err := e1BandCall(in, st.ifc, "GetTXPowerOffset", i)
			if err != nil {
				c15Report(r, rule, key, in, err)
			} else if ev, ok := res[1].(*absint.ErrVal); ok {
				oor := d.M.Or(d.Cmp(token.LSS, i, d.Const(0, ib, true)), d.M.Not(d.Cmp(token.LSS, i, d.Const(int64(n), ib, true))))
				x := d.M.Xor(ev.NonNil, oor)
				r.Check(x == absint.False && n > 0, rule, key, "", fmt.Sprintf("error iff the index is outside the %d-entry table", n), witnessIf(in, x), true)
			}
		}
	}
	// Enable / Disable
	for _, m := range []struct {
		method string
		val    bool
	}{{"EnableUplinkChannelIndex", true}, {"DisableUplinkChannelIndex", false}} {
		key := fmt.Sprintf("%s/%s/int%d", b.name, m.method, ib)
		st, err := c15Setup(c, b.name, b.extra, true)
		if err != nil {
			r.Unknown(rule, key, "", "band state inside the interpreter's subset", err.Error())
			continue
		}
		in, d := st.in, st.in.D
		// snapshot of both tables
		snap := func(field string) [][5]absint.Value {
			var out [][5]absint.Value
			for _, ch := range c15Chans(st.base, field) {
				out = append(out, [5]absint.Value{ch.F["Frequency"].V, ch.F["MinDR"].V, ch.F["MaxDR"].V, ch.F["custom"].V, ch.F["enabled"].V})
			}
			return out
		}
		upBefore, dnBefore := snap("uplinkChannels"), snap("downlinkChannels")
		i := d.Sym("i", ib, true, false)
		res, err := e1BandCall(in, st.ifc, m.method, i)
		if err != nil {
			c15Report(r, rule, key, in, err)
			continue
		}
		ev, ok := res[0].(*absint.ErrVal)
		if !ok {
			r.Unknown(rule, key, "", "an error result", in.Show(res[0]))
			continue
		}
		oor := d.M.Or(d.Cmp(token.LSS, i, d.Const(0, ib, true)), d.M.Not(d.Cmp(token.LSS, i, d.Const(int64(st.n), ib, true))))
		bad := ""
		if x := d.M.Xor(ev.NonNil, oor); x != absint.False {
			bad = "error condition differs from `index outside the table`, e.g. " + d.Witness(x)
		}
		upAfter, dnAfter := snap("uplinkChannels"), snap("downlinkChannels")
		if len(upAfter) != len(upBefore) || len(dnAfter) != len(dnBefore) {
			bad = "the tables changed their length"
		}
		names := [5]string{"Frequency", "MinDR", "MaxDR", "custom", "enabled"}
		for k := 0; k < len(upBefore) && bad == ""; k++ {
			for f := 0; f < 5; f++ {
				want := upBefore[k][f]
				if f == 4 {
					ck := d.Cmp(token.EQL, i, d.Const(int64(k), ib, true))
					v := absint.False
					if m.val {
						v = absint.True
					}
					want = d.ITE(ck, d.Bool(v), upBefore[k][4].(*absint.Bits))
				}
				if ok, w := sameValue(in, upAfter[k][f], want, absint.True); !ok {
					bad = fmt.Sprintf("uplink channel %d field %s: %s", k, names[f], w)
				}
			}
		}
		for k := 0; k < len(dnBefore) && bad == ""; k++ {
			for f := 0; f < 5; f++ {
				if ok, w := sameValue(in, dnAfter[k][f], dnBefore[k][f], absint.True); !ok {
					bad = fmt.Sprintf("downlink channel %d field %s changed: %s", k, names[f], w)
				}
			}
		}
		r.Check(bad == "", rule, key, "", fmt.Sprintf("error iff the index is outside the table; enabled flag of that channel becomes %v; nothing else changes", m.val), bad, true)
	}
}

func c15Report(r interface {
	Bad(rule, key, pos, want, got string)
	Unknown(rule, key, pos, want, got string)
}, rule, key string, in *absint.Interp, err error) {
	if pe, isP := err.(absint.Panic); isP {
		r.Bad(rule, key, "", "a result or an error for every argument", "panics: "+pe.Why+", e.g. "+in.D.Witness(pe.Cond))
		return
	}
	r.Unknown(rule, key, "", "inside the interpreter's subset", err.Error())
}

func c15AddChannelE1(c *Ctx) {
	r := c.Run
	const rule = "R8.addchannel"
	for _, name := range []string{"EU868", "US915"} {
		key := name + "/AddChannel"
		extra := c15Extra
		if name == "US915" {
			extra = nil
		}
		st, err := c15Setup(c, name, extra, name == "EU868")
		if err != nil {
			r.Unknown(rule, key, "", "band state inside the interpreter's subset", err.Error())
			continue
		}
		in, d := st.in, st.in.D
		snap := func(field string) [][5]absint.Value {
			var out [][5]absint.Value
			for _, ch := range c15Chans(st.base, field) {
				out = append(out, [5]absint.Value{ch.F["Frequency"].V, ch.F["MinDR"].V, ch.F["MaxDR"].V, ch.F["custom"].V, ch.F["enabled"].V})
			}
			return out
		}
		upB, dnB := snap("uplinkChannels"), snap("downlinkChannels")
		f := d.Sym("f", 32, false, false)
		lo := d.Sym("minDR", 64, true, false)
		hi := d.Sym("maxDR", 64, true, false)
		res, err := e1BandCall(in, st.ifc, "AddChannel", f, lo, hi)
		if err != nil {
			c15Report(r, rule, key, in, err)
			continue
		}
		ev, ok := res[0].(*absint.ErrVal)
		if !ok {
			r.Unknown(rule, key, "", "an error result", in.Show(res[0]))
			continue
		}
		upA, dnA := snap("uplinkChannels"), snap("downlinkChannels")
		names := [5]string{"Frequency", "MinDR", "MaxDR", "custom", "enabled"}
		bad := ""
		same := func(a, b [][5]absint.Value, n int, what string) {
			for k := 0; k < n && bad == ""; k++ {
				for fi := 0; fi < 5; fi++ {
					if ok, w := sameValue(in, a[k][fi], b[k][fi], absint.True); !ok {
						bad = fmt.Sprintf("%s channel %d field %s changed: %s", what, k, names[fi], w)
					}
				}
			}
		}
		if name == "US915" {
			if ev.NonNil != absint.True {
				bad = "a band without extra-channel support accepts the channel"
			}
			if len(upA) != len(upB) || len(dnA) != len(dnB) {
				bad = "the tables changed their length"
			}
			same(upA, upB, len(upB), "uplink")
			same(dnA, dnB, len(dnB), "downlink")
			r.Check(bad == "", rule, key, "", "refused, tables untouched", bad, true)
			continue
		}
		if ev.NonNil != absint.False {
			bad = "fails for some arguments: " + in.Show(res[0])
		}
		if bad == "" && (len(upA) != len(upB)+1 || len(dnA) != len(dnB)+1) {
			bad = fmt.Sprintf("uplink %d -> %d entries, downlink %d -> %d entries", len(upB), len(upA), len(dnB), len(dnA))
		}
		if bad == "" {
			same(upA, upB, len(upB), "uplink")
			same(dnA, dnB, len(dnB), "downlink")
		}
		if bad == "" {
			nz := d.Bool(d.M.Not(d.Cmp(token.EQL, f, d.Const(0, 32, false))))
			want := [5]absint.Value{f, lo, hi, d.Bool(absint.True), nz}
			for _, t := range []struct {
				what string
				got  [5]absint.Value
			}{{"uplink", upA[len(upA)-1]}, {"downlink", dnA[len(dnA)-1]}} {
				for fi := 0; fi < 5 && bad == ""; fi++ {
					if ok, w := sameValue(in, t.got[fi], want[fi], absint.True); !ok {
						bad = fmt.Sprintf("new %s entry field %s: %s", t.what, names[fi], w)
					}
				}
			}
		}
		r.Check(bad == "", rule, key, "", "one custom entry (f, minDR, maxDR, enabled iff f != 0) appended to both tables, the rest untouched", bad, true)
	}
}

func c15Lookup(c *Ctx, b c15Band) {
	r := c.Run
	const rule = "R8.lookup"
	// by frequency and class
	{
		key := b.name + "/GetUplinkChannelIndex"
		st, err := c15Setup(c, b.name, b.extra, true)
		if err != nil {
			r.Unknown(rule, key, "", "band state inside the interpreter's subset", err.Error())
		} else {
			in, d := st.in, st.in.D
			up := c15Chans(st.base, "uplinkChannels")
			f := d.Sym("f", 32, false, true)
			def := d.Sym("defaultChannel", 1, false, false)
			res, err := e1BandCall(in, st.ifc, "GetUplinkChannelIndex", f, def)
			if err != nil {
				c15Report(r, rule, key, in, err)
			} else {
				ev, ok1 := res[1].(*absint.ErrVal)
				idx, ok2 := res[0].(*absint.Bits)
				if !ok1 || !ok2 {
					r.Unknown(rule, key, "", "(int, error)", in.Show(res[0]))
				} else {
					bad := ""
					any := absint.False
					okc := d.M.Not(ev.NonNil)
					inRange := absint.False
					for k, ch := range up {
						match := d.M.And(d.Cmp(token.EQL, f, ch.F["Frequency"].V.(*absint.Bits)), d.M.Xor(ch.F["custom"].V.(*absint.Bits).Bits()[0], def.Bits()[0]))
						any = d.M.Or(any, match)
						ck := d.Cmp(token.EQL, idx, d.Const(int64(k), idx.W, idx.Signed))
						inRange = d.M.Or(inRange, ck)
						if w := d.M.And(okc, d.M.And(ck, d.M.Not(match))); w != absint.False && bad == "" {
							bad = fmt.Sprintf("returns index %d for a frequency/class that channel %d does not have, e.g. %s", k, k, d.Witness(w))
						}
					}
					if w := d.M.And(okc, d.M.Not(inRange)); w != absint.False && bad == "" {
						bad = "returns an index outside the table, e.g. " + d.Witness(w)
					}
					if w := d.M.And(ev.NonNil, any); w != absint.False && bad == "" {
						bad = "fails although a channel matches, e.g. " + d.Witness(w)
					}
					r.Check(bad == "", rule, key, "", "a returned index designates a channel with that frequency and class; an error only when no channel matches", bad, true)
				}
			}
		}
	}
	// by frequency and data-rate
	{
		key := b.name + "/GetUplinkChannelIndexForFrequencyDR"
		st, err := c15Setup(c, b.name, b.extra, true)
		if err != nil {
			r.Unknown(rule, key, "", "band state inside the interpreter's subset", err.Error())
			return
		}
		in, d := st.in, st.in.D
		up := c15Chans(st.base, "uplinkChannels")
		f := d.Sym("f", 32, false, true)
		dr := d.Sym("dr", 8, false, false)
		drv := d.Resize(dr, 64, true)
		var res []absint.Value
		var ferr error
		done := false
		forParts(in, absint.True, 10, func(dom absint.Node, tag string) error {
			in.SetLive(dom)
			rs, err := e1BandCall(in, st.ifc, "GetUplinkChannelIndexForFrequencyDR", f, drv)
			if err != nil {
				return err
			}
			res = rs
			ev, ok1 := res[1].(*absint.ErrVal)
			idx, ok2 := res[0].(*absint.Bits)
			if !ok1 || !ok2 {
				return fmt.Errorf("result is %s", in.Show(res[0]))
			}
			bad := ""
			okc := d.M.And(dom, d.M.Not(ev.NonNil))
			inRange := absint.False
			for k, ch := range up {
				lo := d.Resize(ch.F["MinDR"].V.(*absint.Bits), 64, true)
				hi := d.Resize(ch.F["MaxDR"].V.(*absint.Bits), 64, true)
				match := d.M.And(d.Cmp(token.EQL, f, ch.F["Frequency"].V.(*absint.Bits)), d.M.And(d.Cmp(token.LEQ, lo, drv), d.Cmp(token.LEQ, drv, hi)))
				ck := d.Cmp(token.EQL, idx, d.Const(int64(k), idx.W, idx.Signed))
				inRange = d.M.Or(inRange, ck)
				if w := d.M.And(okc, d.M.And(ck, d.M.Not(match))); w != absint.False && bad == "" {
					bad = fmt.Sprintf("returns index %d although channel %d does not have that frequency and data-rate, e.g. %s", k, k, d.Witness(w))
				}
			}
			if w := d.M.And(okc, d.M.Not(inRange)); w != absint.False && bad == "" {
				bad = "returns an index outside the table, e.g. " + d.Witness(w)
			}
			// the default channel at 868.3 MHz carries DR0-5 and the added one DR6: both must be found
			for _, probe := range [][2]int64{{b.shared, b.drIn}, {b.extra[2][0], b.extra[2][1]}, {b.fresh, 0}} {
				pc := d.M.And(dom, d.M.And(d.Cmp(token.EQL, f, d.Const(probe[0], 32, false)), d.Cmp(token.EQL, dr, d.Const(probe[1], 8, false))))
				if w := d.M.And(pc, ev.NonNil); w != absint.False && bad == "" {
					bad = fmt.Sprintf("frequency %d with DR%d is not found although a channel carries it", probe[0], probe[1])
				}
			}
			r.Check(bad == "", rule, key+tag, "", "a returned index designates a channel with that frequency whose data-rate range contains dr; the two channels sharing 868.3 MHz are both found", bad, true)
			done = true
			return nil
		}, func(tag string, e error) {
			ferr = e
			c15Report(r, rule, key+tag, in, e)
		})
		_ = done
		_ = ferr
	}
}

var _ = types.Typ
