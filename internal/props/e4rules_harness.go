package props

// E4RULES is a harness, not a property: it runs the three reusable E4 rules (C09-R3, C07-R6,
// C16-R7) under neutral rule ids so that they can be exercised against seeds and mutants
// (`./scripts/seedtest C09-B E4RULES`) before the owning property files call them.
func init() {
	Register("E4RULES", func(c *Ctx) {
		c.Run.Explanation = "harness for the reusable effect rules (not a property)"
		ruleNoInputWrite(c, "noinputwrite", nil)
		ruleRegistryWriters(c, "registrywriters")
		ruleStateless(c, "stateless", c.Prog.SSAFunc("backend/joinserver", "handler.ServeHTTP"))
		e4Fixture(c, "fixture")
	})
}
