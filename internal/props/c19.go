package props

import (
	"fmt"
	"go/token"
	"go/types"
	"strings"

	"golang.org/x/tools/go/ssa"

	"lwverif/internal/effects"
	"lwverif/internal/guards"
)

// C19 — fragmentation encoder (partial, DESIGN §3 C19).
//   R1  invalid sizes are errors, not panics: every div/mod/make/index/slice obligation of Encode and its callees
//       (matrixLine, prbs23, isPower2) is discharged; loops progress (the PRBS retry loop is declined).
//   R2  systematic prefix: the returned rows start with data[i*fs:(i+1)*fs] appended in order, never rewritten.
//   R3  shape: every successful return has at least len(data)/fragmentSize + redundancy rows.
//   R4  selectable rows: the row index set by matrixLine is not provably bounded away from 0 or from m-1.
// Declined: PRBS23 / parity-matrix equality with TS004, linearity, decodability (numerical behaviour).

func init() { Register("C19", checkC19) }

// c19ExcludedLoop: the PRBS retry loop (the loop that draws from prbs23 until the value falls below the column count),
// wherever it lives: its termination is a numerical property of the generator (declined in DESIGN §3 C19).
func c19ExcludedLoop(lp guards.LoopRes) string {
	if lp.RetryRem {
		return "termination of the pseudo-random re-draw loop (r = generator() % n until r < m) is a numerical property of the generator (declined in DESIGN §3 C19)"
	}
	for _, n := range lp.Calls {
		if n == "prbs23" {
			return "termination of the PRBS retry loop is a numerical property of the generator (declined in DESIGN §3 C19)"
		}
	}
	return ""
}

func checkC19(c *Ctx) {
	r := c.Run
	P := c.Prog
	r.Rule("R1.guarded", "every div/mod/make/index/slice/shift in Encode, matrixLine, prbs23, isPower2 is discharged (fragmentSize <= 0 must be an error, not a panic)")
	r.Rule("R1.progress", "loops of the encoder advance towards an invariant bound")
	r.Rule("R2.prefix", "the result starts with the rows data[i*fs:(i+1)*fs] appended in order and never written afterwards")
	r.Rule("R3.count", "every successful return carries at least len(data)/fragmentSize + redundancy rows")
	// R2/R3 recognise one way of writing the row loop; where the bit-level rule R6 decided the whole encoder on its grid,
	// an unrecognised shape carries no information (their refutations still count)
	r.Advisory("R2.prefix", "R6.parity")
	r.Advisory("R3.count", "R6.parity")
	// R6.matrix needs a function matrixLine(n, m); where it is gone the parity rule still decides the lines Encode uses
	r.Advisory("R6.matrix", "R6.parity")
	// R5 needs functions isPower2(int) and prbs23(int); where the generator is written differently the matrix it
	// produces is still decided line by line (R6.matrix) and through the encoder (R6.parity)
	r.Advisory("R5.helpers", "R6.matrix", "R6.parity")
	r.Rule("R4.rows", "the row index selected by matrixLine is not provably >= 1 (or >= mm) nor provably <= m-2: every row stays selectable")
	r.Explanation = "E3 obligations over fragmentation.Encode and callees; R2/R3 are def-use and linear-fact arguments on the SSA of Encode; the pure helpers isPower2 and prbs23 are decided for all inputs by the bit-level engine (R5); for a grid of fragment counts and sizes the whole encoder is interpreted on symbolic data and compared with an independent transcription of the parity matrix (R6); the encoder keeps no state (R7); recoverability (rank of the matrix) is declined"
	guardsSelfTest(c, "R9.selftest")
	enc := P.SSAFunc("applayer/fragmentation", "Encode")
	ml := P.SSAFunc("applayer/fragmentation", "matrixLine")
	if enc == nil {
		r.Unknown("R1.guarded", "applayer/fragmentation.Encode", "", "anchor function Encode exists", "missing")
		return
	}
	// R4 looks at one function by name; the lines Encode really uses are decided by R6.parity
	r.Advisory("R4.rows", "R6.parity")
	rule := func(kind string) string {
		switch kind {
		case "nil", "extern":
			return "" // not part of the claim
		}
		return "R1.guarded"
	}
	runGuards(c, []*ssa.Function{enc}, guardsOpts{rule: rule, loopRule: "R1.progress", excludedLoop: c19ExcludedLoop, rootsCat: "encoder roots"})
	E := guardsEngine(P)
	a := E.AnalyzeCtx(enc)
	if a == nil || !a.Converged {
		r.Unknown("R2.prefix", "applayer/fragmentation.Encode", P.Rel(enc.Pos()), "analysis converges", "not converged")
		return
	}
	c19Prefix(c, a, enc)
	c19Count(c, a, enc)
	if ml != nil {
		c19Rows(c, E, ml)
	} else {
		r.Unknown("R4.rows", "applayer/fragmentation.matrixLine/row index", "", "a function matrixLine to look at", "no function of that name")
	}
	c19Helpers(c)
	c19Parity(c)
	c19Matrix(c)
	ruleStatelessGlobals(c, "R7.stateless", enc)
	r.Assumptions = guardsAssumptions
}

func isNilConstValue(v ssa.Value) bool {
	k, ok := v.(*ssa.Const)
	return ok && k.Value == nil
}

// guardAppendedElems: the element values of `append(base, e1, e2…)` (varargs array) — nil if not that shape.
func guardAppendedElems(call *ssa.Call) (base ssa.Value, elems []ssa.Value, ok bool) {
	b, isB := call.Call.Value.(*ssa.Builtin)
	if !isB || b.Name() != "append" || len(call.Call.Args) != 2 {
		return nil, nil, false
	}
	sl, isS := call.Call.Args[1].(*ssa.Slice)
	if !isS {
		return nil, nil, false
	}
	al, isA := sl.X.(*ssa.Alloc)
	if !isA {
		return nil, nil, false
	}
	for _, ref := range *al.Referrers() {
		ia, isI := ref.(*ssa.IndexAddr)
		if !isI {
			continue
		}
		for _, rr := range *ia.Referrers() {
			if st, isSt := rr.(*ssa.Store); isSt && st.Addr == ssa.Value(ia) {
				elems = append(elems, st.Val)
			}
		}
	}
	return call.Call.Args[0], elems, len(elems) > 0
}

// c19Prefix: R2.
func c19Prefix(c *Ctx, a *guards.FuncAn, enc *ssa.Function) {
	r := c.Run
	P := c.Prog
	const key = "applayer/fragmentation.Encode/result rows"
	fs := enc.Params[1]
	base, app, elem := c19FindRows(a, enc)
	if base == nil {
		r.Unknown("R2.prefix", key, P.Rel(enc.Pos()), "a loop that appends slices of the input to an initially empty row list", "shape not recognised")
		return
	}
	sl := a.Canon(elem).(*ssa.Slice)
	pos := P.Rel(sl.Pos())
	// (b) the appended element is data[i*fs : i*fs+fs] where i equals the number of rows appended so far
	var idx ssa.Value
	if sl.Low != nil {
		if mul, ok := sl.Low.(*ssa.BinOp); ok && mul.Op == token.MUL {
			switch {
			case a.Canon(mul.Y) == ssa.Value(fs):
				idx = mul.X
			case a.Canon(mul.X) == ssa.Value(fs):
				idx = mul.Y
			}
		}
	}
	width := guards.Lin{}
	if sl.High != nil && sl.Low != nil {
		width = guards.Sub(a.Lin(sl.High), a.Lin(sl.Low))
	}
	okWidth := sl.High != nil && sl.Low != nil && guards.SameLin(width, a.Lin(fs))
	switch {
	case idx != nil && sl.High != nil:
		blk := app.Block()
		okPos := a.EntailsEq(blk, guards.Sub(a.LenOf(base), a.Lin(idx)))
		got := fmt.Sprintf("appended element %s; width = %s; position: len(rows) - index == 0 entailed=%v", guardClip(sl.String()), width.String(), okPos)
		r.Check(okWidth && okPos, "R2.prefix", key+"/element", pos, "row i is data[i*fs:(i+1)*fs] and is appended at position i", got, true)
	case sl.Low != nil && sl.High != nil:
		_, okStride := c19Strided(a, base, sl.Low, fs)
		if !okStride {
			r.Unknown("R2.prefix", key, pos, "row i is data[i*fragmentSize : i*fragmentSize+fragmentSize]", "low bound is neither index*fragmentSize nor a counter advancing by fragmentSize in lock-step with the row list")
			return
		}
		got := fmt.Sprintf("appended element %s; width = %s; low bound starts at 0 and advances by fragmentSize once per appended row", guardClip(sl.String()), width.String())
		r.Check(okWidth, "R2.prefix", key+"/element", pos, "row i is data[i*fs:(i+1)*fs] and is appended at position i", got, true)
	default:
		r.Unknown("R2.prefix", key, pos, "row i is data[i*fragmentSize : i*fragmentSize+fragmentSize]", "slice bounds not recognised")
		return
	}
	// (c) every successful return value extends that list by appends only
	nret := 0
	for _, b := range enc.Blocks {
		ret, ok := b.Instrs[len(b.Instrs)-1].(*ssa.Return)
		if !ok || !a.ReachableBlock(b) {
			continue
		}
		if !isNilConstValue(a.Canon(ret.Results[1])) {
			continue
		}
		nret++
		ok2, why := c19ExtendsFrom(a, ret.Results[0], base, map[ssa.Value]bool{})
		r.Check(ok2, "R2.prefix", key+"/return", P.Rel(ret.Pos()), "returned rows extend the data rows by append only", why, true)
	}
	if nret == 0 {
		r.Unknown("R2.prefix", key+"/return", P.Rel(enc.Pos()), "a successful return", "none found")
	}
	// (d) nothing writes into a row after it was appended: no element store into [][]byte, every byte store
	// targets a slice freshly made in this function, and no callee receives the data or the rows
	okWrites, why := true, "stores: "
	nst := 0
	for _, f := range []*ssa.Function{enc} {
		for _, b := range f.Blocks {
			for _, ins := range b.Instrs {
				switch x := ins.(type) {
				case *ssa.Store:
					ia, ok := x.Addr.(*ssa.IndexAddr)
					if !ok {
						continue
					}
					if _, isAlloc := ia.X.(*ssa.Alloc); isAlloc {
						continue // varargs of append
					}
					nst++
					if _, fresh := a.Canon(ia.X).(*ssa.MakeSlice); !fresh {
						okWrites = false
						why += fmt.Sprintf("store into %s at %s is not into a freshly made slice; ", ia.X.Name(), P.Rel(x.Pos()))
					}
				case ssa.CallInstruction:
					if _, isB := x.Common().Value.(*ssa.Builtin); isB {
						if x.Common().Value.Name() == "copy" {
							if _, fresh := a.Canon(x.Common().Args[0]).(*ssa.MakeSlice); !fresh {
								okWrites = false
								why += "copy into a non-fresh slice at " + P.Rel(x.Pos()) + "; "
							}
						}
						continue
					}
					for ai, arg := range x.Common().Args {
						switch arg.Type().Underlying().(type) {
						case *types.Slice, *types.Pointer:
							if _, fresh := a.Canon(arg).(*ssa.MakeSlice); fresh {
								continue // a buffer made in this function may be filled by a helper
							}
							if callee := x.Common().StaticCallee(); callee != nil && c19CalleeReadsOnly(c, callee, ai) {
								continue
							}
							okWrites = false
							why += "slice/pointer passed to " + x.Common().Value.Name() + " at " + P.Rel(x.Pos()) + " (callee may write through it); "
						}
					}
				}
			}
		}
	}
	if okWrites {
		r.OK("R2.prefix", key+"/no-rewrite", P.Rel(enc.Pos()), "rows are never written after being appended", fmt.Sprintf("%s%d element stores, all into fresh make() slices", why, nst), true)
	} else {
		// a store whose target this rule cannot tell apart from a data row: not a refutation (what Encode returns is
		// decided for all data by R6.parity)
		r.Unknown("R2.prefix", key+"/no-rewrite", P.Rel(enc.Pos()), "rows are never written after being appended", why)
	}
}

// c19FindRows finds the row-building loop: a phi B = φ(empty, append(B, elem)) of the result type whose appended
// element is a slice of the input.
func c19FindRows(a *guards.FuncAn, enc *ssa.Function) (base *ssa.Phi, app *ssa.Call, elem ssa.Value) {
	data := enc.Params[0]
	for _, b := range enc.Blocks {
		for _, ins := range b.Instrs {
			phi, ok := ins.(*ssa.Phi)
			if !ok {
				break
			}
			if !types.Identical(phi.Type(), enc.Signature.Results().At(0).Type()) || len(phi.Edges) != 2 {
				continue
			}
			for i, e := range phi.Edges {
				call, ok := a.Canon(e).(*ssa.Call)
				if !ok {
					continue
				}
				bs, els, ok := guardAppendedElems(call)
				if !ok || a.Canon(bs) != ssa.Value(phi) || len(els) != 1 {
					continue
				}
				other := a.Canon(phi.Edges[1-i])
				if !(isNilConstValue(other) || guards.SameLin(a.LenOf(other), guards.Konst(0))) {
					continue
				}
				if sl, ok := a.Canon(els[0]).(*ssa.Slice); ok && a.Canon(sl.X) == ssa.Value(data) {
					base, app, elem = phi, call, els[0]
				}
			}
		}
	}
	return
}

// c19Strided: the low bound of the appended slice is a counter of the same loop head as the row list that starts at 0
// where the list starts empty and advances by fragmentSize on the edge on which one row is appended: by induction the
// k-th appended row starts at k*fragmentSize (lock-step counters).
func c19Strided(a *guards.FuncAn, base *ssa.Phi, low ssa.Value, fs ssa.Value) (*ssa.Phi, bool) {
	lp, ok := a.Canon(low).(*ssa.Phi)
	if !ok || lp.Block() != base.Block() || len(lp.Edges) != 2 {
		return nil, false
	}
	for i := range base.Edges {
		_, isAppend := a.Canon(base.Edges[i]).(*ssa.Call)
		e := a.Canon(lp.Edges[i])
		if isAppend {
			bo, ok := e.(*ssa.BinOp)
			if !ok || bo.Op != token.ADD {
				return nil, false
			}
			if !((a.Canon(bo.X) == ssa.Value(lp) && a.Canon(bo.Y) == fs) || (a.Canon(bo.Y) == ssa.Value(lp) && a.Canon(bo.X) == fs)) {
				return nil, false
			}
		} else {
			k, ok := e.(*ssa.Const)
			if !ok || k.Value == nil || k.Int64() != 0 {
				return nil, false
			}
		}
	}
	return lp, true
}

// c19ExtendsFrom: v is base, an append onto something that extends base, or a phi of such values.
func c19ExtendsFrom(a *guards.FuncAn, v ssa.Value, base *ssa.Phi, seen map[ssa.Value]bool) (bool, string) {
	v = a.Canon(v)
	if v == ssa.Value(base) {
		return true, "reaches the data-row list"
	}
	if seen[v] {
		return true, "cycle through a loop phi"
	}
	seen[v] = true
	switch x := v.(type) {
	case *ssa.Phi:
		for _, e := range x.Edges {
			if ok, why := c19ExtendsFrom(a, e, base, seen); !ok {
				return false, why
			}
		}
		return true, "phi of append chains over the data-row list"
	case *ssa.Call:
		if bs, _, ok := guardAppendedElems(x); ok {
			return c19ExtendsFrom(a, bs, base, seen)
		}
		if b, isB := x.Call.Value.(*ssa.Builtin); isB && b.Name() == "append" {
			return c19ExtendsFrom(a, x.Call.Args[0], base, seen)
		}
	}
	return false, fmt.Sprintf("value %s (%T) is not an append chain over the data-row list", v.Name(), v)
}

// c19Count: R3.
func c19Count(c *Ctx, a *guards.FuncAn, enc *ssa.Function) {
	r := c.Run
	P := c.Prog
	const key = "applayer/fragmentation.Encode/row count"
	data, fs, red := enc.Params[0], enc.Params[1], enc.Params[2]
	var q *ssa.BinOp
	for _, b := range enc.Blocks {
		for _, ins := range b.Instrs {
			if bo, ok := ins.(*ssa.BinOp); ok && bo.Op == token.QUO &&
				guards.SameLin(a.Lin(bo.X), a.LenOf(data)) && guards.SameLin(a.Lin(bo.Y), a.Lin(fs)) {
				q = bo
			}
		}
	}
	var strideBase *ssa.Phi
	if q == nil {
		// strided form: `for off := 0; off < len(data); off += fragmentSize { rows = append(rows, data[off:off+fs]) }`.
		// The loop leaves only when off >= len(data) and off = fs*len(rows) (lock-step), so len(rows) >= len(data)/fs
		// at its exit; the obligation is then stated relative to the row list at that exit.
		base, _, elem := c19FindRows(a, enc)
		if base != nil {
			if sl, ok := a.Canon(elem).(*ssa.Slice); ok && sl.Low != nil {
				if lp, ok := c19Strided(a, base, sl.Low, fs); ok {
					if br, ok := base.Block().Instrs[len(base.Block().Instrs)-1].(*ssa.If); ok {
						if cmp, ok := br.Cond.(*ssa.BinOp); ok && cmp.Op == token.LSS && a.Canon(cmp.X) == ssa.Value(lp) && guards.SameLin(a.Lin(cmp.Y), a.LenOf(data)) {
							strideBase = base
						}
					}
				}
			}
		}
		if strideBase == nil {
			r.Unknown("R3.count", key, P.Rel(enc.Pos()), "the fragment count len(data)/fragmentSize is computed, or the rows are cut by a counter advancing by fragmentSize while it is below len(data)", "neither form found")
			return
		}
	}
	n := 0
	for _, b := range enc.Blocks {
		ret, ok := b.Instrs[len(b.Instrs)-1].(*ssa.Return)
		if !ok || !a.ReachableBlock(b) || !isNilConstValue(a.Canon(ret.Results[1])) {
			continue
		}
		n++
		var goal guards.Lin
		if q != nil {
			goal = guards.Sub(guards.Sub(a.LenOf(ret.Results[0]), a.Lin(q)), a.Lin(red))
		} else {
			goal = guards.Sub(guards.Sub(a.LenOf(ret.Results[0]), a.LenOf(strideBase)), a.Lin(red))
		}
		ok2 := a.Entails(b, goal)
		got := "len(result) - (number of data rows) - redundancy >= 0 from " + a.FactsText(b, goal)
		if !ok2 {
			got = "cannot show " + goal.String() + " >= 0; facts: " + a.FactsText(b, goal)
			if why, un := a.Untracked(b, goal); un {
				// the rows are built by a worker whose result length no summary describes: not a verdict
				r.Unknown("R3.count", key+"/return", P.Rel(ret.Pos()), "len(result) >= len(data)/fragmentSize + redundancy on a successful return", "depends on "+why)
				continue
			}
		}
		r.Check(ok2, "R3.count", key+"/return", P.Rel(ret.Pos()), "len(result) >= len(data)/fragmentSize + redundancy on a successful return", got, true)
	}
	if n == 0 {
		r.Unknown("R3.count", key, P.Rel(enc.Pos()), "a successful return", "none found")
	}
}

// c19Rows: R4.
func c19Rows(c *Ctx, E *guards.Engine, ml *ssa.Function) {
	r := c.Run
	P := c.Prog
	const key = "applayer/fragmentation.matrixLine/row index"
	a := E.AnalyzeCtx(ml)
	if a == nil || !a.Converged {
		r.Unknown("R4.rows", key, P.Rel(ml.Pos()), "analysis converges", "not converged")
		return
	}
	// the stores into the returned line
	n := 0
	for _, b := range ml.Blocks {
		for _, ins := range b.Instrs {
			st, ok := ins.(*ssa.Store)
			if !ok {
				continue
			}
			ia, ok := st.Addr.(*ssa.IndexAddr)
			if !ok || !a.ReachableBlock(b) {
				continue
			}
			if _, isMake := a.Canon(ia.X).(*ssa.MakeSlice); !isMake {
				continue
			}
			n++
			idx := a.Lin(ia.Index)
			ln := a.LenOf(ia.X)
			var bad []string
			if a.Entails(b, idx.Plus(-1)) {
				bad = append(bad, "index >= 1 is provable: row 0 can never be selected")
			}
			// offsets that are 1 on some configuration: integer phis whose incoming values are the constants 0/1
			for _, bb := range ml.Blocks {
				for _, in2 := range bb.Instrs {
					phi, ok := in2.(*ssa.Phi)
					if !ok {
						break
					}
					pos1 := false
					allConst := true
					for _, e := range phi.Edges {
						k, ok := guards.ConstInt(e)
						if !ok {
							allConst = false
						} else if k > 0 {
							pos1 = true
						}
					}
					if allConst && pos1 && a.Entails(b, guards.Sub(idx, a.Lin(phi))) {
						bad = append(bad, fmt.Sprintf("index >= %s is provable and %s is positive on some path: row 0 cannot be selected there", phi.Comment, phi.Comment))
					}
				}
			}
			if a.Entails(b, guards.Sub(ln, idx).Plus(-2)) {
				bad = append(bad, "index <= len-2 is provable: the last row can never be selected")
			}
			k := key + " " + strings.TrimSpace(guardClip(guardExprText(ml, ia.Pos())))
			if len(bad) > 0 {
				r.Bad("R4.rows", k, P.Rel(st.Pos()), "the selected row ranges over 0..m-1", strings.Join(bad, "; "))
			} else {
				r.OK("R4.rows", k, P.Rel(st.Pos()), "the selected row ranges over 0..m-1", "no positive lower offset and no gap below m-1 is derivable for "+idx.String(), true)
			}
		}
	}
	if n == 0 {
		r.Unknown("R4.rows", key, P.Rel(ml.Pos()), "matrixLine stores into the line it returns", "no such store found")
	}
}

func guardClip(s string) string {
	if len(s) > 80 {
		return s[:77] + "..."
	}
	return s
}

func guardExprText(f *ssa.Function, pos token.Pos) string { return guards.ExprAt(f, pos) }

// c19CalleeReadsOnly: the effect summary of the module function callee has no write, append or opaque escape through
// its parameter i.
func c19CalleeReadsOnly(c *Ctx, callee *ssa.Function, i int) bool {
	info := effectsFor(c.Prog)
	sum := info.A.Sums[callee]
	if sum == nil {
		return false
	}
	for _, m := range []map[string][]*effects.Effect{sum.Writes, sum.Appends, sum.Opaque} {
		for l := range m {
			if effects.ParamIndex(l) == i {
				return false
			}
		}
	}
	return true
}
