package props

import (
	"fmt"
	"go/token"
	"go/types"
	"strings"

	"lwverif/internal/absint"
)

// c16Inputs is a symbolic join-request as the HTTP handler hands it to the join-server core.
type c16Inputs struct {
	req, dk                         absint.Value
	asLabel, nsLabel                *absint.StrVal
	asKEK, nsKEK                    *absint.Slice
	dom                             absint.Node
	joinEUI, devEUI, devAddr, netID []absint.Value // wire order (little endian) for the EUIs; DevAddr/NetID as arrays
	devNonce                        *absint.Bits
	mic, micDelta                   []absint.Value
	micOK                           absint.Node
	nwkKey, appKey                  []absint.Value
	joinNonce                       *absint.Bits
	optNeg                          absint.Node
	rx2dr, rx1off, rxDelay          *absint.Bits
	cfList                          []absint.Value
	txID                            *absint.Bits
	phy                             []absint.Value
	rejoin                          int
}

func c16SetField(v absint.Value, path []string, nv absint.Value) error {
	for i, f := range path {
		st, ok := v.(*absint.Struct)
		if !ok {
			return fmt.Errorf("%v: not a struct at %s", path, f)
		}
		c := st.F[f]
		if c == nil {
			return fmt.Errorf("%v: no field %s", path, f)
		}
		if i == len(path)-1 {
			c.V = nv
			return nil
		}
		v = c.V
	}
	return nil
}

func c16Bytes(vs []absint.Value) *absint.Slice {
	bk := &absint.Backing{}
	for _, v := range vs {
		bk.E = append(bk.E, &absint.Cell{V: v})
	}
	return &absint.Slice{Back: bk, Hi: len(vs), Cap: len(vs), Elem: types.Typ[types.Uint8]}
}

// c16JoinInputs builds the request: join-request frame MHDR | JoinEUI | DevEUI | DevNonce | MIC (all symbolic), the
// answer parameters (DevAddr, DLSettings, RxDelay, optional CFList), device keys with a symbolic JoinNonce, and KEKs.
func c16JoinInputs(in *absint.Interp, withCFList, asKEK, nsKEK bool) (*c16Inputs, error) {
	return c16Inputs2(in, -1, withCFList, asKEK, nsKEK)
}

// c16Inputs2: rejoin < 0 builds a join-request, 0/1/2 a rejoin-request of that type.
func c16Inputs2(in *absint.Interp, rejoin int, withCFList, asKEK, nsKEK bool) (*c16Inputs, error) {
	return c16Inputs3(in, rejoin, rejoin, withCFList, asKEK, nsKEK)
}

// c16Inputs3: frameKind is the kind of frame the request carries (-1 join-request, 0/1/2 rejoin-request of that type);
// it differs from the flow (rejoin) only in the wrong-kind configurations.
func c16Inputs3(in *absint.Interp, rejoin, frameKind int, withCFList, asKEK, nsKEK bool) (*c16Inputs, error) {
	d := in.D
	st := &c16Inputs{dom: absint.True}
	const bk = "backend"
	RT := in.NamedType(bk, "JoinReqPayload")
	if rejoin >= 0 {
		RT = in.NamedType(bk, "RejoinReqPayload")
	}
	st.rejoin = rejoin
	DT := in.NamedType("backend/joinserver", "DeviceKeys")
	if RT == nil || DT == nil {
		return nil, fmt.Errorf("JoinReqPayload / DeviceKeys not found")
	}
	symBytes := func(name string, n int) []absint.Value {
		sl := in.SymBytes(name, n)
		var out []absint.Value
		for i := 0; i < n; i++ {
			out = append(out, sl.At(i).V)
		}
		return out
	}
	arrayOf := func(vs []absint.Value) *absint.Array {
		a := &absint.Array{Elem: types.Typ[types.Uint8]}
		for _, v := range vs {
			a.E = append(a.E, &absint.Cell{V: v})
		}
		return a
	}
	rev := func(vs []absint.Value) []absint.Value {
		out := make([]absint.Value, len(vs))
		for i, v := range vs {
			out[len(vs)-1-i] = v
		}
		return out
	}
	// the frame carries the JoinEUI the request is addressed to (ReceiverID 0807060504030201), least significant byte first
	for i := 1; i <= 8; i++ {
		st.joinEUI = append(st.joinEUI, d.Const(int64(i), 8, false))
	}
	st.devEUI = symBytes("devEUIwire", 8)
	st.devNonce = d.Sym("devNonce", 16, false, false)
	st.nwkKey = symBytes("nwkKey", 16)
	st.netID = []absint.Value{d.Const(1, 8, false), d.Const(2, 8, false), d.Const(3, 8, false)}
	switch frameKind {
	case 0, 2:
		// MHDR | type | NetID | DevEUI | RJcount0
		st.phy = []absint.Value{d.Const(0xc0, 8, false), d.Const(int64(frameKind), 8, false), st.netID[2], st.netID[1], st.netID[0]}
	case 1:
		// MHDR | type | JoinEUI | DevEUI | RJcount1
		st.phy = append([]absint.Value{d.Const(0xc0, 8, false), d.Const(1, 8, false)}, st.joinEUI...)
	default:
		st.phy = append([]absint.Value{d.Const(0x00, 8, false)}, st.joinEUI...)
	}
	st.phy = append(st.phy, st.devEUI...)
	st.phy = append(st.phy, leBytes(st.devNonce, 2)...)
	// the MIC the specification prescribes (aes128_cmac(NwkKey, MHDR | JoinEUI | DevEUI | DevNonce)[0..3]) xor a free
	// difference: the request carries a correct MIC exactly when the difference is zero
	cm := in.OpaqueBytes("CMAC", [][]absint.Value{st.nwkKey, append([]absint.Value{}, st.phy...)}, 16, "CMAC")
	st.micDelta = symBytes("micDelta", 4)
	st.micOK = absint.True
	for i := 0; i < 4; i++ {
		st.mic = append(st.mic, d.Bitwise(token.XOR, cm[i].(*absint.Bits), st.micDelta[i].(*absint.Bits)))
		st.micOK = d.M.And(st.micOK, d.Cmp(token.EQL, st.micDelta[i].(*absint.Bits), d.Const(0, 8, false)))
	}
	st.phy = append(st.phy, st.mic...)
	req := in.Zero(RT)
	st.req = req
	set := func(path []string, v absint.Value) error { return c16SetField(req, path, v) }
	st.txID = d.Sym("transactionID", 32, false, false)
	st.devAddr = symBytes("devAddr", 4)
	st.optNeg = d.Sym("optNeg", 1, false, false).Bits()[0]
	st.rx2dr = d.Sym("rx2dr", 4, false, false)
	st.rx1off = d.Sym("rx1off", 3, false, false)
	st.rxDelay = d.Sym("rxDelay", 4, false, false)
	errs := []error{
		set([]string{"BasePayload", "ProtocolVersion"}, &absint.StrVal{Known: true, S: "1.0"}),
		set([]string{"BasePayload", "SenderID"}, &absint.StrVal{Known: true, S: "010203"}),
		set([]string{"BasePayload", "ReceiverID"}, &absint.StrVal{Known: true, S: "0807060504030201"}),
		set([]string{"BasePayload", "TransactionID"}, st.txID),
		set([]string{"BasePayload", "MessageType"}, &absint.StrVal{Known: true, S: map[bool]string{true: "RejoinReq", false: "JoinReq"}[rejoin >= 0]}),
		set([]string{"MACVersion"}, &absint.StrVal{Known: true, S: "1.1.0"}),
		set([]string{"PHYPayload"}, c16Bytes(st.phy)),
		set([]string{"DevEUI"}, arrayOf(rev(st.devEUI))),
		set([]string{"DevAddr"}, arrayOf(st.devAddr)),
		set([]string{"DLSettings", "OptNeg"}, d.Bool(st.optNeg)),
		set([]string{"DLSettings", "RX2DataRate"}, d.Resize(st.rx2dr, 8, false)),
		set([]string{"DLSettings", "RX1DROffset"}, d.Resize(st.rx1off, 8, false)),
		set([]string{"RxDelay"}, d.Resize(st.rxDelay, 64, true)),
	}
	if withCFList {
		// a channel CFList: five 24-bit frequencies and type 0
		st.cfList = append(symBytes("cflist", 15), d.Const(0, 8, false))
		errs = append(errs, set([]string{"CFList"}, c16Bytes(st.cfList)))
	}
	for _, e := range errs {
		if e != nil {
			return nil, e
		}
	}
	dk := in.Zero(DT)
	st.dk = dk
	st.appKey = symBytes("appKey", 16)
	st.joinNonce = d.Sym("joinNonce", 32, false, false)
	for _, e := range []error{
		c16SetField(dk, []string{"DevEUI"}, arrayOf(rev(st.devEUI))),
		c16SetField(dk, []string{"NwkKey"}, arrayOf(st.nwkKey)),
		c16SetField(dk, []string{"AppKey"}, arrayOf(st.appKey)),
		c16SetField(dk, []string{"JoinNonce"}, d.Resize(st.joinNonce, 64, true)),
	} {
		if e != nil {
			return nil, e
		}
	}
	st.asLabel, st.nsLabel = &absint.StrVal{Known: true}, &absint.StrVal{Known: true}
	st.asKEK, st.nsKEK = c16Bytes(nil), c16Bytes(nil)
	if asKEK {
		st.asLabel = &absint.StrVal{Known: true, S: "as-kek"}
		st.asKEK = c16Bytes(symBytes("asKEK", 16))
	}
	if nsKEK {
		st.nsLabel = &absint.StrVal{Known: true, S: "ns-kek"}
		st.nsKEK = c16Bytes(symBytes("nsKEK", 16))
	}
	_ = token.ADD
	return st, nil
}

// c16JoinE1 (rules C16-R9.join-e1 / R9.rejoin-e1): the join-server cores handleJoinRequestWrapper and
// handleRejoinRequestWrapper interpreted end to end on a symbolic request, AES / CMAC / key wrap as uninterpreted
// functions, compared with the device side transcribed from the LoRaWAN 1.0.x / 1.1 specification:
//   - join: wrong MIC -> MICFailed; correct MIC and JoinNonce >= 2^24 -> Other; otherwise Success
//     (rejoin: JoinNonce >= 2^24 -> Other, otherwise Success);
//   - every answer mirrors SenderID/ReceiverID/TransactionID and is a JoinAns / RejoinAns of protocol 1.0;
//   - Success: PHYPayload = MHDR(join-accept) | aes128_decrypt(K, JoinNonce | NetID | DevAddr | DLSettings |
//     RxDelay | [CFList] | MIC), K = NwkKey (join) / JSEncKey (rejoin), with the MIC of the answering LoRaWAN version,
//     i.e. exactly what the device decrypts and verifies; the session keys in the envelopes (clear, or wrapped under the
//     AS / NS KEK with its label) are the keys the device derives for the OptNeg bit the join-accept carries.
//
// Independent of the task lists, the context struct and every helper of the package.
func c16JoinE1(c *Ctx) {
	r := c.Run
	r.Rule("R9.join-e1", "handleJoinRequestWrapper (E1, symbolic request, keys, nonces; crypto uninterpreted): MICFailed / Other / Success exactly as specified; every answer mirrors the request's ids; on Success the join-accept is what the device decrypts and verifies and the enveloped session keys are the ones it derives (1.0 / 1.1 by OptNeg; clear or wrapped per KEK label)")
	r.Rule("R9.rejoin-e1", "handleRejoinRequestWrapper (E1, rejoin types 0/1/2): Other for JoinNonce >= 2^24, else Success with the join-accept a 1.1 device decrypts (JSEncKey) and verifies (JSIntKey, rejoin type, RJcount), ids mirrored, and the session keys the device derives for the answer's OptNeg bit")
	type cfgT struct{ cf, as, ns bool }
	for _, rejoin := range []int{-1, 0, 1, 2} {
		rule, fn, flow := "R9.join-e1", "handleJoinRequestWrapper", "join"
		if rejoin >= 0 {
			rule, fn, flow = "R9.rejoin-e1", "handleRejoinRequestWrapper", fmt.Sprintf("rejoin%d", rejoin)
		}
		cfgs := []cfgT{{false, false, false}, {true, true, true}, {false, true, false}, {true, false, true}}
		if rejoin >= 0 {
			cfgs = []cfgT{{false, false, false}, {true, true, true}}
		}
		if c.Tier == "thorough" {
			cfgs = nil
			for _, cf := range []bool{false, true} {
				for _, as := range []bool{false, true} {
					for _, ns := range []bool{false, true} {
						cfgs = append(cfgs, cfgT{cf, as, ns})
					}
				}
			}
		}
		for _, cfg := range cfgs {
			for part := 0; part < 6; part++ {
				micOK, jnSmall, opt := part < 4, part%4 < 2, part%2 == 1
				if part >= 4 {
					micOK, jnSmall = false, true
				}
				if rejoin >= 0 && !micOK {
					continue // the rejoin flow does not look at the request MIC (the network server has verified it)
				}
				key := fmt.Sprintf("%s/cflist=%v,asKEK=%v,nsKEK=%v/mic=%v,joinNonce<2^24=%v,optNeg=%v", flow, cfg.cf, cfg.as, cfg.ns, micOK, jnSmall, opt)
				in := absint.NewInterp(c.Prog)
				d := in.D
				st, err := c16Inputs2(in, rejoin, cfg.cf, cfg.as, cfg.ns)
				if err != nil {
					r.Unknown(rule, key, "", "request construction", err.Error())
					continue
				}
				dom := st.micOK
				if !micOK {
					dom = d.M.Not(st.micOK)
				}
				small := d.Cmp(token.LSS, st.joinNonce, d.Const(1<<24, 32, false))
				if jnSmall {
					dom = d.M.And(dom, small)
				} else {
					dom = d.M.And(dom, d.M.Not(small))
				}
				if opt {
					dom = d.M.And(dom, st.optNeg)
				} else {
					dom = d.M.And(dom, d.M.Not(st.optNeg))
				}
				args, aerr := c16BuildArgs(in, c, fn, st)
				if aerr != nil {
					r.Unknown(rule, key, "", "the core's parameters can be filled from the request, the device keys and the two KEKs by type and name", aerr.Error())
					continue
				}
				var ans *absint.Struct
				undec := ""
				forParts(in, dom, 6, func(dp absint.Node, tag string) error {
					var res []absint.Value
					if e := in.Try(func() {
						in.SetLive(dp)
						res = in.CallFunc("backend/joinserver", fn, args...)
					}); e != nil {
						return e
					}
					a, ok := res[0].(*absint.Struct)
					if !ok {
						return fmt.Errorf("answer is %T", res[0])
					}
					if tag != "" {
						return fmt.Errorf("the outcome class still depends on a symbolic condition")
					}
					ans = a
					return nil
				}, func(tag string, e error) {
					if pe, isP := e.(absint.Panic); isP {
						undec = "PANIC " + pe.Why + ", e.g. " + d.Witness(pe.Cond)
						return
					}
					undec = e.Error()
				})
				if undec != "" || ans == nil {
					if len(undec) > 6 && undec[:6] == "PANIC " {
						r.Bad(rule, key, "", "an answer for every request", "panics: "+undec[6:])
					} else {
						r.Unknown(rule, key, "", "inside the interpreter's subset", undec)
					}
					continue
				}
				badAns, badKeys, success := c16CheckJoinAnswer(in, st, ans, dom, micOK, jnSmall, opt, cfg.cf, cfg.as, cfg.ns)
				r.Check(badAns == "", rule, key+"/answer", "", "result code, mirrored ids and the join-accept the device decrypts and verifies", badAns, true)
				if success && badAns == "" {
					r.Check(badKeys == "", rule, key+"/session-keys", "", "the enveloped session keys are the ones the device derives", badKeys, true)
				}
			}
		}
	}
}

// c16WrongKind: a request of one flow that carries a frame of the other kind (a RejoinReq with a join-request frame, a
// JoinReq with a rejoin-request frame) is never answered Success, whatever its MIC: the rejoin flow does not verify the
// request MIC (the network server has), so serving a join-request frame there would hand out session keys for an
// unauthenticated frame.
func c16WrongKind(c *Ctx) {
	r := c.Run
	for _, cfg := range []struct {
		rule, fn, name string
		rejoin, frame  int
	}{
		{"R9.rejoin-e1", "handleRejoinRequestWrapper", "rejoin/frame=join-request", 0, -1},
		{"R9.join-e1", "handleJoinRequestWrapper", "join/frame=rejoin-request-type0", -1, 0},
		{"R9.join-e1", "handleJoinRequestWrapper", "join/frame=rejoin-request-type1", -1, 1},
	} {
		key := cfg.name + "/never-success"
		in := absint.NewInterp(c.Prog)
		d := in.D
		st, err := c16Inputs3(in, cfg.rejoin, cfg.frame, false, false, false)
		if err != nil {
			r.Unknown(cfg.rule, key, "", "request construction", err.Error())
			continue
		}
		small := d.Cmp(token.LSS, st.joinNonce, d.Const(1<<24, 32, false))
		args, aerr := c16BuildArgs(in, c, cfg.fn, st)
		if aerr != nil {
			r.Unknown(cfg.rule, key, "", "the core's parameters can be filled by type and name", aerr.Error())
			continue
		}
		bad, undec := "", ""
		forParts(in, small, 6, func(dp absint.Node, tag string) error {
			var res []absint.Value
			if e := in.Try(func() {
				in.SetLive(dp)
				res = in.CallFunc("backend/joinserver", cfg.fn, args...)
			}); e != nil {
				return e
			}
			a, ok := res[0].(*absint.Struct)
			if !ok {
				return fmt.Errorf("answer is %T", res[0])
			}
			code, ok := c16Str(c16Field(a, "BasePayloadResult", "Result", "ResultCode"))
			if !ok {
				return fmt.Errorf("the result code still depends on a symbolic condition")
			}
			if code == "Success" && bad == "" {
				bad = "answered Success"
				if tag != "" {
					bad += " (" + tag + ")"
				}
			}
			return nil
		}, func(tag string, e error) {
			if pe, isP := e.(absint.Panic); isP {
				bad = "panics: " + pe.Why + ", e.g. " + d.Witness(pe.Cond)
				return
			}
			undec = e.Error()
		})
		switch {
		case bad != "":
			r.Bad(cfg.rule, key, "", "an error answer (the frame is not of the kind this flow serves)", bad)
		case undec != "":
			r.Unknown(cfg.rule, key, "", "inside the interpreter's subset", undec)
		default:
			r.OK(cfg.rule, key, "", "an error answer (the frame is not of the kind this flow serves)", "no partition is answered Success", true)
		}
	}
}

func c16Str(v absint.Value) (string, bool) {
	s, ok := v.(*absint.StrVal)
	if !ok || !s.Known {
		return "", false
	}
	return s.S, true
}

func c16Field(v absint.Value, path ...string) absint.Value {
	for _, f := range path {
		if p, ok := v.(*absint.Ptr); ok && p.To != nil {
			v = p.To.V
		}
		st, ok := v.(*absint.Struct)
		if !ok || st.F[f] == nil {
			return nil
		}
		v = st.F[f].V
	}
	return v
}

func c16SliceVals(v absint.Value) ([]absint.Value, bool) {
	switch s := v.(type) {
	case *absint.Slice:
		var out []absint.Value
		for i := 0; i < s.Len(); i++ {
			out = append(out, s.At(i).V)
		}
		return out, true
	case absint.NilVal:
		return nil, true
	case *absint.Array:
		var out []absint.Value
		for _, c := range s.E {
			out = append(out, c.V)
		}
		return out, true
	}
	return nil, false
}

func c16SameBytes(in *absint.Interp, got, want []absint.Value, dom absint.Node, what string) string {
	if len(got) != len(want) {
		return fmt.Sprintf("%s: %d bytes, expected %d", what, len(got), len(want))
	}
	for i := range got {
		if ok, w := sameValue(in, got[i], want[i], dom); !ok {
			return fmt.Sprintf("%s byte %d: %s", what, i, w)
		}
	}
	return ""
}

// c16CheckJoinAnswer compares the answer with the specification: what is wrong with the answer proper (code, ids,
// join-accept) and with the session keys ("" when they agree), and whether the expected outcome is Success.
func c16CheckJoinAnswer(in *absint.Interp, st *c16Inputs, ans *absint.Struct, dom absint.Node, micOK, jnSmall, opt, cf, as, ns bool) (string, string, bool) {
	a, k, s := c16CheckJoinAnswer2(in, st, ans, dom, micOK, jnSmall, opt, cf, as, ns)
	return a, k, s
}

func c16CheckJoinAnswer2(in *absint.Interp, st *c16Inputs, ans *absint.Struct, dom absint.Node, micOK, jnSmall, opt, cf, as, ns bool) (badAns, badKeys string, success bool) {
	d := in.D
	rej := st.rejoin >= 0
	msgType := "JoinAns"
	if rej {
		msgType = "RejoinAns"
	}
	// --- mirror
	for _, f := range [][2]string{{"ProtocolVersion", "1.0"}, {"SenderID", "0807060504030201"}, {"ReceiverID", "010203"}, {"MessageType", msgType}} {
		got, ok := c16Str(c16Field(ans, "BasePayloadResult", "BasePayload", f[0]))
		if !ok || got != f[1] {
			return fmt.Sprintf("BasePayload.%s = %q, expected %q", f[0], got, f[1]), "", false
		}
	}
	if tx, ok := c16Field(ans, "BasePayloadResult", "BasePayload", "TransactionID").(*absint.Bits); !ok {
		return "TransactionID missing", "", false
	} else if ok, w := sameValue(in, tx, st.txID, dom); !ok {
		return "TransactionID is not the request's: " + w, "", false
	}
	code, ok := c16Str(c16Field(ans, "BasePayloadResult", "Result", "ResultCode"))
	if !ok {
		return "ResultCode is not a constant within one outcome class", "", false
	}
	wantCode := "Success"
	switch {
	case !micOK && !rej:
		wantCode = "MICFailed"
	case !jnSmall:
		wantCode = "Other"
	}
	if code != wantCode {
		return fmt.Sprintf("ResultCode %q, expected %q", code, wantCode), "", wantCode == "Success"
	}
	phy, okp := c16SliceVals(c16Field(ans, "PHYPayload"))
	if !okp {
		return "PHYPayload is not a byte string", "", wantCode == "Success"
	}
	envs := map[string]absint.Value{}
	for _, k := range []string{"AppSKey", "NwkSKey", "FNwkSIntKey", "SNwkSIntKey", "NwkSEncKey"} {
		envs[k] = c16Field(ans, k)
	}
	if wantCode != "Success" {
		if len(phy) != 0 {
			return "an error answer carries a PHYPayload", "", wantCode == "Success"
		}
		for k, v := range envs {
			if _, isNil := v.(absint.NilVal); !isNil {
				return "an error answer carries the key " + k, "", wantCode == "Success"
			}
		}
		return "", "", false
	}
	// --- the join-accept the device expects
	k8 := func(v int64) absint.Value { return d.Const(v, 8, false) }
	opq := func(kind string, key, block []absint.Value, n int) []absint.Value {
		return in.OpaqueBytes(kind, [][]absint.Value{key, block}, n, kind)
	}
	pad := func(b []absint.Value) []absint.Value {
		for len(b) < 16 {
			b = append(b, k8(0))
		}
		return b
	}
	jn := leBytes(st.joinNonce, 3)
	dn := leBytes(st.devNonce, 2)
	netLE := []absint.Value{st.netID[2], st.netID[1], st.netID[0]}
	devAddrLE := []absint.Value{st.devAddr[3], st.devAddr[2], st.devAddr[1], st.devAddr[0]}
	on := int64(0)
	if opt {
		on = 1
	}
	dls := d.Bitwise(token.OR, d.Bitwise(token.OR, d.Const(on<<7, 8, false), d.Shift(token.SHL, d.Resize(st.rx1off, 8, false), 4)), d.Resize(st.rx2dr, 8, false))
	body := append(append(append([]absint.Value{}, jn...), netLE...), devAddrLE...)
	body = append(body, dls, d.Resize(st.rxDelay, 8, false))
	if cf {
		body = append(body, st.cfList...)
	}
	mhdr := k8(0x20)
	var mic []absint.Value
	encKey := st.nwkKey
	if rej {
		// a rejoin is answered as LoRaWAN 1.1: MIC with JSIntKey over the rejoin type, JoinEUI and RJcount; encrypted
		// with JSEncKey
		encKey = opq("AESenc", st.nwkKey, pad(append([]absint.Value{k8(0x05)}, st.devEUI...)), 16)
	}
	if opt || rej {
		jsInt := opq("AESenc", st.nwkKey, pad(append([]absint.Value{k8(0x06)}, st.devEUI...)), 16)
		reqType := int64(0xff)
		if rej {
			reqType = int64(st.rejoin)
		}
		msg := append([]absint.Value{k8(reqType)}, st.joinEUI...)
		msg = append(msg, dn...)
		msg = append(msg, mhdr)
		msg = append(msg, body...)
		mic = opq("CMAC", jsInt, msg, 16)[:4]
	} else {
		msg := append([]absint.Value{mhdr}, body...)
		mic = opq("CMAC", st.nwkKey, msg, 16)[:4]
	}
	plain := append(append([]absint.Value{}, body...), mic...)
	if len(plain)%16 != 0 {
		return fmt.Sprintf("specification body has %d bytes", len(plain)), "", wantCode == "Success"
	}
	want := []absint.Value{mhdr}
	for o := 0; o < len(plain); o += 16 {
		want = append(want, opq("AESdec", encKey, plain[o:o+16], 16)...)
	}
	if rej && !opt {
		// unarmed cell: a rejoin answered with OptNeg unset (a 1.1 exchange that announces 1.0) is not pinned down by
		// the specification text used here (which key authenticates it); only its length is checked
		if len(phy) != len(want) {
			return fmt.Sprintf("join-accept: %d bytes, expected %d", len(phy), len(want)), "", true
		}
	} else if s := c16SameBytes(in, phy, want, dom, "join-accept"); s != "" {
		return s, "", wantCode == "Success"
	}
	// --- session keys
	skey := func(typ int64, root []absint.Value) []absint.Value {
		blk := append([]absint.Value{k8(typ)}, jn...)
		if opt {
			blk = append(append(blk, st.joinEUI...), dn...)
		} else {
			blk = append(append(blk, netLE...), dn...)
		}
		return opq("AESenc", root, pad(blk), 16)
	}
	appRoot := st.nwkKey
	if opt {
		appRoot = st.appKey
	}
	wantKeys := map[string][]absint.Value{"AppSKey": skey(0x02, appRoot)}
	if opt || rej {
		wantKeys["FNwkSIntKey"] = skey(0x01, st.nwkKey)
		wantKeys["SNwkSIntKey"] = skey(0x03, st.nwkKey)
		wantKeys["NwkSEncKey"] = skey(0x04, st.nwkKey)
	} else {
		wantKeys["NwkSKey"] = skey(0x01, st.nwkKey)
	}
	for _, k := range []string{"AppSKey", "NwkSKey", "FNwkSIntKey", "SNwkSIntKey", "NwkSEncKey"} {
		wk, present := wantKeys[k]
		if _, isNil := envs[k].(absint.NilVal); isNil != !present {
			return "", fmt.Sprintf("key envelope %s present=%v, expected %v", k, !isNil, present), true
		}
		if !present {
			continue
		}
		kek, label := st.nsKEK, "ns-kek"
		wrapped := ns
		if k == "AppSKey" {
			kek, label, wrapped = st.asKEK, "as-kek", as
		}
		gotLabel, _ := c16Str(c16Field(envs[k], "KEKLabel"))
		gotKey, okk := c16SliceVals(c16Field(envs[k], "AESKey"))
		if !okk {
			return "", k + ": AESKey is not a byte string", true
		}
		if !wrapped {
			if gotLabel != "" {
				return "", k + ": a clear key carries the label " + gotLabel, true
			}
			if s := c16SameBytes(in, gotKey, wk, dom, k+" (clear)"); s != "" {
				return "", s, true
			}
			continue
		}
		if gotLabel != label {
			return "", fmt.Sprintf("%s: KEK label %q, expected %q", k, gotLabel, label), true
		}
		kv, _ := c16SliceVals(kek)
		if s := c16SameBytes(in, gotKey, opq("KWrap", kv, wk, 24), dom, k+" (wrapped under "+label+")"); s != "" {
			return "", s, true
		}
	}
	return "", "", true
}

// c16BuildArgs fills the parameters of a join-server core by type and name, so that regrouping them (a struct of key
// material instead of five loose parameters) does not change what is analysed: the request payload, the DeviceKeys
// value, strings and byte slices whose (path of) names contain "as" / "ns" for the AS / NS KEK label and KEK. Structs
// of the package are filled field by field. Anything else is an error (the rule is then undecided).
func c16BuildArgs(in *absint.Interp, c *Ctx, fn string, st *c16Inputs) ([]absint.Value, error) {
	pk := c.Prog.Pkg("backend/joinserver")
	if pk == nil {
		return nil, fmt.Errorf("package backend/joinserver not loaded")
	}
	f, ok := pk.Types.Scope().Lookup(fn).(*types.Func)
	if !ok {
		return nil, fmt.Errorf("function %s not found", fn)
	}
	sig := f.Type().(*types.Signature)
	used := map[string]bool{}
	var fill func(t types.Type, path string) (absint.Value, error)
	fill = func(t types.Type, path string) (absint.Value, error) {
		lp := strings.ToLower(path)
		side := ""
		// the innermost name that says which KEK is meant decides
		if i, j := strings.LastIndex(lp, "as"), strings.LastIndex(lp, "ns"); i >= 0 || j >= 0 {
			if i > j {
				side = "as"
			} else {
				side = "ns"
			}
		}
		if n, ok := t.(*types.Named); ok {
			switch n.Obj().Name() {
			case "JoinReqPayload", "RejoinReqPayload":
				used["req"] = true
				return st.req, nil
			case "DeviceKeys":
				used["dk"] = true
				return st.dk, nil
			}
		}
		switch u := t.Underlying().(type) {
		case *types.Basic:
			if u.Kind() == types.String && side != "" {
				used[side+"Label"] = true
				if side == "as" {
					return st.asLabel, nil
				}
				return st.nsLabel, nil
			}
		case *types.Slice:
			if b, ok := u.Elem().Underlying().(*types.Basic); ok && b.Kind() == types.Uint8 && side != "" {
				used[side+"KEK"] = true
				if side == "as" {
					return st.asKEK, nil
				}
				return st.nsKEK, nil
			}
		case *types.Struct:
			v, ok := in.Zero(t).(*absint.Struct)
			if !ok {
				break
			}
			for i := 0; i < u.NumFields(); i++ {
				fv, err := fill(u.Field(i).Type(), path+"."+u.Field(i).Name())
				if err != nil {
					return nil, err
				}
				v.F[u.Field(i).Name()].V = fv
			}
			return v, nil
		}
		return nil, fmt.Errorf("parameter %s of type %s is not recognised", path, t)
	}
	var out []absint.Value
	for i := 0; i < sig.Params().Len(); i++ {
		p := sig.Params().At(i)
		v, err := fill(p.Type(), p.Name())
		if err != nil {
			return nil, err
		}
		out = append(out, v)
	}
	for _, k := range []string{"req", "dk", "asLabel", "asKEK", "nsLabel", "nsKEK"} {
		if !used[k] {
			return nil, fmt.Errorf("no parameter of %s takes the %s", fn, k)
		}
	}
	return out, nil
}
