package props

import (
	"fmt"
	"go/token"
	"go/types"
	"reflect"
	"sort"
	"strings"

	"golang.org/x/tools/go/ssa"

	"lwverif/internal/flow"
)

// C17 — backend JSON types and key envelopes (engine E5).
//
//	R1 ROUNDED   every float→integer conversion in package backend takes its operand from math.Round
//	R2 PAIRS     HEXBytes hex both ways; ISO8601Time one layout; Frequency/Percentage one scaling constant,
//	             float64 handed to encoding/json (or FormatFloat precision -1), ParseFloat bit size 64
//	R3 TAGS      no JSON key of a payload struct is dropped (duplicate / hidden / "-" / unexported) and every
//	             custom marshaler has its unmarshaler
//	R4 ENVELOPE  NewKeyEnvelope wraps iff label and KEK are non-empty, else clear key; Unwrap mirrors it

func init() { Register("C17", checkC17) }

func checkC17(c *Ctx) {
	r := c.Run
	r.Explanation = "Static decision of structural necessary conditions of C17 on package backend: (R1) decode-side float→int conversions are rounded, (R2) marshal/unmarshal siblings use the same primitive, layout and scaling constant and a lossless float representation, (R3) no JSON key is silently dropped and custom marshalers are paired, (R4) the key-envelope guard is exactly `label != \"\" && len(kek) != 0` and Unwrap mirrors Wrap. Terms are symbolic expressions over parameters obtained from SSA def chains; guards are compared by truth table."
	r.Trusted = []string{"go/packages, go/types, go/ssa", "encoding/json, encoding/hex, strconv, time, math, github.com/NickBall/go-aes-key-wrap (semantics assumed)"}
	r.Assumptions = []string{
		"math.Round(f*k) recovers the integer exactly for |error| = 2^-53 * 4.3e9 << 0.5 (uint32 Hz, 0..100 %); encoding/json prints float64 with the shortest representation that round-trips",
		"aliasing between distinct SSA base objects is not modelled by the flow engine (effects engine E4 covers aliasing)",
	}
	flowSelfTest(c)
	c17Rounded(c)
	c17Pairs(c)
	c17Tags(c)
	c17Envelope(c)
	// R5: every codec of package backend is a function of its arguments: no package-level state is written by
	// NewKeyEnvelope / Unwrap or any Marshal*/Unmarshal* method (a cache keyed by part of the arguments would make a
	// later call return an earlier call's result)
	c17Stateless(c)
	c17ForeignText(c)
	c17HexBytesE1(c)
	c17EnvelopeE1(c)
}

func c17Stateless(c *Ctx) {
	const rule = "R5.stateless"
	sp := c.Prog.SSAPkg("backend")
	if sp == nil {
		c.Run.Unknown(rule, "backend", "", "package loaded", "missing")
		return
	}
	var roots []*ssa.Function
	if f := sp.Func("NewKeyEnvelope"); f != nil {
		roots = append(roots, f)
	}
	for _, m := range sp.Members {
		t, ok := m.(*ssa.Type)
		if !ok {
			continue
		}
		for _, T := range []types.Type{t.Type(), types.NewPointer(t.Type())} {
			ms := c.Prog.SSA.MethodSets.MethodSet(T)
			for i := 0; i < ms.Len(); i++ {
				fn := c.Prog.SSA.MethodValue(ms.At(i))
				if fn == nil || fn.Synthetic != "" || fn.Pkg != sp {
					continue
				}
				switch fn.Name() {
				case "MarshalJSON", "UnmarshalJSON", "MarshalText", "UnmarshalText", "Unwrap":
					roots = append(roots, fn)
				}
			}
		}
	}
	seen := map[*ssa.Function]bool{}
	sort.Slice(roots, func(i, j int) bool { return roots[i].String() < roots[j].String() })
	for _, fn := range roots {
		if !seen[fn] {
			seen[fn] = true
			ruleStatelessGlobals(c, rule, fn)
		}
	}
}

// ---------------------------------------------------------------------------
// R1

// floatToIntFinding is one float→int conversion and the verdict on its operand.
type floatToIntFinding struct {
	Fn      *ssa.Function
	Conv    *ssa.Convert
	Rounded bool
	Operand *flow.Term
}

func isFloat64(t types.Type) bool {
	b, ok := t.Underlying().(*types.Basic)
	return ok && b.Kind() == types.Float64
}
func isFloat(t types.Type) bool {
	b, ok := t.Underlying().(*types.Basic)
	return ok && b.Info()&types.IsFloat != 0
}
func isInteger(t types.Type) bool {
	b, ok := t.Underlying().(*types.Basic)
	return ok && b.Info()&types.IsInteger != 0
}

// floatToInt scans functions for Convert float→integer and classifies the operand: rounded iff it is the
// result of math.Round / math.RoundToEven or math.Floor(x + 0.5).
func floatToInt(fns []*ssa.Function) []floatToIntFinding {
	var out []floatToIntFinding
	for _, fn := range fns {
		e := flow.For(fn)
		for _, b := range fn.Blocks {
			for _, ins := range b.Instrs {
				cv, ok := ins.(*ssa.Convert)
				if !ok || !isFloat(cv.X.Type()) || !isInteger(cv.Type()) {
					continue
				}
				f := floatToIntFinding{Fn: fn, Conv: cv, Operand: e.Term(cv.X)}
				if bo, ok := cv.X.(*ssa.BinOp); ok && bo.Op == token.ADD {
					// int(x + 0.5): rounds non-negative quantities (Hz, percent)
					for _, o := range []ssa.Value{bo.X, bo.Y} {
						if k, ok := o.(*ssa.Const); ok && k.Value != nil && k.Value.ExactString() == "1/2" {
							f.Rounded = true
						}
					}
				}
				if call, ok := cv.X.(*ssa.Call); ok {
					switch flow.CalleeName(call.Common()) {
					case "math.Round", "math.RoundToEven":
						f.Rounded = true
					case "math.Floor":
						if bo, ok := call.Call.Args[0].(*ssa.BinOp); ok && bo.Op == token.ADD {
							for _, o := range []ssa.Value{bo.X, bo.Y} {
								if k, ok := o.(*ssa.Const); ok && k.Value != nil && k.Value.ExactString() == "1/2" {
									f.Rounded = true
								}
							}
						}
					}
				}
				if !f.Rounded {
					// the same idioms seen through an inlined helper (`v, err := parseScaled(s, k); …; T(v)`)
					t := skin(f.Operand)
					half := func(x *flow.Term) bool {
						return x.Op == "bin" && x.Val == "+" && len(x.Args) == 2 && (x.Args[1].String() == "0.5" || x.Args[0].String() == "0.5")
					}
					switch {
					case t.Op == "call" && (t.Val == "math.Round" || t.Val == "math.RoundToEven"):
						f.Rounded = true
					case t.Op == "call" && t.Val == "math.Floor" && len(t.Args) == 1 && half(skin(t.Args[0])):
						f.Rounded = true
					case half(t):
						f.Rounded = true
					}
				}
				out = append(out, f)
			}
		}
	}
	return out
}

const c17Fixture = `package fx
import "math"
type P int
func Trunc(f float64) P   { return P(f * 100) }
func Round(f float64) P   { return P(math.Round(f * 100)) }
func Floor(f float64) int { return int(math.Floor(f*100 + 0.5)) }
func Half(f float64) int  { return int(f*100 + 0.5) }
`

func c17Rounded(c *Ctx) {
	const rule = "R1.rounded"
	c.Run.Rule(rule, "every float→integer conversion in an Unmarshal* method of package backend (or a function of the package it calls) takes its operand from math.Round (or x+0.5 / math.Floor(x+0.5)); truncation of f*k loses e.g. 0.29*100 → 28")
	sp := c.Prog.SSAPkg("backend")
	if sp == nil {
		c.Run.Unknown(rule, "backend", "", "package backend loaded", "missing")
		return
	}
	fns := flow.PackageFuncs(c.Prog.SSA, sp)
	for _, fn := range fns {
		c.Run.Saw("functions scanned for float→int conversions", fnKey(fn))
	}
	// the decode direction: Unmarshal* methods and the package's own functions they (transitively) call
	decode := map[*ssa.Function]bool{}
	var mark func(f *ssa.Function)
	mark = func(f *ssa.Function) {
		if f == nil || decode[f] || f.Pkg != sp || f.Blocks == nil {
			return
		}
		decode[f] = true
		for _, b := range f.Blocks {
			for _, ins := range b.Instrs {
				if ci, ok := ins.(ssa.CallInstruction); ok {
					mark(ci.Common().StaticCallee())
				}
			}
		}
		for _, an := range f.AnonFuncs {
			mark(an)
		}
	}
	for _, fn := range fns {
		if strings.HasPrefix(fn.Name(), "Unmarshal") {
			mark(fn)
		}
	}
	for _, f := range floatToInt(fns) {
		if !decode[f.Fn] {
			// only the decode direction is an obligation of C17; other conversions are listed
			c.Run.Saw("float→int conversions outside Unmarshal* (not an obligation)", fnKey(f.Fn)+": "+f.Operand.String())
			continue
		}
		key := fmt.Sprintf("%s/convert:%s->%s", fnKey(f.Fn), f.Conv.X.Type().String(), types.TypeString(f.Conv.Type(), func(*types.Package) string { return "" }))
		if f.Rounded {
			c.Run.OK(rule, key, ipos(c, f.Conv), "operand is math.Round(…)", f.Operand.String(), true)
		} else {
			c.Run.Bad(rule, key, ipos(c, f.Conv), "operand of the integer conversion is math.Round(…)", "bare "+f.Operand.String()+" is truncated toward zero: a value whose binary product falls just below the integer decodes one too small (0.29*100 = 28.999999999999996 → 28; 128.2*1e6 → 128199999)")
		}
	}
	// positive fixture: the matcher fires on int(f*k) and accepts the two rounding idioms
	fsp, _, _, err := flow.BuildFixture("fx", c17Fixture)
	if err != nil {
		c.Run.Unknown(rule, "fixture", "", "fixture builds", err.Error())
		return
	}
	got := map[string]bool{}
	for _, f := range floatToInt([]*ssa.Function{fsp.Func("Trunc"), fsp.Func("Round"), fsp.Func("Floor"), fsp.Func("Half")}) {
		got[f.Fn.Name()] = f.Rounded
	}
	okFx := len(got) == 4 && !got["Trunc"] && got["Round"] && got["Floor"] && got["Half"]
	if okFx {
		c.Run.OK(rule, "fixture/int(f*k)-fires", "", "matcher reports P(f*100) and accepts math.Round / math.Floor(x+0.5)", fmt.Sprint(got), false)
	} else {
		c.Run.Unknown(rule, "fixture/int(f*k)-fires", "", "matcher reports P(f*100) and accepts math.Round / math.Floor(x+0.5)", fmt.Sprint(got))
	}
}

// ---------------------------------------------------------------------------
// R2

func c17Pairs(c *Ctx) {
	const rule = "R2.pairs"
	c.Run.Rule(rule, "marshal/unmarshal siblings agree: hex both ways, one time layout (RFC 3339), one scaling constant (1e6 Hz/MHz, 100 %), float64 handed to encoding/json or FormatFloat(-1), ParseFloat bit size 64")
	const bk = "lorawan/backend."

	// --- HEXBytes (shape rule; the clause itself is decided exactly by R7.hexbytes, so an unrecognised shape is only a note)
	const hexRule = "R2.hex-shape"
	c.Run.Rule(hexRule, "HEXBytes: String/MarshalText = hex.EncodeToString(hb); UnmarshalText stores hex.DecodeString(strings.TrimPrefix(text, \"0x\")) on success only (shape; advisory, backed by R7.hexbytes)")
	c.Run.Advisory(hexRule, "R7.hexbytes")
	strWant := flow.Call("encoding/hex.EncodeToString", flow.SliceOf(flow.Param(0), nil, nil))
	strOK := false
	if fn := flowFn(c, hexRule, "backend", "HEXBytes.String"); fn != nil {
		e := flow.For(fn)
		for _, r := range flow.Returns(fn) {
			strOK = checkTerm(c, hexRule, fnKey(fn)+"/result", ipos(c, r), "String()", e.Select(r.Results[0], nil, r), strWant)
		}
	}
	if fn := flowFn(c, hexRule, "backend", "HEXBytes.MarshalText"); fn != nil {
		e := flow.For(fn)
		for _, r := range flow.Returns(fn) {
			via := flow.Conv("[]byte", flow.Call("("+bk+"HEXBytes).String", flow.Param(0)))
			got := e.Select(r.Results[0], nil, r)
			if got.Equal(via) && !strOK {
				c.Run.Unknown(hexRule, fnKey(fn)+"/result", ipos(c, r), "MarshalText = []byte(hex.EncodeToString(hb))", "goes through String(), which did not match")
			} else {
				checkTerm(c, hexRule, fnKey(fn)+"/result", ipos(c, r), "MarshalText", got, via, flow.Conv("[]byte", strWant))
			}
		}
	}
	if fn := flowFn(c, hexRule, "backend", "HEXBytes.UnmarshalText"); fn != nil {
		key := fnKey(fn)
		e := flow.For(fn)
		in := flow.Call("strings.TrimPrefix", flow.Conv("string", flow.Param(1)), flow.ConstString("0x"))
		dec := flow.Call("encoding/hex.DecodeString", in)
		if s, ok := oneSite(c, hexRule, key+"/call:hex.DecodeString", fn, "encoding/hex.DecodeString"); ok {
			checkTerm(c, hexRule, key+"/input", ipos(c, s.Instr), "input of hex.DecodeString", s.Args[0], in, flow.Call("encoding/hex.DecodeString", flow.Conv("string", flow.Param(1))).Args[0])
			successStores(c, hexRule, fn, flow.Extract(dec, 0), flow.Extract(dec, 1))
		}
		errSwallowRule(c, hexRule, fn)
		_ = e
	}

	// --- ISO8601Time
	const rfc3339 = "2006-01-02T15:04:05Z07:00"
	var layoutM, layoutU *flow.Term
	if fn := flowFn(c, rule, "backend", "ISO8601Time.MarshalText"); fn != nil {
		key := fnKey(fn)
		e := flow.For(fn)
		sites := flow.Calls(fn, flow.Named("(time.Time).Format"))
		switch {
		case len(sites) == 1:
			s := sites[0]
			checkTerm(c, rule, key+"/receiver", ipos(c, s.Instr), "formatted time", s.Args[0], flow.Param(0))
			layoutM = s.Args[1]
			checkTerm(c, rule, key+"/layout", ipos(c, s.Instr), "layout (ISO 8601 to one second)", s.Args[1], flow.ConstString(rfc3339))
			for _, r := range flow.Returns(fn) {
				checkTerm(c, rule, key+"/result", ipos(c, r), "MarshalText", e.Select(r.Results[0], nil, r), flow.Conv("[]byte", e.Term(s.Value())))
			}
		case len(sites) == 0:
			// no direct call: the returned text as a term with helpers unfolded must contain exactly one Format call
			for _, r := range flow.Returns(fn) {
				t := e.Select(r.Results[0], nil, r)
				fcs := findCallTerms(t, "(time.Time).Format")
				if afs := findCallTerms(t, "(time.Time).AppendFormat"); len(fcs) == 0 && len(afs) == 1 && len(afs[0].Args) == 3 {
					// AppendFormat(buf, layout): the same formatter writing into a buffer
					af := afs[0]
					checkTerm(c, rule, key+"/receiver", ipos(c, r), "formatted time", af.Args[0], flow.Param(0))
					layoutM = af.Args[2]
					checkTerm(c, rule, key+"/layout", ipos(c, r), "layout (ISO 8601 to one second)", af.Args[2], flow.ConstString(rfc3339))
					continue
				}
				if len(fcs) != 1 || len(fcs[0].Args) != 2 {
					c.Run.Unknown(rule, key+"/call:Time.Format", ipos(c, r), "the returned text is built by one call of (time.Time).Format", short(t.String()))
					continue
				}
				fc := fcs[0]
				checkTerm(c, rule, key+"/receiver", ipos(c, r), "formatted time", fc.Args[0], flow.Param(0))
				layoutM = fc.Args[1]
				checkTerm(c, rule, key+"/layout", ipos(c, r), "layout (ISO 8601 to one second)", fc.Args[1], flow.ConstString(rfc3339))
				checkTerm(c, rule, key+"/result", ipos(c, r), "MarshalText", t, flow.Conv("[]byte", fc))
			}
		default:
			c.Run.Unknown(rule, key+"/call:Time.Format", fpos(c, fn), "one call of (time.Time).Format", fmt.Sprintf("%d calls", len(sites)))
		}
	}
	if fn := flowFn(c, rule, "backend", "ISO8601Time.UnmarshalText"); fn != nil {
		key := fnKey(fn)
		e := flow.For(fn)
		sites := flow.Calls(fn, flow.Named("time.Parse"))
		var pt *flow.Term
		pos := fpos(c, fn)
		switch {
		case len(sites) == 1:
			pt = e.Term(sites[0].Value())
			pos = ipos(c, sites[0].Instr)
			pt = flow.Call("time.Parse", sites[0].Args[0], sites[0].Args[1])
		case len(sites) == 0:
			// no direct call: the value stored on success, helpers unfolded, must come from exactly one time.Parse
			for _, r := range flow.Returns(fn) {
				if !mayReturnNil(e, r, errIndex(fn)) {
					continue
				}
				got := e.SelectAddr(fn.Params[0], nil, r)
				if pcs := findCallTerms(got, "time.Parse"); len(pcs) == 1 && len(pcs[0].Args) == 2 {
					pt = pcs[0]
				} else {
					c.Run.Unknown(rule, key+"/call:time.Parse", ipos(c, r), "the stored time comes from one call of time.Parse", short(got.String()))
				}
			}
		default:
			c.Run.Unknown(rule, key+"/call:time.Parse", fpos(c, fn), "one call of time.Parse", fmt.Sprintf("%d calls", len(sites)))
		}
		if pt != nil {
			layoutU = pt.Args[0]
			checkTerm(c, rule, key+"/input", pos, "parsed text", pt.Args[1], flow.Conv("string", flow.Param(1)))
			if layoutM != nil {
				checkTerm(c, rule, "backend.ISO8601Time/same-layout", pos, "layout of time.Parse (the one used by Format)", layoutU, layoutM)
			}
			successStores(c, rule, fn, flow.Extract(pt, 0), flow.Extract(pt, 1))
		}
		errSwallowRule(c, rule, fn)
	}

	// --- Frequency / Percentage
	for _, T := range []struct {
		name string
		k    float64
		unit string
	}{{"Frequency", 1e6, "Hz per MHz"}, {"Percentage", 100, "percent per unit fraction"}} {
		var kM *flow.Term
		kWant := &flow.Term{Op: "const", Val: fmt.Sprint(T.k)}
		if fn := flowFn(c, rule, "backend", T.name+".MarshalJSON"); fn != nil {
			key := fnKey(fn)
			e := flow.For(fn)
			// the float value that is formatted
			var fv ssa.Value
			var how string
			for _, s := range flow.Calls(fn, nil) {
				switch s.Callee {
				case "encoding/json.Marshal":
					a := s.Instr.Common().Args[0]
					if mi, ok := a.(*ssa.MakeInterface); ok && isFloat(mi.X.Type()) {
						fv, how = mi.X, "encoding/json.Marshal(float64): shortest representation that round-trips"
						if b := mi.X.Type().Underlying().(*types.Basic); b.Kind() != types.Float64 {
							c.Run.Bad(rule, key+"/repr", ipos(c, s.Instr), "a float64 is marshalled", "float32 value: 24-bit mantissa cannot hold every uint32 Hz")
						}
					}
				case "strconv.FormatFloat", "strconv.AppendFloat":
					args := s.Instr.Common().Args
					off := 0
					if s.Callee == "strconv.AppendFloat" {
						off = 1
					}
					fv = args[off]
					prec, okP := intConst(args[off+2])
					bits, okB := intConst(args[off+3])
					switch {
					case !okP || !okB:
						c.Run.Unknown(rule, key+"/repr", ipos(c, s.Instr), "FormatFloat with constant precision -1 and bit size 64", s.Args[off+2].String()+", "+s.Args[off+3].String())
					case prec == -1 && bits == 64:
						how = "strconv.FormatFloat(…, -1, 64): shortest representation that round-trips"
					default:
						c.Run.Bad(rule, key+"/repr", ipos(c, s.Instr), "the float64 is handed to encoding/json or to FormatFloat with precision -1, bit size 64 (enough digits for every integer value)", fmt.Sprintf("%s with precision %d, bit size %d: a fixed number of digits cannot represent every value (e.g. 4294.967295 MHz needs 10 significant digits)", s.Callee, prec, bits))
						how = "-"
					}
				}
			}
			// every successful return must hand out bytes produced by that formatting call: a second, hand-written
			// formatting path is outside the supported subset (undecided, not accepted)
			for i, r := range flow.Returns(fn) {
				if !mayReturnNil(e, r, errIndex(fn)) {
					continue
				}
				t := e.Select(r.Results[0], nil, r)
				if !t.Has(func(x *flow.Term) bool {
					return x.Op == "call" && (x.Val == "encoding/json.Marshal" || x.Val == "strconv.FormatFloat" || x.Val == "strconv.AppendFloat")
				}) {
					c.Run.Unknown(rule, fmt.Sprintf("%s/repr-path#%d", key, i+1), ipos(c, r), "every successful return formats the value through encoding/json.Marshal or strconv.FormatFloat", short(t.String()))
				}
			}
			var fvT *flow.Term
			if fv != nil {
				fvT = e.Term(fv)
			} else {
				// no direct call: the returned bytes as a term (helpers inlined): json.Marshal(X)#0
				for _, r := range flow.Returns(fn) {
					t := e.Select(r.Results[0], nil, r)
					if t.Op == "extract" && t.Val == "0" && len(t.Args) == 1 && t.Args[0].Op == "call" && t.Args[0].Val == "encoding/json.Marshal" && len(t.Args[0].Args) == 1 {
						x := t.Args[0].Args[0]
						if x.Type != nil && !isFloat64(x.Type) {
							c.Run.Bad(rule, key+"/repr", ipos(c, r), "a float64 is marshalled", "value of type "+x.Type.String())
							how = "-"
						} else {
							how = "encoding/json.Marshal(float64) through a helper: shortest representation that round-trips"
						}
						fvT = x
					}
				}
			}
			switch {
			case fvT == nil:
				c.Run.Unknown(rule, key+"/repr", fpos(c, fn), "the float64 is handed to encoding/json.Marshal or strconv.FormatFloat", "no such call (formatting outside the supported subset)")
			case how != "-" && how != "":
				c.Run.OK(rule, key+"/repr", fpos(c, fn), "lossless float64 text representation", how, true)
			}
			if fvT != nil {
				t := fvT
				for t.Op == "conv" && len(t.Args) == 1 && t.Val != "float64" && t.Args[0].Op == "bin" {
					t = t.Args[0] // interface boxing of the quotient
				}
				if t.Op == "bin" && t.Val == "/" && t.Args[1].Op == "const" {
					kM = t.Args[1]
					checkTerm(c, rule, key+"/dividend", fpos(c, fn), "scaled value", t.Args[0], flow.Conv("float64", flow.Param(0)))
					checkTerm(c, rule, key+"/constant", fpos(c, fn), "divisor ("+T.unit+")", kM, kWant)
				} else if t.Op == "bin" && t.Val == "*" {
					c.Run.Unknown(rule, key+"/constant", fpos(c, fn), "value / "+kWant.String(), t.String())
				} else {
					c.Run.Unknown(rule, key+"/constant", fpos(c, fn), "float64(v) / "+kWant.String(), t.String())
				}
			}
		}
		if fn := flowFn(c, rule, "backend", T.name+".UnmarshalJSON"); fn != nil {
			key := fnKey(fn)
			e := flow.For(fn)
			pfWant := flow.Extract(flow.Call("strconv.ParseFloat", flow.Conv("string", flow.Param(1)), flow.ConstInt(64)), 0)
			sites := flow.Calls(fn, flow.Named("strconv.ParseFloat"))
			if len(sites) > 1 {
				c.Run.Unknown(rule, key+"/call:strconv.ParseFloat", fpos(c, fn), "one call of strconv.ParseFloat in "+fnKey(fn), fmt.Sprintf("%d calls", len(sites)))
			} else {
				pf := pfWant // no direct call: the stored value (helpers inlined) must be built from exactly this parse
				if len(sites) == 1 {
					s := sites[0]
					checkTerm(c, rule, key+"/input", ipos(c, s.Instr), "parsed text", s.Args[0], flow.Conv("string", flow.Param(1)))
					checkTerm(c, rule, key+"/bitsize", ipos(c, s.Instr), "ParseFloat bit size", s.Args[1], flow.ConstInt(64))
					pf = flow.Extract(e.Term(s.Value()), 0)
				}
				// the stored value: conv<int>( [math.Round]( pf * K ) )
				n := 0
				for _, r := range flow.Returns(fn) {
					if !mayReturnNil(e, r, errIndex(fn)) {
						continue
					}
					n++
					got := e.SelectAddr(fn.Params[0], nil, r)
					inner := got
					if inner.Op == "conv" {
						inner = inner.Args[0]
					}
					if inner.Op == "call" && (inner.Val == "math.Round" || inner.Val == "math.RoundToEven" || inner.Val == "math.Floor") && len(inner.Args) == 1 {
						inner = inner.Args[0]
					}
					if inner.Op == "bin" && inner.Val == "+" && len(inner.Args) == 2 && inner.Args[1].String() == "0.5" {
						inner = inner.Args[0]
					}
					rk := fmt.Sprintf("%s/success#%d", key, n)
					if inner.Op == "bin" && inner.Val == "*" {
						var k, x *flow.Term
						if inner.Args[1].Op == "const" {
							x, k = inner.Args[0], inner.Args[1]
						} else {
							x, k = inner.Args[1], inner.Args[0]
						}
						checkTerm(c, rule, rk+"/operand", ipos(c, r), "scaled value", x, pf)
						checkTerm(c, rule, rk+"/constant", ipos(c, r), "multiplier ("+T.unit+")", k, kWant)
						if kM != nil {
							checkTerm(c, rule, "backend."+T.name+"/same-constant", ipos(c, r), "multiplier on decode (the divisor used on encode)", k, kM)
						}
					} else if got.IsUnknown() || termDepth(got) > 2 {
						c.Run.Unknown(rule, rk+"/stored", ipos(c, r), "*v = int(round(parsed * "+kWant.String()+"))", got.String())
					} else {
						c.Run.Bad(rule, rk+"/stored", ipos(c, r), "*v = int(round(parsed * "+kWant.String()+"))", got.String())
					}
				}
				if n == 0 {
					c.Run.Unknown(rule, key+"/success", fpos(c, fn), "a return with a nil error", "none")
				}
			}
			errSwallowRule(c, rule, fn)
		}
	}
}

// findCallTerms lists the distinct call sub-terms of t with the given callee name.
func findCallTerms(t *flow.Term, name string) []*flow.Term {
	var out []*flow.Term
	seen := map[string]bool{}
	var walk func(x *flow.Term)
	walk = func(x *flow.Term) {
		if x == nil {
			return
		}
		if x.Op == "call" && x.Val == name && !seen[x.String()] {
			seen[x.String()] = true
			out = append(out, x)
		}
		for _, a := range x.Args {
			walk(a)
		}
	}
	walk(t)
	return out
}

// successStores: every return that may carry a nil error lies behind errT == nil and sees the receiver
// holding val.
func successStores(c *Ctx, rule string, fn *ssa.Function, val, errT *flow.Term) {
	e := flow.For(fn)
	n := 0
	for _, r := range flow.Returns(fn) {
		if !mayReturnNil(e, r, errIndex(fn)) {
			continue
		}
		n++
		rk := fmt.Sprintf("%s/success#%d", fnKey(fn), n)
		pc := e.PathCondS(r.Block())
		got := e.SelectAddr(fn.Params[0], nil, r)
		if !flow.Implies(pc, flow.Eq(errT, flow.Nil())) {
			// `if err == nil { *x = v }; return err`: the error handed back is the decode error itself, so the return is a
			// success exactly when it is nil; the receiver content is then judged under that assumption
			ei := errIndex(fn)
			if ei >= 0 && ei < len(r.Results) && e.Select(r.Results[ei], nil, r).Equal(errT) {
				got = got.Specialise(flow.Bin("==", errT, flow.Nil()), true).Specialise(flow.Bin("!=", errT, flow.Nil()), false)
			} else {
				c.Run.Bad(rule, rk+"/after-success", ipos(c, r), "a nil error is returned only when "+errT.String()+" == nil", short(pc.Pretty()))
				continue
			}
		}
		checkTerm(c, rule, rk+"/stored", ipos(c, r), "receiver content at the successful return", got, val)
	}
	if n == 0 {
		c.Run.Unknown(rule, fnKey(fn)+"/success", fpos(c, fn), "a return with a nil error", "none")
	}
}

// ---------------------------------------------------------------------------
// R3

type jsonField struct {
	key     string
	path    string
	depth   int
	tagged  bool
	omit    bool
	typ     types.Type
	skipped string // reason the field never reaches the wire
}

// jsonFields enumerates the fields encoding/json sees for struct st (embedded structs are promoted).
func jsonFields(st *types.Struct, depth int, prefix string, seen map[*types.Struct]bool) []jsonField {
	if seen[st] {
		return nil
	}
	seen[st] = true
	defer delete(seen, st)
	var out []jsonField
	for i := 0; i < st.NumFields(); i++ {
		f := st.Field(i)
		tag := reflect.StructTag(st.Tag(i)).Get("json")
		name, opts, _ := strings.Cut(tag, ",")
		path := prefix + f.Name()
		if tag == "-" {
			out = append(out, jsonField{key: f.Name(), path: path, depth: depth, typ: f.Type(), skipped: `tag "-"`})
			continue
		}
		if f.Embedded() && name == "" {
			t := f.Type()
			if p, ok := t.Underlying().(*types.Pointer); ok {
				t = p.Elem()
			}
			if est, ok := t.Underlying().(*types.Struct); ok {
				out = append(out, jsonFields(est, depth+1, path+".", seen)...)
				continue
			}
		}
		if !f.Exported() {
			out = append(out, jsonField{key: f.Name(), path: path, depth: depth, typ: f.Type(), skipped: "unexported"})
			continue
		}
		jf := jsonField{key: name, path: path, depth: depth, tagged: name != "", typ: f.Type()}
		if jf.key == "" {
			jf.key = f.Name()
		}
		for _, o := range strings.Split(opts, ",") {
			if o == "omitempty" {
				jf.omit = true
			}
		}
		switch f.Type().Underlying().(type) {
		case *types.Chan, *types.Signature:
			jf.skipped = "type cannot be encoded"
		}
		out = append(out, jf)
	}
	return out
}

func c17Tags(c *Ctx) {
	const rule = "R3.tags"
	c.Run.Rule(rule, "no field of a backend payload struct is silently dropped by encoding/json (duplicate or hidden key, tag \"-\", unexported, unencodable) and every MarshalJSON/MarshalText has its Unmarshal sibling")
	pk := c.Prog.Pkg("backend")
	if pk == nil {
		c.Run.Unknown(rule, "backend", "", "package backend loaded", "missing")
		return
	}
	scope := pk.Types.Scope()
	names := scope.Names()
	sort.Strings(names)
	nStructs, nFields, nPtrOmit, nScalarOmit := 0, 0, 0, 0
	for _, n := range names {
		tn, ok := scope.Lookup(n).(*types.TypeName)
		if !ok {
			continue
		}
		// marshal/unmarshal pairing on every named type
		for _, pair := range [][2]string{{"MarshalJSON", "UnmarshalJSON"}, {"MarshalText", "UnmarshalText"}} {
			m := c17HasMethod(tn.Type(), pair[0])
			u := c17HasMethod(types.NewPointer(tn.Type()), pair[1])
			if m || u {
				key := "backend." + n + "/" + pair[0] + "↔" + pair[1]
				pos := c.Prog.Rel(tn.Pos())
				if m && u {
					c.Run.OK(rule, key, pos, "both directions are defined", "defined", false)
				} else if m {
					c.Run.Bad(rule, key, pos, "a type with "+pair[0]+" also defines "+pair[1], "only "+pair[0]+": the custom text form cannot be decoded back")
				} else {
					c.Run.Bad(rule, key, pos, "a type with "+pair[1]+" also defines "+pair[0], "only "+pair[1]+": encode emits the default form that the custom decoder does not parse")
				}
			}
		}
		st, ok := tn.Type().Underlying().(*types.Struct)
		if !ok {
			continue
		}
		hasTag := false
		for i := 0; i < st.NumFields(); i++ {
			if st.Tag(i) != "" || st.Field(i).Embedded() {
				hasTag = true
			}
		}
		if !hasTag {
			continue
		}
		nStructs++
		c.Run.Saw("payload structs (JSON)", n)
		fields := jsonFields(st, 0, "", map[*types.Struct]bool{})
		byKey := map[string][]jsonField{}
		for _, f := range fields {
			nFields++
			key := "backend." + n + "/field:" + f.path
			pos := c.Prog.Rel(tn.Pos())
			if f.skipped != "" {
				c.Run.Bad(rule, key, pos, "field reaches the wire", "never encoded ("+f.skipped+"): its value does not survive a round trip")
				continue
			}
			byKey[f.key] = append(byKey[f.key], f)
			if f.omit {
				if _, isPtr := f.typ.Underlying().(*types.Pointer); isPtr {
					nPtrOmit++
				} else if _, isBasic := f.typ.Underlying().(*types.Basic); isBasic {
					nScalarOmit++
				}
			}
		}
		keys := make([]string, 0, len(byKey))
		for k := range byKey {
			keys = append(keys, k)
		}
		sort.Strings(keys)
		for _, k := range keys {
			fs := byKey[k]
			key := "backend." + n + "/key:" + k
			pos := c.Prog.Rel(tn.Pos())
			if len(fs) == 1 {
				c.Run.OK(rule, key, pos, "JSON key is produced by exactly one field", fs[0].path, len(fields) > 1)
				continue
			}
			var ps []string
			for _, f := range fs {
				ps = append(ps, fmt.Sprintf("%s(depth %d)", f.path, f.depth))
			}
			c.Run.Bad(rule, key, pos, "JSON key is produced by exactly one field", "fields "+strings.Join(ps, ", ")+" share the key: encoding/json keeps at most one of them (none if they tie), the others are lost")
		}
	}
	c.Run.Note("%s: %d structs, %d fields; informational: %d pointer+omitempty optional fields, %d non-pointer scalar omitempty fields (zero ≡ absent; round trip of Go values is unaffected, so no obligation)", rule, nStructs, nFields, nPtrOmit, nScalarOmit)
}

func c17HasMethod(t types.Type, name string) bool {
	ms := types.NewMethodSet(t)
	for i := 0; i < ms.Len(); i++ {
		if ms.At(i).Obj().Name() == name {
			return true
		}
	}
	return false
}

// ---------------------------------------------------------------------------
// R4

func c17Envelope(c *Ctx) {
	const rule = "R4.envelope"
	c.Run.Advisory(rule, "R8.envelope")
	c.Run.Rule(rule, "(shape; advisory, backed by R8.envelope) NewKeyEnvelope: clear key iff kekLabel == \"\" || len(kek) == 0, else keywrap.Wrap(aes.NewCipher(kek), key) with the label; Unwrap: keywrap.Unwrap with the same cipher construction, its error is returned")
	block := func(kek *flow.Term) *flow.Term { return flow.Extract(flow.Call("crypto/aes.NewCipher", kek), 0) }

	if fn := flowFn(c, rule, "backend", "NewKeyEnvelope"); fn != nil {
		key := fnKey(fn)
		e := flow.For(fn)
		A := flow.Eq(flow.Param(0), flow.ConstString(""))
		B := flow.Eq(flow.Call("len", flow.Param(1)), flow.ConstInt(0))
		clearKey := flow.SliceOf(flow.Param(2), nil, nil)
		wrapCall := flow.Call("keywrap.Wrap", block(flow.Param(1)), clearKey)
		wrapped := flow.Extract(wrapCall, 0)
		clearPC, wrapPC := flow.FFalse(), flow.FFalse()
		nClear, nWrap := 0, 0
		for _, r := range flow.Returns(fn) {
			if !mayReturnNil(e, r, 1) {
				continue
			}
			aes := e.Select(r.Results[0], []string{"AESKey"}, r)
			lbl := e.Select(r.Results[0], []string{"KEKLabel"}, r)
			pc := e.PathCond(r.Block(), nil)
			switch {
			case aes.Equal(clearKey):
				nClear++
				clearPC = flow.FOr(clearPC, pc)
				checkTerm(c, rule, fmt.Sprintf("%s/clear#%d/label", key, nClear), ipos(c, r), "KEKLabel of a clear-key envelope (none)", lbl, &flow.Term{Op: "zero"}, flow.ConstString(""))
			case aes.Equal(wrapped):
				nWrap++
				wrapPC = flow.FOr(wrapPC, pc)
				checkTerm(c, rule, fmt.Sprintf("%s/wrapped#%d/label", key, nWrap), ipos(c, r), "KEKLabel of a wrapped envelope", lbl, flow.Param(0))
				if !flow.Implies(pc, flow.Eq(flow.Extract(wrapCall, 1), flow.Nil())) {
					c.Run.Bad(rule, fmt.Sprintf("%s/wrapped#%d/after-success", key, nWrap), ipos(c, r), "the wrapped key is returned only when keywrap.Wrap succeeded", short(pc.Pretty()))
				}
			case aes.IsUnknown() || (termDepth(aes) > 2 && !sameShape(aes, wrapped)) || unknownHelper(aes, []string{wrapped.String()}) != "":
				c.Run.Unknown(rule, key+"/return:AESKey", ipos(c, r), "AESKey = key[:] or keywrap.Wrap(aes.NewCipher(kek), key[:])", aes.String())
			default:
				c.Run.Bad(rule, key+"/return:AESKey", ipos(c, r), "AESKey = key[:] (clear) or keywrap.Wrap(aes.NewCipher(kek), key[:])#0", aes.String())
			}
		}
		if nClear == 0 || nWrap == 0 {
			c.Run.Unknown(rule, key+"/returns", fpos(c, fn), "a clear-key return and a wrapped return", fmt.Sprintf("%d clear, %d wrapped", nClear, nWrap))
		} else {
			compareGuard(c, rule, key+"/clear-guard", fpos(c, fn), "the key is carried in clear", clearPC, flow.FOr(A, B))
			compareGuard(c, rule, key+"/wrap-guard", fpos(c, fn), "the key is wrapped", wrapPC, flow.FAnd(flow.FNot(A), flow.FNot(B)))
		}
		errSwallowRule(c, rule, fn)
	}

	if fn := flowFn(c, rule, "backend", "KeyEnvelope.Unwrap"); fn != nil {
		key := fnKey(fn)
		e := flow.For(fn)
		if s, ok := oneSite(c, rule, key+"/call:keywrap.Unwrap", fn, "keywrap.Unwrap"); ok {
			checkTerm(c, rule, key+"/cipher", ipos(c, s.Instr), "cipher (same construction as NewKeyEnvelope)", s.Args[0], block(flow.Param(1)))
			checkTerm(c, rule, key+"/ciphertext", ipos(c, s.Instr), "ciphertext", s.Args[1], flow.SliceOf(flow.Param(0, "AESKey"), nil, nil))
			ut := e.Term(s.Value())
			n := 0
			for _, r := range flow.Returns(fn) {
				pc := e.PathCond(r.Block(), nil)
				if mayReturnNil(e, r, 1) {
					n++
					rk := fmt.Sprintf("%s/success#%d", key, n)
					if flow.Implies(pc, flow.Eq(flow.Extract(ut, 1), flow.Nil())) {
						c.Run.OK(rule, rk+"/after-success", ipos(c, r), "success only when keywrap.Unwrap's integrity check passed", short(pc.Pretty()), true)
					} else {
						c.Run.Bad(rule, rk+"/after-success", ipos(c, r), "success only when keywrap.Unwrap's integrity check passed", short(pc.Pretty()))
					}
					checkTerm(c, rule, rk+"/key", ipos(c, r), "returned key", e.Select(r.Results[0], nil, r), flow.CopyOf(flow.Extract(ut, 0)))
				}
			}
			if n == 0 {
				c.Run.Unknown(rule, key+"/success", fpos(c, fn), "a return with a nil error", "none")
			}
		}
		errSwallowRule(c, rule, fn)
	}
}

// c17ForeignText (R6): payload structs of package backend carry values of root-package types whose JSON form is their
// text codec (EUI64, DevAddr, NetID, AES128Key, DLSettings …). For every such type that occurs in a payload field the
// text pair must be an inverse pair: the four identifier types follow the identifier codec rule (hex, optional 0x,
// exact length), every other type delegates both ways to its binary codec through encoding/hex without touching the
// text (no trimming of characters that the encoder can produce).
func c17ForeignText(c *Ctx) {
	const rule = "R6.foreign-text"
	r := c.Run
	r.Rule(rule, "text codecs of root-package types used in backend payload fields: identifiers = hex with optional 0x and exact length; other types: MarshalText = hex(MarshalBinary(v)), UnmarshalText = UnmarshalBinary(hex.DecodeString(string(text))) only when the hex decoding succeeded")
	pk := c.Prog.Pkg("backend")
	if pk == nil {
		r.Unknown(rule, "backend", "", "package loaded", "missing")
		return
	}
	found := map[string]*types.Named{}
	var visit func(t types.Type, depth int)
	seen := map[types.Type]bool{}
	visit = func(t types.Type, depth int) {
		if depth > 6 || seen[t] {
			return
		}
		seen[t] = true
		switch u := t.(type) {
		case *types.Pointer:
			visit(u.Elem(), depth+1)
		case *types.Slice:
			visit(u.Elem(), depth+1)
		case *types.Array:
			visit(u.Elem(), depth+1)
		case *types.Map:
			visit(u.Elem(), depth+1)
		case *types.Named:
			if u.Obj().Pkg() != nil && u.Obj().Pkg().Path() == "github.com/brocaar/lorawan" {
				if c17HasMethod(u, "MarshalText") || c17HasMethod(types.NewPointer(u), "UnmarshalText") {
					found[u.Obj().Name()] = u
					return
				}
			}
			if st, ok := u.Underlying().(*types.Struct); ok {
				for i := 0; i < st.NumFields(); i++ {
					visit(st.Field(i).Type(), depth+1)
				}
			}
		case *types.Struct:
			for i := 0; i < u.NumFields(); i++ {
				visit(u.Field(i).Type(), depth+1)
			}
		}
	}
	scope := pk.Types.Scope()
	for _, n := range scope.Names() {
		if tn, ok := scope.Lookup(n).(*types.TypeName); ok {
			visit(tn.Type(), 0)
		}
	}
	names := make([]string, 0, len(found))
	for n := range found {
		names = append(names, n)
	}
	sort.Strings(names)
	ids := map[string]int64{"EUI64": 8, "DevAddr": 4, "NetID": 3, "AES128Key": 16}
	// the identifier types: one recognised way of writing the codecs (R6.id-codecs), backed by the exact rules on
	// symbolic texts and byte slices (the same ones C11 runs)
	r.Rule("R6.id-codecs", "EUI64/DevAddr/NetID/AES128Key: hex.EncodeToString / hex.DecodeString after trimming one 0x; decoded length == array length before copy; Scan needs []byte (checked) of exact length; Value returns a slice of a copy")
	c11TextE1(c, "R6.id-text")
	c11SQLE1(c, "R6.id-sql")
	r.Advisory("R6.id-codecs", "R6.id-text", "R6.id-sql")
	for _, n := range names {
		r.Saw("root-package types with a text form used in backend payloads", n)
		if k, ok := ids[n]; ok {
			codecRules(c, "R6.id-codecs", n, k)
			continue
		}
		lt := "lorawan." + n
		if fn := flowFn(c, rule, "", n+".MarshalText"); fn != nil {
			e := flow.For(fn)
			bin := flow.Call("("+lt+").MarshalBinary", flow.Param(0))
			want := flow.Conv("[]byte", flow.Call("encoding/hex.EncodeToString", flow.Extract(bin, 0)))
			k := 0
			for _, ret := range flow.Returns(fn) {
				if !mayReturnNil(e, ret, errIndex(fn)) {
					continue
				}
				k++
				checkTerm(c, rule, fmt.Sprintf("%s/success#%d", fnKey(fn), k), ipos(c, ret), "text form", e.Select(ret.Results[0], nil, ret), want)
			}
		}
		if fn := flowFn(c, rule, "", n+".UnmarshalText"); fn != nil {
			e := flow.For(fn)
			dec := flow.Call("encoding/hex.DecodeString", flow.Conv("string", flow.Param(1)))
			sites := flow.Calls(fn, flow.Named("(*"+lt+").UnmarshalBinary"))
			r.Check(len(sites) == 1, rule, fnKey(fn)+"/decode-sites", fpos(c, fn), "exactly one call of UnmarshalBinary", fmt.Sprintf("%d calls", len(sites)), true)
			for i, s := range sites {
				key := fmt.Sprintf("%s/decode#%d", fnKey(fn), i+1)
				if len(s.Args) == 2 {
					checkTerm(c, rule, key+"/input", ipos(c, s.Instr), "decoded bytes", s.Args[1], flow.Extract(dec, 0))
				}
				pc := e.PathCond(s.Instr.Block(), nil)
				r.Check(flow.Implies(pc, flow.Eq(flow.Extract(dec, 1), flow.Nil())), rule, key+"/guard", ipos(c, s.Instr), "reached only when the hex decoding returned no error", pc.String(), true)
			}
		}
	}
	if len(names) == 0 {
		r.Unknown(rule, "backend", "", "payload fields of root-package types with a text form", "none found")
	}
}
