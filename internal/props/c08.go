package props

import (
	"fmt"
	"go/token"
	"go/types"
	"strings"

	"golang.org/x/tools/go/ssa"

	"lwverif/internal/absint"
)

func init() { Register("C08", checkC08) }

// fixBits returns a byte value whose listed bits are constants and the others the symbol's bits.
func fixBits(in *absint.Interp, sym *absint.Bits, fixed map[int]bool) *absint.Bits {
	b := append([]absint.Node{}, sym.Bits()...)
	for i, v := range fixed {
		if v {
			b[i] = absint.True
		} else {
			b[i] = absint.False
		}
	}
	return absint.MakeBits(8, false, b)
}

func byteBits(val int, lo, hi int) map[int]bool {
	m := map[int]bool{}
	for i := lo; i <= hi; i++ {
		m[i] = (val>>(uint(i-lo)))&1 == 1
	}
	return m
}

type wireCfg struct {
	name  string
	mtype int
	L     int
	nib   int // FOptsLen nibble for data frames, -1 otherwise
	rj    int // rejoin type byte: 0,1,2 fixed; 3 = region 3..255; -1 n/a
}

func checkC08(c *Ctx) {
	r := c.Run
	r.Exhaustive = true
	r.Explanation = "Decides C08 with the bit-precise abstract interpreter (engine E1), in the decode-then-encode direction: for every MType, every total length 0..44 and (data frames) every FOptsLen nibble 0..15 — i.e. every order type of the length comparisons in the decoders — PHYPayload.UnmarshalBinary is interpreted on fully symbolic bytes (the three reserved MHDR bits zero as the property states, the nibble and the MType bits fixed per configuration), giving the decoder's accept condition as a BDD over the input bits; PHYPayload.MarshalBinary is then interpreted on the abstract decoded frame. Proved for all byte values of each configuration at once: (R2) wherever the decoder accepts the encoder does not refuse, (R1) the re-encoding has the same length and every bit equals the input bit. A refutation carries a concrete input frame. Lengths above 44 add no new order type (FOpts <= 15, header 12)."
	r.Trusted = []string{"internal/absint BDD domain and operator semantics", "models of encoding/binary, append, copy, make"}
	r.Rule("R1.wire-identity", "encode(decode(b)) = b bit for bit wherever the decoder accepts and the encoder does not refuse")
	r.Rule("R3.total", "decoding any byte string of any length 0..44 (and re-encoding an accepted one) never runs into an index/slice/nil panic")
	r.Rule("R2.accept-containment", "every byte string the decoder accepts can be re-encoded without error")
	var cfgs []wireCfg
	for mt := 0; mt < 8; mt++ {
		for L := 0; L <= 44; L++ {
			switch mt {
			case 2, 3, 4, 5:
				for n := 0; n <= 15; n++ {
					cfgs = append(cfgs, wireCfg{fmt.Sprintf("mtype%d/len%d/foptslen%d", mt, L, n), mt, L, n, -1})
				}
			case 6:
				for rj := 0; rj <= 3; rj++ {
					cfgs = append(cfgs, wireCfg{fmt.Sprintf("mtype%d/len%d/rejointype%s", mt, L, []string{"0", "1", "2", "3..255"}[rj]), mt, L, -1, rj})
				}
			default:
				cfgs = append(cfgs, wireCfg{fmt.Sprintf("mtype%d/len%d", mt, L), mt, L, -1, -1})
			}
		}
	}
	accepted := 0
	for _, cf := range cfgs {
		in := absint.NewInterp(c.Prog)
		d := in.D
		T := in.NamedType("", "PHYPayload")
		data := in.SymBytes("data", cf.L)
		care := absint.True
		if cf.L > 0 {
			fx := byteBits(cf.mtype, 5, 7)
			for i := 2; i <= 4; i++ {
				fx[i] = false
			}
			data.At(0).V = fixBits(in, data.At(0).V.(*absint.Bits), fx)
		}
		if cf.nib >= 0 && cf.L > 5 {
			data.At(5).V = fixBits(in, data.At(5).V.(*absint.Bits), byteBits(cf.nib, 0, 3))
		}
		if cf.rj >= 0 && cf.L > 1 {
			if cf.rj < 3 {
				data.At(1).V = d.Const(int64(cf.rj), 8, false)
			} else {
				care = d.M.And(care, d.Cmp(token.GEQ, data.At(1).V.(*absint.Bits), d.Const(3, 8, false)))
			}
		}
		snap := make([]absint.Value, cf.L)
		for i := range snap {
			snap[i] = data.At(i).V
		}
		// work list of input-space parts (trace partitioning on request of the interpreter)
		type part struct {
			care absint.Node
			name string
		}
		work := []part{{care, cf.name}}
		for len(work) > 0 {
			pt := work[0]
			work = work[1:]
			split := func(err error) bool {
				sr, ok := err.(absint.SplitRequest)
				if !ok || len(pt.name) > len(cf.name)+12 {
					return false
				}
				work = append(work, part{d.M.And(pt.care, sr.Cond), pt.name + "+"}, part{d.M.And(pt.care, d.M.Not(sr.Cond)), pt.name + "-"})
				return true
			}
			c08Part(c, in, T, data, snap, cf, pt.care, pt.name, &accepted, split)
		}
	}
	r.Note("configurations: %d, of which %d have a non-empty decoder accept set", len(cfgs), accepted)
	// "without it changing": the decoded frame keeps no reference into the received buffer (effects engine)
	r.Rule("R4.noretain", "the frame decoders of the root package store nothing that reaches their input slice into the decoded frame: re-encoding gives the received bytes even after the receive buffer is reused")
	noRetainObligations(c, effectsFor(c.Prog), "R4.noretain", func(f *ssa.Function) bool {
		return f.Pkg != nil && f.Pkg == c.Prog.SSAPkg("") && strings.HasPrefix(f.Name(), "UnmarshalBinary")
	})
}

// witnessBytes renders a satisfying assignment as a hex frame.
func witnessBytes(in *absint.Interp, f absint.Node, cf wireCfg, okText string) string {
	L := cf.L
	if f == absint.False {
		return okText
	}
	as, ok := in.D.M.AnySat(f)
	if !ok {
		return okText
	}
	out := make([]byte, L)
	for i := 0; i < L; i++ {
		si := in.D.SymInfo(fmt.Sprintf("data[%d]", i))
		if si == nil {
			continue
		}
		for b, vi := range si.Vars {
			if as[vi] {
				out[i] |= 1 << uint(b)
			}
		}
	}
	if L > 0 {
		out[0] = out[0]&0x03 | byte(cf.mtype)<<5
	}
	if cf.nib >= 0 && L > 5 {
		out[5] = out[5]&0xf0 | byte(cf.nib)
	}
	if cf.rj >= 0 && cf.rj < 3 && L > 1 {
		out[1] = byte(cf.rj)
	}
	return fmt.Sprintf("counterexample frame: % x", out)
}

func c08Part(c *Ctx, in *absint.Interp, T types.Type, data *absint.Slice, snap []absint.Value, cf wireCfg, care absint.Node, name string, accepted *int, split func(error) bool) {
	r := c.Run
	d := in.D
	if care == absint.False {
		return
	}
	recv := &absint.Cell{V: in.Zero(T)}
	var dec, enc []absint.Value
	in.SetLive(care)
	if err := in.Try(func() { dec = in.CallMethod(recv, T, "UnmarshalBinary", data) }); err != nil {
		if split(err) {
			return
		}
		if pe, ok := err.(absint.Panic); ok {
			r.Bad("R3.total", name, "", "the frame decoder returns a value or an error for every input of this length", pe.Why+"; e.g. "+witnessBytes(in, pe.Cond, cf, "any input of this configuration"))
			return
		}
		r.Unknown("R2.accept-containment", name, "", "decoder inside the interpreter's subset", err.Error())
		return
	}
	r.OK("R3.total", name, "", "the frame decoder returns a value or an error for every input of this length", "interpreted to completion for all byte values", true)
	de, _ := dec[0].(*absint.ErrVal)
	A := care
	if de != nil {
		A = d.M.And(care, d.M.Not(de.NonNil))
	}
	if A == absint.False {
		r.OK("R2.accept-containment", name, "", "decoder rejects or encoder accepts", "decoder rejects every input of this configuration", false)
		return
	}
	*accepted++
	in.SetLive(A)
	if err := in.Try(func() { enc = in.CallMethod(&absint.Cell{V: recv.V}, T, "MarshalBinary") }); err != nil {
		if split(err) {
			return
		}
		if pe, ok := err.(absint.Panic); ok {
			r.Bad("R3.total", name+"/encode", "", "re-encoding an accepted frame does not panic", pe.Why+"; e.g. "+witnessBytes(in, pe.Cond, cf, "any accepted input"))
			return
		}
		r.Unknown("R2.accept-containment", name, "", "encoder inside the interpreter's subset", err.Error())
		return
	}
	ee, _ := enc[1].(*absint.ErrVal)
	refuse := absint.False
	if ee != nil {
		refuse = d.M.And(A, ee.NonNil)
	}
	r.Check(refuse == absint.False, "R2.accept-containment", name, c.Prog.Rel(c.Prog.Pkg("").Types.Scope().Lookup("PHYPayload").Pos()),
		"every accepted input re-encodes without error", witnessBytes(in, refuse, cf, "encoder never refuses"), true)
	ok := d.M.And(A, d.M.Not(refuse))
	if ee != nil {
		ok = d.M.And(A, d.M.Not(ee.NonNil))
	}
	if ok == absint.False {
		return
	}
	out, isSlice := enc[0].(*absint.Slice)
	if !isSlice {
		r.Unknown("R1.wire-identity", name, "", "encoder returns bytes", fmt.Sprintf("%T", enc[0]))
		return
	}
	if out.Len() != cf.L {
		r.Bad("R1.wire-identity", name, "", fmt.Sprintf("re-encoding has %d bytes", cf.L), fmt.Sprintf("%d bytes, e.g. for input %s", out.Len(), witnessBytes(in, ok, cf, "")))
		return
	}
	good, why := true, fmt.Sprintf("all %d bytes identical for every accepted input", cf.L)
	in.SetLive(ok)
	for i := 0; i < cf.L && good; i++ {
		var same bool
		var w string
		if err := in.Try(func() { same, w = sameValue(in, out.At(i).V, snap[i], ok) }); err != nil {
			good, why = false, err.Error()
			break
		}
		if !same {
			good, why = false, fmt.Sprintf("byte %d: %s", i, w)
		}
	}
	r.Check(good, "R1.wire-identity", name, "", "encode(decode(b)) = b", why, true)
}
