package props

import (
	"fmt"

	"lwverif/internal/absint"
	"lwverif/internal/core"
	"lwverif/internal/load"
)

func init() {
	dumpers["codec"] = func(p *load.Program, args []string) {
		if len(args) < 2 {
			fmt.Println("dump codec <pkg-rel|.> <Type> [msb]")
			return
		}
		rel := args[0]
		if rel == "." {
			rel = ""
		}
		in := absint.NewInterp(p)
		T := in.NamedType(rel, args[1])
		if T == nil {
			fmt.Println("type not found")
			return
		}
		msb := len(args) > 2
		var enc []absint.Value
		val := in.Sym("p", T, msb)
		cell := &absint.Cell{V: val}
		err := in.Try(func() { enc = in.CallMethod(cell, T, "MarshalBinary") })
		if err != nil {
			fmt.Println("ENC UNDECIDED:", err)
			return
		}
		fmt.Println("ENC result:", in.Show(enc[0]))
		fmt.Println("ENC error :", in.Show(enc[1]))
		if ev, ok := enc[1].(*absint.ErrVal); ok {
			fmt.Println("  reject witness:", in.D.Witness(ev.NonNil))
		}
		out := &absint.Cell{V: in.Zero(T)}
		var dec []absint.Value
		err = in.Try(func() {
			ev := enc[1].(*absint.ErrVal)
			in.SetLive(in.D.M.Not(ev.NonNil))
			dec = in.CallMethod(out, T, "UnmarshalBinary", enc[0])
		})
		if err != nil {
			fmt.Println("DEC UNDECIDED:", err)
			return
		}
		fmt.Println("DEC(ENC) :", in.Show(out.V))
		fmt.Println("DEC error:", in.Show(dec[0]))
		fmt.Println("bdd nodes:", in.D.M.Size())
	}
}

func init() {
	dumpers["facts"] = func(p *load.Program, args []string) {
		c := &Ctx{Prog: p}
		sets := map[string][]ws{"mac": macSpecs, "frame": frameSpecs}
		which := "mac"
		if len(args) > 0 {
			which = args[0]
		}
		for _, s := range sets[which] {
			if len(args) > 1 && args[1] != s.Type {
				continue
			}
			r := runCodec(c, s)
			ok, bad, und := 0, 0, 0
			for _, f := range r.Facts {
				switch {
				case f.Undec:
					und++
				case f.OK:
					ok++
				default:
					bad++
				}
			}
			fmt.Printf("== %s: ok=%d bad=%d undecided=%d nodes=%d\n", s.name(), ok, bad, und, r.Nodes)
			for _, f := range r.Facts {
				if f.Undec {
					fmt.Printf("   UNDECIDED %s %s: %s\n", f.Clause, f.Key, f.Got)
				} else if !f.OK {
					fmt.Printf("   BAD %s %s\n        want %s\n        got  %s\n", f.Clause, f.Key, f.Want, f.Got)
				}
			}
		}
	}
}

func init() {
	dumpers["app"] = func(p *load.Program, args []string) {
		c := &Ctx{Prog: p}
		for _, s := range appSpecs {
			if len(args) > 0 && args[0] != s.Type {
				continue
			}
			r := runApp(c, s)
			ok, bad, und := 0, 0, 0
			for _, f := range r.Facts {
				switch {
				case f.Undec:
					und++
				case f.OK:
					ok++
				default:
					bad++
				}
			}
			fmt.Printf("== %s: ok=%d bad=%d undecided=%d nodes=%d\n", s.name(), ok, bad, und, r.Nodes)
			for _, f := range r.Facts {
				if f.Undec {
					fmt.Printf("   UNDECIDED %s %s: %s\n", f.Clause, f.Key, f.Got)
				} else if !f.OK {
					fmt.Printf("   BAD %s %s\n        want %s\n        got  %s\n", f.Clause, f.Key, f.Want, f.Got)
				}
			}
		}
	}
}

func init() {
	dumpers["c16keys"] = func(p *load.Program, args []string) {
		c := &Ctx{Prog: p, Run: core.NewRun("C16", "quick")}
		c16KeyBlocksE1(c, "R1.keyblocks")
		for _, o := range c.Run.Obls {
			if o.Status != core.Discharged {
				fmt.Println(o.Status, o.Key, o.Want, o.Got)
			}
		}
		fmt.Println("obligations:", len(c.Run.Obls))
	}
}

func init() {
	// lwstatic dump e1band <Name>: interpret band.GetConfig(name, false, DwellTimeNoLimit) in E1 and show the result kind
	dumpers["e1band"] = func(p *load.Program, args []string) {
		if len(args) < 1 {
			fmt.Println("dump e1band <name>")
			return
		}
		in := absint.NewInterp(p)
		var res []absint.Value
		err := in.Try(func() {
			res = in.CallFunc("band", "GetConfig", &absint.StrVal{Known: true, S: args[0]}, in.D.Bool(absint.False), in.D.Const(0, 64, true))
		})
		if err != nil {
			fmt.Println("UNDECIDED:", err)
			return
		}
		fmt.Println("error:", in.Show(res[1]))
		s := in.Show(res[0])
		if len(s) > 600 {
			s = s[:600]
		}
		fmt.Println("band :", s)
	}
}

func init() {
	// lwstatic dump e1join: interpret joinserver.handleJoinRequestWrapper on a symbolic join-request (feasibility probe)
	dumpers["e1join"] = func(p *load.Program, args []string) {
		in := absint.NewInterp(p)
		st, err := c16JoinInputs(in, true, true, true)
		if err != nil {
			fmt.Println("inputs:", err)
			return
		}
		if len(args) > 0 && args[0] == "err" {
			var res []absint.Value
			e := in.Try(func() {
				in.SetLive(in.D.M.Not(st.micOK))
				res = in.CallFunc("backend/joinserver", "handleJoinRequest", st.req, st.dk, st.asLabel, st.asKEK, st.nsLabel, st.nsKEK)
			})
			if e != nil {
				fmt.Println("UNDECIDED:", e)
				return
			}
			var wres []absint.Value
			e = in.Try(func() {
				in.SetLive(in.D.M.Not(st.micOK))
				wres = in.CallFunc("backend/joinserver", "handleJoinRequestWrapper", st.req, st.dk, st.asLabel, st.asKEK, st.nsLabel, st.nsKEK)
			})
			if e != nil {
				fmt.Println("wrapper UNDECIDED:", e)
			} else {
				fmt.Println("wrapper result code:", in.Show(c16Field(wres[0], "BasePayloadResult", "Result", "ResultCode")))
			}
			if ev, ok := res[1].(*absint.ErrVal); ok {
				fmt.Printf("NonNil=%s Tag=%q Cause=%q\n", in.D.Describe(ev.NonNil), ev.Tag, ev.Cause)
				for t, c := range ev.TagG {
					fmt.Printf("  TagG %s: %s\n", t, in.D.Describe(c))
				}
				for t, c := range ev.CauseG {
					fmt.Printf("  CauseG %s: %s\n", t, in.D.Describe(c))
				}
			} else {
				fmt.Printf("%T\n", res[1])
			}
			return
		}
		n := 0
		forParts(in, st.dom, 10, func(dom absint.Node, tag string) error {
			var res []absint.Value
			if e := in.Try(func() {
				in.SetLive(dom)
				res = in.CallFunc("backend/joinserver", "handleJoinRequestWrapper", st.req, st.dk, st.asLabel, st.asKEK, st.nsLabel, st.nsKEK)
			}); e != nil {
				return e
			}
			n++
			s := in.Show(res[0])
			if len(s) > 1500 {
				s = s[:1500]
			}
			fmt.Printf("PART %q: %s\n", tag, s)
			return nil
		}, func(tag string, e error) { fmt.Printf("PART %q UNDECIDED: %v\n", tag, e) })
		fmt.Println("parts:", n)
	}
}
